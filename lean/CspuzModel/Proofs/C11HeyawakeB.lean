/-
  C11 / Heyawake, part B — closed form of the second loop of `solve_heyawake` (`cellCs`: the "two consecutive
  room borders" constraints), of the two graph constraints, and of the whole posted program (`program_eq`).
-/
import CspuzModel.Proofs.C11HeyawakeA
import CspuzModel.Properties.C04
import CspuzModel.Proofs.C08Adj
import CspuzModel.Proofs.C11Grid
import CspuzModel.Proofs.C11FragWT
namespace Cspuz.Proofs.C11HeyawakeB
open Cspuz Cspuz.Spec Cspuz.Puzzles Cspuz.Puzzles.Heyawake Cspuz.Spec.Heyawake Cspuz.Proofs
open Cspuz.Proofs.C11HeyawakeA

/-! ### `fold_or` of a non-empty list of variables -/

theorem foldOr_go_bvars {ι : Type} (f : ι → Nat) : ∀ (L : List ι) (acc : List Expr),
    foldOr.go (L.map fun p => Expr.bvar (f p)) acc =
      .ok (if (acc.reverse ++ L.map fun p => Expr.bvar (f p)).isEmpty then .node .boolConst [.litB false]
           else .node .or (acc.reverse ++ L.map fun p => Expr.bvar (f p)))
  | [], acc => by
    simp only [List.map_nil, List.append_nil, foldOr.go]
    by_cases h : acc.isEmpty = true
    · have : acc = [] := by simpa using h
      subst this; rfl
    · simp [h]
  | c :: L, acc => by
    have := foldOr_go_bvars f L (.bvar (f c) :: acc)
    simp only [List.map_cons, foldOr.go, Expr.isBoolExpr, if_true] at this ⊢
    rw [this]
    simp

theorem foldOrA_bvars {ι : Type} (f : ι → Nat) (L : List ι) (hL : L ≠ []) :
    foldOrA [.leaf (.arr1 true (L.map fun p => Expr.bvar (f p)))] = .ok (.node .or (L.map fun p => Expr.bvar (f p))) := by
  simp only [foldOrA, ANest.flattenList, ANest.flatten, PyV.flat, List.append_nil, foldOr]
  rw [foldOr_go_bvars]
  simp [hL]

/-! ### the pieces of `cellCs` -/

/-- The vertical half of the loop body for the cell `(y, x)` whose room index is `r`. -/
def vertPart (pb : Problem) (isBlack : PyV) (rid : List (List Int)) (y x r : Int) : Py (List Expr) :=
  let h : Int := pb.height
  if y < h - 1 then do
    let r' ← tableGet rid (y + 1) x
    if r != r' then do
      match ← firstBorder (fun y2 => do
          let a ← tableGet rid y2 x
          let b ← tableGet rid (y2 + 1) x
          .ok (a != b)) (y + 1) (h - 1) with
      | some y2 => do
        let s ← getitemV isBlack (.pair (sl (some y) (some (y2 + 2))) (.idx x))
        let e ← foldOrA [.leaf s]
        ensureV (.scalar e)
      | none => .ok []
    else .ok []
  else .ok []

/-- The horizontal half. -/
def horizPart (pb : Problem) (isBlack : PyV) (rid : List (List Int)) (y x r : Int) : Py (List Expr) :=
  let w : Int := pb.width
  if x < w - 1 then do
    let r' ← tableGet rid y (x + 1)
    if r != r' then do
      match ← firstBorder (fun x2 => do
          let a ← tableGet rid y x2
          let b ← tableGet rid y (x2 + 1)
          .ok (a != b)) (x + 1) (w - 1) with
      | some x2 => do
        let s ← getitemV isBlack (.pair (.idx y) (sl (some x) (some (x2 + 2))))
        let e ← foldOrA [.leaf s]
        ensureV (.scalar e)
      | none => .ok []
    else .ok []
  else .ok []

theorem cellCs_unfold (pb : Problem) (isBlack : PyV) (rid : List (List Int)) (p : Nat × Nat) :
    cellCs pb isBlack rid p = (do
      let r ← tableGet rid (p.1 : Int) (p.2 : Int)
      if r == -1 then .error .valueError else do
      let c1 ← vertPart pb isBlack rid p.1 p.2 r
      let c2 ← horizPart pb isBlack rid p.1 p.2 r
      .ok (c1 ++ c2)) := by
  unfold cellCs vertPart horizPart
  simp only [bind, Except.bind]
  repeat' split
  all_goals first | rfl | simp_all

/-- There is a room border below the cell `(k, x)`. -/
def dV (pb : Problem) (x k : Nat) : Bool := (roomOf pb k x : Int) != (roomOf pb (k + 1) x : Int)
/-- There is a room border to the right of the cell `(y, k)`. -/
def dH (pb : Problem) (y k : Nat) : Bool := (roomOf pb y k : Int) != (roomOf pb y (k + 1) : Int)

theorem dV_iff {pb : Problem} {x k : Nat} : dV pb x k = true ↔ BorderBelow pb k x := by
  simp [dV, BorderBelow]

theorem dH_iff {pb : Problem} {y k : Nat} : dH pb y k = true ↔ BorderRight pb y k := by
  simp [dH, BorderRight]

/-- `fold_or(is_black[y:(y2+2), x])` -/
def colE (w y x y2 : Nat) : Expr :=
  .node .or (((List.range (y2 + 2 - y)).map fun j => y + j).map fun r => Expr.bvar (r * w + x))
/-- `fold_or(is_black[y, x:(x2+2)])` -/
def rowE (w y x x2 : Nat) : Expr :=
  .node .or (((List.range (x2 + 2 - x)).map fun j => x + j).map fun c => Expr.bvar (y * w + c))

/-- The constraints posted by the vertical half for the cell `(y, x)`. -/
def cellV (pb : Problem) (y x : Nat) : List Expr :=
  if y + 1 < pb.height then
    if dV pb x y = true then
      match firstB (dV pb x) (y + 1) (pb.height - 1 - (y + 1)) with
      | some k => [colE pb.width y x k]
      | none => []
    else []
  else []

/-- The constraints posted by the horizontal half for the cell `(y, x)`. -/
def cellH (pb : Problem) (y x : Nat) : List Expr :=
  if x + 1 < pb.width then
    if dH pb y x = true then
      match firstB (dH pb y) (x + 1) (pb.width - 1 - (x + 1)) with
      | some k => [rowE pb.width y x k]
      | none => []
    else []
  else []

theorem tg {h w : Nat} {rid : List (List Int)} {f : Nat → Nat → Int} (hr : Rep h w rid f) {y x : Nat}
    (hy : y < h) (hx : x < w) (a b : Int) (ha : a = (y : Int)) (hb : b = (x : Int)) :
    tableGet rid a b = .ok (f y x) := by
  subst ha hb
  exact tableGet_rep hr hy hx

theorem colPost (h w y x k : Nat) (hx : x < w) (hyk : y ≤ k) (hk : k + 2 ≤ h) :
    (do let s ← getitemV (.arr2 true h w (bvars 0 (h * w)))
              (.pair (sl (some (y : Int)) (some (((k : Nat) : Int) + 2))) (.idx (x : Int)))
        let e ← foldOrA [.leaf s]
        ensureV (.scalar e) : Py (List Expr)) = .ok [colE w y x k] := by
  have hax : axisSel h (sl (some (y : Int)) (some (((k : Nat) : Int) + 2)))
      = .ok (false, (List.range (k + 2 - y)).map fun j => y + j) :=
    C11CL.axisSel_range' h _ _ y (k + 2) rfl (by push_cast; rfl) (by omega) hk
  rw [bvars_eq, C11CL.getitemV_col true Expr.bvar h w _ x _ hx hax (by
    intro r hr
    simp only [List.mem_map, List.mem_range] at hr
    obtain ⟨j, hj, rfl⟩ := hr
    omega), ok_bind]
  rw [foldOrA_bvars (fun r => r * w + x) _ (by
    have : 0 < k + 2 - y := by omega
    intro h0
    have := congrArg List.length h0
    simp at this; omega), ok_bind, C11CL.ensureV_scalar _ rfl]
  rfl

theorem rowPost (h w y x k : Nat) (hy : y < h) (hxk : x ≤ k) (hk : k + 2 ≤ w) :
    (do let s ← getitemV (.arr2 true h w (bvars 0 (h * w)))
              (.pair (.idx (y : Int)) (sl (some (x : Int)) (some (((k : Nat) : Int) + 2))))
        let e ← foldOrA [.leaf s]
        ensureV (.scalar e) : Py (List Expr)) = .ok [rowE w y x k] := by
  have hax : axisSel w (sl (some (x : Int)) (some (((k : Nat) : Int) + 2)))
      = .ok (false, (List.range (k + 2 - x)).map fun j => x + j) :=
    C11CL.axisSel_range' w _ _ x (k + 2) rfl (by push_cast; rfl) (by omega) hk
  rw [bvars_eq, C11CL.getitemV_row true Expr.bvar h w y _ _ hy hax (by
    intro r hr
    simp only [List.mem_map, List.mem_range] at hr
    obtain ⟨j, hj, rfl⟩ := hr
    omega), ok_bind]
  rw [foldOrA_bvars (fun c => y * w + c) _ (by
    have : 0 < k + 2 - x := by omega
    intro h0
    have := congrArg List.length h0
    simp at this; omega), ok_bind, C11CL.ensureV_scalar _ rfl]
  rfl

theorem vert_eq {pb : Problem} {rid : List (List Int)}
    (hr : Rep pb.height pb.width rid (fun y x => (roomOf pb y x : Int))) {y x : Nat}
    (hy : y < pb.height) (hx : x < pb.width) :
    vertPart pb (.arr2 true pb.height pb.width (bvars 0 (pb.height * pb.width))) rid (y : Int) (x : Int)
      (roomOf pb y x : Int) = .ok (cellV pb y x) := by
  unfold vertPart cellV
  simp only
  by_cases h1 : y + 1 < pb.height
  · rw [if_pos (by omega), if_pos h1]
    rw [tg hr (y := y + 1) (x := x) h1 hx _ _ (by push_cast; rfl) rfl, ok_bind]
    by_cases h2 : dV pb x y = true
    · rw [if_pos h2, if_pos (by simpa [dV] using h2)]
      rw [firstBorder_eq _ (dV pb x) (y + 1) (pb.height - 1) _ _ (by push_cast; rfl) (by omega) (by
        intro k hk1 hk2
        rw [tg hr (y := k) (x := x) (by omega) hx _ _ rfl rfl, ok_bind,
          tg hr (y := k + 1) (x := x) (by omega) hx _ _ (by push_cast; rfl) rfl, ok_bind]
        rfl), ok_bind]
      cases hfb : firstB (dV pb x) (y + 1) (pb.height - 1 - (y + 1)) with
      | none => rfl
      | some k =>
        obtain ⟨g1, g2, _, _⟩ := firstB_some.1 hfb
        dsimp only [Option.map_some]
        exact colPost pb.height pb.width y x k hx (by omega) (by omega)
    · rw [if_neg h2, if_neg (by simpa [dV] using h2)]
  · rw [if_neg (by omega), if_neg h1]

theorem horiz_eq {pb : Problem} {rid : List (List Int)}
    (hr : Rep pb.height pb.width rid (fun y x => (roomOf pb y x : Int))) {y x : Nat}
    (hy : y < pb.height) (hx : x < pb.width) :
    horizPart pb (.arr2 true pb.height pb.width (bvars 0 (pb.height * pb.width))) rid (y : Int) (x : Int)
      (roomOf pb y x : Int) = .ok (cellH pb y x) := by
  unfold horizPart cellH
  simp only
  by_cases h1 : x + 1 < pb.width
  · rw [if_pos (by omega), if_pos h1]
    rw [tg hr (y := y) (x := x + 1) hy h1 _ _ rfl (by push_cast; rfl), ok_bind]
    by_cases h2 : dH pb y x = true
    · rw [if_pos h2, if_pos (by simpa [dH] using h2)]
      rw [firstBorder_eq _ (dH pb y) (x + 1) (pb.width - 1) _ _ (by push_cast; rfl) (by omega) (by
        intro k hk1 hk2
        rw [tg hr (y := y) (x := k) hy (by omega) _ _ rfl rfl, ok_bind,
          tg hr (y := y) (x := k + 1) hy (by omega) _ _ rfl (by push_cast; rfl), ok_bind]
        rfl), ok_bind]
      cases hfb : firstB (dH pb y) (x + 1) (pb.width - 1 - (x + 1)) with
      | none => rfl
      | some k =>
        obtain ⟨g1, g2, _, _⟩ := firstB_some.1 hfb
        dsimp only [Option.map_some]
        exact rowPost pb.height pb.width y x k hy (by omega) (by omega)
    · rw [if_neg h2, if_neg (by simpa [dH] using h2)]
  · rw [if_neg (by omega), if_neg h1]

theorem cellCs_eq {pb : Problem} {rid : List (List Int)}
    (hr : Rep pb.height pb.width rid (fun y x => (roomOf pb y x : Int))) {y x : Nat}
    (hy : y < pb.height) (hx : x < pb.width) :
    cellCs pb (.arr2 true pb.height pb.width (bvars 0 (pb.height * pb.width))) rid (y, x)
      = .ok (cellV pb y x ++ cellH pb y x) := by
  rw [cellCs_unfold]
  simp only
  rw [tableGet_rep hr hy hx, ok_bind, if_neg (by simp), vert_eq hr hy hx, ok_bind, horiz_eq hr hy hx]
  rfl

/-! ### the two graph constraints -/

/-- The constraints of `graph.active_vertices_not_adjacent(solver, is_black)`. -/
def naCs (h w : Nat) : List Expr :=
  (C08Adj.vPairs h w).map (fun yx => C08Adj.pairC (.bvar ((yx.1 + 1) * w + yx.2)) (.bvar (yx.1 * w + yx.2))) ++
  (C08Adj.hPairs h w).map (fun yx => C08Adj.pairC (.bvar (yx.1 * w + (yx.2 + 1))) (.bvar (yx.1 * w + yx.2)))

theorem getE_bvars (n i : Nat) (hi : i < n) : getE (bvars 0 n) i = .ok (.bvar i) := by
  rw [getE_eq_ok (by simp [bvars]; exact hi)]
  simp [bvars]

theorem na_eq (h w : Nat) : notAdjacentGrid h w (bvars 0 (h * w)) = .ok { cs := naCs h w } := by
  unfold notAdjacentGrid
  simp only
  rw [mapM_eq_ok_map (g := fun yx : Nat × Nat =>
    C08Adj.pairC (.bvar ((yx.1 + 1) * w + yx.2)) (.bvar (yx.1 * w + yx.2)))]
  · rw [ok_bind, mapM_eq_ok_map (g := fun yx : Nat × Nat =>
      C08Adj.pairC (.bvar (yx.1 * w + (yx.2 + 1))) (.bvar (yx.1 * w + yx.2)))]
    · rfl
    · intro yx hyx
      obtain ⟨hy, hx⟩ := C08Adj.mem_hPairs.1 hyx
      rw [getE_bvars _ _ (C08Adj.cell_lt hy hx), ok_bind, getE_bvars _ _ (C08Adj.cell_lt hy (by omega)), ok_bind]
      rfl
  · intro yx hyx
    obtain ⟨hy, hx⟩ := C08Adj.mem_vPairs.1 hyx
    rw [getE_bvars _ _ (C08Adj.cell_lt hy hx), ok_bind, getE_bvars _ _ (C08Adj.cell_lt (by omega) hx), ok_bind]
    rfl

/-- `~is_black`, flattened. -/
def nots (n : Nat) : List Expr := (bvars 0 n).map fun a => .node .not [a]

theorem nots_boolArgs (n : Nat) : BoolArgs n (nots n) := by
  intro e he
  simp only [nots, bvars, List.mem_map, List.mem_range] at he
  obtain ⟨_, ⟨i, hi, rfl⟩, rfl⟩ := he
  refine ⟨rfl, ?_⟩
  simp only [Expr.varsBelow, Expr.varsBelow.varsBelowList, decide_eq_true_eq, Bool.and_true]
  omega

theorem nots_length (n : Nat) : (nots n).length = n := by simp [nots, bvars]

/-- The connectivity fragment. -/
def avc (pb : Problem) : Prog :=
  C04L1.avcProg (Graph.grid pb.height pb.width) (nots (pb.height * pb.width)) (pb.height * pb.width) false

theorem grid_pos {pb : Problem} (hwf : WellFormed pb) : 0 < (Graph.grid pb.height pb.width).n :=
  Nat.mul_pos hwf.1 hwf.2.1

theorem avc_eq {pb : Problem} (hwf : WellFormed pb) :
    activeVerticesConnected (Graph.grid pb.height pb.width) (nots (pb.height * pb.width))
      (pb.height * pb.width) false false = .ok (avc pb) :=
  C04L1.avc_eq_prog (grid_pos hwf) (C04Prim.grid_wf _ _) (by simp [nots_length, Graph.grid])
    (nots_boolArgs _)

/-! ### the posted program in closed form -/

/-- The "two consecutive room borders" constraints. -/
def lineCs (pb : Problem) : List Expr :=
  (cellsOf pb.height pb.width).flatMap fun p => cellV pb p.1 p.2 ++ cellH pb p.1 p.2

theorem mem_cellsOf {h w : Nat} {p : Nat × Nat} : p ∈ cellsOf h w ↔ p.1 < h ∧ p.2 < w := by
  simp only [cellsOf, List.mem_flatMap, List.mem_range, List.mem_map]
  constructor
  · rintro ⟨y, hy, x, hx, rfl⟩; exact ⟨hy, hx⟩
  · rintro ⟨hy, hx⟩; exact ⟨p.1, hy, p.2, hx, rfl⟩

theorem program_eq {pb : Problem} (hwf : WellFormed pb) :
    program pb = .ok { decls := List.replicate (pb.height * pb.width) .bool ++ (avc pb).decls,
                       cs := naCs pb.height pb.width ++ (avc pb).cs ++ roomCs pb ++ lineCs pb,
                       keys := List.range (pb.height * pb.width) } := by
  obtain ⟨rid, hrid, hrep⟩ := roomLoop_wf hwf
  unfold program programWith
  simp only
  rw [C11Grid.addKeys_bvars, ok_bind, na_eq, ok_bind]
  rw [C11CL.unop_invert_arr2 _ _ _ (by simp [bvars]), ok_bind]
  have hflat : (PyV.arr2 true pb.height pb.width
      ((bvars 0 (pb.height * pb.width)).map fun a => Expr.node .not [a])).flat = nots (pb.height * pb.width) := rfl
  rw [hflat, avc_eq hwf, ok_bind, hrid, ok_bind]
  simp only
  rw [mapM_eq_ok_map (g := fun p : Nat × Nat => cellV pb p.1 p.2 ++ cellH pb p.1 p.2)]
  · simp only [ok_bind, lineCs, List.flatMap_def]
  · intro p hp
    obtain ⟨h1, h2⟩ := mem_cellsOf.1 hp
    exact cellCs_eq hrep h1 h2

end Cspuz.Proofs.C11HeyawakeB
