/-
  C16 / compass: the independent pzpr decoder reads the URL body written for a sorted clue list back as the board.
-/
import CspuzModel.Proofs.C16CompassA
namespace Cspuz.Proofs.C16CompassD
open Cspuz Cspuz.Ser Cspuz.Codecs Cspuz.C16F Cspuz.Proofs.C16CompassA

/-! ### number tokens -/

theorem hexVal_digitChar (d : Nat) (hd : d < 16) : Pzpr.hexVal (digitChar d) = some d := by
  unfold Pzpr.hexVal Pzpr.digitBelow Pzpr.digitVal digitChar
  by_cases h : d < 10
  · rw [if_pos h, if_pos (by omega)]
    simp only
    rw [if_pos (by omega)]
    congr 1; omega
  · rw [if_neg h, if_neg (by omega), if_pos (by omega)]
    simp only
    rw [if_pos (by omega)]
    congr 1; omega

theorem numToken_tok (v : Int) (hv : NumOk v) (rest : List Nat) :
    Pzpr.numToken (tok v ++ rest) = some (v, rest) := by
  rcases tok_cases v hv with ⟨hv1, e⟩ | ⟨h0, h1, hd, e⟩ | ⟨h0, h1, hd1, hd2, hsum, e⟩ |
    ⟨h0, h1, hd1, hd2, hd3, hsum, e⟩
  rotate_right
  · rw [e]
    simp only [List.cons_append, List.nil_append, Pzpr.numToken]
    simp only [if_neg (show ¬ (43 : Nat) = 46 by decide), if_neg (show ¬ (43 : Nat) = 45 by decide), if_true,
      hexVal_digitChar _ hd1, hexVal_digitChar _ hd2, hexVal_digitChar _ hd3]
    rw [hsum]; congr 2; omega
  · rw [e, hv1]; rfl
  · rw [e]
    have hr := digitChar_hex_range _ hd
    simp only [List.cons_append, List.nil_append, Pzpr.numToken]
    rw [if_neg (by omega), if_neg (by omega), if_neg (by omega), hexVal_digitChar _ hd]
    simp only
    congr 2; omega
  · rw [e]
    simp only [List.cons_append, List.nil_append, Pzpr.numToken]
    simp only [if_true, hexVal_digitChar _ hd1, hexVal_digitChar _ hd2]
    rw [hsum]
    rw [if_neg (by omega)]; congr 2; omega

/-! ### runs of empty cells -/

/-- one run character `g`..`z` -/
theorem compassCells_run (f n r : Nat) (rest : List Nat) (hr : r < 20) (hn : r + 1 ≤ n) :
    Pzpr.compassCells (f + 1) n ((103 + r) :: rest) =
      (Pzpr.compassCells f (n - (r + 1)) rest).map fun t => (List.replicate (r + 1) none ++ t.1, t.2) := by
  obtain ⟨m, rfl⟩ : ∃ m, n = m + 1 := ⟨n - 1, by omega⟩
  rw [Pzpr.compassCells]
  have hb : Pzpr.between (103 + r) 103 122 = true := by
    simp only [Pzpr.between, Bool.and_eq_true, decide_eq_true_eq]; omega
  rw [if_pos hb]
  have e1 : m + 1 - (103 + r - 102) = m + 1 - (r + 1) := by omega
  have e2 : min (103 + r - 102) (m + 1) = r + 1 := by omega
  rw [e1, e2]

theorem compassCells_zs (k : Nat) : ∀ (f n : Nat) (rest : List Nat) (l : List Pzpr.CompassCell) (s' : List Nat),
    20 * k ≤ n → Pzpr.compassCells f (n - 20 * k) rest = some (l, s') →
    Pzpr.compassCells (f + k) n (List.replicate k 122 ++ rest) = some (List.replicate (20 * k) none ++ l, s') := by
  induction k with
  | zero => intro f n rest l s' _ h; simpa using h
  | succ k ih =>
    intro f n rest l s' hn h
    have h1 : Pzpr.compassCells f (n - 20 - 20 * k) rest = some (l, s') := by
      rw [← h]; congr 1; omega
    have h2 := ih f (n - 20) rest l s' (by omega) h1
    rw [List.replicate_succ, List.cons_append, ← Nat.add_assoc]
    have h3 := compassCells_run (f + k) n 19 (List.replicate k 122 ++ rest) (by omega) (by omega)
    rw [show (103 + 19 : Nat) = 122 from rfl, show n - (19 + 1) = n - 20 by omega, h2] at h3
    rw [h3]
    simp only [Option.map_some, ← List.append_assoc, List.replicate_append_replicate]
    rw [show 19 + 1 + 20 * k = 20 * (k + 1) by omega]

/-- a run of `g` empty cells -/
theorem compassCells_gap (g f n : Nat) (rest : List Nat) (l : List Pzpr.CompassCell) (s' : List Nat)
    (hg : g ≤ n) (h : Pzpr.compassCells f (n - g) rest = some (l, s')) :
    Pzpr.compassCells (f + (gapStr g).length) n (gapStr g ++ rest) = some (List.replicate g none ++ l, s') := by
  unfold gapStr
  by_cases h0 : g = 0
  · subst h0; simpa using h
  · rw [if_neg h0]
    have hlen : (List.replicate ((g - 1) / 20) 122 ++ [103 + (g - 1) % 20]).length = 1 + (g - 1) / 20 := by
      simp only [List.length_append, List.length_replicate, List.length_singleton]; omega
    rw [hlen, List.append_assoc, List.singleton_append, ← Nat.add_assoc]
    have hr : (g - 1) % 20 < 20 := Nat.mod_lt _ (by omega)
    have h1 := compassCells_run f (n - 20 * ((g - 1) / 20)) ((g - 1) % 20) rest hr (by omega)
    rw [show n - 20 * ((g - 1) / 20) - ((g - 1) % 20 + 1) = n - g by omega, h] at h1
    have h2 := compassCells_zs ((g - 1) / 20) (f + 1) n ((103 + (g - 1) % 20) :: rest) _ _ (by omega) h1
    rw [h2]
    simp only [← List.append_assoc, List.replicate_append_replicate]
    rw [show 20 * ((g - 1) / 20) + ((g - 1) % 20 + 1) = g by omega]

/-! ### a clue cell -/

theorem compassCells_clue (h w : Nat) (c : CompassClue) (hc : CompassClueOk h w c) (f n : Nat) (rest : List Nat) :
    Pzpr.compassCells (f + 1) (n + 1) (clueStr c ++ rest) =
      (Pzpr.compassCells f n rest).map fun t => (some (c.up, c.down, c.left, c.right) :: t.1, t.2) := by
  obtain ⟨hu, hd, hl, hr⟩ := clueOk_nums h w c hc
  have e : clueStr c ++ rest = tok c.up ++ (tok c.down ++ (tok c.left ++ (tok c.right ++ rest))) := by
    simp only [clueStr, List.append_assoc]
  rw [e]
  cases htu : tok c.up with
  | nil => exact absurd htu (tok_ne_nil _)
  | cons ch s =>
    have hch := tok_chars _ hu ch (by rw [htu]; simp)
    rw [List.cons_append, Pzpr.compassCells]
    have hb : ¬ (Pzpr.between ch 103 122 = true) := by
      simp only [Pzpr.between, Bool.and_eq_true, decide_eq_true_eq]; omega
    rw [if_neg hb, ← List.cons_append, ← htu, numToken_tok _ hu]
    simp only
    rw [numToken_tok _ hd]
    simp only
    rw [numToken_tok _ hl]
    simp only
    rw [numToken_tok _ hr]

/-! ### the whole body -/

/-- the flat list of cells `cur .. total-1` -/
def cellsFrom (w : Nat) : List CompassClue → Nat → Nat → List Pzpr.CompassCell
  | [], cur, total => List.replicate (total - cur) none
  | c :: cs, cur, total =>
    List.replicate (posN w c - cur) none ++ (some (c.up, c.down, c.left, c.right) :: cellsFrom w cs (posN w c + 1) total)

theorem clueStr_length_pos (c : CompassClue) : 1 ≤ (clueStr c).length := by
  have := tok_ne_nil c.up
  unfold clueStr
  rw [List.length_append]
  have : (tok c.up).length ≠ 0 := fun h => this (List.eq_nil_of_length_eq_zero h)
  omega

theorem compassCells_body (h w : Nat) : ∀ (cs : List CompassClue) (cur fuel : Nat),
    (∀ c ∈ cs, CompassClueOk h w c) → CompassSorted w cs → (∀ c ∈ cs, cur ≤ posN w c) → cur ≤ h * w →
    (bodyFrom w cs cur (h * w)).length ≤ fuel →
    Pzpr.compassCells fuel (h * w - cur) (bodyFrom w cs cur (h * w)) = some (cellsFrom w cs cur (h * w), []) := by
  intro cs
  induction cs with
  | nil =>
    intro cur fuel _ _ _ hcur hfuel
    simp only [bodyFrom] at hfuel ⊢
    obtain ⟨f, rfl⟩ : ∃ f, fuel = f + (gapStr (h * w - cur)).length := ⟨fuel - (gapStr (h * w - cur)).length, by omega⟩
    have h0 : Pzpr.compassCells f (h * w - cur - (h * w - cur)) [] = some ([], []) := by
      rw [Nat.sub_self, Pzpr.compassCells]
    have := compassCells_gap (h * w - cur) f (h * w - cur) [] [] [] (Nat.le_refl _) h0
    rw [List.append_nil, List.append_nil] at this
    rw [this, cellsFrom]
  | cons c cs ih =>
    intro cur fuel hok hs hge hcur hfuel
    obtain ⟨hok', hs', hge'⟩ := sorted_tail h w c cs hok hs
    have hc := hok c (by simp)
    have hlt := posN_lt h w c hc
    have hcp := hge c (by simp)
    simp only [bodyFrom, List.length_append] at hfuel ⊢
    have hcl := clueStr_length_pos c
    obtain ⟨f, rfl⟩ : ∃ f, fuel = (f + 1) + (gapStr (posN w c - cur)).length := ⟨fuel - 1 - (gapStr (posN w c - cur)).length, by omega⟩
    have h1 := ih (posN w c + 1) f hok' hs' hge' (by omega) (by omega)
    have h2 := compassCells_clue h w c hc f (h * w - (posN w c + 1)) (bodyFrom w cs (posN w c + 1) (h * w))
    rw [h1] at h2
    simp only [Option.map_some] at h2
    have h3 := compassCells_gap (posN w c - cur) (f + 1) (h * w - cur)
      (clueStr c ++ bodyFrom w cs (posN w c + 1) (h * w)) _ _ (by omega)
      (by rw [← h2]; congr 1; omega)
    rw [h3, cellsFrom]

/-! ### the board -/

/-- the cell at row-major index `i` -/
def cellAt (w : Nat) (cs : List CompassClue) (i : Nat) : Pzpr.CompassCell :=
  (cs.find? fun c => cluePos w c == (i : Int)).map fun c => (c.up, c.down, c.left, c.right)

theorem cellAt_none (h w : Nat) (cs : List CompassClue) (i : Nat) (hok : ∀ c ∈ cs, CompassClueOk h w c)
    (hlt : ∀ c ∈ cs, i < posN w c) : cellAt w cs i = none := by
  unfold cellAt
  rw [Option.map_eq_none_iff, List.find?_eq_none]
  intro c hc
  have h1 := cluePos_eq h w c (hok c hc)
  have h2 := hlt c hc
  simp only [beq_iff_eq]; omega

theorem cellAt_head (h w : Nat) (c : CompassClue) (cs : List CompassClue) (hc : CompassClueOk h w c) :
    cellAt w (c :: cs) (posN w c) = some (c.up, c.down, c.left, c.right) := by
  unfold cellAt
  rw [List.find?_cons, cluePos_eq h w c hc, beq_self_eq_true]
  rfl

theorem cellAt_tail (h w : Nat) (c : CompassClue) (cs : List CompassClue) (i : Nat) (hc : CompassClueOk h w c)
    (hi : posN w c < i) : cellAt w (c :: cs) i = cellAt w cs i := by
  unfold cellAt
  rw [List.find?_cons]
  have : (cluePos w c == (i : Int)) = false := by
    rw [cluePos_eq h w c hc, beq_eq_false_iff_ne]; omega
  rw [this]

theorem cellsFrom_eq (h w : Nat) : ∀ (cs : List CompassClue) (cur : Nat),
    (∀ c ∈ cs, CompassClueOk h w c) → CompassSorted w cs → (∀ c ∈ cs, cur ≤ posN w c) →
    cellsFrom w cs cur (h * w) = (List.range' cur (h * w - cur)).map (cellAt w cs) := by
  intro cs
  induction cs with
  | nil =>
    intro cur _ _ _
    rw [cellsFrom]; symm
    rw [List.eq_replicate_iff]
    refine ⟨by simp, ?_⟩
    intro b hb
    obtain ⟨i, _, rfl⟩ := List.mem_map.mp hb
    rfl
  | cons c cs ih =>
    intro cur hok hs hge
    obtain ⟨hok', hs', hge'⟩ := sorted_tail h w c cs hok hs
    have hc := hok c (by simp)
    have hlt := posN_lt h w c hc
    have hcp := hge c (by simp)
    have e : List.range' cur (h * w - cur) =
        List.range' cur (posN w c - cur) ++ (posN w c :: List.range' (posN w c + 1) (h * w - (posN w c + 1))) := by
      have a := @List.range'_append_1 cur (posN w c - cur) (h * w - (posN w c + 1) + 1)
      rw [show cur + (posN w c - cur) = posN w c by omega,
        show posN w c - cur + (h * w - (posN w c + 1) + 1) = h * w - cur by omega, List.range'_succ] at a
      exact a.symm
    rw [e, List.map_append, List.map_cons, cellsFrom, ih _ hok' hs' hge', cellAt_head h w c cs hc]
    congr 1
    · symm
      rw [List.eq_replicate_iff]
      refine ⟨by simp, ?_⟩
      intro b hb
      obtain ⟨i, hi, rfl⟩ := List.mem_map.mp hb
      have hi' := (List.mem_range'_1.mp hi).2
      apply cellAt_none h w _ i hok
      intro d hd
      rcases List.mem_cons.mp hd with rfl | hd
      · omega
      · have := hge' d hd; omega
    · congr 1
      apply List.map_congr_left
      intro i hi
      have hi' := (List.mem_range'_1.mp hi).1
      exact (cellAt_tail h w c cs i hc (by omega)).symm

theorem toRows_map {α : Type} (w : Nat) (f : Nat → α) : ∀ (h k : Nat),
    Pzpr.toRows w ((List.range' (k * w) (h * w)).map f) h =
      (List.range' k h).map fun y => (List.range w).map fun x => f (y * w + x) := by
  intro h
  induction h with
  | zero => intro k; rfl
  | succ h ih =>
    intro k
    have e : List.range' (k * w) ((h + 1) * w) = List.range' (k * w) w ++ List.range' ((k + 1) * w) (h * w) := by
      rw [Nat.succ_mul k w, List.range'_append_1, Nat.succ_mul h w, Nat.add_comm]
    rw [e, List.map_append, Pzpr.toRows, List.take_left' (by simp), List.drop_left' (by simp), ih (k + 1),
      List.range'_succ, List.map_cons]
    congr 1
    rw [List.range'_eq_map_range, List.map_map]
    rfl

theorem find?_congr' {α : Type} (p q : α → Bool) : ∀ (l : List α), (∀ a ∈ l, p a = q a) → l.find? p = l.find? q
  | [], _ => rfl
  | a :: l, hpq => by
    rw [List.find?_cons, List.find?_cons, hpq a (by simp), find?_congr' p q l (fun b hb => hpq b (List.mem_cons_of_mem _ hb))]

theorem rowcol_unique (w a b y x : Nat) (hb : b < w) (hx : x < w) (e : a * w + b = y * w + x) : a = y ∧ b = x := by
  rcases Nat.lt_trichotomy a y with hlt | heq | hgt
  · have := Nat.mul_le_mul_right w (show a + 1 ≤ y from hlt)
    rw [Nat.succ_mul] at this; omega
  · subst heq; omega
  · have := Nat.mul_le_mul_right w (show y + 1 ≤ a from hgt)
    rw [Nat.succ_mul] at this; omega

theorem clue_at_iff (h w : Nat) (c : CompassClue) (hc : CompassClueOk h w c) (y x : Nat) (hx : x < w) :
    (c.y == (y : Int) && c.x == (x : Int)) = (cluePos w c == ((y * w + x : Nat) : Int)) := by
  obtain ⟨h1, hy, hxx, _, hxw⟩ := posN_eq h w c hc
  rw [Bool.eq_iff_iff]
  simp only [Bool.and_eq_true, beq_iff_eq]
  constructor
  · rintro ⟨a, b⟩
    unfold cluePos
    rw [a, b, Int.natCast_add, Int.natCast_mul]
  · intro e
    rw [cluePos_eq h w c hc, h1] at e
    have e' : c.y.toNat * w + c.x.toNat = y * w + x := Int.ofNat.inj e
    obtain ⟨r1, r2⟩ := rowcol_unique w _ _ _ _ hxw hx e'
    constructor
    · rw [hy, r1]
    · rw [hxx, r2]

theorem compassBoard_eq (h w : Nat) (pos : List CompassClue) (hok : ∀ c ∈ pos, CompassClueOk h w c) :
    compassBoard h w pos = (List.range h).map fun y => (List.range w).map fun x => cellAt w pos (y * w + x) := by
  unfold compassBoard
  apply List.map_congr_left
  intro y _
  apply List.map_congr_left
  intro x hx
  unfold cellAt
  congr 1
  apply find?_congr'
  intro c hc
  exact clue_at_iff h w c (hok c hc) y x (List.mem_range.mp hx)

/-- the pzpr decoder reads the body back as the board -/
theorem compass_pzpr (h w : Nat) (pos : List CompassClue) (hok : ∀ c ∈ pos, CompassClueOk h w c)
    (hs : CompassSorted w pos) :
    Pzpr.decodeCompass h w (bodyOf h w pos) = some (compassBoard h w pos) := by
  have h1 := compassCells_body h w pos 0 ((bodyOf h w pos).length + 1) hok hs (fun _ _ => Nat.zero_le _)
    (Nat.zero_le _) (by unfold bodyOf; omega)
  rw [Nat.sub_zero] at h1
  unfold Pzpr.decodeCompass
  rw [show bodyFrom w pos 0 (h * w) = bodyOf h w pos from rfl] at h1
  rw [h1]
  simp only [Pzpr.whole, Option.map_some]
  rw [cellsFrom_eq h w pos 0 hok hs (fun _ _ => Nat.zero_le _), Nat.sub_zero, compassBoard_eq h w pos hok]
  have := toRows_map w (cellAt w pos) h 0
  rw [Nat.zero_mul] at this
  rw [this]
  simp only [List.range_eq_range']

end Cspuz.Proofs.C16CompassD

#print axioms Cspuz.Proofs.C16CompassD.compass_pzpr
