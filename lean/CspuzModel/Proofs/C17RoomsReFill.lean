/-
  C17, second half, for `Rooms`: the flood-fill decoder on ARBITRARY border bitmaps (not only those written by the
  encoder for a partition).  `WeakColorSys` drops from `ColorSys` (Proofs/C15RoomsDec.lean) the direction "same colour ⇒
  no border": a border between two cells of one colour class (a redundant border) is allowed.  The analysis of one
  fill (`fill_component`) and of the scan (`scanFill_spec`) only ever used the remaining facts, so they are re-proved here
  for the weak system, and whatever `Rooms._deserialize` RETURNS is the list of colour classes `colorRooms h w col`.
-/
import CspuzModel.Proofs.C15RoomsDec
namespace Cspuz.Ser.RoomsReFill
open Cspuz Cspuz.Ser

/-- the bitmaps `hz`, `vt` never open a passage between two colours, and every colour class is connected by open
passages (but a border may separate two neighbouring cells of one colour) -/
structure WeakColorSys (hz vt : Grid2 Bool) (h w : Nat) (col : Nat × Nat → Nat) : Prop where
  hhz : Dims (h - 1) w hz
  hvt : Dims h (w - 1) vt
  open_col : ∀ a b : Nat × Nat, a.1 < h → a.2 < w → Open hz vt h w a b → col a = col b
  conn : ∀ a b : Nat × Nat, a.1 < h → a.2 < w → b.1 < h → b.2 < w → col a = col b →
    Relation.ReflTransGen (Open hz vt h w) a b

theorem weak_of_colorSys {hz vt : Grid2 Bool} {h w : Nat} {col : Nat × Nat → Nat} (cs : ColorSys hz vt h w col) :
    WeakColorSys hz vt h w col :=
  ⟨cs.hhz, cs.hvt, fun _ _ h1 h2 hab => cs.open_col ⟨h1, h2⟩ hab, cs.conn⟩

/-- a fill started at an unmarked cell, when the marked cells form a union of colour classes, marks exactly the
colour class of the start cell -/
theorem fill_component {hz vt : Grid2 Bool} {h w : Nat} {col : Nat × Nat → Nat} (cs : WeakColorSys hz vt h w col)
    {rid : Grid2 Int} (hr : Dims h w rid) {c : Nat × Nat} (hcb : c.1 < h ∧ c.2 < w) (hc : gv rid c.1 c.2 = -1)
    {id : Int} (hid : id ≠ -1)
    (hmc : ∀ a b : Nat × Nat, a.1 < h → a.2 < w → b.1 < h → b.2 < w → col a = col b →
      gv rid a.1 a.2 ≠ -1 → gv rid b.1 b.2 ≠ -1) :
    ∃ rid', fillLoop hz vt h w id (4 * h * w + 2) [c] rid = .ok rid' ∧ Dims h w rid' ∧
      ∀ a : Nat × Nat, a.1 < h → a.2 < w → gv rid' a.1 a.2 = if col a = col c then id else gv rid a.1 a.2 := by
  have hu := unmarked_le h w rid
  have hm : 4 * h * w = 4 * (h * w) := Nat.mul_assoc 4 h w
  have hst : ∀ p ∈ [c], p.1 < h ∧ p.2 < w := by simpa using hcb
  obtain ⟨rid', he, hr', f1, f2, f3⟩ := fillLoop_ok cs.hhz cs.hvt hid (4 * h * w + 2) [c] rid hr hst
    (by simp only [List.length_cons, List.length_nil]; omega)
  obtain ⟨_, _, fS, fC⟩ := fillLoop_spec cs.hhz cs.hvt hid _ _ _ _ hr hst he
  refine ⟨rid', he, hr', ?_⟩
  have hreach : ∀ b, Relation.ReflTransGen (Open hz vt h w) c b →
      (b.1 < h ∧ b.2 < w) ∧ gv rid b.1 b.2 = -1 ∧ gv rid' b.1 b.2 ≠ -1 := by
    intro b hb
    induction hb with
    | refl => exact ⟨hcb, hc, f3 c List.mem_cons_self⟩
    | @tail x y _ hxy ih =>
      obtain ⟨hxb, hx1, hx2⟩ := ih
      have hyb := hxy.board hxb
      have hcol := cs.open_col x y hxb.1 hxb.2 hxy
      refine ⟨hyb, ?_, fC x hx1 hx2 y hxy⟩
      by_cases hne : gv rid y.1 y.2 = -1
      · exact hne
      · exact absurd hx1 (hmc y x hyb.1 hyb.2 hxb.1 hxb.2 hcol.symm hne)
  intro a ha1 ha2
  by_cases hac : col a = col c
  · rw [if_pos hac]
    obtain ⟨_, h1, h2⟩ := hreach a (cs.conn c a hcb.1 hcb.2 ha1 ha2 hac.symm)
    rcases f2 a.1 a.2 with e | e
    · rw [e] at h2; exact absurd h1 h2
    · exact e
  · rw [if_neg hac]
    by_cases hm : gv rid a.1 a.2 = -1
    · by_cases hne : gv rid' a.1 a.2 = -1
      · rw [hne, hm]
      have hP := fS (fun b => col b = col c) (fun p q hp1 hp2 hp hpq => by
        have := cs.open_col p q hp1 hp2 hpq
        exact this.symm.trans hp) (by simp) a hm hne
      exact absurd hP hac
    · exact f1 a.1 a.2 hm

theorem scanFill_spec {hz vt : Grid2 Bool} {h w : Nat} {col : Nat × Nat → Nat} (cs : WeakColorSys hz vt h w col) :
    ∀ (todo done : List (Nat × Nat)) (rid : Grid2 Int) (last : Int), cells h w = done ++ todo →
      ScanInv h w col done rid last →
      ∃ rid' last', scanFill hz vt h w todo rid last = .ok (rid', last') ∧ ScanInv h w col (cells h w) rid' last' := by
  intro todo
  induction todo with
  | nil =>
    intro done rid last hs inv
    rw [List.append_nil] at hs
    exact ⟨rid, last, rfl, by rw [hs]; exact inv⟩
  | cons c todo ih =>
    intro done rid last hs inv
    have hcb : c.1 < h ∧ c.2 < w := mem_cells.1 (by rw [hs]; simp)
    have hs' : cells h w = (done ++ [c]) ++ todo := by rw [hs]; simp
    obtain ⟨y, x⟩ := c
    rw [scanFill, rd2_eq inv.dims hcb.1 hcb.2, Outcome.bind_ok]
    by_cases hc : gv rid y x = -1
    · rw [if_pos (by simp [hc])]
      have hl0 : last ≠ -1 := by rw [inv.last_eq]; omega
      obtain ⟨rid1, he, hr1, hgv⟩ := fill_component cs inv.dims (c := (y, x)) hcb hc hl0
        (fun a b ha1 ha2 hb1 hb2 e ha => by
          rw [inv.marked b hb1 hb2]
          obtain ⟨d, hd, e'⟩ := (inv.marked a ha1 ha2).1 ha
          exact ⟨d, hd, e'.trans e⟩)
      rw [he, Outcome.bind_ok]
      exact ih (done ++ [(y, x)]) rid1 (last + 1) hs' (inv.step_new hs hc hr1 hgv)
    · rw [if_neg (by simp [hc])]
      exact ih (done ++ [(y, x)]) rid last hs' (inv.step_old hs hc)

/-- **whatever the decoder returns on bitmaps described by a weak colour system is the list of colour classes**
(ordered by their least cell, each in row-major order), with or without the redundancy check -/
theorem roomsDeCore_weak {hz vt : Grid2 Bool} {h w : Nat} {col : Nat × Nat → Nat} (cs : WeakColorSys hz vt h w col)
    (hh : h ≠ 0) (hw : w ≠ 0) {s : Str} {i k : Nat} {V H : PyVal} (allow : Bool)
    (hbd : bordersDe h w s i = .ok (k, [.tuple [.list [V], .list [H]]]))
    (hV : toBoolGrid V = .ok vt) (hH : toBoolGrid H = .ok hz) {k' : Nat} {items : List PyVal}
    (he : roomsDeCore ⟨h, w⟩ allow s i = .ok (k', items)) :
    k' = k ∧ items = [roomsVal (colorRooms h w col)] := by
  obtain ⟨rid, last, es, inv⟩ := scanFill_spec cs (cells h w) [] (List.replicate h (List.replicate w (-1))) 0 rfl
    (ScanInv.init h w col)
  unfold roomsDeCore at he
  simp only [hbd, hV, hH, es, inv.collect, Outcome.bind_ok] at he
  rw [if_neg (by simp [hh, hw])] at he
  obtain ⟨_, _, he⟩ := Outcome.bind_eq_ok.1 he
  simp only [Outcome.ok.injEq, Prod.mk.injEq] at he
  exact ⟨he.1.symm, he.2.symm⟩

end Cspuz.Ser.RoomsReFill
