/-
  C10, structure of the split graph `crossGraph (H+1) (W+1)`: node numbering, edges, adjacency.
-/
import CspuzModel.Spec.C10Spec
import CspuzModel.Spec.GraphSpec
import CspuzModel.Proofs.C14
import CspuzModel.Proofs.C04Prim
namespace Cspuz.Proofs.C10Cross
open Cspuz Cspuz.Spec

/-- Number of point nodes (three per lattice point). -/
def npts (H W : Nat) : Nat := (H + 1) * (W + 1) * 3

/-- Node of lattice point `(y, x)`: `k = 0` plain, `1` horizontal pass, `2` vertical pass. -/
def ptNode (W y x k : Nat) : Nat := (y * (W + 1) + x) * 3 + k

/-- Node of a segment. -/
def segNode (H W : Nat) : LSeg → Nat
  | .v y x => npts H W + y * (W + 1) + x
  | .h y x => npts H W + H * (W + 1) + y * W + x

/-- Which point nodes of an end point a segment is joined to. -/
def okk (s : LSeg) (k : Nat) : Prop := k = 0 ∨ k = (if s.isH then 1 else 2)

/-- Edge relation of the split graph (segment node first). -/
def E (H W a b : Nat) : Prop :=
  ∃ s : LSeg, s.valid H W ∧ a = segNode H W s ∧
    ∃ p : Nat × Nat, s.touches p ∧ ∃ k, okk s k ∧ b = ptNode W p.1 p.2 k

theorem cross_n (H W : Nat) :
    (crossGraph (H + 1) (W + 1)).n = npts H W + H * (W + 1) + (H + 1) * W := by
  simp only [crossGraph, Nat.add_sub_cancel, npts]

theorem mem_edges (H W a b : Nat) : (a, b) ∈ (crossGraph (H + 1) (W + 1)).edges ↔ E H W a b := by
  simp only [crossGraph, List.mem_append, List.mem_flatMap, List.mem_range, List.mem_cons,
    Prod.mk.injEq, List.not_mem_nil, or_false, Nat.add_sub_cancel, E]
  constructor
  · rintro (⟨y, hy, x, hx, h⟩ | ⟨y, hy, x, hx, h⟩)
    · refine ⟨.v y x, ⟨hy, by omega⟩, ?_⟩
      rcases h with ⟨rfl, rfl⟩ | ⟨rfl, rfl⟩ | ⟨rfl, rfl⟩ | ⟨rfl, rfl⟩
      · exact ⟨by simp only [segNode, npts], (y, x), Or.inl rfl, 0, Or.inl rfl, by simp only [ptNode]; omega⟩
      · exact ⟨by simp only [segNode, npts], (y, x), Or.inl rfl, 2, Or.inr rfl, by simp only [ptNode]⟩
      · exact ⟨by simp only [segNode, npts], (y + 1, x), Or.inr rfl, 0, Or.inl rfl, by simp only [ptNode]; omega⟩
      · exact ⟨by simp only [segNode, npts], (y + 1, x), Or.inr rfl, 2, Or.inr rfl, by simp only [ptNode]⟩
    · refine ⟨.h y x, ⟨by omega, hx⟩, ?_⟩
      rcases h with ⟨rfl, rfl⟩ | ⟨rfl, rfl⟩ | ⟨rfl, rfl⟩ | ⟨rfl, rfl⟩
      · exact ⟨by simp only [segNode, npts], (y, x), Or.inl rfl, 0, Or.inl rfl, by simp only [ptNode]; omega⟩
      · exact ⟨by simp only [segNode, npts], (y, x), Or.inl rfl, 1, Or.inr rfl, by simp only [ptNode]⟩
      · exact ⟨by simp only [segNode, npts], (y, x + 1), Or.inr rfl, 0, Or.inl rfl, by simp only [ptNode]; omega⟩
      · exact ⟨by simp only [segNode, npts], (y, x + 1), Or.inr rfl, 1, Or.inr rfl, by simp only [ptNode]; omega⟩
  · rintro ⟨s, hs, rfl, p, hp, k, hk, rfl⟩
    cases s with
    | v y x =>
      left
      refine ⟨y, hs.1, x, by have := hs.2; omega, ?_⟩
      simp only [LSeg.touches, LSeg.ends] at hp
      simp only [okk, LSeg.isH, Bool.false_eq_true, if_false] at hk
      rcases hp with rfl | rfl <;> rcases hk with rfl | rfl <;>
        simp only [segNode, npts, ptNode, true_and, or_true, true_or] <;> omega
    | h y x =>
      right
      refine ⟨y, by have := hs.1; omega, x, hs.2, ?_⟩
      simp only [LSeg.touches, LSeg.ends] at hp
      simp only [okk, LSeg.isH, if_true] at hk
      rcases hp with rfl | rfl <;> rcases hk with rfl | rfl <;>
        simp only [segNode, npts, ptNode, true_and, or_true, true_or] <;> omega

/-! ### bounds and injectivity of the numbering -/

theorem touches_valid {H W : Nat} {s : LSeg} {p : Nat × Nat} (hs : s.valid H W) (hp : s.touches p) :
    p.1 ≤ H ∧ p.2 ≤ W := by
  cases s <;> simp only [LSeg.valid] at hs <;> simp only [LSeg.touches, LSeg.ends] at hp <;>
    rcases hp with rfl | rfl <;> simp only <;> omega

theorem okk_lt {s : LSeg} {k : Nat} (h : okk s k) : k < 3 := by
  unfold okk at h
  split at h <;> omega

theorem ptNode_lt {H W y x k : Nat} (hy : y ≤ H) (hx : x ≤ W) (hk : k < 3) :
    ptNode W y x k < npts H W := by
  have := C14.mul_add_lt (h := H + 1) (w := W + 1) (y := y) (x := x) (by omega) (by omega)
  unfold ptNode npts; omega

theorem npts_le_segNode (H W : Nat) (s : LSeg) : npts H W ≤ segNode H W s := by
  cases s <;> simp only [segNode] <;> omega

theorem segNode_lt {H W : Nat} {s : LSeg} (hs : s.valid H W) :
    segNode H W s < npts H W + H * (W + 1) + (H + 1) * W := by
  cases s with
  | v y x =>
    have := C14.mul_add_lt (h := H) (w := W + 1) (y := y) (x := x) hs.1 (by have := hs.2; omega)
    simp only [segNode]; omega
  | h y x =>
    have := C14.mul_add_lt (h := H + 1) (w := W) (y := y) (x := x) (by have := hs.1; omega) hs.2
    simp only [segNode]; omega

theorem mul_add_inj {w y x y' x' : Nat} (hx : x < w) (hx' : x' < w) (h : y * w + x = y' * w + x') :
    y = y' ∧ x = x' := by
  have hw : 0 < w := by omega
  have h1 : (y * w + x) / w = y := by
    rw [Nat.add_comm, Nat.add_mul_div_right _ _ hw, Nat.div_eq_of_lt hx, Nat.zero_add]
  have h2 : (y' * w + x') / w = y' := by
    rw [Nat.add_comm, Nat.add_mul_div_right _ _ hw, Nat.div_eq_of_lt hx', Nat.zero_add]
  have e : y = y' := by rw [← h1, ← h2, h]
  subst e
  exact ⟨rfl, by omega⟩

theorem ptNode_inj {W y x k y' x' k' : Nat} (hx : x ≤ W) (hx' : x' ≤ W) (hk : k < 3) (hk' : k' < 3)
    (h : ptNode W y x k = ptNode W y' x' k') : y = y' ∧ x = x' ∧ k = k' := by
  unfold ptNode at h
  have h1 : y * (W + 1) + x = y' * (W + 1) + x' := by omega
  have h2 : k = k' := by omega
  obtain ⟨e1, e2⟩ := mul_add_inj (by omega) (by omega) h1
  exact ⟨e1, e2, h2⟩

theorem segNode_inj {H W : Nat} {s t : LSeg} (hs : s.valid H W) (ht : t.valid H W)
    (h : segNode H W s = segNode H W t) : s = t := by
  cases s with
  | v y x =>
    cases t with
    | v y' x' =>
      simp only [segNode] at h
      obtain ⟨e1, e2⟩ := mul_add_inj (w := W + 1) (y := y) (x := x) (y' := y') (x' := x')
        (by have := hs.2; omega) (by have := ht.2; omega) (by omega)
      rw [e1, e2]
    | h y' x' =>
      simp only [segNode] at h
      have := C14.mul_add_lt (h := H) (w := W + 1) (y := y) (x := x) hs.1 (by have := hs.2; omega)
      omega
  | h y x =>
    cases t with
    | v y' x' =>
      simp only [segNode] at h
      have := C14.mul_add_lt (h := H) (w := W + 1) (y := y') (x := x') ht.1 (by have := ht.2; omega)
      omega
    | h y' x' =>
      simp only [segNode] at h
      obtain ⟨e1, e2⟩ := mul_add_inj (w := W) (y := y) (x := x) (y' := y') (x' := x')
        hs.2 ht.2 (by omega)
      rw [e1, e2]

theorem decomp {w n j : Nat} (hj : j < n * w) : ∃ y x, y < n ∧ x < w ∧ j = y * w + x := by
  have hw : 0 < w := by
    rcases Nat.eq_zero_or_pos w with h | h
    · subst h; simp at hj
    · exact h
  refine ⟨j / w, j % w, (Nat.div_lt_iff_lt_mul hw).2 hj, Nat.mod_lt _ hw, ?_⟩
  have := Nat.div_add_mod j w
  rw [Nat.mul_comm] at this
  omega

/-- Every node is a point node or a segment node. -/
theorem node_cases {H W u : Nat} (hu : u < npts H W + H * (W + 1) + (H + 1) * W) :
    (u < npts H W ∧ ∃ y x k, y ≤ H ∧ x ≤ W ∧ k < 3 ∧ u = ptNode W y x k) ∨
    (npts H W ≤ u ∧ ∃ s : LSeg, s.valid H W ∧ u = segNode H W s) := by
  by_cases h1 : u < npts H W
  · left
    refine ⟨h1, ?_⟩
    have : u / 3 < (H + 1) * (W + 1) := by unfold npts at h1; omega
    obtain ⟨y, x, hy, hx, e⟩ := decomp this
    exact ⟨y, x, u % 3, by omega, by omega, by omega, by unfold ptNode; omega⟩
  · right
    refine ⟨by omega, ?_⟩
    by_cases h2 : u < npts H W + H * (W + 1)
    · have : u - npts H W < H * (W + 1) := by omega
      obtain ⟨y, x, hy, hx, e⟩ := decomp this
      exact ⟨.v y x, ⟨hy, by omega⟩, by simp only [segNode]; omega⟩
    · have : u - npts H W - H * (W + 1) < (H + 1) * W := by omega
      obtain ⟨y, x, hy, hx, e⟩ := decomp this
      exact ⟨.h y x, ⟨by omega, hx⟩, by simp only [segNode]; omega⟩

theorem E_left {H W a b : Nat} (h : E H W a b) : npts H W ≤ a ∧ a < npts H W + H * (W + 1) + (H + 1) * W := by
  obtain ⟨s, hs, rfl, -⟩ := h
  exact ⟨npts_le_segNode H W s, segNode_lt hs⟩

theorem E_right {H W a b : Nat} (h : E H W a b) : b < npts H W := by
  obtain ⟨s, hs, -, p, hp, k, hk, rfl⟩ := h
  obtain ⟨h1, h2⟩ := touches_valid hs hp
  exact ptNode_lt h1 h2 (okk_lt hk)

theorem cross_wf (H W : Nat) : (crossGraph (H + 1) (W + 1)).wf = true := by
  simp only [Graph.wf, List.all_eq_true, Bool.and_eq_true, decide_eq_true_eq]
  rintro ⟨a, b⟩ hab
  rw [mem_edges] at hab
  have h1 := E_left hab
  have h2 := E_right hab
  rw [cross_n]
  simp only
  omega

/-- Adjacency in the split graph. -/
theorem adj_iff (H W : Nat) (u v : Fin (crossGraph (H + 1) (W + 1)).n) :
    (toSimple (crossGraph (H + 1) (W + 1))).Adj u v ↔ (E H W u.1 v.1 ∨ E H W v.1 u.1) := by
  show (u ≠ v ∧ ∃ k, Joins _ k u.1 v.1) ↔ _
  rw [C04Prim.exists_joins_iff_mem, mem_edges, mem_edges]
  constructor
  · exact fun h => h.2
  · intro h
    refine ⟨?_, h⟩
    intro e
    subst e
    rcases h with h | h
    · have := E_left h; have := E_right h; omega
    · have := E_left h; have := E_right h; omega

end Cspuz.Proofs.C10Cross
