/-
  C11 / firefly — completeness of the certificate, part D: the rank.  The lines give every cell that a line leaves a
  next cell (`nxt`); all fireflies are linked, so they all run into one `nxt`-cycle; a firefly `a` on this cycle is
  the root, its dot step is the ignored one, and the rank of a cell is the number of `nxt`-steps to `a`.
-/
import CspuzModel.Proofs.C11FireflyCompleteA
import CspuzModel.Proofs.C14
import Mathlib.Data.Finset.Card
import Mathlib.Data.Nat.Find
import Mathlib.Logic.Function.Iterate
namespace Cspuz.Proofs.C11FireflyCompleteD
open Cspuz Cspuz.Spec Cspuz.Spec.FrameGeom Cspuz.Spec.Loop
open Cspuz.Spec.Firefly (firefly segOf opp clue armCount steps walk bends Follows IsLine EndsAt Linked)
open Cspuz.Puzzles.Firefly (Problem Clue Num)
open Cspuz.Proofs.C11FireflyCert Cspuz.Proofs.C11FireflyCompleteA

/-- What part D uses of the rules (with the board size as parameters). -/
structure CtxD (pb : Problem) (H W : Nat) (on : Seg → Bool) : Prop where
  flyIn : ∀ p d n, firefly pb p = some (d, n) → InB H W p
  lines : ∀ p d n, firefly pb p = some (d, n) → ∃ ds, Tail pb H W on p d ds
  ends : ∀ p q, EndsAt pb on p q →
    ∃ d n ds, firefly pb p = some (d, n) ∧ Tail pb H W on p d ds ∧ walk p (d :: ds) = q
  someFly : ∃ p d n, firefly pb p = some (d, n)
  connected : ∀ p q, (firefly pb p).isSome = true → (firefly pb q).isSome = true → Linked pb on p q

open Classical in
/-- The cell after `p` on the line that leaves `p` (`p` itself if no line leaves `p`). -/
noncomputable def nxt (pb : Problem) (H W : Nat) (on : Seg → Bool) (p : Pt) : Pt :=
  if h : ∃ d, Out pb H W on p d then nb p (Classical.choose h) else p

section
variable {pb : Problem} {H W : Nat} {on : Seg → Bool}

theorem nxt_eq {p : Pt} {d : Dir} (h : Out pb H W on p d) : nxt pb H W on p = nb p d := by
  have hex : ∃ d, Out pb H W on p d := ⟨d, h⟩
  have : Classical.choose hex = d := out_unique (Classical.choose_spec hex) h
  simp [nxt, hex, this]

theorem nxt_inB {p : Pt} (hp : InB H W p) : InB H W (nxt pb H W on p) := by
  by_cases hex : ∃ d, Out pb H W on p d
  · obtain ⟨d, hd⟩ := hex
    rw [nxt_eq hd]
    exact nb_inB hp hd.has
  · simpa [nxt, hex] using hp

theorem iter_inB {p : Pt} (hp : InB H W p) (n : Nat) : InB H W ((nxt pb H W on)^[n] p) := by
  induction n with
  | zero => exact hp
  | succ n ih => rw [Function.iterate_succ_apply']; exact nxt_inB ih

/-- A walk along line steps is an iteration of `nxt`. -/
theorem walk_iter {p : Pt} {ds : List Dir} (h : ∀ st ∈ steps p ds, Out pb H W on st.1 st.2) :
    walk p ds = (nxt pb H W on)^[ds.length] p ∧
      ∀ st ∈ steps p ds, ∃ i, st.1 = (nxt pb H W on)^[i] p := by
  induction ds generalizing p with
  | nil => exact ⟨rfl, by simp [steps]⟩
  | cons d r ih =>
    have hd : Out pb H W on p d := h (p, d) (by simp [steps])
    have hr : ∀ st ∈ steps (nb p d) r, Out pb H W on st.1 st.2 := by
      intro st hst
      exact h st (by simp [steps, hst])
    obtain ⟨h1, h2⟩ := ih hr
    constructor
    · show walk (nb p d) r = _
      rw [h1, List.length_cons, Function.iterate_succ_apply, nxt_eq hd]
    · intro st hst
      have hst' : st = (p, d) ∨ st ∈ steps (nb p d) r := by simpa [steps] using hst
      rcases hst' with rfl | hst'
      · exact ⟨0, rfl⟩
      · obtain ⟨i, hi⟩ := h2 st hst'
        exact ⟨i + 1, by rw [hi, Function.iterate_succ_apply, nxt_eq hd]⟩

/-- The steps of the line of a firefly are iterations of `nxt`. -/
theorem line_iter {f : Pt} {d0 : Dir} {n : Option Int} {ds : List Dir} (hf : firefly pb f = some (d0, n))
    (ht : Tail pb H W on f d0 ds) :
    walk f (d0 :: ds) = (nxt pb H W on)^[ds.length + 1] f ∧
      ∀ st ∈ steps f (d0 :: ds), ∃ i, st.1 = (nxt pb H W on)^[i] f :=
  walk_iter fun st hst => ((outF_first hf ht).rest ht st hst).out

theorem live_fly (c : CtxD pb H W on) {p : Pt} {d : Dir} {n : Option Int} (hf : firefly pb p = some (d, n)) :
    Out pb H W on p d := by
  obtain ⟨ds, ht⟩ := c.lines p d n hf
  exact (outF_first hf ht).out

theorem live_next (c : CtxD pb H W on) {p : Pt} {d : Dir} (h : Out pb H W on p d) :
    ∃ d', Out pb H W on (nb p d) d' := by
  obtain ⟨f, hf⟩ := h
  obtain ⟨suf, hs⟩ := hf.tail
  cases suf with
  | nil =>
    obtain ⟨dd, n, hfl, _⟩ := tail_nil hs
    exact ⟨dd, live_fly c hfl⟩
  | cons d' r => exact ⟨d', (hf.next hs).out⟩

theorem live_iter (c : CtxD pb H W on) {p : Pt} (h : ∃ d, Out pb H W on p d) (n : Nat) :
    ∃ d, Out pb H W on ((nxt pb H W on)^[n] p) d := by
  induction n with
  | zero => exact h
  | succ n ih =>
    obtain ⟨d, hd⟩ := ih
    rw [Function.iterate_succ_apply', nxt_eq hd]
    exact live_next c hd

/-- From a cell that a line leaves, `nxt` leads to a firefly. -/
theorem live_reaches_fly {p : Pt} (h : ∃ d, Out pb H W on p d) :
    ∃ m dd n, firefly pb ((nxt pb H W on)^[m] p) = some (dd, n) := by
  obtain ⟨d, f, hf⟩ := h
  obtain ⟨suf, hs⟩ := hf.tail
  obtain ⟨hw, _⟩ := walk_iter (p := p) (ds := d :: suf) fun st hst => (hf.rest hs st hst).out
  obtain ⟨dd, n, hfl⟩ := tail_walk hs
  exact ⟨_, dd, n, hw ▸ hfl⟩

/-- Pigeonhole on the cells of the board. -/
theorem exists_repeat {p : Pt} (hp : InB H W p) :
    ∃ i j, i < j ∧ (nxt pb H W on)^[i] p = (nxt pb H W on)^[j] p := by
  have hlt : (Finset.range ((H + 1) * (W + 1))).card < (Finset.range ((H + 1) * (W + 1) + 1)).card := by
    simp
  obtain ⟨x, _, y, _, hne, hxy⟩ := Finset.exists_ne_map_eq_of_card_lt_of_maps_to hlt
    (f := fun i => ptIndex W ((nxt pb H W on)^[i] p))
    (fun i _ => Finset.mem_range.2 (C14.ptIndex_lt H W _ (iter_inB hp i)))
  have := C14.ptIndex_inj H W _ _ (iter_inB hp x) (iter_inB hp y) hxy
  rcases Nat.lt_or_gt_of_ne hne with hlt | hlt
  · exact ⟨x, y, hlt, this⟩
  · exact ⟨y, x, hlt, this.symm⟩

/-- There is a firefly on an `nxt`-cycle. -/
theorem exists_root (c : CtxD pb H W on) :
    ∃ a da na T, firefly pb a = some (da, na) ∧ 0 < T ∧ (nxt pb H W on)^[T] a = a := by
  obtain ⟨f0, d0, n0, hf0⟩ := c.someFly
  obtain ⟨i, j, hij, he⟩ := exists_repeat (pb := pb) (on := on) (c.flyIn f0 d0 n0 hf0)
  have hper : (nxt pb H W on)^[j - i] ((nxt pb H W on)^[i] f0) = (nxt pb H W on)^[i] f0 := by
    rw [← Function.iterate_add_apply, Nat.sub_add_cancel (Nat.le_of_lt hij), ← he]
  obtain ⟨m, dd, n, hfl⟩ := live_reaches_fly (live_iter c ⟨d0, live_fly c hf0⟩ i)
  refine ⟨_, dd, n, j - i, hfl, by omega, ?_⟩
  rw [← Function.iterate_add_apply, Nat.add_comm, Function.iterate_add_apply, hper]

/-- `nxt` leads from `g` to `a`. -/
def Reach (pb : Problem) (H W : Nat) (on : Seg → Bool) (a g : Pt) : Prop := ∃ n, (nxt pb H W on)^[n] g = a

theorem reach_nxt {a g : Pt} {T : Nat} (hT : 0 < T) (hper : (nxt pb H W on)^[T] a = a)
    (h : Reach pb H W on a g) : Reach pb H W on a (nxt pb H W on g) := by
  obtain ⟨n, hn⟩ := h
  cases n with
  | zero =>
    have : g = a := hn
    subst this
    refine ⟨T - 1, ?_⟩
    rw [← Function.iterate_succ_apply]
    have : (T - 1).succ = T := by omega
    rw [this, hper]
  | succ m => exact ⟨m, by rw [← Function.iterate_succ_apply]; exact hn⟩

theorem reach_iter {a g : Pt} {T : Nat} (hT : 0 < T) (hper : (nxt pb H W on)^[T] a = a)
    (h : Reach pb H W on a g) (m : Nat) : Reach pb H W on a ((nxt pb H W on)^[m] g) := by
  induction m with
  | zero => exact h
  | succ m ih => rw [Function.iterate_succ_apply']; exact reach_nxt hT hper ih

theorem reach_back {a g : Pt} (m : Nat) (h : Reach pb H W on a ((nxt pb H W on)^[m] g)) :
    Reach pb H W on a g := by
  obtain ⟨n, hn⟩ := h
  exact ⟨n + m, by rw [Function.iterate_add_apply]; exact hn⟩

theorem ends_iter (c : CtxD pb H W on) {q r : Pt} (h : EndsAt pb on q r) :
    ∃ m, r = (nxt pb H W on)^[m] q := by
  obtain ⟨d, n, ds, hf, ht, hw⟩ := c.ends q r h
  exact ⟨_, by rw [← hw]; exact (line_iter hf ht).1⟩

/-- All fireflies run into `a`. -/
theorem reach_fly (c : CtxD pb H W on) {a : Pt} {da : Dir} {na : Option Int} {T : Nat}
    (ha : firefly pb a = some (da, na)) (hT : 0 < T) (hper : (nxt pb H W on)^[T] a = a)
    {g : Pt} (hg : (firefly pb g).isSome = true) : Reach pb H W on a g := by
  have hl := c.connected a g (by simp [ha]) hg
  clear hg
  induction hl with
  | refl => exact ⟨0, rfl⟩
  | step _ he ih =>
    rcases he with he | he
    · obtain ⟨m, rfl⟩ := ends_iter c he
      exact reach_iter hT hper ih m
    · obtain ⟨m, hm⟩ := ends_iter c he
      rw [hm] at ih
      exact reach_back m ih

/-- Every cell that a line leaves, and the next cell, run into `a`. -/
theorem reach_out (c : CtxD pb H W on) {a : Pt} {da : Dir} {na : Option Int} {T : Nat}
    (ha : firefly pb a = some (da, na)) (hT : 0 < T) (hper : (nxt pb H W on)^[T] a = a)
    {p : Pt} {d : Dir} (h : Out pb H W on p d) : Reach pb H W on a p ∧ Reach pb H W on a (nb p d) := by
  have hp : Reach pb H W on a p := by
    obtain ⟨f, d0, n, ds, hf, ht, hm⟩ := h
    obtain ⟨i, hi⟩ := (line_iter hf ht).2 (p, d) hm
    have : p = (nxt pb H W on)^[i] f := hi
    rw [this]
    exact reach_iter hT hper (reach_fly c ha hT hper (by simp [hf])) i
  refine ⟨hp, ?_⟩
  rw [← nxt_eq h]
  exact reach_nxt hT hper hp

/-! ### the rank -/

open Classical in
/-- Number of `nxt`-steps to `a` (0 for the cells that do not run into `a`). -/
noncomputable def rankF (pb : Problem) (H W : Nat) (on : Seg → Bool) (a p : Pt) : Int :=
  if h : Reach pb H W on a p then ((Nat.find h : Nat) : Int) else 0

/-- The rank decreases along every line step that does not start in `a`. -/
theorem rank_dec {a p : Pt} {d : Dir} (h : Out pb H W on p d) (hne : p ≠ a) (hp : Reach pb H W on a p)
    (hq : Reach pb H W on a (nb p d)) : rankF pb H W on a (nb p d) < rankF pb H W on a p := by
  classical
  simp only [rankF, hp, hq, dif_pos]
  have hspec : (nxt pb H W on)^[Nat.find hp] p = a := Nat.find_spec hp
  cases hk : Nat.find hp with
  | zero =>
    rw [hk] at hspec
    exact absurd hspec hne
  | succ k =>
    rw [hk, Function.iterate_succ_apply, nxt_eq h] at hspec
    have : Nat.find hq ≤ k := Nat.find_min' hq hspec
    omega

/-- The rank fits the board. -/
theorem rank_bound {a p : Pt} (hp : InB H W p) :
    0 ≤ rankF pb H W on a p ∧ rankF pb H W on a p ≤ ((H + 1 : Nat) : Int) * ((W + 1 : Nat) : Int) - 1 := by
  classical
  by_cases hr : Reach pb H W on a p
  · simp only [rankF, hr, dif_pos]
    have hspec : (nxt pb H W on)^[Nat.find hr] p = a := Nat.find_spec hr
    have hinj : Set.InjOn (fun i => ptIndex W ((nxt pb H W on)^[i] p))
        (Finset.range (Nat.find hr + 1) : Set Nat) := by
      have key : ∀ i j, i < j → j ≤ Nat.find hr →
          (nxt pb H W on)^[i] p ≠ (nxt pb H W on)^[j] p := by
        intro i j hij hj he
        have : (nxt pb H W on)^[i + (Nat.find hr - j)] p = a := by
          rw [Nat.add_comm, Function.iterate_add_apply, he, ← Function.iterate_add_apply,
            Nat.sub_add_cancel hj, hspec]
        exact Nat.find_min hr (by omega) this
      intro i hi j hj hij
      simp only [Finset.coe_range, Set.mem_Iio] at hi hj
      have he := C14.ptIndex_inj H W _ _ (iter_inB hp i) (iter_inB hp j) hij
      by_contra hne
      rcases Nat.lt_or_gt_of_ne hne with hlt | hlt
      · exact key i j hlt (by omega) he
      · exact key j i hlt (by omega) he.symm
    have hcard := Finset.card_le_card_of_injOn (s := Finset.range (Nat.find hr + 1))
      (t := Finset.range ((H + 1) * (W + 1))) (fun i => ptIndex W ((nxt pb H W on)^[i] p))
      (fun i _ => Finset.mem_coe.2 (Finset.mem_range.2 (C14.ptIndex_lt H W _ (iter_inB hp i)))) hinj
    simp only [Finset.card_range] at hcard
    rw [← Int.natCast_mul]
    generalize (H + 1) * (W + 1) = N at hcard ⊢
    omega
  · simp only [rankF, hr, dif_neg, not_false_eq_true]
    rw [← Int.natCast_mul]
    have : 0 < (H + 1) * (W + 1) := Nat.mul_pos (by omega) (by omega)
    generalize (H + 1) * (W + 1) = N at this ⊢
    omega

end

end Cspuz.Proofs.C11FireflyCompleteD
