/-
  C11 / doppelblock — pure list facts: the sum the solver builds for one line (each cell counted when a
  black cell lies before it and another one behind it) is, on a line with exactly two black cells, the sum
  of the numbers strictly between them.  Core Lean only.
-/
namespace Cspuz.Proofs.C11DoppelblockL

/-- the line segment contains a black cell (value 0) -/
def hasZ (l : List Int) : Bool := l.any (· == 0)

/-- what the solver adds for position `i`: `(fold_or(l[:i] == 0) & fold_or(l[i+1:] == 0)).cond(l[i], 0)` -/
def term (l : List Int) (i : Nat) : Int :=
  if hasZ (l.take i) && hasZ (l.drop (i + 1)) then l.getD i 0 else 0

/-- the solver's sum over a line -/
def S (l : List Int) : Int := ((List.range l.length).map (term l)).sum

/-- the same sum, computed left to right (`pre`: a black cell was seen already) -/
def F : Bool → List Int → Int
  | _, [] => 0
  | pre, x :: r => (if pre && hasZ r then x else 0) + F (pre || x == 0) r

theorem hasZ_eq_false {l : List Int} : hasZ l = false ↔ (0 : Int) ∉ l := by
  simp [hasZ]
  constructor
  · intro h h0; exact h 0 h0 rfl
  · intro h x hx hx0; subst hx0; exact h hx

theorem hasZ_eq_true {l : List Int} : hasZ l = true ↔ (0 : Int) ∈ l := by
  rw [← Bool.not_eq_false, hasZ_eq_false]; simp

theorem hasZ_append (a b : List Int) : hasZ (a ++ b) = (hasZ a || hasZ b) := by
  simp [hasZ]

theorem sum_term_eq_F (r : List Int) : ∀ p : List Int,
    ((List.range r.length).map fun i => term (p ++ r) (p.length + i)).sum = F (hasZ p) r := by
  induction r with
  | nil => intro p; simp [F]
  | cons x r ih =>
    intro p
    rw [List.length_cons, List.range_succ_eq_map, List.map_cons, List.sum_cons, List.map_map, F]
    have h0 : term (p ++ x :: r) (p.length + 0) = if hasZ p && hasZ r then x else 0 := by
      simp only [term, Nat.add_zero]
      rw [List.take_left' rfl]
      have hd : List.drop (p.length + 1) (p ++ x :: r) = r := by
        rw [List.drop_append]; simp
      rw [hd]
      have hg : (p ++ x :: r).getD p.length 0 = x := by
        simp [List.getD_eq_getElem?_getD]
      rw [hg]
    rw [h0]
    congr 1
    have := ih (p ++ [x])
    have e1 : hasZ (p ++ [x]) = (hasZ p || x == 0) := by
      rw [hasZ_append]; simp [hasZ]
    rw [e1] at this
    rw [← this]
    congr 1
    apply List.map_congr_left
    intro i _
    simp only [Function.comp, List.append_assoc, List.cons_append, List.nil_append, List.length_append,
      List.length_cons, List.length_nil, Nat.succ_eq_add_one]
    congr 1
    omega

theorem S_eq_F (l : List Int) : S l = F false l := by
  have := sum_term_eq_F l []
  simpa [S, hasZ] using this

theorem F_noZ (C : List Int) : ∀ pre, hasZ C = false → F pre C = 0 := by
  induction C with
  | nil => intro _ _; rfl
  | cons x r ih =>
    intro pre h
    have hr : hasZ r = false := by
      simp only [hasZ, List.any_cons, Bool.or_eq_false_iff] at h ⊢
      exact h.2
    rw [F, hr, ih _ hr]; simp

theorem F_false_prefix (A R : List Int) (hA : (0 : Int) ∉ A) : F false (A ++ R) = F false R := by
  induction A with
  | nil => rfl
  | cons a A ih =>
    have ha : a ≠ 0 := fun h => hA (by simp [h])
    have hA' : (0 : Int) ∉ A := fun h => hA (by simp [h])
    rw [List.cons_append, F]
    have e : (false || a == 0) = false := by simp [ha]
    rw [e, ih hA']
    simp

theorem F_true_mid (B C : List Int) : F true (B ++ 0 :: C) = B.sum + F true (0 :: C) := by
  induction B with
  | nil => simp
  | cons b B ih =>
    have hz : hasZ (B ++ 0 :: C) = true := by
      rw [hasZ_eq_true]; simp
    rw [List.cons_append, F, hz, List.sum_cons]
    simp only [Bool.and_self, if_true, Bool.true_or]
    rw [ih]; omega

theorem S_decomp (A B C : List Int) (hA : (0 : Int) ∉ A) (hC : (0 : Int) ∉ C) :
    S (A ++ 0 :: (B ++ 0 :: C)) = B.sum := by
  rw [S_eq_F, F_false_prefix _ _ hA, F]
  simp only [Bool.false_and, Bool.false_or, BEq.rfl]
  rw [F_true_mid, F, F_noZ C _ (hasZ_eq_false.2 hC)]
  simp

theorem decomp {l : List Int} (h2 : l.count 0 = 2) :
    ∃ A B C, l = A ++ 0 :: (B ++ 0 :: C) ∧ (0 : Int) ∉ A ∧ (0 : Int) ∉ B ∧ (0 : Int) ∉ C := by
  have h0 : (0 : Int) ∈ l := List.count_pos_iff.mp (by omega)
  obtain ⟨A, R, rfl, hA⟩ := List.eq_append_cons_of_mem h0
  have hcA := List.count_eq_zero.mpr hA
  rw [List.count_append, List.count_cons_self, hcA] at h2
  have h1 : (0 : Int) ∈ R := List.count_pos_iff.mp (by omega)
  obtain ⟨B, C, rfl, hB⟩ := List.eq_append_cons_of_mem h1
  have hcB := List.count_eq_zero.mpr hB
  rw [List.count_append, List.count_cons_self, hcB] at h2
  exact ⟨A, B, C, rfl, hA, hB, List.count_eq_zero.mp (by omega)⟩

theorem uniq : ∀ (A A' X X' : List Int), A ++ 0 :: X = A' ++ 0 :: X' → (0 : Int) ∉ A → (0 : Int) ∉ A' →
    A = A' ∧ X = X'
  | [], [], X, X', h, _, _ => by simpa using h
  | [], a' :: A', X, X', h, _, h' => by
    simp only [List.nil_append, List.cons_append, List.cons.injEq] at h
    exact absurd (by simp [← h.1]) h'
  | a :: A, [], X, X', h, h', _ => by
    simp only [List.nil_append, List.cons_append, List.cons.injEq] at h
    exact absurd (by simp [h.1]) h'
  | a :: A, a' :: A', X, X', h, h1, h2 => by
    simp only [List.cons_append, List.cons.injEq] at h
    obtain ⟨e, hX⟩ := uniq A A' X X' h.2 (fun m => h1 (by simp [m])) (fun m => h2 (by simp [m]))
    exact ⟨by rw [h.1, e], hX⟩

/-- splitting a list at two positions -/
theorem split_two (l : List Int) (i k : Nat) (hik : i < k) (hk : k < l.length) :
    l = l.take i ++ l.getD i 1 :: ((l.take k).drop (i + 1) ++ l.getD k 1 :: l.drop (k + 1)) := by
  have hi : i < l.length := by omega
  have e1 : l.getD i 1 = l[i] := by simp [List.getD_eq_getElem?_getD, hi]
  have e2 : l.getD k 1 = l[k] := by simp [List.getD_eq_getElem?_getD, hk]
  rw [e1, e2, List.drop_take]
  have h1 := (List.take_append_drop i l).symm
  rw [List.drop_eq_getElem_cons hi] at h1
  have h2 := (List.take_append_drop (k - (i + 1)) (l.drop (i + 1))).symm
  have hk' : k - (i + 1) < (l.drop (i + 1)).length := by simp; omega
  rw [List.drop_eq_getElem_cons hk'] at h2
  have e3 : (l.drop (i + 1))[k - (i + 1)] = l[k] := by
    simp only [List.getElem_drop]; congr 1; omega
  have e4 : (l.drop (i + 1)).drop (k - (i + 1) + 1) = l.drop (k + 1) := by
    rw [List.drop_drop]; congr 1; omega
  rw [e3, e4] at h2
  rw [← h2]
  exact h1

/-- On a line with exactly two black cells: the solver's sum is `c` iff the numbers between every pair of
black cells sum to `c`. -/
theorem S_eq_iff (l : List Int) (h2 : l.count 0 = 2) (c : Int) :
    S l = c ↔ ∀ i k, i < k → k < l.length → l.getD i 1 = 0 → l.getD k 1 = 0 →
      ((l.take k).drop (i + 1)).sum = c := by
  obtain ⟨A, B, C, hl, hA, hB, hC⟩ := decomp h2
  have hS : S l = B.sum := by rw [hl]; exact S_decomp A B C hA hC
  rw [hS]
  constructor
  · intro hc i k hik hk hi0 hk0
    have hs := split_two l i k hik hk
    rw [hi0, hk0] at hs
    have hcount := h2
    rw [hs] at hcount
    simp only [List.count_append, List.count_cons_self] at hcount
    have hA' : (0 : Int) ∉ l.take i := List.count_eq_zero.mp (by omega)
    have hB' : (0 : Int) ∉ (l.take k).drop (i + 1) := List.count_eq_zero.mp (by omega)
    have heq : A ++ 0 :: (B ++ 0 :: C)
        = l.take i ++ 0 :: ((l.take k).drop (i + 1) ++ 0 :: l.drop (k + 1)) := by
      rw [← hl]; exact hs
    obtain ⟨_, hX⟩ := uniq _ _ _ _ heq hA hA'
    obtain ⟨hBB, _⟩ := uniq _ _ _ _ hX hB hB'
    rw [← hBB]; exact hc
  · intro h
    have hlen : l.length = A.length + 1 + (B.length + 1 + C.length) := by
      rw [hl]; simp; omega
    have := h A.length (A.length + 1 + B.length) (by omega) (by omega)
      (by rw [hl]; simp [List.getD_eq_getElem?_getD])
      (by
        rw [hl, show A ++ 0 :: (B ++ 0 :: C) = (A ++ 0 :: B) ++ 0 :: C by simp]
        rw [List.getD_eq_getElem?_getD, List.getElem?_append_right (by simp; omega)]
        simp
        rw [show A.length + 1 + B.length - (A.length + (B.length + 1)) = 0 by omega]
        simp)
    rw [← this]
    have e : (l.take (A.length + 1 + B.length)) = A ++ 0 :: B := by
      rw [hl, show A ++ 0 :: (B ++ 0 :: C) = (A ++ 0 :: B) ++ 0 :: C by simp]
      exact List.take_left' (by simp; omega)
    rw [e, List.drop_append]
    simp [List.drop_eq_nil_of_le]

end Cspuz.Proofs.C11DoppelblockL
