/-
  C11 / magnets — the program posted by `solve_magnets` encodes the rules of Magnets.
  Part 1: closed form of the posted program.
-/
import CspuzModel.Spec.PuzzleRules.Magnets
import CspuzModel.Proofs.C11CL
import CspuzModel.Proofs.C11ArrOps
import CspuzModel.Proofs.C11Grid
namespace Cspuz.Proofs.C11Magnets
open Cspuz Cspuz.Spec Cspuz.Puzzles Cspuz.Puzzles.Magnets Cspuz.Proofs Cspuz.Proofs.C11CL

/-! ### Pieces of the program -/

/-- The variable of position `i` in the array allocated at `base` (`plus`: base 0, `minus`: base `h * w`). -/
def vf (base : Nat) (i : Nat) : Expr := .bvar (base + i)

theorem bvars_eq (base n : Nat) : bvars base n = (List.range n).map (vf base) := rfl

theorem vf_boolLike (b i : Nat) : (vf b i).isBoolLike = true := rfl

/-- `(plus[y, x] == minus[y2, x2]) & (minus[y, x] == plus[y2, x2])` -/
def plateE (n w y x y2 x2 : Nat) : Expr :=
  .node .and [.node .iff [vf 0 (y * w + x), vf n (y2 * w + x2)], .node .iff [vf n (y * w + x), vf 0 (y2 * w + x2)]]

/-- Constraints of the loop body for cell `p`. -/
def cellC (pb : Problem) (p : Nat × Nat) : List Expr :=
  (if right pb p.1 p.2 = true then [plateE (pb.height * pb.width) pb.width p.1 p.2 p.1 (p.2 + 1)] else []) ++
  (if down pb p.1 p.2 = true then [plateE (pb.height * pb.width) pb.width p.1 p.2 (p.1 + 1) p.2] else [])

/-- `~(a & b)` for every pair of positions `(fa p, fb p)`, `p ∈ L`, of the array at `base`. -/
def adjC (base : Nat) (L : List (Nat × Nat)) (fa fb : Nat × Nat → Nat) : List Expr :=
  L.map fun p => .node .not [.node .and [vf base (fa p), vf base (fb p)]]

/-- `if cond[i][k] >= 0: ensure(count_true(vars) == cond[i][k])` -/
def clueC (t : List (List Int)) (i k : Nat) (vars : List Expr) : List Expr :=
  if clue t i k ≥ 0 then [.node .eq [countTrueE vars, .litI (clue t i k)]] else []

def rowV (base w y : Nat) : List Expr := (List.range w).map fun x => vf base (y * w + x)
def colV (base h w x : Nat) : List Expr := (List.range h).map fun y => vf base (y * w + x)

/-- `~(plus & minus)` -/
def bothC (n : Nat) : List Expr := (List.range n).map fun i => .node .not [.node .and [vf 0 i, vf n i]]

def closedCs (pb : Problem) : List Expr :=
  let h := pb.height
  let w := pb.width
  bothC (h * w) ++
  ((cellsOf h w).map (cellC pb)).flatten ++
  adjC 0 (cellsOf (h - 1) w) (fun p => p.1 * w + p.2) (fun p => (p.1 + 1) * w + p.2) ++
  adjC (h * w) (cellsOf (h - 1) w) (fun p => p.1 * w + p.2) (fun p => (p.1 + 1) * w + p.2) ++
  adjC 0 (cellsOf h (w - 1)) (fun p => p.1 * w + p.2) (fun p => p.1 * w + (p.2 + 1)) ++
  adjC (h * w) (cellsOf h (w - 1)) (fun p => p.1 * w + p.2) (fun p => p.1 * w + (p.2 + 1)) ++
  ((List.range h).map fun y => clueC pb.condRow y 0 (rowV 0 w y) ++ clueC pb.condRow y 1 (rowV (h * w) w y)).flatten ++
  ((List.range w).map fun x => clueC pb.condCol x 0 (colV 0 h w x) ++ clueC pb.condCol x 1 (colV (h * w) h w x)).flatten

/-- The posted program, viewed as ONE Boolean grid of `2 * height` rows: rows `0 … h-1` are `plus`, rows
`h … 2h-1` are `minus`. -/
def closed (pb : Problem) : PuzzleProg :=
  { decls := List.replicate ((pb.height + pb.height) * pb.width) .bool,
    cs := closedCs pb,
    keys := List.range ((pb.height + pb.height) * pb.width) }

/-! ### Table lookups -/

theorem mem_cellsOf {h w : Nat} {p : Nat × Nat} : p ∈ cellsOf h w ↔ p.1 < h ∧ p.2 < w := by
  simp only [cellsOf, List.mem_flatMap, List.mem_range, List.mem_map]
  constructor
  · rintro ⟨y, hy, x, hx, rfl⟩; exact ⟨hy, hx⟩
  · rintro ⟨hy, hx⟩; exact ⟨p.1, hy, p.2, hx, rfl⟩

theorem table_lookup {α : Type} (t : List (List α)) (d : α) (y x : Nat) (hy : y < t.length)
    (hx : x < (t[y]).length) :
    (do let row ← pyIndex t (y : Int); pyIndex row (x : Int)) = (.ok (((t[y]?).getD [])[x]?.getD d) : Py α) := by
  rw [Cspuz.Proofs.C13.pyIndex_natCast _ _ hy, List.getElem?_eq_getElem hy]
  simp only [ok_bind]
  rw [Cspuz.Proofs.C13.pyIndex_natCast _ _ hx, List.getElem?_eq_getElem hx]
  simp [List.getElem?_eq_getElem hx]

theorem flagGet_ok (t : List (List Bool)) (h w y x : Nat) (hl : t.length = h) (hr : ∀ row ∈ t, row.length = w)
    (hy : y < h) (hx : x < w) :
    flagGet t (y : Int) (x : Int) = .ok (((t[y]?).getD [])[x]?.getD false) := by
  have hy' : y < t.length := by omega
  have hrow : (t[y]).length = w := hr _ (List.getElem_mem hy')
  exact table_lookup t false y x hy' (by omega)

theorem tableGet_clue (t : List (List Int)) (n i k : Nat) (hl : t.length = n) (hr : ∀ r ∈ t, r.length = 2)
    (hi : i < n) (hk : k < 2) :
    tableGet t (i : Int) (k : Int) = .ok (clue t i k) := by
  have hi' : i < t.length := by omega
  have hrow : (t[i]).length = 2 := hr _ (List.getElem_mem hi')
  exact table_lookup t (-1) i k hi' (by omega)

/-! ### The statements of the program -/

theorem zipWith_map_map {ι α β γ : Type} (f : α → β → γ) (fa : ι → α) (fb : ι → β) (L : List ι) :
    List.zipWith f (L.map fa) (L.map fb) = L.map fun p => f (fa p) (fb p) := by
  induction L with
  | nil => rfl
  | cons a L ih => simp [ih]

/-- `solver.add_answer_key(minus)` after `plus`. -/
theorem addKeysV_second (h w n : Nat) :
    addKeysV (.arr2 true h w ((List.range n).map (vf n))) (List.range n) = .ok (List.range (n + n)) := by
  have := addKeys_fold Expr.bvar (fun _ => rfl) n n
  simp only [addKeysV, PyV.flat]
  rw [List.range'_eq_map_range, List.map_map] at this
  exact this

/-- The constraints of `ensure(~(plus & minus))`. -/
theorem both_eq (n : Nat) :
    (List.zipWith (fun a b => Expr.node .and [a, b]) ((List.range n).map (vf 0)) ((List.range n).map (vf n))).map
        (fun a => Expr.node .not [a]) = bothC n := by
  rw [zipWith_map_map, List.map_map]
  rfl

theorem plateCs_closed (h w y x y2 x2 : Nat) (hy : y < h) (hx : x < w) (hy2 : y2 < h) (hx2 : x2 < w) :
    plateCs (.arr2 true h w ((List.range (h * w)).map (vf 0))) (.arr2 true h w ((List.range (h * w)).map (vf (h * w))))
        (y : Int) (x : Int) (y2 : Int) (x2 : Int)
      = .ok [plateE (h * w) w y x y2 x2] := by
  unfold plateCs
  rw [getitemV_cell true (vf 0) h w y x hy hx]
  simp only [ok_bind]
  rw [getitemV_cell true (vf (h * w)) h w y2 x2 hy2 hx2]
  simp only [ok_bind]
  rw [getitemV_cell true (vf (h * w)) h w y x hy hx, getitemV_cell true (vf 0) h w y2 x2 hy2 hx2]
  rfl

theorem cellCs_closed (pb : Problem) (hs : Shaped pb) (p : Nat × Nat) (hp : p ∈ cellsOf pb.height pb.width) :
    cellCs pb (.arr2 true pb.height pb.width ((List.range (pb.height * pb.width)).map (vf 0)))
        (.arr2 true pb.height pb.width ((List.range (pb.height * pb.width)).map (vf (pb.height * pb.width)))) p
      = .ok (cellC pb p) := by
  obtain ⟨hy, hx⟩ := mem_cellsOf.mp hp
  obtain ⟨r1, r2, d1, d2, _, _, _, _, hr, hd⟩ := hs
  unfold cellCs
  rw [flagGet_ok pb.toRight pb.height pb.width p.1 p.2 r1 r2 hy hx]
  simp only [ok_bind]
  have e1 : ((p.2 : Int) + 1) = ((p.2 + 1 : Nat) : Int) := by omega
  have e2 : ((p.1 : Int) + 1) = ((p.1 + 1 : Nat) : Int) := by omega
  rw [e1, e2]
  have hR : (if ((pb.toRight[p.1]?).getD [])[p.2]?.getD false = true then
        plateCs (.arr2 true pb.height pb.width ((List.range (pb.height * pb.width)).map (vf 0)))
          (.arr2 true pb.height pb.width ((List.range (pb.height * pb.width)).map (vf (pb.height * pb.width))))
          (p.1 : Int) (p.2 : Int) (p.1 : Int) ((p.2 + 1 : Nat) : Int)
      else (.ok [] : Py (List Expr)))
      = .ok (if right pb p.1 p.2 = true then [plateE (pb.height * pb.width) pb.width p.1 p.2 p.1 (p.2 + 1)] else []) := by
    by_cases hb : right pb p.1 p.2 = true
    · have hb' : ((pb.toRight[p.1]?).getD [])[p.2]?.getD false = true := hb
      rw [if_pos hb', if_pos hb, plateCs_closed _ _ _ _ _ _ hy hx hy (hr _ _ hy hx hb)]
    · have hb' : ¬ ((pb.toRight[p.1]?).getD [])[p.2]?.getD false = true := hb
      rw [if_neg hb', if_neg hb]
  rw [hR]
  simp only [ok_bind]
  rw [flagGet_ok pb.toDown pb.height pb.width p.1 p.2 d1 d2 hy hx]
  simp only [ok_bind]
  have hD : (if ((pb.toDown[p.1]?).getD [])[p.2]?.getD false = true then
        plateCs (.arr2 true pb.height pb.width ((List.range (pb.height * pb.width)).map (vf 0)))
          (.arr2 true pb.height pb.width ((List.range (pb.height * pb.width)).map (vf (pb.height * pb.width))))
          (p.1 : Int) (p.2 : Int) ((p.1 + 1 : Nat) : Int) (p.2 : Int)
      else (.ok [] : Py (List Expr)))
      = .ok (if down pb p.1 p.2 = true then [plateE (pb.height * pb.width) pb.width p.1 p.2 (p.1 + 1) p.2] else []) := by
    by_cases hb : down pb p.1 p.2 = true
    · have hb' : ((pb.toDown[p.1]?).getD [])[p.2]?.getD false = true := hb
      rw [if_pos hb', if_pos hb, plateCs_closed _ _ _ _ _ _ hy hx (hd _ _ hy hx hb) hx]
    · have hb' : ¬ ((pb.toDown[p.1]?).getD [])[p.2]?.getD false = true := hb
      rw [if_neg hb', if_neg hb]
  rw [hD]
  rfl

/-- The variables selected by a pair of index lists in the array at `base`. -/
def selE (base w : Nat) (ys xs : List Nat) : List Expr := ys.flatMap fun y => xs.map fun x => vf base (y * w + x)

theorem selE_length (base w : Nat) (ys xs : List Nat) : (selE base w ys xs).length = ys.length * xs.length := by
  unfold selE
  induction ys with
  | nil => simp
  | cons a l ih => simp [List.flatMap_cons, Nat.succ_mul, Nat.add_comm]

theorem noPair_closed (base h w : Nat) (ky1 kx1 ky2 kx2 : AxisKey) (ys1 xs1 ys2 xs2 : List Nat)
    (hy1 : axisSel h ky1 = .ok (false, ys1)) (hx1 : axisSel w kx1 = .ok (false, xs1))
    (hy2 : axisSel h ky2 = .ok (false, ys2)) (hx2 : axisSel w kx2 = .ok (false, xs2))
    (by1 : ∀ y ∈ ys1, y < h) (bx1 : ∀ x ∈ xs1, x < w) (by2 : ∀ y ∈ ys2, y < h) (bx2 : ∀ x ∈ xs2, x < w)
    (hly : ys2.length = ys1.length) (hlx : xs2.length = xs1.length) :
    noPair (.arr2 true h w ((List.range (h * w)).map (vf base))) ky1 kx1 ky2 kx2
      = .ok ((List.zipWith (fun a b => Expr.node .and [a, b]) (selE base w ys1 xs1) (selE base w ys2 xs2)).map
          fun e => .node .not [e]) := by
  unfold noPair
  rw [getitemV_slices true (vf base) h w ky1 kx1 ys1 xs1 hy1 hx1 by1 bx1]
  simp only [ok_bind]
  rw [getitemV_slices true (vf base) h w ky2 kx2 ys2 xs2 hy2 hx2 by2 bx2]
  simp only [ok_bind, hly, hlx]
  change (binop BinOp.and_ (PyV.arr2 true ys1.length xs1.length (selE base w ys1 xs1))
    (PyV.arr2 true ys1.length xs1.length (selE base w ys2 xs2)) >>= _) = _
  rw [binop_bool_arr2 .and_ .and (Or.inl ⟨rfl, rfl⟩) _ _ _ _ (selE_length base w ys1 xs1)
    (by rw [← hly, ← hlx]; exact selE_length base w ys2 xs2)]
  simp only [ok_bind]
  rw [unop_invert_arr2 _ _ _ (by
    rw [List.length_zipWith, selE_length, selE_length, hly, hlx, Nat.min_self])]
  simp only [ok_bind]
  rw [ensureV_arr2]
  intro x hx
  simp only [List.mem_map] at hx
  obtain ⟨_, _, rfl⟩ := hx
  rfl

theorem selE_cells (base w a b : Nat) (fy fx : Nat → Nat) :
    selE base w ((List.range a).map fy) ((List.range b).map fx)
      = (cellsOf a b).map fun p => vf base (fy p.1 * w + fx p.2) := by
  simp [selE, cellsOf, List.flatMap_map, List.map_flatMap, List.map_map, Function.comp_def]

theorem adj_zip (base w a b : Nat) (fy1 fx1 fy2 fx2 : Nat → Nat) :
    (List.zipWith (fun a b => Expr.node .and [a, b])
        (selE base w ((List.range a).map fy1) ((List.range b).map fx1))
        (selE base w ((List.range a).map fy2) ((List.range b).map fx2))).map (fun e => Expr.node .not [e])
      = adjC base (cellsOf a b) (fun p => fy1 p.1 * w + fx1 p.2) (fun p => fy2 p.1 * w + fx2 p.2) := by
  rw [selE_cells, selE_cells, zipWith_map_map, List.map_map]
  rfl

theorem range_pred_lt {n j : Nat} (hj : j ∈ List.range (n - 1)) : j < n ∧ j + 1 < n := by
  have := List.mem_range.mp hj; omega

/-- `ensure(~(arr[:-1, :] & arr[1:, :]))` -/
theorem noPair_vert (base h w : Nat) :
    noPair (.arr2 true h w ((List.range (h * w)).map (vf base)))
        (.slice none (some (-1)) none) fullSlice (.slice (some 1) none none) fullSlice
      = .ok (adjC base (cellsOf (h - 1) w) (fun p => p.1 * w + p.2) (fun p => (p.1 + 1) * w + p.2)) := by
  have hr0 : ∀ x ∈ List.range w, x < w := fun x hx => List.mem_range.mp hx
  have hr1 : ∀ y ∈ List.range (h - 1), y < h := fun y hy => (range_pred_lt hy).1
  have hr2 : ∀ y ∈ (List.range (h - 1)).map (fun j => j + 1), y < h := by
    intro y hy
    simp only [List.mem_map] at hy
    obtain ⟨j, hj, rfl⟩ := hy
    exact (range_pred_lt hj).2
  rw [noPair_closed base h w _ _ _ _ _ _ _ _ (axisSel_upto _) (axisSel_full _) (axisSel_from1 _) (axisSel_full _)
    hr1 hr0 hr2 hr0 (by simp) rfl]
  have e := adj_zip base w (h - 1) w (fun j => j) (fun j => j) (fun j => j + 1) (fun j => j)
  simp only [List.map_id'] at e
  rw [e]

/-- `ensure(~(arr[:, :-1] & arr[:, 1:]))` -/
theorem noPair_horiz (base h w : Nat) :
    noPair (.arr2 true h w ((List.range (h * w)).map (vf base)))
        fullSlice (.slice none (some (-1)) none) fullSlice (.slice (some 1) none none)
      = .ok (adjC base (cellsOf h (w - 1)) (fun p => p.1 * w + p.2) (fun p => p.1 * w + (p.2 + 1))) := by
  have hr0 : ∀ y ∈ List.range h, y < h := fun y hy => List.mem_range.mp hy
  have hr1 : ∀ x ∈ List.range (w - 1), x < w := fun x hx => (range_pred_lt hx).1
  have hr2 : ∀ x ∈ (List.range (w - 1)).map (fun j => j + 1), x < w := by
    intro x hx
    simp only [List.mem_map] at hx
    obtain ⟨j, hj, rfl⟩ := hx
    exact (range_pred_lt hj).2
  rw [noPair_closed base h w _ _ _ _ _ _ _ _ (axisSel_full _) (axisSel_upto _) (axisSel_full _) (axisSel_from1 _)
    hr0 hr1 hr0 hr2 rfl (by simp)]
  have e := adj_zip base w h (w - 1) (fun j => j) (fun j => j) (fun j => j) (fun j => j + 1)
  simp only [List.map_id'] at e
  rw [e]

theorem clueCs_closed (t : List (List Int)) (i k : Nat) (arr : PyV) (key : Key2) (vars : List Expr)
    (hv : ∀ x ∈ vars, x.isBoolLike = true)
    (hget : tableGet t (i : Int) (k : Int) = .ok (clue t i k))
    (hline : getitemV arr key = .ok (.arr1 true vars)) :
    clueCs t (i : Int) (k : Int) arr key = .ok (clueC t i k vars) := by
  unfold clueCs clueC
  rw [hget]
  simp only [ok_bind]
  by_cases hc : clue t i k ≥ 0
  · rw [if_pos hc, if_pos hc, hline]
    simp only [ok_bind]
    rw [countTrueA_arr1 vars hv]
    simp only [ok_bind]
    rw [Cspuz.Proofs.C11ArrOps.binop_cmp_countTrueE .eq .eq (Or.inl ⟨rfl, rfl⟩)]
    simp only [ok_bind]
    rw [ensureV_scalar _ rfl]
  · rw [if_neg hc, if_neg hc]

theorem rowV_boolLike (b w y : Nat) : ∀ x ∈ rowV b w y, x.isBoolLike = true := by
  intro x hx
  simp only [rowV, List.mem_map] at hx
  obtain ⟨_, _, rfl⟩ := hx
  rfl

theorem colV_boolLike (b h w x : Nat) : ∀ e ∈ colV b h w x, e.isBoolLike = true := by
  intro e he
  simp only [colV, List.mem_map] at he
  obtain ⟨_, _, rfl⟩ := he
  rfl

/-! ### Closed form -/

theorem program_closed (pb : Problem) (hs : Shaped pb) : program pb = .ok (closed pb) := by
  have hs' := hs
  obtain ⟨_, _, _, _, cr1, cr2, cc1, cc2, _, _⟩ := hs'
  unfold program
  simp only [bvars_eq]
  rw [addKeysV_fresh true _ _ _ (vf 0) (fun i => by simp [vf, isVarExpr])]
  simp only [ok_bind]
  rw [addKeysV_second]
  simp only [ok_bind]
  -- ~(plus & minus)
  rw [binop_bool_arr2 .and_ .and (Or.inl ⟨rfl, rfl⟩) _ _ _ _ (by simp) (by simp)]
  simp only [ok_bind]
  rw [unop_invert_arr2 _ _ _ (by simp)]
  simp only [ok_bind]
  rw [ensureV_arr2 _ _ _ _ (by
    intro x hx
    simp only [List.mem_map] at hx
    obtain ⟨_, _, rfl⟩ := hx
    rfl)]
  simp only [ok_bind, both_eq]
  -- plates
  rw [mapM_eq_ok_map (g := cellC pb) (cellCs_closed pb hs)]
  simp only [ok_bind]
  -- adjacency
  rw [noPair_vert, ok_bind, noPair_vert, ok_bind, noPair_horiz, ok_bind, noPair_horiz, ok_bind]
  -- row clues
  rw [mapM_eq_ok_map (g := fun y => clueC pb.condRow y 0 (rowV 0 pb.width y) ++
      clueC pb.condRow y 1 (rowV (pb.height * pb.width) pb.width y))]
  swap
  · intro y hy
    have hy' := List.mem_range.mp hy
    have hc := clueCs_closed pb.condRow y 0 _ _ (rowV 0 pb.width y) (rowV_boolLike _ _ _)
      (tableGet_clue _ _ y 0 cr1 cr2 hy' (by omega))
      (getitemV_row true (vf 0) _ _ y fullSlice _ hy' (axisSel_full _) (fun x hx => List.mem_range.mp hx))
    simp only [Int.natCast_zero] at hc
    rw [hc]
    clear hc
    simp only [ok_bind]
    have hc := clueCs_closed pb.condRow y 1 _ _ (rowV (pb.height * pb.width) pb.width y) (rowV_boolLike _ _ _)
      (tableGet_clue _ _ y 1 cr1 cr2 hy' (by omega))
      (getitemV_row true (vf _) _ _ y fullSlice _ hy' (axisSel_full _) (fun x hx => List.mem_range.mp hx))
    simp only [Int.natCast_one] at hc
    rw [hc]
    clear hc
    rfl
  simp only [ok_bind]
  -- column clues
  rw [mapM_eq_ok_map (g := fun x => clueC pb.condCol x 0 (colV 0 pb.height pb.width x) ++
      clueC pb.condCol x 1 (colV (pb.height * pb.width) pb.height pb.width x))]
  swap
  · intro x hx
    have hx' := List.mem_range.mp hx
    have hc := clueCs_closed pb.condCol x 0 _ _ (colV 0 pb.height pb.width x) (colV_boolLike _ _ _ _)
      (tableGet_clue _ _ x 0 cc1 cc2 hx' (by omega))
      (getitemV_col true (vf 0) _ _ fullSlice x _ hx' (axisSel_full _) (fun y hy => List.mem_range.mp hy))
    simp only [Int.natCast_zero] at hc
    rw [hc]
    clear hc
    simp only [ok_bind]
    have hc := clueCs_closed pb.condCol x 1 _ _ (colV (pb.height * pb.width) pb.height pb.width x) (colV_boolLike _ _ _ _)
      (tableGet_clue _ _ x 1 cc1 cc2 hx' (by omega))
      (getitemV_col true (vf _) _ _ fullSlice x _ hx' (axisSel_full _) (fun y hy => List.mem_range.mp hy))
    simp only [Int.natCast_one] at hc
    rw [hc]
    clear hc
    rfl
  simp only [ok_bind]
  -- assemble
  rw [List.replicate_append_replicate, ← Nat.add_mul]
  rfl

end Cspuz.Proofs.C11Magnets
