/-
  C11 / LITS — the code of a finite cell set (number of straight middles, existence of a cell with three
  neighbours) is invariant under `SameShape`.  The two notions are first transported to `ℤ × ℤ`, where the
  lattice symmetries act.
-/
import Mathlib.Data.Set.Card
import Mathlib.Algebra.Group.Prod
import Mathlib.Tactic.Abel
import CspuzModel.Spec.PuzzleRules.Lits
import CspuzModel.Proofs.C11LitsShapeSym
namespace Cspuz.Proofs.C11LitsShapeInv
open Cspuz Cspuz.Spec Cspuz.Spec.Lits Cspuz.Proofs.C11LitsShapeSym

/-- One of the four unit vectors of the lattice. -/
def IsUnitVec (d : Int × Int) : Prop := d = (1, 0) ∨ d = (-1, 0) ∨ d = (0, 1) ∨ d = (0, -1)

theorem isUnitVec_sym (s n m : Bool) {d : Int × Int} (h : IsUnitVec d) : IsUnitVec (latticeSym s n m d) := by
  rcases h with rfl | rfl | rfl | rfl <;> cases s <;> cases n <;> cases m <;> simp [latticeSym, IsUnitVec]

theorem affZ_sub_affZ (s n m : Bool) (t p q : Int × Int) :
    affZ s n m t q - affZ s n m t p = latticeSym s n m (q - p) := by
  simp only [affZ, latticeSym_sub]
  abel

theorem affZ_sub (s n m : Bool) (t p d : Int × Int) :
    affZ s n m t (p - d) = affZ s n m t p - latticeSym s n m d := by
  simp only [affZ, latticeSym_sub]
  abel

theorem affZ_add (s n m : Bool) (t p d : Int × Int) :
    affZ s n m t (p + d) = affZ s n m t p + latticeSym s n m d := by
  simp only [affZ, latticeSym_add]
  abel

theorem adj_iff_unit (p q : Nat × Nat) : cellGraph.Adj p q ↔ IsUnitVec (castC q - castC p) := by
  obtain ⟨p1, p2⟩ := p
  obtain ⟨q1, q2⟩ := q
  show ((p1 = q1 ∧ (p2 + 1 = q2 ∨ q2 + 1 = p2)) ∨ (p2 = q2 ∧ (p1 + 1 = q1 ∨ q1 + 1 = p1))) ↔ _
  simp only [IsUnitVec, castC, Prod.mk_sub_mk, Prod.mk.injEq]
  omega

/-! ### straight middles -/

/-- `p` is a point of `T` and both `p - d`, `p + d` are points of `T`, for a unit vector `d`. -/
def MidZ (T : Set (Int × Int)) (p : Int × Int) : Prop :=
  p ∈ T ∧ ∃ d, IsUnitVec d ∧ p - d ∈ T ∧ p + d ∈ T

theorem straightMid_iff (S : Set (Nat × Nat)) (p : Nat × Nat) :
    StraightMid S p ↔ MidZ (castC '' S) (castC p) := by
  constructor
  · rintro ⟨hp, h⟩
    refine ⟨⟨p, hp, rfl⟩, ?_⟩
    rcases h with ⟨h1, ha, hb⟩ | ⟨h1, ha, hb⟩
    · refine ⟨(1, 0), Or.inl rfl, ⟨(p.1 - 1, p.2), ha, ?_⟩, ⟨(p.1 + 1, p.2), hb, ?_⟩⟩
      · rw [Prod.ext_iff]; refine ⟨?_, ?_⟩
        · simp [castC]; omega
        · simp [castC]
      · rw [Prod.ext_iff]; constructor <;> simp [castC]
    · refine ⟨(0, 1), Or.inr (Or.inr (Or.inl rfl)), ⟨(p.1, p.2 - 1), ha, ?_⟩, ⟨(p.1, p.2 + 1), hb, ?_⟩⟩
      · rw [Prod.ext_iff]; refine ⟨?_, ?_⟩
        · simp [castC]
        · simp [castC]; omega
      · rw [Prod.ext_iff]; constructor <;> simp [castC]
  · rintro ⟨⟨p', hp', he⟩, d, hd, ⟨⟨q1a, q1b⟩, hq1, e1⟩, ⟨⟨q2a, q2b⟩, hq2, e2⟩⟩
    have := castC_injective he
    subst this
    obtain ⟨pa, pb⟩ := p'
    refine ⟨hp', ?_⟩
    rcases hd with rfl | rfl | rfl | rfl <;>
      simp only [castC, Prod.mk_sub_mk, Prod.mk_add_mk, Prod.mk.injEq] at e1 e2
    · left
      have e1' : (pa - 1, pb) = (q1a, q1b) := by rw [Prod.mk.injEq]; omega
      have e2' : (pa + 1, pb) = (q2a, q2b) := by rw [Prod.mk.injEq]; omega
      exact ⟨by omega, e1' ▸ hq1, e2' ▸ hq2⟩
    · left
      have e1' : (pa + 1, pb) = (q1a, q1b) := by rw [Prod.mk.injEq]; omega
      have e2' : (pa - 1, pb) = (q2a, q2b) := by rw [Prod.mk.injEq]; omega
      exact ⟨by omega, e2' ▸ hq2, e1' ▸ hq1⟩
    · right
      have e1' : (pa, pb - 1) = (q1a, q1b) := by rw [Prod.mk.injEq]; omega
      have e2' : (pa, pb + 1) = (q2a, q2b) := by rw [Prod.mk.injEq]; omega
      exact ⟨by omega, e1' ▸ hq1, e2' ▸ hq2⟩
    · right
      have e1' : (pa, pb + 1) = (q1a, q1b) := by rw [Prod.mk.injEq]; omega
      have e2' : (pa, pb - 1) = (q2a, q2b) := by rw [Prod.mk.injEq]; omega
      exact ⟨by omega, e2' ▸ hq2, e1' ▸ hq1⟩

theorem midZ_mem {T : Set (Int × Int)} {p : Int × Int} (h : MidZ T p) : p ∈ T := h.1

theorem straightCount_eq (S : Set (Nat × Nat)) :
    straightCount S = {q | MidZ (castC '' S) q}.ncard := by
  have : castC '' {p | StraightMid S p} = {q | MidZ (castC '' S) q} := by
    ext q
    constructor
    · rintro ⟨p, hp, rfl⟩
      exact (straightMid_iff S p).1 hp
    · intro h
      obtain ⟨p, hp, rfl⟩ := midZ_mem h
      exact ⟨p, (straightMid_iff S p).2 h, rfl⟩
  rw [← this, Set.ncard_image_of_injective _ castC_injective]
  rfl

theorem midZ_affZ (s n m : Bool) (t : Int × Int) {T : Set (Int × Int)} {p : Int × Int} (h : MidZ T p) :
    MidZ (affZ s n m t '' T) (affZ s n m t p) := by
  obtain ⟨hp, d, hd, h1, h2⟩ := h
  exact ⟨⟨p, hp, rfl⟩, latticeSym s n m d, isUnitVec_sym s n m hd, ⟨p - d, h1, affZ_sub s n m t p d⟩,
    ⟨p + d, h2, affZ_add s n m t p d⟩⟩

theorem midZ_ncard_le (s n m : Bool) (t : Int × Int) (T : Set (Int × Int)) (hT : T.Finite) :
    {q | MidZ T q}.ncard ≤ {q | MidZ (affZ s n m t '' T) q}.ncard := by
  rw [← Set.ncard_image_of_injective {q | MidZ T q} (affZ_injective s n m t)]
  apply Set.ncard_le_ncard
  · rintro _ ⟨p, hp, rfl⟩
    exact midZ_affZ s n m t hp
  · exact (hT.image _).subset fun q hq => midZ_mem hq

theorem straightCount_le {A B : Set (Nat × Nat)} (hA : A.Finite) (h : SameShape A B) :
    straightCount A ≤ straightCount B := by
  rw [sameShape_iff] at h
  obtain ⟨s, n, m, t, h⟩ := h
  rw [straightCount_eq, straightCount_eq, ← h, ← Set.image_image (affZ s n m t) castC]
  exact midZ_ncard_le s n m t _ (hA.image _)

/-! ### a cell with three neighbours -/

/-- Some point of `T` has three neighbours in `T`. -/
def HasTZ (T : Set (Int × Int)) : Prop :=
  ∃ p ∈ T, 3 ≤ {q | q ∈ T ∧ IsUnitVec (q - p)}.ncard

theorem nbrs_image (S : Set (Nat × Nat)) (p : Nat × Nat) :
    castC '' {q | q ∈ S ∧ cellGraph.Adj p q} = {q | q ∈ castC '' S ∧ IsUnitVec (q - castC p)} := by
  ext q
  constructor
  · rintro ⟨q, ⟨hq, ha⟩, rfl⟩
    exact ⟨⟨q, hq, rfl⟩, (adj_iff_unit p q).1 ha⟩
  · rintro ⟨⟨q, hq, rfl⟩, ha⟩
    exact ⟨q, ⟨hq, (adj_iff_unit p q).2 ha⟩, rfl⟩

theorem hasT_iff (S : Set (Nat × Nat)) : HasT S ↔ HasTZ (castC '' S) := by
  constructor
  · rintro ⟨p, hp, h3⟩
    refine ⟨castC p, ⟨p, hp, rfl⟩, ?_⟩
    rw [← nbrs_image, Set.ncard_image_of_injective _ castC_injective]
    exact h3
  · rintro ⟨_, ⟨p, hp, rfl⟩, h3⟩
    refine ⟨p, hp, ?_⟩
    rw [← nbrs_image, Set.ncard_image_of_injective _ castC_injective] at h3
    exact h3

theorem hasTZ_affZ (s n m : Bool) (t : Int × Int) (T : Set (Int × Int)) (hT : T.Finite) (h : HasTZ T) :
    HasTZ (affZ s n m t '' T) := by
  obtain ⟨p, hp, h3⟩ := h
  refine ⟨affZ s n m t p, ⟨p, hp, rfl⟩, le_trans h3 ?_⟩
  rw [← Set.ncard_image_of_injective {q | q ∈ T ∧ IsUnitVec (q - p)} (affZ_injective s n m t)]
  apply Set.ncard_le_ncard
  · rintro _ ⟨q, ⟨hq, hu⟩, rfl⟩
    refine ⟨⟨q, hq, rfl⟩, ?_⟩
    rw [affZ_sub_affZ]
    exact isUnitVec_sym s n m hu
  · exact (hT.image _).subset fun q hq => hq.1

theorem hasT_of_sameShape {A B : Set (Nat × Nat)} (hA : A.Finite) (h : SameShape A B) (hT : HasT A) :
    HasT B := by
  rw [sameShape_iff] at h
  obtain ⟨s, n, m, t, h⟩ := h
  rw [hasT_iff] at hT ⊢
  rw [← h, ← Set.image_image (affZ s n m t) castC]
  exact hasTZ_affZ s n m t _ (hA.image _) hT

/-- The code is invariant under `SameShape` (for finite sets). -/
theorem sameCode_of_sameShape {A B : Set (Nat × Nat)} (hA : A.Finite) (hB : B.Finite) (h : SameShape A B) :
    SameCode A B :=
  ⟨le_antisymm (straightCount_le hA h) (straightCount_le hB (sameShape_symm h)),
   hasT_of_sameShape hA h, hasT_of_sameShape hB (sameShape_symm h)⟩

end Cspuz.Proofs.C11LitsShapeInv
