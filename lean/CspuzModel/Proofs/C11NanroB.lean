/-
  C11 / Nanro, part B — meaning, typing and locality of the constraints of the closed-form program.
-/
import CspuzModel.Proofs.C11NanroA
namespace Cspuz.Proofs.C11NanroB
open Cspuz Cspuz.Spec Cspuz.Puzzles Cspuz.Puzzles.Nanro Cspuz.Spec.Nanro Cspuz.Proofs
open Cspuz.Proofs.C11NanroA

/-- Id of the `IntVar` of the cell `(y, x)`. -/
def cid (pb : Problem) (y x : Nat) : Nat := pb.height * pb.width + (y * pb.width + x)

theorem ansVar_eq (pb : Problem) (y x : Nat) : ansVar pb y x = .ivar (cid pb y x) := rfl

theorem cid_lt {pb : Problem} {y x : Nat} (hy : y < pb.height) (hx : x < pb.width) :
    cid pb y x < pb.height * pb.width + pb.height * pb.width := by
  have := C11Grid.cell_lt hy hx
  unfold cid; omega

/-- The grid `g` is what `σ` assigns to the cell variables. -/
def Agrees (pb : Problem) (σ : Asg) (g : Nat → Nat → Int) : Prop :=
  ∀ y, y < pb.height → ∀ x, x < pb.width → σ.i (cid pb y x) = g y x

/-- `has_num` is "the cell holds a number". -/
def HasNumOk (pb : Problem) (σ : Asg) (g : Nat → Nat → Int) : Prop :=
  ∀ y, y < pb.height → ∀ x, x < pb.width → σ.b (y * pb.width + x) = (g y x != 0)

theorem eval_or2 {σ : Asg} {a b : Expr} {x y : Bool} (ha : eval σ a = some (.b x))
    (hb : eval σ b = some (.b y)) : eval σ (.node .or [a, b]) = some (.b (x || y)) := by
  simp [ha, hb, evalOp, allBools]

variable {pb : Problem} {σ : Asg} {g : Nat → Nat → Int}

theorem eval_ans (hag : Agrees pb σ g) {y x : Nat} (hy : y < pb.height) (hx : x < pb.width) :
    eval σ (ansVar pb y x) = some (.i (g y x)) := by
  rw [ansVar_eq, eval_ivar, hag y hy x hx]

theorem eval_zE (hag : Agrees pb σ g) {y x : Nat} (hy : y < pb.height) (hx : x < pb.width) :
    eval σ (zE pb y x) = some (.b (g y x == 0)) :=
  eval_cmp rfl (eval_ans hag hy hx) (eval_litI σ 0)

/-! ### has_num -/

theorem eval_firstE (hag : Agrees pb σ g) {y x : Nat} (hy : y < pb.height) (hx : x < pb.width) :
    eval σ (firstE pb y x) = some (.b (σ.b (y * pb.width + x) == (g y x != 0))) :=
  C11Aquarium.eval_iff2 (eval_bvar σ _) (eval_cmp rfl (eval_ans hag hy hx) (eval_litI σ 0))

theorem first_iff (hag : Agrees pb σ g) :
    (∀ c ∈ firstCs pb, eval σ c = some (.b true)) ↔ HasNumOk pb σ g := by
  unfold firstCs HasNumOk
  simp only [List.mem_map, forall_exists_index, and_imp]
  constructor
  · intro h y hy x hx
    have := h _ (y, x) (mem_cellsOf.2 ⟨hy, hx⟩) rfl
    rw [eval_firstE hag hy hx] at this
    simpa using this
  · rintro h c p hp rfl
    obtain ⟨hy, hx⟩ := mem_cellsOf.1 hp
    rw [eval_firstE hag hy hx, h _ hy _ hx]
    simp

/-! ### the final double loop: rules 7, 6, 4 -/

theorem eval_differE (hag : Agrees pb σ g) {y x y' x' : Nat} (hy : y < pb.height) (hx : x < pb.width)
    (hy' : y' < pb.height) (hx' : x' < pb.width) :
    eval σ (differE pb y x y' x') = some (.b ((g y x == 0 || g y' x' == 0) || g y x != g y' x')) :=
  eval_or2 (eval_or2 (eval_zE hag hy hx) (eval_zE hag hy' hx'))
    (eval_cmp rfl (eval_ans hag hy hx) (eval_ans hag hy' hx'))

theorem eval_squareE (hag : Agrees pb σ g) {y x : Nat} (hy : y + 1 < pb.height) (hx : x + 1 < pb.width) :
    eval σ (squareE pb y x) =
      some (.b (((g y x == 0 || g y (x + 1) == 0) || g (y + 1) x == 0) || g (y + 1) (x + 1) == 0)) :=
  eval_or2 (eval_or2 (eval_or2 (eval_zE hag (by omega) (by omega)) (eval_zE hag (by omega) hx))
    (eval_zE hag hy (by omega))) (eval_zE hag hy hx)

theorem given_iff (hag : Agrees pb σ g) {y x : Nat} (hy : y < pb.height) (hx : x < pb.width) :
    (∀ c ∈ givenE pb y x, eval σ c = some (.b true)) ↔ (0 < given pb y x → g y x = given pb y x) := by
  unfold givenE
  by_cases hg : 0 < given pb y x
  · rw [if_pos hg]
    simp only [List.mem_singleton, forall_eq]
    rw [eval_cmp rfl (eval_ans hag hy hx) (eval_litI σ _)]
    simp [hg]
  · rw [if_neg hg]; simp [hg]

theorem sq_iff (hag : Agrees pb σ g) {y x : Nat} :
    (∀ c ∈ sqE pb y x, eval σ c = some (.b true)) ↔ (y + 1 < pb.height → x + 1 < pb.width →
      ¬ (g y x ≠ 0 ∧ g y (x + 1) ≠ 0 ∧ g (y + 1) x ≠ 0 ∧ g (y + 1) (x + 1) ≠ 0)) := by
  unfold sqE
  by_cases hc : y + 1 < pb.height ∧ x + 1 < pb.width
  · rw [if_pos hc]
    simp only [List.mem_singleton, forall_eq]
    rw [eval_squareE hag hc.1 hc.2]
    simp only [Option.some.injEq, Val.b.injEq, Bool.or_eq_true, beq_iff_eq]
    constructor
    · intro h _ _; tauto
    · intro h
      have := h hc.1 hc.2
      by_cases h1 : g y x = 0 <;> by_cases h2 : g y (x + 1) = 0 <;> by_cases h3 : g (y + 1) x = 0 <;>
        by_cases h4 : g (y + 1) (x + 1) = 0 <;> simp_all
  · rw [if_neg hc]
    simp only [List.not_mem_nil, false_imp_iff, implies_true, true_iff]
    intro h1 h2; exact absurd ⟨h1, h2⟩ hc

theorem differ_true (hag : Agrees pb σ g) {y x y' x' : Nat} (hy : y < pb.height) (hx : x < pb.width)
    (hy' : y' < pb.height) (hx' : x' < pb.width) :
    eval σ (differE pb y x y' x') = some (.b true) ↔ (g y x ≠ 0 → g y x ≠ g y' x') := by
  rw [eval_differE hag hy hx hy' hx']
  simp only [Option.some.injEq, Val.b.injEq, Bool.or_eq_true, beq_iff_eq, bne_iff_ne]
  constructor
  · rintro ((h | h) | h) h0
    · exact absurd h h0
    · intro he; rw [he] at h0; exact h0 h
    · exact h
  · intro h
    by_cases h0 : g y x = 0
    · exact Or.inl (Or.inl h0)
    · exact Or.inr (h h0)

theorem down_iff (hag : Agrees pb σ g) {y x : Nat} (hx : x < pb.width) :
    (∀ c ∈ downE pb y x, eval σ c = some (.b true)) ↔ (y + 1 < pb.height →
      regionOf pb y x ≠ regionOf pb (y + 1) x → g y x ≠ 0 → g y x ≠ g (y + 1) x) := by
  unfold downE
  by_cases hc : y + 1 < pb.height ∧ regionOf pb y x ≠ regionOf pb (y + 1) x
  · rw [if_pos hc]
    simp only [List.mem_singleton, forall_eq]
    rw [differ_true hag (by omega) hx hc.1 hx]
    exact ⟨fun h _ _ => h, fun h => h hc.1 hc.2⟩
  · rw [if_neg hc]
    simp only [List.not_mem_nil, false_imp_iff, implies_true, true_iff]
    intro h1 h2; exact absurd ⟨h1, h2⟩ hc

theorem right_iff (hag : Agrees pb σ g) {y x : Nat} (hy : y < pb.height) :
    (∀ c ∈ rightE pb y x, eval σ c = some (.b true)) ↔ (x + 1 < pb.width →
      regionOf pb y x ≠ regionOf pb y (x + 1) → g y x ≠ 0 → g y x ≠ g y (x + 1)) := by
  unfold rightE
  by_cases hc : x + 1 < pb.width ∧ regionOf pb y x ≠ regionOf pb y (x + 1)
  · rw [if_pos hc]
    simp only [List.mem_singleton, forall_eq]
    rw [differ_true hag hy (by omega) hy hc.1]
    exact ⟨fun h _ _ => h, fun h => h hc.1 hc.2⟩
  · rw [if_neg hc]
    simp only [List.not_mem_nil, false_imp_iff, implies_true, true_iff]
    intro h1 h2; exact absurd ⟨h1, h2⟩ hc

/-- The constraints of the final double loop, read on the grid: rules 7, 6, 4 (vertical), 4 (horizontal). -/
theorem cells_iff (hag : Agrees pb σ g) :
    (∀ c ∈ cellsCs pb, eval σ c = some (.b true)) ↔
      ((∀ y, y < pb.height → ∀ x, x < pb.width → 0 < given pb y x → g y x = given pb y x) ∧
       (∀ y, y + 1 < pb.height → ∀ x, x + 1 < pb.width →
          ¬ (g y x ≠ 0 ∧ g y (x + 1) ≠ 0 ∧ g (y + 1) x ≠ 0 ∧ g (y + 1) (x + 1) ≠ 0)) ∧
       (∀ y, y + 1 < pb.height → ∀ x, x < pb.width → regionOf pb y x ≠ regionOf pb (y + 1) x →
          g y x ≠ 0 → g y x ≠ g (y + 1) x) ∧
       (∀ y, y < pb.height → ∀ x, x + 1 < pb.width → regionOf pb y x ≠ regionOf pb y (x + 1) →
          g y x ≠ 0 → g y x ≠ g y (x + 1))) := by
  unfold cellsCs
  rw [C11Aquarium.forall_mem_flatten_map]
  have hcell : ∀ y x, y < pb.height → x < pb.width →
      ((∀ c ∈ cellE pb y x, eval σ c = some (.b true)) ↔
        ((0 < given pb y x → g y x = given pb y x) ∧
         (y + 1 < pb.height → x + 1 < pb.width →
            ¬ (g y x ≠ 0 ∧ g y (x + 1) ≠ 0 ∧ g (y + 1) x ≠ 0 ∧ g (y + 1) (x + 1) ≠ 0)) ∧
         (y + 1 < pb.height → regionOf pb y x ≠ regionOf pb (y + 1) x → g y x ≠ 0 → g y x ≠ g (y + 1) x) ∧
         (x + 1 < pb.width → regionOf pb y x ≠ regionOf pb y (x + 1) → g y x ≠ 0 → g y x ≠ g y (x + 1)))) := by
    intro y x hy hx
    rw [← given_iff hag hy hx, ← sq_iff hag, ← down_iff hag hx, ← right_iff hag hy]
    unfold cellE
    simp only [List.mem_append, or_imp, forall_and, and_assoc]
  constructor
  · intro h
    have h' : ∀ y x, y < pb.height → x < pb.width → _ := fun y x hy hx =>
      (hcell y x hy hx).1 (h (y, x) (mem_cellsOf.2 ⟨hy, hx⟩))
    refine ⟨fun y hy x hx => (h' y x hy hx).1, fun y hy x hx => (h' y x (by omega) (by omega)).2.1 hy hx,
      fun y hy x hx => (h' y x (by omega) hx).2.2.1 hy, fun y hy x hx => (h' y x hy (by omega)).2.2.2 hx⟩
  · rintro ⟨h1, h2, h3, h4⟩ p hp
    obtain ⟨hy, hx⟩ := mem_cellsOf.1 hp
    exact (hcell p.1 p.2 hy hx).2 ⟨h1 _ hy _ hx, fun a b => h2 _ a _ b, fun a => h3 _ a _ hx, fun a => h4 _ hy _ a⟩

/-! ### the region counters: rules 2, 3 -/

/-- Rules 2 and 3 for one region. -/
def RegionOk (g : Nat → Nat → Int) (b : List (Int × Int)) : Prop :=
  1 ≤ numberedIn g b ∧ ∀ c ∈ b, g c.1.toNat c.2.toNat ≠ 0 → g c.1.toNat c.2.toNat = (numberedIn g b : Int)

def OnB (pb : Problem) (b : List (Int × Int)) : Prop :=
  ∀ c ∈ b, 0 ≤ c.1 ∧ c.1 < (pb.height : Int) ∧ 0 ≤ c.2 ∧ c.2 < (pb.width : Int)

theorem eval_cv (hag : Agrees pb σ g) {c : Int × Int}
    (hc : 0 ≤ c.1 ∧ c.1 < (pb.height : Int) ∧ 0 ≤ c.2 ∧ c.2 < (pb.width : Int)) :
    eval σ (cv pb c) = some (.i (g c.1.toNat c.2.toNat)) :=
  eval_ans hag (by omega) (by omega)

theorem eval_countE (hag : Agrees pb σ g) {b : List (Int × Int)} (hb : OnB pb b) :
    eval σ (countE pb b) = some (.i (numberedIn g b : Int)) := by
  unfold countE numberedIn
  rw [eval_countTrueE (b.map fun c => g c.1.toNat c.2.toNat != 0) (by
    rw [List.map_map, List.map_map]
    apply List.map_congr_left
    intro c hc
    simp only [Function.comp]
    exact eval_cmp rfl (eval_cv hag (hb c hc)) (eval_litI σ 0))]
  rw [List.count_eq_countP, List.countP_map, List.countP_eq_length_filter]
  congr 4
  apply List.filter_congr
  intro x _; simp

/-- The constraints of one region whose counter `n` holds the value `v`. -/
theorem block_iff (hag : Agrees pb σ g) {b : List (Int × Int)} (hb : OnB pb b) (n : Nat) :
    (∀ c ∈ blockE pb n b, eval σ c = some (.b true)) ↔
      (σ.i n = (numberedIn g b : Int) ∧ ∀ c ∈ b, g c.1.toNat c.2.toNat = 0 ∨ g c.1.toNat c.2.toNat = σ.i n) := by
  unfold blockE
  simp only [List.mem_cons, List.mem_map, forall_eq_or_imp, forall_exists_index, and_imp]
  rw [eval_cmp rfl (eval_ivar σ n) (eval_countE hag hb)]
  apply and_congr
  · simp
  · constructor
    · intro h c hc
      have := h _ c hc rfl
      rw [eval_or2 (eval_cmp rfl (eval_cv hag (hb c hc)) (eval_litI σ 0))
        (eval_cmp rfl (eval_cv hag (hb c hc)) (eval_ivar σ n))] at this
      simpa using this
    · rintro h e c hc rfl
      rw [eval_or2 (eval_cmp rfl (eval_cv hag (hb c hc)) (eval_litI σ 0))
        (eval_cmp rfl (eval_cv hag (hb c hc)) (eval_ivar σ n))]
      simpa using h c hc

theorem numberedIn_le (g : Nat → Nat → Int) (b : List (Int × Int)) : numberedIn g b ≤ b.length :=
  List.length_filter_le _ _

theorem mem_blocksCs {e : Expr} :
    e ∈ (blocksProg pb).cs ↔ ∃ i, ∃ hi : i < pb.blocks.length, e ∈ blockE pb (base2 pb + i) pb.blocks[i] := by
  simp only [blocksProg, List.mem_flatten, List.mem_map]
  constructor
  · rintro ⟨_, ⟨bi, hbi, rfl⟩, he⟩
    have h2 := List.mem_zipIdx_iff_getElem?.1 hbi
    obtain ⟨hi, hget⟩ := List.getElem?_eq_some_iff.1 h2
    exact ⟨bi.2, hi, by rw [hget]; exact he⟩
  · rintro ⟨i, hi, he⟩
    exact ⟨_, ⟨(pb.blocks[i], i), List.mem_zipIdx_iff_getElem?.2 (by simp [hi]), rfl⟩, he⟩

theorem base2_ge (pb : Problem) : pb.height * pb.width + pb.height * pb.width ≤ base2 pb := by
  unfold base2; omega

/-- The region-counter fragment can be completed iff every region obeys rules 2 and 3. -/
theorem blocks_realizable (hwf : WellFormed pb) (hag : Agrees pb σ g) :
    Realizable (base2 pb) (blocksProg pb) σ ↔ ∀ b ∈ pb.blocks, RegionOk g b := by
  have hon : ∀ i (hi : i < pb.blocks.length), OnB pb pb.blocks[i] :=
    fun i hi => block_onBoard hwf (List.getElem_mem hi)
  constructor
  · rintro ⟨σ', hab, hd, hc⟩ b hb
    obtain ⟨i, hi, rfl⟩ := List.getElem_of_mem hb
    have hag' : Agrees pb σ' g := by
      intro y hy x hx
      rw [← (hab _ (Nat.lt_of_lt_of_le (cid_lt hy hx) (base2_ge pb))).2]
      exact hag y hy x hx
    have hblk := (block_iff hag' (hon i hi) (base2 pb + i)).1
      (fun c hc' => hc c (mem_blocksCs.2 ⟨i, hi, hc'⟩))
    have hbd := hd i 1 pb.blocks[i].length (by simp [blocksProg, hi])
    refine ⟨?_, ?_⟩
    · have := hbd.1; rw [hblk.1] at this; exact_mod_cast this
    · intro c hc hne
      rcases hblk.2 c hc with h0 | h1
      · exact absurd h0 hne
      · rw [h1, hblk.1]
  · intro h
    let σ' : Asg := { b := σ.b, i := fun id => if base2 pb ≤ id then
        (numberedIn g (pb.blocks.getD (id - base2 pb) []) : Int) else σ.i id }
    have hab : AgreeBelow (base2 pb) σ σ' := by
      intro id hid
      refine ⟨rfl, ?_⟩
      show σ.i id = if base2 pb ≤ id then _ else σ.i id
      rw [if_neg (by omega)]
    have hag' : Agrees pb σ' g := by
      intro y hy x hx
      rw [← (hab _ (Nat.lt_of_lt_of_le (cid_lt hy hx) (base2_ge pb))).2]
      exact hag y hy x hx
    have hval : ∀ i (hi : i < pb.blocks.length), σ'.i (base2 pb + i) = (numberedIn g pb.blocks[i] : Int) := by
      intro i hi
      show (if base2 pb ≤ base2 pb + i then _ else _) = _
      rw [if_pos (by omega), show base2 pb + i - base2 pb = i by omega, ← List.getElem_eq_getD (h := hi) []]
    refine ⟨σ', hab, ?_, ?_⟩
    · intro k lo hi hk
      simp only [blocksProg, List.getElem?_map] at hk
      cases hget : pb.blocks[k]? with
      | none => rw [hget] at hk; simp at hk
      | some b =>
        rw [hget] at hk
        simp only [Option.map_some, Option.some.injEq, VarDecl.int.injEq] at hk
        obtain ⟨rfl, rfl⟩ := hk
        obtain ⟨hkl, hb⟩ := List.getElem?_eq_some_iff.1 hget
        rw [hval k hkl, hb]
        have h1 := (h b (by rw [← hb]; exact List.getElem_mem hkl)).1
        have h2 := numberedIn_le g b
        constructor <;> exact_mod_cast (by omega)
    · intro c hc
      obtain ⟨i, hi, hc'⟩ := mem_blocksCs.1 hc
      refine (block_iff hag' (hon i hi) (base2 pb + i)).2 ⟨hval i hi, ?_⟩ c hc'
      intro c' hc''
      rw [hval i hi]
      by_cases h0 : g c'.1.toNat c'.2.toNat = 0
      · exact Or.inl h0
      · exact Or.inr ((h _ (List.getElem_mem hi)).2 c' hc'' h0)

/-! ### typing and locality -/

/-- Well typed and only mentions variables below `n`. -/
def Good (n : Nat) (e : Expr) : Prop := wtB e = true ∧ e.varsBelow n = true

theorem good_ans {n : Nat} {y x : Nat} (h : cid pb y x < n) :
    wtI (ansVar pb y x) = true ∧ (ansVar pb y x).varsBelow n = true := by
  rw [ansVar_eq]
  exact ⟨rfl, by simpa [Expr.varsBelow] using h⟩

theorem good_cmp {n : Nat} (op : Op) (hop : op.isCmp = true) {a b : Expr}
    (ha : wtI a = true ∧ a.varsBelow n = true) (hb : wtI b = true ∧ b.varsBelow n = true) :
    Good n (.node op [a, b]) := by
  refine ⟨?_, ?_⟩
  · cases op <;> simp [Op.isCmp] at hop <;> simp [wtB, wtIs, ha.1, hb.1]
  · rw [C11FragWT.varsBelow_node]
    intro z hz; simp at hz; rcases hz with rfl | rfl
    · exact ha.2
    · exact hb.2

theorem good_or {n : Nat} {a b : Expr} (ha : Good n a) (hb : Good n b) : Good n (.node .or [a, b]) := by
  refine ⟨by simp [wtB, wtBs, ha.1, hb.1], ?_⟩
  rw [C11FragWT.varsBelow_node]
  intro z hz; simp at hz; rcases hz with rfl | rfl
  · exact ha.2
  · exact hb.2

theorem good_lit (n : Nat) (v : Int) : wtI (.litI v) = true ∧ (Expr.litI v).varsBelow n = true := ⟨rfl, rfl⟩

theorem good_zE {n : Nat} {y x : Nat} (h : cid pb y x < n) : Good n (zE pb y x) :=
  good_cmp .eq rfl (good_ans h) (good_lit n 0)

theorem good_differE {n : Nat} {y x y' x' : Nat} (h : cid pb y x < n) (h' : cid pb y' x' < n) :
    Good n (differE pb y x y' x') :=
  good_or (good_or (good_zE h) (good_zE h')) (good_cmp .ne rfl (good_ans h) (good_ans h'))

theorem good_firstCs : ∀ c ∈ firstCs pb, Good (pb.height * pb.width + pb.height * pb.width) c := by
  intro c hc
  simp only [firstCs, List.mem_map] at hc
  obtain ⟨p, hp, rfl⟩ := hc
  obtain ⟨hy, hx⟩ := mem_cellsOf.1 hp
  have h1 := good_cmp (n := pb.height * pb.width + pb.height * pb.width) .ne rfl
    (good_ans (cid_lt hy hx)) (good_lit _ 0)
  have hlt := C11Grid.cell_lt hy hx
  refine ⟨by simp [firstE, wtB, wtBs, wtIs, wtI, ansVar_eq], ?_⟩
  unfold firstE
  rw [C11FragWT.varsBelow_node]
  intro z hz; simp at hz; rcases hz with rfl | rfl
  · simp only [Expr.varsBelow, decide_eq_true_eq]; omega
  · exact h1.2

theorem good_cellsCs : ∀ c ∈ cellsCs pb, Good (pb.height * pb.width + pb.height * pb.width) c := by
  intro c hc
  simp only [cellsCs, List.mem_flatten, List.mem_map] at hc
  obtain ⟨_, ⟨p, hp, rfl⟩, hc⟩ := hc
  obtain ⟨hy, hx⟩ := mem_cellsOf.1 hp
  simp only [cellE, List.mem_append] at hc
  rcases hc with ((hc | hc) | hc) | hc
  · unfold givenE at hc
    split at hc
    · simp only [List.mem_singleton] at hc; subst hc
      exact good_cmp .eq rfl (good_ans (cid_lt hy hx)) (good_lit _ _)
    · simp at hc
  · unfold sqE at hc
    split at hc
    · next h =>
      simp only [List.mem_singleton] at hc; subst hc
      exact good_or (good_or (good_or (good_zE (cid_lt hy hx)) (good_zE (cid_lt hy h.2)))
        (good_zE (cid_lt h.1 hx))) (good_zE (cid_lt h.1 h.2))
    · simp at hc
  · unfold downE at hc
    split at hc
    · next h =>
      simp only [List.mem_singleton] at hc; subst hc
      exact good_differE (cid_lt hy hx) (cid_lt h.1 hx)
    · simp at hc
  · unfold rightE at hc
    split at hc
    · next h =>
      simp only [List.mem_singleton] at hc; subst hc
      exact good_differE (cid_lt hy hx) (cid_lt hy h.1)
    · simp at hc

theorem good_blocksCs (hwf : WellFormed pb) :
    ∀ c ∈ (blocksProg pb).cs, Good (base2 pb + (blocksProg pb).decls.length) c := by
  intro c hc
  obtain ⟨i, hi, hc⟩ := mem_blocksCs.1 hc
  have hlen : (blocksProg pb).decls.length = pb.blocks.length := by simp [blocksProg]
  rw [hlen]
  have hon := block_onBoard hwf (List.getElem_mem hi)
  have hcv : ∀ c' ∈ pb.blocks[i], wtI (cv pb c') = true ∧ (cv pb c').varsBelow (base2 pb + pb.blocks.length) = true := by
    intro c' hc'
    obtain ⟨h1, h2, h3, h4⟩ := hon c' hc'
    have := cid_lt (pb := pb) (y := c'.1.toNat) (x := c'.2.toNat) (by omega) (by omega)
    exact good_ans (Nat.lt_of_lt_of_le this (by have := base2_ge pb; omega))
  have hn : wtI (.ivar (base2 pb + i)) = true ∧ (Expr.ivar (base2 pb + i)).varsBelow (base2 pb + pb.blocks.length) = true :=
    ⟨rfl, by simp only [Expr.varsBelow, decide_eq_true_eq]; omega⟩
  simp only [blockE, List.mem_cons, List.mem_map] at hc
  rcases hc with rfl | ⟨c', hc', rfl⟩
  · refine good_cmp .eq rfl hn ⟨?_, ?_⟩
    · unfold countE
      apply C11FragWT.wtI_countTrueE
      intro e he
      simp only [List.mem_map] at he
      obtain ⟨c', hc', rfl⟩ := he
      exact (good_cmp .ne rfl (hcv c' hc') (good_lit _ 0)).1
    · unfold countE
      apply C11FragWT.varsBelow_countTrueE
      intro e he
      simp only [List.mem_map] at he
      obtain ⟨c', hc', rfl⟩ := he
      exact (good_cmp .ne rfl (hcv c' hc') (good_lit _ 0)).2
  · exact good_or (good_cmp .eq rfl (hcv c' hc') (good_lit _ 0)) (good_cmp .eq rfl (hcv c' hc') hn)

end Cspuz.Proofs.C11NanroB
