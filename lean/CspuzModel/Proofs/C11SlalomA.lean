/-
  C11 for `solve_slalom`, part 6 (soundness): every model of the posted program obeys the rules.
-/
import CspuzModel.Proofs.C11SlalomT
namespace Cspuz.Proofs.C11SlalomA
open Cspuz Cspuz.Spec Cspuz.Spec.FrameGeom Cspuz.Spec.Loop Cspuz.Proofs Cspuz.Proofs.C11Loop
open Cspuz.Puzzles Cspuz.Puzzles.Loop Cspuz.Puzzles.Slalom Cspuz.Spec.Slalom Cspuz.Proofs.C11SlalomP
open Cspuz.Proofs.C11SlalomS Cspuz.Proofs.C11SlalomG Cspuz.Proofs.C11SlalomT

section Flow
variable (pb : Problem) (σ : Asg)

local notation "HH" => pb.height - 1
local notation "WW" => pb.width - 1

variable (h1 : 1 ≤ pb.height) (h2 : 1 ≤ pb.width) (hloc : Local pb σ)
include h1 h2 hloc

/-- Both ends of a directed step are passed cells of the board. -/
theorem goes_facts {p q : Pt} (h : goes pb σ p q) :
    p.1 < pb.height ∧ p.2 < pb.width ∧ q.1 < pb.height ∧ q.2 < pb.width ∧
    pasS pb σ p = true ∧ pasS pb σ q = true := by
  obtain ⟨a1, a2, a3, a4, ⟨i, hi, hi1, _⟩, ⟨j, hj, hj1, _⟩⟩ := stepOn_nb pb h1 h2 (goes_stepOn pb σ h)
  refine ⟨a1, a2, a3, a4, ?_, ?_⟩
  · have hout : outb pb σ i = true := (outb_iff pb σ a1 a2 hi).mpr (by rw [hi1]; exact h)
    have hc := (hloc.cell p a1 a2).outdeg
    cases hp : pasS pb σ p
    · rw [hp] at hc
      simp only [Bool.false_eq_true, if_false] at hc
      exact absurd hout (List.countP_eq_zero.mp hc i hi)
    · rfl
  · have hin : inb pb σ j = true := (inb_iff pb σ a3 a4 hj).mpr (by rw [hj1]; exact h)
    have hc := (hloc.cell q a3 a4).indeg
    cases hp : pasS pb σ q
    · rw [hp] at hc
      simp only [Bool.false_eq_true, if_false] at hc
      exact absurd hin (List.countP_eq_zero.mp hc j hj)
    · rfl

theorem in_unique {a a' c : Pt} (h : goes pb σ a c) (h' : goes pb σ a' c) : a = a' := by
  obtain ⟨_, _, c1, c2, _, hp⟩ := goes_facts pb σ h1 h2 hloc h
  obtain ⟨_, _, _, _, _, ⟨i, hi, hi1, _⟩⟩ := stepOn_nb pb h1 h2 (goes_stepOn pb σ h)
  obtain ⟨_, _, _, _, _, ⟨j, hj, hj1, _⟩⟩ := stepOn_nb pb h1 h2 (goes_stepOn pb σ h')
  have hc := (hloc.cell c c1 c2).indeg
  rw [hp] at hc
  simp only [if_true] at hc
  have := countP_one_unique _ _ hc i j hi hj ((inb_iff pb σ c1 c2 hi).mpr (by rw [hi1]; exact h))
    ((inb_iff pb σ c1 c2 hj).mpr (by rw [hj1]; exact h'))
  rw [← hi1, ← hj1, this]

theorem out_unique {c b b' : Pt} (h : goes pb σ c b) (h' : goes pb σ c b') : b = b' := by
  obtain ⟨c1, c2, _, _, hp, _⟩ := goes_facts pb σ h1 h2 hloc h
  obtain ⟨_, _, _, _, ⟨i, hi, hi1, _⟩, _⟩ := stepOn_nb pb h1 h2 (goes_stepOn pb σ h)
  obtain ⟨_, _, _, _, ⟨j, hj, hj1, _⟩, _⟩ := stepOn_nb pb h1 h2 (goes_stepOn pb σ h')
  have hc := (hloc.cell c c1 c2).outdeg
  rw [hp] at hc
  simp only [if_true] at hc
  have := countP_one_unique _ _ hc i j hi hj ((outb_iff pb σ c1 c2 hi).mpr (by rw [hi1]; exact h))
    ((outb_iff pb σ c1 c2 hj).mpr (by rw [hj1]; exact h'))
  rw [← hi1, ← hj1, this]

theorem in_exists {c : Pt} (c1 : c.1 < pb.height) (c2 : c.2 < pb.width) (hp : pasS pb σ c = true) : ∃ a, goes pb σ a c := by
  have hc := (hloc.cell c c1 c2).indeg
  rw [hp] at hc
  simp only [if_true] at hc
  obtain ⟨i, hi, hin⟩ := countP_one_exists _ _ hc
  exact ⟨i.1, (inb_iff pb σ c1 c2 hi).mp hin⟩

theorem out_exists {c : Pt} (c1 : c.1 < pb.height) (c2 : c.2 < pb.width) (hp : pasS pb σ c = true) : ∃ b, goes pb σ c b := by
  have hc := (hloc.cell c c1 c2).outdeg
  rw [hp] at hc
  simp only [if_true] at hc
  obtain ⟨i, hi, hout⟩ := countP_one_exists _ _ hc
  exact ⟨i.1, (outb_iff pb σ c1 c2 hi).mp hout⟩

end Flow

end Cspuz.Proofs.C11SlalomA
