/-
  C11 for `solve_slalom`, part 6 (soundness): every model of the posted program obeys the rules.
-/
import CspuzModel.Proofs.C11SlalomT
import CspuzModel.Proofs.C11SlalomD
import Mathlib.Data.List.Perm.Subperm
namespace Cspuz.Proofs.C11SlalomA
open Cspuz Cspuz.Spec Cspuz.Spec.FrameGeom Cspuz.Spec.Loop Cspuz.Proofs Cspuz.Proofs.C11Loop
open Cspuz.Puzzles Cspuz.Puzzles.Loop Cspuz.Puzzles.Slalom Cspuz.Spec.Slalom Cspuz.Proofs.C11SlalomP
open Cspuz.Proofs.C11SlalomS Cspuz.Proofs.C11SlalomG Cspuz.Proofs.C11SlalomT Cspuz.Proofs.C11SlalomD

section Flow
variable (pb : Problem) (σ : Asg)

local notation "HH" => pb.height - 1
local notation "WW" => pb.width - 1

variable (h1 : 1 ≤ pb.height) (h2 : 1 ≤ pb.width) (hloc : Local pb σ)
include h1 h2 hloc

/-- Both ends of a directed step are passed cells of the board. -/
theorem goes_facts {p q : Pt} (h : goes pb σ p q) :
    p.1 < pb.height ∧ p.2 < pb.width ∧ q.1 < pb.height ∧ q.2 < pb.width ∧
    pasS pb σ p = true ∧ pasS pb σ q = true := by
  obtain ⟨a1, a2, a3, a4, ⟨i, hi, hi1, _⟩, ⟨j, hj, hj1, _⟩⟩ := stepOn_nb pb h1 h2 (goes_stepOn pb σ h)
  refine ⟨a1, a2, a3, a4, ?_, ?_⟩
  · have hout : outb pb σ i = true := (outb_iff pb σ a1 a2 hi).mpr (by rw [hi1]; exact h)
    have hc := (hloc.cell p a1 a2).outdeg
    cases hp : pasS pb σ p
    · rw [hp] at hc
      simp only [Bool.false_eq_true, if_false] at hc
      exact absurd hout (List.countP_eq_zero.mp hc i hi)
    · rfl
  · have hin : inb pb σ j = true := (inb_iff pb σ a3 a4 hj).mpr (by rw [hj1]; exact h)
    have hc := (hloc.cell q a3 a4).indeg
    cases hp : pasS pb σ q
    · rw [hp] at hc
      simp only [Bool.false_eq_true, if_false] at hc
      exact absurd hin (List.countP_eq_zero.mp hc j hj)
    · rfl

theorem in_unique {a a' c : Pt} (h : goes pb σ a c) (h' : goes pb σ a' c) : a = a' := by
  obtain ⟨_, _, c1, c2, _, hp⟩ := goes_facts pb σ h1 h2 hloc h
  obtain ⟨_, _, _, _, _, ⟨i, hi, hi1, _⟩⟩ := stepOn_nb pb h1 h2 (goes_stepOn pb σ h)
  obtain ⟨_, _, _, _, _, ⟨j, hj, hj1, _⟩⟩ := stepOn_nb pb h1 h2 (goes_stepOn pb σ h')
  have hc := (hloc.cell c c1 c2).indeg
  rw [hp] at hc
  simp only [if_true] at hc
  have := countP_one_unique _ _ hc i j hi hj ((inb_iff pb σ c1 c2 hi).mpr (by rw [hi1]; exact h))
    ((inb_iff pb σ c1 c2 hj).mpr (by rw [hj1]; exact h'))
  rw [← hi1, ← hj1, this]

theorem out_unique {c b b' : Pt} (h : goes pb σ c b) (h' : goes pb σ c b') : b = b' := by
  obtain ⟨c1, c2, _, _, hp, _⟩ := goes_facts pb σ h1 h2 hloc h
  obtain ⟨_, _, _, _, ⟨i, hi, hi1, _⟩, _⟩ := stepOn_nb pb h1 h2 (goes_stepOn pb σ h)
  obtain ⟨_, _, _, _, ⟨j, hj, hj1, _⟩, _⟩ := stepOn_nb pb h1 h2 (goes_stepOn pb σ h')
  have hc := (hloc.cell c c1 c2).outdeg
  rw [hp] at hc
  simp only [if_true] at hc
  have := countP_one_unique _ _ hc i j hi hj ((outb_iff pb σ c1 c2 hi).mpr (by rw [hi1]; exact h))
    ((outb_iff pb σ c1 c2 hj).mpr (by rw [hj1]; exact h'))
  rw [← hi1, ← hj1, this]

omit h1 h2 in
theorem in_exists {c : Pt} (c1 : c.1 < pb.height) (c2 : c.2 < pb.width) (hp : pasS pb σ c = true) : ∃ a, goes pb σ a c := by
  have hc := (hloc.cell c c1 c2).indeg
  rw [hp] at hc
  simp only [if_true] at hc
  obtain ⟨i, hi, hin⟩ := countP_one_exists _ _ hc
  exact ⟨i.1, (inb_iff pb σ c1 c2 hi).mp hin⟩

omit h1 h2 in
theorem out_exists {c : Pt} (c1 : c.1 < pb.height) (c2 : c.2 < pb.width) (hp : pasS pb σ c = true) : ∃ b, goes pb σ c b := by
  have hc := (hloc.cell c c1 c2).outdeg
  rw [hp] at hc
  simp only [if_true] at hc
  obtain ⟨i, hi, hout⟩ := countP_one_exists _ _ hc
  exact ⟨i.1, (outb_iff pb σ c1 c2 hi).mp hout⟩

/-- Along the line the direction bits are consistent: the step into a point and the step out of it. -/
theorem fwd_succ {L : Nat} {f : Nat → Pt} (c : Cyc HH WW (onOf HH WW σ) L f) (k : Nat) :
    goes pb σ (f k) (f (k + 1)) ↔ goes pb σ (f (k + 1)) (f (k + 2)) := by
  have s1 := stepOn_goes pb σ (c.step k)
  have s2 := stepOn_goes pb σ (c.step (k + 1))
  constructor
  · intro hg
    rcases s2 with s2 | s2
    · exact s2
    · exfalso
      have e := in_unique pb σ h1 h2 hloc hg s2
      obtain ⟨_, _, q1, q2, _, hq⟩ := goes_facts pb σ h1 h2 hloc hg
      obtain ⟨b, hb⟩ := out_exists pb σ hloc q1 q2 hq
      rcases c.nbr k (goes_stepOn pb σ hb) with hb' | hb'
      · rw [hb'] at hb; exact goes_asymm pb σ hg hb
      · rw [hb', ← e] at hb; exact goes_asymm pb σ hg hb
  · intro hg
    rcases s1 with s1 | s1
    · exact s1
    · exfalso
      have e := out_unique pb σ h1 h2 hloc hg s1
      obtain ⟨q1, q2, _, _, hq, _⟩ := goes_facts pb σ h1 h2 hloc hg
      obtain ⟨a, ha⟩ := in_exists pb σ hloc q1 q2 hq
      rcases c.nbr k (stepOn_symm (goes_stepOn pb σ ha)) with ha' | ha'
      · rw [ha', ← e] at ha; exact goes_asymm pb σ hg ha
      · rw [ha'] at ha; exact goes_asymm pb σ hg ha

theorem fwd_all {L : Nat} {f : Nat → Pt} (c : Cyc HH WW (onOf HH WW σ) L f) (k : Nat) :
    goes pb σ (f 0) (f 1) ↔ goes pb σ (f k) (f (k + 1)) := by
  induction k with
  | zero => exact Iff.rfl
  | succ k ih => exact ih.trans (fwd_succ pb σ h1 h2 hloc c k)

/-- The line as a periodic sequence that follows the direction bits. -/
theorem directed_cycle {L : Nat} {f : Nat → Pt} (c : Cyc HH WW (onOf HH WW σ) L f) :
    ∃ g, Cyc HH WW (onOf HH WW σ) L g ∧ ∀ k, goes pb σ (g k) (g (k + 1)) := by
  by_cases h0 : goes pb σ (f 0) (f 1)
  · exact ⟨f, c, fun k => (fwd_all pb σ h1 h2 hloc c k).mp h0⟩
  · have hb : ∀ k, goes pb σ (f (k + 1)) (f k) := by
      intro k
      rcases stepOn_goes pb σ (c.step k) with h | h
      · exact absurd ((fwd_all pb σ h1 h2 hloc c k).mpr h) h0
      · exact h
    have hL : 0 < L := c.pos
    have hfL : f L = f 0 := by have := c.per 0; simpa using this
    refine ⟨_, c.rev, ?_⟩
    intro k
    show goes pb σ (f (L - k % L)) (f (L - (k + 1) % L))
    have hr : k % L < L := Nat.mod_lt _ hL
    rw [Cyc.succ_mod' k L hL]
    by_cases hk : k % L + 1 = L
    · rw [if_pos hk, Nat.sub_zero, hfL]
      have : L - k % L = 0 + 1 := by omega
      rw [this]
      exact hb 0
    · rw [if_neg hk]
      have : L - k % L = (L - (k % L + 1)) + 1 := by omega
      rw [this]
      exact hb _

/-- ... and starts at the circle. -/
theorem origin_cycle (hor1 : (originN pb).1 < pb.height) (hor2 : (originN pb).2 < pb.width)
    (hloop : IsLoop HH WW (onOf HH WW σ)) :
    ∃ L g, Cyc HH WW (onOf HH WW σ) L g ∧ (∀ k, goes pb σ (g k) (g (k + 1))) ∧ g 0 = originN pb := by
  obtain ⟨a, ha⟩ := in_exists pb σ hloc hor1 hor2 hloc.origin
  have hst := goes_stepOn pb σ ha
  obtain ⟨s, hv, ho, _⟩ := hst
  obtain ⟨L, f, c⟩ := loop_cycle HH WW (onOf HH WW σ) hloop ⟨s, hv, ho⟩
  obtain ⟨g, cg, hg⟩ := directed_cycle pb σ h1 h2 hloc c
  obtain ⟨k0, _, hk0⟩ := cg.mem_of_step (stepOn_symm (goes_stepOn pb σ ha))
  refine ⟨L, fun k => g (k + k0), cg.shift k0, ?_, ?_⟩
  · intro k
    show goes pb σ (g (k + k0)) (g (k + 1 + k0))
    rw [show k + 1 + k0 = (k + k0) + 1 by omega]
    exact hg _
  · show g (0 + k0) = originN pb
    rw [Nat.zero_add]; exact hk0

end Flow

/-! ### the round trip as a list -/

/-- the first `L` points of a periodic sequence. -/
def tourOf (L : Nat) (g : Nat → Pt) : List Pt := (List.range L).map g

theorem tourOf_length (L : Nat) (g : Nat → Pt) : (tourOf L g).length = L := by simp [tourOf]

theorem tourOf_getD (L : Nat) (g : Nat → Pt) (o : Pt) {k : Nat} (hk : k < L) : (tourOf L g).getD k o = g k := by
  simp [tourOf, List.getD, hk]

theorem tourOf_take (L : Nat) (g : Nat → Pt) {k : Nat} (hk : k ≤ L) : (tourOf L g).take k = tourOf k g := by
  unfold tourOf
  rw [← List.map_take, List.take_range, Nat.min_eq_left hk]

theorem isTour_of_cyc {H W : Nat} {on : Seg → Bool} {L : Nat} {g : Nat → Pt} (c : Cyc H W on L g) :
    IsTour H W on (g 0) (tourOf L g) := by
  have hL : 0 < L := c.pos
  refine ⟨?_, ?_, ?_, ?_⟩
  · unfold tourOf
    obtain ⟨n, rfl⟩ : ∃ n, L = n + 1 := ⟨L - 1, by omega⟩
    rw [List.range_succ_eq_map]
    rfl
  · unfold tourOf
    apply List.Nodup.map_on _ List.nodup_range
    intro i hi j hj h
    exact c.inj i j (List.mem_range.mp hi) (List.mem_range.mp hj) h
  · intro k hk
    rw [tourOf_length] at hk ⊢
    unfold nxt
    rw [tourOf_getD L g _ hk, tourOf_getD L g _ (Nat.mod_lt _ hL), ← c.mod (k + 1)]
    exact c.step k
  · intro s hs ho
    obtain ⟨k, hk, he⟩ := c.cover s hs ho
    refine ⟨k, by rw [tourOf_length]; exact hk, ?_⟩
    unfold nxt
    rw [tourOf_length, tourOf_getD L g _ hk, tourOf_getD L g _ (Nat.mod_lt _ hL), ← c.mod (k + 1)]
    exact he

/-- A model of the local constraints together with the drawn line as a directed periodic sequence that starts at the
circle. -/
structure Run (pb : Problem) (σ : Asg) (L : Nat) (g : Nat → Pt) : Prop where
  hw : WellFormed pb
  hloc : Local pb σ
  cg : Cyc (pb.height - 1) (pb.width - 1) (onOf (pb.height - 1) (pb.width - 1) σ) L g
  hg : ∀ k, goes pb σ (g k) (g (k + 1))
  g0 : g 0 = originN pb

/-- number of gate cells among `g 0 … g k`. -/
def cnt (pb : Problem) (g : Nat → Pt) (k : Nat) : Nat := (tourOf (k + 1) g).countP (onGate pb)

theorem onGate_origin {pb : Problem} (hw : WellFormed pb) : onGate pb (originN pb) = false := by
  rw [onGate_eq]
  exact hw.2.2.2.2.2.2.1

theorem cnt_zero {pb : Problem} (hw : WellFormed pb) {g : Nat → Pt} (g0 : g 0 = originN pb) : cnt pb g 0 = 0 := by
  unfold cnt tourOf
  simp only [Nat.zero_add, List.range_one, List.map_cons, List.map_nil, List.countP_cons, List.countP_nil]
  rw [g0, onGate_origin hw]
  rfl

theorem cnt_succ (pb : Problem) (g : Nat → Pt) (k : Nat) :
    cnt pb g (k + 1) = cnt pb g k + (if onGate pb (g (k + 1)) = true then 1 else 0) := by
  unfold cnt tourOf
  rw [List.range_succ, List.map_append, List.countP_append]
  simp [List.countP_cons]

section Tour
variable {pb : Problem} {σ : Asg} {L : Nat} {g : Nat → Pt} (R : Run pb σ L g)
include R

theorem cyc_facts (k : Nat) : (g k).1 < pb.height ∧ (g k).2 < pb.width ∧ pasS pb σ (g k) = true ∧
    black pb (g k).1 (g k).2 = false := by
  obtain ⟨a1, a2, _, _, a5, _⟩ := goes_facts pb σ R.hw.1 R.hw.2.1 R.hloc (R.hg k)
  refine ⟨a1, a2, a5, ?_⟩
  cases hb : black pb (g k).1 (g k).2
  · rfl
  · have := (R.hloc.cell _ a1 a2).blk hb
    rw [a5] at this; cases this

theorem ne_origin (k : Nat) (hk : k + 1 < L) : g (k + 1) ≠ originN pb := by
  rw [← R.g0]
  intro h
  have := (R.cg.eq_iff _ _).mp h
  rw [Nat.mod_eq_of_lt hk, Nat.zero_mod] at this
  omega

theorem ord_step (k : Nat) (hk : k + 1 < L) :
    ordS pb σ (g (k + 1)) = ordS pb σ (g k) + (if onGate pb (g (k + 1)) = true then 1 else 0) := by
  obtain ⟨c1, c2, _, cb⟩ := cyc_facts R (k + 1)
  have hne := ne_origin R k hk
  obtain ⟨_, _, _, _, _, ⟨i, hi, hi1, _⟩⟩ := stepOn_nb pb R.hw.1 R.hw.2.1 (goes_stepOn pb σ (R.hg k))
  have hin : inb pb σ i = true := (inb_iff pb σ c1 c2 hi).mpr (by rw [hi1]; exact R.hg k)
  have := (R.hloc.cell _ c1 c2).step cb hne i hi hin
  rw [hi1] at this
  omega

theorem ord_cnt (k : Nat) (hk : k < L) : ordS pb σ (g k) = ordS pb σ (g 0) + cnt pb g k := by
  induction k with
  | zero => rw [cnt_zero R.hw R.g0]; simp
  | succ k ih =>
    rw [ord_step R k hk, ih (by omega), cnt_succ]
    split
    · simp; omega
    · simp

theorem on_tour {p : Pt} (p1 : p.1 < pb.height) (p2 : p.2 < pb.width) (hp : pasS pb σ p = true) :
    ∃ k, k < L ∧ g k = p := by
  obtain ⟨a, ha⟩ := in_exists pb σ R.hloc p1 p2 hp
  exact R.cg.mem_of_step (stepOn_symm (goes_stepOn pb σ ha))

/-- the passed cell of a gate. -/
def phi (pb : Problem) (σ : Asg) (γ : Gate) : Pt := ((gateCellsN γ).find? (pasS pb σ)).getD (0, 0)

theorem phi_spec {γ : Gate} (hγ : γ ∈ pb.gates) : phi pb σ γ ∈ gateCellsN γ ∧ pasS pb σ (phi pb σ γ) = true := by
  obtain ⟨c, hc, hpc⟩ := countP_one_exists _ _ (R.hloc.gates γ hγ)
  unfold phi
  cases hf : (gateCellsN γ).find? (pasS pb σ) with
  | none =>
    rw [List.find?_eq_none] at hf
    exact absurd hpc (hf c hc)
  | some c' =>
    exact ⟨List.mem_of_find?_eq_some hf, List.find?_some hf⟩

theorem gate_cell_board {γ : Gate} (hγ : γ ∈ pb.gates) {p : Pt} (hp : p ∈ gateCellsN γ) :
    p.1 < pb.height ∧ p.2 < pb.width :=
  gateCellsN_in (wf_gateOnBoard pb R.hw γ hγ) p hp

/-- Every gate contributes its own gate cell to the round trip. -/
theorem gates_le_cnt : pb.gates.length ≤ cnt pb g (L - 1) := by
  have hL : 0 < L := R.cg.pos
  have hnd : (pb.gates.flatMap gateCellsN).Nodup := R.hw.2.2.2.2.2.2.2.2
  have hcnt : cnt pb g (L - 1) = ((tourOf L g).filter (onGate pb)).length := by
    unfold cnt
    rw [Nat.sub_add_cancel hL, List.countP_eq_length_filter]
  rw [hcnt, ← List.length_map (f := phi pb σ)]
  apply List.Subperm.length_le
  apply List.subperm_of_subset
  · rw [List.Nodup, List.pairwise_map]
    apply List.Pairwise.imp_of_mem _ (List.nodup_flatMap.mp hnd).2
    intro a b ha hb hd h
    have := (phi_spec R ha).1
    have hb' := (phi_spec R hb).1
    rw [← h] at hb'
    exact hd this hb'
  · intro p hp
    obtain ⟨γ, hγ, rfl⟩ := List.mem_map.mp hp
    obtain ⟨hc, hpas⟩ := phi_spec R hγ
    obtain ⟨b1, b2⟩ := gate_cell_board R hγ hc
    obtain ⟨k, hk, hgk⟩ := on_tour R b1 b2 hpas
    rw [List.mem_filter]
    refine ⟨?_, ?_⟩
    · rw [← hgk]
      exact List.mem_map.mpr ⟨k, List.mem_range.mpr hk, rfl⟩
    · rw [onGate_eq]
      exact isGateCell_of_mem pb hγ hc

theorem ord_origin (hb : ∀ p : Pt, p.1 < pb.height → p.2 < pb.width → 0 ≤ ordS pb σ p ∧ ordS pb σ p ≤ pb.gates.length) :
    ordS pb σ (g 0) = 0 := by
  have hL : 0 < L := R.cg.pos
  have h1 := ord_cnt R (L - 1) (by omega)
  have h2 := gates_le_cnt R
  obtain ⟨a1, a2, _, _⟩ := cyc_facts R (L - 1)
  obtain ⟨b1, b2, _, _⟩ := cyc_facts R 0
  have h3 := (hb _ a1 a2).2
  have h4 := (hb _ b1 b2).1
  omega

/-- A gate is closed at both ends, so the loop can only cross it at a right angle. -/
theorem perp {γ : Gate} (hγ : γ ∈ pb.gates) {c q : Pt} (hc : c ∈ gateCellsN γ) (hpc : pasS pb σ c = true)
    (hst : stepOn (pb.height - 1) (pb.width - 1) (onOf (pb.height - 1) (pb.width - 1) σ) c q)
    (hpq : pasS pb σ q = true) :
    match γ.d with
    | .hor => q.2 = c.2
    | .ver => q.1 = c.1 := by
  obtain ⟨c1, c2, q1, q2, ⟨i, hi, hi1, _⟩, _⟩ := stepOn_nb pb R.hw.1 R.hw.2.1 hst
  have huniq : ∀ q' ∈ gateCellsN γ, pasS pb σ q' = true → q' = c :=
    fun q' hq' hp' => countP_one_unique _ _ (R.hloc.gates γ hγ) q' c hq' hc hp' hpc
  have hnb : black pb q.1 q.2 = true → False := by
    intro hbq
    have := (R.hloc.cell q q1 q2).blk hbq
    rw [hpq] at this; cases this
  obtain ⟨gy, gx, gl, gd, _, _⟩ := R.hw.2.2.2.2.2.2.2.1 γ hγ
  unfold gateCellsN at hc huniq
  simp only [List.mem_map, List.mem_range] at hc huniq
  obtain ⟨i0, hi0, hci0⟩ := hc
  cases hd : γ.d with
  | hor =>
    rw [hd] at gd hci0 huniq
    simp only [] at gd hci0 huniq ⊢
    obtain ⟨gd1, gd2, gw1, gw2⟩ := gd
    rcases mem_nbInfo.mp hi with ⟨_, rfl⟩ | ⟨_, rfl⟩ | ⟨hx0, rfl⟩ | ⟨hx1, rfl⟩
    · rw [← hi1]
    · rw [← hi1]
    · exfalso
      rw [← hi1] at hpq hnb q1 q2
      simp only [] at hpq hnb q1 q2
      rw [← hci0] at hx0 hpq hnb
      simp only [] at hx0 hpq hnb
      by_cases h0 : i0 = 0
      · subst h0
        rcases gw1 with w | w | w | w | w
        · omega
        · omega
        · omega
        · omega
        · apply hnb
          rw [← w]
          congr 1
          omega
      · have := huniq (γ.y.toNat, γ.x.toNat + i0 - 1) ⟨i0 - 1, by omega, by congr 1; omega⟩ hpq
        rw [← hci0] at this
        simp only [Prod.mk.injEq] at this
        omega
    · exfalso
      rw [← hi1] at hpq hnb q1 q2
      simp only [] at hpq hnb q1 q2
      rw [← hci0] at hx1 hpq hnb q2
      simp only [] at hx1 hpq hnb q2
      by_cases h0 : i0 + 1 = γ.l.toNat
      · rcases gw2 with w | w | w | w | w
        · omega
        · omega
        · omega
        · omega
        · apply hnb
          rw [← w]
          congr 1
          omega
      · have := huniq (γ.y.toNat, γ.x.toNat + i0 + 1) ⟨i0 + 1, by omega, by congr 1⟩ hpq
        rw [← hci0] at this
        simp only [Prod.mk.injEq] at this
        omega
  | ver =>
    rw [hd] at gd hci0 huniq
    simp only [] at gd hci0 huniq ⊢
    obtain ⟨gd1, gd2, gw1, gw2⟩ := gd
    rcases mem_nbInfo.mp hi with ⟨hy0, rfl⟩ | ⟨hy1, rfl⟩ | ⟨_, rfl⟩ | ⟨_, rfl⟩
    · exfalso
      rw [← hi1] at hpq hnb q1 q2
      simp only [] at hpq hnb q1 q2
      rw [← hci0] at hy0 hpq hnb
      simp only [] at hy0 hpq hnb
      by_cases h0 : i0 = 0
      · subst h0
        rcases gw1 with w | w | w | w | w
        · omega
        · omega
        · omega
        · omega
        · apply hnb
          rw [← w]
          congr 1
          omega
      · have := huniq (γ.y.toNat + i0 - 1, γ.x.toNat) ⟨i0 - 1, by omega, by congr 1; omega⟩ hpq
        rw [← hci0] at this
        simp only [Prod.mk.injEq] at this
        omega
    · exfalso
      rw [← hi1] at hpq hnb q1 q2
      simp only [] at hpq hnb q1 q2
      rw [← hci0] at hy1 hpq hnb q1
      simp only [] at hy1 hpq hnb q1
      by_cases h0 : i0 + 1 = γ.l.toNat
      · rcases gw2 with w | w | w | w | w
        · omega
        · omega
        · omega
        · omega
        · apply hnb
          rw [← w]
          congr 1
          omega
      · have := huniq (γ.y.toNat + i0 + 1, γ.x.toNat) ⟨i0 + 1, by omega, by congr 1⟩ hpq
        rw [← hci0] at this
        simp only [Prod.mk.injEq] at this
        omega
    · rw [← hi1]
    · rw [← hi1]

omit R in
theorem gatesUpTo_eq {k : Nat} (hk : k < L) : gatesUpTo pb (tourOf L g) k = cnt pb g k := by
  unfold gatesUpTo cnt
  rw [tourOf_take L g (by omega : k + 1 ≤ L)]
  congr 1
  funext p
  exact (onGate_eq pb p).symm

/-- Rules 4 and 5 for one gate. -/
theorem gate_rule (hb : ∀ p : Pt, p.1 < pb.height → p.2 < pb.width → 0 ≤ ordS pb σ p ∧ ordS pb σ p ≤ pb.gates.length)
    {γ : Gate} (hγ : γ ∈ pb.gates) :
    ∃ k, k < (tourOf L g).length ∧ (tourOf L g).getD k (originN pb) ∈ gateCellsN γ ∧
      (∀ j, j < (tourOf L g).length → (tourOf L g).getD j (originN pb) ∈ gateCellsN γ → j = k) ∧
      crossesStraight γ ((tourOf L g).getD (prv (tourOf L g).length k) (originN pb)) ((tourOf L g).getD k (originN pb))
        ((tourOf L g).getD (nxt (tourOf L g).length k) (originN pb)) ∧
      (1 ≤ γ.n → ((gatesUpTo pb (tourOf L g) k : Nat) : Int) = γ.n) := by
  have hL : 0 < L := R.cg.pos
  have hnd : (pb.gates.flatMap gateCellsN).Nodup := R.hw.2.2.2.2.2.2.2.2
  obtain ⟨hc, hpc⟩ := phi_spec R hγ
  obtain ⟨b1, b2⟩ := gate_cell_board R hγ hc
  obtain ⟨k, hk, hgk⟩ := on_tour R b1 b2 hpc
  have hk0 : k ≠ 0 := by
    rintro rfl
    have := isGateCell_of_mem pb hγ hc
    rw [← hgk, R.g0, ← onGate_eq, onGate_origin R.hw] at this
    cases this
  have hprev : g (k - 1 + 1) = g k := by rw [Nat.sub_add_cancel (by omega)]
  rw [tourOf_length]
  refine ⟨k, hk, ?_, ?_, ?_, ?_⟩
  · rw [tourOf_getD L g _ hk, hgk]; exact hc
  · intro j hj hjc
    rw [tourOf_getD L g _ hj] at hjc
    obtain ⟨_, _, hpj, _⟩ := cyc_facts R j
    have := countP_one_unique _ _ (R.hloc.gates γ hγ) (g j) (g k) hjc (by rw [hgk]; exact hc) hpj (by rw [hgk]; exact hpc)
    exact R.cg.inj j k hj hk this
  · unfold nxt prv
    rw [tourOf_getD L g _ hk, tourOf_getD L g _ (Nat.mod_lt _ hL), tourOf_getD L g _ (Nat.mod_lt _ hL),
      ← R.cg.mod (k + 1), ← R.cg.mod (k + L - 1), show k + L - 1 = (k - 1) + L by omega, R.cg.per]
    obtain ⟨_, _, hp1, _⟩ := cyc_facts R (k - 1)
    obtain ⟨_, _, hp2, _⟩ := cyc_facts R (k + 1)
    have hck : g k ∈ gateCellsN γ := by rw [hgk]; exact hc
    have hpk : pasS pb σ (g k) = true := by rw [hgk]; exact hpc
    have s1 : stepOn (pb.height - 1) (pb.width - 1) (onOf (pb.height - 1) (pb.width - 1) σ) (g k) (g (k - 1)) := by
      have := stepOn_symm (R.cg.step (k - 1))
      rwa [hprev] at this
    have e1 := perp R hγ hck hpk s1 hp1
    have e2 := perp R hγ hck hpk (R.cg.step k) hp2
    unfold crossesStraight
    cases hd : γ.d <;> rw [hd] at e1 e2 <;> exact ⟨e1, e2⟩
  · intro hn
    rw [gatesUpTo_eq hk]
    have hgid : gidF pb.gates (g k) = some γ.n := by rw [hgk]; exact gidF_of_mem pb hnd hγ hc
    obtain ⟨c1, c2, hpk, hbk⟩ := cyc_facts R k
    have hne : g k ≠ originN pb := by
      have := ne_origin R (k - 1) (by omega)
      rwa [hprev] at this
    have h1 := (R.hloc.cell _ c1 c2).num hbk hne γ.n hgid hn hpk
    have h2 := ord_cnt R k hk
    rw [ord_origin R hb] at h2
    omega

end Tour

/-- SOUNDNESS: a model of the constraints posted after the cycle constraint, whose drawn steps form a loop and whose
`gate_ord` values respect their declared range, obeys the rules. -/
theorem sound (pb : Problem) (σ : Asg) (hw : WellFormed pb) (hloc : Local pb σ)
    (hloop : IsLoop (pb.height - 1) (pb.width - 1) (onOf (pb.height - 1) (pb.width - 1) σ))
    (hb : ∀ p : Pt, p.1 < pb.height → p.2 < pb.width → 0 ≤ ordS pb σ p ∧ ordS pb σ p ≤ pb.gates.length) :
    RulesOn pb (onOf (pb.height - 1) (pb.width - 1) σ) := by
  have h1 := hw.1
  have h2 := hw.2.1
  obtain ⟨o1, o2, o3, o4⟩ := hw.2.2.2.2.1
  have hor1 : (originN pb).1 < pb.height := by unfold originN; simp only []; omega
  have hor2 : (originN pb).2 < pb.width := by unfold originN; simp only []; omega
  obtain ⟨L, g, cg, hg, g0⟩ := origin_cycle pb σ h1 h2 hloc hor1 hor2 hloop
  have R : Run pb σ L g := ⟨hw, hloc, cg, hg, g0⟩
  refine ⟨hloop, ?_, tourOf L g, ?_, ?_⟩
  · intro y hy x hx hbl
    cases hon : onLoop (pb.height - 1) (pb.width - 1) (onOf (pb.height - 1) (pb.width - 1) σ) (y, x)
    · rfl
    · exfalso
      unfold onLoop at hon
      rw [List.any_eq_true] at hon
      obtain ⟨s, hs, ho⟩ := hon
      obtain ⟨hsv, ht⟩ := (C14.mem_pointSegs _ _ y x (by omega) (by omega) s).mp hs
      have hst : ∃ q, stepOn (pb.height - 1) (pb.width - 1) (onOf (pb.height - 1) (pb.width - 1) σ) (y, x) q := by
        rcases ht with ht | ht
        · exact ⟨s.ends.2, s, hsv, ho, Or.inl (by rw [← ht])⟩
        · exact ⟨s.ends.1, s, hsv, ho, Or.inr (by rw [← ht])⟩
      obtain ⟨q, hq⟩ := hst
      have hp : pasS pb σ (y, x) = true := by
        rcases stepOn_goes pb σ hq with h | h
        · exact (goes_facts pb σ h1 h2 hloc h).2.2.2.2.1
        · exact (goes_facts pb σ h1 h2 hloc h).2.2.2.2.2
      have := (hloc.cell (y, x) hy hx).blk hbl
      rw [hp] at this; cases this
  · rw [← g0]
    exact isTour_of_cyc cg
  · intro γ hγ
    exact gate_rule R hb hγ

end Cspuz.Proofs.C11SlalomA
