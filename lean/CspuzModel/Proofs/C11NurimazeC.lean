/-
  C11 / Nurimaze, part C — the two hidden fragments of the posted program:
  * typing / locality of the rank/root program of `active_vertices_connected(…, acyclic=True)`;
  * the `path` fragment is realizable iff some Boolean grid `pt` satisfies `PathCond`;
  * the composite fragment.
-/
import CspuzModel.Proofs.C11NurimazeB
import CspuzModel.Proofs.C11NurimazeG
import CspuzModel.Properties.C04
namespace Cspuz.Proofs.C11NurimazeC
open Cspuz Cspuz.Spec Cspuz.Puzzles Cspuz.Puzzles.Nurimaze Cspuz.Spec.Nurimaze Cspuz.Proofs
open Cspuz.Proofs.C11NurimazeA Cspuz.Proofs.C11NurimazeB

/-! ### the rank/root program in acyclic mode -/

section AVC
variable {g : Graph} {ia : List Expr} {base : Nat}

/-- Every constraint of the rank/root program (acyclic mode) is well typed and only mentions the caller's
variables and the `2 n` auxiliary ones. -/
theorem avcProgT_wt (hwf : g.wf = true) (hlen : ia.length = g.n) (hia : BoolArgs base ia) :
    ∀ c ∈ (C04L1.avcProg g ia base true).cs, wtB c = true ∧ c.varsBelow (base + 2 * g.n) = true := by
  intro c hc
  simp only [C04L1.avcProg, List.mem_append, List.mem_flatten, List.mem_map, List.mem_range,
    List.mem_singleton] at hc
  rcases hc with ⟨l, ⟨i, hi, rfl⟩, hc⟩ | rfl
  · simp only [C04L1.avcCs, if_true, List.mem_append, List.mem_singleton] at hc
    rcases hc with hc | hc
    · obtain ⟨je, hje, _, rfl⟩ := C04L1.mem_neE.1 hc
      have hb := incident_bounds hwf hje
      refine ⟨by simp [wtB, wtIs, wtI], ?_⟩
      rw [C11FragWT.varsBelow_node]
      intro z hz
      simp at hz
      rcases hz with rfl | rfl <;> simp only [Expr.varsBelow, decide_eq_true_eq] <;> omega
    · subst hc
      have hii : i < ia.length := by omega
      rw [C11FragWT.getD_of_lt hii]
      obtain ⟨h1, h2⟩ := hia _ (List.getElem_mem hii)
      have hxs : ∀ x ∈ C04L1.lessE g ia base i ++ [Expr.bvar (base + g.n + i)],
          wtB x = true ∧ x.varsBelow (base + 2 * g.n) = true := by
        intro x hx
        rcases List.mem_append.1 hx with hx | hx
        · exact C11FragWT.lessE_wt hwf hlen hia i x hx
        · simp at hx; subst hx
          refine ⟨rfl, ?_⟩
          simp only [Expr.varsBelow, decide_eq_true_eq]; omega
      have hw := C11FragWT.wtB_cmp_countTrueE .eq rfl _ 1 (fun x hx => (hxs x hx).1)
      have hv := C11FragWT.varsBelow_cmp_countTrueE (base + 2 * g.n) .eq _ 1 (fun x hx => (hxs x hx).2)
      refine ⟨by
        have hw' := hw
        simp only [wtB] at hw'
        simp [thenRaw, wtB, wtBs, h1]
        simpa using hw', ?_⟩
      unfold thenRaw
      rw [C11FragWT.varsBelow_node]
      intro z hz
      simp at hz
      rcases hz with rfl | rfl
      · exact C11Frag.varsBelow_mono (by omega) _ h2
      · exact hv
  · have hxs : ∀ x ∈ (List.range g.n).map (fun i => Expr.bvar (base + g.n + i)),
        wtB x = true ∧ x.varsBelow (base + 2 * g.n) = true := by
      intro x hx
      simp only [List.mem_map, List.mem_range] at hx
      obtain ⟨i, hi, rfl⟩ := hx
      refine ⟨rfl, ?_⟩
      simp only [Expr.varsBelow, decide_eq_true_eq]; omega
    exact ⟨C11FragWT.wtB_cmp_countTrueE .le rfl _ 1 (fun x hx => (hxs x hx).1),
      C11FragWT.varsBelow_cmp_countTrueE _ .le _ 1 (fun x hx => (hxs x hx).2)⟩

end AVC

theorem avc_wt (pb : Problem) :
    ∀ c ∈ (avc pb).cs, wtB c = true ∧ c.varsBelow (pb.height * pb.width + (avc pb).decls.length) = true := by
  intro c hc
  have := avcProgT_wt (g := Graph.grid pb.height pb.width) (C04Prim.grid_wf _ _) (by simp [bvars, Graph.grid])
    (C11FragWT.bvars_boolArgs (pb.height * pb.width)) c hc
  rw [avc_decls_length]
  exact this

/-! ### the `path` fragment -/

/-- The `path` fragment: `height × width` Boolean variables and the constraints mentioning them. -/
def pathFrag (pb : Problem) : Prog := { decls := List.replicate (pb.height * pb.width) .bool, cs := pathCs pb }

/-- The white grid an assignment describes. -/
def gridOf (pb : Problem) (σ : Asg) (y x : Nat) : Bool := σ.b (y * pb.width + x)

theorem pathFrag_realizable (pb : Problem) (σ : Asg) :
    Realizable (pbase pb) (pathFrag pb) σ ↔ ∃ pt, PathCond pb (gridOf pb σ) pt := by
  constructor
  · rintro ⟨σ', hag, _, hcs⟩
    refine ⟨fun y x => σ'.b (pbase pb + (y * pb.width + x)), ?_⟩
    refine (pathCs_sem σ' (gridOf pb σ) _ ?_ (fun _ _ _ _ => rfl)).1 hcs
    intro y hy x hx
    have := C11Grid.cell_lt hy hx
    exact (hag _ (by unfold pbase; omega)).1
  · rintro ⟨pt, hpt⟩
    let σ' : Asg :=
      { b := fun i => if pbase pb ≤ i then pt ((i - pbase pb) / pb.width) ((i - pbase pb) % pb.width) else σ.b i,
        i := σ.i }
    have hag : AgreeBelow (pbase pb) σ σ' := by
      intro id hid
      refine ⟨?_, rfl⟩
      show σ.b id = if pbase pb ≤ id then _ else σ.b id
      rw [if_neg (by omega)]
    refine ⟨σ', hag, ?_, ?_⟩
    · intro k lo hi hk
      simp only [pathFrag, List.getElem?_replicate] at hk
      split at hk <;> simp at hk
    · refine (pathCs_sem σ' (gridOf pb σ) pt ?_ ?_).2 hpt
      · intro y hy x hx
        have := C11Grid.cell_lt hy hx
        exact (hag _ (by unfold pbase; omega)).1
      · intro y hy x hx
        show pt y x = if pbase pb ≤ pbase pb + (y * pb.width + x) then _ else _
        rw [if_pos (by omega), show pbase pb + (y * pb.width + x) - pbase pb = y * pb.width + x by omega,
          (C11Grid.cell_div_mod hx).1, (C11Grid.cell_div_mod hx).2]

/-- `PathCond` only looks at the board. -/
theorem pathCond_congr (pb : Problem) {g g' : Nat → Nat → Bool} (pt : Nat → Nat → Bool)
    (h : ∀ y, y < pb.height → ∀ x, x < pb.width → g y x = g' y x) :
    PathCond pb g pt ↔ PathCond pb g' pt := by
  unfold PathCond
  apply and_congr _ Iff.rfl
  constructor
  · intro H y hy x hx hp; rw [← h y hy x hx]; exact H y hy x hx hp
  · intro H y hy x hx hp; rw [h y hy x hx]; exact H y hy x hx hp

/-! ### the composite fragment -/

/-- Both hidden fragments together are realizable iff the white cells form a tree (or there is none) and some
`pt` satisfies `PathCond`. -/
theorem frag_realizable {pb : Problem} (hwf : WellFormed pb) (σ : Asg) :
    Realizable (pb.height * pb.width) (avc pb ++ pathFrag pb) σ ↔
      ActiveTreeOrEmpty (Graph.grid pb.height pb.width) (truthAt σ (bvars 0 (pb.height * pb.width))) ∧
        ∃ pt, PathCond pb (gridOf pb σ) pt := by
  have hb : pb.height * pb.width + (avc pb).decls.length = pbase pb := by
    rw [avc_decls_length]; unfold pbase; omega
  rw [C11Frag.realizable_append (Q := fun σ => ∃ pt, PathCond pb (gridOf pb σ) pt)
    (fun c hc => (avc_wt pb c hc).2) (by rw [hb]; exact pathFrag_realizable pb)]
  · have hreal := Cspuz.C04.C04_aux_exact (Graph.grid pb.height pb.width) (bvars 0 (pb.height * pb.width))
      (pb.height * pb.width) true (avc pb) σ (C04Prim.grid_wf _ _) (fun _ => C11NurimazeG.grid_loopFree _ _)
      (by simp [bvars, Graph.grid]) (C11FragWT.bvars_boolArgs _) (avc_eq hwf)
    simp only [if_true] at hreal
    rw [hreal]
  · intro σ σ' hag
    have hcg : ∀ y, y < pb.height → ∀ x, x < pb.width → gridOf pb σ y x = gridOf pb σ' y x := by
      intro y hy x hx
      exact (hag _ (C11Grid.cell_lt hy hx)).1
    exact exists_congr fun pt => pathCond_congr pb pt hcg

end Cspuz.Proofs.C11NurimazeC
