/-
  C11 / shakashaka — step L2: the finite table.  On the states of the four cells around a grid point, the posted
  constraints (`PointP`) are equivalent to "all white angles are 90°/180°/360°" plus the straight-angle clause
  (`StraightP`): 6^4 = 1296 cases, checked by kernel evaluation.
-/
import CspuzModel.Proofs.C11ShakashakaL1
namespace Cspuz.Proofs.C11ShakashakaL2
open Cspuz Cspuz.Spec Cspuz.Puzzles.Shakashaka Cspuz.Spec.Shakashaka Cspuz.Proofs.C11ShakashakaDefs
open Cspuz.Proofs.C11ShakashakaL1

/-- Four states as a function of the quadrant index (same default as `qc`). -/
def mk (s0 s1 s2 s3 : St) (j : Nat) : St :=
  match j with
  | 0 => s0
  | 1 => s1
  | 2 => s2
  | _ => s3

/-- `PointOK` on the states. -/
def PointP (c : Nat → St) : Prop :=
  (∀ i, i < 8 → dg (c (i / 2)) i = true →
    if i % 2 = 0 then
      dg (c ((i + 3) % 8 / 2)) ((i + 3) % 8) = true ∨
        (em (c ((i + 3) % 8 / 2)) = true ∧ dg (c ((i + 5) % 8 / 2)) ((i + 5) % 8) = true)
    else
      dg (c ((i + 5) % 8 / 2)) ((i + 5) % 8) = true ∨
        (em (c ((i + 5) % 8 / 2)) = true ∧ dg (c ((i + 3) % 8 / 2)) ((i + 3) % 8) = true)) ∧
  ((List.range 4).filter fun j => an (c j) j).length ≠ 3

instance (c : Nat → St) : Decidable (PointP c) := by unfold PointP; infer_instance

/-- The `StraightOK` clause at one point, on the states. -/
def StraightP (c : Nat → St) : Prop :=
  ∀ i : Fin 8, i.val % 2 = 1 →
    ow c i = true → ¬ ow c (i - 1) = true →
    ow c (i + 1) = true → ow c (i + 2) = true → ow c (i + 3) = true →
    ¬ ow c (i + 4) = true →
    ∀ q, wq (c ((i + 1).val / 2)) q = true

instance (c : Nat → St) : Decidable (StraightP c) := by unfold StraightP; infer_instance

instance (o : Fin 8 → Bool) : Decidable (AnglesOK fun i => o i = true) := by unfold AnglesOK; infer_instance

/-- One case of the table. -/
def chk (s0 s1 s2 s3 : St) : Bool :=
  decide (PointP (mk s0 s1 s2 s3) ↔
    (AnglesOK (fun i => ow (mk s0 s1 s2 s3) i = true) ∧ StraightP (mk s0 s1 s2 s3)))

def allSt : List St := [.off, .v0, .v1, .v2, .v3, .v4]

theorem mem_allSt (s : St) : s ∈ allSt := by cases s <;> simp [allSt]

/-- The 216 cases with first state `s0`. -/
def chk1 (s0 : St) : Bool :=
  allSt.all fun s1 => allSt.all fun s2 => allSt.all fun s3 => chk s0 s1 s2 s3

theorem chk_off : chk1 .off = true := by decide +kernel
theorem chk_v0 : chk1 .v0 = true := by decide +kernel
theorem chk_v1 : chk1 .v1 = true := by decide +kernel
theorem chk_v2 : chk1 .v2 = true := by decide +kernel
theorem chk_v3 : chk1 .v3 = true := by decide +kernel
theorem chk_v4 : chk1 .v4 = true := by decide +kernel

theorem chk_all (s0 : St) : chk1 s0 = true := by
  cases s0
  · exact chk_off
  · exact chk_v0
  · exact chk_v1
  · exact chk_v2
  · exact chk_v3
  · exact chk_v4

theorem table (s0 s1 s2 s3 : St) :
    PointP (mk s0 s1 s2 s3) ↔
      (AnglesOK (fun i => ow (mk s0 s1 s2 s3) i = true) ∧ StraightP (mk s0 s1 s2 s3)) := by
  have h := chk_all s0
  simp only [chk1, List.all_eq_true] at h
  exact of_decide_eq_true (h s1 (mem_allSt s1) s2 (mem_allSt s2) s3 (mem_allSt s3))

end Cspuz.Proofs.C11ShakashakaL2
