/-
  C05, layer L1: the program emitted by `_division_connected` (rank / is_root / spanning_forest
  encoding) is realizable iff an arithmetic certificate `DivCert` exists.  Also the shared material
  for the primitive route: closed form of Python `==` on label expressions, the root constraints.
-/
import CspuzModel.Proofs.EvalLemmas
import CspuzModel.Spec.Certs2
import CspuzModel.Spec.C05Defs
namespace Cspuz.Proofs.C05L1
open Cspuz Cspuz.Spec Cspuz.Proofs

/-! ### Python `a == b` on integer operands -/

/-- Closed form of `cmpPy .eq a b` on int-like operands. -/
def eqE (a b : Expr) : Expr :=
  match a, b with
  | .litI x, .litI y => .litB (cmpOp .eq x y)
  | .litI _, _ => .node .eq [b, a]
  | .node _ _, .ivar _ => .node .eq [b, a]
  | _, _ => .node .eq [a, b]

theorem cmpPy_eq_eqE {a b : Expr} (ha : a.isIntLike = true) (hb : b.isIntLike = true) :
    cmpPy .eq a b = .ok (eqE a b) := by
  cases a <;> cases b <;>
    simp_all [cmpPy, eqE, Expr.isIntLike, Expr.isIntExpr, Op.mirror]

theorem eqE_isBoolLike (a b : Expr) : (eqE a b).isBoolLike = true := by
  cases a <;> cases b <;> simp [eqE, Expr.isBoolLike, Op.isBoolOp]

theorem beq_dec (x y : Int) : (x == y) = decide (x = y) := by
  by_cases h : x = y <;> simp [h]

theorem eval_eqE {σ : Asg} {a b : Expr} {x y : Int} (ha : eval σ a = some (.i x))
    (hb : eval σ b = some (.i y)) : eval σ (eqE a b) = some (.b (decide (x = y))) := by
  have h1 : eval σ (.node .eq [a, b]) = some (.b (decide (x = y))) := by
    rw [eval_cmp rfl ha hb, cmpOp_eq, beq_dec]
  have h2 : eval σ (.node .eq [b, a]) = some (.b (decide (x = y))) := by
    rw [eval_cmp rfl hb ha, cmpOp_eq, beq_dec]
    congr 2
    exact decide_eq_decide.2 eq_comm
  unfold eqE
  split
  · simp only [eval_litI, Option.some.injEq, Val.i.injEq] at ha hb
    subst ha hb
    rw [eval_litB, cmpOp_eq, beq_dec]
  · exact h2
  · exact h2
  · exact h1

/-! ### the root constraints -/

/-- The local function `rootCs` of `_division_connected`, as a stand-alone definition. -/
def rootCsM (dv : List Expr) (roots : Option (List (Option Nat))) (withIsRoot : Option (Nat → Expr)) :
    Py (List Expr) :=
  match roots with
  | none => .ok []
  | some rs => do
    let l ← rs.zipIdx.mapM fun ri =>
      match ri.1 with
      | none => .ok []
      | some r => do
        let c ← cmpPy .eq (← getE dv r) (.litI ri.2)
        match withIsRoot with
        | none => .ok [c]
        | some f => .ok [c, f r]
    .ok l.flatten


/-! ### label expressions -/

theorem getD_eq {dv : List Expr} {i : Nat} (h : i < dv.length) : dv.getD i .litNone = dv[i] := by
  simp [List.getD, List.getElem?_eq_getElem h]

theorem intArgs_isIntLike {base : Nat} {dv : List Expr} (hdv : IntArgs base dv) {i : Nat}
    (h : i < dv.length) : dv[i].isIntLike = true :=
  wtI_isIntLike _ (hdv _ (List.getElem_mem h)).1

/-- A label expression evaluates, under any extension `σ'` of `σ`, to `labOf σ dv`. -/
theorem eval_label {base : Nat} {σ σ' : Asg} {dv : List Expr} (hdv : IntArgs base dv)
    (hag : AgreeBelow base σ σ') {v : Nat} (hv : v < dv.length) :
    eval σ' dv[v] = some (.i (labOf σ dv v)) := by
  obtain ⟨hw, hb⟩ := hdv _ (List.getElem_mem hv)
  rw [← eval_congr_of_varsBelow hag _ hb]
  obtain ⟨x, hx⟩ := wtI_eval σ _ hw
  simp [labOf, intAt, List.getElem?_eq_getElem hv, hx]

theorem eval_label_getD {base : Nat} {σ σ' : Asg} {dv : List Expr} (hdv : IntArgs base dv)
    (hag : AgreeBelow base σ σ') {v : Nat} (hv : v < dv.length) :
    eval σ' (dv.getD v .litNone) = some (.i (labOf σ dv v)) := by
  rw [getD_eq hv]; exact eval_label hdv hag hv

/-! ### closed form of the root constraints -/

def rootItem (dv : List Expr) (f : Option (Nat → Expr)) (ri : Option Nat × Nat) : List Expr :=
  match ri.1 with
  | none => []
  | some r =>
    match f with
    | none => [eqE (dv.getD r .litNone) (.litI ri.2)]
    | some f => [eqE (dv.getD r .litNone) (.litI ri.2), f r]

def rootCsE (dv : List Expr) (roots : Option (List (Option Nat))) (f : Option (Nat → Expr)) : List Expr :=
  ((roots.getD []).zipIdx.map (rootItem dv f)).flatten

theorem rootCsM_eq {dv : List Expr} {roots : Option (List (Option Nat))} (f : Option (Nat → Expr))
    (hI : ∀ i (h : i < dv.length), dv[i].isIntLike = true)
    (hroots : ∀ (c r : Nat), (roots.getD [])[c]? = some (some r) → r < dv.length) :
    rootCsM dv roots f = .ok (rootCsE dv roots f) := by
  cases roots with
  | none => rfl
  | some rs =>
    simp only [rootCsM, rootCsE, Option.getD_some]
    rw [mapM_eq_ok_map (g := rootItem dv f)]
    · rfl
    · rintro ⟨o, c⟩ hm
      rw [List.mem_zipIdx_iff_getElem?] at hm
      cases o with
      | none => rfl
      | some r =>
        have hr : r < dv.length := hroots c r (by simpa using hm)
        simp only [rootItem]
        rw [getE_eq_ok hr, ok_bind, cmpPy_eq_eqE (hI r hr) rfl, ok_bind, getD_eq hr]
        cases f <;> rfl

/-- Success of the root constraints means that every listed root is a vertex. -/
theorem rootCsM_ok_lt {dv : List Expr} {roots : Option (List (Option Nat))} {f : Option (Nat → Expr)}
    {l : List Expr} (h : rootCsM dv roots f = .ok l) :
    ∀ (c r : Nat), (roots.getD [])[c]? = some (some r) → r < dv.length := by
  intro c r hc
  cases roots with
  | none => simp at hc
  | some rs =>
    simp only [Option.getD_some] at hc
    simp only [rootCsM, bind_eq_ok] at h
    obtain ⟨l', hl', _⟩ := h
    have hm : (some r, c) ∈ rs.zipIdx := List.mem_zipIdx_iff_getElem?.2 hc
    obtain ⟨i, hi, hx⟩ := List.getElem_of_mem hm
    obtain ⟨hlen, hall⟩ := mapM_eq_ok_iff.1 hl'
    have := hall i hi (by omega)
    rw [hx] at this
    simp only [bind_eq_ok] at this
    obtain ⟨e, he, _⟩ := this
    exact (getE_ok_iff.1 he).1

theorem sat_rootCsE {base : Nat} {σ σ' : Asg} {dv : List Expr} {roots : Option (List (Option Nat))}
    (f : Option (Nat → Expr)) (hdv : IntArgs base dv) (hag : AgreeBelow base σ σ')
    (hroots : ∀ (c r : Nat), (roots.getD [])[c]? = some (some r) → r < dv.length) :
    (∀ x ∈ rootCsE dv roots f, eval σ' x = some (.b true)) ↔
      ∀ (c r : Nat), (roots.getD [])[c]? = some (some r) →
        labOf σ dv r = (c : Int) ∧ ∀ f', f = some f' → eval σ' (f' r) = some (.b true) := by
  simp only [rootCsE, List.mem_flatten, List.mem_map, Prod.exists, List.mem_zipIdx_iff_getElem?]
  constructor
  · intro h c r hc
    have hr := hroots c r hc
    have he := eval_eqE (eval_label_getD hdv hag hr) (eval_litI σ' (c : Int))
    constructor
    · have := h (eqE (dv.getD r .litNone) (.litI c)) ⟨_, ⟨some r, c, hc, rfl⟩, by
        cases f <;> simp [rootItem]⟩
      rw [he] at this
      simpa using this
    · intro f' hf
      subst hf
      exact h (f' r) ⟨_, ⟨some r, c, hc, rfl⟩, by simp [rootItem]⟩
  · rintro h x ⟨l, ⟨o, c, hc, rfl⟩, hx⟩
    cases o with
    | none => simp [rootItem] at hx
    | some r =>
      obtain ⟨h1, h2⟩ := h c r hc
      have hr := hroots c r hc
      have he := eval_eqE (eval_label_getD hdv hag hr) (eval_litI σ' (c : Int))
      cases f with
      | none =>
        simp only [rootItem, List.mem_singleton] at hx
        subst hx
        rw [he]; simp [h1]
      | some f' =>
        simp only [rootItem, List.mem_cons, List.not_mem_nil, or_false] at hx
        rcases hx with rfl | rfl
        · rw [he]; simp [h1]
        · exact h2 f' rfl

/-- `_division_connected` with the local function named. -/
theorem divisionConnected_eq (g : Graph) (dv : List Expr) (k : Nat) (roots : Option (List (Option Nat)))
    (allowEmpty prim : Bool) (base : Nat) :
    divisionConnected g dv k roots allowEmpty prim base =
      (if prim then do
        let per ← (List.range k).mapM fun (i : Nat) => do
          let rb := base + i * g.n
          let region := bvars rb g.n
          let eqs ← (List.range g.n).mapM fun v => do
            let d ← getE dv v
            let c ← cmpPy .eq d (.litI i)
            .ok (.node .iff [.bvar (rb + v), c])
          let avc ← activeVerticesConnected g region 0 false true
          let ne ← if allowEmpty then .ok [] else do
            let ct ← countTrue region
            .ok [.node .ge [ct, .litI 1]]
          .ok (eqs ++ avc.cs ++ ne)
        let rc ← rootCsM dv roots none
        .ok { decls := List.replicate (k * g.n) .bool, cs := per.flatten ++ rc }
      else do
        let rdecl ← intArrayDecls g.n 0 ((g.n : Int) - 1)
        let per ← (List.range g.n).mapM fun i => do
          let items ← (g.incident i).mapM fun je => do
            let l := Expr.node .and [.bvar (base + 2 * g.n + je.2), .node .gt [.ivar (base + i), .ivar (base + je.1)]]
            let c ← if i < je.1 then do
                  let deq ← cmpPy .eq (← getE dv i) (← getE dv je.1)
                  let both ← andPy deq (.node .ne [.ivar (base + i), .ivar (base + je.1)])
                  .ok [Expr.node .imp [.bvar (base + 2 * g.n + je.2), both]]
                else .ok []
            .ok (l, c)
          let ct ← countTrue (items.map (·.1))
          .ok (items.flatMap (·.2) ++ [.node .eq [ct, .node .ite [.bvar (base + g.n + i), .litI 0, .litI 1]]])
        let perRegion ← (List.range k).mapM fun (i : Nat) => do
          let items ← ((List.range g.n).zip dv).mapM fun (vd : Nat × Expr) => do
            let c ← cmpPy .eq vd.2 (.litI i)
            andPy (.bvar (base + g.n + vd.1)) c
          let ct ← countTrue items
          .ok (Expr.node (if allowEmpty then .le else .eq) [ct, .litI 1])
        let rc ← rootCsM dv roots (some fun i => .bvar (base + g.n + i))
        .ok { decls := rdecl ++ List.replicate g.n .bool ++ List.replicate g.edges.length .bool,
              cs := per.flatten ++ perRegion ++ rc }) := by
  cases prim <;> rfl

/-! ### closed form of the rank / is_root / spanning_forest program -/

/-- The pair (count operand, posted constraints) of incident entry `je` of vertex `i`. -/
def itemE (g : Graph) (dv : List Expr) (base i : Nat) (je : Nat × Nat) : Expr × List Expr :=
  (.node .and [.bvar (base + 2 * g.n + je.2), .node .gt [.ivar (base + i), .ivar (base + je.1)]],
   if i < je.1 then
     [.node .imp [.bvar (base + 2 * g.n + je.2),
        .node .and [eqE (dv.getD i .litNone) (dv.getD je.1 .litNone),
                    .node .ne [.ivar (base + i), .ivar (base + je.1)]]]]
   else [])

/-- The constraints of vertex `i`. -/
def perCs (g : Graph) (dv : List Expr) (base i : Nat) : List Expr :=
  ((g.incident i).map (itemE g dv base i)).flatMap (·.2) ++
    [.node .eq [countTrueE (((g.incident i).map (itemE g dv base i)).map (·.1)),
                .node .ite [.bvar (base + g.n + i), .litI 0, .litI 1]]]

def regionItem (base n c : Nat) (vd : Nat × Expr) : Expr :=
  .node .and [.bvar (base + n + vd.1), eqE vd.2 (.litI c)]

/-- The constraint of label `c`. -/
def regionC (dv : List Expr) (base n : Nat) (allowEmpty : Bool) (c : Nat) : Expr :=
  .node (if allowEmpty then .le else .eq)
    [countTrueE (((List.range n).zip dv).map (regionItem base n c)), .litI 1]

def divProg (g : Graph) (dv : List Expr) (k : Nat) (roots : Option (List (Option Nat)))
    (allowEmpty : Bool) (base : Nat) : Prog :=
  { decls := List.replicate g.n (.int 0 ((g.n : Int) - 1)) ++ List.replicate g.n .bool ++
      List.replicate g.edges.length .bool,
    cs := ((List.range g.n).map (perCs g dv base)).flatten ++
      (List.range k).map (regionC dv base g.n allowEmpty) ++
      rootCsE dv roots (some fun i => .bvar (base + g.n + i)) }

theorem div_eq_prog {g : Graph} {dv : List Expr} {k : Nat} {roots : Option (List (Option Nat))}
    {allowEmpty : Bool} {base : Nat}
    (hn : 0 < g.n) (hwf : g.wf = true) (hlen : dv.length = g.n)
    (hI : ∀ i (h : i < dv.length), dv[i].isIntLike = true)
    (hroots : ∀ (c r : Nat), (roots.getD [])[c]? = some (some r) → r < dv.length) :
    divisionConnected g dv k roots allowEmpty false base = .ok (divProg g dv k roots allowEmpty base) := by
  rw [divisionConnected_eq]
  simp only [Bool.false_eq_true, if_false]
  have hdecl : intArrayDecls g.n 0 ((g.n : Int) - 1) = .ok (List.replicate g.n (.int 0 ((g.n : Int) - 1))) := by
    unfold intArrayDecls; rw [if_neg (by omega)]
  rw [hdecl, ok_bind]
  rw [mapM_eq_ok_map (g := perCs g dv base), ok_bind]
  · rw [mapM_eq_ok_map (g := regionC dv base g.n allowEmpty), ok_bind]
    · rw [rootCsM_eq _ hI hroots]; rfl
    · intro c _
      rw [mapM_eq_ok_map (g := regionItem base g.n c), ok_bind]
      · rw [countTrue_ok_of_boolLike (by
          intro x hx; simp only [List.mem_map] at hx; obtain ⟨_, _, rfl⟩ := hx; rfl)]
        rfl
      · rintro ⟨v, d⟩ hvd
        have hd : d ∈ dv := (List.of_mem_zip hvd).2
        obtain ⟨j, hj, rfl⟩ := List.getElem_of_mem hd
        rw [cmpPy_eq_eqE (hI j hj) rfl, ok_bind]
        exact andPy_bvar (eqE_isBoolLike _ _)
  · intro i hi
    have hi : i < g.n := by simpa using hi
    rw [mapM_eq_ok_map (g := itemE g dv base i), ok_bind]
    · rw [countTrue_ok_of_boolLike (by
        intro x hx; simp only [List.mem_map] at hx; obtain ⟨_, ⟨_, _, rfl⟩, rfl⟩ := hx; rfl)]
      rfl
    · intro je hje
      have hb := incident_bounds hwf hje
      by_cases hlt : i < je.1
      · simp only [hlt, if_true, itemE]
        rw [getE_eq_ok (by omega), ok_bind, getE_eq_ok (by omega), ok_bind,
          cmpPy_eq_eqE (hI i (by omega)) (hI je.1 (by omega)), ok_bind]
        have hand : ∀ a b : Expr, a.isBoolLike = true → (∃ op args, b = .node op args) →
            b.isBoolLike = true → andPy a b = .ok (.node .and [a, b]) := by
          rintro a b ha ⟨op, args, rfl⟩ hb
          unfold andPy
          split
          · rename_i h1 h2; cases h2
          · rw [ha, hb]; rfl
        rw [hand _ _ (eqE_isBoolLike _ _) ⟨_, _, rfl⟩ rfl, ok_bind,
          getD_eq (show i < dv.length by omega), getD_eq (show je.1 < dv.length by omega)]
        rfl
      · simp only [hlt, if_false, itemE]
        rfl

/-! ### meaning of the emitted constraints under an extension `σ'` of `σ` -/

/-- ranks read off an assignment -/
def rk (σ' : Asg) (base : Nat) (i : Nat) : Int := σ'.i (base + i)
/-- root flags read off an assignment -/
def rt (σ' : Asg) (base n : Nat) (i : Nat) : Bool := σ'.b (base + n + i)
/-- spanning-forest flags read off an assignment -/
def sf (σ' : Asg) (base n : Nat) (e : Nat) : Bool := σ'.b (base + 2 * n + e)

section Sem
variable {g : Graph} {dv : List Expr} {base : Nat} {σ σ' : Asg}

theorem mem_perCs_items {i : Nat} {c : Expr} :
    c ∈ ((g.incident i).map (itemE g dv base i)).flatMap (·.2) ↔
      ∃ je ∈ g.incident i, i < je.1 ∧
        c = .node .imp [.bvar (base + 2 * g.n + je.2),
          .node .and [eqE (dv.getD i .litNone) (dv.getD je.1 .litNone),
                      .node .ne [.ivar (base + i), .ivar (base + je.1)]]] := by
  simp only [List.mem_flatMap, List.mem_map]
  constructor
  · rintro ⟨_, ⟨je, hje, rfl⟩, hc⟩
    simp only [itemE] at hc
    split at hc
    · rename_i hlt
      exact ⟨je, hje, hlt, by simpa using hc⟩
    · simp at hc
  · rintro ⟨je, hje, hlt, rfl⟩
    exact ⟨_, ⟨je, hje, rfl⟩, by simp [itemE, hlt]⟩

theorem eval_impItem (hwf : g.wf = true) (hlen : dv.length = g.n) (hdv : IntArgs base dv)
    (hag : AgreeBelow base σ σ') {i : Nat} {je : Nat × Nat} (hje : je ∈ g.incident i) :
    eval σ' (.node .imp [.bvar (base + 2 * g.n + je.2),
          .node .and [eqE (dv.getD i .litNone) (dv.getD je.1 .litNone),
                      .node .ne [.ivar (base + i), .ivar (base + je.1)]]]) =
      some (.b (!sf σ' base g.n je.2 ||
        (decide (labOf σ dv i = labOf σ dv je.1) && (rk σ' base i != rk σ' base je.1)))) := by
  have hb := incident_bounds hwf hje
  have h1 := eval_eqE (eval_label_getD hdv hag (show i < dv.length by omega))
    (eval_label_getD hdv hag (show je.1 < dv.length by omega))
  have h2 : eval σ' (.node .ne [.ivar (base + i), .ivar (base + je.1)]) =
      some (.b (rk σ' base i != rk σ' base je.1)) := eval_cmp rfl (eval_ivar ..) (eval_ivar ..)
  exact eval_thenRaw (eval_bvar ..) (eval_and2 h1 h2)

theorem eval_ctItems (i : Nat) :
    eval σ' (countTrueE (((g.incident i).map (itemE g dv base i)).map (·.1))) =
      some (.i ((countInc g i (fun je => sf σ' base g.n je.2 && decide (rk σ' base i > rk σ' base je.1)) : Nat))) := by
  rw [eval_countTrueE ((g.incident i).map
      (fun je => sf σ' base g.n je.2 && decide (rk σ' base i > rk σ' base je.1))) (by
    rw [List.map_map, List.map_map, List.map_map]
    apply List.map_congr_left
    intro je _
    simp only [Function.comp, itemE]
    rw [eval_and2 (eval_bvar ..) (eval_cmp rfl (eval_ivar ..) (eval_ivar ..))]
    rfl)]
  congr 3
  rw [List.count_eq_countP, List.countP_map, List.countP_eq_length_filter]
  unfold countInc
  congr 1
  apply List.filter_congr
  intro x _; simp

theorem sat_perCs (hwf : g.wf = true) (hlen : dv.length = g.n) (hdv : IntArgs base dv)
    (hag : AgreeBelow base σ σ') (i : Nat) :
    (∀ c ∈ perCs g dv base i, eval σ' c = some (.b true)) ↔
      (∀ je ∈ g.incident i, i < je.1 → sf σ' base g.n je.2 = true →
        labOf σ dv i = labOf σ dv je.1 ∧ rk σ' base i ≠ rk σ' base je.1) ∧
      countInc g i (fun je => sf σ' base g.n je.2 && decide (rk σ' base i > rk σ' base je.1)) =
        if rt σ' base g.n i then 0 else 1 := by
  have hcnt : eval σ' (.node .eq [countTrueE (((g.incident i).map (itemE g dv base i)).map (·.1)),
                .node .ite [.bvar (base + g.n + i), .litI 0, .litI 1]]) = some (.b true) ↔
      countInc g i (fun je => sf σ' base g.n je.2 && decide (rk σ' base i > rk σ' base je.1)) =
        if rt σ' base g.n i then 0 else 1 := by
    rw [eval_cmp rfl (eval_ctItems i) (eval_ite (eval_bvar ..) (eval_litI ..) (eval_litI ..))]
    unfold rt
    cases σ'.b (base + g.n + i) <;> simp <;> omega
  unfold perCs
  simp only [List.mem_append, List.mem_singleton]
  constructor
  · intro h
    refine ⟨?_, hcnt.1 (h _ (.inr rfl))⟩
    intro je hje hlt hsf
    have := h _ (.inl (mem_perCs_items.2 ⟨je, hje, hlt, rfl⟩))
    rw [eval_impItem hwf hlen hdv hag hje, hsf] at this
    simpa using this
  · rintro ⟨h1, h2⟩ c hc
    rcases hc with hc | rfl
    · obtain ⟨je, hje, hlt, rfl⟩ := mem_perCs_items.1 hc
      rw [eval_impItem hwf hlen hdv hag hje]
      cases hsf : sf σ' base g.n je.2
      · simp
      · simpa using h1 je hje hlt hsf
    · exact hcnt.2 h2

theorem sat_regionC (hlen : dv.length = g.n) (hdv : IntArgs base dv)
    (hag : AgreeBelow base σ σ') (allowEmpty : Bool) (c : Nat) :
    eval σ' (regionC dv base g.n allowEmpty c) = some (.b true) ↔
      if allowEmpty then
        ((List.range g.n).filter fun v => rt σ' base g.n v && decide (labOf σ dv v = (c : Int))).length ≤ 1
      else
        ((List.range g.n).filter fun v => rt σ' base g.n v && decide (labOf σ dv v = (c : Int))).length = 1 := by
  have hct := eval_countTrueE (σ := σ') (xs := ((List.range g.n).zip dv).map (regionItem base g.n c))
    ((List.range g.n).map fun v => rt σ' base g.n v && decide (labOf σ dv v = (c : Int))) (by
      apply List.ext_getElem
      · simp [hlen]
      · intro j h1 h2
        simp only [List.length_map, List.length_range] at h2
        simp only [List.getElem_map, List.getElem_zip, List.getElem_range, regionItem]
        rw [eval_and2 (eval_bvar ..) (eval_eqE (eval_label hdv hag (by omega)) (eval_litI σ' (c : Int)))]
        rfl)
  rw [List.count_eq_countP, List.countP_map, List.countP_eq_length_filter] at hct
  have hf : (List.filter ((fun x => x == true) ∘ fun v => rt σ' base g.n v && decide (labOf σ dv v = (c : Int)))
      (List.range g.n)) = (List.range g.n).filter fun v => rt σ' base g.n v && decide (labOf σ dv v = (c : Int)) := by
    apply List.filter_congr; intro x _; simp
  rw [hf] at hct
  unfold regionC
  cases allowEmpty
  · simp only [Bool.false_eq_true, if_false]
    rw [eval_cmp rfl hct (eval_litI ..)]
    simp
    omega
  · simp only [if_true]
    rw [eval_cmp rfl hct (eval_litI ..)]
    simp
    omega
end Sem

/-- The conjunction of the `DivCert` fields, for ranks/roots/forest flags read off `σ'`. -/
theorem satFrag_divProg_iff {g : Graph} {dv : List Expr} {k : Nat} {roots : Option (List (Option Nat))}
    {allowEmpty : Bool} {base : Nat} {σ σ' : Asg}
    (hwf : g.wf = true) (hlen : dv.length = g.n) (hdv : IntArgs base dv)
    (hroots : ∀ (c r : Nat), (roots.getD [])[c]? = some (some r) → r < dv.length)
    (hag : AgreeBelow base σ σ') :
    SatFrag base (divProg g dv k roots allowEmpty base) σ' ↔
      (∀ i, i < g.n → 0 ≤ rk σ' base i ∧ rk σ' base i ≤ (g.n : Int) - 1) ∧
      (∀ i, i < g.n →
        (∀ je ∈ g.incident i, i < je.1 → sf σ' base g.n je.2 = true →
          labOf σ dv i = labOf σ dv je.1 ∧ rk σ' base i ≠ rk σ' base je.1) ∧
        countInc g i (fun je => sf σ' base g.n je.2 && decide (rk σ' base i > rk σ' base je.1)) =
          if rt σ' base g.n i then 0 else 1) ∧
      (∀ c, c < k →
        if allowEmpty then
          ((List.range g.n).filter fun v => rt σ' base g.n v && decide (labOf σ dv v = (c : Int))).length ≤ 1
        else
          ((List.range g.n).filter fun v => rt σ' base g.n v && decide (labOf σ dv v = (c : Int))).length = 1) ∧
      (∀ (c r : Nat), (roots.getD [])[c]? = some (some r) →
        labOf σ dv r = (c : Int) ∧ rt σ' base g.n r = true) := by
  unfold SatFrag divProg
  simp only
  rw [List.append_assoc]
  refine and_congr (sat_rank_decls (by
    intro d hd
    rcases List.mem_append.1 hd with hd | hd <;> exact (List.mem_replicate.1 hd).2) (rk σ' base)) ?_
  have hroot := sat_rootCsE (σ := σ) (σ' := σ') (roots := roots) (some fun i => .bvar (base + g.n + i))
    hdv hag hroots
  simp only [List.mem_append, List.mem_flatten, List.mem_map, List.mem_range]
  constructor
  · intro h
    refine ⟨?_, ?_, ?_⟩
    · intro i hi
      rw [← sat_perCs hwf hlen hdv hag i]
      intro c hc
      exact h c (.inl (.inl ⟨_, ⟨i, hi, rfl⟩, hc⟩))
    · intro c hc
      rw [← sat_regionC hlen hdv hag allowEmpty c]
      exact h _ (.inl (.inr ⟨c, hc, rfl⟩))
    · intro c r hcr
      obtain ⟨h1, h2⟩ := hroot.1 (fun x hx => h x (.inr hx)) c r hcr
      refine ⟨h1, ?_⟩
      have := h2 _ rfl
      simpa [rt] using this
  · rintro ⟨h1, h2, h3⟩ c hc
    rcases hc with (⟨l, ⟨i, hi, rfl⟩, hc⟩ | ⟨c', hc', rfl⟩) | hc
    · exact (sat_perCs hwf hlen hdv hag i).2 (h1 i hi) c hc
    · exact (sat_regionC hlen hdv hag allowEmpty c').2 (h2 c' hc')
    · refine hroot.2 ?_ c hc
      intro c' r hcr
      refine ⟨(h3 c' r hcr).1, ?_⟩
      intro f' hf
      cases hf
      simpa [rt] using (h3 c' r hcr).2

/-! ### main theorems -/

theorem div_ok_pos {g : Graph} {dv : List Expr} {k : Nat} {roots : Option (List (Option Nat))}
    {allowEmpty : Bool} {base : Nat} {p : Prog}
    (hp : divisionConnected g dv k roots allowEmpty false base = .ok p) : 0 < g.n := by
  rw [divisionConnected_eq] at hp
  simp only [Bool.false_eq_true, if_false, bind_eq_ok] at hp
  obtain ⟨a, ha, _⟩ := hp
  unfold intArrayDecls at ha
  split at ha
  · cases ha
  · omega

/-- Success of the generator means that every listed root is a vertex. -/
theorem div_ok_roots {g : Graph} {dv : List Expr} {k : Nat} {roots : Option (List (Option Nat))}
    {allowEmpty prim : Bool} {base : Nat} {p : Prog}
    (hp : divisionConnected g dv k roots allowEmpty prim base = .ok p) :
    ∀ (c r : Nat), (roots.getD [])[c]? = some (some r) → r < dv.length := by
  rw [divisionConnected_eq] at hp
  cases prim
  · simp only [Bool.false_eq_true, if_false, bind_eq_ok] at hp
    obtain ⟨_, _, _, _, _, _, rc, hrc, _⟩ := hp
    exact rootCsM_ok_lt hrc
  · simp only [if_true, bind_eq_ok] at hp
    obtain ⟨_, _, rc, hrc, _⟩ := hp
    exact rootCsM_ok_lt hrc

/-- Extension of `σ` by the certificate's ranks, roots and forest flags. -/
def extend (σ : Asg) (base n : Nat) (rank : Nat → Int) (root sfl : Nat → Bool) : Asg where
  i := fun id => if base ≤ id then rank (id - base) else σ.i id
  b := fun id => if base + 2 * n ≤ id then sfl (id - (base + 2 * n))
    else if base + n ≤ id then root (id - (base + n)) else σ.b id

theorem extend_agree (σ : Asg) (base n : Nat) (rank : Nat → Int) (root sfl : Nat → Bool) :
    AgreeBelow base σ (extend σ base n rank root sfl) := by
  intro id hid
  simp only [extend]
  rw [if_neg (by omega), if_neg (by omega), if_neg (by omega)]
  exact ⟨rfl, rfl⟩

theorem rk_extend (σ : Asg) (base n : Nat) (rank : Nat → Int) (root sfl : Nat → Bool) :
    rk (extend σ base n rank root sfl) base = rank := by
  funext i; simp [rk, extend]

theorem sf_extend (σ : Asg) (base n : Nat) (rank : Nat → Int) (root sfl : Nat → Bool) :
    sf (extend σ base n rank root sfl) base n = sfl := by
  funext i; simp [sf, extend]

theorem rt_extend (σ : Asg) (base n : Nat) (rank : Nat → Int) (root sfl : Nat → Bool) {i : Nat}
    (hi : i < n) : rt (extend σ base n rank root sfl) base n i = root i := by
  simp only [rt, extend]
  rw [if_neg (by omega), if_pos (by omega)]
  congr 1; omega

theorem filter_rt_extend (σ : Asg) (base n : Nat) (rank : Nat → Int) (root sfl : Nat → Bool)
    (q : Nat → Bool) :
    ((List.range n).filter fun v => rt (extend σ base n rank root sfl) base n v && q v) =
      (List.range n).filter fun v => root v && q v := by
  apply List.filter_congr
  intro v hv
  rw [rt_extend _ _ _ _ _ _ (List.mem_range.1 hv)]

theorem div_realizable_iff_cert (g : Graph) (dv : List Expr) (k : Nat)
    (roots : Option (List (Option Nat))) (allowEmpty : Bool) (base : Nat) (p : Prog) (σ : Asg)
    (hwf : g.wf = true) (hlen : dv.length = g.n) (hdv : IntArgs base dv)
    (hp : divisionConnected g dv k roots allowEmpty false base = .ok p) :
    Realizable base p σ ↔ Nonempty (DivCert g (labOf σ dv) k (roots.getD []) allowEmpty) := by
  have hn := div_ok_pos hp
  have hroots := div_ok_roots hp
  have hI : ∀ i (h : i < dv.length), dv[i].isIntLike = true := fun i h => intArgs_isIntLike hdv h
  rw [div_eq_prog hn hwf hlen hI hroots] at hp
  cases hp
  constructor
  · rintro ⟨σ', hag, hs⟩
    obtain ⟨hb, hloc, hper, hrts⟩ := (satFrag_divProg_iff hwf hlen hdv hroots hag).1 hs
    exact ⟨{ rank := rk σ' base, root := rt σ' base g.n, sf := sf σ' base g.n,
             rank_lo := fun i hi => (hb i hi).1, rank_hi := fun i hi => (hb i hi).2,
             edge := fun i hi => (hloc i hi).1, loc := fun i hi => (hloc i hi).2,
             per := hper, rts := hrts }⟩
  · rintro ⟨c⟩
    refine ⟨extend σ base g.n c.rank c.root c.sf, extend_agree _ _ _ _ _ _, ?_⟩
    rw [satFrag_divProg_iff hwf hlen hdv hroots (extend_agree _ _ _ _ _ _), rk_extend, sf_extend]
    refine ⟨fun i hi => ⟨c.rank_lo i hi, c.rank_hi i hi⟩, ?_, ?_, ?_⟩
    · intro i hi
      rw [rt_extend _ _ _ _ _ _ hi]
      exact ⟨c.edge i hi, c.loc i hi⟩
    · intro c' hc'
      rw [filter_rt_extend]
      exact c.per c' hc'
    · intro c' r hcr
      rw [rt_extend _ _ _ _ _ _ (by have := hroots c' r hcr; omega)]
      exact c.rts c' r hcr

end Cspuz.Proofs.C05L1
