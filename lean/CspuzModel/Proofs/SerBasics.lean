/-
  Shared small lemmas about the serializer model (Outcome monad, windows, item access).
-/
import CspuzModel.Spec.Serializer
namespace Cspuz.Ser
open Cspuz

namespace Outcome
@[simp] theorem bind_ok {α β} (a : α) (f : α → Outcome β) : (Outcome.ok a).bind f = f a := rfl
@[simp] theorem bind_none {α β} (f : α → Outcome β) : (Outcome.none : Outcome α).bind f = .none := rfl
@[simp] theorem bind_raised {α β} (e : PyErr) (f : α → Outcome β) : (Outcome.raised e : Outcome α).bind f = .raised e := rfl
@[simp] theorem bind_diverge {α β} (f : α → Outcome β) : (Outcome.diverge : Outcome α).bind f = .diverge := rfl

theorem bind_eq_ok {α β} {x : Outcome α} {f : α → Outcome β} {b : β} :
    x.bind f = .ok b ↔ ∃ a, x = .ok a ∧ f a = .ok b := by
  cases x <;> simp [bind]
end Outcome

@[simp] theorem window_zero (d : List PyVal) (i : Nat) : window d i 0 = [] := by simp [window]

theorem window_length_le (d : List PyVal) (i k : Nat) : (window d i k).length ≤ k := by
  simp [window, List.length_take]; omega

theorem window_length (d : List PyVal) (i k : Nat) (h : i + k ≤ d.length) : (window d i k).length = k := by
  simp [window, List.length_take]; omega

theorem window_one (d : List PyVal) (i : Nat) (v : PyVal) (h : d[i]? = some v) : window d i 1 = [v] := by
  have hi : i < d.length := by
    rcases Nat.lt_or_ge i d.length with h' | h'
    · exact h'
    · simp [List.getElem?_eq_none h'] at h
  simp only [window]
  rw [List.drop_eq_getElem_cons hi]
  simp [List.getElem?_eq_getElem hi] at h
  simp [h]

theorem withItem_eq_ok {β} {d : List PyVal} {i : Nat} {k : PyVal → Outcome β} {b : β} :
    withItem d i k = .ok b ↔ ∃ v, d[i]? = some v ∧ k v = .ok b := by
  unfold withItem
  split
  · rename_i h; subst h; simp
  · cases hd : d[i]? <;> simp

theorem withChar_eq_ok {β} {s : Str} {i : Nat} {k : Nat → Outcome β} {b : β} :
    withChar s i k = .ok b ↔ ∃ c, s[i]? = some c ∧ k c = .ok b := by
  unfold withChar
  split
  · rename_i h; subst h; simp
  · cases hd : s[i]? <;> simp

/-- the character at the start of the embedded text -/
theorem getElem?_ctx (pre t rest : Str) (j : Nat) (h : j < t.length) :
    (pre ++ t ++ rest)[pre.length + j]? = t[j]? := by
  rw [List.append_assoc, List.getElem?_append_right (by omega)]
  simp [List.getElem?_append_left h]

theorem drop_ctx (pre t rest : Str) : (pre ++ t ++ rest).drop pre.length = t ++ rest := by
  rw [List.append_assoc, List.drop_left]

theorem serL_eq_map (cs : List Comb) (env : Env) : serL cs env = cs.map (ser · env) := by
  induction cs with
  | nil => rfl
  | cons c cs ih => simp [serL, ih]

theorem deL_eq_map (cs : List Comb) (env : Env) : deL cs env = cs.map (de · env) := by
  induction cs with
  | nil => rfl
  | cons c cs ih => simp [deL, ih]

end Cspuz.Ser
