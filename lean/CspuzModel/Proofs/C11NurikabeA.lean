/-
  C11 / Nurikabe, part A: the program posted by `solve_nurikabe` in closed form.
-/
import CspuzModel.Spec.PuzzleRules.Nurikabe
import CspuzModel.Proofs.C11ArrOps
import CspuzModel.Proofs.C12Conv
import CspuzModel.Proofs.C05L1
import CspuzModel.Proofs.C04Prim
namespace Cspuz.Proofs.C11NurikabeA
open Cspuz Cspuz.Spec Cspuz.Puzzles Cspuz.Puzzles.Nurikabe Cspuz.Spec.Nurikabe Cspuz.Proofs
open Cspuz.Proofs.C11CL Cspuz.Proofs.C11ArrOps

/-! ### table lookup, clue list -/

theorem tableGet_eq {pb : Problem} (hwf : WellFormed pb) {y x : Nat} (hy : y < pb.height) (hx : x < pb.width) :
    tableGet pb.problem (y : Int) (x : Int) = .ok (val pb y x) := by
  obtain ⟨_, _, hlen, hrow⟩ := hwf
  have hy' : y < pb.problem.length := by omega
  have hr := hrow _ (List.getElem_mem hy')
  have hx' : x < (pb.problem[y]).length := by omega
  simp only [tableGet, val]
  rw [C13.pyIndex_natCast _ _ hy', List.getElem?_eq_getElem hy']
  simp only [ok_bind]
  rw [C13.pyIndex_natCast _ _ hx', List.getElem?_eq_getElem hx']
  simp [List.getD, List.getElem?_eq_getElem hy', List.getElem?_eq_getElem hx']

theorem mem_cellsOf {h w : Nat} {p : Nat × Nat} : p ∈ cellsOf h w ↔ p.1 < h ∧ p.2 < w := by
  simp only [cellsOf, List.mem_flatMap, List.mem_range, List.mem_map]
  constructor
  · rintro ⟨y, hy, x, hx, rfl⟩; exact ⟨hy, hx⟩
  · rintro ⟨hy, hx⟩; exact ⟨p.1, hy, p.2, hx, rfl⟩

/-- What the first double loop contributes for the cell `p`. -/
def clueAt (pb : Problem) (p : Nat × Nat) : List (Nat × Nat × Int) :=
  if val pb p.1 p.2 ≥ 1 ∨ val pb p.1 p.2 = -1 then [(p.1, p.2, val pb p.1 p.2)] else []

/-- `clues`: the clue cells with their values, row-major. -/
def clueList (pb : Problem) : List (Nat × Nat × Int) := (cellsOf pb.height pb.width).flatMap (clueAt pb)

theorem clues_eq {pb : Problem} (hwf : WellFormed pb) : clues pb = .ok (clueList pb) := by
  unfold clues clueList
  rw [mapM_eq_ok_map (g := clueAt pb)]
  · simp only [ok_bind, List.flatMap_def]
  · intro p hp
    obtain ⟨hy, hx⟩ := mem_cellsOf.1 hp
    rw [tableGet_eq hwf hy hx, ok_bind]
    rfl

/-! ### names -/

/-- number of clues -/
def K (pb : Problem) : Nat := (clueList pb).length

/-- `roots` as passed to `_division_connected`. -/
def rootsOf (pb : Problem) : List (Option Nat) :=
  none :: (clueList pb).map fun c => some (c.1 * pb.width + c.2.1)

def N (pb : Problem) : Nat := pb.height * pb.width

/-- The division variables. -/
def dvs (pb : Problem) : List Expr := (List.range (N pb)).map Expr.ivar

/-- The fragment emitted by `division_connected`. -/
def dc (pb : Problem) : Prog :=
  C05L1.divProg (Graph.grid pb.height pb.width) (dvs pb) (K pb + 1) (some (rootsOf pb)) false (N pb)

/-- id of the first `is_white` variable -/
def wb (pb : Problem) : Nat := N pb + (dc pb).decls.length

def Wv (pb : Problem) (i : Nat) : Expr := .bvar (wb pb + i)

def whites (pb : Problem) : List Expr := (List.range (N pb)).map (Wv pb)

theorem ivars_zero (n : Nat) : ivars 0 n = (List.range n).map Expr.ivar := by
  simp [ivars]

theorem bvars_eq (b n : Nat) : bvars b n = (List.range n).map fun i => Expr.bvar (b + i) := rfl

/-! ### the local constraints in closed form -/

/-- `is_white == (division != 0)` -/
def c1 (pb : Problem) : List Expr :=
  (List.range (N pb)).map fun i => .node .iff [Wv pb i, .node .ne [.ivar i, .litI 0]]

/-- vertically adjacent white cells belong to the same region -/
def c2 (pb : Problem) : List Expr :=
  (cellsOf (pb.height - 1) pb.width).map fun p =>
    .node .imp [.node .and (C12Conv.winList (whites pb) pb.width 2 1 p.1 p.2),
      .node .eq [.ivar (p.1 * pb.width + p.2), .ivar ((p.1 + 1) * pb.width + p.2)]]

/-- horizontally adjacent white cells belong to the same region -/
def c3 (pb : Problem) : List Expr :=
  (cellsOf pb.height (pb.width - 1)).map fun p =>
    .node .imp [.node .and (C12Conv.winList (whites pb) pb.width 1 2 p.1 p.2),
      .node .eq [.ivar (p.1 * pb.width + p.2), .ivar (p.1 * pb.width + (p.2 + 1))]]

/-- every 2 × 2 block has a white cell -/
def c4 (pb : Problem) : List Expr :=
  (cellsOf (pb.height - 1) (pb.width - 1)).map fun p =>
    .node .or (C12Conv.winList (whites pb) pb.width 2 2 p.1 p.2)

/-- `count_true(division == r)` -/
def regionCount (pb : Problem) (r : Int) : Expr :=
  countTrueE ((List.range (N pb)).map fun i => Expr.node .eq [.ivar i, .litI r])

/-- the size constraint of clue number `i` -/
def c5At (pb : Problem) (ic : (Nat × Nat × Int) × Nat) : List Expr :=
  if ic.1.2.2 > 0 then [.node .eq [regionCount pb ((ic.2 : Int) + 1), .litI ic.1.2.2]]
  else if ic.1.2.2 = -1 then
    match pb.unknownLow with
    | some low => [.node .ge [regionCount pb ((ic.2 : Int) + 1), .litI low]]
    | none => []
  else []

def c5 (pb : Problem) : List Expr := (clueList pb).zipIdx.flatMap (c5At pb)

def loc (pb : Problem) : List Expr := c1 pb ++ c2 pb ++ c3 pb ++ c4 pb ++ c5 pb

/-! ### computing the pieces -/

theorem whites_length (pb : Problem) : (whites pb).length = pb.height * pb.width := by simp [whites, N]

theorem countTrueA_arr2 (h w : Nat) (l : List Expr) (hl : ∀ x ∈ l, x.isBoolLike = true) :
    countTrueA [.leaf (.arr2 true h w l)] = .ok (countTrueE l) := by
  simp only [countTrueA, ANest.flattenList, ANest.flatten, PyV.flat, List.append_nil]
  exact countTrue_ok_of_boolLike hl

theorem sel_cells {α : Type} (F : Nat → Nat → α) (a b : Nat) :
    ((List.range a).flatMap fun y => (List.range b).map fun x => F y x) = (cellsOf a b).map fun p => F p.1 p.2 := by
  simp [cellsOf, List.map_flatMap, Function.comp_def]

theorem sel_cells_y1 {α : Type} (F : Nat → Nat → α) (a b : Nat) :
    (((List.range a).map fun j => j + 1).flatMap fun y => (List.range b).map fun x => F y x)
      = (cellsOf a b).map fun p => F (p.1 + 1) p.2 := by
  simp [cellsOf, List.map_flatMap, List.flatMap_map, Function.comp_def]

theorem sel_cells_x1 {α : Type} (F : Nat → Nat → α) (a b : Nat) :
    ((List.range a).flatMap fun y => ((List.range b).map fun j => j + 1).map fun x => F y x)
      = (cellsOf a b).map fun p => F p.1 (p.2 + 1) := by
  simp [cellsOf, List.map_flatMap, Function.comp_def]

theorem zipWith_map_same {α β γ δ : Type} (f : β → γ → δ) (a : α → β) (b : α → γ) (l : List α) :
    List.zipWith f (l.map a) (l.map b) = l.map fun i => f (a i) (b i) := by
  rw [List.zipWith_map, List.zipWith_self]

theorem cellsOf_length (a b : Nat) : (cellsOf a b).length = a * b := C12Conv.grid_length a b

def ne0 (pb : Problem) : List Expr := (List.range (N pb)).map fun i => Expr.node .ne [.ivar i, .litI 0]

theorem ne0_eq (pb : Problem) :
    binop .ne (.arr2 false pb.height pb.width (ivars 0 (N pb))) (.scalar (.litI 0))
      = .ok (.arr2 true pb.height pb.width (ne0 pb)) := by
  rw [ivars_zero, binop_cmp_int_arr2_lit .ne .ne (Or.inr ⟨rfl, rfl⟩) _ _ _ (by simp [N]), List.map_map]
  rfl

theorem def_eq (pb : Problem) :
    binop .eq (.arr2 true pb.height pb.width (bvars (wb pb) (N pb))) (.arr2 true pb.height pb.width (ne0 pb))
      = .ok (.arr2 true pb.height pb.width (c1 pb)) := by
  rw [bvars_eq, ne0, binop_eq_bool_arr2 _ _ _ _ (by simp [N]) (by simp [N]), zipWith_map_same]
  rfl

theorem ens_c1 (pb : Problem) : ensureV (.arr2 true pb.height pb.width (c1 pb)) = .ok (c1 pb) :=
  ensureV_arr2 _ _ _ _ (by
    intro e he
    simp only [c1, List.mem_map] at he
    obtain ⟨i, _, rfl⟩ := he
    rfl)

theorem sameIsland_v {pb : Problem} (_hwf : WellFormed pb) :
    sameIsland (.arr2 true pb.height pb.width (bvars (wb pb) (N pb)))
      (.arr2 false pb.height pb.width (ivars 0 (N pb))) 2 1
      (.pair (sl none (some (-1))) fullSlice) (.pair (sl (some 1) none) fullSlice) = .ok (c2 pb) := by
  unfold sameIsland sl
  have hconv := C12Conv.conv2d_eq (whites pb) pb.height pb.width 2 1 .and_ .and rfl (whites_length pb)
  have hw : bvars (wb pb) (N pb) = whites pb := rfl
  rw [hw]
  have e2 : ((2 : Nat) : Int) = 2 := rfl
  have e1 : ((1 : Nat) : Int) = 1 := rfl
  rw [e2, e1] at hconv
  rw [hconv, ok_bind, ivars_zero]
  have hN : N pb = pb.height * pb.width := rfl
  rw [hN]
  rw [getitemV_slices false Expr.ivar pb.height pb.width _ _ _ _ (axisSel_upto _) (axisSel_full _)
    (by intro y hy; simp at hy; omega) (by intro x hx; simpa using hx), ok_bind]
  rw [getitemV_slices false Expr.ivar pb.height pb.width _ _ _ _ (axisSel_from1 _) (axisSel_full _)
    (by intro y hy; simp at hy; obtain ⟨a, ha, rfl⟩ := hy; omega) (by intro x hx; simpa using hx), ok_bind]
  simp only [List.length_range, List.length_map]
  rw [sel_cells, sel_cells_y1]
  rw [binop_cmp_int_arr2 .eq .eq (Or.inl ⟨rfl, rfl⟩) _ _ _ _ (by simp [cellsOf_length]) (by simp [cellsOf_length]),
    ok_bind, zipWith_map_same]
  have h1 : pb.height + 1 - 2 = pb.height - 1 := by omega
  have h2 : pb.width + 1 - 1 = pb.width := by omega
  rw [h1, h2]
  rw [callM_then_arr2 _ _ _ _ (by simp [C12Conv.convCells, C12Conv.grid_length]) (by simp [cellsOf_length]), ok_bind]
  have hg : C12Conv.grid (pb.height - 1) pb.width = cellsOf (pb.height - 1) pb.width := rfl
  unfold C12Conv.convCells
  rw [hg, zipWith_map_same]
  rw [ensureV_arr2 _ _ _ _ (by
    intro e he
    simp only [List.mem_map] at he
    obtain ⟨i, _, rfl⟩ := he
    rfl)]
  rfl

theorem sameIsland_h {pb : Problem} (_hwf : WellFormed pb) :
    sameIsland (.arr2 true pb.height pb.width (bvars (wb pb) (N pb)))
      (.arr2 false pb.height pb.width (ivars 0 (N pb))) 1 2
      (.pair fullSlice (sl none (some (-1)))) (.pair fullSlice (sl (some 1) none)) = .ok (c3 pb) := by
  unfold sameIsland sl
  have hconv := C12Conv.conv2d_eq (whites pb) pb.height pb.width 1 2 .and_ .and rfl (whites_length pb)
  have hw : bvars (wb pb) (N pb) = whites pb := rfl
  rw [hw]
  have e2 : ((2 : Nat) : Int) = 2 := rfl
  have e1 : ((1 : Nat) : Int) = 1 := rfl
  rw [e2, e1] at hconv
  rw [hconv, ok_bind, ivars_zero]
  have hN : N pb = pb.height * pb.width := rfl
  rw [hN]
  rw [getitemV_slices false Expr.ivar pb.height pb.width _ _ _ _ (axisSel_full _) (axisSel_upto _)
    (by intro y hy; simpa using hy) (by intro x hx; simp at hx; omega), ok_bind]
  rw [getitemV_slices false Expr.ivar pb.height pb.width _ _ _ _ (axisSel_full _) (axisSel_from1 _)
    (by intro y hy; simpa using hy) (by intro x hx; simp at hx; obtain ⟨a, ha, rfl⟩ := hx; omega), ok_bind]
  simp only [List.length_range, List.length_map]
  rw [sel_cells, sel_cells_x1]
  rw [binop_cmp_int_arr2 .eq .eq (Or.inl ⟨rfl, rfl⟩) _ _ _ _ (by simp [cellsOf_length]) (by simp [cellsOf_length]),
    ok_bind, zipWith_map_same]
  have h1 : pb.height + 1 - 1 = pb.height := by omega
  have h2 : pb.width + 1 - 2 = pb.width - 1 := by omega
  rw [h1, h2]
  rw [callM_then_arr2 _ _ _ _ (by simp [C12Conv.convCells, C12Conv.grid_length]) (by simp [cellsOf_length]), ok_bind]
  have hg : C12Conv.grid pb.height (pb.width - 1) = cellsOf pb.height (pb.width - 1) := rfl
  unfold C12Conv.convCells
  rw [hg, zipWith_map_same]
  rw [ensureV_arr2 _ _ _ _ (by
    intro e he
    simp only [List.mem_map] at he
    obtain ⟨i, _, rfl⟩ := he
    rfl)]
  rfl

theorem block_eq (pb : Problem) :
    conv2d (.arr2 true pb.height pb.width (bvars (wb pb) (N pb))) 2 2 .or_
      = .ok (.arr2 true (pb.height - 1) (pb.width - 1) (c4 pb)) := by
  have hconv := C12Conv.conv2d_eq (whites pb) pb.height pb.width 2 2 .or_ .or rfl (whites_length pb)
  have hw : bvars (wb pb) (N pb) = whites pb := rfl
  rw [hw]
  have e2 : ((2 : Nat) : Int) = 2 := rfl
  rw [e2] at hconv
  rw [hconv]
  have h1 : pb.height + 1 - 2 = pb.height - 1 := by omega
  have h2 : pb.width + 1 - 2 = pb.width - 1 := by omega
  rw [h1, h2]
  rfl

theorem ens_c4 (pb : Problem) : ensureV (.arr2 true (pb.height - 1) (pb.width - 1) (c4 pb)) = .ok (c4 pb) :=
  ensureV_arr2 _ _ _ _ (by
    intro e he
    simp only [c4, List.mem_map] at he
    obtain ⟨i, _, rfl⟩ := he
    rfl)

def mask (pb : Problem) (r : Int) : List Expr := (List.range (N pb)).map fun i => Expr.node .eq [.ivar i, .litI r]

theorem mask_eq (pb : Problem) (r : Int) :
    binop .eq (.arr2 false pb.height pb.width (ivars 0 (N pb))) (.scalar (.litI r))
      = .ok (.arr2 true pb.height pb.width (mask pb r)) := by
  rw [ivars_zero, binop_cmp_int_arr2_lit .eq .eq (Or.inl ⟨rfl, rfl⟩) _ _ _ (by simp [N]), List.map_map]
  rfl

theorem count_mask (pb : Problem) (r : Int) :
    countTrueA [.leaf (.arr2 true pb.height pb.width (mask pb r))] = .ok (regionCount pb r) :=
  countTrueA_arr2 _ _ _ (by
    intro e he
    simp only [mask, List.mem_map] at he
    obtain ⟨i, _, rfl⟩ := he
    rfl)

theorem clueCs_eq (pb : Problem) (ic : (Nat × Nat × Int) × Nat) :
    clueCs pb (.arr2 false pb.height pb.width (ivars 0 (N pb))) ic = .ok (c5At pb ic) := by
  unfold clueCs c5At
  simp only
  by_cases h1 : ic.1.2.2 > 0
  · rw [if_pos h1, if_pos h1, mask_eq, ok_bind, count_mask, ok_bind]
    simp only [regionCount]
    rw [binop_cmp_countTrueE .eq .eq (Or.inl ⟨rfl, rfl⟩), ok_bind]
    exact ensureV_scalar _ rfl
  · rw [if_neg h1, if_neg h1]
    by_cases h2 : ic.1.2.2 = -1
    · have h2' : (ic.1.2.2 == -1) = true := by simp [h2]
      rw [if_pos h2', if_pos h2]
      cases hl : pb.unknownLow with
      | none => rfl
      | some low =>
        simp only
        rw [mask_eq, ok_bind, count_mask, ok_bind]
        simp only [regionCount]
        rw [binop_cmp_countTrueE .ge .ge (Or.inr (Or.inl ⟨rfl, rfl⟩)), ok_bind]
        exact ensureV_scalar _ rfl
    · have h2' : (ic.1.2.2 == -1) = false := by simp [h2]
      rw [if_neg (by simp [h2']), if_neg h2]

/-! ### keys -/

theorem addKeys_offset (b : Nat) : ∀ (k m : Nat),
    ((List.range' m k).map fun i => Expr.bvar (b + i)).foldlM (fun (acc : List Nat) (x : Expr) =>
      match isVarExpr x with
      | none => (.error .typeError : Py (List Nat))
      | some id => if acc.contains id then .error .valueError else .ok (acc ++ [id]))
        ((List.range m).map fun i => b + i)
      = .ok ((List.range (m + k)).map fun i => b + i)
  | 0, m => rfl
  | k + 1, m => by
    simp only [List.range'_succ, List.map_cons, List.foldlM_cons, C11Grid.isVarExpr_bvar, bind, Except.bind]
    have : ((List.range m).map fun i => b + i).contains (b + m) = false := by
      rw [List.contains_eq_mem]
      simp
    rw [this]
    simp only [Bool.false_eq_true, if_false]
    have hs : ((List.range m).map fun i => b + i) ++ [b + m] = (List.range (m + 1)).map fun i => b + i := by
      rw [List.range_succ, List.map_append]; rfl
    rw [hs, addKeys_offset b k (m + 1)]
    have : m + 1 + k = m + (k + 1) := by omega
    rw [this]

def keyList (pb : Problem) : List Nat := (List.range (N pb)).map fun i => wb pb + i

theorem addKeys_whites (pb : Problem) :
    addKeysV (.arr2 true pb.height pb.width (bvars (wb pb) (N pb))) [] = .ok (keyList pb) := by
  have := addKeys_offset (wb pb) (N pb) 0
  simp only [List.range_zero, List.map_nil, Nat.zero_add] at this
  simp only [addKeysV, PyV.flat, bvars_eq, keyList]
  rw [List.range_eq_range']
  rw [List.range_eq_range'] at this
  exact this

/-! ### the whole program -/

theorem root_lt {pb : Problem} (c r : Nat) (h : (rootsOf pb)[c]? = some (some r)) : r < N pb := by
  unfold rootsOf at h
  cases c with
  | zero => simp at h
  | succ c =>
    simp only [List.getElem?_cons_succ, List.getElem?_map] at h
    cases hc : (clueList pb)[c]? with
    | none => simp [hc] at h
    | some t =>
      simp only [hc, Option.map_some, Option.some.injEq] at h
      have hm : t ∈ clueList pb := List.mem_of_getElem? hc
      simp only [clueList, List.mem_flatMap] at hm
      obtain ⟨p, hp, ht⟩ := hm
      obtain ⟨hy, hx⟩ := mem_cellsOf.1 hp
      unfold clueAt at ht
      split at ht
      · simp only [List.mem_singleton] at ht
        subst ht
        subst h
        exact C11Grid.cell_lt hy hx
      · simp at ht

theorem dvs_isIntLike (pb : Problem) : ∀ i (h : i < (dvs pb).length), (dvs pb)[i].isIntLike = true := by
  intro i h
  simp [dvs, Expr.isIntLike]

theorem dc_eq {pb : Problem} (hwf : WellFormed pb) :
    divisionConnected (Graph.grid pb.height pb.width) (ivars 0 (N pb)) (K pb + 1) (some (rootsOf pb)) false false (N pb)
      = .ok (dc pb) := by
  rw [ivars_zero]
  exact C05L1.div_eq_prog (Nat.mul_pos hwf.1 hwf.2.1) (C04Prim.grid_wf _ _) (by simp [N, Graph.grid])
    (dvs_isIntLike pb) (fun c r h => by
      have := root_lt (pb := pb) c r (by simpa using h)
      simpa [dvs] using this)

/-- The posted program. -/
def prog (pb : Problem) : PuzzleProg :=
  { decls := List.replicate (N pb) (.int 0 (K pb : Int)) ++ (dc pb).decls ++ List.replicate (N pb) .bool,
    cs := (dc pb).cs ++ loc pb, keys := keyList pb }

theorem program_eq {pb : Problem} (hwf : WellFormed pb) : program pb = .ok (prog pb) := by
  unfold program programWith
  simp only
  rw [clues_eq hwf, ok_bind]
  have hd0 : intArrayDecls (pb.height * pb.width) 0 ((clueList pb).length : Int)
      = .ok (List.replicate (N pb) (.int 0 (K pb : Int))) := by
    unfold intArrayDecls
    rw [if_neg (by omega)]
    rfl
  rw [hd0, ok_bind]
  have hdc := dc_eq hwf
  simp only [N, K, rootsOf] at hdc
  rw [hdc, ok_bind]
  have h1 := ne0_eq pb
  have h1' := def_eq pb
  have hk := addKeys_whites pb
  have h2 := sameIsland_v hwf
  have h3 := sameIsland_h hwf
  have h4 := block_eq pb
  simp only [N, wb] at h1 h1' hk h2 h3 h4
  rw [h1, ok_bind, h1', ok_bind, ens_c1, ok_bind, hk, ok_bind, h2, ok_bind, h3, ok_bind, h4, ok_bind, ens_c4, ok_bind]
  have h5 : (clueList pb).zipIdx.mapM (clueCs pb (.arr2 false pb.height pb.width (ivars 0 (pb.height * pb.width))))
      = .ok ((clueList pb).zipIdx.map (c5At pb)) :=
    mapM_eq_ok_map (fun ic _ => clueCs_eq pb ic)
  rw [h5, ok_bind]
  simp only [prog, loc, c5, List.flatMap_def, List.append_assoc, N]

end Cspuz.Proofs.C11NurikabeA
