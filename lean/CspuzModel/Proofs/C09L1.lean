/-
  C09, layer L1: the program emitted by `active_edges_acyclic` is realizable iff an arithmetic
  certificate `ForestCert` exists.
-/
import CspuzModel.Proofs.EvalLemmas
import CspuzModel.Spec.Certs
namespace Cspuz.Proofs.C09L1
open Cspuz Cspuz.Spec Cspuz.Proofs

/-- Closed form of the per-entry items of vertex `i`: `((rank[j] < rank[i]) & is_active_edge[e],
[rank[i] != rank[j]] if i < j)`. -/
def itemsE (g : Graph) (ie : List Expr) (base i : Nat) : List (Expr × List Expr) :=
  (g.incident i).map fun je =>
    (.node .and [.node .lt [.ivar (base + je.1), .ivar (base + i)], ie.getD je.2 .litNone],
     if i < je.1 then [Expr.node .ne [.ivar (base + i), .ivar (base + je.1)]] else [])

/-- Closed form of the constraints emitted for vertex `i`. -/
def forestCs (g : Graph) (ie : List Expr) (base i : Nat) : List Expr :=
  (itemsE g ie base i).flatMap (·.2) ++
    [.node .le [countTrueE ((itemsE g ie base i).map (·.1)), .litI 1]]

/-- Closed form of the emitted program. -/
def forestProg (g : Graph) (ie : List Expr) (base : Nat) : Prog :=
  { decls := List.replicate g.n (.int 0 ((g.n : Int) - 1)),
    cs := ((List.range g.n).map (forestCs g ie base)).flatten }

theorem forest_eq_prog {g : Graph} {ie : List Expr} {base : Nat}
    (hn : 0 < g.n) (hwf : g.wf = true) (hlen : ie.length = g.edges.length) (hie : BoolArgs base ie) :
    activeEdgesAcyclic g ie base = .ok (forestProg g ie base) := by
  unfold activeEdgesAcyclic
  have hdecl : intArrayDecls g.n 0 ((g.n : Int) - 1) = .ok (List.replicate g.n (.int 0 ((g.n : Int) - 1))) := by
    unfold intArrayDecls; rw [if_neg (by omega)]
  simp only
  rw [hdecl, ok_bind]
  rw [mapM_eq_ok_map (g := forestCs g ie base), ok_bind]
  · rfl
  · intro i _
    rw [mapM_eq_ok_map (g := fun je =>
      ((.node .and [.node .lt [.ivar (base + je.1), .ivar (base + i)], ie.getD je.2 .litNone],
        if i < je.1 then [Expr.node .ne [.ivar (base + i), .ivar (base + je.1)]] else []) : Expr × List Expr))]
    · rw [ok_bind]
      have hct := countTrue_ok_of_boolLike (xs := (itemsE g ie base i).map (·.1)) (by
        intro x hx
        simp only [itemsE, List.map_map, List.mem_map] at hx
        obtain ⟨je, _, rfl⟩ := hx
        rfl)
      unfold itemsE at hct
      rw [hct, ok_bind]
      rfl
    · intro je hje
      have hb := incident_bounds hwf hje
      have hj : je.2 < ie.length := by omega
      rw [getE_eq_ok hj, ok_bind]
      have hgd : ie.getD je.2 .litNone = ie[je.2] := by simp [List.getD, List.getElem?_eq_getElem hj]
      rw [hgd, andPy_node rfl (boolArg_isBoolLike hie hj), ok_bind]

theorem forest_ok_pos {g : Graph} {ie : List Expr} {base : Nat} {p : Prog}
    (hp : activeEdgesAcyclic g ie base = .ok p) : 0 < g.n := by
  unfold activeEdgesAcyclic at hp
  simp only [bind_eq_ok] at hp
  obtain ⟨a, ha, _⟩ := hp
  unfold intArrayDecls at ha
  split at ha
  · cases ha
  · omega

/-! ### meaning of the emitted constraints under an extension `σ'` of `σ` -/

/-- ranks read off an assignment -/
def rk (σ' : Asg) (base : Nat) (i : Nat) : Int := σ'.i (base + i)

section Sem
variable {g : Graph} {ie : List Expr} {base : Nat} {σ σ' : Asg}

theorem eval_items (hwf : g.wf = true) (hlen : ie.length = g.edges.length) (hie : BoolArgs base ie)
    (hag : AgreeBelow base σ σ') (i : Nat) :
    ((itemsE g ie base i).map (·.1)).map (eval σ') =
      ((g.incident i).map (fun je => decide (rk σ' base je.1 < rk σ' base i) && truthAt σ ie je.2)).map
        (fun b => some (.b b)) := by
  unfold itemsE
  rw [List.map_map, List.map_map, List.map_map]
  apply List.map_congr_left
  intro je hje
  have hb := incident_bounds hwf hje
  have hj : je.2 < ie.length := by omega
  have hgd : ie.getD je.2 .litNone = ie[je.2] := by simp [List.getD, List.getElem?_eq_getElem hj]
  simp only [Function.comp, hgd]
  rw [eval_and2 (eval_cmp rfl (eval_ivar ..) (eval_ivar ..)) (eval_boolArg hie hag hj)]
  rfl

theorem eval_ct (hwf : g.wf = true) (hlen : ie.length = g.edges.length) (hie : BoolArgs base ie)
    (hag : AgreeBelow base σ σ') (i : Nat) :
    eval σ' (countTrueE ((itemsE g ie base i).map (·.1))) =
      some (.i ((countInc g i (fun je => decide (rk σ' base je.1 < rk σ' base i) && truthAt σ ie je.2) : Nat))) := by
  rw [eval_countTrueE _ (eval_items hwf hlen hie hag i)]
  congr 3
  rw [List.count_eq_countP, List.countP_map, List.countP_eq_length_filter]
  unfold countInc
  congr 1; apply List.filter_congr; intro x _; simp

theorem mem_items_ne {i : Nat} {c : Expr} :
    c ∈ (itemsE g ie base i).flatMap (·.2) ↔
      ∃ je ∈ g.incident i, i < je.1 ∧ c = .node .ne [.ivar (base + i), .ivar (base + je.1)] := by
  unfold itemsE
  simp only [List.mem_flatMap, List.mem_map]
  constructor
  · rintro ⟨x, ⟨je, hje, rfl⟩, h⟩
    simp only at h
    split at h
    · simp at h; exact ⟨je, hje, by assumption, h⟩
    · simp at h
  · rintro ⟨je, hje, h, rfl⟩
    exact ⟨_, ⟨je, hje, rfl⟩, by simp [h]⟩

theorem sat_forestCs (hwf : g.wf = true) (hlen : ie.length = g.edges.length) (hie : BoolArgs base ie)
    (hag : AgreeBelow base σ σ') (i : Nat) :
    (∀ c ∈ forestCs g ie base i, eval σ' c = some (.b true)) ↔
      (∀ je ∈ g.incident i, i < je.1 → rk σ' base i ≠ rk σ' base je.1) ∧
      countInc g i (fun je => decide (rk σ' base je.1 < rk σ' base i) && truthAt σ ie je.2) ≤ 1 := by
  have hct := eval_ct hwf hlen hie hag i
  have hne : ∀ je : Nat × Nat, eval σ' (.node .ne [.ivar (base + i), .ivar (base + je.1)]) =
      some (.b (rk σ' base i != rk σ' base je.1)) := fun je =>
    eval_cmp rfl (eval_ivar ..) (eval_ivar ..)
  have hle := eval_cmp (op := .le) rfl hct (eval_litI σ' 1)
  unfold forestCs
  simp only [List.mem_append, List.mem_singleton]
  constructor
  · intro h
    constructor
    · intro je hje hlt
      have := h _ (.inl (mem_items_ne.2 ⟨je, hje, hlt, rfl⟩))
      rw [hne] at this
      simpa using this
    · have := h _ (.inr rfl)
      rw [hle] at this
      simp at this
      omega
  · rintro ⟨h1, h2⟩ c hc
    rcases hc with hc | rfl
    · obtain ⟨je, hje, hlt, rfl⟩ := mem_items_ne.1 hc
      rw [hne]
      simpa using h1 je hje hlt
    · rw [hle]
      simp; omega

theorem satFrag_forestProg_iff (hwf : g.wf = true) (hlen : ie.length = g.edges.length)
    (hie : BoolArgs base ie) (hag : AgreeBelow base σ σ') :
    SatFrag base (forestProg g ie base) σ' ↔
      (∀ i, i < g.n → 0 ≤ rk σ' base i ∧ rk σ' base i ≤ (g.n : Int) - 1) ∧
      (∀ i, i < g.n →
        (∀ je ∈ g.incident i, i < je.1 → rk σ' base i ≠ rk σ' base je.1) ∧
        countInc g i (fun je => decide (rk σ' base je.1 < rk σ' base i) && truthAt σ ie je.2) ≤ 1) := by
  unfold SatFrag forestProg
  simp only
  have hd := sat_rank_decls (n := g.n) (lo := 0) (hi := (g.n : Int) - 1) (rest := [])
    (by intro d hd; cases hd) (rk σ' base)
  rw [List.append_nil] at hd
  refine and_congr hd ?_
  simp only [List.mem_flatten, List.mem_map, List.mem_range]
  constructor
  · intro h i hi
    rw [← sat_forestCs hwf hlen hie hag i]
    intro c hc
    exact h c ⟨forestCs g ie base i, ⟨i, hi, rfl⟩, hc⟩
  · rintro h c ⟨l, ⟨i, hi, rfl⟩, hc⟩
    exact (sat_forestCs hwf hlen hie hag i).2 (h i hi) c hc

end Sem

/-! ### main theorems -/

/-- Extension of `σ` by the certificate's ranks. -/
def extend (σ : Asg) (base : Nat) (rank : Nat → Int) : Asg where
  i := fun id => if base ≤ id then rank (id - base) else σ.i id
  b := σ.b

theorem extend_agree (σ : Asg) (base : Nat) (rank : Nat → Int) :
    AgreeBelow base σ (extend σ base rank) := by
  intro id hid
  refine ⟨rfl, ?_⟩
  simp only [extend]
  rw [if_neg (by omega)]

theorem rk_extend (σ : Asg) (base : Nat) (rank : Nat → Int) : rk (extend σ base rank) base = rank := by
  funext i; simp [rk, extend]

theorem forest_realizable_iff_cert (g : Graph) (ie : List Expr) (base : Nat) (p : Prog) (σ : Asg)
    (hwf : g.wf = true) (hlen : ie.length = g.edges.length) (hie : BoolArgs base ie)
    (hp : activeEdgesAcyclic g ie base = .ok p) :
    Realizable base p σ ↔ Nonempty (ForestCert g (truthAt σ ie)) := by
  have hn := forest_ok_pos hp
  rw [forest_eq_prog hn hwf hlen hie] at hp
  cases hp
  constructor
  · rintro ⟨σ', hag, hs⟩
    obtain ⟨hb, hloc⟩ := (satFrag_forestProg_iff hwf hlen hie hag).1 hs
    exact ⟨{ rank := rk σ' base,
             rank_lo := fun i hi => (hb i hi).1, rank_hi := fun i hi => (hb i hi).2,
             distinct := fun i hi => (hloc i hi).1, loc := fun i hi => (hloc i hi).2 }⟩
  · rintro ⟨c⟩
    refine ⟨extend σ base c.rank, extend_agree _ _ _, ?_⟩
    rw [satFrag_forestProg_iff hwf hlen hie (extend_agree _ _ _), rk_extend]
    exact ⟨fun i hi => ⟨c.rank_lo i hi, c.rank_hi i hi⟩, fun i hi => ⟨c.distinct i hi, c.loc i hi⟩⟩

theorem total (g : Graph) (ie : List Expr) (base : Nat) :
    0 < g.n → g.wf = true → ie.length = g.edges.length → BoolArgs base ie →
    ∃ p, activeEdgesAcyclic g ie base = .ok p :=
  fun hn hwf hlen hie => ⟨_, forest_eq_prog hn hwf hlen hie⟩

end Cspuz.Proofs.C09L1
