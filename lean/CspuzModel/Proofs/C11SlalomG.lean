/-
  C11 for `solve_slalom`, part 4: directed steps - the geometry behind the in- / out-degree constraints.
-/
import CspuzModel.Proofs.C11SlalomS
namespace Cspuz.Proofs.C11SlalomG
open Cspuz Cspuz.Spec Cspuz.Spec.FrameGeom Cspuz.Spec.Loop Cspuz.Proofs Cspuz.Proofs.C11Loop
open Cspuz.Puzzles Cspuz.Puzzles.Loop Cspuz.Puzzles.Slalom Cspuz.Spec.Slalom Cspuz.Proofs.C11SlalomP
open Cspuz.Proofs.C11SlalomS

/-! ### counting -/

theorem countP_one_unique {α} (P : α → Bool) : ∀ (l : List α), l.countP P = 1 →
    ∀ a b, a ∈ l → b ∈ l → P a = true → P b = true → a = b
  | [], h, _, _, _, _, _, _ => by simp at h
  | x :: l, h, a, b, ha, hb, pa, pb => by
    rw [List.countP_cons] at h
    by_cases hx : P x = true
    · simp only [hx, if_true] at h
      have h0 : l.countP P = 0 := by omega
      have hn : ∀ c ∈ l, ¬ P c = true := by
        intro c hc
        exact (List.countP_eq_zero.mp h0) c hc
      have ha' : a = x := by
        rcases List.mem_cons.mp ha with h1 | h1
        · exact h1
        · exact absurd pa (hn a h1)
      have hb' : b = x := by
        rcases List.mem_cons.mp hb with h1 | h1
        · exact h1
        · exact absurd pb (hn b h1)
      rw [ha', hb']
    · simp only [hx, Bool.false_eq_true, if_false, Nat.add_zero] at h
      have ha' : a ∈ l := by
        rcases List.mem_cons.mp ha with h1 | h1
        · subst h1; exact absurd pa hx
        · exact h1
      have hb' : b ∈ l := by
        rcases List.mem_cons.mp hb with h1 | h1
        · subst h1; exact absurd pb hx
        · exact h1
      exact countP_one_unique P l h a b ha' hb' pa pb

theorem countP_one_exists {α} (P : α → Bool) (l : List α) (h : l.countP P = 1) : ∃ a ∈ l, P a = true := by
  have : 0 < l.countP P := by omega
  exact List.countP_pos_iff.mp this

theorem countP_eq_one_of_unique {α} (P : α → Bool) : ∀ (l : List α), l.Nodup → ∀ a, a ∈ l → P a = true →
    (∀ b ∈ l, P b = true → b = a) → l.countP P = 1
  | [], _, a, ha, _, _ => by simp at ha
  | x :: l, hnd, a, ha, pa, hu => by
    rw [List.countP_cons]
    have hnd' := List.nodup_cons.mp hnd
    by_cases hx : x = a
    · subst hx
      have h0 : l.countP P = 0 := by
        rw [List.countP_eq_zero]
        intro c hc pc
        have := hu c (List.mem_cons_of_mem _ hc) pc
        subst this
        exact hnd'.1 hc
      simp [pa, h0]
    · have ha' : a ∈ l := by
        rcases List.mem_cons.mp ha with h1 | h1
        · exact absurd h1.symm hx
        · exact h1
      have hpx : ¬ P x = true := fun h => hx (hu x List.mem_cons_self h)
      simp only [hpx, Bool.false_eq_true, if_false, Nat.add_zero]
      exact countP_eq_one_of_unique P l hnd'.2 a ha' pa (fun b hb => hu b (List.mem_cons_of_mem _ hb))

/-! ### segments and their end points -/

theorem ends_inj {s t : Seg} (h : s.ends = t.ends) : s = t := by
  cases s <;> cases t <;> simp only [Seg.ends, Prod.mk.injEq] at h
  · obtain ⟨⟨h1, h2⟩, _⟩ := h; subst h1; subst h2; rfl
  · omega
  · omega
  · obtain ⟨⟨h1, h2⟩, _⟩ := h; subst h1; subst h2; rfl

theorem ends_asym {s t : Seg} {p q : Pt} (hs : s.ends = (p, q)) (ht : t.ends = (q, p)) : False := by
  cases s <;> cases t <;> simp only [Seg.ends, Prod.mk.injEq] at hs ht <;>
    (obtain ⟨h1, h2⟩ := hs; obtain ⟨h3, h4⟩ := ht; subst h1; subst h2;
     simp only [Prod.mk.injEq] at h3 h4; omega)

theorem ends_ne {s : Seg} {p : Pt} (hs : s.ends = (p, p)) : False := by
  cases s <;> simp only [Seg.ends, Prod.mk.injEq] at hs <;> (obtain ⟨h1, h2⟩ := hs; subst h1; simp only [Prod.mk.injEq] at h2; omega)

/-- A segment of the lattice appears in the neighbour lists of both of its end points. -/
theorem seg_in_nbInfo {h w : Nat} (h1 : 1 ≤ h) (h2 : 1 ≤ w) {s : Seg} (hs : s.Valid (h - 1) (w - 1)) {a b : Pt}
    (he : s.ends = (a, b)) :
    a.1 < h ∧ a.2 < w ∧ b.1 < h ∧ b.2 < w ∧
    (b, s, false) ∈ nbInfo h w a.1 a.2 ∧ (a, s, true) ∈ nbInfo h w b.1 b.2 := by
  cases s with
  | h y x =>
    simp only [Seg.ends, Prod.mk.injEq] at he
    obtain ⟨rfl, rfl⟩ := he
    obtain ⟨hy, hx⟩ := hs
    refine ⟨by simp only []; omega, by simp only []; omega, by simp only []; omega, by simp only []; omega, ?_, ?_⟩
    · rw [mem_nbInfo]; right; right; right; exact ⟨by simp only []; omega, rfl⟩
    · rw [mem_nbInfo]; right; right; left
      refine ⟨by simp only []; omega, ?_⟩
      simp
  | v y x =>
    simp only [Seg.ends, Prod.mk.injEq] at he
    obtain ⟨rfl, rfl⟩ := he
    obtain ⟨hy, hx⟩ := hs
    refine ⟨by simp only []; omega, by simp only []; omega, by simp only []; omega, by simp only []; omega, ?_, ?_⟩
    · rw [mem_nbInfo]; right; left; exact ⟨by simp only []; omega, rfl⟩
    · rw [mem_nbInfo]; left
      refine ⟨by simp only []; omega, ?_⟩
      simp

theorem nbInfo_nodup (h w y x : Nat) : ((nbInfo h w y x).map (·.1)).Nodup := by
  unfold nbInfo
  split_ifs <;> simp <;> omega

theorem nbInfo_nodup' (h w y x : Nat) : (nbInfo h w y x).Nodup :=
  List.Nodup.of_map _ (nbInfo_nodup h w y x)

theorem nbInfo_fst_inj {h w y x : Nat} {i j : Pt × Seg × Bool} (hi : i ∈ nbInfo h w y x) (hj : j ∈ nbInfo h w y x)
    (hij : i.1 = j.1) : i = j :=
  List.inj_on_of_nodup_map (nbInfo_nodup h w y x) hi hj hij

/-! ### directed steps -/

section
variable (pb : Problem) (σ : Asg)

local notation "HH" => pb.height - 1
local notation "WW" => pb.width - 1

/-- The step from `p` to `q` is drawn and directed from `p` to `q` (`loop_dir = True`: from the later to the earlier
cell in row-major order). -/
def goes (p q : Pt) : Prop :=
  ∃ s : Seg, s.Valid HH WW ∧ onS pb σ s = true ∧
    ((s.ends = (p, q) ∧ dirS pb σ s = false) ∨ (s.ends = (q, p) ∧ dirS pb σ s = true))

theorem goes_asymm {p q : Pt} (h1 : goes pb σ p q) (h2 : goes pb σ q p) : False := by
  obtain ⟨s, _, _, hs⟩ := h1
  obtain ⟨t, _, _, ht⟩ := h2
  rcases hs with ⟨e1, d1⟩ | ⟨e1, d1⟩ <;> rcases ht with ⟨e2, d2⟩ | ⟨e2, d2⟩
  · exact ends_asym e1 e2
  · have := ends_inj (e1.trans e2.symm); subst this; rw [d1] at d2; cases d2
  · have := ends_inj (e1.trans e2.symm); subst this; rw [d1] at d2; cases d2
  · exact ends_asym e2 e1

theorem goes_ne {p q : Pt} (h : goes pb σ p q) : p ≠ q := by
  rintro rfl
  obtain ⟨s, _, _, hs⟩ := h
  rcases hs with ⟨e, _⟩ | ⟨e, _⟩ <;> exact ends_ne e

theorem goes_stepOn {p q : Pt} (h : goes pb σ p q) : stepOn HH WW (onOf HH WW σ) p q := by
  obtain ⟨s, hv, ho, hs⟩ := h
  refine ⟨s, hv, ho, ?_⟩
  rcases hs with ⟨e, _⟩ | ⟨e, _⟩
  · exact Or.inl e
  · exact Or.inr e

theorem stepOn_goes {p q : Pt} (h : stepOn HH WW (onOf HH WW σ) p q) : goes pb σ p q ∨ goes pb σ q p := by
  obtain ⟨s, hv, ho, hs⟩ := h
  cases hd : dirS pb σ s
  · rcases hs with e | e
    · exact Or.inl ⟨s, hv, ho, Or.inl ⟨e, hd⟩⟩
    · exact Or.inr ⟨s, hv, ho, Or.inl ⟨e, hd⟩⟩
  · rcases hs with e | e
    · exact Or.inr ⟨s, hv, ho, Or.inr ⟨e, hd⟩⟩
    · exact Or.inl ⟨s, hv, ho, Or.inr ⟨e, hd⟩⟩

theorem stepOn_symm {H W : Nat} {on : Seg → Bool} {p q : Pt} (h : stepOn H W on p q) : stepOn H W on q p := by
  obtain ⟨s, hv, ho, hs⟩ := h
  exact ⟨s, hv, ho, hs.symm⟩

/-- The in- / out-flags of a neighbour entry are the directed steps. -/
theorem inb_iff {y x : Nat} (hy : y < pb.height) (hx : x < pb.width) {i : Pt × Seg × Bool}
    (hi : i ∈ nbInfo pb.height pb.width y x) : inb pb σ i = true ↔ goes pb σ i.1 (y, x) := by
  obtain ⟨hv, _, _, _, _, hends⟩ := nbInfo_spec hy hx hi
  unfold inb
  rw [Bool.and_eq_true]
  constructor
  · rintro ⟨ho, hd⟩
    refine ⟨i.2.1, hv, ho, ?_⟩
    cases hlt : i.2.2
    · rw [hlt] at hends hd
      right
      refine ⟨by simpa using hends, ?_⟩
      cases h : dirS pb σ i.2.1
      · rw [h] at hd; cases hd
      · rfl
    · rw [hlt] at hends hd
      left
      refine ⟨by simpa using hends, ?_⟩
      cases h : dirS pb σ i.2.1
      · rfl
      · rw [h] at hd; cases hd
  · rintro ⟨s, _, ho, hs⟩
    cases hlt : i.2.2
    · rw [hlt] at hends
      have he : i.2.1.ends = ((y, x), i.1) := by simpa using hends
      rcases hs with ⟨e, hd⟩ | ⟨e, hd⟩
      · exact (ends_asym e he).elim
      · have := ends_inj (e.trans he.symm); subst this
        exact ⟨ho, by rw [hd]; rfl⟩
    · rw [hlt] at hends
      have he : i.2.1.ends = (i.1, (y, x)) := by simpa using hends
      rcases hs with ⟨e, hd⟩ | ⟨e, hd⟩
      · have := ends_inj (e.trans he.symm); subst this
        exact ⟨ho, by rw [hd]; rfl⟩
      · exact (ends_asym he e).elim

theorem outb_iff {y x : Nat} (hy : y < pb.height) (hx : x < pb.width) {i : Pt × Seg × Bool}
    (hi : i ∈ nbInfo pb.height pb.width y x) : outb pb σ i = true ↔ goes pb σ (y, x) i.1 := by
  obtain ⟨hv, _, _, _, _, hends⟩ := nbInfo_spec hy hx hi
  unfold outb
  rw [Bool.and_eq_true]
  constructor
  · rintro ⟨ho, hd⟩
    refine ⟨i.2.1, hv, ho, ?_⟩
    cases hlt : i.2.2
    · rw [hlt] at hends hd
      left
      refine ⟨by simpa using hends, ?_⟩
      cases h : dirS pb σ i.2.1
      · rfl
      · rw [h] at hd; cases hd
    · rw [hlt] at hends hd
      right
      refine ⟨by simpa using hends, ?_⟩
      cases h : dirS pb σ i.2.1
      · rw [h] at hd; cases hd
      · rfl
  · rintro ⟨s, _, ho, hs⟩
    cases hlt : i.2.2
    · rw [hlt] at hends
      have he : i.2.1.ends = ((y, x), i.1) := by simpa using hends
      rcases hs with ⟨e, hd⟩ | ⟨e, hd⟩
      · have := ends_inj (e.trans he.symm); subst this
        exact ⟨ho, by rw [hd]; rfl⟩
      · exact (ends_asym he e).elim
    · rw [hlt] at hends
      have he : i.2.1.ends = (i.1, (y, x)) := by simpa using hends
      rcases hs with ⟨e, hd⟩ | ⟨e, hd⟩
      · exact (ends_asym e he).elim
      · have := ends_inj (e.trans he.symm); subst this
        exact ⟨ho, by rw [hd]; rfl⟩

/-- Both ends of a drawn step are cells of the board, and each is in the neighbour list of the other. -/
theorem stepOn_nb (h1 : 1 ≤ pb.height) (h2 : 1 ≤ pb.width) {on : Seg → Bool} {p q : Pt}
    (h : stepOn HH WW on p q) :
    p.1 < pb.height ∧ p.2 < pb.width ∧ q.1 < pb.height ∧ q.2 < pb.width ∧
    (∃ i ∈ nbInfo pb.height pb.width p.1 p.2, i.1 = q ∧ on i.2.1 = true) ∧
    (∃ i ∈ nbInfo pb.height pb.width q.1 q.2, i.1 = p ∧ on i.2.1 = true) := by
  obtain ⟨s, hv, ho, hs⟩ := h
  rcases hs with e | e
  · obtain ⟨a1, a2, a3, a4, a5, a6⟩ := seg_in_nbInfo h1 h2 hv e
    exact ⟨a1, a2, a3, a4, ⟨_, a5, rfl, ho⟩, ⟨_, a6, rfl, ho⟩⟩
  · obtain ⟨a1, a2, a3, a4, a5, a6⟩ := seg_in_nbInfo h1 h2 hv e
    exact ⟨a3, a4, a1, a2, ⟨_, a6, rfl, ho⟩, ⟨_, a5, rfl, ho⟩⟩

end

end Cspuz.Proofs.C11SlalomG
