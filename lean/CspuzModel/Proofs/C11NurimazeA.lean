/-
  C11 / Nurimaze, part A — the program posted by `solve_nurimaze` in closed form (`program_eq`).
-/
import CspuzModel.Spec.PuzzleRules.Nurimaze
import CspuzModel.Proofs.C11CL
import CspuzModel.Proofs.C11Grid
import CspuzModel.Proofs.C11FragWT
import CspuzModel.Proofs.C12Conv
import CspuzModel.Proofs.C04L1
import CspuzModel.Proofs.C04Prim
import CspuzModel.Proofs.C11Norinori
import CspuzModel.Proofs.C11NurimisakiA
namespace Cspuz.Proofs.C11NurimazeA
open Cspuz Cspuz.Spec Cspuz.Puzzles Cspuz.Puzzles.Nurimaze Cspuz.Spec.Nurimaze Cspuz.Proofs

/-! ### table lookup -/

theorem tableGet_ok (t : List (List Int)) (d : Int) {H W y x : Nat} (hlen : t.length = H)
    (hrow : ∀ row ∈ t, row.length = W) (hy : y < H) (hx : x < W) :
    tableGet t (y : Int) (x : Int) = .ok ((t.getD y []).getD x d) := by
  have hy' : y < t.length := by omega
  have hr := hrow _ (List.getElem_mem hy')
  have hx' : x < (t[y]).length := by omega
  simp only [tableGet]
  rw [C13.pyIndex_natCast _ _ hy', List.getElem?_eq_getElem hy']
  simp only [ok_bind]
  rw [C13.pyIndex_natCast _ _ hx', List.getElem?_eq_getElem hx']
  simp [List.getD, List.getElem?_eq_getElem hy', List.getElem?_eq_getElem hx']

/-! ### variables -/

/-- The `is_white` variable of cell `(y, x)`. -/
def wv (w y x : Nat) : Expr := .bvar (y * w + x)

/-- First id of the `path` array: after `is_white` and the ranks and roots of the connectivity encoding. -/
def pbase (pb : Problem) : Nat := 3 * (pb.height * pb.width)

/-- The `i`-th variable of the `path` array. -/
def pf (pb : Problem) (i : Nat) : Expr := .bvar (pbase pb + i)

/-- The `path` variable of cell `(y, x)`. -/
def pv (pb : Problem) (y x : Nat) : Expr := pf pb (y * pb.width + x)

/-- The `is_white` array. -/
def whiteArr (pb : Problem) : PyV := .arr2 true pb.height pb.width ((List.range (pb.height * pb.width)).map Expr.bvar)

/-- The `path` array. -/
def pathArr (pb : Problem) : PyV := .arr2 true pb.height pb.width ((List.range (pb.height * pb.width)).map (pf pb))

/-! ### the 2×2 constraints -/

/-- `a | b | c | d` on the block with top-left cell `(y, x)` (order: `(y,x)`, `(y,x+1)`, `(y+1,x)`, `(y+1,x+1)`). -/
def orBlock (w y x : Nat) : Expr :=
  .node .or [.node .or [.node .or [wv w y x, wv w y (x + 1)], wv w (y + 1) x], wv w (y + 1) (x + 1)]

/-- `~(a & b & c & d)` on the block with top-left cell `(y, x)`. -/
def nandBlock (w y x : Nat) : Expr :=
  .node .not [.node .and [.node .and [.node .and [wv w y x, wv w y (x + 1)], wv w (y + 1) x], wv w (y + 1) (x + 1)]]

/-- The constraints posted by the two `ensure` calls on the shifted slices. -/
def blocks (h w : Nat) : List Expr :=
  ((List.range ((h - 1) * (w - 1))).map fun i => orBlock w (i / (w - 1)) (i % (w - 1))) ++
  ((List.range ((h - 1) * (w - 1))).map fun i => nandBlock w (i / (w - 1)) (i % (w - 1)))

theorem chain_maps (o : BinOp) (op : Op) (ho : (o = .and_ ∧ op = .and) ∨ (o = .or_ ∧ op = .or))
    (H W : Nat) (A B C D : Nat → Expr) :
    chain o (.arr2 true H W ((List.range (H * W)).map A)) (.arr2 true H W ((List.range (H * W)).map B))
        (.arr2 true H W ((List.range (H * W)).map C)) (.arr2 true H W ((List.range (H * W)).map D))
      = .ok (.arr2 true H W ((List.range (H * W)).map fun i =>
          Expr.node op [.node op [.node op [A i, B i], C i], D i])) := by
  unfold chain
  rw [C11NurimisakiA.binop_maps o op ho, ok_bind, C11NurimisakiA.binop_maps o op ho, ok_bind,
    C11NurimisakiA.binop_maps o op ho]

theorem blockCs_eq (h w : Nat) :
    blockCs (.arr2 true h w ((List.range (h * w)).map Expr.bvar)) = .ok (blocks h w) := by
  unfold blockCs
  rw [C11NurimisakiA.slice_eq h w _ _ 0 0 (by omega) (by omega) (by rw [sl, C11CL.axisSel_upto]; simp)
    (by rw [sl, C11CL.axisSel_upto]; simp), ok_bind]
  rw [C11NurimisakiA.slice_eq h w _ _ 0 1 (by omega) (by omega) (by rw [sl, C11CL.axisSel_upto]; simp)
    (by rw [sl, C11CL.axisSel_from1]), ok_bind]
  rw [C11NurimisakiA.slice_eq h w _ _ 1 0 (by omega) (by omega) (by rw [sl, C11CL.axisSel_from1])
    (by rw [sl, C11CL.axisSel_upto]; simp), ok_bind]
  rw [C11NurimisakiA.slice_eq h w _ _ 1 1 (by omega) (by omega) (by rw [sl, C11CL.axisSel_from1])
    (by rw [sl, C11CL.axisSel_from1]), ok_bind]
  rw [chain_maps .or_ .or (Or.inr ⟨rfl, rfl⟩), ok_bind]
  rw [C11CL.ensureV_arr2 _ _ _ _ (by
    intro e he; simp only [List.mem_map] at he; obtain ⟨i, _, rfl⟩ := he; rfl), ok_bind]
  rw [chain_maps .and_ .and (Or.inl ⟨rfl, rfl⟩), ok_bind]
  rw [C11CL.unop_invert_arr2 _ _ _ (by simp), ok_bind]
  rw [C11CL.ensureV_arr2 _ _ _ _ (by
    intro e he; simp only [List.mem_map] at he; obtain ⟨i, _, rfl⟩ := he; rfl)]
  simp only [blocks, orBlock, nandBlock, wv, C11NurimisakiA.cv, Nat.add_zero, List.map_map, Function.comp_def, ok_bind]

/-! ### `path.then(is_white)` -/

/-- The constraints posted by `ensure(path.then(is_white))`. -/
def thenCs (pb : Problem) : List Expr :=
  (List.range (pb.height * pb.width)).map fun i => .node .imp [pf pb i, .bvar i]

theorem callM_then_arr2 (h w : Nat) (A B : List Expr) (hA : A.length = h * w) (hB : B.length = h * w) :
    callM .then_ (.arr2 true h w A) [.arr2 true h w B] =
      .ok (.arr2 true h w (List.zipWith (fun a b => .node .imp [a, b]) A B)) := by
  have he : elementwise .imp (.d2 h w) [.arr2 true h w A, .arr2 true h w B] = _ :=
    C12Elem.elementwise_ok (by simp [ewTypeCheck, Op.isCmp, PyV.isBoolLike]) (by
      intro x hx
      simp only [List.mem_cons, List.mem_nil_iff, or_false] at hx
      rcases hx with rfl | rfl
      · exact C11CL.conf_arr2 _ _ _ _ hA
      · exact C11CL.conf_arr2 _ _ _ _ hB)
  rw [C11CL.ewData2_arr2 _ _ _ _ _ _ _ hA hB] at he
  simp [callM, callMethod, PyV.cls, Cls.defines, arrayMethod, Cls.arrKind?, binarySpec, unarySpec,
    PyV.shape?, PyV.data?, he, mkArr, Op.isBoolOp, raiseNI]

theorem then_eq (pb : Problem) :
    (do let pw ← callM .then_ (pathArr pb) [whiteArr pb]; ensureV pw) = .ok (thenCs pb) := by
  unfold pathArr whiteArr
  rw [callM_then_arr2 _ _ _ _ (by simp) (by simp), ok_bind, C11NurimisakiA.zipWith_map_range]
  rw [C11CL.ensureV_arr2 _ _ _ _ (by
    intro e he; simp only [List.mem_map] at he; obtain ⟨i, _, rfl⟩ := he; rfl)]
  rfl

/-! ### the constraints of one cell -/

/-- The room constraint between two neighbouring cells `a`, `b` separated by the table entry `v`. -/
def roomE (inside : Prop) [Decidable inside] (v : Int) (a b : Expr) : List Expr :=
  if inside ∧ v = 0 then [.node .iff [a, b]] else []

theorem roomV_eq {pb : Problem} (hwf : WellFormed pb) {y x : Nat} (hy : y < pb.height) (hx : x < pb.width) :
    roomCs (whiteArr pb) (decide ((x : Int) < (pb.width : Int) - 1)) pb.wallVertical (y : Int) (x : Int) (y : Int) ((x : Int) + 1)
      = .ok (roomE (x + 1 < pb.width) (wallV pb y x) (wv pb.width y x) (wv pb.width y (x + 1))) := by
  unfold roomCs roomE
  by_cases hin : x + 1 < pb.width
  · have h1 : decide ((x : Int) < (pb.width : Int) - 1) = true := decide_eq_true (by omega)
    rw [h1, if_pos rfl, tableGet_ok pb.wallVertical 1 hwf.2.2.1.1 hwf.2.2.1.2 hy (show x < pb.width - 1 by omega), ok_bind]
    show (if (wallV pb y x == 0) = true then _ else _) = _
    by_cases hv : wallV pb y x = 0
    · rw [if_pos (by simp [hv]), if_pos ⟨hin, hv⟩]
      unfold whiteArr
      rw [C11CL.getitemV_cell true Expr.bvar _ _ _ _ hy hx, ok_bind]
      rw [show ((x : Int) + 1) = ((x + 1 : Nat) : Int) by omega,
        C11CL.getitemV_cell true Expr.bvar _ _ _ _ hy hin, ok_bind]
      rfl
    · rw [if_neg (by simp [hv]), if_neg (fun h => hv h.2)]
  · have h1 : decide ((x : Int) < (pb.width : Int) - 1) = false := decide_eq_false (by omega)
    rw [h1, if_neg (by decide), if_neg (fun h => hin h.1)]

theorem roomH_eq {pb : Problem} (hwf : WellFormed pb) {y x : Nat} (hy : y < pb.height) (hx : x < pb.width) :
    roomCs (whiteArr pb) (decide ((y : Int) < (pb.height : Int) - 1)) pb.wallHorizontal (y : Int) (x : Int) ((y : Int) + 1) (x : Int)
      = .ok (roomE (y + 1 < pb.height) (wallH pb y x) (wv pb.width y x) (wv pb.width (y + 1) x)) := by
  unfold roomCs roomE
  by_cases hin : y + 1 < pb.height
  · have h1 : decide ((y : Int) < (pb.height : Int) - 1) = true := decide_eq_true (by omega)
    rw [h1, if_pos rfl, tableGet_ok pb.wallHorizontal 1 hwf.2.2.2.1.1 hwf.2.2.2.1.2 (show y < pb.height - 1 by omega) hx, ok_bind]
    show (if (wallH pb y x == 0) = true then _ else _) = _
    by_cases hv : wallH pb y x = 0
    · rw [if_pos (by simp [hv]), if_pos ⟨hin, hv⟩]
      unfold whiteArr
      rw [C11CL.getitemV_cell true Expr.bvar _ _ _ _ hy hx, ok_bind]
      rw [show ((y : Int) + 1) = ((y + 1 : Nat) : Int) by omega,
        C11CL.getitemV_cell true Expr.bvar _ _ _ _ hin hx, ok_bind]
      rfl
    · rw [if_neg (by simp [hv]), if_neg (fun h => hv h.2)]
  · have h1 : decide ((y : Int) < (pb.height : Int) - 1) = false := decide_eq_false (by omega)
    rw [h1, if_neg (by decide), if_neg (fun h => hin h.1)]

/-- The `path` variables of the neighbours of `(y, x)` (those on the board; order up, down, left, right). -/
def nbP (pb : Problem) (y x : Nat) : List Expr :=
  (neighbours pb.height pb.width (y : Int) (x : Int)).map fun p => Expr.bvar (pbase pb + (p.1.toNat * pb.width + p.2.toNat))

/-- `count_true(path.four_neighbors(y, x)) == k`. -/
def degE (pb : Problem) (y x : Nat) (k : Int) : Expr := .node .eq [countTrueE (nbP pb y x), .litI k]

theorem degEq_eq (pb : Problem) {y x : Nat} (hy : y < pb.height) (hx : x < pb.width) (k : Int) :
    degEq (pathArr pb) (y : Int) (x : Int) k = .ok (.scalar (degE pb y x k)) := by
  unfold degEq pathArr
  rw [C11Norinori.fourNeighbors_fresh true (pf pb) _ _ _ _ hy hx, ok_bind,
    C11CL.countTrueA_arr1 _ (by
      intro e he; simp only [List.mem_map] at he; obtain ⟨_, _, rfl⟩ := he; rfl), ok_bind]
  obtain ⟨op, args, hE, hop⟩ := C11CL.countTrueE_isNode (nbP pb y x)
  simp only [nbP, pf] at hE ⊢
  simp only [degE, nbP, hE]
  exact C11CL.binop_eq_node_lit op args _ hop

/-- S or G sits on the cell `(y, x)`. -/
def IsEnd (pb : Problem) (y x : Nat) : Prop := ((y : Int), (x : Int)) = pb.start ∨ ((y : Int), (x : Int)) = pb.goal

instance (pb : Problem) (y x : Nat) : Decidable (IsEnd pb y x) := by unfold IsEnd; infer_instance

/-- The degree constraints of the cell `(y, x)`. -/
def degCsE (pb : Problem) (y x : Nat) : List Expr :=
  if IsEnd pb y x then [pv pb y x, degE pb y x 1] else [.node .imp [pv pb y x, degE pb y x 2]]

theorem degCs_eq (pb : Problem) {y x : Nat} (hy : y < pb.height) (hx : x < pb.width) :
    degCs pb (pathArr pb) (y : Int) (x : Int) = .ok (degCsE pb y x) := by
  unfold degCs degCsE
  have hcond : (((y : Int), (x : Int)) == pb.start || ((y : Int), (x : Int)) == pb.goal) = true ↔ IsEnd pb y x := by
    unfold IsEnd
    rw [Bool.or_eq_true, beq_iff_eq, beq_iff_eq]
  have hcell : getitemV (pathArr pb) (.pair (.idx (y : Int)) (.idx (x : Int))) = .ok (.scalar (pv pb y x)) :=
    C11CL.getitemV_cell true (pf pb) _ _ _ _ hy hx
  by_cases he : IsEnd pb y x
  · rw [if_pos (hcond.2 he), if_pos he, hcell, ok_bind, C11CL.ensureV_scalar _ rfl, ok_bind,
      degEq_eq pb hy hx, ok_bind, C11CL.ensureV_scalar _ rfl]
    rfl
  · rw [if_neg (fun h => he (hcond.1 h)), if_neg he, hcell, ok_bind, degEq_eq pb hy hx, ok_bind]
    show (callM .then_ (.scalar (.bvar _)) [.scalar (.node .eq _)] >>= _) = _
    rw [C11CL.callM_then_bvar _ _ _ rfl, ok_bind, C11CL.ensureV_scalar _ rfl]
    rfl

/-- The constraints posted for the mark `m` of the cell `(y, x)`. -/
def markE (pb : Problem) (m : Int) (y x : Nat) : List Expr :=
  (if m ≠ 0 then [wv pb.width y x] else []) ++
  (if m = 1 then [pv pb y x] else if m = 2 then [.node .not [pv pb y x]] else [])

theorem markCs_eq (pb : Problem) (m : Int) {y x : Nat} (hy : y < pb.height) (hx : x < pb.width) :
    (do let c4 ← markWhiteCs m (whiteArr pb) (y : Int) (x : Int)
        let c5 ← markPathCs m (pathArr pb) (y : Int) (x : Int)
        (.ok (c4 ++ c5) : Py (List Expr))) = .ok (markE pb m y x) := by
  unfold markWhiteCs markPathCs markE
  have hw : getitemV (whiteArr pb) (.pair (.idx (y : Int)) (.idx (x : Int))) = .ok (.scalar (wv pb.width y x)) :=
    C11CL.getitemV_cell true Expr.bvar _ _ _ _ hy hx
  have hp : getitemV (pathArr pb) (.pair (.idx (y : Int)) (.idx (x : Int))) = .ok (.scalar (pv pb y x)) :=
    C11CL.getitemV_cell true (pf pb) _ _ _ _ hy hx
  have h4 : (if (m != 0) = true then (do let wc ← getitemV (whiteArr pb) (.pair (.idx (y : Int)) (.idx (x : Int))); ensureV wc)
      else .ok []) = .ok (if m ≠ 0 then [wv pb.width y x] else []) := by
    by_cases h0 : m = 0
    · rw [if_neg (by simp [h0]), if_neg (by simp [h0])]
    · rw [if_pos (by simp [h0]), if_pos h0, hw, ok_bind, C11CL.ensureV_scalar _ rfl]
  have h5 : (if (m == 1) = true then (do let pc ← getitemV (pathArr pb) (.pair (.idx (y : Int)) (.idx (x : Int))); ensureV pc)
      else if (m == 2) = true then (do
        let pc ← getitemV (pathArr pb) (.pair (.idx (y : Int)) (.idx (x : Int)))
        let np ← unop .invert pc
        ensureV np) else .ok [])
      = .ok (if m = 1 then [pv pb y x] else if m = 2 then [.node .not [pv pb y x]] else []) := by
    by_cases h1 : m = 1
    · rw [if_pos (by simp [h1]), if_pos h1, hp, ok_bind, C11CL.ensureV_scalar _ rfl]
    · rw [if_neg (by simp [h1]), if_neg h1]
      by_cases h2 : m = 2
      · rw [if_pos (by simp [h2]), if_pos h2, hp, ok_bind]
        rw [show unop .invert (.scalar (pv pb y x)) = .ok (.scalar (.node .not [pv pb y x])) from rfl, ok_bind,
          C11CL.ensureV_scalar _ rfl]
      · rw [if_neg (by simp [h2]), if_neg h2]
  rw [h4, ok_bind, h5, ok_bind]

/-- The constraints posted by the loop body for the cell `(y, x)`. -/
def cellE (pb : Problem) (y x : Nat) : List Expr :=
  roomE (x + 1 < pb.width) (wallV pb y x) (wv pb.width y x) (wv pb.width y (x + 1)) ++
  roomE (y + 1 < pb.height) (wallH pb y x) (wv pb.width y x) (wv pb.width (y + 1) x) ++
  degCsE pb y x ++ markE pb (markAt pb y x) y x

theorem cellCs_eq {pb : Problem} (hwf : WellFormed pb) {y x : Nat} (hy : y < pb.height) (hx : x < pb.width) :
    cellCs pb (whiteArr pb) (pathArr pb) (y, x) = .ok (cellE pb y x) := by
  unfold cellCs cellE
  simp only
  rw [roomV_eq hwf hy hx, ok_bind, roomH_eq hwf hy hx, ok_bind, degCs_eq pb hy hx, ok_bind,
    tableGet_ok pb.mark 0 hwf.2.2.2.2.1.1 hwf.2.2.2.2.1.2 hy hx, ok_bind]
  rw [show (pb.mark.getD y []).getD x 0 = markAt pb y x from rfl]
  have hm := markCs_eq pb (markAt pb y x) hy hx
  simp only [bind, Except.bind] at hm ⊢
  cases h4 : markWhiteCs (markAt pb y x) (whiteArr pb) (y : Int) (x : Int) with
  | error e => rw [h4] at hm; cases hm
  | ok c4 =>
    rw [h4] at hm
    simp only at hm ⊢
    cases h5 : markPathCs (markAt pb y x) (pathArr pb) (y : Int) (x : Int) with
    | error e => rw [h5] at hm; cases hm
    | ok c5 =>
      rw [h5] at hm
      simp only at hm ⊢
      have hm' : c4 ++ c5 = markE pb (markAt pb y x) y x := Except.ok.inj hm
      rw [← hm']
      simp only [List.append_assoc]

/-! ### the posted program in closed form -/

/-- The connectivity (tree) fragment. -/
def avc (pb : Problem) : Prog :=
  C04L1.avcProg (Graph.grid pb.height pb.width) (bvars 0 (pb.height * pb.width)) (pb.height * pb.width) true

/-- The per-cell constraints. -/
def cells (pb : Problem) : List Expr :=
  (cellsOf pb.height pb.width).flatMap fun p => cellE pb p.1 p.2

/-- All constraints besides the connectivity fragment. -/
def rest (pb : Problem) : List Expr := blocks pb.height pb.width ++ thenCs pb ++ cells pb

theorem grid_pos {pb : Problem} (hwf : WellFormed pb) : 0 < (Graph.grid pb.height pb.width).n :=
  Nat.mul_pos hwf.1 hwf.2.1

theorem avc_eq {pb : Problem} (hwf : WellFormed pb) :
    activeVerticesConnected (Graph.grid pb.height pb.width) (bvars 0 (pb.height * pb.width))
      (pb.height * pb.width) true false = .ok (avc pb) :=
  C04L1.avc_eq_prog (grid_pos hwf) (C04Prim.grid_wf _ _) (by simp [bvars, Graph.grid])
    (C11FragWT.bvars_boolArgs _)

theorem avc_decls_length (pb : Problem) : (avc pb).decls.length = 2 * (pb.height * pb.width) := by
  simp [avc, C04L1.avcProg, Graph.grid]; omega

theorem program_eq {pb : Problem} (hwf : WellFormed pb) :
    program pb = .ok { decls := List.replicate (pb.height * pb.width) .bool ++ (avc pb).decls ++
                                  List.replicate (pb.height * pb.width) .bool,
                       cs := (avc pb).cs ++ rest pb, keys := List.range (pb.height * pb.width) } := by
  unfold program programWith
  simp only
  rw [avc_eq hwf, ok_bind, C11Grid.addKeys_bvars, ok_bind]
  rw [show blockCs (.arr2 true pb.height pb.width (bvars 0 (pb.height * pb.width))) = .ok (blocks pb.height pb.width)
    from by rw [C11NurimisakiA.bvars_eq]; exact blockCs_eq _ _, ok_bind]
  have hpa : PyV.arr2 true pb.height pb.width (bvars (pb.height * pb.width + (avc pb).decls.length) (pb.height * pb.width))
      = pathArr pb := by
    rw [avc_decls_length]
    simp only [pathArr, bvars]
    congr 2
    funext i
    simp only [pf, pbase]
    congr 1; omega
  have hwa : PyV.arr2 true pb.height pb.width (bvars 0 (pb.height * pb.width)) = whiteArr pb := by
    rw [C11NurimisakiA.bvars_eq]; rfl
  rw [hpa, hwa]
  have ht := then_eq pb
  simp only [bind, Except.bind] at ht ⊢
  cases hc : callM .then_ (pathArr pb) [whiteArr pb] with
  | error e => rw [hc] at ht; cases ht
  | ok pw =>
    rw [hc] at ht
    simp only at ht ⊢
    rw [ht]
    simp only
    have hm := mapM_eq_ok_map (f := cellCs pb (whiteArr pb) (pathArr pb)) (g := fun p : Nat × Nat => cellE pb p.1 p.2)
      (l := cellsOf pb.height pb.width) (by
        intro p hp
        obtain ⟨h1, h2⟩ := C11NurimisakiA.mem_cellsOf.1 hp
        exact cellCs_eq hwf h1 h2)
    rw [hm]
    simp only [rest, cells, List.flatMap_def, List.append_assoc]

end Cspuz.Proofs.C11NurimazeA
