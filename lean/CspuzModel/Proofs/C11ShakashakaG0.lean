/-
  C11 / shakashaka — geometry, part 0: the abstract setting.  A set `W` of white quarters with the cell pattern
  (in every cell nothing, everything, or two neighbouring quarters are white), bounded; areas = components of `W`
  under `Touch`.  Basic facts about `Touch`, `across`, `octant`.
-/
import CspuzModel.Spec.PuzzleRules.Shakashaka
import Mathlib.Tactic.FinCases
import Mathlib.Data.Fintype.Basic
namespace Cspuz.Proofs.C11ShakashakaG0
open Cspuz Cspuz.Spec Cspuz.Spec.Shakashaka

/-- Two white quarters that touch. -/
def WT (W : Quarter → Prop) (s t : Quarter) : Prop := W s ∧ W t ∧ Touch s t

/-- `t` belongs to the area of `s`. -/
def Comp (W : Quarter → Prop) (s t : Quarter) : Prop := Relation.ReflTransGen (WT W) s t

/-- In every cell nothing, everything, or exactly two neighbouring quarters are white. -/
def CellPattern (W : Quarter → Prop) : Prop :=
  ∀ y x : Int, (∀ q, ¬ W ⟨y, x, q⟩) ∨ (∀ q, W ⟨y, x, q⟩) ∨ ∃ q0 : Fin 4, ∀ q, W ⟨y, x, q⟩ ↔ (q = q0 ∨ q = q0 + 1)

def Bounded (W : Quarter → Prop) : Prop :=
  ∃ B : Int, ∀ t, W t → -B ≤ t.y ∧ t.y ≤ B ∧ -B ≤ t.x ∧ t.x ≤ B

/-- All white angles at all grid points are 90°, 180° or 360°. -/
def Angles (W : Quarter → Prop) : Prop := ∀ py px : Int, AnglesOK fun i => W (octant py px i)

/-- Every area is a rectangle. -/
def AllRect (W : Quarter → Prop) : Prop := ∀ s, W s → IsRectangle (Comp W s)

theorem fin4_opp : ∀ q q0 : Fin 4, (q = q0 ∨ q = q0 + 1) → (q + 2 = q0 ∨ q + 2 = q0 + 1) → False := by decide
theorem fin4_0 : ∀ q : Fin 4, q + 0 = q := by decide
theorem fin4_13 : ∀ q0 : Fin 4, q0 + 1 + 3 = q0 := by decide
theorem fin4_31 : ∀ q : Fin 4, q + 3 + 1 = q := by decide
theorem fin4_11 : ∀ q : Fin 4, q + 1 + 1 = q + 2 := by decide
theorem fin4_sub : ∀ q q' : Fin 4, q' = q + (q' - q) := by decide

theorem across_across (t : Quarter) : across (across t) = t := by
  obtain ⟨y, x, q⟩ := t
  fin_cases q <;> simp [across]

theorem touch_symm {s t : Quarter} (h : Touch s t) : Touch t s := by
  rcases h with ⟨h1, h2, h3⟩ | h
  · exact Or.inl ⟨h1.symm, h2.symm, h3.symm⟩
  · exact Or.inr (by rw [h, across_across])

theorem wt_symm {W : Quarter → Prop} {s t : Quarter} (h : WT W s t) : WT W t s :=
  ⟨h.2.1, h.1, touch_symm h.2.2⟩

theorem comp_symm {W : Quarter → Prop} {s t : Quarter} (h : Comp W s t) : Comp W t s := by
  induction h with
  | refl => exact Relation.ReflTransGen.refl
  | tail _ hbc ih => exact Relation.ReflTransGen.head (wt_symm hbc) ih

theorem comp_trans {W : Quarter → Prop} {s t u : Quarter} (h1 : Comp W s t) (h2 : Comp W t u) : Comp W s u :=
  Relation.ReflTransGen.trans h1 h2

theorem comp_white {W : Quarter → Prop} {s t : Quarter} (hs : W s) (h : Comp W s t) : W t := by
  induction h with
  | refl => exact hs
  | tail _ hbc _ => exact hbc.2.1

theorem comp_step {W : Quarter → Prop} {s t u : Quarter} (h : Comp W s t) (ht : W t) (hu : W u) (htu : Touch t u) :
    Comp W s u :=
  Relation.ReflTransGen.tail h ⟨ht, hu, htu⟩

/-- Neighbouring quarters of one cell touch. -/
theorem touch_next (y x : Int) (q : Fin 4) : Touch ⟨y, x, q⟩ ⟨y, x, q + 1⟩ := Or.inl ⟨rfl, rfl, Or.inl rfl⟩

theorem touch_across (t : Quarter) : Touch t (across t) := Or.inr rfl

/-- Consecutive octants around a grid point touch. -/
theorem touch_octant (py px : Int) (i : Fin 8) : Touch (octant py px i) (octant py px (i + 1)) := by
  fin_cases i
  · exact Or.inl ⟨rfl, rfl, Or.inl rfl⟩
  · exact Or.inr (by simp [octant, across])
  · exact Or.inl ⟨rfl, rfl, Or.inl rfl⟩
  · exact Or.inr (by simp [octant, across])
  · exact Or.inl ⟨rfl, rfl, Or.inl (show (0 : Fin 4) = 3 + 1 by decide)⟩
  · exact Or.inr (by simp [octant, across])
  · exact Or.inl ⟨rfl, rfl, Or.inl rfl⟩
  · exact Or.inr (by simp [octant, across])

/-- With the cell pattern, three white quarters in a cell force the fourth; more precisely two opposite white
quarters force all. -/
theorem cell_all_of_opposite {W : Quarter → Prop} (hc : CellPattern W) (y x : Int) (q : Fin 4)
    (h1 : W ⟨y, x, q⟩) (h2 : W ⟨y, x, q + 2⟩) : ∀ q', W ⟨y, x, q'⟩ := by
  rcases hc y x with h | h | ⟨q0, h⟩
  · exact absurd h1 (h q)
  · exact h
  · exfalso
    exact fin4_opp q q0 ((h q).1 h1) ((h (q + 2)).1 h2)

/-- In a cell with a white quarter, one of its two neighbours (around the centre) is white. -/
theorem cell_neighbour {W : Quarter → Prop} (hc : CellPattern W) (y x : Int) (q : Fin 4)
    (h1 : W ⟨y, x, q⟩) : W ⟨y, x, q + 1⟩ ∨ W ⟨y, x, q + 3⟩ := by
  rcases hc y x with h | h | ⟨q0, h⟩
  · exact absurd h1 (h q)
  · exact Or.inl (h _)
  · have a := (h q).1 h1
    rcases a with a | a
    · left; rw [h]; right; rw [a]
    · right; rw [h]; left; rw [a]; exact fin4_13 q0

/-- All white quarters of one cell belong to the same area. -/
theorem comp_cell {W : Quarter → Prop} (hc : CellPattern W) (y x : Int) (q q' : Fin 4)
    (h1 : W ⟨y, x, q⟩) (h2 : W ⟨y, x, q'⟩) : Comp W ⟨y, x, q⟩ ⟨y, x, q'⟩ := by
  have step : ∀ a : Fin 4, W ⟨y, x, a⟩ → W ⟨y, x, a + 1⟩ → Comp W ⟨y, x, a⟩ ⟨y, x, a + 1⟩ := fun a ha hb =>
    Relation.ReflTransGen.single ⟨ha, hb, touch_next y x a⟩
  have key : ∀ d : Fin 4, q' = q + d → Comp W ⟨y, x, q⟩ ⟨y, x, q'⟩ := by
    intro d hd
    subst hd
    fin_cases d
    · have e : q + (0 : Fin 4) = q := fin4_0 q
      simp only [Fin.zero_eta, e]; exact Relation.ReflTransGen.refl
    · exact step q h1 h2
    · have hall := cell_all_of_opposite hc y x q h1 h2
      have s1 := step q h1 (hall _)
      have s2 := step (q + 1) (hall _) (hall _)
      have e : q + 1 + 1 = q + 2 := fin4_11 q
      rw [e] at s2
      exact comp_trans s1 s2
    · have e : q + 3 + 1 = q := fin4_31 q
      have s1 := step (q + 3) h2 (by rw [e]; exact h1)
      rw [e] at s1
      exact comp_symm s1
  exact key (q' - q) (fin4_sub q q')

/-- Abstract form of `StraightOK`. -/
def Straight (W : Quarter → Prop) : Prop :=
  ∀ py px : Int, ∀ i : Fin 8, i.val % 2 = 1 →
    W (octant py px i) → ¬ W (octant py px (i - 1)) →
    W (octant py px (i + 1)) → W (octant py px (i + 2)) → W (octant py px (i + 3)) →
    ¬ W (octant py px (i + 4)) →
    ∀ q, W ⟨(octant py px (i + 1)).y, (octant py px (i + 1)).x, q⟩

end Cspuz.Proofs.C11ShakashakaG0
