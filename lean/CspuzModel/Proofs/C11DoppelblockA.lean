/-
  C11 / doppelblock — closed form of the program posted by `solve_doppelblock` on a well-formed instance.
-/
import CspuzModel.Spec.PuzzleRules.Doppelblock
import CspuzModel.Proofs.C11CL
import CspuzModel.Proofs.C11Grid
namespace Cspuz.Proofs.C11DoppelblockA
open Cspuz Cspuz.Spec Cspuz.Puzzles Cspuz.Puzzles.Doppelblock Cspuz.Spec.Doppelblock Cspuz.Proofs
  Cspuz.Proofs.C11CL Cspuz.Proofs.C12Elem

/-! ### The lines of the board -/

def rowE (n i : Nat) : List Expr := (List.range n).map fun x => .ivar (i * n + x)
def colE (n i : Nat) : List Expr := (List.range n).map fun y => .ivar (y * n + i)

theorem line_row (pb : Problem) (i : Nat) (hi : i < pb.n) : line pb (rowKey i) = .ok (rowE pb.n i) := by
  simp only [line, rowKey, answer, ivars, Nat.zero_add]
  rw [getitemV_row false Expr.ivar _ _ i fullSlice _ hi (axisSel_full _) (fun x hx => List.mem_range.mp hx)]
  rfl

theorem line_col (pb : Problem) (i : Nat) (hi : i < pb.n) : line pb (colKey i) = .ok (colE pb.n i) := by
  simp only [line, colKey, answer, ivars, Nat.zero_add]
  rw [getitemV_col false Expr.ivar _ _ fullSlice i _ hi (axisSel_full _) (fun x hx => List.mem_range.mp hx)]
  rfl

/-! ### `cells == v` -/

/-- the data of `cells == v` -/
def eqs (cells : List Expr) (v : Int) : List Expr := cells.map fun c => .node .eq [c, .litI v]

theorem eqs_boolLike (cells : List Expr) (v : Int) : ∀ x ∈ eqs cells v, x.isBoolLike = true := by
  intro x hx
  simp only [eqs, List.mem_map] at hx
  obtain ⟨c, _, rfl⟩ := hx
  rfl

theorem eqArr_eq (cells : List Expr) (v : Int) : eqArr cells v = .ok (.arr1 true (eqs cells v)) := by
  have he : elementwise .eq (.d1 cells.length) [.arr1 false cells, .scalar (.litI v)] = _ :=
    elementwise_ok (by simp [ewTypeCheck, Op.isCmp, PyV.isIntLike, Expr.isIntLike]) (by
      intro x hx
      simp only [List.mem_cons, List.mem_nil_iff, or_false] at hx
      rcases hx with rfl | rfl
      · exact conf_arr1 _ _
      · exact conf_scalar _ _)
  have hd : ewData .eq (.d1 cells.length) [.arr1 false cells, .scalar (.litI v)] = eqs cells v := by
    apply List.ext_getElem
    · simp [ewData, Shape.size, eqs]
    · intro i h1 h2
      simp only [ewData, Shape.size, List.length_map, List.length_range] at h1
      simp [ewData, C12Elem.get, elem?, h1, eqs]
  rw [hd] at he
  simp [eqArr, binop, tryMeth, callMethod, PyV.cls, Cls.defines, arrayMethod, Cls.arrKind?, binarySpec, unarySpec,
    PyV.shape?, PyV.data?, swapIf, BinOp.isCmp, BinOp.meth, he, mkArr, Op.isBoolOp, Cls.properSubclass]

/-! ### `count_true(cells == v) == k` -/

def countCsE (cells : List Expr) (v k : Int) : Expr := .node .eq [countTrueE (eqs cells v), .litI k]

theorem countCs_eq (cells : List Expr) (v k : Int) : countCs cells v k = .ok (countCsE cells v k) := by
  unfold countCs
  rw [eqArr_eq]
  simp only [ok_bind]
  rw [countTrueA_arr1 _ (eqs_boolLike cells v)]
  simp only [ok_bind]
  obtain ⟨op, args, h, hop⟩ := countTrueE_isNode (eqs cells v)
  unfold countCsE
  rw [h]
  simp [cmpPy, Expr.isIntExpr, hop, Expr.isIntLike, ensure1, Expr.isBoolLike, Op.isBoolOp]

def lineCs (n : Nat) (cells : List Expr) : List Expr :=
  countCsE cells 0 2 :: (List.range' 1 (n - 2)).map fun (i : Nat) => countCsE cells (i : Int) 1

theorem occurrence_eq (n : Nat) (cells : List Expr) : occurrence n cells = .ok (lineCs n cells) := by
  unfold occurrence
  rw [countCs_eq]
  simp only [ok_bind]
  rw [mapM_eq_ok_map (g := fun (i : Nat) => countCsE cells (i : Int) 1) (fun i _ => countCs_eq cells i 1)]
  rfl

/-! ### `fold_or(cells == 0)` -/

def foE (xs : List Expr) : Expr := if xs.isEmpty then .node .boolConst [.litB false] else .node .or xs

theorem foldOr_go_eqs (v : Int) : ∀ (cells acc : List Expr),
    foldOr.go (eqs cells v) acc = .ok (foE (acc.reverse ++ eqs cells v))
  | [], acc => by
    simp only [eqs, List.map_nil, List.append_nil, foldOr.go, foE]
    by_cases h : acc.isEmpty = true
    · have : acc = [] := by simpa using h
      subst this; rfl
    · simp [h]
  | c :: cells, acc => by
    have := foldOr_go_eqs v cells (.node .eq [c, .litI v] :: acc)
    simp only [eqs, List.map_cons, foldOr.go, Expr.isBoolExpr, Op.isBoolOp, Bool.true_or, if_true] at this ⊢
    rw [this]
    simp

theorem foldOrA_eqs (cells : List Expr) (v : Int) :
    foldOrA [.leaf (.arr1 true (eqs cells v))] = .ok (foE (eqs cells v)) := by
  simp only [foldOrA, ANest.flattenList, ANest.flatten, PyV.flat, List.append_nil, foldOr]
  rw [foldOr_go_eqs]; rfl

theorem foE_isNode (xs : List Expr) : ∃ op args, foE xs = .node op args ∧ (Expr.node op args).isBoolLike = true := by
  unfold foE
  split
  · exact ⟨_, _, rfl, rfl⟩
  · exact ⟨_, _, rfl, rfl⟩

/-! ### one summand, the sum, the clue constraint -/

def seqT (cells : List Expr) (i : Nat) : Expr :=
  .node .ite [.node .and [foE (eqs (cells.take i) 0), foE (eqs (cells.drop (i + 1)) 0)], cells.getD i .litNone, .litI 0]

theorem seqTerm_eq (cells : List Expr) (i : Nat) (hi : i < cells.length) (hint : cells[i].isIntLike = true) :
    seqTerm cells i = .ok (seqT cells i) := by
  unfold seqTerm
  rw [eqArr_eq]; simp only [ok_bind]
  rw [foldOrA_eqs]; simp only [ok_bind]
  rw [eqArr_eq]; simp only [ok_bind]
  rw [foldOrA_eqs]; simp only [ok_bind]
  obtain ⟨op, args, h1, hb1⟩ := foE_isNode (eqs (cells.take i) 0)
  obtain ⟨op2, args2, h2, hb2⟩ := foE_isNode (eqs (cells.drop (i + 1)) 0)
  unfold seqT
  rw [h1, h2, andPy_node hb1 hb2]; simp only [ok_bind]
  rw [getE_eq_ok hi]; simp only [ok_bind]
  have : cells.getD i .litNone = cells[i] := by simp [List.getD_eq_getElem?_getD, hi]
  rw [this]
  have h0 : (Expr.litI 0).isIntLike = true := rfl
  simp only [condE, hint, h0, Bool.and_self, if_true]

theorem foldlM_congr_mem {α β : Type} (f g : β → α → Py β) : ∀ (l : List α) (init : β),
    (∀ x ∈ l, ∀ s, f s x = g s x) → l.foldlM f init = l.foldlM g init
  | [], _, _ => rfl
  | x :: l, init, h => by
    simp only [List.foldlM_cons]
    rw [h x (by simp) init]
    cases hg : g init x with
    | error e => rfl
    | ok s => exact foldlM_congr_mem f g l s (fun y hy => h y (by simp [hy]))

theorem seqT_isNode (cells : List Expr) (i : Nat) : ∃ op l, seqT cells i = .node op l ∧ op.isIntOp = true :=
  ⟨_, _, rfl, rfl⟩

theorem foldl_add_isNode (xs : List Expr) : ∀ (l : List Expr),
    ∃ l', xs.foldl (fun acc x => Expr.node .add [acc, x]) (.node .add l) = .node .add l' := by
  induction xs with
  | nil => intro l; exact ⟨l, rfl⟩
  | cons x r ih => intro l; exact ih _

theorem sumE_isNode (xs : List Expr) (h : xs ≠ []) : ∃ l', sumE xs = .node .add l' := by
  cases xs with
  | nil => exact absurd rfl h
  | cons x r => exact foldl_add_isNode r _

def sumC (n : Nat) (cells : List Expr) (v : Int) : Expr :=
  .node .eq [sumE ((List.range n).map (seqT cells)), .litI v]

theorem seqConstraint_eq (n : Nat) (cells : List Expr) (v : Int) (hn : 1 ≤ n) (hlen : cells.length = n)
    (hint : ∀ c ∈ cells, c.isIntLike = true) :
    seqConstraint n cells v = .ok (.scalar (sumC n cells v)) := by
  unfold seqConstraint
  rw [foldlM_congr_mem _ (fun (s : PyV) (i : Nat) => binop .add s (.scalar (seqT cells i))) _ _ (by
    intro i hi s
    have hi' : i < cells.length := by rw [hlen]; exact List.mem_range.mp hi
    rw [seqTerm_eq cells i hi' (hint _ (List.getElem_mem hi'))]
    rfl)]
  have hsum := pySum_arr1 ((List.range n).map (seqT cells)) (by
    intro x hx
    simp only [List.mem_map] at hx
    obtain ⟨i, _, rfl⟩ := hx
    exact seqT_isNode cells i)
  simp only [pySum, PyV.flat, List.foldlM_map] at hsum
  rw [hsum]
  simp only [ok_bind]
  obtain ⟨l', hl'⟩ := sumE_isNode ((List.range n).map (seqT cells)) (by
    intro h
    have := congrArg List.length h
    simp at this; omega)
  unfold sumC
  rw [hl', binop_eq_node_lit .add l' v rfl]

def clueE (n : Nat) (c : Int) (cells : List Expr) : List Expr := if c ≥ 0 then [sumC n cells c] else []

theorem clueCs_eq (n : Nat) (clue : List Int) (i : Nat) (cells : List Expr) (hi : i < clue.length) (hn : 1 ≤ n)
    (hlen : cells.length = n) (hint : ∀ c ∈ cells, c.isIntLike = true) :
    clueCs n clue i cells = .ok (clueE n (clue.getD i (-1)) cells) := by
  unfold clueCs clueE
  rw [Cspuz.Proofs.C13.pyIndex_natCast _ _ hi, List.getElem?_eq_getElem hi]
  have : clue.getD i (-1) = clue[i] := by simp [List.getD_eq_getElem?_getD, hi]
  rw [this]
  simp only [ok_bind]
  split
  · rw [seqConstraint_eq n cells _ hn hlen hint]
    simp only [ok_bind]
    rw [ensureV_scalar _ rfl]
  · rfl

/-! ### The whole program -/

def perI (pb : Problem) (i : Nat) : List Expr :=
  lineCs pb.n (rowE pb.n i) ++ lineCs pb.n (colE pb.n i)
    ++ clueE pb.n (pb.clueRow.getD i (-1)) (rowE pb.n i) ++ clueE pb.n (pb.clueCol.getD i (-1)) (colE pb.n i)

def closedCs (pb : Problem) : List Expr := ((List.range pb.n).map (perI pb)).flatten

def closed (pb : Problem) : PuzzleProg :=
  { decls := List.replicate (pb.n * pb.n) (.int 0 ((pb.n : Int) - 2)),
    cs := closedCs pb,
    keys := List.range (pb.n * pb.n) }

theorem program_closed (pb : Problem) (hwf : WellFormed pb) : program pb = .ok (closed pb) := by
  obtain ⟨hn, hr, hc⟩ := hwf
  unfold program
  have h1 : intArrayDecls (pb.n * pb.n) 0 ((pb.n : Int) - 2)
      = .ok (List.replicate (pb.n * pb.n) (.int 0 ((pb.n : Int) - 2))) := by
    unfold intArrayDecls
    rw [if_neg (by omega)]
  simp only [h1, ok_bind]
  rw [show answer pb = .arr2 false pb.n pb.n (ivars 0 (pb.n * pb.n)) from rfl, Cspuz.Proofs.C11Grid.addKeys_ivars]
  simp only [ok_bind]
  rw [mapM_eq_ok_map (g := perI pb)]
  · rfl
  · intro i hi
    have hi' := List.mem_range.mp hi
    rw [line_row pb i hi', line_col pb i hi']
    simp only [ok_bind, occurrence_eq]
    rw [clueCs_eq pb.n pb.clueRow i (rowE pb.n i) (by omega) (by omega) (by simp [rowE]) (by
        intro c hc; simp only [rowE, List.mem_map] at hc; obtain ⟨_, _, rfl⟩ := hc; rfl),
      clueCs_eq pb.n pb.clueCol i (colE pb.n i) (by omega) (by omega) (by simp [colE]) (by
        intro c hc; simp only [colE, List.mem_map] at hc; obtain ⟨_, _, rfl⟩ := hc; rfl)]
    rfl

end Cspuz.Proofs.C11DoppelblockA
