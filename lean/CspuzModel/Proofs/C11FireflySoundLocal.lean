/-
  C11 / firefly — soundness of the arithmetic certificate, part 1: the LOCAL facts at one cell
  (orientation of the steps around a cell, counting the in- and out-steps, the rank along one step).
-/
import CspuzModel.Proofs.C11FireflyCert
import CspuzModel.Proofs.C14
namespace Cspuz.Proofs.C11FireflySoundLocal
open Cspuz Cspuz.Spec Cspuz.Spec.FrameGeom Cspuz.Spec.Loop
open Cspuz.Spec.Firefly (firefly segOf opp armCount)
open Cspuz.Puzzles.Firefly (Problem)
open Cspuz.Proofs.C11FireflyCert

theorem opp_opp (d : Dir) : opp (opp d) = d := by cases d <;> rfl

theorem opp_inj {d d' : Dir} (h : opp d = opp d') : d = d' := by
  have := congrArg opp h
  rwa [opp_opp, opp_opp] at this

theorem opp_ne (d : Dir) : opp d ≠ d := by cases d <;> simp [opp]

theorem isVert_opp (d : Dir) : isVert (opp d) = isVert d := by cases d <;> rfl

/-- Same axis and not opposite: the same direction. -/
theorem eq_of_isVert {d d' : Dir} (h : isVert d = isVert d') (hne : d' ≠ opp d) : d = d' := by
  cases d <;> cases d' <;> simp_all [isVert, opp]

theorem ne_of_isVert {d d' : Dir} (h : isVert d ≠ isVert d') : d ≠ d' := by
  rintro rfl; exact h rfl

theorem seg_valid (H W : Nat) (p : Pt) (d : Dir) (hy : p.1 ≤ H) (hx : p.2 ≤ W) (h : has H W p d = true) :
    (segOf p d).Valid H W := by
  cases d <;> simp only [has, decide_eq_true_eq] at h <;> simp only [segOf, Seg.Valid] <;> omega

/-- One step from `p` in direction `d`, seen from the other end. -/
theorem step_facts (H W : Nat) (ul dr : Seg → Bool) (p : Pt) (d : Dir) (hy : p.1 ≤ H) (hx : p.2 ≤ W)
    (h : has H W p d = true) :
    (nb p d).1 ≤ H ∧ (nb p d).2 ≤ W ∧ has H W (nb p d) (opp d) = true ∧ segOf (nb p d) (opp d) = segOf p d ∧
    nb (nb p d) (opp d) = p ∧ inTo ul dr (nb p d) (opp d) = outFrom ul dr p d ∧
    outFrom ul dr (nb p d) (opp d) = inTo ul dr p d := by
  obtain ⟨y, x⟩ := p
  cases d
  · simp only [has, decide_eq_true_eq] at h
    obtain ⟨y', rfl⟩ : ∃ y', y = y' + 1 := ⟨y - 1, by omega⟩
    simp only [nb, opp, has, segOf, inTo, outFrom, Nat.add_sub_cancel, decide_eq_true_eq] at hy hx ⊢
    refine ⟨by omega, hx, by omega, trivial, trivial, trivial, trivial⟩
  · simp only [has, decide_eq_true_eq] at h
    simp only [nb, opp, has, segOf, inTo, outFrom, Nat.add_sub_cancel] at h hy hx ⊢
    exact ⟨by omega, hx, by simp, trivial, trivial, trivial, trivial⟩
  · simp only [has, decide_eq_true_eq] at h
    obtain ⟨x', rfl⟩ : ∃ x', x = x' + 1 := ⟨x - 1, by omega⟩
    simp only [nb, opp, has, segOf, inTo, outFrom, Nat.add_sub_cancel, decide_eq_true_eq] at hy hx ⊢
    refine ⟨hy, by omega, by omega, trivial, trivial, trivial, trivial⟩
  · simp only [has, decide_eq_true_eq] at h
    simp only [nb, opp, has, segOf, inTo, outFrom, Nat.add_sub_cancel] at h hy hx ⊢
    exact ⟨hy, by omega, by simp, trivial, trivial, trivial, trivial⟩

/-! ### counting over the four directions -/

theorem cnt4 (f : Dir → Bool) :
    (dirs.filter f).length = (f .up).toNat + (f .down).toNat + (f .left).toNat + (f .right).toNat := by
  simp only [dirs, List.filter]
  cases f .up <;> cases f .down <;> cases f .left <;> cases f .right <;> rfl

theorem cnt_unique (f : Dir → Bool) (h : (dirs.filter f).length ≤ 1) {d d' : Dir} (hd : f d = true)
    (hd' : f d' = true) : d = d' := by
  rw [cnt4] at h
  cases d <;> cases d' <;> first | rfl | (rw [hd, hd'] at h; simp only [Bool.toNat_true] at h; omega)

theorem cnt_pos (f : Dir → Bool) {d : Dir} (hd : f d = true) : 1 ≤ (dirs.filter f).length := by
  rw [cnt4]
  cases d <;> (rw [hd]; simp only [Bool.toNat_true]; omega)

theorem cnt_exists (f : Dir → Bool) (h : 1 ≤ (dirs.filter f).length) : ∃ d, f d = true := by
  rw [cnt4] at h
  by_contra hc
  have hf : ∀ d, f d = false := fun d => by
    cases hd : f d
    · rfl
    · exact absurd ⟨d, hd⟩ hc
  rw [hf, hf, hf, hf] at h
  simp at h

/-- The first direction with the property (or `up`). -/
def pick (f : Dir → Bool) : Dir := (dirs.find? f).getD .up

theorem pick_spec (f : Dir → Bool) (h : ∃ d, f d = true) : f (pick f) = true := by
  unfold pick
  cases hf : dirs.find? f with
  | some d => exact List.find?_some hf
  | none =>
    obtain ⟨d, hd⟩ := h
    have := List.find?_eq_none.mp hf d (by cases d <;> simp [dirs])
    exact absurd hd this

theorem cnt_or (a b : Dir → Bool) (h : ∀ d, (a d && b d) = false) :
    (dirs.filter fun d => a d || b d).length = (dirs.filter a).length + (dirs.filter b).length := by
  rw [cnt4, cnt4, cnt4]
  have h1 := h .up; have h2 := h .down; have h3 := h .left; have h4 := h .right
  revert h1 h2 h3 h4
  cases a .up <;> cases b .up <;> cases a .down <;> cases b .down <;> cases a .left <;> cases b .left <;>
    cases a .right <;> cases b .right <;> simp

/-! ### the oriented steps at a cell -/

section
variable {pb : Problem} {H W : Nat} {unk : Int} {on : Seg → Bool}

/-- The step from `p` in direction `d` exists and is oriented towards `p`. -/
def In (c : Cert pb H W unk on) (p : Pt) (d : Dir) : Bool := has H W p d && inTo c.ul c.dr p d
/-- The step from `p` in direction `d` exists and is oriented away from `p`. -/
def Out (c : Cert pb H W unk on) (p : Pt) (d : Dir) : Bool := has H W p d && outFrom c.ul c.dr p d

theorem inCnt_eq (c : Cert pb H W unk on) (p : Pt) : inCnt H W c.ul c.dr p = (dirs.filter (In c p)).length := rfl
theorem outCnt_eq (c : Cert pb H W unk on) (p : Pt) : outCnt H W c.ul c.dr p = (dirs.filter (Out c p)).length := rfl

theorem arm_has (p : Pt) (d : Dir) : arm H W on p d = (has H W p d && on (segOf p d)) := by
  cases d <;> rfl

theorem in_out_ul_dr (ul dr : Seg → Bool) (p : Pt) (d : Dir) :
    (inTo ul dr p d = dr (segOf p d) ∧ outFrom ul dr p d = ul (segOf p d)) ∨
    (inTo ul dr p d = ul (segOf p d) ∧ outFrom ul dr p d = dr (segOf p d)) := by
  cases d
  · exact Or.inl ⟨rfl, rfl⟩
  · exact Or.inr ⟨rfl, rfl⟩
  · exact Or.inl ⟨rfl, rfl⟩
  · exact Or.inr ⟨rfl, rfl⟩

theorem arm_in_out (c : Cert pb H W unk on) (p : Pt) (hy : p.1 ≤ H) (hx : p.2 ≤ W) (d : Dir) :
    arm H W on p d = (In c p d || Out c p d) ∧ (In c p d && Out c p d) = false := by
  rw [arm_has]
  unfold In Out
  cases h : has H W p d
  · simp
  · obtain ⟨h1, h2⟩ := c.orient _ (seg_valid H W p d hy hx h)
    rw [h1]
    rcases in_out_ul_dr c.ul c.dr p d with ⟨e1, e2⟩ | ⟨e1, e2⟩ <;> rw [e1, e2] <;> revert h2 <;>
      cases c.ul (segOf p d) <;> cases c.dr (segOf p d) <;> simp

theorem not_in_out (c : Cert pb H W unk on) (p : Pt) (hy : p.1 ≤ H) (hx : p.2 ≤ W) (d : Dir)
    (hi : In c p d = true) (ho : Out c p d = true) : False := by
  have := (arm_in_out c p hy hx d).2
  rw [hi, ho] at this
  simp at this

theorem arm_of_out (c : Cert pb H W unk on) (p : Pt) (hy : p.1 ≤ H) (hx : p.2 ≤ W) (d : Dir)
    (ho : Out c p d = true) : arm H W on p d = true := by
  rw [(arm_in_out c p hy hx d).1, ho, Bool.or_true]

theorem armCount_eq (c : Cert pb H W unk on) (p : Pt) (hy : p.1 ≤ H) (hx : p.2 ≤ W) :
    armCount H W on p = inCnt H W c.ul c.dr p + outCnt H W c.ul c.dr p := by
  rw [inCnt_eq, outCnt_eq, ← cnt_or _ _ fun d => (arm_in_out c p hy hx d).2]
  have : (fun d => arm H W on p d) = fun d => In c p d || Out c p d :=
    funext fun d => (arm_in_out c p hy hx d).1
  show (dirs.filter fun d => arm H W on p d).length = _
  rw [this]

/-- The rank drops along an oriented step that is not ignored. -/
theorem rank_step (c : Cert pb H W unk on) (p : Pt) (d : Dir) (hy : p.1 ≤ H) (hx : p.2 ≤ W)
    (ho : Out c p d = true) (hig : c.ig (segOf p d) = false) : c.rank (nb p d) < c.rank p := by
  unfold Out at ho
  rw [Bool.and_eq_true] at ho
  obtain ⟨hh, ho⟩ := ho
  have hv := seg_valid H W p d hy hx hh
  obtain ⟨y, x⟩ := p
  cases d
  · simp only [has, decide_eq_true_eq] at hh
    obtain ⟨y', rfl⟩ : ∃ y', y = y' + 1 := ⟨y - 1, by omega⟩
    simp only [segOf, outFrom, Nat.add_sub_cancel] at hv ho hig
    exact c.rankUl _ hv ho hig
  · simp only [segOf, outFrom] at hv ho hig
    exact c.rankDr _ hv ho hig
  · simp only [has, decide_eq_true_eq] at hh
    obtain ⟨x', rfl⟩ : ∃ x', x = x' + 1 := ⟨x - 1, by omega⟩
    simp only [segOf, outFrom, Nat.add_sub_cancel] at hv ho hig
    exact c.rankUl _ hv ho hig
  · simp only [segOf, outFrom] at hv ho hig
    exact c.rankDr _ hv ho hig

/-- An oriented step is determined by its segment. -/
theorem out_seg_inj (c : Cert pb H W unk on) (p p' : Pt) (d d' : Dir) (hy : p.1 ≤ H) (hx : p.2 ≤ W)
    (hy' : p'.1 ≤ H) (hx' : p'.2 ≤ W) (ho : Out c p d = true) (ho' : Out c p' d' = true)
    (hs : segOf p d = segOf p' d') : p = p' ∧ d = d' := by
  by_cases hd : d = d'
  · subst hd
    refine ⟨?_, rfl⟩
    unfold Out at ho ho'
    rw [Bool.and_eq_true] at ho ho'
    have h1 := ho.1; have h2 := ho'.1
    obtain ⟨y, x⟩ := p
    obtain ⟨y', x'⟩ := p'
    cases d <;> simp only [has, decide_eq_true_eq] at h1 h2 <;>
      simp only [segOf, Seg.v.injEq, Seg.h.injEq] at hs <;> simp only [Prod.mk.injEq] <;> omega
  · exfalso
    -- the other end of the step
    have hh : has H W p d = true := by
      unfold Out at ho; rw [Bool.and_eq_true] at ho; exact ho.1
    have hh' : has H W p' d' = true := by
      unfold Out at ho'; rw [Bool.and_eq_true] at ho'; exact ho'.1
    have hd2 : d' = opp d := by
      obtain ⟨y, x⟩ := p
      obtain ⟨y', x'⟩ := p'
      cases d <;> cases d' <;> simp_all [segOf, opp]
    subst hd2
    obtain ⟨f1, f2, f3, f4, f5, f6, f7⟩ := step_facts H W c.ul c.dr p d hy hx hh
    have hp : p' = nb p d := by
      obtain ⟨y, x⟩ := p
      obtain ⟨y', x'⟩ := p'
      cases d <;> simp only [has, opp, decide_eq_true_eq] at hh hh' <;>
        simp only [segOf, opp, Seg.v.injEq, Seg.h.injEq] at hs <;> simp only [nb, Prod.mk.injEq] <;> omega
    subst hp
    have hin : In c p d = true := by
      unfold In; unfold Out at ho'
      rw [Bool.and_eq_true] at ho' ⊢
      exact ⟨hh, by rw [← f7]; exact ho'.2⟩
    exact not_in_out c p hy hx d hin ho

end

end Cspuz.Proofs.C11FireflySoundLocal
