import Mathlib.Combinatorics.SimpleGraph.Acyclic
import Mathlib.Combinatorics.SimpleGraph.Paths
import Mathlib.Data.Fintype.EquivFin

/-!
# Path-like vertex sets in acyclic graphs (pure graph theory, used for Nurimaze)

In a finite acyclic graph, a vertex set `Q` that *locally* looks like a path from `s` to `g`
(`s`, `g` have exactly one neighbour in `Q`, all other vertices of `Q` have exactly two) is the
vertex set of the path from `s` to `g`; and conversely.
-/

namespace Cspuz.Proofs.C11NurimazeT

open SimpleGraph

/-- `Q` looks like a path from `s` to `g` locally: `s`, `g ∈ Q`; `s` and `g` each have exactly one neighbour in `Q`;
every other vertex of `Q` has exactly two neighbours in `Q`. -/
structure PathLike {V : Type*} (T : SimpleGraph V) (Q : Set V) (s g : V) : Prop where
  hs : s ∈ Q
  hg : g ∈ Q
  ends : ∀ v, (v = s ∨ v = g) → ∃ a, T.Adj v a ∧ a ∈ Q ∧ ∀ b, T.Adj v b → b ∈ Q → b = a
  inner : ∀ v, v ∈ Q → v ≠ s → v ≠ g →
    ∃ a b, a ≠ b ∧ T.Adj v a ∧ a ∈ Q ∧ T.Adj v b ∧ b ∈ Q ∧ ∀ c, T.Adj v c → c ∈ Q → c = a ∨ c = b

/-- Conversely, in an acyclic graph the vertex set of a path from `s` to `g` (`s ≠ g`) is path-like. -/
theorem pathLike_of_path {V : Type*} {T : SimpleGraph V} (hT : T.IsAcyclic) {s g : V} (hne : s ≠ g)
    (p : T.Walk s g) (hp : p.IsPath) : PathLike T {v | v ∈ p.support} s g := by
  have hnil : ¬ p.Nil := Walk.not_nil_of_ne hne
  refine ⟨p.start_mem_support, p.end_mem_support, ?_, ?_⟩
  · rintro v (rfl | rfl)
    · exact ⟨p.snd, p.adj_snd hnil, p.getVert_mem_support 1,
        fun b hb hbs => hT.eq_snd_of_adj_start hp hb hbs⟩
    · exact ⟨p.penultimate, (p.adj_penultimate hnil).symm, p.getVert_mem_support _,
        fun b hb hbs => hT.eq_penultimate_of_adj_end hp hb hbs⟩
  · intro v hv hvs hvg
    obtain ⟨q, r, hq, hr, rfl⟩ := hp.mem_support_iff_exists_append.mp hv
    have hqn : ¬ q.Nil := Walk.not_nil_of_ne (Ne.symm hvs)
    have hrn : ¬ r.Nil := Walk.not_nil_of_ne hvg
    refine ⟨q.penultimate, r.snd, ?_, (q.adj_penultimate hqn).symm, ?_, r.adj_snd hrn, ?_, ?_⟩
    · exact hp.ne_of_mem_support_of_append (r.adj_snd hrn).ne'
        (q.getVert_mem_support _) (r.getVert_mem_support 1)
    · exact (Walk.mem_support_append_iff q r).mpr (Or.inl (q.getVert_mem_support _))
    · exact (Walk.mem_support_append_iff q r).mpr (Or.inr (r.getVert_mem_support 1))
    · intro c hc hcs
      rcases (Walk.mem_support_append_iff q r).mp hcs with h | h
      · exact Or.inl (hT.eq_penultimate_of_adj_end hq hc h)
      · exact Or.inr (hT.eq_snd_of_adj_start hr hc h)

/-- Extension lemma: of two distinct neighbours of the end of a path in an acyclic graph,
at least one is off the path. -/
theorem ext_pick {V : Type*} {T : SimpleGraph V} (hT : T.IsAcyclic) {x v a b : V}
    {q : T.Walk x v} (hq : q.IsPath) (ha : T.Adj v a) (hb : T.Adj v b) (hab : a ≠ b) :
    a ∉ q.support ∨ b ∉ q.support := by
  by_contra hcon
  push Not at hcon
  exact hab ((hT.eq_penultimate_of_adj_end hq ha hcon.1).trans
    (hT.eq_penultimate_of_adj_end hq hb hcon.2).symm)

/-- "Follow `Q` from `s`": if every path from `s` inside `Q` whose end does not satisfy `stop` can be
extended inside `Q`, then (the graph being finite) some path from `s` inside `Q` ends at a `stop` vertex. -/
theorem follow {V : Type*} [Finite V] {T : SimpleGraph V} {Q : Set V} {stop : V → Prop} {s : V}
    (hs : s ∈ Q)
    (hext : ∀ (v : V) (q : T.Walk s v), q.IsPath → (∀ y ∈ q.support, y ∈ Q) → ¬ stop v →
      ∃ u, T.Adj v u ∧ u ∈ Q ∧ u ∉ q.support) :
    ∃ (v : V) (q : T.Walk s v), q.IsPath ∧ (∀ y ∈ q.support, y ∈ Q) ∧ stop v := by
  classical
  cases nonempty_fintype V
  by_contra hcon
  have key : ∀ n : ℕ, ∃ (v : V) (q : T.Walk s v), q.IsPath ∧ (∀ y ∈ q.support, y ∈ Q) ∧
      q.length = n := by
    intro n
    induction n with
    | zero =>
      refine ⟨s, Walk.nil, Walk.IsPath.nil, ?_, rfl⟩
      intro y hy
      rw [Walk.support_nil, List.mem_singleton] at hy
      exact hy ▸ hs
    | succ n ih =>
      obtain ⟨v, q, hq, hqQ, hlen⟩ := ih
      have hstop : ¬ stop v := fun h => hcon ⟨v, q, hq, hqQ, h⟩
      obtain ⟨u, hvu, huQ, hu⟩ := hext v q hq hqQ hstop
      refine ⟨u, q.concat hvu, hq.concat hu hvu, ?_, ?_⟩
      · intro y hy
        rw [Walk.support_concat, List.mem_append, List.mem_singleton] at hy
        rcases hy with hy | rfl
        · exact hqQ y hy
        · exact huQ
      · rw [Walk.length_concat, hlen]
  obtain ⟨v, q, hq, -, hlen⟩ := key (Fintype.card V)
  have := hq.length_lt
  omega

/-- A non-empty set in which every vertex has two distinct neighbours inside the set cannot exist in
a finite acyclic graph. -/
theorem no_two_nbr_set {V : Type*} [Finite V] {T : SimpleGraph V} (hT : T.IsAcyclic) {R : Set V}
    {x : V} (hx : x ∈ R)
    (h2 : ∀ v ∈ R, ∃ a b, a ≠ b ∧ T.Adj v a ∧ a ∈ R ∧ T.Adj v b ∧ b ∈ R) : False := by
  obtain ⟨v, q, -, -, hF⟩ := follow (T := T) (Q := R) (stop := fun _ => False) (s := x) hx (by
    intro v q hq hqR _
    obtain ⟨a, b, hab, hva, haR, hvb, hbR⟩ := h2 v (hqR v q.end_mem_support)
    rcases ext_pick hT hq hva hvb hab with h | h
    · exact ⟨a, hva, haR, h⟩
    · exact ⟨b, hvb, hbR, h⟩)
  exact hF

/-- If `P ⊆ Q` are both path-like for the same endpoints, `P` is closed under `Q`-neighbours. -/
theorem no_extra {V : Type*} {T : SimpleGraph V} {P Q : Set V} {s g : V}
    (hP : PathLike T P s g) (hQ : PathLike T Q s g) (hPQ : P ⊆ Q) {y x : V} (hy : y ∈ P)
    (hyx : T.Adj y x) (hx : x ∈ Q) : x ∈ P := by
  by_cases hye : y = s ∨ y = g
  · obtain ⟨a, hya, haP, -⟩ := hP.ends y hye
    obtain ⟨a', -, -, huniq⟩ := hQ.ends y hye
    have h1 : x = a' := huniq x hyx hx
    have h2 : a = a' := huniq a hya (hPQ haP)
    rw [h1, ← h2]; exact haP
  · push Not at hye
    obtain ⟨c, d, hcd, hyc, hcP, hyd, hdP, -⟩ := hP.inner y hy hye.1 hye.2
    obtain ⟨a', b', -, -, -, -, -, huniq⟩ := hQ.inner y (hPQ hy) hye.1 hye.2
    have h1 := huniq x hyx hx
    have h2 := huniq c hyc (hPQ hcP)
    have h3 := huniq d hyd (hPQ hdP)
    by_contra hxP
    have hxc : x ≠ c := fun h => hxP (h ▸ hcP)
    have hxd : x ≠ d := fun h => hxP (h ▸ hdP)
    rcases h1 with rfl | rfl <;> rcases h2 with rfl | rfl <;> rcases h3 with rfl | rfl <;>
      first | exact hcd rfl | exact hxc rfl | exact hxd rfl

/-- In a finite acyclic graph a path-like set IS the vertex set of a path from `s` to `g`. -/
theorem exists_path_of_pathLike {V : Type*} [Finite V] {T : SimpleGraph V} (hT : T.IsAcyclic)
    {Q : Set V} {s g : V} (hne : s ≠ g) (h : PathLike T Q s g) :
    ∃ p : T.Walk s g, p.IsPath ∧ ∀ v, v ∈ p.support ↔ v ∈ Q := by
  -- Step A: follow `Q` from `s` until `g`.
  obtain ⟨v, p, hp, hpQ, rfl⟩ := follow (T := T) (Q := Q) (stop := fun v => v = g) (s := s) h.hs (by
    intro v q hq hqQ hvg
    by_cases hvs : v = s
    · subst hvs
      obtain ⟨a, hva, haQ, -⟩ := h.ends v (Or.inl rfl)
      refine ⟨a, hva, haQ, ?_⟩
      rw [Walk.eq_nil_iff_nil.mpr (Walk.isPath_iff_nil.mp hq), Walk.support_nil, List.mem_singleton]
      exact hva.ne'
    · obtain ⟨a, b, hab, hva, haQ, hvb, hbQ, -⟩ := h.inner v (hqQ v q.end_mem_support) hvs hvg
      rcases ext_pick hT hq hva hvb hab with h' | h'
      · exact ⟨a, hva, haQ, h'⟩
      · exact ⟨b, hvb, hbQ, h'⟩)
  refine ⟨p, hp, fun x => ⟨hpQ x, fun hxQ => ?_⟩⟩
  -- Step B: nothing of `Q` lies off the path.
  by_contra hxP
  have hP : PathLike T {y | y ∈ p.support} s v := pathLike_of_path hT hne p hp
  have hPQ : {y | y ∈ p.support} ⊆ Q := fun y hy => hpQ y hy
  refine no_two_nbr_set hT (R := {y | y ∈ Q ∧ y ∉ p.support}) (x := x) ⟨hxQ, hxP⟩ ?_
  rintro y ⟨hyQ, hyP⟩
  have hys : y ≠ s := fun e => hyP (e ▸ p.start_mem_support)
  have hyg : y ≠ v := fun e => hyP (e ▸ p.end_mem_support)
  obtain ⟨a, b, hab, hya, haQ, hyb, hbQ, -⟩ := h.inner y hyQ hys hyg
  refine ⟨a, b, hab, hya, ⟨haQ, fun haP => hyP ?_⟩, hyb, ⟨hbQ, fun hbP => hyP ?_⟩⟩
  · exact no_extra hP h hPQ haP hya.symm hyQ
  · exact no_extra hP h hPQ hbP hyb.symm hyQ

end Cspuz.Proofs.C11NurimazeT
