/-
  C11 / FiveCells, part G (graph theory): the graph built by `solve_fivecells` is the orthogonal adjacency of
  the board cells; a partition of its vertices corresponds to a labelling of the cells by regions, with the
  same connected blocks and block sizes.
-/
import Mathlib.Data.Set.Card
import CspuzModel.Proofs.C11FivecellsP
import CspuzModel.Spec.C07Spec
namespace Cspuz.Proofs.C11FivecellsG
open Cspuz Cspuz.Spec Cspuz.Proofs Cspuz.Puzzles Cspuz.Puzzles.Fivecells Cspuz.Spec.Fivecells
open Cspuz.Proofs.C11FivecellsA Cspuz.Proofs.C11FivecellsP

/-! ### generic transfer of connectivity -/

theorem preconnected_transfer {V W : Type} {G : SimpleGraph V} {H : SimpleGraph W} {S : Set V} {T : Set W}
    (f : V → W) (hST : ∀ a ∈ S, f a ∈ T) (hadj : ∀ a ∈ S, ∀ b ∈ S, G.Adj a b → H.Adj (f a) (f b))
    (hsurj : ∀ t ∈ T, ∃ a ∈ S, f a = t) (h : (G.induce S).Preconnected) : (H.induce T).Preconnected := by
  let φ : G.induce S →g H.induce T :=
    { toFun := fun a => ⟨f a.1, hST a.1 a.2⟩
      map_rel' := fun {a b} hab => hadj a.1 a.2 b.1 b.2 hab }
  rintro ⟨t1, ht1⟩ ⟨t2, ht2⟩
  obtain ⟨a1, ha1, rfl⟩ := hsurj t1 ht1
  obtain ⟨a2, ha2, rfl⟩ := hsurj t2 ht2
  exact (h ⟨a1, ha1⟩ ⟨a2, ha2⟩).map φ

/-! ### vertices and board cells -/

/-- The board cell with vertex number `v`. -/
def cellAt (pb : Problem) (v : Nat) : Nat × Nat := (bcells pb).getD v (0, 0)

theorem bcells_nodup (pb : Problem) : (bcells pb).Nodup :=
  List.Nodup.filter _ (cellsOf_nodup _ _)

theorem cellAt_eq {pb : Problem} {v : Nat} (hv : v < (bcells pb).length) : cellAt pb v = (bcells pb)[v] := by
  simp [cellAt, List.getD, List.getElem?_eq_getElem hv]

theorem vidx_cellAt {pb : Problem} {v : Nat} (hv : v < (bcells pb).length) : vidx pb (cellAt pb v) = v := by
  rw [cellAt_eq hv]
  exact (bcells_nodup pb).idxOf_getElem v hv

theorem cellAt_vidx {pb : Problem} {p : Nat × Nat} (hp : onBoard pb p = true) : cellAt pb (vidx pb p) = p := by
  rw [cellAt_eq (vidx_lt hp)]
  exact List.getElem_idxOf (vidx_lt hp)

theorem onBoard_cellAt {pb : Problem} {v : Nat} (hv : v < (bcells pb).length) :
    onBoard pb (cellAt pb v) = true := by
  rw [cellAt_eq hv]
  exact mem_bcells.1 (List.getElem_mem hv)

theorem edge_mem {pb : Problem} {k a b : Nat} (h : (graph pb).edges[k]? = some (a, b)) :
    ∃ pq ∈ pairs pb, vidx pb pq.1 = a ∧ vidx pb pq.2 = b := by
  have hm := List.mem_of_getElem? h
  simp only [graph, List.mem_map] at hm
  obtain ⟨pq, hpq, he⟩ := hm
  simp only [vpair, Prod.mk.injEq] at he
  exact ⟨pq, hpq, he.1, he.2⟩

theorem pair_adj {pb : Problem} {pq : (Nat × Nat) × (Nat × Nat)} (h : pq ∈ pairs pb) :
    cellGraph.Adj pq.1 pq.2 := by
  obtain ⟨_, _, h3 | h3⟩ := mem_pairs.1 h
  · rw [h3]; exact Or.inr ⟨rfl, Or.inl rfl⟩
  · rw [h3]; exact Or.inl ⟨rfl, Or.inl rfl⟩

theorem pair_edge {pb : Problem} {p q : Nat × Nat} (h : (p, q) ∈ pairs pb) :
    ∃ k : Nat, (graph pb).edges[k]? = some (vidx pb p, vidx pb q) := by
  obtain ⟨k, hk, he⟩ := List.getElem_of_mem h
  refine ⟨k, ?_⟩
  simp only [graph, List.getElem?_map, List.getElem?_eq_getElem hk, he, Option.map_some, vpair]

/-- The graph of `solve_fivecells` is the orthogonal adjacency of the board cells. -/
theorem adj_iff (pb : Problem) (u v : Fin (graph pb).n) :
    (toSimple (graph pb)).Adj u v ↔ cellGraph.Adj (cellAt pb u.1) (cellAt pb v.1) := by
  have hu : u.1 < (bcells pb).length := u.2
  have hv : v.1 < (bcells pb).length := v.2
  constructor
  · rintro ⟨_, k, hk | hk⟩
    · obtain ⟨pq, hpq, h1, h2⟩ := edge_mem hk
      obtain ⟨hb1, hb2, _⟩ := mem_pairs.1 hpq
      rw [← h1, ← h2, cellAt_vidx hb1, cellAt_vidx hb2]
      exact pair_adj hpq
    · obtain ⟨pq, hpq, h1, h2⟩ := edge_mem hk
      obtain ⟨hb1, hb2, _⟩ := mem_pairs.1 hpq
      rw [← h1, ← h2, cellAt_vidx hb1, cellAt_vidx hb2]
      exact (pair_adj hpq).symm
  · intro h
    have hne : u ≠ v := by
      intro he
      rw [he] at h
      exact cellGraph.loopless.irrefl _ h
    refine ⟨hne, ?_⟩
    have hbu := onBoard_cellAt hu
    have hbv := onBoard_cellAt hv
    have key : (cellAt pb u.1, cellAt pb v.1) ∈ pairs pb ∨ (cellAt pb v.1, cellAt pb u.1) ∈ pairs pb := by
      rcases h with ⟨h1, h2 | h2⟩ | ⟨h1, h2 | h2⟩
      · left; exact mem_pairs.2 ⟨hbu, hbv, Or.inr (Prod.ext h1.symm h2.symm)⟩
      · right; exact mem_pairs.2 ⟨hbv, hbu, Or.inr (Prod.ext h1 h2.symm)⟩
      · left; exact mem_pairs.2 ⟨hbu, hbv, Or.inl (Prod.ext h2.symm h1.symm)⟩
      · right; exact mem_pairs.2 ⟨hbv, hbu, Or.inl (Prod.ext h2.symm h1)⟩
    rcases key with hk | hk
    · obtain ⟨k, hk⟩ := pair_edge hk
      rw [vidx_cellAt hu, vidx_cellAt hv] at hk
      exact ⟨k, Or.inl hk⟩
    · obtain ⟨k, hk⟩ := pair_edge hk
      rw [vidx_cellAt hu, vidx_cellAt hv] at hk
      exact ⟨k, Or.inr hk⟩

theorem graph_wf (pb : Problem) : (graph pb).wf = true := by
  unfold Graph.wf
  rw [List.all_eq_true]
  intro ab hab
  simp only [graph, List.mem_map] at hab
  obtain ⟨pq, hpq, rfl⟩ := hab
  obtain ⟨h1, h2, _⟩ := mem_pairs.1 hpq
  simp only [vpair, Bool.and_eq_true]
  exact ⟨decide_eq_true (vidx_lt h1), decide_eq_true (vidx_lt h2)⟩

/-! ### partitions of the vertices vs region labellings of the cells -/

section Blocks
variable {pb : Problem} (P : VPartition (graph pb).n) (region : Nat × Nat → Nat)
  (hc : ∀ u v, u < (graph pb).n → v < (graph pb).n →
    (P.same u v ↔ region (cellAt pb u) = region (cellAt pb v)))

include hc in
theorem image_block {v : Nat} (hv : v < (graph pb).n) :
    (fun w : Fin (graph pb).n => cellAt pb w.1) '' blockOf (graph pb) P v = regionOf pb region (cellAt pb v) := by
  ext q
  simp only [Set.mem_image, blockOf, Set.mem_ofPred_eq, regionOf]
  constructor
  · rintro ⟨w, hw, rfl⟩
    exact ⟨onBoard_cellAt w.2, ((hc v w.1 hv w.2).1 hw).symm⟩
  · rintro ⟨hq, hr⟩
    refine ⟨⟨vidx pb q, vidx_lt hq⟩, ?_, cellAt_vidx hq⟩
    rw [hc v _ hv (vidx_lt hq)]
    simp only [cellAt_vidx hq]
    exact hr.symm

include hc in
theorem block_card {v : Nat} (hv : v < (graph pb).n) :
    blockSize (graph pb) P v = (regionOf pb region (cellAt pb v)).ncard := by
  unfold blockSize
  rw [← image_block P region hc hv]
  refine (Set.ncard_image_of_injective _ ?_).symm
  intro a b hab
  simp only at hab
  apply Fin.ext
  rw [← vidx_cellAt (pb := pb) a.2, ← vidx_cellAt (pb := pb) b.2, hab]

include hc in
theorem block_conn {v : Nat} (hv : v < (graph pb).n) :
    ((toSimple (graph pb)).induce (blockOf (graph pb) P v)).Preconnected ↔
      (cellGraph.induce (regionOf pb region (cellAt pb v))).Preconnected := by
  have himg := image_block P region hc hv
  constructor
  · apply preconnected_transfer (fun w : Fin (graph pb).n => cellAt pb w.1)
    · intro a ha
      rw [← himg]; exact ⟨a, ha, rfl⟩
    · intro a _ b _ hab
      exact (adj_iff pb a b).1 hab
    · intro t ht
      rw [← himg] at ht
      obtain ⟨a, ha, rfl⟩ := ht
      exact ⟨a, ha, rfl⟩
  · let f' : Nat × Nat → Fin (graph pb).n := fun q =>
      if h : vidx pb q < (graph pb).n then ⟨vidx pb q, h⟩ else ⟨v, hv⟩
    have hf' : ∀ q, onBoard pb q = true → (f' q).1 = vidx pb q := by
      intro q hq
      simp only [f']
      rw [dif_pos (show vidx pb q < (graph pb).n from vidx_lt hq)]
    have hback : ∀ q, onBoard pb q = true → cellAt pb (f' q).1 = q := by
      intro q hq
      rw [hf' q hq, cellAt_vidx hq]
    apply preconnected_transfer f'
    · intro q hq
      rw [← himg] at hq
      obtain ⟨w, hw, rfl⟩ := hq
      have : f' (cellAt pb w.1) = w := by
        apply Fin.ext
        rw [hf' _ (onBoard_cellAt w.2), vidx_cellAt w.2]
      rw [this]; exact hw
    · intro a ha b hb hab
      rw [adj_iff, hback a ha.1, hback b hb.1]
      exact hab
    · intro w hw
      refine ⟨cellAt pb w.1, ?_, ?_⟩
      · rw [← himg]; exact ⟨w, hw, rfl⟩
      · apply Fin.ext
        rw [hf' _ (onBoard_cellAt w.2), vidx_cellAt w.2]

include hc in
/-- A partition of the vertices is valid for `group_size = 5` iff the corresponding region labelling obeys
rule 1. -/
theorem partitionOK_iff (σ : Asg) :
    PartitionOK (graph pb) P (sizeSpec σ (.scalar (.litI 5))) ↔
      ∀ p, onBoard pb p = true →
        (cellGraph.induce (regionOf pb region p)).Preconnected ∧ (regionOf pb region p).ncard = 5 := by
  have hs : ∀ v, sizeSpec σ (.scalar (.litI 5)) v = some 5 := by
    intro v
    simp [sizeSpec, eval]
  unfold PartitionOK
  constructor
  · rintro ⟨h1, h2⟩ p hp
    have hv : vidx pb p < (graph pb).n := vidx_lt hp
    have e := cellAt_vidx hp
    refine ⟨?_, ?_⟩
    · have := (block_conn P region hc hv).1 (h1 _ hv)
      rwa [e] at this
    · have := h2 _ 5 hv (hs _)
      rw [block_card P region hc hv, e] at this
      exact_mod_cast this
  · intro h
    refine ⟨?_, ?_⟩
    · intro v hv
      exact (block_conn P region hc hv).2 (h _ (onBoard_cellAt hv)).1
    · intro v s hv hsv
      rw [hs] at hsv
      cases hsv
      rw [block_card P region hc hv, (h _ (onBoard_cellAt hv)).2]
      rfl

end Blocks

end Cspuz.Proofs.C11FivecellsG
