/-
  C11 / shakashaka, program level, part 3 — what the posted constraints say about an assignment read as a grid.
-/
import CspuzModel.Proofs.C11ShakashakaP2
namespace Cspuz.Proofs.C11ShakashakaP3
open Cspuz Cspuz.Spec Cspuz.Puzzles Cspuz.Puzzles.Shakashaka Cspuz.Spec.Shakashaka Cspuz.Proofs
  Cspuz.Proofs.C11CL Cspuz.Proofs.C11ShakashakaDefs Cspuz.Proofs.C11ShakashakaP1 Cspuz.Proofs.C11ShakashakaP2

/-- The assignment `σ` read on the board is the grid `g`. -/
def Agree (pb : Problem) (σ : Asg) (g : Nat → Nat → Int) : Prop :=
  ∀ y, y < pb.height → ∀ x, x < pb.width → g y x = σ.i (y * pb.width + x)

variable {pb : Problem} {σ : Asg} {g : Nat → Nat → Int}

theorem eval_cv (hg : Agree pb σ g) {cy cx : Int} (hin : inB pb cy cx = true) :
    eval σ (cv pb cy cx) = some (.i (gv g cy cx)) := by
  simp only [inB, Bool.and_eq_true, decide_eq_true_eq] at hin
  obtain ⟨⟨⟨h1, h2⟩, h3⟩, h4⟩ := hin
  simp only [cv, eval_ivar, gv]
  rw [hg cy.toNat (by omega) cx.toNat (by omega)]

theorem eval_isValE (hg : Agree pb σ g) {cy cx : Int} (hin : inB pb cy cx = true) (v : Int) :
    eval σ (isValE pb cy cx v) = some (.b (decide (gv g cy cx = v))) := by
  unfold isValE
  rw [eval_cmp rfl (eval_cv hg hin) (eval_litI σ v), cmpOp_eq, beq_eq_decide]

theorem eval_dE (hg : Agree pb σ g) (y x : Int) (i : Nat) :
    eval σ (dE pb y x i) = some (.b (diagB pb g y x i)) := by
  unfold dE qD diagB onB
  cases hin : inB pb (qc y x (i / 2)).1 (qc y x (i / 2)).2
  · simp
  · simp only [if_true, Bool.true_and]
    exact eval_isValE hg hin _

theorem eval_eE (hg : Agree pb σ g) (y x : Int) (j : Nat) :
    eval σ (eE pb y x j) = some (.b (emptyB pb g y x j)) := by
  unfold eE qE emptyB whiteCell onB
  cases hin : inB pb (qc y x j).1 (qc y x j).2
  · simp
  · cases hn : (val pb (qc y x j).1.toNat (qc y x j).2.toNat).isNone
    · simp
    · simp only [Bool.and_self, if_true, Bool.true_and]
      exact eval_isValE hg hin _

/-- The truth values of the `is_white_angle` entries of quadrant `j`. -/
def waB (pb : Problem) (g : Nat → Nat → Int) (y x : Int) (j : Nat) : List Bool :=
  if whiteCell pb (qc y x j).1 (qc y x j).2 then [angleB pb g y x j] else []

theorem eval_wE (hg : Agree pb σ g) (y x : Int) (j : Nat) :
    (wE pb y x j).map (eval σ) = (waB pb g y x j).map fun b => some (.b b) := by
  unfold wE qW waB angleB whiteCell onB
  cases hin : inB pb (qc y x j).1 (qc y x j).2
  · simp
  · cases hn : (val pb (qc y x j).1.toNat (qc y x j).2.toNat).isNone
    · simp
    · simp only [Bool.and_self, if_true, Bool.true_and, List.map_cons, List.map_nil]
      rw [eval_node]
      simp only [List.map_cons, List.map_nil, eval_isValE hg hin]
      have := evalOp_or [decide (gv g (qc y x j).1 (qc y x j).2 = 0), decide (gv g (qc y x j).1 (qc y x j).2 = wval j)]
      simp only [List.map_cons, List.map_nil] at this
      rw [this]
      simp

theorem waB_count (pb : Problem) (g : Nat → Nat → Int) (y x : Int) (j : Nat) :
    (waB pb g y x j).count true = if angleB pb g y x j then 1 else 0 := by
  unfold waB angleB
  cases whiteCell pb (qc y x j).1 (qc y x j).2
  · simp
  · simp only [if_true, Bool.true_and]
    cases (decide (gv g (qc y x j).1 (qc y x j).2 = 0) || decide (gv g (qc y x j).1 (qc y x j).2 = wval j)) <;> simp

/-! ### The implications -/

theorem impOf_sem {di dj dk ej : Expr} {a b c d : Bool}
    (hdi : di = .litB false ∨ ∃ l, di = .node .eq l)
    (ha : eval σ di = some (.b a)) (hb : eval σ dj = some (.b b)) (hc : eval σ dk = some (.b c))
    (hd : eval σ ej = some (.b d)) :
    (∀ e ∈ impOf di dj dk ej, eval σ e = some (.b true)) ↔ (a = true → b = true ∨ (d = true ∧ c = true)) := by
  rcases hdi with rfl | ⟨l, rfl⟩
  · simp only [eval_litB, Option.some.injEq, Val.b.injEq] at ha
    subst ha
    simp [impOf]
  · have he := eval_thenRaw ha (eval_orE hb (eval_andE hd hc))
    unfold thenRaw at he
    simp only [impOf, List.mem_singleton, forall_eq, he, Option.some.injEq, Val.b.injEq]
    cases a <;> cases b <;> cases c <;> cases d <;> simp

theorem impL_sem (hg : Agree pb σ g) (y x : Int) (i : Nat) :
    (∀ e ∈ impL pb y x i, eval σ e = some (.b true)) ↔
      (diagB pb g y x i = true → diagB pb g y x (jk i).1 = true ∨
        (emptyB pb g y x ((jk i).1 / 2) = true ∧ diagB pb g y x (jk i).2 = true)) :=
  impOf_sem (dE_cases pb y x i) (eval_dE hg y x i) (eval_dE hg y x _) (eval_dE hg y x _) (eval_eE hg y x _)

/-- The first half of `PointOK`, in terms of `jk`. -/
theorem pointOK_imps (pb : Problem) (g : Nat → Nat → Int) (y x : Int) :
    (∀ i, i < 8 → diagB pb g y x i = true →
      if i % 2 = 0 then
        diagB pb g y x ((i + 3) % 8) = true ∨
          (emptyB pb g y x ((i + 3) % 8 / 2) = true ∧ diagB pb g y x ((i + 5) % 8) = true)
      else
        diagB pb g y x ((i + 5) % 8) = true ∨
          (emptyB pb g y x ((i + 5) % 8 / 2) = true ∧ diagB pb g y x ((i + 3) % 8) = true)) ↔
    ∀ i, i < 8 → (diagB pb g y x i = true → diagB pb g y x (jk i).1 = true ∨
        (emptyB pb g y x ((jk i).1 / 2) = true ∧ diagB pb g y x (jk i).2 = true)) := by
  apply forall_congr'; intro i
  apply forall_congr'; intro _
  apply forall_congr'; intro _
  unfold jk
  by_cases h : i % 2 = 0
  · simp [h]
  · simp [h]

/-! ### The angle count -/

theorem filter_range4 (f : Nat → Bool) :
    ((List.range 4).filter f).length =
      (if f 0 then 1 else 0) + (if f 1 then 1 else 0) + (if f 2 then 1 else 0) + (if f 3 then 1 else 0) := by
  rw [show List.range 4 = [0, 1, 2, 3] from rfl]
  cases h0 : f 0 <;> cases h1 : f 1 <;> cases h2 : f 2 <;> cases h3 : f 3 <;> simp [h0, h1, h2, h3]

theorem eval_angleC (hg : Agree pb σ g) (y x : Int) :
    eval σ (angleC pb y x) = some (.b true) ↔ ((List.range 4).filter fun j => angleB pb g y x j).length ≠ 3 := by
  have hm : (wE pb y x 0 ++ wE pb y x 1 ++ wE pb y x 2 ++ wE pb y x 3).map (eval σ) =
      (waB pb g y x 0 ++ waB pb g y x 1 ++ waB pb g y x 2 ++ waB pb g y x 3).map fun b => some (.b b) := by
    simp only [List.map_append, eval_wE hg]
  unfold angleC
  rw [eval_cmp rfl (eval_countTrueE _ hm) (eval_litI σ 3), filter_range4]
  simp only [List.count_append, waB_count, cmpOp_ne, Option.some.injEq, Val.b.injEq, bne_iff_ne, ne_eq]
  omega

theorem pointList_sem (hg : Agree pb σ g) (p : Nat × Nat) :
    (∀ e ∈ pointList pb p, eval σ e = some (.b true)) ↔ PointOK pb g p.1 p.2 := by
  unfold pointList PointOK
  rw [pointOK_imps, ← eval_angleC hg]
  simp only [List.mem_append, List.mem_flatten, List.mem_map, List.mem_range, List.mem_singleton]
  constructor
  · intro h
    refine ⟨fun i hi => (impL_sem hg _ _ i).1 fun e he => h e (Or.inl ⟨_, ⟨i, hi, rfl⟩, he⟩), h _ (Or.inr rfl)⟩
  · rintro ⟨h1, h2⟩ e (⟨l, ⟨i, hi, rfl⟩, he⟩ | rfl)
    · exact (impL_sem hg _ _ i).2 (h1 i hi) e he
    · exact h2

/-! ### The black cells -/

theorem nb_count (pb : Problem) (g : Nat → Nat → Int) {y x : Nat} (hy : y < pb.height) (hx : x < pb.width) :
    (neighbours pb.height pb.width (y : Int) (x : Int)).countP (fun q => decide (gv g q.1 q.2 ≠ 0))
      = trianglesAround pb g y x := by
  unfold neighbours trianglesAround
  rw [List.countP_filter]
  simp only [List.countP_cons, List.countP_nil, Nat.zero_add]
  have t1 : ((y : Int) - 1).toNat = y - 1 := by omega
  have t2 : ((y : Int) + 1).toNat = y + 1 := by omega
  have t3 : ((x : Int) - 1).toNat = x - 1 := by omega
  have t4 : ((x : Int) + 1).toNat = x + 1 := by omega
  have t5 : (y : Int).toNat = y := by omega
  have t6 : (x : Int).toNat = x := by omega
  simp only [gv, t1, t2, t3, t4, t5, t6, Bool.and_eq_true, decide_eq_true_eq]
  have e1 : (if g (y - 1) x ≠ 0 ∧ 0 ≤ (y : Int) - 1 ∧ (y : Int) - 1 < pb.height ∧ 0 ≤ (x : Int) ∧ (x : Int) < pb.width
      then 1 else 0) = (if 0 < y ∧ g (y - 1) x ≠ 0 then 1 else 0) :=
    if_congr ⟨fun ⟨a, _⟩ => ⟨by omega, a⟩, fun ⟨_, b⟩ => ⟨b, by omega⟩⟩ rfl rfl
  have e2 : (if g (y + 1) x ≠ 0 ∧ 0 ≤ (y : Int) + 1 ∧ (y : Int) + 1 < pb.height ∧ 0 ≤ (x : Int) ∧ (x : Int) < pb.width
      then 1 else 0) = (if y + 1 < pb.height ∧ g (y + 1) x ≠ 0 then 1 else 0) :=
    if_congr ⟨fun ⟨a, _⟩ => ⟨by omega, a⟩, fun ⟨_, b⟩ => ⟨b, by omega⟩⟩ rfl rfl
  have e3 : (if g y (x - 1) ≠ 0 ∧ 0 ≤ (y : Int) ∧ (y : Int) < pb.height ∧ 0 ≤ (x : Int) - 1 ∧ (x : Int) - 1 < pb.width
      then 1 else 0) = (if 0 < x ∧ g y (x - 1) ≠ 0 then 1 else 0) :=
    if_congr ⟨fun ⟨a, _⟩ => ⟨by omega, a⟩, fun ⟨_, b⟩ => ⟨b, by omega⟩⟩ rfl rfl
  have e4 : (if g y (x + 1) ≠ 0 ∧ 0 ≤ (y : Int) ∧ (y : Int) < pb.height ∧ 0 ≤ (x : Int) + 1 ∧ (x : Int) + 1 < pb.width
      then 1 else 0) = (if x + 1 < pb.width ∧ g y (x + 1) ≠ 0 then 1 else 0) :=
    if_congr ⟨fun ⟨a, _⟩ => ⟨by omega, a⟩, fun ⟨_, b⟩ => ⟨b, by omega⟩⟩ rfl rfl
  rw [e1, e2, e3, e4]
  ac_rfl

theorem eval_count_nb (hg : Agree pb σ g) {y x : Nat} (hy : y < pb.height) (hx : x < pb.width) :
    eval σ (countTrueE (nbNe pb y x)) = some (.i ((trianglesAround pb g y x : Nat) : Int)) := by
  have hm : (nbNe pb y x).map (eval σ) =
      ((neighbours pb.height pb.width (y : Int) (x : Int)).map fun q => decide (gv g q.1 q.2 ≠ 0)).map
        fun b => some (.b b) := by
    unfold nbNe
    rw [List.map_map, List.map_map]
    apply List.map_congr_left
    intro q hq
    obtain ⟨h1, h2, h3, h4⟩ := Cspuz.Proofs.C12Conv.mem_neighbours hq
    have hin : inB pb q.1 q.2 = true := by simp [inB, h1, h2, h3, h4]
    simp only [Function.comp]
    rw [eval_cmp rfl (eval_cv hg hin) (eval_litI σ 0), cmpOp_ne]
    simp [bne, beq_eq_decide]
  rw [eval_countTrueE _ hm, List.count_eq_countP, List.countP_map, ← nb_count pb g hy hx]
  congr 4
  funext q; simp

theorem blackList_sem (hg : Agree pb σ g) {p : Nat × Nat} (hy : p.1 < pb.height) (hx : p.2 < pb.width) :
    (∀ e ∈ blackList pb p, eval σ e = some (.b true)) ↔
      ∀ v, val pb p.1 p.2 = some v → g p.1 p.2 = 0 ∧ (0 ≤ v → (trianglesAround pb g p.1 p.2 : Int) = v) := by
  unfold blackList
  cases hv : val pb p.1 p.2 with
  | none => simp
  | some v =>
    have h0 : eval σ (.node .eq [.ivar (p.1 * pb.width + p.2), .litI 0]) = some (.b (decide (g p.1 p.2 = 0))) := by
      rw [eval_cmp rfl (eval_ivar σ _) (eval_litI σ 0), cmpOp_eq, beq_eq_decide, hg _ hy _ hx]
    have h1 : eval σ (.node .eq [countTrueE (nbNe pb p.1 p.2), .litI v])
        = some (.b (decide (((trianglesAround pb g p.1 p.2 : Nat) : Int) = v))) := by
      rw [eval_cmp rfl (eval_count_nb hg hy hx) (eval_litI σ v), cmpOp_eq, beq_eq_decide]
    by_cases hv0 : v ≥ 0
    · simp [hv0, h0, h1]
    · simp [hv0, h0]

/-- The constraints of the posted program, read on the grid. -/
theorem closed_sem (hg : Agree pb σ g) :
    (∀ e ∈ closedCs pb, eval σ e = some (.b true)) ↔
      (∀ y, y < pb.height → ∀ x, x < pb.width → ∀ v, val pb y x = some v →
        g y x = 0 ∧ (0 ≤ v → (trianglesAround pb g y x : Int) = v)) ∧
      (∀ y : Nat, y ≤ pb.height → ∀ x : Nat, x ≤ pb.width → PointOK pb g y x) := by
  unfold closedCs
  simp only [List.mem_append, List.mem_flatten, List.mem_map]
  constructor
  · intro h
    refine ⟨fun y hy x hx => (blackList_sem hg (p := (y, x)) hy hx).1 fun e he =>
        h e (Or.inl ⟨_, ⟨(y, x), C11Norinori.mem_cellsOf.2 ⟨hy, hx⟩, rfl⟩, he⟩),
      fun y hy x hx => (pointList_sem hg (y, x)).1 fun e he =>
        h e (Or.inr ⟨_, ⟨(y, x), C11Norinori.mem_cellsOf.2 ⟨Nat.lt_succ_of_le hy, Nat.lt_succ_of_le hx⟩, rfl⟩, he⟩)⟩
  · rintro ⟨h1, h2⟩ e (⟨l, ⟨p, hp, rfl⟩, he⟩ | ⟨l, ⟨p, hp, rfl⟩, he⟩)
    · obtain ⟨hy, hx⟩ := C11Norinori.mem_cellsOf.1 hp
      exact (blackList_sem hg hy hx).2 (h1 p.1 hy p.2 hx) e he
    · obtain ⟨hy, hx⟩ := C11Norinori.mem_cellsOf.1 hp
      exact (pointList_sem hg p).2 (h2 p.1 (Nat.le_of_lt_succ hy) p.2 (Nat.le_of_lt_succ hx)) e he

end Cspuz.Proofs.C11ShakashakaP3
