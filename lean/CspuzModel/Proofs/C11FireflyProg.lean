/-
  C11 / firefly — the program of `solve_firefly` in closed form on every well-formed instance (`program_eq`), hence
  totality, the key list, and well-typedness of every constraint.
-/
import CspuzModel.Proofs.C11FireflyCell
import CspuzModel.Proofs.C11Loop
import CspuzModel.Proofs.C11FragWT
import CspuzModel.Proofs.C11Frag
namespace Cspuz.Proofs.C11FireflyProg
open Cspuz Cspuz.Spec Cspuz.Spec.FrameGeom Cspuz.Puzzles Cspuz.Puzzles.Firefly Cspuz.Puzzles.Loop Cspuz.Proofs
open Cspuz.Spec.Firefly (clue WellFormed)
open Cspuz.Proofs.C11FireflyTop Cspuz.Proofs.C11FireflyCell

/-! ### reading the problem table -/

theorem clueAt_eq {pb : Problem} (hw : WellFormed pb) {y x : Nat} (hy : y < pb.height) (hx : x < pb.width) :
    clueAt pb y x = .ok (clue pb y x) := by
  obtain ⟨_, _, hlen, hrows, _⟩ := hw
  unfold clueAt clue
  have hy' : y < pb.problem.length := by rw [hlen]; exact hy
  have hrow : pb.problem[y]? = some pb.problem[y] := List.getElem?_eq_getElem hy'
  have hl : pb.problem[y].length = pb.width := hrows _ (List.getElem_mem hy')
  have hx' : x < pb.problem[y].length := by rw [hl]; exact hx
  simp only [bind, Except.bind]
  rw [C14.pyIndex_nat _ _ _ hrow]
  simp only
  rw [C14.pyIndex_nat _ _ _ (List.getElem?_eq_getElem hx')]
  simp [List.getD, hrow, List.getElem?_eq_getElem hx']

/-! ### `max_n_turn` -/

theorem mem_cellsOf {h w : Nat} {p : Nat × Nat} : p ∈ cellsOf h w ↔ p.1 < h ∧ p.2 < w := by
  unfold cellsOf
  simp only [List.mem_flatMap, List.mem_map, List.mem_range]
  constructor
  · rintro ⟨y, hy, x, hx, rfl⟩; exact ⟨hy, hx⟩
  · rintro ⟨hy, hx⟩; exact ⟨p.1, hy, p.2, hx, rfl⟩

def maxStepS (pb : Problem) (m : Int) (p : Nat × Nat) : Int :=
  match clue pb p.1 p.2 with
  | .fly _ (.num n) => if m < n then n else m
  | _ => m

def maxNS (pb : Problem) : Int := (cellsOf pb.height pb.width).foldl (maxStepS pb) 0

theorem foldlM_eq_ok {α β : Type} (f : β → α → Py β) (g : β → α → β) :
    ∀ (l : List α) (b : β), (∀ a ∈ l, ∀ b, f b a = .ok (g b a)) → l.foldlM f b = .ok (l.foldl g b)
  | [], b, _ => rfl
  | a :: l, b, h => by
    rw [List.foldlM_cons, h a (List.mem_cons_self ..) b]
    exact foldlM_eq_ok f g l (g b a) (fun a' ha' => h a' (List.mem_cons_of_mem _ ha'))

theorem maxStep_eq {pb : Problem} (hw : WellFormed pb) {p : Nat × Nat} (hp : p ∈ cellsOf pb.height pb.width) (m : Int) :
    maxStep pb m p = .ok (maxStepS pb m p) := by
  obtain ⟨hy, hx⟩ := mem_cellsOf.mp hp
  unfold maxStep maxStepS
  rw [clueAt_eq hw hy hx]
  simp only [bind, Except.bind]
  rcases hw.2.2.2.2.1 p.1 hy p.2 hx with h | ⟨d, h⟩ | ⟨d, n, h⟩ <;> rw [h]

theorem maxNTurn_eq {pb : Problem} (hw : WellFormed pb) : maxNTurn pb = .ok (maxNS pb) :=
  foldlM_eq_ok _ _ _ _ (fun _ hp m => maxStep_eq hw hp m)

theorem foldl_maxStepS_nonneg (pb : Problem) : ∀ (l : List (Nat × Nat)) (m : Int), 0 ≤ m → 0 ≤ l.foldl (maxStepS pb) m
  | [], m, h => h
  | p :: l, m, h => by
    apply foldl_maxStepS_nonneg pb l
    unfold maxStepS
    split
    · split <;> omega
    · exact h

theorem maxNS_nonneg (pb : Problem) : 0 ≤ maxNS pb := foldl_maxStepS_nonneg pb _ 0 (Int.le_refl 0)

/-! ### one cell, one row -/

def targetOf (n : Num) (unk : Int) : Int :=
  match n with
  | .num k => k
  | _ => unk

/-- What a firefly cell posts, and whether it leaves the row (`break`, when the dot points off the board). -/
def flyPart (adj : List (Option Adj)) (k : Nat) (target unk : Int) : List Expr × Bool :=
  match adj[k]? with
  | some (some a) => (flyE adj k a target unk, false)
  | _ => ([.litB false], true)

/-- What the body of the main loop posts for the cell `(y, x)`, and whether it leaves the row (`break`). -/
def cellE (pb : Problem) (H W : Nat) (unk : Int) (y x : Nat) : List Expr × Bool :=
  match clue pb y x with
  | .empty => (emptyE (adjS H W y x) unk, false)
  | .fly (some d) n => flyPart (adjS H W y x) d.idx (targetOf n unk) unk
  | _ => ([], false)

theorem adjS_idx (H W y x : Nat) (d : Dir) : ∃ e, (adjS H W y x)[d.idx]? = some e := by
  cases d <;> exact ⟨_, rfl⟩

theorem flyCs_eq (H W y x : Nat) (d : Dir) (target unk : Int) :
    flyCs (adjS H W y x) d.idx target unk = .ok (flyPart (adjS H W y x) d.idx target unk) := by
  obtain ⟨e, he⟩ := adjS_idx H W y x d
  unfold flyPart
  cases e with
  | none => rw [flyCs_none _ _ he, he]
  | some a => rw [flyCs_some _ (adjS_var H W y x) _ a he, he]

theorem cellCs_eq {pb : Problem} (hw : WellFormed pb) {H W : Nat} (hH : pb.height = H + 1) (hW : pb.width = W + 1)
    (maxN : Int) {y x : Nat} (hy : y ≤ H) (hx : x ≤ W) :
    cellCs pb (mkVars (H + 1) (W + 1)) maxN y x = .ok (cellE pb H W (maxN + 1) y x) := by
  unfold cellCs cellE
  rw [hH, hW, adjOf_eq H W y x hy hx, clueAt_eq hw (by omega) (by omega)]
  simp only [bind, Except.bind]
  rcases hw.2.2.2.2.1 y (by omega) x (by omega) with h | ⟨d, h⟩ | ⟨d, n, h⟩ <;> rw [h] <;> simp only
  · rw [emptyCs_eq _ (adjS_var H W y x)]
  · rw [flyCs_eq]; rfl
  · rw [flyCs_eq]; rfl

def rowE (g : Nat → List Expr × Bool) : List Nat → List Expr
  | [] => []
  | x :: xs => if (g x).2 then (g x).1 else (g x).1 ++ rowE g xs

theorem rowCs_eq (f : Nat → Py (List Expr × Bool)) (g : Nat → List Expr × Bool) :
    ∀ xs : List Nat, (∀ x ∈ xs, f x = .ok (g x)) → rowCs f xs = .ok (rowE g xs)
  | [], _ => rfl
  | x :: xs, h => by
    unfold rowCs rowE
    rw [h x (List.mem_cons_self ..)]
    simp only [bind, Except.bind]
    by_cases hb : (g x).2 = true
    · simp only [hb, if_true]
    · simp only [hb]
      rw [rowCs_eq f g xs (fun x' hx' => h x' (List.mem_cons_of_mem _ hx'))]
      rfl

/-! ### the whole program -/

/-- The array-level constraints. -/
def topE (H W : Nat) : List Expr :=
  let N := Frame.numVars H W
  orientIff N ++ orientNot N ++ [ignoredOne N] ++
    (List.range ((H + 1) * W)).map (rankHE .lt W N (3 * N) (4 * N)) ++
    (List.range (H * (W + 1))).map (rankVE .lt W (N + (H + 1) * W) (3 * N + (H + 1) * W) (4 * N)) ++
    (List.range ((H + 1) * W)).map (rankHE .gt W (2 * N) (3 * N) (4 * N)) ++
    (List.range (H * (W + 1))).map (rankVE .gt W (2 * N + (H + 1) * W) (3 * N + (H + 1) * W) (4 * N))

/-- The per-cell constraints, row by row. -/
def rowsE (pb : Problem) (H W : Nat) : List Expr :=
  ((List.range (H + 1)).map fun y => rowE (cellE pb H W (maxNS pb + 1) y) (List.range (W + 1))).flatten

def declsE (pb : Problem) (H W : Nat) : List VarDecl :=
  List.replicate (4 * Frame.numVars H W) .bool ++
    List.replicate ((H + 1) * (W + 1)) (.int 0 (((H + 1 : Nat) : Int) * ((W + 1 : Nat) : Int) - 1)) ++
    List.replicate ((H + 1) * W) (.int 0 (maxNS pb + 1)) ++ List.replicate (H * (W + 1)) (.int 0 (maxNS pb + 1))

def progE (pb : Problem) (H W : Nat) : PuzzleProg :=
  { decls := declsE pb H W, cs := topE H W ++ rowsE pb H W, keys := List.range (Frame.numVars H W) }

theorem program_eq {pb : Problem} (hw : WellFormed pb) {H W : Nat} (hH : pb.height = H + 1) (hW : pb.width = W + 1) :
    program pb = .ok (progE pb H W) := by
  unfold program
  rw [if_neg (by omega)]
  have hrows : (List.range pb.height).mapM (fun y => rowCs (cellCs pb (mkVars pb.height pb.width) (maxNS pb) y) (List.range pb.width))
      = .ok ((List.range (H + 1)).map fun y => rowE (cellE pb H W (maxNS pb + 1) y) (List.range (W + 1))) := by
    rw [hH, hW]
    apply mapM_eq_ok_map
    intro y hy
    apply rowCs_eq
    intro x hx
    exact cellCs_eq hw hH hW _ (by have := List.mem_range.mp hy; omega) (by have := List.mem_range.mp hx; omega)
  have hr : intArrayDecls (pb.height * pb.width) 0 ((pb.height : Int) * (pb.width : Int) - 1)
      = .ok (List.replicate ((H + 1) * (W + 1)) (.int 0 (((H + 1 : Nat) : Int) * ((W + 1 : Nat) : Int) - 1))) := by
    rw [hH, hW]
    unfold intArrayDecls
    rw [if_neg]
    have : (1 : Int) ≤ ((H + 1 : Nat) : Int) * ((W + 1 : Nat) : Int) := by
      rw [← Int.natCast_mul]
      have : 1 ≤ (H + 1) * (W + 1) := Nat.mul_pos (Nat.succ_pos _) (Nat.succ_pos _)
      omega
    omega
  have hd : ∀ n : Nat, intArrayDecls n 0 (maxNS pb + 1) = .ok (List.replicate n (.int 0 (maxNS pb + 1))) := by
    intro n
    unfold intArrayDecls
    rw [if_neg]
    have := maxNS_nonneg pb
    omega
  simp only [bind, Except.bind]
  rw [maxNTurn_eq hw, hr]
  simp only [hd, hrows]
  simp only [hH, hW, nEdges, Nat.add_sub_cancel, mkVars_eq]
  rw [C11Loop.frameKeys_eq, orientCs_eq, ignoredCs_eq]
  simp only
  have fh : ∀ b, (Frame.fresh b H W).horizontal = ⟨H + 1, W, bvars b ((H + 1) * W)⟩ := fun _ => rfl
  have fv : ∀ b, (Frame.fresh b H W).vertical = ⟨H, W + 1, bvars (b + (H + 1) * W) (H * (W + 1))⟩ := fun _ => rfl
  simp only [fh, fv]
  rw [rankH_eq .lt .lt (Or.inl ⟨rfl, rfl⟩), rankV_eq .lt .lt (Or.inl ⟨rfl, rfl⟩),
    rankH_eq .gt .gt (Or.inr ⟨rfl, rfl⟩), rankV_eq .gt .gt (Or.inr ⟨rfl, rfl⟩)]
  rfl

/-! ### well-typedness -/

theorem mem_rowE {g : Nat → List Expr × Bool} {c : Expr} : ∀ {xs : List Nat}, c ∈ rowE g xs → ∃ x ∈ xs, c ∈ (g x).1
  | [], h => by cases h
  | x :: xs, h => by
    unfold rowE at h
    split at h
    · exact ⟨x, List.mem_cons_self .., h⟩
    · rcases List.mem_append.mp h with h | h
      · exact ⟨x, List.mem_cons_self .., h⟩
      · obtain ⟨x', hx', hc⟩ := mem_rowE h
        exact ⟨x', List.mem_cons_of_mem _ hx', hc⟩

theorem wt_flySideE (unk : Int) (a : Adj) (ha : VarAdj a) : ∀ c ∈ flySideE unk a, wtB c = true := by
  obtain ⟨i, o, t, rfl⟩ := ha
  intro c hc
  simp only [flySideE, List.mem_cons, List.not_mem_nil, or_false] at hc
  rcases hc with rfl | rfl <;> rfl

theorem wt_pairE (unk : Int) (i j : Nat) (a b : Adj) (ha : VarAdj a) (hb : VarAdj b) : wtB (pairE unk i j a b) = true := by
  obtain ⟨i1, o1, t1, rfl⟩ := ha
  obtain ⟨i2, o2, t2, rfl⟩ := hb
  unfold pairE
  split <;> rfl

theorem wt_flyRestE (adj : List (Option Adj)) (hadj : VarAdjs adj) (outIdx : Nat) (unk : Int) :
    ∀ c ∈ flyRestE adj outIdx unk, wtB c = true := by
  intro c hc
  simp only [flyRestE, List.mem_flatten, List.mem_map] at hc
  obtain ⟨l, ⟨ai, hai, rfl⟩, hcl⟩ := hc
  have hm := mem_of_mem_zipIdx hai
  rcases ai with ⟨a, k⟩
  cases a with
  | none => simp [flyRestStepE] at hcl
  | some b =>
    simp only [flyRestStepE] at hcl
    split at hcl
    · exact wt_flySideE unk b (hadj b hm) c hcl
    · cases hcl

theorem wt_flyE (adj : List (Option Adj)) (hadj : VarAdjs adj) (outIdx : Nat) (a : Adj) (ha : VarAdj a)
    (target unk : Int) : ∀ c ∈ flyE adj outIdx a target unk, wtB c = true := by
  obtain ⟨i, o, t, rfl⟩ := ha
  intro c hc
  simp only [flyE, List.mem_cons] at hc
  rcases hc with rfl | rfl | hc
  · rfl
  · rfl
  · exact wt_flyRestE adj hadj outIdx unk c hc

theorem wt_pairsE (adj : List (Option Adj)) (hadj : VarAdjs adj) (unk : Int) : ∀ c ∈ pairsE adj unk, wtB c = true := by
  intro c hc
  simp only [pairsE, List.mem_flatten, List.mem_map] at hc
  obtain ⟨l, ⟨ll, ⟨ai, hai, rfl⟩, rfl⟩, hcl⟩ := hc
  simp only [List.mem_flatten, List.mem_map] at hcl
  obtain ⟨l2, ⟨bj, hbj, rfl⟩, hc2⟩ := hcl
  have hm1 := mem_of_mem_zipIdx hai
  have hm2 := mem_of_mem_zipIdx hbj
  rcases ai with ⟨a, k⟩
  rcases bj with ⟨b, k'⟩
  cases a with
  | none => simp [pairStepE] at hc2
  | some a =>
    cases b with
    | none => simp [pairStepE] at hc2
    | some b =>
      simp only [pairStepE] at hc2
      split at hc2
      · simp only [List.mem_cons, List.not_mem_nil, or_false] at hc2
        subst hc2
        exact wt_pairE unk k k' a b (hadj a hm1) (hadj b hm2)
      · cases hc2

theorem wt_present (adj : List (Option Adj)) (hadj : VarAdjs adj) :
    (∀ x ∈ (adj.filterMap id).map Adj.inE, wtB x = true) ∧ (∀ x ∈ (adj.filterMap id).map Adj.outE, wtB x = true) := by
  constructor <;>
  · intro x hx
    simp only [List.mem_map, List.mem_filterMap, id] at hx
    obtain ⟨a, ⟨oa, hoa, rfl⟩, rfl⟩ := hx
    obtain ⟨i, o, t, rfl⟩ := hadj a hoa
    rfl

theorem wt_emptyE (adj : List (Option Adj)) (hadj : VarAdjs adj) (unk : Int) : ∀ c ∈ emptyE adj unk, wtB c = true := by
  obtain ⟨hin, hout⟩ := wt_present adj hadj
  intro c hc
  simp only [emptyE, List.mem_cons] at hc
  rcases hc with rfl | rfl | hc
  · exact C11FragWT.wtB_cmp_countTrueE .le rfl _ 1 hin
  · have h1 := C11FragWT.wtI_countTrueE _ hin
    have h2 := C11FragWT.wtI_countTrueE _ hout
    simp only [wtB, wtIs, inCount, outCount, h1, h2, List.length_cons, List.length_nil, Bool.and_self, Bool.and_true]
    rfl
  · exact wt_pairsE adj hadj unk c hc

theorem wt_cellE (pb : Problem) (H W : Nat) (unk : Int) (y x : Nat) : ∀ c ∈ (cellE pb H W unk y x).1, wtB c = true := by
  intro c hc
  unfold cellE at hc
  split at hc
  · exact wt_emptyE _ (adjS_var H W y x) unk c hc
  · unfold flyPart at hc
    split at hc
    · next a ha =>
      exact wt_flyE _ (adjS_var H W y x) _ a (adjS_var H W y x a (List.mem_of_getElem? ha)) _ _ c hc
    · simp only [List.mem_cons, List.not_mem_nil, or_false] at hc
      subst hc; rfl
  · cases hc

theorem wt_topE (H W : Nat) : ∀ c ∈ topE H W, wtB c = true := by
  intro c hc
  simp only [topE, List.mem_append, List.mem_map, List.mem_cons, List.not_mem_nil, or_false, orientIff, orientNot] at hc
  rcases hc with (((((⟨i, _, rfl⟩ | ⟨i, _, rfl⟩) | rfl) | ⟨i, _, rfl⟩) | ⟨i, _, rfl⟩) | ⟨i, _, rfl⟩) | ⟨i, _, rfl⟩
  · rfl
  · rfl
  · exact C11FragWT.wtB_cmp_countTrueE .eq rfl _ 1 (by
      intro x hx; simp only [bvars, List.mem_map] at hx; obtain ⟨i, _, rfl⟩ := hx; rfl)
  · rfl
  · rfl
  · rfl
  · rfl

theorem wt_progE (pb : Problem) (H W : Nat) : ∀ c ∈ (progE pb H W).cs, wtB c = true := by
  intro c hc
  simp only [progE, List.mem_append] at hc
  rcases hc with hc | hc
  · exact wt_topE H W c hc
  · simp only [rowsE, List.mem_flatten, List.mem_map] at hc
    obtain ⟨l, ⟨y, _, rfl⟩, hcl⟩ := hc
    obtain ⟨x, _, hcx⟩ := mem_rowE hcl
    exact wt_cellE pb H W _ y x c hcx

theorem keysOk_progE (pb : Problem) (H W : Nat) : (progE pb H W).KeysOk := by
  apply C11Frag.keysOk_range_le
  simp only [declsE, List.length_append, List.length_replicate]
  omega

/-! ### summary -/

theorem dims {pb : Problem} (hw : WellFormed pb) : ∃ H W, pb.height = H + 1 ∧ pb.width = W + 1 :=
  ⟨pb.height - 1, pb.width - 1, by have := hw.1; omega, by have := hw.2.1; omega⟩

theorem total {pb : Problem} (hw : WellFormed pb) : ∃ P, program pb = .ok P := by
  obtain ⟨H, W, hH, hW⟩ := dims hw
  exact ⟨_, program_eq hw hH hW⟩

theorem keys_wt {pb : Problem} (hw : WellFormed pb) (P : PuzzleProg) (hP : program pb = .ok P) :
    P.KeysOk ∧ ∀ c ∈ P.cs, wtB c = true := by
  obtain ⟨H, W, hH, hW⟩ := dims hw
  rw [program_eq hw hH hW] at hP
  cases hP
  exact ⟨keysOk_progE pb H W, wt_progE pb H W⟩

end Cspuz.Proofs.C11FireflyProg
