/-
  C19, part 2: soundness of `generate_problem` (induction over the neighbour loop and the step loop).
-/
import CspuzModel.Proofs.C19Rand
namespace Cspuz.Gen
open Cspuz

variable {P N A : Type}

/-- What a `found` outcome guarantees. -/
def FoundOk (cfg : GenCfg P N A) : Outcome P × List P → Prop
  | (.found p, tr) => Accepted cfg tr p ∧ tr.getLast? = some p
  | _ => True

theorem tryNbrs_sound (cfg : GenCfg P N A) (problem : P) (cur : Option Int) (step : Nat) :
    ∀ (ns : List N) (tr : List P), Post (tryNbrs cfg problem cur step ns tr) (FoundOk cfg)
  | [], tr => Post.pure trivial
  | n :: ns, tr => by
    unfold tryNbrs
    refine Post.bind (R := fun _ => True) (fun _ _ _ _ => trivial) fun np _ => ?_
    by_cases hpre : cfg.pretestOk np = true
    · simp only [hpre, Bool.not_true, Bool.false_eq_true, if_false]
      by_cases hsat : (cfg.solver tr.length np).1 = true
      · simp only [hsat, Bool.not_true, Bool.false_eq_true, if_false]
        by_cases huniq : cfg.uniqueness (cfg.solver tr.length np).2 = true
        · simp only [huniq, if_true]
          refine Post.pure ⟨⟨tr.length, by simp, hsat, huniq, hpre⟩, by simp⟩
        · simp only [huniq, Bool.false_eq_true, if_false]
          cases cur with
          | none => exact Post.pure trivial
          | some cs =>
            simp only
            split
            · exact Post.pure trivial
            · refine Post.bind (R := fun _ => True) (fun _ _ _ _ => trivial) fun num _ => ?_
              split
              · exact Post.pure trivial
              · exact tryNbrs_sound cfg problem (some cs) step ns _
      · simp only [hsat, Bool.not_false, if_true]
        exact tryNbrs_sound cfg problem cur step ns _
    · simp only [hpre, Bool.not_false, if_true]
      exact tryNbrs_sound cfg problem cur step ns tr

/-- What a returned problem guarantees. -/
def ResultOk (cfg : GenCfg P N A) (r : Option P × List P) : Prop :=
  ∀ p, r.1 = some p → Accepted cfg r.2 p ∧ r.2.getLast? = some p

theorem stepLoop_sound (cfg : GenCfg P N A) :
    ∀ (k step : Nat) (problem : P) (cur : Option Int) (tr : List P),
      Post (stepLoop cfg k step problem cur tr) (ResultOk cfg)
  | 0, _, _, _, tr => Post.pure (by intro p h; cases h)
  | k + 1, step, problem, cur, tr => by
    unfold stepLoop
    refine Post.bind (R := fun _ => True) (fun _ _ _ _ => trivial) fun ns _ => ?_
    refine Post.bind (tryNbrs_sound cfg problem cur step ns tr) fun r hr => ?_
    obtain ⟨out, tr'⟩ := r
    cases out with
    | found p =>
      refine Post.pure ?_
      intro q hq
      cases hq
      exact hr
    | moved p sc => exact stepLoop_sound cfg k (step + 1) p (some sc) tr'
    | exhausted => exact stepLoop_sound cfg k (step + 1) problem cur tr'

theorem generate_sound (cfg : GenCfg P N A) (initial : P) : Post (generate cfg initial) (ResultOk cfg) := by
  unfold generate
  simp only
  split
  · split
    · exact Post.pure (by intro p h; cases h)
    · exact stepLoop_sound cfg _ _ _ _ _
  · exact stepLoop_sound cfg _ _ _ _ _

end Cspuz.Gen
