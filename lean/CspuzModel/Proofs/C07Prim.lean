/-
  C07, native-primitive route: the reference semantics `divSem` of `graph-division` is `BordersOK`
  (regions = components after cutting the border edges), and the primitive encoding of
  `_division_connected_variable_groups_with_borders` is exact.
-/
import Mathlib.Combinatorics.SimpleGraph.Acyclic
import Mathlib.Data.Set.Card
import CspuzModel.Model.Graph
import CspuzModel.Spec.C07Spec
import CspuzModel.Proofs.EvalLemmas
import CspuzModel.Proofs.C04Prim
namespace Cspuz.Proofs.C07Prim
open Cspuz Cspuz.Spec Cspuz.Proofs Cspuz.Proofs.C04Prim

/-! ### Part 1: decoding the operands of the `graph-division` node -/

theorem optInts_map (l : List (Option Int)) :
    optInts (l.map fun o => o.map Val.i) = some l := by
  induction l with
  | nil => rfl
  | cons a r ih => cases a <;> simp [optInts, ih]

theorem evalDiv_lits (n : Nat) (sz : List (Option Int)) (es : List (Nat × Nat)) (bd : List Bool)
    (hsz : sz.length = n) (hbd : bd.length = es.length) :
    evalDiv (some (.i n) :: some (.i es.length) ::
      (sz.map (fun o => o.map Val.i) ++
        ((intsOf es).map (fun i => some (.i i)) ++ bd.map (fun b => some (.b b))))) =
      some (.b (divSem n sz es bd)) := by
  have hA : (sz.map (fun o => o.map Val.i)).length = n := by simp [hsz]
  have hE : ((intsOf es).map (fun i => some (Val.i i))).length = 2 * es.length := by
    simp [length_intsOf]
  have hlen : (sz.map (fun o => o.map Val.i) ++
        ((intsOf es).map (fun i => some (Val.i i)) ++ bd.map (fun b => some (Val.b b)))).length
      = n + 3 * es.length := by
    simp [length_intsOf, hsz, hbd]; omega
  have h3 : List.drop (n + 2 * es.length) (sz.map (fun o => o.map Val.i) ++
        ((intsOf es).map (fun i => some (Val.i i)) ++ bd.map (fun b => some (Val.b b)))) =
      bd.map (fun b => some (Val.b b)) := by
    rw [← List.drop_drop, List.drop_left' hA, List.drop_left' hE]
  simp only [evalDiv, Int.toNat_natCast]
  rw [if_neg (by simp [hlen]), h3, List.take_left' hA, List.drop_left' hA, List.take_left' hE,
    optInts_map, allInts_map, allBools_map]
  simp only [pairUp_intsOf]

theorem map_eval_sizes {base : Nat} {σ σ' : Asg} {gs : List (Option Expr)} {n : Nat}
    (hs : SizeArgs base n (.perVertex gs)) (h : AgreeBelow base σ σ') :
    (gs.map fun x => x.getD .litNone).map (eval σ') =
      ((List.range n).map (sizeSpec σ (.perVertex gs))).map (fun o => o.map Val.i) := by
  obtain ⟨hlen, hwt⟩ := hs
  apply List.ext_getElem
  · simp [hlen]
  · intro i h1 h2
    simp only [List.length_map] at h1
    simp only [List.getElem_map, List.getElem_range, sizeSpec, List.getElem?_eq_getElem h1]
    cases hx : gs[i] with
    | none => simp
    | some e =>
      have hm : some e ∈ gs := hx ▸ List.getElem_mem h1
      obtain ⟨hw, hv⟩ := hwt e hm
      obtain ⟨x, hx'⟩ := wtI_eval σ e hw
      have : eval σ' e = some (.i x) := by rw [← eval_congr_of_varsBelow h e hv, hx']
      simp [this, hx']

theorem eval_divNode {base : Nat} {σ σ' : Asg} (g : Graph) {gs : List (Option Expr)}
    {border : List Expr} (hs : SizeArgs base g.n (.perVertex gs))
    (hblen : border.length = g.edges.length) (hl : BoolArgs base border)
    (h : AgreeBelow base σ σ') :
    eval σ' (.node .graphDiv ([.litI g.n, .litI g.edges.length] ++
        gs.map (fun x => x.getD .litNone) ++ edgeLits g.edges ++ border)) =
      some (.b (divSem g.n ((List.range g.n).map (sizeSpec σ (.perVertex gs))) g.edges
        ((List.range g.edges.length).map (truthAt σ border)))) := by
  rw [eval_node]
  simp only [List.map_append, List.map_cons, eval_litI, evalOp, List.cons_append,
    List.nil_append, List.append_assoc]
  rw [map_eval_sizes hs h, map_eval_boolArgs hl h, map_eval_edgeLits, hblen]
  exact evalDiv_lits g.n _ g.edges _ (by simp) (by simp)

/-! ### Part 2: `divSem` is `BordersOK` -/

theorem getD_map_range' {α : Type} (m : Nat) (f : Nat → α) (k : Nat) (d : α) (hk : k < m) :
    ((List.range m).map f).getD k d = f k := by
  simp [List.getD_eq_getElem?_getD, hk]

/-- the edges that `divSem` keeps: the non-border ones. -/
def usableD (g : Graph) (bd : Nat → Bool) : List (Nat × Nat) :=
  (List.range g.edges.length).filterMap fun k =>
    if ((List.range g.edges.length).map bd).getD k true then none else g.edges[k]?

theorem mem_usableD (g : Graph) (bd : Nat → Bool) (a b : Nat) :
    (a, b) ∈ usableD g bd ↔ ∃ k, bd k = false ∧ g.edges[k]? = some (a, b) := by
  simp only [usableD, List.mem_filterMap, List.mem_range]
  constructor
  · rintro ⟨k, hk, h⟩
    rw [getD_map_range' _ _ _ _ hk] at h
    cases hb : bd k with
    | true => simp [hb] at h
    | false =>
      simp only [hb, Bool.false_eq_true, if_false] at h
      exact ⟨k, hb, h⟩
  · rintro ⟨k, hb, h⟩
    have hk : k < g.edges.length := by
      rcases Nat.lt_or_ge k g.edges.length with hk | hk
      · exact hk
      · rw [List.getElem?_eq_none hk] at h; cases h
    refine ⟨k, hk, ?_⟩
    rw [getD_map_range' _ _ _ _ hk, hb]
    simpa using h

theorem wf_lt {g : Graph} (hwf : g.wf = true) {k : Nat} {e : Nat × Nat}
    (h : g.edges[k]? = some e) : e.1 < g.n ∧ e.2 < g.n := by
  have hm : e ∈ g.edges := List.mem_of_getElem? h
  simp only [Graph.wf, List.all_eq_true, Bool.and_eq_true, decide_eq_true_eq] at hwf
  exact hwf e hm

theorem usableD_lt (g : Graph) (hwf : g.wf = true) (bd : Nat → Bool) :
    ∀ e ∈ usableD g bd, e.1 < g.n ∧ e.2 < g.n := by
  rintro ⟨a, b⟩ h
  obtain ⟨k, -, hk⟩ := (mem_usableD g bd a b).1 h
  exact wf_lt hwf hk

theorem adj_usableD_iff (g : Graph) (bd : Nat → Bool) (a b : Nat) :
    (edgeGraph (usableD g bd)).Adj a b ↔ a ≠ b ∧ ∃ k, bd k = false ∧ Joins g k a b := by
  simp only [edgeGraph, mem_usableD, Joins]
  constructor
  · rintro ⟨hne, ⟨k, hb, h⟩ | ⟨k, hb, h⟩⟩
    · exact ⟨hne, k, hb, Or.inl h⟩
    · exact ⟨hne, k, hb, Or.inr h⟩
  · rintro ⟨hne, k, hb, h | h⟩
    · exact ⟨hne, Or.inl ⟨k, hb, h⟩⟩
    · exact ⟨hne, Or.inr ⟨k, hb, h⟩⟩

/-- forgetting the bound is a homomorphism from the cut graph to the graph of usable edges. -/
def homCut (g : Graph) (bd : Nat → Bool) : cutGraph g bd →g edgeGraph (usableD g bd) where
  toFun x := x.1
  map_rel' := by
    rintro ⟨a, ha⟩ ⟨b, hb⟩ h
    have h' : (⟨a, ha⟩ : Fin g.n) ≠ ⟨b, hb⟩ ∧ ∃ k, bd k = false ∧ Joins g k a b := h
    exact (adj_usableD_iff g bd a b).2 ⟨fun e => h'.1 (Fin.mk.inj_iff.2 e), h'.2⟩

theorem reach_to_cut (g : Graph) (hwf : g.wf = true) (bd : Nat → Bool) {v u : Nat}
    (h : (edgeGraph (usableD g bd)).Reachable v u) (hv : v < g.n) :
    ∃ (hu : u < g.n), (cutGraph g bd).Reachable ⟨v, hv⟩ ⟨u, hu⟩ := by
  obtain ⟨p⟩ := h
  induction p with
  | nil => exact ⟨hv, SimpleGraph.Reachable.refl _⟩
  | cons hadj q ih =>
    rename_i a b c
    have hb : b < g.n := (adj_lt _ g.n (usableD_lt g hwf bd) hadj).2
    obtain ⟨hne, hk⟩ := (adj_usableD_iff g bd a b).1 hadj
    obtain ⟨hu, r⟩ := ih hb
    refine ⟨hu, SimpleGraph.Reachable.trans (SimpleGraph.Adj.reachable ?_) r⟩
    show (⟨a, hv⟩ : Fin g.n) ≠ ⟨b, hb⟩ ∧ ∃ k, bd k = false ∧ Joins g k a b
    exact ⟨fun e => hne (Fin.mk.inj_iff.1 e), hk⟩

/-- equal labels ⇔ joined by non-border edges. -/
theorem lab_eq_iff (g : Graph) (hwf : g.wf = true) (bd : Nat → Bool) {v u : Nat}
    (hv : v < g.n) (hu : u < g.n) :
    (components g.n (usableD g bd)).getD v 0 = (components g.n (usableD g bd)).getD u 0 ↔
      (cutGraph g bd).Reachable ⟨v, hv⟩ ⟨u, hu⟩ := by
  rw [components_spec _ g.n (usableD_lt g hwf bd) hv hu]
  constructor
  · intro h
    obtain ⟨_, r⟩ := reach_to_cut g hwf bd h hv
    exact r
  · intro h
    exact h.map (homCut g bd)

/-- counting a decidable predicate over `Fin n` vs. over `List.range n`. -/
theorem ncard_fin_eq (n : Nat) (p : Nat → Bool) :
    Set.ncard {w : Fin n | p w.1 = true} = ((List.range n).filter p).length := by
  rw [← Set.ncard_image_of_injective _ Fin.val_injective]
  have : (Fin.val '' {w : Fin n | p w.1 = true}) = ↑(((List.range n).filter p).toFinset) := by
    ext x
    simp only [Set.mem_image, Set.mem_ofPred_eq, List.coe_toFinset, List.mem_filter, List.mem_range]
    constructor
    · rintro ⟨w, hw, rfl⟩
      exact ⟨w.2, hw⟩
    · rintro ⟨hx, hp⟩
      exact ⟨⟨x, hx⟩, hp, rfl⟩
  rw [this, Set.ncard_coe_finset, List.toFinset_card_of_nodup]
  exact List.Nodup.filter _ List.nodup_range

theorem region_card (g : Graph) (hwf : g.wf = true) (bd : Nat → Bool) {v : Nat} (hv : v < g.n) :
    Set.ncard {w : Fin g.n | (cutGraph g bd).Reachable ⟨v, hv⟩ w} =
      ((List.range g.n).filter fun u => (components g.n (usableD g bd)).getD u 0 ==
        (components g.n (usableD g bd)).getD v 0).length := by
  rw [← ncard_fin_eq]
  congr 1
  ext w
  simp only [Set.mem_ofPred_eq, beq_iff_eq]
  rw [lab_eq_iff g hwf bd w.2 hv]
  exact ⟨fun h => h.symm, fun h => h.symm⟩

theorem okBorder_iff (g : Graph) (hwf : g.wf = true) (bd : Nat → Bool) :
    ((List.range g.edges.length).all fun k =>
      match g.edges[k]? with
      | some e => !(((List.range g.edges.length).map bd).getD k false) ||
          ((components g.n (usableD g bd)).getD e.1 0 != (components g.n (usableD g bd)).getD e.2 0)
      | none => true) = true ↔
    ∀ k u v, bd k = true → Joins g k u v → ∀ (hu : u < g.n) (hv : v < g.n),
      ¬ (cutGraph g bd).Reachable ⟨u, hu⟩ ⟨v, hv⟩ := by
  simp only [List.all_eq_true, List.mem_range]
  constructor
  · intro h k u v hb hj hu hv hr
    have hk : k < g.edges.length := by
      rcases Nat.lt_or_ge k g.edges.length with hk | hk
      · exact hk
      · rcases hj with hj | hj <;> (rw [List.getElem?_eq_none hk] at hj; cases hj)
    have h1 := h k hk
    rw [getD_map_range' _ _ _ _ hk, hb] at h1
    have hl := (lab_eq_iff g hwf bd hu hv).2 hr
    rcases hj with hj | hj
    · rw [hj] at h1
      simp only [Bool.not_true, Bool.false_or, bne_iff_ne, ne_eq] at h1
      exact h1 hl
    · rw [hj] at h1
      simp only [Bool.not_true, Bool.false_or, bne_iff_ne, ne_eq] at h1
      exact h1 hl.symm
  · intro h k hk
    rw [getD_map_range' _ _ _ _ hk]
    cases he : g.edges[k]? with
    | none => rfl
    | some e =>
      cases hb : bd k with
      | false => simp
      | true =>
        obtain ⟨h1, h2⟩ := wf_lt hwf he
        have hn := h k e.1 e.2 hb (Or.inl he) h1 h2
        rw [← lab_eq_iff g hwf bd h1 h2] at hn
        simpa using hn

theorem okSize_iff (g : Graph) (hwf : g.wf = true) (bd : Nat → Bool) (size : Nat → Option Int) :
    ((List.range g.n).all fun v =>
      match ((List.range g.n).map size).getD v none with
      | none => true
      | some s => ((((List.range g.n).filter fun u => (components g.n (usableD g bd)).getD u 0 ==
          (components g.n (usableD g bd)).getD v 0).length : Nat) : Int) == s) = true ↔
    ∀ v s (hv : v < g.n), size v = some s →
      (Set.ncard {w : Fin g.n | (cutGraph g bd).Reachable ⟨v, hv⟩ w} : Int) = s := by
  simp only [List.all_eq_true, List.mem_range]
  constructor
  · intro h v s hv hs
    have h1 := h v hv
    rw [getD_map_range' _ _ _ _ hv, hs] at h1
    rw [region_card g hwf bd hv]
    simpa using h1
  · intro h v hv
    rw [getD_map_range' _ _ _ _ hv]
    cases hs : size v with
    | none => rfl
    | some s =>
      have := h v s hv hs
      rw [region_card g hwf bd hv] at this
      simpa using this

/-- The reference semantics of the native operator is `BordersOK`. -/
theorem divSem_iff (g : Graph) (hwf : g.wf = true) (bd : Nat → Bool) (size : Nat → Option Int) :
    divSem g.n ((List.range g.n).map size) g.edges ((List.range g.edges.length).map bd) = true ↔
      BordersOK g bd size := by
  unfold divSem BordersOK
  simp only []
  rw [← usableD, Bool.and_eq_true]
  exact and_congr (okBorder_iff g hwf bd) (okSize_iff g hwf bd size)

/-! ### Part 3: the primitive encoding is exact -/

theorem borders_prim :
  ∀ (g : Graph) (gs : List (Option Expr)) (border : List Expr) (base : Nat) (p : Prog) (σ : Asg),
    g.wf = true → SizeArgs base g.n (.perVertex gs) → BoolArgs base border →
    variableGroupsWithBorders g gs border true base = .ok p →
    (Realizable base p σ ↔ BordersOK g (truthAt σ border) (sizeSpec σ (.perVertex gs))) := by
  intro g gs border base p σ hwf hs hl hp
  have hglen : gs.length = g.n := hs.1
  unfold variableGroupsWithBorders at hp
  rw [if_neg (by simp [hglen])] at hp
  split at hp
  · cases hp
  rename_i hblen
  have hblen : border.length = g.edges.length := by simpa using hblen
  simp only [if_true, Except.ok.injEq] at hp
  subst hp
  rw [← divSem_iff g hwf]
  constructor
  · rintro ⟨σ', hag, -, hcs⟩
    have := hcs _ (List.mem_singleton.2 rfl)
    rw [eval_divNode g hs hblen hl hag] at this
    simpa using this
  · intro h
    refine ⟨σ, AgreeBelow.refl base σ, ?_, ?_⟩
    · intro k lo hi hk
      simp at hk
    · intro c hc
      rw [List.mem_singleton.1 hc, eval_divNode g hs hblen hl (AgreeBelow.refl base σ), h]

end Cspuz.Proofs.C07Prim
