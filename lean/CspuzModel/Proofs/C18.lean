/-
  C18 — SegmentationBuilder2D only ever produces valid room partitions: the main argument.
  Uses  C18Cands (what `candidates` can propose), C18Bfs (the two Voronoi halves), C18Dfs (`_is_connected`),
  C18Conn (connectivity algebra).
-/
import CspuzModel.Proofs.C18Cands
import CspuzModel.Proofs.C18Bfs
import CspuzModel.Proofs.C18Dfs
import Mathlib.Data.List.Nodup
namespace Cspuz.Seg.Proofs
open Cspuz.Seg Cspuz.Seg.Spec

/-! ## `keepFrom` / `copyWithUpdate` -/

/-- The complement of `keepFrom`: the blocks at excluded indices. -/
def takeFrom (excl : List Int) : Blocks → Nat → Blocks
  | [], _ => []
  | b :: bs, i => if (i : Int) ∈ excl then b :: takeFrom excl bs (i + 1) else takeFrom excl bs (i + 1)

theorem keepFrom_sublist (excl : List Int) : ∀ (bs : Blocks) (k : Nat), (keepFrom excl bs k).Sublist bs := by
  intro bs
  induction bs with
  | nil => intro k; simp [keepFrom]
  | cons b bs ih =>
    intro k
    simp only [keepFrom]
    split
    · exact (ih (k + 1)).cons _
    · exact (ih (k + 1)).cons_cons _

theorem keep_take_perm (excl : List Int) :
    ∀ (bs : Blocks) (k : Nat), (keepFrom excl bs k ++ takeFrom excl bs k).Perm bs := by
  intro bs
  induction bs with
  | nil => intro k; simp [keepFrom, takeFrom]
  | cons b bs ih =>
    intro k
    simp only [keepFrom, takeFrom]
    split
    · exact List.perm_middle.trans ((ih (k + 1)).cons b)
    · exact (ih (k + 1)).cons b

theorem takeFrom_congr {e1 e2 : List Int} :
    ∀ (bs : Blocks) (k : Nat), (∀ n, n < bs.length → (((k + n : Nat) : Int) ∈ e1 ↔ ((k + n : Nat) : Int) ∈ e2)) →
      takeFrom e1 bs k = takeFrom e2 bs k := by
  intro bs
  induction bs with
  | nil => intro k _; rfl
  | cons b bs ih =>
    intro k h
    have h0 := h 0 (by simp)
    have ht : takeFrom e1 bs (k + 1) = takeFrom e2 bs (k + 1) := by
      apply ih
      intro n hn
      have := h (n + 1) (by simp; omega)
      have e : k + (n + 1) = k + 1 + n := by omega
      rw [e] at this
      exact this
    simp only [takeFrom, Nat.add_zero] at h0 ⊢
    by_cases hk : (k : Int) ∈ e1
    · rw [if_pos hk, if_pos (h0.1 hk), ht]
    · rw [if_neg hk, if_neg (fun h' => hk (h0.2 h')), ht]

theorem takeFrom_nil_of_not_mem {excl : List Int} :
    ∀ (bs : Blocks) (k : Nat), (∀ n, n < bs.length → ((k + n : Nat) : Int) ∉ excl) → takeFrom excl bs k = [] := by
  intro bs k h
  rw [takeFrom_congr (e2 := []) bs k (fun n hn => by
    simp only [List.not_mem_nil, iff_false]; exact h n hn)]
  clear h
  induction bs generalizing k with
  | nil => rfl
  | cons b bs ih => simp [takeFrom, ih]

theorem takeFrom_single :
    ∀ (bs : Blocks) (k i : Nat) (bi : Block), k ≤ i → bs[i - k]? = some bi → takeFrom [(i : Int)] bs k = [bi] := by
  intro bs
  induction bs with
  | nil => intro k i bi _ h; simp at h
  | cons b bs ih =>
    intro k i bi hk h
    simp only [takeFrom, List.mem_singleton]
    by_cases hki : k = i
    · subst hki
      simp only [Nat.sub_self, List.getElem?_cons_zero, Option.some.injEq] at h
      subst h
      simp only [if_true]
      rw [takeFrom_nil_of_not_mem]
      intro n _
      simp only [List.mem_singleton]
      omega
    · have : ¬ ((k : Int) = (i : Int)) := by omega
      rw [if_neg this]
      apply ih (k + 1) i bi (by omega)
      have e : i - k = (i - (k + 1)) + 1 := by omega
      rw [e, List.getElem?_cons_succ] at h
      exact h

theorem takeFrom_pair :
    ∀ (bs : Blocks) (k i j : Nat) (bi bj : Block), k ≤ i → i < j → bs[i - k]? = some bi → bs[j - k]? = some bj →
      takeFrom [(i : Int), (j : Int)] bs k = [bi, bj] := by
  intro bs
  induction bs with
  | nil => intro k i j bi bj _ _ h; simp at h
  | cons b bs ih =>
    intro k i j bi bj hk hij hi hj
    simp only [takeFrom, List.mem_cons, List.not_mem_nil, or_false]
    have ej : j - k = (j - (k + 1)) + 1 := by omega
    rw [ej, List.getElem?_cons_succ] at hj
    by_cases hki : k = i
    · subst hki
      simp only [Nat.sub_self, List.getElem?_cons_zero, Option.some.injEq] at hi
      subst hi
      simp only [true_or, if_true]
      congr 1
      rw [takeFrom_congr (e2 := [(j : Int)]) bs (k + 1)]
      · exact takeFrom_single bs (k + 1) j bj (by omega) hj
      · intro n _
        simp only [List.mem_cons, List.not_mem_nil, or_false]
        omega
    · have : ¬ ((k : Int) = (i : Int) ∨ (k : Int) = (j : Int)) := by omega
      rw [if_neg this]
      apply ih (k + 1) i j bi bj (by omega) hij _ hj
      have e : i - k = (i - (k + 1)) + 1 := by omega
      rw [e, List.getElem?_cons_succ] at hi
      exact hi

theorem takeFrom_swap (a b : Int) (bs : Blocks) (k : Nat) : takeFrom [a, b] bs k = takeFrom [b, a] bs k :=
  takeFrom_congr bs k (fun n _ => by simp only [List.mem_cons, List.not_mem_nil, or_false]; exact Or.comm)

theorem keepFrom_congr {e1 e2 : List Int} :
    ∀ (bs : Blocks) (k : Nat), (∀ x : Int, x ∈ e1 ↔ x ∈ e2) → keepFrom e1 bs k = keepFrom e2 bs k := by
  intro bs
  induction bs with
  | nil => intro k _; rfl
  | cons b bs ih =>
    intro k h
    simp only [keepFrom, ih (k + 1) h, h]

/-- What an update does to the multiset of blocks: the blocks at the excluded indices are replaced by `u.2`. -/
theorem copy_perm (bs : Blocks) (u : Update) :
    (copyWithUpdate bs u ++ takeFrom u.1 bs 0).Perm (bs ++ u.2) := by
  unfold copyWithUpdate
  have h := keep_take_perm u.1 bs 0
  have h1 : (keepFrom u.1 bs 0 ++ u.2 ++ takeFrom u.1 bs 0).Perm (keepFrom u.1 bs 0 ++ takeFrom u.1 bs 0 ++ u.2) := by
    rw [List.append_assoc, List.append_assoc]
    exact List.Perm.append_left _ List.perm_append_comm
  exact h1.trans (h.append_right _)

/-- If the appended blocks contain exactly the cells of the removed blocks, the cells stay the same. -/
theorem copy_flatten_perm {bs : Blocks} {u : Update} (h : u.2.flatten.Perm (takeFrom u.1 bs 0).flatten) :
    (copyWithUpdate bs u).flatten.Perm bs.flatten := by
  unfold copyWithUpdate
  rw [List.flatten_append]
  have h1 := (keep_take_perm u.1 bs 0).flatten
  rw [List.flatten_append] at h1
  exact (List.Perm.append_left _ h).trans h1

theorem copy_length (bs : Blocks) (u : Update) :
    (copyWithUpdate bs u).length + (takeFrom u.1 bs 0).length = bs.length + u.2.length := by
  have := (copy_perm bs u).length_eq
  simpa [List.length_append] using this

theorem mem_copy {bs : Blocks} {u : Update} {b : Block} (h : b ∈ copyWithUpdate bs u) : b ∈ bs ∨ b ∈ u.2 := by
  unfold copyWithUpdate at h
  rcases List.mem_append.1 h with h | h
  · exact Or.inl ((keepFrom_sublist u.1 bs 0).subset h)
  · exact Or.inr h

/-! ## Consequences of `Part` -/

theorem _root_.Cspuz.Seg.Spec.Part.block_nodup {h w : Nat} {bs : Blocks} (hp : Part h w bs) {b : Block} (hb : b ∈ bs) : b.Nodup :=
  (List.nodup_flatten.1 hp.nodup).1 b hb

theorem mem_of_getElem? {bs : Blocks} {i : Nat} {b : Block} (h : bs[i]? = some b) : b ∈ bs :=
  List.mem_of_getElem? h

/-- Generic preservation: an update whose appended blocks (i) carry exactly the cells of the removed blocks and
(ii) are non-empty and connected, maps partitions to partitions. -/
theorem part_copy {h w : Nat} {bs : Blocks} {u : Update} (hp : Part h w bs)
    (hperm : u.2.flatten.Perm (takeFrom u.1 bs 0).flatten)
    (hne : ∀ b ∈ u.2, b ≠ []) (hconn : ∀ b ∈ u.2, OrthConnected b) : Part h w (copyWithUpdate bs u) := by
  have hf := copy_flatten_perm hperm
  refine ⟨hf.nodup_iff.2 hp.nodup, fun c => (hf.mem_iff).trans (hp.cover c), ?_, ?_⟩
  · intro b hb
    rcases mem_copy hb with hb | hb
    · exact hp.nonempty b hb
    · exact hne b hb
  · intro b hb
    rcases mem_copy hb with hb | hb
    · exact hp.connected b hb
    · exact hconn b hb

theorem filter_ne_perm {l : Block} {c : Cell} (hnd : l.Nodup) (hc : c ∈ l) :
    (l.filter (fun p => p ≠ c) ++ [c]).Perm l := by
  have h1 := List.filter_append_perm (fun p => decide (p ≠ c)) l
  have h2 : l.filter (fun p => !decide (p ≠ c)) = [c] := by
    have : (fun p : Cell => !decide (p ≠ c)) = (fun p => decide (p = c)) := by
      funext p; by_cases h : p = c <;> simp [h]
    rw [this, List.filter_eq, List.count_eq_one_of_mem hnd hc]
    rfl
  rw [h2] at h1
  exact h1

/-! ## The three kinds of update preserve `Part` -/

theorem part_merge {cfg : Cfg} {h w : Nat} {bs : Blocks} {u : Update} (hp : Part h w bs) (hu : IsMergeUpd cfg bs u) :
    Part h w (copyWithUpdate bs u) := by
  obtain ⟨i, j, bi, bj, hij, hi, hj, ⟨a, ha, b, hb, hadj⟩, _, _, rfl⟩ := hu
  have ht : takeFrom [(i : Int), (j : Int)] bs 0 = [bi, bj] := takeFrom_pair bs 0 i j bi bj (by omega) hij hi hj
  apply part_copy hp
  · simp only [ht]; simp
  · intro b' hb'
    simp only [List.mem_singleton] at hb'
    subst hb'
    have := hp.nonempty bi (mem_of_getElem? hi)
    intro h0
    exact this (List.append_eq_nil_iff.1 h0).1
  · intro b' hb'
    simp only [List.mem_singleton] at hb'
    subst hb'
    exact orthConnected_append (hp.connected bi (mem_of_getElem? hi)) (hp.connected bj (mem_of_getElem? hj)) ha hb hadj

theorem part_split {cfg : Cfg} {h w : Nat} {bs : Blocks} {u : Update} (hp : Part h w bs) (hu : IsSplitUpd cfg bs u) :
    Part h w (copyWithUpdate bs u) := by
  obtain ⟨i, a, b, blk, A, B, hi, hab, hs, _, _, _, rfl⟩ := hu
  have ht : takeFrom [(i : Int)] bs 0 = [blk] := takeFrom_single bs 0 i blk (by omega) hi
  obtain ⟨hperm, hA, hB, hcA, hcB⟩ := splitWith_spec hs (hp.block_nodup (mem_of_getElem? hi)) hab
  apply part_copy hp
  · simp only [ht]; simpa using hperm
  · intro b' hb'
    simp only [List.mem_cons, List.not_mem_nil, or_false] at hb'
    rcases hb' with rfl | rfl <;> assumption
  · intro b' hb'
    simp only [List.mem_cons, List.not_mem_nil, or_false] at hb'
    rcases hb' with rfl | rfl <;> assumption

theorem take_pair_perm {bs : Blocks} {i j : Nat} {bi bj : Block} (hij : i ≠ j) (hi : bs[i]? = some bi)
    (hj : bs[j]? = some bj) : (takeFrom [(i : Int), (j : Int)] bs 0).Perm [bi, bj] := by
  rcases Nat.lt_or_gt_of_ne hij with h | h
  · rw [takeFrom_pair bs 0 i j bi bj (by omega) h hi hj]
  · rw [takeFrom_swap, takeFrom_pair bs 0 j i bj bi (by omega) h hj hi]
    exact List.Perm.swap _ _ _

theorem move_facts {cfg : Cfg} {h w : Nat} {bs : Blocks} {u : Update} (hp : Part h w bs) (hu : IsMoveUpd cfg bs u) :
    ∃ (i j : Nat) (donor recv : Block) (c : Cell), i ≠ j ∧ bs[i]? = some donor ∧ bs[j]? = some recv ∧
      (takeFrom u.1 bs 0).Perm [donor, recv] ∧ u.2 = [donor.filter (fun p => p ≠ c), recv ++ [c]] ∧
      ((donor.filter (fun p => p ≠ c)) ++ [c]).Perm donor ∧ 2 ≤ donor.length ∧
      OrthConnected (donor.filter (fun p => p ≠ c)) ∧ OrthConnected (recv ++ [c]) ∧
      (donor.length : Int) > cfg.minSize ∧ (recv.length : Int) < cfg.maxSize := by
  obtain ⟨i, j, donor, recv, c, r, hij, hi, hj, hc, hr, hadj, hmin, hmax, hconn, hu1, hu2⟩ := hu
  have hnd := hp.block_nodup (mem_of_getElem? hi)
  refine ⟨i, j, donor, recv, c, hij, hi, hj, ?_, hu2, filter_ne_perm hnd hc, isConnected_some_length hconn, ?_, ?_,
    hmin, hmax⟩
  · rcases hu1 with h1 | h1 <;> rw [h1]
    · exact take_pair_perm hij hi hj
    · rw [takeFrom_swap]; exact take_pair_perm hij hi hj
  · have := isConnected_sound hnd hconn
    refine connectedOn_congr (fun p => ?_) this
    simp [List.mem_filter]
  · exact orthConnected_snoc (hp.connected recv (mem_of_getElem? hj)) hr hadj

theorem part_move {cfg : Cfg} {h w : Nat} {bs : Blocks} {u : Update} (hp : Part h w bs) (hu : IsMoveUpd cfg bs u) :
    Part h w (copyWithUpdate bs u) := by
  obtain ⟨i, j, donor, recv, c, hij, hi, hj, ht, hu2, hperm, hlen, hcd, hcr, _, _⟩ := move_facts hp hu
  apply part_copy hp
  · refine List.Perm.trans ?_ ht.flatten.symm
    rw [hu2]
    simp only [List.flatten_cons, List.flatten_nil, List.append_nil]
    have : (List.filter (fun p => decide (p ≠ c)) donor ++ (recv ++ [c])).Perm
        ((List.filter (fun p => decide (p ≠ c)) donor ++ [c]) ++ recv) := by
      rw [List.append_assoc]
      exact List.Perm.append_left _ List.perm_append_comm
    exact this.trans (hperm.append_right _)
  · intro b hb
    rw [hu2] at hb
    simp only [List.mem_cons, List.not_mem_nil, or_false] at hb
    rcases hb with rfl | rfl
    · intro h0
      have := hperm.length_eq
      rw [h0] at this
      simp at this
      omega
    · simp
  · intro b hb
    rw [hu2] at hb
    simp only [List.mem_cons, List.not_mem_nil, or_false] at hb
    rcases hb with rfl | rfl <;> assumption

theorem part_inBoard {h w : Nat} {bs : Blocks} (hp : Part h w bs) : ∀ b ∈ bs, ∀ c ∈ b, InBoard h w c :=
  fun b hb c hc => (hp.cover c).1 (List.mem_flatten.2 ⟨b, hb, hc⟩)

/-- Every proposed update maps partitions to partitions, whatever the bounds are. -/
theorem part_step {cfg : Cfg} {bs : Blocks} {draws : List (Nat × Nat)} {us : List Update} {u : Update}
    (hp : Part cfg.height cfg.width bs) (h : candidates cfg bs draws = .ok us) (hu : u ∈ us) :
    Part cfg.height cfg.width (copyWithUpdate bs u) := by
  rcases candidates_char (part_inBoard hp) h hu with hk | hk | hk
  · exact part_merge hp hk
  · exact part_split hp hk
  · exact part_move hp hk

/-! ## Bounds -/

theorem bounds_merge {cfg : Cfg} {bs : Blocks} {u : Update} (hb : Bounds cfg bs) (hu : IsMergeUpd cfg bs u) :
    Bounds cfg (copyWithUpdate bs u) := by
  obtain ⟨i, j, bi, bj, hij, hi, hj, _, hsz, hnum, rfl⟩ := hu
  have ht : takeFrom [(i : Int), (j : Int)] bs 0 = [bi, bj] := takeFrom_pair bs 0 i j bi bj (by omega) hij hi hj
  have hl := copy_length bs ([(i : Int), (j : Int)], [bi ++ bj])
  simp only [ht, List.length_cons, List.length_nil] at hl
  constructor
  · have := hb.num
    omega
  · intro b hb'
    rcases mem_copy hb' with hb' | hb'
    · exact hb.size b hb'
    · simp only [List.mem_singleton] at hb'
      subst hb'
      have := (hb.size bi (mem_of_getElem? hi)).1
      simp only [List.length_append]
      omega

theorem bounds_split {cfg : Cfg} {h w : Nat} {bs : Blocks} {u : Update} (hp : Part h w bs) (hb : Bounds cfg bs)
    (hu : IsSplitUpd cfg bs u) : Bounds cfg (copyWithUpdate bs u) := by
  obtain ⟨i, a, b, blk, A, B, hi, hab, hs, hA, hB, hnum, rfl⟩ := hu
  have ht : takeFrom [(i : Int)] bs 0 = [blk] := takeFrom_single bs 0 i blk (by omega) hi
  have hl := copy_length bs ([(i : Int)], [A, B])
  simp only [ht, List.length_cons, List.length_nil] at hl
  obtain ⟨hperm, _, _, _, _⟩ := splitWith_spec hs (hp.block_nodup (mem_of_getElem? hi)) hab
  have hlen := hperm.length_eq
  simp only [List.length_append] at hlen
  have hblk := (hb.size blk (mem_of_getElem? hi)).2
  constructor
  · have := hb.num
    omega
  · intro b' hb'
    rcases mem_copy hb' with hb' | hb'
    · exact hb.size b' hb'
    · simp only [List.mem_cons, List.not_mem_nil, or_false] at hb'
      rcases hb' with rfl | rfl <;> constructor <;> omega

theorem bounds_move {cfg : Cfg} {h w : Nat} {bs : Blocks} {u : Update} (hp : Part h w bs) (hb : Bounds cfg bs)
    (hu : IsMoveUpd cfg bs u) : Bounds cfg (copyWithUpdate bs u) := by
  obtain ⟨i, j, donor, recv, c, hij, hi, hj, ht, hu2, hperm, hlen, _, _, hmin, hmax⟩ := move_facts hp hu
  have hl := copy_length bs u
  rw [ht.length_eq, hu2] at hl
  simp only [List.length_cons, List.length_nil] at hl
  have hd := hperm.length_eq
  simp only [List.length_append, List.length_cons, List.length_nil] at hd
  have hdon := hb.size donor (mem_of_getElem? hi)
  have hrec := hb.size recv (mem_of_getElem? hj)
  constructor
  · have := hb.num
    omega
  · intro b' hb'
    rcases mem_copy hb' with hb' | hb'
    · exact hb.size b' hb'
    · rw [hu2] at hb'
      simp only [List.mem_cons, List.not_mem_nil, or_false] at hb'
      rcases hb' with rfl | rfl
      · constructor <;> omega
      · simp only [List.length_append, List.length_cons, List.length_nil]
        constructor <;> omega

theorem inv_step {cfg : Cfg} {bs : Blocks} {draws : List (Nat × Nat)} {us : List Update} {u : Update}
    (hinv : Inv cfg bs) (h : candidates cfg bs draws = .ok us) (hu : u ∈ us) : Inv cfg (copyWithUpdate bs u) := by
  refine ⟨part_step hinv.1 h hu, ?_⟩
  rcases candidates_char (part_inBoard hinv.1) h hu with hk | hk | hk
  · exact bounds_merge hinv.2 hk
  · exact bounds_split hinv.1 hinv.2 hk
  · exact bounds_move hinv.1 hinv.2 hk

/-! ## `initial` -/

theorem isMet_iff (cfg : Cfg) (bs : Blocks) : isMet cfg bs = true ↔ Bounds cfg bs := by
  unfold isMet
  simp only [Bool.and_eq_true, decide_eq_true_eq, List.all_eq_true]
  constructor
  · rintro ⟨h1, h2⟩; exact ⟨h1, h2⟩
  · rintro ⟨h1, h2⟩; exact ⟨h1, h2⟩

theorem part_allCells {h w : Nat} (hh : 0 < h) (hw : 0 < w) : Part h w [allCells h w] := by
  refine ⟨?_, ?_, ?_, ?_⟩
  · simp only [List.flatten_cons, List.flatten_nil, List.append_nil]
    unfold allCells
    rw [List.nodup_flatMap]
    constructor
    · intro y _
      unfold rowCells
      refine List.Nodup.map ?_ List.nodup_range
      intro a b hab
      simp only [Prod.mk.injEq] at hab
      omega
    · refine List.Pairwise.imp_of_mem ?_ (List.nodup_range (n := h))
      intro a b _ _ hab c hc1 hc2
      rw [mem_rowCells] at hc1 hc2
      omega
  · intro c
    simp only [List.flatten_cons, List.flatten_nil, List.append_nil]
    exact mem_allCells
  · intro b hb
    simp only [List.mem_singleton] at hb
    subst hb
    intro h0
    have : ((0 : Int), (0 : Int)) ∈ allCells h w := mem_allCells.2 (by unfold InBoard; simp; omega)
    rw [h0] at this
    simp at this
  · intro b hb
    simp only [List.mem_singleton] at hb
    subst hb
    exact orthConnected_allCells h w

theorem initialLoop_done {cfg : Cfg} :
    ∀ (rounds : List Round) (bs bs' : Blocks), Part cfg.height cfg.width bs →
      initialLoop cfg rounds bs = .done bs' → Inv cfg bs' := by
  intro rounds
  induction rounds with
  | nil =>
    intro bs bs' hp h
    simp only [initialLoop] at h
    split at h
    · rename_i hm
      cases h
      exact ⟨hp, (isMet_iff cfg bs).1 hm⟩
    · cases h
  | cons r rs ih =>
    intro bs bs' hp h
    simp only [initialLoop] at h
    split at h
    · rename_i hm
      cases h
      exact ⟨hp, (isMet_iff cfg bs).1 hm⟩
    · split at h
      · cases h
      · cases h
      · cases h
      · rename_i u us hc
        split at h
        · cases h
        · rename_i v hv
          exact ih _ _ (part_step hp hc (List.mem_of_getElem? hv)) h

/-- Hypothesis on a user-supplied `initial_blocks` / on the board when none is supplied. -/
def InitOk (cfg : Cfg) : Prop :=
  match cfg.initialBlocks with
  | none => 0 < cfg.height ∧ 0 < cfg.width
  | some ib => Part cfg.height cfg.width ib

theorem part_initialBlocks {cfg : Cfg} (h : InitOk cfg) : Part cfg.height cfg.width (initialBlocks cfg) := by
  unfold InitOk at h
  unfold initialBlocks
  split <;> rename_i hib <;> rw [hib] at h
  · exact part_allCells h.1 h.2
  · exact h

theorem initial_done {cfg : Cfg} {rounds : List Round} {bs : Blocks} (hok : InitOk cfg)
    (h : initial cfg rounds = .done bs) :
    Part cfg.height cfg.width bs ∧ (cfg.allowUnmet = false → Bounds cfg bs) := by
  unfold initial at h
  split at h
  · rename_i ha
    cases h
    exact ⟨part_initialBlocks hok, fun hf => by rw [hf] at ha; cases ha⟩
  · have := initialLoop_done rounds _ _ (part_initialBlocks hok) h
    exact ⟨this.1, fun _ => this.2⟩

/-! ## Finite sequences of proposed updates -/

/-- `Steps cfg a b`: `b` is obtained from `a` by applying a finite sequence of updates, each one proposed by
`candidates` (for some draws) for the value it is applied to. -/
inductive Steps (cfg : Cfg) : Blocks → Blocks → Prop
  | refl (a : Blocks) : Steps cfg a a
  | tail {a b : Blocks} {draws : List (Nat × Nat)} {us : List Update} {u : Update} :
      Steps cfg a b → candidates cfg b draws = .ok us → u ∈ us → Steps cfg a (copyWithUpdate b u)

theorem steps_part {cfg : Cfg} {a b : Blocks} (hs : Steps cfg a b) (hp : Part cfg.height cfg.width a) :
    Part cfg.height cfg.width b := by
  induction hs with
  | refl => exact hp
  | tail _ hc hu ih => exact part_step ih hc hu

theorem steps_inv {cfg : Cfg} {a b : Blocks} (hs : Steps cfg a b) (hp : Inv cfg a) : Inv cfg b := by
  induction hs with
  | refl => exact hp
  | tail _ hc hu ih => exact inv_step ih hc hu

/-! ## `copy_with_update` as a function of its arguments -/

theorem keepFrom_eq_filter (excl : List Int) :
    ∀ (bs : Blocks) (k : Nat),
      keepFrom excl bs k = ((bs.zipIdx k).filter (fun p => decide ((p.2 : Int) ∉ excl))).map (fun p => p.1) := by
  intro bs
  induction bs with
  | nil => intro k; rfl
  | cons b bs ih =>
    intro k
    simp only [keepFrom, List.zipIdx_cons, List.filter_cons]
    by_cases hk : (k : Int) ∈ excl
    · simp [hk, ih (k + 1)]
    · simp [hk, ih (k + 1)]

end Cspuz.Seg.Proofs
