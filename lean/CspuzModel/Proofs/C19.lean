/-
  C19: the two property statements whose proofs combine several lemmas.
-/
import CspuzModel.Proofs.C19Pattern
import Mathlib.Data.Rat.Defs
import Mathlib.Algebra.Order.Field.Basic
import Mathlib.Tactic.Positivity
namespace Cspuz.Gen
open Cspuz

theorem randint_full (fuel : Nat) (a b : Int) (s : XS) :
    (a > b → randint fuel a b s = .err .valueError) ∧
    (b - a + 1 > 4294967296 → randint fuel a b s = .err .valueError) ∧
    (∀ r s', randint fuel a b s = .ok r s' → a ≤ r ∧ r ≤ b) ∧
    (a ≤ b → b - a + 1 ≤ 4294967296 →
      let w := (b - a + 1).toNat
      let limit := D32 - D32 % w
      D32 < 2 * limit ∧
      ∀ k, k < fuel → (∀ i, i < k → ¬ XS.output i s < limit) → XS.output k s < limit →
        randint fuel a b s = .ok (a + ((XS.output k s % w : Nat) : Int)) (XS.iter (k + 1) s)) := by
  refine ⟨randint_err_gt fuel a b s, randint_err_wide fuel a b s, randint_range fuel a b s, ?_⟩
  intro hab hw
  refine ⟨limit_gt_half _ (by omega) (by unfold D32; omega), ?_⟩
  intro k hk hnot hacc
  rw [randint_ok_iff fuel a b s hab hw, randintLoop_spec _ _ fuel k s hk hnot hacc]

theorem array_full {V : Type} [DecidableEq V] (fuel : Nat) (c : ArrayCfg V) (g : Grid V) (s s' : XS)
    (us : List (CellUpd V)) (hsh : Shaped c.height c.width g) (h : arrayCandidates fuel c g s = .ok us s') :
    ∃ mv vs, us = mv ++ vs ∧ (c.useMove = false → mv = []) ∧
      (∀ u ∈ us, UpdateOk c g u) ∧
      ∀ u ∈ vs, ClosedNeg c.disallow → (c.symmetry = true → Sym c g) → NoAdj c g →
        ∀ g', applyCells g u = .ok g' → NoAdj c g' := by
  obtain ⟨mv, vs, rfl, hmv0, hmv, hvs⟩ := arrayCandidates_post fuel c g s us s' h
  refine ⟨mv, vs, rfl, hmv0, ?_, ?_⟩
  · intro u hu
    rcases List.mem_append.mp hu with hu | hu
    · exact updateOk_of_shape c g u hsh (Or.inl (hmv u hu))
    · exact updateOk_of_shape c g u hsh (Or.inr (hvs u hu))
  · intro u hu hD hsym hna g' hg'
    have hok := updateOk_of_shape c g u hsh (Or.inr (hvs u hu))
    obtain ⟨_, hcell⟩ := applyCells_spec u g g' hsh
      (fun t ht => ⟨(hok.1 t ht).1, (hok.1 t ht).2.2.1⟩) hg'
    have hfun : cellI g' = writes u (cellI g) := by funext y x; exact hcell y x
    rw [noAdj_iff, hfun]
    exact shape_noAdj c g u (hvs u hu) hD hsym hna

/-- The value `n / 2³²` of `random()` lies in `[0, 1)`. -/
theorem ratio_range (n : Nat) (h : n < 2 ^ 32) : (0 : ℚ) ≤ (n : ℚ) / 2 ^ 32 ∧ (n : ℚ) / 2 ^ 32 < 1 := by
  constructor
  · positivity
  · rw [div_lt_one (by positivity)]
    exact_mod_cast h

end Cspuz.Gen
