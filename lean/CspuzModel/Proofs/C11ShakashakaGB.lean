/-
  C11 / shakashaka — geometry, upright case, part B: rotation of the plane by 90° transports the statement
  "a boundary cell side below the area forces all cells of the area to be completely white" to the other three
  orientations of the side.
-/
import CspuzModel.Proofs.C11ShakashakaGA
namespace Cspuz.Proofs.C11ShakashakaGB
open Cspuz Cspuz.Spec Cspuz.Spec.Shakashaka Cspuz.Proofs.C11ShakashakaG0 Cspuz.Proofs.C11ShakashakaGA

/-- Rotation by 90° (counter-clockwise on the screen) and its inverse, on quarters. -/
def R (t : Quarter) : Quarter := ⟨-t.x - 1, t.y, t.q + 3⟩
def Ri (t : Quarter) : Quarter := ⟨t.x, -t.y - 1, t.q + 1⟩

theorem fin4_rot : ∀ q : Fin 4, q + 3 + 1 = q ∧ q + 1 + 3 = q := by decide

theorem Ri_R (t : Quarter) : Ri (R t) = t := by
  obtain ⟨y, x, q⟩ := t
  simp only [R, Ri, (fin4_rot q).1, Quarter.mk.injEq, and_true, true_and]
  omega

theorem R_Ri (t : Quarter) : R (Ri t) = t := by
  obtain ⟨y, x, q⟩ := t
  simp only [R, Ri, (fin4_rot q).2, Quarter.mk.injEq, and_true]
  omega

theorem R_across (t : Quarter) : R (across t) = across (R t) := by
  obtain ⟨y, x, q⟩ := t
  fin_cases q <;> simp [R, across] <;> omega

theorem Ri_across (t : Quarter) : Ri (across t) = across (Ri t) := by
  obtain ⟨y, x, q⟩ := t
  fin_cases q <;> simp [Ri, across] <;> omega

theorem fin4_shift : ∀ a b c : Fin 4, (b = a + 1 ∨ a = b + 1) → (b + c = a + c + 1 ∨ a + c = b + c + 1) := by decide

theorem touch_R {s t : Quarter} (h : Touch s t) : Touch (R s) (R t) := by
  rcases h with ⟨h1, h2, h3⟩ | h
  · left
    refine ⟨by simp only [R]; omega, by simp only [R]; omega, ?_⟩
    exact fin4_shift s.q t.q 3 h3
  · right; rw [h, R_across]

theorem touch_Ri {s t : Quarter} (h : Touch s t) : Touch (Ri s) (Ri t) := by
  rcases h with ⟨h1, h2, h3⟩ | h
  · left
    refine ⟨by simp only [Ri]; omega, by simp only [Ri]; omega, ?_⟩
    exact fin4_shift s.q t.q 1 h3
  · right; rw [h, Ri_across]

theorem Ri_octant (py px : Int) (i : Fin 8) : Ri (octant py px i) = octant px (-py) (i + 6) := by
  fin_cases i <;> simp [Ri, octant] <;> omega

/-- The rotated colouring. -/
def rotW (W : Quarter → Prop) : Quarter → Prop := fun u => W (Ri u)

theorem fin4_pat : ∀ q q0 : Fin 4, (q + 1 = q0 ∨ q + 1 = q0 + 1) ↔ (q = q0 + 3 ∨ q = q0 + 3 + 1) := by decide

theorem cellPattern_rot {W : Quarter → Prop} (hc : CellPattern W) : CellPattern (rotW W) := by
  intro y x
  rcases hc x (-y - 1) with h | h | ⟨q0, h⟩
  · exact Or.inl fun q => h _
  · exact Or.inr (Or.inl fun q => h _)
  · refine Or.inr (Or.inr ⟨q0 + 3, fun q => ?_⟩)
    show W ⟨x, -y - 1, q + 1⟩ ↔ _
    rw [h, fin4_pat]

theorem bounded_rot {W : Quarter → Prop} (hb : Bounded W) : Bounded (rotW W) := by
  obtain ⟨B, hB⟩ := hb
  refine ⟨B + 1, fun t ht => ?_⟩
  have := hB _ ht
  simp only [Ri] at this
  omega

theorem fin8_shift : ∀ i : Fin 8, i + 6 - 1 = i - 1 + 6 ∧ i + 6 + 1 = i + 1 + 6 ∧ i + 6 + 2 = i + 2 + 6 ∧
    i + 6 + 3 = i + 3 + 6 ∧ i + 6 + 4 = i + 4 + 6 := by decide

theorem anglesOK_shift {o : Fin 8 → Prop} (h : AnglesOK o) : AnglesOK fun i => o (i + 6) := by
  rcases h with h | h
  · exact Or.inl fun i => h _
  · right
    intro i hi hn
    obtain ⟨e1, e2, e3, e4, e5⟩ := fin8_shift i
    have := h (i + 6) hi (by rw [e1]; exact hn)
    rw [e2, e3, e4, e5] at this
    exact this

theorem angles_rot {W : Quarter → Prop} (ha : Angles W) : Angles (rotW W) := by
  intro py px
  have h := anglesOK_shift (ha px (-py))
  have e : (fun i => rotW W (octant py px i)) = fun i => W (octant px (-py) (i + 6)) := by
    funext i
    show W (Ri (octant py px i)) = _
    rw [Ri_octant]
  rw [e]
  exact h

theorem comp_rot {W : Quarter → Prop} {s u : Quarter} (h : Comp W (Ri s) u) : Comp (rotW W) s (R u) := by
  induction h with
  | refl => rw [R_Ri]; exact Relation.ReflTransGen.refl
  | @tail b c _ hbc ih =>
    refine Relation.ReflTransGen.tail ih ⟨?_, ?_, touch_R hbc.2.2⟩
    · show W (Ri (R b)); rw [Ri_R]; exact hbc.1
    · show W (Ri (R c)); rw [Ri_R]; exact hbc.2.1

theorem comp_unrot {W : Quarter → Prop} {s t : Quarter} (h : Comp (rotW W) s t) : Comp W (Ri s) (Ri t) := by
  induction h with
  | refl => exact Relation.ReflTransGen.refl
  | @tail b c _ hbc ih => exact Relation.ReflTransGen.tail ih ⟨hbc.1, hbc.2.1, touch_Ri hbc.2.2⟩

/-- The statement for a cell side of orientation `q` (the quarter `t0` of the area rests on side `q` of its cell). -/
def FullOf (q : Fin 4) : Prop :=
  ∀ W : Quarter → Prop, CellPattern W → Bounded W → Angles W → ∀ s t0 : Quarter, W s → Comp W s t0 → t0.q = q →
    ¬ W (across t0) → ∀ t, Comp W s t → Full W t.y t.x

theorem fullOf_two : FullOf 2 := fun _ hc hb ha _ _ hs h0 hq hn => full_of_bottom hc hb ha hs h0 hq hn

theorem fullOf_succ (q : Fin 4) (h : FullOf q) : FullOf (q + 1) := by
  intro W hc hb ha s t0 hs h0 hq hn t ht
  have hs' : rotW W (R s) := by show W (Ri (R s)); rw [Ri_R]; exact hs
  have c0 : Comp (rotW W) (R s) (R t0) := comp_rot (by rw [Ri_R]; exact h0)
  have ct : Comp (rotW W) (R s) (R t) := comp_rot (by rw [Ri_R]; exact ht)
  have hq' : (R t0).q = q := by
    show t0.q + 3 = q
    rw [hq]; exact (fin4_rot q).2
  have hn' : ¬ rotW W (across (R t0)) := by
    show ¬ W (Ri (across (R t0)))
    rw [← R_across, Ri_R]; exact hn
  have := h (rotW W) (cellPattern_rot hc) (bounded_rot hb) (angles_rot ha) (R s) (R t0) hs' c0 hq' hn' (R t) ct
  intro q'
  have h1 := this (q' + 3)
  have e : Ri ⟨(R t).y, (R t).x, q' + 3⟩ = ⟨t.y, t.x, q'⟩ := by
    simp only [R, Ri, (fin4_rot q').1, Quarter.mk.injEq, and_true, true_and]
    clear * -
    omega
  have h2 : W (Ri ⟨(R t).y, (R t).x, q' + 3⟩) := h1
  rw [e] at h2
  exact h2

/-- A cell side on the boundary of an area forces all cells of the area to be completely white. -/
theorem full_of_side {W : Quarter → Prop} (hc : CellPattern W) (hb : Bounded W) (ha : Angles W) {s t0 : Quarter}
    (hs : W s) (h0 : Comp W s t0) (hn : ¬ W (across t0)) : ∀ t, Comp W s t → Full W t.y t.x := by
  have h2 := fullOf_two
  have h3 : FullOf 3 := fullOf_succ 2 h2
  have h0' : FullOf 0 := fullOf_succ 3 h3
  have h1 : FullOf 1 := fullOf_succ 0 h0'
  have all : ∀ q : Fin 4, FullOf q := by
    intro q
    fin_cases q
    · exact h0'
    · exact h1
    · exact h2
    · exact h3
  exact all t0.q W hc hb ha s t0 hs h0 rfl hn

end Cspuz.Proofs.C11ShakashakaGB
