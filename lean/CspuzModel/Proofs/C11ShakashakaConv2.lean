/-
  C11 / shakashaka — geometry, converse direction, part 2: if every white area is a rectangle (and the cell pattern
  holds), then a straight (180°) white angle whose sides are diagonals contains the whole middle cell.
-/
import CspuzModel.Proofs.C11ShakashakaGD
namespace Cspuz.Proofs.C11ShakashakaConv2
open Cspuz Cspuz.Spec Cspuz.Spec.Shakashaka Cspuz.Proofs.C11ShakashakaG0 Cspuz.Proofs.C11ShakashakaGD

theorem fin8_11 : ∀ i : Fin 8, i + 1 + 1 = i + 2 := by decide
theorem fin8_21 : ∀ i : Fin 8, i + 2 + 1 = i + 3 := by decide

/-- A statement about the six consecutive octants `i-1 .. i+4`, `i` odd, from its four instances. -/
theorem odd_cases (R : Fin 8 → Fin 8 → Fin 8 → Fin 8 → Fin 8 → Fin 8 → Prop)
    (h1 : R 0 1 2 3 4 5) (h3 : R 2 3 4 5 6 7) (h5 : R 4 5 6 7 0 1) (h7 : R 6 7 0 1 2 3) :
    ∀ i : Fin 8, i.val % 2 = 1 → R (i - 1) i (i + 1) (i + 2) (i + 3) (i + 4) := by
  intro i hi
  fin_cases i
  · exact absurd hi (by decide)
  · exact h1
  · exact absurd hi (by decide)
  · exact h3
  · exact absurd hi (by decide)
  · exact h5
  · exact absurd hi (by decide)
  · exact h7

theorem fin4_all (P : Fin 4 → Prop) (h : P 0 ∧ P 1 ∧ P 2 ∧ P 3) : ∀ q, P q := by
  intro q
  fin_cases q
  exacts [h.1, h.2.1, h.2.2.1, h.2.2.2]

/-- Upright rectangles contain whole cells: octants `i - 1`, `i` (`i` odd) lie in one cell. -/
theorem upright_prev (x0 x1 y0 y1 py px : Int) : ∀ i : Fin 8, i.val % 2 = 1 →
    InUpright x0 x1 y0 y1 (octant py px i) → InUpright x0 x1 y0 y1 (octant py px (i - 1)) := by
  apply odd_cases (fun m i0 _ _ _ _ =>
    InUpright x0 x1 y0 y1 (octant py px i0) → InUpright x0 x1 y0 y1 (octant py px m)) <;>
    simp only [octant, InUpright, verts, List.mem_cons, List.not_mem_nil, or_false, forall_eq_or_imp, forall_eq] <;>
    omega

/-- Rotated rectangle at least two diamonds thick in both directions: the straight angle contains the middle cell. -/
theorem rotated_cell (a b c d py px : Int) (hthick : ¬ (d = c + 1 ∨ b = a + 1)) : ∀ i : Fin 8, i.val % 2 = 1 →
    InRotated a b c d (octant py px i) → InRotated a b c d (octant py px (i + 3)) →
    ¬ InRotated a b c d (octant py px (i - 1)) → ¬ InRotated a b c d (octant py px (i + 4)) →
    ∀ q, InRotated a b c d ⟨(octant py px (i + 1)).y, (octant py px (i + 1)).x, q⟩ := by
  apply odd_cases (fun m i0 i1 _ i3 i4 =>
    InRotated a b c d (octant py px i0) → InRotated a b c d (octant py px i3) →
    ¬ InRotated a b c d (octant py px m) → ¬ InRotated a b c d (octant py px i4) →
    ∀ q, InRotated a b c d ⟨(octant py px i1).y, (octant py px i1).x, q⟩) <;>
  · intro h0 h3 hm h4
    apply fin4_all
    simp only [octant, InRotated, verts, List.mem_cons, List.not_mem_nil, or_false, forall_eq_or_imp,
      forall_eq] at h0 h3 hm h4 ⊢
    omega

/-- A quarter of the area whose two neighbours in its cell are both outside the area contradicts the cell pattern. -/
theorem cell_end_false {W : Quarter → Prop} (hc : CellPattern W) {s : Quarter} (hs : W s) (y x : Int)
    (q q1 q3 : Fin 4) (e1 : q1 = q + 1) (e3 : q = q3 + 1)
    (ht : Comp W s ⟨y, x, q⟩) (h1 : ¬ Comp W s ⟨y, x, q1⟩) (h3 : ¬ Comp W s ⟨y, x, q3⟩) : False := by
  have hw := comp_white hs ht
  have e3' : q3 = q + 3 := by subst e3; exact (fin4_13 q3).symm
  rcases cell_neighbour hc y x q hw with h | h
  · exact h1 (comp_step ht hw (by rw [e1]; exact h) (Or.inl ⟨rfl, rfl, Or.inl e1⟩))
  · exact h3 (comp_step ht hw (by rw [e3']; exact h) (Or.inl ⟨rfl, rfl, Or.inr e3⟩))

/-- With the cell pattern no area is a rotated rectangle only one diamond thick. -/
theorem thin_false {W : Quarter → Prop} (hc : CellPattern W) {s : Quarter} (hs : W s) {a b c d : Int}
    (h : ∀ t, Comp W s t ↔ InRotated a b c d t) (thin : d = c + 1 ∨ b = a + 1) : False := by
  have hin := (inRotated_iff a b c d s).1 ((h s).1 Relation.ReflTransGen.refl)
  have key : ∀ (y x : Int) (q q1 q3 : Fin 4), q1 = q + 1 → q = q3 + 1 → InRotated a b c d ⟨y, x, q⟩ →
      ¬ InRotated a b c d ⟨y, x, q1⟩ → ¬ InRotated a b c d ⟨y, x, q3⟩ → False :=
    fun y x q q1 q3 e1 e3 ht h1 h3 =>
      cell_end_false hc hs y x q q1 q3 e1 e3 ((h _).2 ht) (fun k => h1 ((h _).1 k)) (fun k => h3 ((h _).1 k))
  have par : (a + c) % 2 = 0 ∨ (a + c) % 2 = 1 := by omega
  rcases thin with t | t <;> rcases par with p | p
  · -- the S quarter of the cell with x + y = a - 1, x - y = c + 1
    refine key ((a - c - 2) / 2) ((a + c) / 2) 2 3 1 (by decide) (by decide) ?_ ?_ ?_ <;>
      simp only [inRotated_iff, dm] <;> omega
  · -- the E quarter of the cell with x + y = a - 1, x - y = c
    refine key ((a - c - 1) / 2) ((a + c - 1) / 2) 1 2 0 (by decide) (by decide) ?_ ?_ ?_ <;>
      simp only [inRotated_iff, dm] <;> omega
  · -- the N quarter of the cell with x + y = a, x - y = c
    refine key ((a - c) / 2) ((a + c) / 2) 0 1 3 (by decide) (by decide) ?_ ?_ ?_ <;>
      simp only [inRotated_iff, dm] <;> omega
  · -- the E quarter of the cell with x + y = a - 1, x - y = c
    refine key ((a - c - 1) / 2) ((a + c - 1) / 2) 1 2 0 (by decide) (by decide) ?_ ?_ ?_ <;>
      simp only [inRotated_iff, dm] <;> omega

/-- If every white area is a rectangle (and the cell pattern holds), a straight white angle bounded by two diagonals
contains the whole middle cell. -/
theorem straight_of_allRect (W : Quarter → Prop) (hc : CellPattern W) (hr : AllRect W) : Straight W := by
  intro py px i hodd w0 wm w1 w2 w3 w4 q
  have c0 : Comp W (octant py px i) (octant py px i) := Relation.ReflTransGen.refl
  have c1 : Comp W (octant py px i) (octant py px (i + 1)) := comp_step c0 w0 w1 (touch_octant py px i)
  have c2 : Comp W (octant py px i) (octant py px (i + 2)) := by
    have := comp_step c1 w1 (by rw [fin8_11]; exact w2) (touch_octant py px (i + 1))
    rwa [fin8_11] at this
  have c3 : Comp W (octant py px i) (octant py px (i + 3)) := by
    have := comp_step c2 w2 (by rw [fin8_21]; exact w3) (touch_octant py px (i + 2))
    rwa [fin8_21] at this
  rcases hr _ w0 with ⟨x0, x1, y0, y1, h⟩ | ⟨a, b, c, d, h⟩
  · exact absurd (comp_white w0 ((h _).2 (upright_prev x0 x1 y0 y1 py px i hodd ((h _).1 c0)))) wm
  · by_cases thin : d = c + 1 ∨ b = a + 1
    · exact (thin_false hc w0 h thin).elim
    · exact comp_white w0 ((h _).2 (rotated_cell a b c d py px thin i hodd ((h _).1 c0) ((h _).1 c3)
        (fun k => wm (comp_white w0 ((h _).2 k))) (fun k => w4 (comp_white w0 ((h _).2 k))) q))

end Cspuz.Proofs.C11ShakashakaConv2
