/-
  C11 / shakashaka — geometry, converse direction, part 2: if every white area is a rectangle (and the cell pattern
  holds), then a straight (180°) white angle whose sides are diagonals contains the whole middle cell.
-/
import CspuzModel.Proofs.C11ShakashakaGD
namespace Cspuz.Proofs.C11ShakashakaConv2
open Cspuz Cspuz.Spec Cspuz.Spec.Shakashaka Cspuz.Proofs.C11ShakashakaG0 Cspuz.Proofs.C11ShakashakaGD

theorem fin8_11 : ∀ i : Fin 8, i + 1 + 1 = i + 2 := by decide
theorem fin8_21 : ∀ i : Fin 8, i + 2 + 1 = i + 3 := by decide

/-- A statement about the six consecutive octants `i-1 .. i+4`, `i` odd, from its four instances. -/
theorem odd_cases (R : Fin 8 → Fin 8 → Fin 8 → Fin 8 → Fin 8 → Fin 8 → Prop)
    (h1 : R 0 1 2 3 4 5) (h3 : R 2 3 4 5 6 7) (h5 : R 4 5 6 7 0 1) (h7 : R 6 7 0 1 2 3) :
    ∀ i : Fin 8, i.val % 2 = 1 → R (i - 1) i (i + 1) (i + 2) (i + 3) (i + 4) := by
  intro i hi
  fin_cases i
  · exact absurd hi (by decide)
  · exact h1
  · exact absurd hi (by decide)
  · exact h3
  · exact absurd hi (by decide)
  · exact h5
  · exact absurd hi (by decide)
  · exact h7

theorem fin4_all (P : Fin 4 → Prop) (h : P 0 ∧ P 1 ∧ P 2 ∧ P 3) : ∀ q, P q := by
  intro q
  fin_cases q
  exacts [h.1, h.2.1, h.2.2.1, h.2.2.2]

/-- Upright rectangles contain whole cells: octants `i - 1`, `i` (`i` odd) lie in one cell. -/
theorem upright_prev (x0 x1 y0 y1 py px : Int) : ∀ i : Fin 8, i.val % 2 = 1 →
    InUpright x0 x1 y0 y1 (octant py px i) → InUpright x0 x1 y0 y1 (octant py px (i - 1)) := by
  apply odd_cases (fun m i0 _ _ _ _ =>
    InUpright x0 x1 y0 y1 (octant py px i0) → InUpright x0 x1 y0 y1 (octant py px m)) <;>
    simp only [octant, InUpright, verts, List.mem_cons, List.not_mem_nil, or_false, forall_eq_or_imp, forall_eq] <;>
    omega

/-- Rotated rectangle at least two diamonds thick in both directions: the straight angle contains the middle cell. -/
theorem rotated_cell (a b c d py px : Int) (hthick : ¬ (d = c + 1 ∨ b = a + 1)) : ∀ i : Fin 8, i.val % 2 = 1 →
    InRotated a b c d (octant py px i) → InRotated a b c d (octant py px (i + 3)) →
    ¬ InRotated a b c d (octant py px (i - 1)) → ¬ InRotated a b c d (octant py px (i + 4)) →
    ∀ q, InRotated a b c d ⟨(octant py px (i + 1)).y, (octant py px (i + 1)).x, q⟩ := by
  apply odd_cases (fun m i0 i1 _ i3 i4 =>
    InRotated a b c d (octant py px i0) → InRotated a b c d (octant py px i3) →
    ¬ InRotated a b c d (octant py px m) → ¬ InRotated a b c d (octant py px i4) →
    ∀ q, InRotated a b c d ⟨(octant py px i1).y, (octant py px i1).x, q⟩) <;>
  · intro h0 h3 hm h4
    apply fin4_all
    simp only [octant, InRotated, verts, List.mem_cons, List.not_mem_nil, or_false, forall_eq_or_imp,
      forall_eq] at h0 h3 hm h4 ⊢
    omega

end Cspuz.Proofs.C11ShakashakaConv2
