/-
  C19, part 3: grids — reading/writing cells, the effect of `copy_with_update`, and preservation of
  point symmetry / the adjacency rule by the individual update shapes of `ArrayBuilder2D.candidates`.
-/
import CspuzModel.Proofs.C19Rand
import Mathlib.Tactic.SplitIfs
namespace Cspuz.Gen
open Cspuz

variable {V : Type}

/-! ## reading and writing cells -/

theorem pyIndex_nonneg {α} {l : List α} {k : Int} {v : α} (hk : 0 ≤ k) (h : pyIndex l k = .ok v) :
    k.toNat < l.length ∧ l[k.toNat]? = some v := by
  obtain ⟨p, hp, hlt, hv⟩ := pyIndex_ok h
  rw [if_neg (by omega)] at hp
  have : k.toNat = p := by omega
  rw [this]; exact ⟨hlt, hv⟩

theorem pySetItem_nonneg {α} {l l' : List α} {k : Int} {v : α} (hk : 0 ≤ k)
    (h : pySetItem l k v = .ok l') : k.toNat < l.length ∧ l' = l.set k.toNat v := by
  unfold pySetItem at h
  simp only [if_neg (show ¬ k < 0 by omega)] at h
  split at h
  · cases h; exact ⟨by omega, rfl⟩
  · cases h

theorem gridGet_cell {g : Grid V} {y x : Int} {v : V} (hy : 0 ≤ y) (hx : 0 ≤ x)
    (h : gridGet g y x = .ok v) : cellI g y x = some v := by
  unfold gridGet at h
  obtain ⟨row, hrow, hv⟩ := py_bind_ok h
  have h1 := pyIndex_nonneg hy hrow
  have h2 := pyIndex_nonneg hx hv
  simp [cellI, hy, hx, h1.2, h2.2]

theorem cellI_some_inr {h w : Nat} {g : Grid V} (hs : Shaped h w g) {y x : Int} {v : V}
    (hc : cellI g y x = some v) : 0 ≤ y ∧ y < h ∧ 0 ≤ x ∧ x < w := by
  unfold cellI at hc
  split at hc
  · rename_i hyx
    cases hr : g[y.toNat]? with
    | none => simp [hr] at hc
    | some r =>
      simp only [hr, Option.bind_some] at hc
      obtain ⟨hlt, hre⟩ := List.getElem?_eq_some_iff.mp hr
      have hrw : r.length = w := hs.2 r (hre ▸ List.getElem_mem hlt)
      obtain ⟨hlt2, _⟩ := List.getElem?_eq_some_iff.mp hc
      have := hs.1
      omega
  · cases hc

theorem cellI_inr {h w : Nat} {g : Grid V} (hs : Shaped h w g) {y x : Int}
    (hy : 0 ≤ y) (hy' : y < h) (hx : 0 ≤ x) (hx' : x < w) : ∃ v, cellI g y x = some v := by
  have hlt : y.toNat < g.length := by have := hs.1; omega
  have hrw : (g[y.toNat]).length = w := hs.2 _ (List.getElem_mem hlt)
  have hlt2 : x.toNat < (g[y.toNat]).length := by omega
  refine ⟨(g[y.toNat])[x.toNat], ?_⟩
  simp [cellI, hy, hx, List.getElem?_eq_getElem hlt, List.getElem?_eq_getElem hlt2]

theorem gridGet_of_cell {g : Grid V} {y x : Int} {v : V} (hc : cellI g y x = some v) :
    gridGet g y x = .ok v := by
  unfold cellI at hc
  split at hc
  · rename_i hyx
    cases hr : g[y.toNat]? with
    | none => simp [hr] at hc
    | some r =>
      simp only [hr, Option.bind_some] at hc
      obtain ⟨hlt, hre⟩ := List.getElem?_eq_some_iff.mp hr
      obtain ⟨hlt2, hre2⟩ := List.getElem?_eq_some_iff.mp hc
      unfold gridGet
      have e1 : pyIndex g y = .ok r := by
        have := pyIndex_nat (l := g) hlt
        rw [show ((y.toNat : Nat) : Int) = y by omega] at this
        rw [this, hre]
      have e2 : pyIndex r x = .ok v := by
        have := pyIndex_nat (l := r) hlt2
        rw [show ((x.toNat : Nat) : Int) = x by omega] at this
        rw [this, hre2]
      rw [e1]
      exact e2
  · cases hc

theorem gridSet_spec {h w : Nat} {g g' : Grid V} {y x : Int} {v : V} (hs : Shaped h w g)
    (hy : 0 ≤ y) (hx : 0 ≤ x) (hset : gridSet g y x v = .ok g') :
    Shaped h w g' ∧ ∀ y' x', cellI g' y' x' = if y' = y ∧ x' = x then some v else cellI g y' x' := by
  unfold gridSet at hset
  obtain ⟨row, hrow, h2⟩ := py_bind_ok hset
  obtain ⟨row', hrow', h3⟩ := py_bind_ok h2
  obtain ⟨hylt, hrowe⟩ := pyIndex_nonneg hy hrow
  obtain ⟨hxlt, rfl⟩ := pySetItem_nonneg hx hrow'
  obtain ⟨_, rfl⟩ := pySetItem_nonneg hy h3
  obtain ⟨_, hre⟩ := List.getElem?_eq_some_iff.mp hrowe
  have hrw : row.length = w := hs.2 row (hre ▸ List.getElem_mem hylt)
  refine ⟨⟨by simp [hs.1], ?_⟩, ?_⟩
  · intro r hr
    rcases List.mem_or_eq_of_mem_set hr with h1 | h1
    · exact hs.2 r h1
    · rw [h1]; simp [hrw]
  · intro y' x'
    unfold cellI
    by_cases hyx : 0 ≤ y' ∧ 0 ≤ x'
    · simp only [if_pos hyx]
      by_cases e : y' = y ∧ x' = x
      · obtain ⟨rfl, rfl⟩ := e
        simp [hylt, hxlt]
      · rw [if_neg e]
        by_cases ey : y' = y
        · subst ey
          have ex : x'.toNat ≠ x.toNat := by omega
          simp [hylt, hre, List.getElem?_set_ne (Ne.symm ex)]
        · have ey' : y.toNat ≠ y'.toNat := by omega
          simp [List.getElem?_set_ne ey']
    · have : ¬ (y' = y ∧ x' = x) := by omega
      simp [if_neg hyx, if_neg this]

theorem gridSet_ok {h w : Nat} {g : Grid V} {y x : Int} (v : V) (hs : Shaped h w g)
    (hy : 0 ≤ y) (hy' : y < h) (hx : 0 ≤ x) (hx' : x < w) : ∃ g', gridSet g y x v = .ok g' := by
  have hlt : y.toNat < g.length := by have := hs.1; omega
  have hrw : (g[y.toNat]).length = w := hs.2 _ (List.getElem_mem hlt)
  have hlt2 : x.toNat < (g[y.toNat]).length := by omega
  unfold gridSet
  have e1 : pyIndex g y = .ok g[y.toNat] := by
    have := pyIndex_nat (l := g) hlt
    rwa [show ((y.toNat : Nat) : Int) = y by omega] at this
  have e2 : pySetItem g[y.toNat] x v = .ok (g[y.toNat].set x.toNat v) := by
    have := pySetItem_nat (l := g[y.toNat]) v hlt2
    rwa [show ((x.toNat : Nat) : Int) = x by omega] at this
  have e3 : pySetItem g y (g[y.toNat].set x.toNat v) = .ok (g.set y.toNat (g[y.toNat].set x.toNat v)) := by
    have := pySetItem_nat (l := g) (g[y.toNat].set x.toNat v) hlt
    rwa [show ((y.toNat : Nat) : Int) = y by omega] at this
  rw [e1]
  show ∃ g', (pySetItem g[y.toNat] x v >>= fun row' => pySetItem g y row') = .ok g'
  rw [e2]
  exact ⟨_, e3⟩


/-! ## the effect of an update -/

theorem applyCells_spec {h w : Nat} : ∀ (u : CellUpd V) (g g' : Grid V), Shaped h w g →
    (∀ t ∈ u, 0 ≤ t.1 ∧ 0 ≤ t.2.1) → applyCells g u = .ok g' →
    Shaped h w g' ∧ ∀ y x, cellI g' y x = writes u (cellI g) y x
  | [], g, g', hs, _, e => by
    simp only [applyCells, Except.ok.injEq] at e
    subst e
    exact ⟨hs, fun _ _ => rfl⟩
  | (y0, x0, v) :: rest, g, g', hs, hnn, e => by
    simp only [applyCells] at e
    obtain ⟨g1, hg1, e2⟩ := py_bind_ok e
    have h0 := hnn (y0, x0, v) List.mem_cons_self
    obtain ⟨hs1, hc1⟩ := gridSet_spec hs h0.1 h0.2 hg1
    obtain ⟨hs2, hc2⟩ := applyCells_spec rest g1 g' hs1
      (fun t ht => hnn t (List.mem_cons_of_mem _ ht)) e2
    refine ⟨hs2, fun y x => ?_⟩
    rw [hc2, writes]
    congr 1
    funext y' x'
    exact hc1 y' x'

theorem applyCells_ok {h w : Nat} : ∀ (u : CellUpd V) (g : Grid V), Shaped h w g →
    (∀ t ∈ u, 0 ≤ t.1 ∧ t.1 < h ∧ 0 ≤ t.2.1 ∧ t.2.1 < w) → ∃ g', applyCells g u = .ok g'
  | [], g, _, _ => ⟨g, rfl⟩
  | (y0, x0, v) :: rest, g, hs, hin => by
    have h0 := hin (y0, x0, v) List.mem_cons_self
    obtain ⟨g1, hg1⟩ := gridSet_ok v hs h0.1 h0.2.1 h0.2.2.1 h0.2.2.2
    obtain ⟨hs1, _⟩ := gridSet_spec hs h0.1 h0.2.2.1 hg1
    obtain ⟨g', hg'⟩ := applyCells_ok rest g1 hs1 (fun t ht => hin t (List.mem_cons_of_mem _ ht))
    refine ⟨g', ?_⟩
    simp only [applyCells]
    rw [hg1]
    exact hg'

theorem writes_cases : ∀ (u : CellUpd V) (f : Int → Int → Option V) (y x : Int),
    writes u f y x = f y x ∨ ∃ t ∈ u, t.1 = y ∧ t.2.1 = x ∧ writes u f y x = some t.2.2
  | [], _, _, _ => Or.inl rfl
  | (y0, x0, v) :: rest, f, y, x => by
    rw [writes]
    rcases writes_cases rest (fun y x => if y = y0 ∧ x = x0 then some v else f y x) y x with h | h
    · rw [h]
      by_cases e : y = y0 ∧ x = x0
      · right
        exact ⟨(y0, x0, v), List.mem_cons_self, e.1.symm, e.2.symm, by simp [e]⟩
      · left; simp [e]
    · right
      obtain ⟨t, ht, h1, h2, h3⟩ := h
      exact ⟨t, List.mem_cons_of_mem _ ht, h1, h2, h3⟩

theorem writes_not_listed (u : CellUpd V) (f : Int → Int → Option V) (y x : Int)
    (h : ∀ t ∈ u, ¬ (t.1 = y ∧ t.2.1 = x)) : writes u f y x = f y x := by
  rcases writes_cases u f y x with h' | ⟨t, ht, h1, h2, _⟩
  · exact h'
  · exact absurd ⟨h1, h2⟩ (h t ht)

def SymF (c : ArrayCfg V) (f : Int → Int → Option V) : Prop :=
  ∀ y x : Int, InR c y x →
    (f y x = some c.default ↔ f (c.height - 1 - y) (c.width - 1 - x) = some c.default)

def NoAdjF (c : ArrayCfg V) (f : Int → Int → Option V) : Prop :=
  ∀ (y x : Int) (d : Int × Int), d ∈ c.disallow → InR c y x → InR c (y + d.1) (x + d.2) →
    f y x = some c.default ∨ f (y + d.1) (x + d.2) = some c.default

theorem closedNeg_ne_zero {D : List (Int × Int)} (hD : ClosedNeg D) {d : Int × Int} (hd : d ∈ D) :
    ¬ (d.1 = 0 ∧ d.2 = 0) := by
  rintro ⟨h1, h2⟩
  have e : d = (0, 0) := Prod.ext h1 h2
  exact hD.2 (e ▸ hd)

theorem noAdjF_single (c : ArrayCfg V) (f : Int → Int → Option V) (py px : Int) (v : V)
    (hD : ClosedNeg c.disallow)
    (hnb : v ≠ c.default → ∀ d ∈ c.disallow, InR c (py + d.1) (px + d.2) →
      f (py + d.1) (px + d.2) = some c.default)
    (hna : NoAdjF c f) : NoAdjF c (writes [(py, px, v)] f) := by
  intro y x d hd hin hin'
  have hd0 := closedNeg_ne_zero hD hd
  have hneg := hD.1 d hd
  simp only [writes]
  by_cases hv : v = c.default
  · subst hv
    split_ifs
    · left; rfl
    · left; rfl
    · right; rfl
    · exact hna y x d hd hin hin'
  · by_cases h1 : y = py ∧ x = px
    · obtain ⟨rfl, rfl⟩ := h1
      right
      rw [if_neg (by omega)]
      exact hnb hv d hd hin'
    · rw [if_neg h1]
      by_cases h2 : y + d.1 = py ∧ x + d.2 = px
      · left
        have := hnb hv _ hneg
        simp only at this
        rw [show py + -d.1 = y by omega, show px + -d.2 = x by omega] at this
        exact this hin
      · rw [if_neg h2]
        exact hna y x d hd hin hin'

/-- Changing a non-default cell to another non-default value does not change default-ness. -/
theorem noAdjF_same (c : ArrayCfg V) (f f' : Int → Int → Option V)
    (h : ∀ y x, f' y x = some c.default ↔ f y x = some c.default) (hna : NoAdjF c f) : NoAdjF c f' := by
  intro y x d hd hin hin'
  rw [h, h]
  exact hna y x d hd hin hin'

theorem noAdjF_symPair (c : ArrayCfg V) (f : Int → Int → Option V) (py px : Int) (v v2 : V)
    (hp : InR c py px) (hD : ClosedNeg c.disallow)
    (hnb : ∀ d ∈ c.disallow, InR c (py + d.1) (px + d.2) → f (py + d.1) (px + d.2) = some c.default)
    (hself : ((c.height : Int) - 1 - py - py, (c.width : Int) - 1 - px - px) ∉ c.disallow)
    (hsym : SymF c f) (hna : NoAdjF c f) :
    NoAdjF c (writes [(py, px, v), (c.height - 1 - py, c.width - 1 - px, v2)] f) := by
  intro y x d hd hin hin'
  have hd0 := closedNeg_ne_zero hD hd
  have hneg := hD.1 d hd
  have hA : ¬ (d.1 = (c.height : Int) - 1 - py - py ∧ d.2 = (c.width : Int) - 1 - px - px) := by
    rintro ⟨e1, e2⟩; exact hself (by rw [← e1, ← e2]; exact hd)
  have hA' : ¬ (-d.1 = (c.height : Int) - 1 - py - py ∧ -d.2 = (c.width : Int) - 1 - px - px) := by
    rintro ⟨e1, e2⟩; exact hself (by rw [← e1, ← e2]; exact hneg)
  -- neighbours of the mirror cell are default too, by symmetry
  have hnbS : ∀ e ∈ c.disallow, InR c ((c.height : Int) - 1 - py + e.1) ((c.width : Int) - 1 - px + e.2) →
      f ((c.height : Int) - 1 - py + e.1) ((c.width : Int) - 1 - px + e.2) = some c.default := by
    intro e he hine
    have := hsym _ _ hine
    rw [this]
    have hne := hD.1 e he
    have h2 := hnb _ hne
    simp only at h2
    rw [show (c.height : Int) - 1 - ((c.height : Int) - 1 - py + e.1) = py + -e.1 by omega,
      show (c.width : Int) - 1 - ((c.width : Int) - 1 - px + e.2) = px + -e.2 by omega]
    apply h2
    unfold InR at *
    omega
  unfold InR at hin hin' hp
  simp only [writes]
  by_cases h1 : y = c.height - 1 - py ∧ x = c.width - 1 - px
  · obtain ⟨rfl, rfl⟩ := h1
    right
    rw [if_neg (by omega), if_neg (by omega)]
    exact hnbS d hd (by unfold InR; omega)
  · rw [if_neg h1]
    by_cases h2 : y = py ∧ x = px
    · obtain ⟨rfl, rfl⟩ := h2
      right
      rw [if_neg (by omega), if_neg (by omega)]
      exact hnb d hd (by unfold InR; omega)
    · rw [if_neg h2]
      by_cases h3 : y + d.1 = c.height - 1 - py ∧ x + d.2 = c.width - 1 - px
      · left
        have := hnbS _ hneg
        simp only at this
        rw [show (c.height : Int) - 1 - py + -d.1 = y by omega,
          show (c.width : Int) - 1 - px + -d.2 = x by omega] at this
        exact this (by unfold InR; omega)
      · rw [if_neg h3]
        by_cases h4 : y + d.1 = py ∧ x + d.2 = px
        · left
          have := hnb _ hneg
          simp only at this
          rw [show py + -d.1 = y by omega, show px + -d.2 = x by omega] at this
          exact this (by unfold InR; omega)
        · rw [if_neg h4]
          exact hna y x d hd (by unfold InR; omega) (by unfold InR; omega)

theorem symF_move (c : ArrayCfg V) (f : Int → Int → Option V) (y1 x1 y2 x2 : Int) (c1 c2 c1b c2b : V)
    (h1 : InR c y1 x1) (h2 : InR c y2 x2)
    (hne : ¬ (y1 = y2 ∧ x1 = x2))
    (hnc : ¬ (y1 = c.height - 1 - y1 ∧ x1 = c.width - 1 - x1))
    (hnb : ¬ (y1 = c.height - 1 - y2 ∧ x1 = c.width - 1 - x2))
    (e1 : f y1 x1 = some c1) (e2 : f y2 x2 = some c2)
    (e1b : f (c.height - 1 - y1) (c.width - 1 - x1) = some c1b)
    (e2b : f (c.height - 1 - y2) (c.width - 1 - x2) = some c2b)
    (hsym : SymF c f) :
    SymF c (writes [(y1, x1, c2), (y2, x2, c1), (c.height - 1 - y1, c.width - 1 - x1, c2b),
      (c.height - 1 - y2, c.width - 1 - x2, c1b)] f) := by
  have hs1 : some c1 = some c.default ↔ some c1b = some c.default := by
    have := hsym y1 x1 h1; rwa [e1, e1b] at this
  have hs2 : some c2 = some c.default ↔ some c2b = some c.default := by
    have := hsym y2 x2 h2; rwa [e2, e2b] at this
  intro y x hin
  have hxy := hsym y x hin
  unfold InR at *
  simp only [writes]
  split_ifs <;>
    first
      | exact Iff.rfl | exact hs1 | exact hs1.symm | exact hs2 | exact hs2.symm | exact hxy
      | (exfalso; omega)


theorem symF_clear (c : ArrayCfg V) (f : Int → Int → Option V) (py px : Int) (hsym : SymF c f) :
    SymF c (writes [(py, px, c.default), (c.height - 1 - py, c.width - 1 - px, c.default)] f) := by
  intro y x hin
  have hxy := hsym y x hin
  unfold InR at *
  simp only [writes]
  split_ifs <;> first | exact Iff.rfl | exact hxy | (exfalso; omega)

theorem symF_pair (c : ArrayCfg V) (f : Int → Int → Option V) (py px : Int) (v v2 : V)
    (hv : v ≠ c.default) (hv2 : v2 ≠ c.default) (hsym : SymF c f) :
    SymF c (writes [(py, px, v), (c.height - 1 - py, c.width - 1 - px, v2)] f) := by
  intro y x hin
  have hxy := hsym y x hin
  have e1 : some v = some c.default ↔ some v2 = some c.default := by simp [hv, hv2]
  unfold InR at *
  simp only [writes]
  split_ifs <;> first | exact Iff.rfl | exact hxy | exact e1 | exact e1.symm | (exfalso; omega)

/-- Replacing a non-default value by a non-default value leaves default-ness alone. -/
theorem change_same (c : ArrayCfg V) (f : Int → Int → Option V) (py px : Int) (v cv : V)
    (e : f py px = some cv) (hcv : cv ≠ c.default) (hv : v ≠ c.default) (y x : Int) :
    writes [(py, px, v)] f y x = some c.default ↔ f y x = some c.default := by
  simp only [writes]
  split_ifs with h
  · obtain ⟨rfl, rfl⟩ := h
    rw [e]; simp [hv, hcv]
  · exact Iff.rfl

theorem symF_change (c : ArrayCfg V) (f : Int → Int → Option V) (py px : Int) (v cv : V)
    (e : f py px = some cv) (hcv : cv ≠ c.default) (hv : v ≠ c.default) (hsym : SymF c f) :
    SymF c (writes [(py, px, v)] f) := by
  intro y x hin
  rw [change_same c f py px v cv e hcv hv, change_same c f py px v cv e hcv hv]
  exact hsym y x hin

end Cspuz.Gen
