/-
  C03, string layer: Python `split` / `join` / `strip` / `str(int)` / `int(str)` primitives of Model/Sugar.lean
  and the number readers of Spec/SugarSyntax.lean.
-/
import CspuzModel.Spec.SugarSyntax
namespace Cspuz.Proofs.C03Str
open Cspuz Cspuz.Sugar Cspuz.SugarSyntax

/-! ### character classes -/

def digs : List Char := ['0', '1', '2', '3', '4', '5', '6', '7', '8', '9']

/-- Characters that may occur inside an emitted atom: no Python whitespace, no parenthesis. -/
def plain (c : Char) : Bool := !isPySpace c && c != '(' && c != ')' && c != '#' && decide (c.toNat < 128)

theorem digitChar_mem_fin : ∀ d : Fin 10, digitChar d.val ∈ digs := by decide
theorem digitChar_mem {d : Nat} (h : d < 10) : digitChar d ∈ digs := digitChar_mem_fin ⟨d, h⟩
theorem digs_plain : ∀ c ∈ digs, plain c = true := by decide
theorem digs_isDigit : ∀ c ∈ digs, c.isDigit = true := by decide
theorem digs_not_sign : ∀ c ∈ digs, c ≠ '-' ∧ c ≠ '+' ∧ c ≠ 'b' ∧ c ≠ 'i' ∧ c ≠ 't' ∧ c ≠ 'f' ∧ c ≠ '*' ∧ c ≠ '#' := by decide
theorem digitChar_val_fin : ∀ d : Fin 10, (digitChar d.val).toNat - 48 = d.val := by decide
theorem digitChar_val {d : Nat} (h : d < 10) : (digitChar d).toNat - 48 = d := digitChar_val_fin ⟨d, h⟩

theorem plain_not_space {c : Char} (h : plain c = true) : isPySpace c = false := by
  simp only [plain, Bool.and_eq_true, Bool.not_eq_true'] at h; exact h.1.1.1.1

theorem plain_ascii {c : Char} (h : plain c = true) : c.toNat < 128 := by
  simp only [plain, Bool.and_eq_true, decide_eq_true_eq] at h; exact h.2

theorem plain_ne {c : Char} (h : plain c = true) :
    c ≠ ' ' ∧ c ≠ '\n' ∧ c ≠ '\t' ∧ c ≠ '\r' ∧ c ≠ '(' ∧ c ≠ ')' ∧ c ≠ '#' := by
  refine ⟨?_, ?_, ?_, ?_, ?_, ?_, ?_⟩ <;> (intro hc; subst hc; revert h; decide)

theorem plain_not_delim {c : Char} (h : plain c = true) : isDelim c = false := by
  obtain ⟨h1, h2, h3, h4, h5, h6, _⟩ := plain_ne h
  simp [isDelim, h1, h2, h3, h4, h5, h6]

/-! ### `natDigits` -/

theorem natDigitsAux_fuel : ∀ (fuel n : Nat), n < fuel → natDigitsAux fuel n = natDigitsAux (n + 1) n
  | 0, n, h => absurd h (Nat.not_lt_zero n)
  | fuel + 1, n, h => by
    rw [natDigitsAux, natDigitsAux]
    by_cases h10 : n < 10
    · simp [h10]
    · simp only [h10, if_false]
      have h1 : n / 10 < fuel := by omega
      have h2 : n / 10 < n := by omega
      rw [natDigitsAux_fuel fuel (n / 10) h1, natDigitsAux_fuel n (n / 10) h2]

theorem natDigits_lt {n : Nat} (h : n < 10) : natDigits n = [digitChar n] := by
  rw [natDigits, natDigitsAux]; simp [h]

theorem natDigits_ge {n : Nat} (h : ¬ n < 10) :
    natDigits n = natDigits (n / 10) ++ [digitChar (n % 10)] := by
  rw [natDigits, natDigitsAux]
  simp only [h, if_false]
  rw [natDigitsAux_fuel n (n / 10) (by omega)]
  rfl

theorem natDigits_induct (motive : Nat → Prop) (case1 : ∀ x, x < 10 → motive x)
    (case2 : ∀ x, ¬ x < 10 → motive (x / 10) → motive x) : ∀ n, motive n := by
  intro n
  induction n using Nat.strongRecOn with
  | _ n ih =>
    by_cases h : n < 10
    · exact case1 n h
    · exact case2 n h (ih (n / 10) (by omega))

theorem natDigits_digs (n : Nat) : ∀ c ∈ natDigits n, c ∈ digs := by
  induction n using natDigits_induct with
  | case1 x h => rw [natDigits_lt h]; intro c hc; simp at hc; subst hc; exact digitChar_mem h
  | case2 x h ih =>
    rw [natDigits_ge h]; intro c hc
    rcases List.mem_append.1 hc with hc | hc
    · exact ih c hc
    · simp at hc; subst hc; exact digitChar_mem (Nat.mod_lt _ (by decide))

theorem natDigits_ne_nil (n : Nat) : natDigits n ≠ [] := by
  induction n using natDigits_induct with
  | case1 x h => rw [natDigits_lt h]; simp
  | case2 x h ih => rw [natDigits_ge h]; simp

theorem natDigits_plain (n : Nat) : ∀ c ∈ natDigits n, plain c = true :=
  fun c hc => digs_plain c (natDigits_digs n c hc)

/-- `natDigits n = c :: r` with `c` a digit. -/
theorem natDigits_cons (n : Nat) : ∃ c r, natDigits n = c :: r ∧ c ∈ digs := by
  cases h : natDigits n with
  | nil => exact absurd h (natDigits_ne_nil n)
  | cons c r => exact ⟨c, r, rfl, natDigits_digs n c (by rw [h]; simp)⟩

theorem pyDigStep_digit {c : Char} (hc : c ∈ digs) (prev : Bool) (acc : Nat) :
    pyDigStep (some (prev, acc)) c = some (true, acc * 10 + (c.toNat - 48)) := by
  simp [pyDigStep, digs_isDigit c hc]

theorem pyFold_natDigits (n : Nat) : ∀ prev acc, ∃ k,
    (natDigits n).foldl pyDigStep (some (prev, acc)) = some (true, acc * 10 ^ k + n) ∧ k = (natDigits n).length := by
  induction n using natDigits_induct with
  | case1 x h =>
    intro prev acc
    refine ⟨1, ?_, by rw [natDigits_lt h]; rfl⟩
    rw [natDigits_lt h, List.foldl_cons, List.foldl_nil, pyDigStep_digit (digitChar_mem h), digitChar_val h]
    try simp
  | case2 x h ih =>
    intro prev acc
    obtain ⟨k, hk, hl⟩ := ih prev acc
    refine ⟨k + 1, ?_, by rw [natDigits_ge h]; simp [hl]⟩
    have hm : x % 10 < 10 := Nat.mod_lt _ (by decide)
    rw [natDigits_ge h, List.foldl_append, hk, List.foldl_cons, List.foldl_nil,
      pyDigStep_digit (digitChar_mem hm), digitChar_val hm]
    congr 2
    rw [Nat.pow_succ, Nat.add_mul, Nat.mul_assoc, Nat.add_assoc]
    congr 1
    omega

theorem pyNat_natDigits (n : Nat) : pyNat? (natDigits n) = some n := by
  obtain ⟨k, hk, _⟩ := pyFold_natDigits n false 0
  simp [pyNat?, hk]

theorem parseFold_natDigits (n : Nat) : ∀ acc, ∃ k,
    (natDigits n).foldl (fun acc c => acc.bind fun a => if c.isDigit then some (a * 10 + (c.toNat - 48)) else none)
      (some acc) = some (acc * 10 ^ k + n) := by
  induction n using natDigits_induct with
  | case1 x h =>
    intro acc
    refine ⟨1, ?_⟩
    rw [natDigits_lt h]
    simp [digs_isDigit _ (digitChar_mem h), digitChar_val h]
  | case2 x h ih =>
    intro acc
    obtain ⟨k, hk⟩ := ih acc
    refine ⟨k + 1, ?_⟩
    have hm : x % 10 < 10 := Nat.mod_lt _ (by decide)
    rw [natDigits_ge h, List.foldl_append, hk]
    simp only [List.foldl_cons, List.foldl_nil, Option.bind_some, digs_isDigit _ (digitChar_mem hm),
      if_true, digitChar_val hm]
    congr 1
    rw [Nat.pow_succ, Nat.add_mul, Nat.mul_assoc, Nat.add_assoc]
    congr 1
    omega

theorem parseNat_natDigits (n : Nat) : parseNat? (natDigits n) = some n := by
  obtain ⟨k, hk⟩ := parseFold_natDigits n 0
  have : (natDigits n).isEmpty = false := by
    cases h : natDigits n with
    | nil => exact absurd h (natDigits_ne_nil n)
    | cons _ _ => rfl
  simp [parseNat?, this, hk]

/-! ### `intStr` -/

theorem intStr_ne_nil (n : Int) : intStr n ≠ [] := by
  cases n with
  | ofNat m => exact natDigits_ne_nil m
  | negSucc m => simp [intStr]

theorem intStr_plain (n : Int) : ∀ c ∈ intStr n, plain c = true := by
  cases n with
  | ofNat m => exact natDigits_plain m
  | negSucc m =>
    intro c hc
    simp only [intStr, List.mem_cons] at hc
    rcases hc with hc | hc
    · subst hc; decide
    · exact natDigits_plain _ c hc

theorem parseInt_natDigits (m : Nat) : parseInt? (natDigits m) = some (m : Int) := by
  obtain ⟨c, r, h, hc⟩ := natDigits_cons m
  have hne := (digs_not_sign c hc).1
  have hp := parseNat_natDigits m
  rw [h] at hp ⊢
  unfold parseInt?
  split
  · rename_i heq; simp only [List.cons.injEq] at heq; exact absurd heq.1 hne
  · simp [hp]

theorem parseInt_intStr (n : Int) : parseInt? (intStr n) = some n := by
  cases n with
  | ofNat m => exact parseInt_natDigits m
  | negSucc m =>
    simp only [intStr, parseInt?, parseNat_natDigits]
    congr 1

/-! ### `strip` -/

theorem dropWhile_head {p : Char → Bool} : ∀ (s : Str), (∀ c ∈ s.head?, p c = false) → s.dropWhile p = s
  | [], _ => rfl
  | c :: r, h => by
    have := h c (by simp)
    simp [List.dropWhile, this]

theorem strip_eq_self (s : Str) (h1 : ∀ c ∈ s.head?, isPySpace c = false)
    (h2 : ∀ c ∈ s.getLast?, isPySpace c = false) : strip s = s := by
  unfold strip
  rw [dropWhile_head s h1, dropWhile_head s.reverse (by simpa [List.head?_reverse] using h2), List.reverse_reverse]

theorem strip_plain (s : Str) (h : ∀ c ∈ s, plain c = true) : strip s = s := by
  apply strip_eq_self
  · intro c hc; exact plain_not_space (h c (List.mem_of_mem_head? hc))
  · intro c hc; exact plain_not_space (h c (List.mem_of_mem_getLast? hc))

/-! ### `int()` -/

theorem pyIntCore_of_head {c : Char} {r : Str} (h1 : c ≠ '-') (h2 : c ≠ '+') :
    pyIntCore (c :: r) = (pyNat? (c :: r)).map fun n => (n : Int) := by
  unfold pyIntCore
  split
  · rename_i heq; simp only [List.cons.injEq] at heq; exact absurd heq.1 h1
  · rename_i heq; simp only [List.cons.injEq] at heq; exact absurd heq.1 h2
  · rfl

theorem pyInt_natDigits (m : Nat) : pyInt (natDigits m) = .ok (m : Int) := by
  obtain ⟨c, r, h, hc⟩ := natDigits_cons m
  have hs := digs_not_sign c hc
  have hn := pyNat_natDigits m
  unfold pyInt
  rw [strip_plain _ (natDigits_plain m)]
  rw [h] at hn ⊢
  rw [pyIntCore_of_head hs.1 hs.2.1, hn]
  rfl

theorem pyInt_intStr (n : Int) : pyInt (intStr n) = .ok n := by
  cases n with
  | ofNat m => exact pyInt_natDigits m
  | negSucc m =>
    unfold pyInt
    rw [strip_plain _ (intStr_plain _)]
    simp only [intStr, pyIntCore, pyNat_natDigits]
    congr 1

/-! ### `split` / `join` -/

theorem splitOn_ne_nil (c : Char) : ∀ s : Str, splitOn c s ≠ []
  | [] => by simp [splitOn]
  | x :: r => by
    simp only [splitOn]
    split <;> simp

theorem splitOn_nomem {c : Char} : ∀ {s : Str}, c ∉ s → splitOn c s = [s]
  | [], _ => rfl
  | x :: r, h => by
    have hx : x ≠ c := fun e => h (by simp [e])
    have hr : c ∉ r := fun e => h (List.mem_cons_of_mem _ e)
    simp [splitOn, hx, splitOn_nomem hr]

theorem splitOn_append {c : Char} : ∀ {a : Str} (r : Str), c ∉ a → splitOn c (a ++ c :: r) = a :: splitOn c r
  | [], r, _ => by simp [splitOn]
  | x :: a, r, h => by
    have hx : x ≠ c := fun e => h (by simp [e])
    have ha : c ∉ a := fun e => h (List.mem_cons_of_mem _ e)
    simp [splitOn, hx, splitOn_append r ha]

theorem splitOn_join {c : Char} : ∀ {ls : List Str}, ls ≠ [] → (∀ l ∈ ls, c ∉ l) →
    splitOn c (joinWith [c] ls) = ls
  | [], h, _ => absurd rfl h
  | [x], _, h => by simpa [joinWith] using splitOn_nomem (h x (by simp))
  | x :: y :: r, _, h => by
    have hx := h x (by simp)
    have ih := splitOn_join (ls := y :: r) (by simp) (fun l hl => h l (List.mem_cons_of_mem _ hl))
    simp only [joinWith, List.append_assoc, List.singleton_append]
    rw [splitOn_append _ hx, ih]

theorem splitOn_unlines : ∀ {ls : List Str}, (∀ l ∈ ls, '\n' ∉ l) → splitOn '\n' (unlines ls) = ls ++ [[]]
  | [], _ => rfl
  | x :: r, h => by
    simp only [unlines, List.cons_append]
    rw [splitOn_append _ (h x (by simp)), splitOn_unlines fun l hl => h l (List.mem_cons_of_mem _ hl)]

theorem joinWith_mem {sep : Str} {c : Char} : ∀ {ls : List Str}, c ∈ joinWith sep ls → c ∈ sep ∨ ∃ l ∈ ls, c ∈ l
  | [], h => by simp [joinWith] at h
  | [x], h => Or.inr ⟨x, by simp, by simpa [joinWith] using h⟩
  | x :: y :: r, h => by
    simp only [joinWith, List.append_assoc, List.mem_append] at h
    rcases h with h | h | h
    · exact Or.inr ⟨x, by simp, h⟩
    · exact Or.inl h
    · rcases joinWith_mem h with h | ⟨l, hl, hc⟩
      · exact Or.inl h
      · exact Or.inr ⟨l, List.mem_cons_of_mem _ hl, hc⟩

end Cspuz.Proofs.C03Str
