/-
  C17 ("decoding arbitrary text never crashes"), everything except the `Rooms` flood fill:
  * every leaf decoder is safe (`SafeDe`: `None`, `ValueError`, or a result that stays inside the text), and the
    productive ones return at least one item (`Progress`) / exactly one item (`OneItem`);
  * the generic composites preserve safety; the crux is `seqDeLoop_safe`: the fuel of the `Seq` loop never runs out,
    so `diverge` is unreachable when the base is productive, and `Seq` returns one list of exactly `n` items, which
    makes the `AssertionError` / `TypeError` branches of `Grid` and the `IndexError` / `TypeError` branches of
    `ValuedRooms` unreachable;
  * induction over terms (`de_safe_of_rooms`, `de_progress`, `de_single`), then `deserialize_problem`, the URL layer
    and the regenerated table of the nine puzzle combinators.
  The safety of `Rooms` itself (`∀ env skip allow, SafeDe (roomsDe env skip allow)`) is proved separately
  (Proofs/C17Rooms.lean) and is an explicit hypothesis `hR` here (theorems with suffix `_of_rooms`).
-/
import CspuzModel.Proofs.SerBasics
import CspuzModel.Gen.PuzzleCombinators
namespace Cspuz.Ser
open Cspuz

/-- a successful call returns at least one item -/
def Progress (d : DeF) : Prop := ∀ s i k items, d s i = .ok (k, items) → items ≠ []
/-- a successful call returns exactly one item -/
def OneItem (d : DeF) : Prop := ∀ s i k items, d s i = .ok (k, items) → items.length = 1

theorem OneItem.progress {d : DeF} (h : OneItem d) : Progress d := by
  intro s i k items he hnil
  have := h s i k items he
  subst hnil
  simp at this

mutual
/-- every `Dict` table inside the term has as many keys as texts (the Python constructor enforces it) -/
def tablesOk : Comb → Bool
  | .dict b a => b.length == a.length
  | .oneOf cs => tablesOkL cs
  | .tupl es => tablesOkL es
  | .seq b _ => tablesOk b
  | .grid b _ => tablesOk b
  | .valuedRooms v _ _ => tablesOk v
  | _ => true
def tablesOkL : List Comb → Bool
  | [] => true
  | c :: cs => tablesOk c && tablesOkL cs
end

/-! ### basic facts about `SafeOutcome` -/

theorem SafeOutcome.none' (s : Str) (i : Nat) : SafeOutcome s i .none := Or.inl rfl
theorem SafeOutcome.valueError (s : Str) (i : Nat) : SafeOutcome s i (.raised .valueError) := Or.inr (Or.inl rfl)
theorem SafeOutcome.ok' {s : Str} {i k : Nat} (items : List PyVal) (h : i + k ≤ s.length) :
    SafeOutcome s i (.ok (k, items)) := Or.inr (Or.inr ⟨k, items, rfl, h⟩)

theorem getElem?_lt_of_some {α} {l : List α} {i : Nat} {c : α} (h : l[i]? = some c) : i < l.length := by
  rcases Nat.lt_or_ge i l.length with h' | h'
  · exact h'
  · simp [List.getElem?_eq_none h'] at h

/-- a decoder that starts with `data[idx]` behind the end-of-text guard -/
theorem withChar_safe {s : Str} {i : Nat} {k : Nat → Outcome (Nat × List PyVal)}
    (hk : ∀ c, s[i]? = some c → i < s.length → SafeOutcome s i (k c)) (hi : i ≤ s.length) :
    SafeOutcome s i (withChar s i k) := by
  unfold withChar
  split
  · exact .none' s i
  · rename_i hne
    have hlt : i < s.length := by omega
    rw [List.getElem?_eq_getElem hlt]
    exact hk _ (List.getElem?_eq_getElem hlt) hlt

theorem slice_length_le (data : Str) (idx n : Nat) : (slice data idx n).length ≤ n := by
  simp [slice, List.length_take]; omega

/-! ### leaves -/

theorem fixStrDe_safe (t : Str) : SafeDe (fixStrDe t) := by
  intro s i _
  unfold fixStrDe
  split
  · exact .none' s i
  · split
    · exact .ok' _ (by omega)
    · exact .none' s i

theorem dictDeFind_safe (s : Str) (i : Nat) :
    ∀ (b : List PyVal) (a : List Str), b.length ≤ a.length → SafeOutcome s i (dictDeFind s i b a)
  | [], a, _ => by unfold dictDeFind; exact .none' s i
  | _ :: _, [], h => by simp at h
  | v :: bs, t :: as, h => by
    unfold dictDeFind
    split
    · rename_i hc
      simp only [Bool.and_eq_true, decide_eq_true_eq] at hc
      exact .ok' _ hc.1
    · exact dictDeFind_safe s i bs as (by simpa using h)

theorem dictDe_safe (b : List PyVal) (a : List Str) (h : b.length ≤ a.length) : SafeDe (dictDe b a) := by
  intro s i _
  unfold dictDe
  split
  · exact .none' s i
  · exact dictDeFind_safe s i b a h

theorem dictDeFind_one (s : Str) (i k : Nat) (items : List PyVal) :
    ∀ (b : List PyVal) (a : List Str), dictDeFind s i b a = .ok (k, items) → items.length = 1
  | [], a, h => by simp [dictDeFind] at h
  | _ :: _, [], h => by simp [dictDeFind] at h
  | v :: bs, t :: as, h => by
    unfold dictDeFind at h
    split at h
    · cases h; rfl
    · exact dictDeFind_one s i k items bs as h

theorem dictDe_one (b : List PyVal) (a : List Str) : OneItem (dictDe b a) := by
  intro s i k items h
  unfold dictDe at h
  split at h
  · cases h
  · exact dictDeFind_one s i k items b a h

theorem spacesDe_safe (sp : PyVal) (o : Int) : SafeDe (spacesDe sp o) := by
  intro s i hi
  unfold spacesDe
  refine withChar_safe (fun c _ hlt => ?_) hi
  split
  · exact .none' s i
  · dsimp only
    split
    · exact .ok' _ (by omega)
    · exact .none' s i

theorem spacesDe_progress (sp : PyVal) (o : Int) : Progress (spacesDe sp o) := by
  intro s i k items h
  unfold spacesDe at h
  obtain ⟨c, _, h⟩ := withChar_eq_ok.1 h
  split at h
  · cases h
  · dsimp only at h
    split at h
    · rename_i hgt
      cases h
      intro hnil
      have := congrArg List.length hnil
      simp only [List.length_replicate, List.length_nil] at this
      omega
    · cases h

theorem pyInt_cases (t : Str) : pyInt t = .raised .valueError ∨ ∃ n, pyInt t = .ok n := by
  unfold pyInt
  split
  · exact Or.inl rfl
  · split
    · exact Or.inr ⟨_, rfl⟩
    · exact Or.inl rfl

theorem decIntDe_safe : SafeDe decIntDe := by
  intro s i hi
  unfold decIntDe
  split
  · exact .none' s i
  · simp only
    split
    · exact .none' s i
    · rcases pyInt_cases ((s.drop i).takeWhile isDigit) with h | ⟨n, h⟩
      · rw [h]; exact .valueError s i
      · rw [h]
        refine .ok' _ ?_
        have h1 := (List.takeWhile_sublist (l := s.drop i) isDigit).length_le
        have h2 : (s.drop i).length = s.length - i := List.length_drop
        omega

theorem decIntDe_one : OneItem decIntDe := by
  intro s i k items h
  unfold decIntDe at h
  split at h
  · cases h
  · simp only at h
    split at h
    · cases h
    · obtain ⟨n, _, h⟩ := Outcome.bind_eq_ok.1 h
      cases h; rfl

theorem hexIntDe_safe : SafeDe hexIntDe := by
  intro s i hi
  unfold hexIntDe
  refine withChar_safe (fun c _ hlt => ?_) hi
  split
  · split
    · exact .none' s i
    · rename_i hc
      simp only [Bool.or_eq_true, decide_eq_true_eq, not_or] at hc
      exact .ok' _ (by omega)
  · split
    · split
      · exact .none' s i
      · rename_i hc
        simp only [Bool.or_eq_true, decide_eq_true_eq, not_or] at hc
        exact .ok' _ (by omega)
    · split
      · exact .ok' _ (by omega)
      · exact .none' s i

theorem hexIntDe_one : OneItem hexIntDe := by
  intro s i k items h
  unfold hexIntDe at h
  obtain ⟨c, _, h⟩ := withChar_eq_ok.1 h
  repeat' split at h
  all_goals first | (cases h; rfl) | cases h

theorem intSpacesDe_safe (sp : PyVal) (mi ms : Nat) : SafeDe (intSpacesDe sp mi ms) := by
  intro s i hi
  unfold intSpacesDe
  refine withChar_safe (fun c _ hlt => ?_) hi
  split
  · exact .none' s i
  · dsimp only
    split
    · exact .none' s i
    · exact .ok' _ (by omega)

theorem intSpacesDe_progress (sp : PyVal) (mi ms : Nat) : Progress (intSpacesDe sp mi ms) := by
  intro s i k items h
  unfold intSpacesDe at h
  obtain ⟨c, _, h⟩ := withChar_eq_ok.1 h
  split at h
  · cases h
  · dsimp only at h
    split at h
    · cases h
    · cases h; simp

theorem multiDigitDe_safe (b k : Nat) : SafeDe (multiDigitDe b k) := by
  intro s i hi
  unfold multiDigitDe
  refine withChar_safe (fun c _ hlt => ?_) hi
  split
  · exact .none' s i
  · dsimp only
    split
    · exact .none' s i
    · exact .ok' _ (by omega)

theorem mdUnpack_length_t (b : Nat) : ∀ (k v : Nat) (acc : List PyVal), (mdUnpack b k v acc).length = k + acc.length
  | 0, _, acc => by simp [mdUnpack]
  | k + 1, v, acc => by
    unfold mdUnpack
    rw [mdUnpack_length_t b k]
    simp; omega

theorem multiDigitDe_progress (b k : Nat) (hk : 1 ≤ k) : Progress (multiDigitDe b k) := by
  intro s i n items h
  unfold multiDigitDe at h
  obtain ⟨c, _, h⟩ := withChar_eq_ok.1 h
  split at h
  · cases h
  · dsimp only at h
    split at h
    · cases h
    · cases h
      intro hnil
      have := congrArg List.length hnil
      rw [mdUnpack_length_t] at this
      simp at this
      omega

theorem yajilinDe_safe : SafeDe yajilinDe := by
  intro s i hi
  unfold yajilinDe
  split
  · exact .none' s i
  · rename_i hlt
    have h0 : i < s.length := by omega
    have h1 : i + 1 < s.length := by omega
    rw [List.getElem?_eq_getElem h0, List.getElem?_eq_getElem h1]
    simp only
    repeat' split
    all_goals first | exact .none' s i | exact .ok' _ (by omega)

theorem yajilinDe_one : OneItem yajilinDe := by
  intro s i k items h
  unfold yajilinDe at h
  split at h
  · cases h
  · split at h
    · repeat' split at h
      all_goals first | (cases h; rfl) | cases h
    · cases h

theorem dictDe_progress (b : List PyVal) (a : List Str) : Progress (dictDe b a) := (dictDe_one b a).progress
theorem decIntDe_progress : Progress decIntDe := decIntDe_one.progress
theorem hexIntDe_progress : Progress hexIntDe := hexIntDe_one.progress
theorem yajilinDe_progress : Progress yajilinDe := yajilinDe_one.progress

/-! ### generic composites -/

theorem oneOfF_safe (fs : List DeF) (h : ∀ f ∈ fs, SafeDe f) : SafeDe (oneOfF fs) := by
  induction fs with
  | nil => intro s i _; exact .none' s i
  | cons f r ih =>
    intro s i hi
    have hf := h f (by simp) s i hi
    have hr := ih (fun g hg => h g (by simp [hg])) s i hi
    unfold oneOfF
    split
    · exact hr
    · exact hf

theorem oneOfF_eq_ok {fs : List DeF} {s : Str} {i : Nat} {r : Nat × List PyVal}
    (h : oneOfF fs s i = .ok r) : ∃ f ∈ fs, f s i = .ok r := by
  induction fs with
  | nil => simp [oneOfF] at h
  | cons f fs ih =>
    unfold oneOfF at h
    split at h
    · obtain ⟨g, hg, hr⟩ := ih h
      exact ⟨g, by simp [hg], hr⟩
    · exact ⟨f, by simp, h⟩

theorem oneOfF_progress (fs : List DeF) (h : ∀ f ∈ fs, Progress f) : Progress (oneOfF fs) := by
  intro s i k items he
  obtain ⟨f, hf, hr⟩ := oneOfF_eq_ok he
  exact h f hf s i k items hr

theorem oneOfF_one (fs : List DeF) (h : ∀ f ∈ fs, OneItem f) : OneItem (oneOfF fs) := by
  intro s i k items he
  obtain ⟨f, hf, hr⟩ := oneOfF_eq_ok he
  exact h f hf s i k items hr

/-- what the `Tupl` loop can do: the running offset stays inside the text -/
theorem tuplDeLoop_safe (s : Str) (i : Nat) :
    ∀ (fs : List DeF), (∀ f ∈ fs, SafeDe f) → ∀ (ofs : Nat) (parts : List PyVal), i + ofs ≤ s.length →
      SafeOutcome s i (tuplDeLoop fs s i ofs parts)
  | [], _, ofs, parts, h => by unfold tuplDeLoop; exact .ok' _ h
  | f :: fs, hfs, ofs, parts, h => by
    unfold tuplDeLoop
    rcases hfs f (by simp) s (i + ofs) h with h1 | h1 | ⟨k, items, h1, hk⟩
    · rw [h1]; exact .none' s i
    · rw [h1]; exact .valueError s i
    · rw [h1]
      simp only [Outcome.bind_ok]
      exact tuplDeLoop_safe s i fs (fun g hg => hfs g (by simp [hg])) (ofs + k) _ (by omega)

theorem tuplDe_safe (fs : List DeF) (h : ∀ f ∈ fs, SafeDe f) : SafeDe (tuplDe fs) := by
  intro s i hi
  unfold tuplDe
  exact tuplDeLoop_safe s i fs h 0 [] (by omega)

theorem tuplDeLoop_one (s : Str) (i k : Nat) (items : List PyVal) :
    ∀ (fs : List DeF) (ofs : Nat) (parts : List PyVal),
      tuplDeLoop fs s i ofs parts = .ok (k, items) → items.length = 1
  | [], ofs, parts, h => by unfold tuplDeLoop at h; cases h; rfl
  | f :: fs, ofs, parts, h => by
    unfold tuplDeLoop at h
    obtain ⟨r, _, h⟩ := Outcome.bind_eq_ok.1 h
    exact tuplDeLoop_one s i k items fs _ _ h

theorem tuplDe_one (fs : List DeF) : OneItem (tuplDe fs) := by
  intro s i k items h
  exact tuplDeLoop_one s i k items fs 0 [] h

/-- what `Seq.deserialize` can do when its base is safe and productive: `None`, `ValueError`, or exactly one list of
exactly `n` items, read from inside the text -/
def SeqOutcome (s : Str) (i n : Nat) (o : Outcome (Nat × List PyVal)) : Prop :=
  o = .none ∨ o = .raised .valueError ∨ ∃ k l, o = .ok (k, [.list l]) ∧ l.length = n ∧ i + k ≤ s.length

/-- **The fuel of the `Seq` loop never runs out**: every iteration appends at least one item, and the loop stops
as soon as `n` items were collected. -/
theorem seqDeLoop_safe (f : DeF) (hf : SafeDe f) (hp : Progress f) (s : Str) (i n : Nat) :
    ∀ (fuel nread : Nat) (ret : List PyVal), i + nread ≤ s.length → (n - ret.length) + 1 ≤ fuel →
      SeqOutcome s i n (seqDeLoop f s i n fuel nread ret)
  | 0, _, _, _, hfuel => by omega
  | fuel + 1, nread, ret, hin, hfuel => by
    unfold seqDeLoop
    split
    · rename_i hlt
      rcases hf s (i + nread) hin with h1 | h1 | ⟨k, items, h1, hk⟩
      · rw [h1]; exact Or.inl rfl
      · rw [h1]; exact Or.inr (Or.inl rfl)
      · rw [h1]
        have hne : items ≠ [] := hp s (i + nread) k items h1
        have hpos : 0 < items.length := List.length_pos_iff.2 hne
        have hemp : items.isEmpty = false := by
          cases items with
          | nil => exact absurd rfl hne
          | cons _ _ => rfl
        simp only [hemp, Bool.and_false, Bool.false_eq_true, if_false]
        refine seqDeLoop_safe f hf hp s i n fuel (nread + k) (ret ++ items) (by omega) ?_
        rw [List.length_append]
        omega
    · rename_i hge
      refine Or.inr (Or.inr ⟨nread, ret.take n, rfl, ?_, hin⟩)
      rw [List.length_take]
      omega

theorem seqDe_outcome (f : DeF) (hf : SafeDe f) (hp : Progress f) (n : Nat) (s : Str) (i : Nat)
    (hi : i ≤ s.length) : SeqOutcome s i n (seqDe f n s i) := by
  unfold seqDe
  exact seqDeLoop_safe f hf hp s i n _ 0 [] (by omega) (by simp; omega)

theorem SeqOutcome.safe {s : Str} {i n : Nat} {o : Outcome (Nat × List PyVal)} (h : SeqOutcome s i n o) :
    SafeOutcome s i o := by
  rcases h with h | h | ⟨k, l, h, _, hk⟩
  · exact Or.inl h
  · exact Or.inr (Or.inl h)
  · exact Or.inr (Or.inr ⟨k, _, h, hk⟩)

theorem seqDe_safe (f : DeF) (hf : SafeDe f) (hp : Progress f) (n : Nat) : SafeDe (seqDe f n) :=
  fun s i hi => (seqDe_outcome f hf hp n s i hi).safe

/-- (unconditionally) a successful `Seq` loop returns one item -/
theorem seqDeLoop_one (f : DeF) (s : Str) (i n k : Nat) (items : List PyVal) :
    ∀ (fuel nread : Nat) (ret : List PyVal), seqDeLoop f s i n fuel nread ret = .ok (k, items) → items.length = 1
  | 0, _, _, h => by simp [seqDeLoop] at h
  | fuel + 1, nread, ret, h => by
    unfold seqDeLoop at h
    split at h
    · split at h
      · split at h
        · cases h
        · exact seqDeLoop_one f s i n k items fuel _ _ h
      · cases h
      · cases h
      · cases h
    · cases h; rfl

theorem seqDe_one (f : DeF) (n : Nat) : OneItem (seqDe f n) := by
  intro s i k items h
  exact seqDeLoop_one f s i n k items _ 0 [] h

theorem gridDe_safe (f : DeF) (hf : SafeDe f) (hp : Progress f) (h w : Nat) : SafeDe (gridDe f h w) := by
  intro s i hi
  unfold gridDe
  rcases seqDe_outcome f hf hp (h * w) s i hi with h1 | h1 | ⟨k, l, h1, hl, hk⟩
  · rw [h1]; exact .none' s i
  · rw [h1]; exact .valueError s i
  · rw [h1]
    simp only [Outcome.bind_ok, hl, ne_eq, not_true_eq_false, if_false]
    exact .ok' _ hk

theorem gridDe_one (f : DeF) (h w : Nat) : OneItem (gridDe f h w) := by
  intro s i k items he
  unfold gridDe at he
  obtain ⟨r, _, he⟩ := Outcome.bind_eq_ok.1 he
  split at he
  · split at he
    · cases he
    · cases he; rfl
  · cases he
  · cases he

/-! ### Rooms / ValuedRooms -/

theorem catchValueError_eq_ok {α} {skip : Bool} {x : Outcome α} {a : α}
    (h : catchValueError skip x = .ok a) : x = .ok a := by
  unfold catchValueError at h
  split at h
  · split at h
    · cases h
    · exact h
  · exact h

/-- a successful `Rooms` decoder returns exactly one item, the list of rooms -/
def RoomsShape (d : DeF) : Prop := ∀ s i k items, d s i = .ok (k, items) → ∃ l, items = [.list l]

theorem roomsDeCore_shape (env : Env) (allow : Bool) : RoomsShape (roomsDeCore env allow) := by
  intro s i k items h
  unfold roomsDeCore at h
  dsimp only at h
  split at h
  · cases h
  · split at h
    · cases h
    · cases h
    · cases h
    · obtain ⟨vt, _, h⟩ := Outcome.bind_eq_ok.1 h
      obtain ⟨hz, _, h⟩ := Outcome.bind_eq_ok.1 h
      obtain ⟨⟨rid, last⟩, _, h⟩ := Outcome.bind_eq_ok.1 h
      obtain ⟨_, _, h⟩ := Outcome.bind_eq_ok.1 h
      obtain ⟨rooms, _, h⟩ := Outcome.bind_eq_ok.1 h
      cases h
      exact ⟨_, rfl⟩
    · cases h

theorem roomsDe_shape (env : Env) (skip allow : Bool) : RoomsShape (roomsDe env skip allow) := by
  intro s i k items h
  unfold roomsDe at h
  exact roomsDeCore_shape env allow s i k items (catchValueError_eq_ok h)

theorem roomsDe_one (env : Env) (skip allow : Bool) : OneItem (roomsDe env skip allow) := by
  intro s i k items h
  obtain ⟨l, hl⟩ := roomsDe_shape env skip allow s i k items h
  subst hl; rfl

theorem valuedRoomsDe_safe_of_shape (fv : DeF) (hf : SafeDe fv) (hp : Progress fv) (r : DeF)
    (hr : SafeDe r) (hs : RoomsShape r) :
    ∀ s i, i ≤ s.length → SafeOutcome s i
      ((r s i).bind fun r =>
        match r.2 with
        | (.list rooms0) :: _ =>
          (seqDe fv rooms0.length s (i + r.1)).bind fun r2 =>
            match r2.2 with
            | v0 :: _ => .ok (r.1 + r2.1, [.tuple [.list rooms0, v0]])
            | [] => .raised .indexError
        | _ :: _ => .raised .typeError
        | [] => .raised .indexError) := by
  intro s i hi
  rcases hr s i hi with h1 | h1 | ⟨k, items, h1, hk⟩
  · rw [h1]; exact .none' s i
  · rw [h1]; exact .valueError s i
  · obtain ⟨l, hl⟩ := hs s i k items h1
    subst hl
    rw [h1]
    simp only [Outcome.bind_ok]
    rcases seqDe_outcome fv hf hp l.length s (i + k) hk with h2 | h2 | ⟨k2, l2, h2, _, hk2⟩
    · rw [h2]; exact .none' s i
    · rw [h2]; exact .valueError s i
    · rw [h2]
      simp only [Outcome.bind_ok]
      exact .ok' _ (by omega)

theorem valuedRoomsDe_safe (fv : DeF) (hf : SafeDe fv) (hp : Progress fv) (env : Env) (skip allow : Bool)
    (hr : SafeDe (roomsDe env skip allow)) : SafeDe (valuedRoomsDe fv env skip allow) := by
  intro s i hi
  unfold valuedRoomsDe
  exact valuedRoomsDe_safe_of_shape fv hf hp _ hr (roomsDe_shape env skip allow) s i hi

theorem valuedRoomsDe_one (fv : DeF) (env : Env) (skip allow : Bool) : OneItem (valuedRoomsDe fv env skip allow) := by
  intro s i k items h
  unfold valuedRoomsDe at h
  obtain ⟨r, _, h⟩ := Outcome.bind_eq_ok.1 h
  split at h
  · obtain ⟨r2, _, h⟩ := Outcome.bind_eq_ok.1 h
    split at h
    · cases h; rfl
    · cases h
  · cases h
  · cases h

/-! ### the induction over terms -/

mutual
theorem de_progress : ∀ (c : Comb) (env : Env), productive c = true → Progress (de c env)
  | .fixStr _, _, h => by simp [productive] at h
  | .dict b a, _, _ => by unfold de; exact (dictDe_one b a).progress
  | .spaces sp o, _, _ => by unfold de; exact spacesDe_progress sp o
  | .decInt, _, _ => by unfold de; exact decIntDe_one.progress
  | .hexInt, _, _ => by unfold de; exact hexIntDe_one.progress
  | .intSpaces sp mi ms, _, _ => by unfold de; exact intSpacesDe_progress sp mi ms
  | .multiDigit b k, _, h => by
    unfold de; exact multiDigitDe_progress b k (by simpa [productive] using h)
  | .oneOf cs, env, h => by
    unfold de; exact oneOfF_progress _ (deL_progress cs env (by simpa [productive] using h))
  | .tupl es, env, _ => by unfold de; exact (tuplDe_one _).progress
  | .seq b n, env, _ => by unfold de; exact (seqDe_one _ n).progress
  | .grid b dims, env, _ => by unfold de; exact (gridDe_one _ _ _).progress
  | .rooms skip allow, env, _ => by unfold de; exact (roomsDe_one env skip allow).progress
  | .valuedRooms v skip allow, env, _ => by unfold de; exact (valuedRoomsDe_one _ env skip allow).progress
  | .yajilinClue, _, _ => by unfold de; exact yajilinDe_one.progress
theorem deL_progress : ∀ (cs : List Comb) (env : Env), productiveAll cs = true → ∀ f ∈ deL cs env, Progress f
  | [], _, _ => by simp [deL]
  | c :: cs, env, h => by
    simp only [productiveAll, Bool.and_eq_true] at h
    intro f hf
    simp only [deL, List.mem_cons] at hf
    rcases hf with rfl | hf
    · exact de_progress c env h.1
    · exact deL_progress cs env h.2 f hf
end

mutual
theorem de_single : ∀ (c : Comb) (env : Env), single c = true → OneItem (de c env)
  | .fixStr _, _, h => by simp [single] at h
  | .dict b a, _, _ => by unfold de; exact dictDe_one b a
  | .spaces sp o, _, h => by simp [single] at h
  | .decInt, _, _ => by unfold de; exact decIntDe_one
  | .hexInt, _, _ => by unfold de; exact hexIntDe_one
  | .intSpaces sp mi ms, _, h => by simp [single] at h
  | .multiDigit b k, _, h => by simp [single] at h
  | .oneOf cs, env, h => by
    unfold de; exact oneOfF_one _ (deL_single cs env (by simpa [single] using h))
  | .tupl es, env, _ => by unfold de; exact tuplDe_one _
  | .seq b n, env, _ => by unfold de; exact seqDe_one _ n
  | .grid b dims, env, _ => by unfold de; exact gridDe_one _ _ _
  | .rooms skip allow, env, _ => by unfold de; exact roomsDe_one env skip allow
  | .valuedRooms v skip allow, env, _ => by unfold de; exact valuedRoomsDe_one _ env skip allow
  | .yajilinClue, _, _ => by unfold de; exact yajilinDe_one
theorem deL_single : ∀ (cs : List Comb) (env : Env), singleAll cs = true → ∀ f ∈ deL cs env, OneItem f
  | [], _, _ => by simp [deL]
  | c :: cs, env, h => by
    simp only [singleAll, Bool.and_eq_true] at h
    intro f hf
    simp only [deL, List.mem_cons] at hf
    rcases hf with rfl | hf
    · exact de_single c env h.1
    · exact deL_single cs env h.2 f hf
end

mutual
/-- **Every terminating term with well-formed tables decodes safely**, given that `Rooms` does. -/
theorem de_safe_of_rooms (hR : ∀ env skip allow, SafeDe (roomsDe env skip allow)) :
    ∀ (c : Comb) (env : Env), terminating c = true → tablesOk c = true → SafeDe (de c env)
  | .fixStr t, _, _, _ => by unfold de; exact fixStrDe_safe t
  | .dict b a, _, _, h => by
    unfold de
    exact dictDe_safe b a (by simp only [tablesOk, beq_iff_eq] at h; omega)
  | .spaces sp o, _, _, _ => by unfold de; exact spacesDe_safe sp o
  | .decInt, _, _, _ => by unfold de; exact decIntDe_safe
  | .hexInt, _, _, _ => by unfold de; exact hexIntDe_safe
  | .intSpaces sp mi ms, _, _, _ => by unfold de; exact intSpacesDe_safe sp mi ms
  | .multiDigit b k, _, _, _ => by unfold de; exact multiDigitDe_safe b k
  | .oneOf cs, env, ht, hk => by
    unfold de
    exact oneOfF_safe _ (deL_safe_of_rooms hR cs env (by simpa [terminating] using ht) (by simpa [tablesOk] using hk))
  | .tupl es, env, ht, hk => by
    unfold de
    exact tuplDe_safe _ (deL_safe_of_rooms hR es env (by simpa [terminating] using ht) (by simpa [tablesOk] using hk))
  | .seq b n, env, ht, hk => by
    simp only [terminating, Bool.and_eq_true] at ht
    simp only [tablesOk] at hk
    unfold de
    exact seqDe_safe _ (de_safe_of_rooms hR b env ht.1 hk) (de_progress b env ht.2) n
  | .grid b dims, env, ht, hk => by
    simp only [terminating, Bool.and_eq_true] at ht
    simp only [tablesOk] at hk
    unfold de
    exact gridDe_safe _ (de_safe_of_rooms hR b env ht.1 hk) (de_progress b env ht.2) _ _
  | .rooms skip allow, env, _, _ => by unfold de; exact hR env skip allow
  | .valuedRooms v skip allow, env, ht, hk => by
    simp only [terminating, Bool.and_eq_true] at ht
    simp only [tablesOk] at hk
    unfold de
    exact valuedRoomsDe_safe _ (de_safe_of_rooms hR v env ht.1 hk) (de_progress v env ht.2) env skip allow
      (hR env skip allow)
  | .yajilinClue, _, _, _ => by unfold de; exact yajilinDe_safe
theorem deL_safe_of_rooms (hR : ∀ env skip allow, SafeDe (roomsDe env skip allow)) :
    ∀ (cs : List Comb) (env : Env), terminatingAll cs = true → tablesOkL cs = true → ∀ f ∈ deL cs env, SafeDe f
  | [], _, _, _ => by simp [deL]
  | c :: cs, env, ht, hk => by
    simp only [terminatingAll, Bool.and_eq_true] at ht
    simp only [tablesOkL, Bool.and_eq_true] at hk
    intro f hf
    simp only [deL, List.mem_cons] at hf
    rcases hf with rfl | hf
    · exact de_safe_of_rooms hR c env ht.1 hk.1
    · exact deL_safe_of_rooms hR cs env ht.2 hk.2 f hf
end

/-! ### problem and URL layer -/

theorem SafeVal.none' : SafeVal .none := Or.inl rfl
theorem SafeVal.valueError : SafeVal (.raised .valueError) := Or.inr (Or.inl rfl)
theorem SafeVal.ok' (v : PyVal) : SafeVal (.ok v) := Or.inr (Or.inr ⟨v, rfl⟩)

/-- `deserialize_problem` on a term that yields one item: the `assert len(problem) == 1` cannot fail -/
theorem deProblem_safe_of_rooms (hR : ∀ env skip allow, SafeDe (roomsDe env skip allow)) (c : Comb)
    (ht : terminating c = true) (hk : tablesOk c = true) (h1 : single c = true) (s : Str) (h w : Nat) :
    SafeVal (deProblem c s h w) := by
  unfold deProblem
  rcases de_safe_of_rooms hR c ⟨h, w⟩ ht hk s 0 (Nat.zero_le _) with he | he | ⟨k, items, he, _⟩
  · rw [he]; exact .none'
  · rw [he]; exact .valueError
  · rw [he]
    have hlen := de_single c ⟨h, w⟩ h1 s 0 k items he
    match items, hlen with
    | [p], _ => exact .ok' p

/-- `get_puzzle_info_from_url` returns `None`, raises `ValueError` (more than 4300 digits) or returns the triple -/
theorem getPuzzleInfo_safe (url : Str) :
    getPuzzleInfo url = .none ∨ getPuzzleInfo url = .raised .valueError ∨ ∃ r, getPuzzleInfo url = .ok r := by
  unfold getPuzzleInfo
  split
  · exact Or.inl rfl
  · rename_i name wd hd body _
    rcases pyInt_cases hd with h1 | ⟨h, h1⟩
    · rw [h1]; exact Or.inr (Or.inl rfl)
    · rw [h1]
      rcases pyInt_cases wd with h2 | ⟨w, h2⟩
      · rw [h2]; exact Or.inr (Or.inl rfl)
      · rw [h2]; exact Or.inr (Or.inr ⟨_, rfl⟩)

theorem deProblemAsUrl_safe_of_rooms (hR : ∀ env skip allow, SafeDe (roomsDe env skip allow)) (c : Comb)
    (ht : terminating c = true) (hk : tablesOk c = true) (h1 : single c = true) (url : Str)
    (allowed : Option (List Str)) (allowFailure returnSize : Bool) :
    SafeVal (deProblemAsUrl c url allowed allowFailure returnSize) := by
  unfold deProblemAsUrl
  split
  · split
    · exact .none'
    · exact .valueError
  · rename_i name wd hd body _
    rcases pyInt_cases wd with h2 | ⟨w, h2⟩
    · rw [h2]; exact .valueError
    · rw [h2]
      rcases pyInt_cases hd with h3 | ⟨h, h3⟩
      · rw [h3]; exact .valueError
      · rw [h3]
        simp only [Outcome.bind_ok]
        have hchk : ∀ (x : Outcome Unit) (g : Unit → Outcome PyVal),
            (x = .ok () ∨ x = .raised .valueError) → SafeVal (g ()) → SafeVal (x.bind g) := by
          intro x g hx hg
          rcases hx with rfl | rfl
          · exact hg
          · exact .valueError
        apply hchk
        · cases allowed with
          | none => exact Or.inl rfl
          | some names =>
            dsimp only
            split
            · exact Or.inl rfl
            · exact Or.inr rfl
        · rcases deProblem_safe_of_rooms hR c ht hk h1 body h w with h4 | h4 | ⟨p, h4⟩
          · rw [h4]; exact .none'
          · rw [h4]; exact .valueError
          · rw [h4]; exact .ok' _

/-- the nine shipped puzzle combinators satisfy the side conditions (finite regenerated table) -/
theorem puzzleCodecs_ok :
    ∀ pc ∈ Gen.puzzleCodecs, terminating pc.comb = true ∧ tablesOk pc.comb = true ∧ single pc.comb = true := by
  decide

theorem puzzleCodecs_safe_of_rooms (hR : ∀ env skip allow, SafeDe (roomsDe env skip allow)) :
    ∀ pc ∈ Gen.puzzleCodecs, ∀ url,
      SafeVal (deProblemAsUrl pc.comb url pc.allowed pc.allowFailure pc.returnSize) := by
  intro pc hpc url
  obtain ⟨ht, hk, h1⟩ := puzzleCodecs_ok pc hpc
  exact deProblemAsUrl_safe_of_rooms hR pc.comb ht hk h1 url _ _ _

end Cspuz.Ser
