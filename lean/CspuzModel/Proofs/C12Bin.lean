/-
  C12 — infix operators on arrays: pointwise meaning and rejection.
-/
import CspuzModel.Proofs.C12Disp
namespace Cspuz.Proofs.C12Bin
set_option linter.unusedSimpArgs false
set_option linter.unusedVariables false
open Cspuz Cspuz.Spec Cspuz.Proofs Cspuz.Proofs.C12Elem Cspuz.Proofs.C12Disp

theorem eval_node2 (σ : Asg) (op : Op) (x y : Expr) :
    eval σ (.node op [x, y]) = evalOp op [eval σ x, eval σ y] := by
  simp [eval, evalList]

theorem beq_comm_int (a b : Int) : (a == b) = (b == a) := by
  rw [Bool.eq_iff_iff]; simp only [beq_iff_eq]; exact eq_comm
theorem bne_comm_int (a b : Int) : (a != b) = (b != a) := by
  simp only [bne, beq_comm_int a b]

theorem semL (o : BinOp) (k : Bool) (h : accepts o k = true) :
    ∃ op, binarySpec k o.meth = some (op, false) ∧ op.isBoolOp = resultKind o ∧
      ∀ va vb, evalOp op [some va, some vb] = binSem o k va vb := by
  cases o <;> cases k <;> simp [accepts] at h <;> refine ⟨_, rfl, rfl, ?_⟩ <;> intro va vb <;>
    cases va <;> cases vb <;> simp [evalOp, allInts, allBools, binSem, cmpOp]

theorem semR (o : BinOp) (k : Bool) (h : accepts o k = true) :
    ∃ op sw, binarySpec k o.rmeth = some (op, sw) ∧ op.isBoolOp = resultKind o ∧
      ∀ va vb, evalOp op (if sw then [some va, some vb] else [some vb, some va]) = binSem o k va vb := by
  cases o <;> cases k <;> simp [accepts] at h <;> refine ⟨_, _, rfl, rfl, ?_⟩ <;> intro va vb <;>
    cases va <;> cases vb <;> simp [evalOp, allInts, allBools, binSem, cmpOp] <;>
    first | omega | exact beq_comm_int _ _ | exact bne_comm_int _ _ | (rename_i x y; cases x <;> cases y <;> rfl) | skip

theorem hasKind_ne_other {k : Bool} {x : PyV} (h : hasKind k x = true) : x ≠ .other := by
  rintro rfl; cases k <;> simp [hasKind, PyV.isBoolLike, PyV.isIntLike] at h

theorem hasKind_arr {k ka : Bool} {x : PyV} (hx : x.arrKind? = some ka) (h : hasKind k x = true) : ka = k := by
  cases x <;> simp [PyV.arrKind?] at hx <;> subst hx <;> cases k <;>
    simp [hasKind, PyV.isBoolLike, PyV.isIntLike] at h <;> simp [h]

theorem conf_of {sh : Shape} {xs : List PyV} (hsh : SameShape sh xs) {k : Bool} {x : PyV} (hx : x ∈ xs)
    (hk : hasKind k x = true) : Conf sh x :=
  ⟨(hsh.1 x hx).1, hasKind_ne_other hk, (hsh.1 x hx).2⟩

theorem cls_ne_of_arr {a b : PyV} (ha : a.isArr = false) (hb : b.isArr = true) : (a.cls != b.cls) = true := by
  simp only [bne_iff_ne, ne_eq]
  intro h
  have := congrArg Cls.arrKind? h
  rw [cls_arrKind, cls_arrKind] at this
  simp only [PyV.isArr] at ha hb
  rw [this] at ha
  rw [ha] at hb
  exact absurd hb (by simp)

theorem isArr_of_shape {x : PyV} {sh : Shape} (h : x.shape? = some sh) : x.isArr = true := by
  cases x <;> simp [PyV.shape?] at h <;> rfl

/-- Result of a successful elementwise call, packaged. -/
theorem ew_result {op : Op} {sh : Shape} {x y : PyV} {k : Bool} (hop : opKind op = some k)
    (hx : hasKind k x = true) (hy : hasKind k y = true) (cx : Conf sh x) (cy : Conf sh y) :
    elementwise op sh [x, y] = .ok (some (mkArr op.isBoolOp sh (ewData op sh [x, y]))) := by
  apply elementwise_ok
  · rw [tc2 hop, hx, hy]; rfl
  · intro z hz
    simp only [List.mem_cons, List.not_mem_nil, or_false] at hz
    rcases hz with rfl | rfl <;> assumption

theorem binop_pointwise (o : BinOp) (k : Bool) (a b : PyV) (sh : Shape)
    (hacc : accepts o k = true) (ha : hasKind k a = true) (hb : hasKind k b = true)
    (hsh : SameShape sh [a, b]) :
    ∃ r, binop o a b = .ok r ∧ IsArr r (resultKind o) sh ∧
      ∀ i, i < sh.size → ∃ ai bi ri, elem? a i = some ai ∧ elem? b i = some bi ∧ elem? r i = some ri ∧
        ∀ σ va vb, eval σ ai = some va → eval σ bi = some vb → eval σ ri = binSem o k va vb := by
  have ca : Conf sh a := conf_of hsh (by simp) ha
  have cb : Conf sh b := conf_of hsh (by simp) hb
  have harr : a.isArr = true ∨ b.isArr = true := by
    obtain ⟨x, hx, hs⟩ := hsh.2
    simp only [List.mem_cons, List.not_mem_nil, or_false] at hx
    rcases hx with rfl | rfl
    · exact .inl (isArr_of_shape hs)
    · exact .inr (isArr_of_shape hs)
  rw [binop_arr o a b harr]
  by_cases haa : a.isArr = true
  · -- the left operand's own method
    obtain ⟨ka, sha, hka, hsa⟩ := arr_shape haa
    have : ka = k := hasKind_arr hka ha
    subst this
    have : sha = sh := ca.2.2 _ hsa
    subst this
    obtain ⟨op, hspec, hres, hsem⟩ := semL o ka hacc
    have hl : leftTry o a b = .ok (some (mkArr op.isBoolOp sha (ewData op sha [a, b]))) := by
      simp only [leftTry, hka, hsa, hspec, swapIf]
      exact ew_result (binarySpec_kind hspec) ha hb ca cb
    rw [hl]
    refine ⟨_, rfl, ?_, ?_⟩
    · rw [hres]; exact mkArr_isArr _ _ _ (ewData_length _ _ _)
    · intro i hi
      refine ⟨get a i, get b i, _, (at_ok ca hi).2, (at_ok cb hi).2, elem_ewData hi, ?_⟩
      intro σ va vb h1 h2
      simp only [List.map_cons, List.map_nil]
      rw [eval_node2, h1, h2, hsem]
  · -- reflected method of the right operand
    have haa' : a.isArr = false := by simpa using haa
    have hbb : b.isArr = true := harr.resolve_left haa
    obtain ⟨kb, shb, hkb, hsb⟩ := arr_shape hbb
    have : kb = k := hasKind_arr hkb hb
    subst this
    have : shb = sh := cb.2.2 _ hsb
    subst this
    have hl : leftTry o a b = .ok none := by
      have : a.arrKind? = none := by simpa [PyV.isArr] using haa'
      simp [leftTry, this]
    obtain ⟨op, sw, hspec, hres, hsem⟩ := semR o kb hacc
    rw [hl]
    simp only [cls_ne_of_arr haa' hbb, Bool.or_true, if_true]
    cases sw with
    | true =>
      have hr : rightTry o a b = .ok (some (mkArr op.isBoolOp shb (ewData op shb [a, b]))) := by
        simp only [rightTry, hkb, hsb, hspec, swapIf, if_true]
        exact ew_result (binarySpec_kind hspec) ha hb ca cb
      rw [hr]
      refine ⟨_, rfl, ?_, ?_⟩
      · rw [hres]; exact mkArr_isArr _ _ _ (ewData_length _ _ _)
      · intro i hi
        refine ⟨get a i, get b i, _, (at_ok ca hi).2, (at_ok cb hi).2, elem_ewData hi, ?_⟩
        intro σ va vb h1 h2
        simp only [List.map_cons, List.map_nil]
        rw [eval_node2, h1, h2]
        simpa using hsem va vb
    | false =>
      have hr : rightTry o a b = .ok (some (mkArr op.isBoolOp shb (ewData op shb [b, a]))) := by
        simp only [rightTry, hkb, hsb, hspec, swapIf]
        exact ew_result (binarySpec_kind hspec) hb ha cb ca
      rw [hr]
      refine ⟨_, rfl, ?_, ?_⟩
      · rw [hres]; exact mkArr_isArr _ _ _ (ewData_length _ _ _)
      · intro i hi
        refine ⟨get a i, get b i, _, (at_ok ca hi).2, (at_ok cb hi).2, elem_ewData hi, ?_⟩
        intro σ va vb h1 h2
        simp only [List.map_cons, List.map_nil]
        rw [eval_node2, h1, h2]
        simpa using hsem va vb

/-! ### rejection -/

theorem spec_accepts_meth (o : BinOp) (k : Bool) : (binarySpec k o.meth).isSome = accepts o k := by
  cases o <;> cases k <;> rfl
theorem spec_accepts_rmeth (o : BinOp) (k : Bool) : (binarySpec k o.rmeth).isSome = accepts o k := by
  cases o <;> cases k <;> rfl

theorem ew_none {k : Bool} {m : Meth} {op : Op} {sw : Bool} {x y : PyV} {sh : Shape}
    (hm : binarySpec k m = some (op, sw)) (hbad : ¬ (hasKind k x = true ∧ hasKind k y = true)) :
    elementwise op sh (swapIf sw x y) = .ok none := by
  apply elementwise_ni
  have hk := binarySpec_kind hm
  cases sw <;> simp only [swapIf, if_true, Bool.false_eq_true, if_false] <;> rw [tc2 hk] <;>
    cases h1 : hasKind k x <;> cases h2 : hasKind k y <;> simp_all

theorem binop_rejects_kind (o : BinOp) (a b : PyV) (harr : a.isArr = true ∨ b.isArr = true)
    (hne : o ≠ .eq ∧ o ≠ .ne)
    (hbad : ∀ k, accepts o k = true → ¬ (hasKind k a = true ∧ hasKind k b = true)) :
    binop o a b = .error .typeError := by
  rw [binop_arr o a b harr]
  have hl : leftTry o a b = .ok none := by
    unfold leftTry
    split
    · rename_i k sh hk hs
      cases hm : binarySpec k o.meth with
      | none => rfl
      | some p =>
        obtain ⟨op, sw⟩ := p
        have hacc : accepts o k = true := by rw [← spec_accepts_meth, hm]; rfl
        exact ew_none hm (hbad k hacc)
    · rfl
  have hr : rightTry o a b = .ok none := by
    unfold rightTry
    split
    · rename_i k sh hk hs
      cases hm : binarySpec k o.rmeth with
      | none => rfl
      | some p =>
        obtain ⟨op, sw⟩ := p
        have hacc : accepts o k = true := by rw [← spec_accepts_rmeth, hm]; rfl
        exact ew_none hm (fun h => hbad k hacc ⟨h.2, h.1⟩)
    · rfl
  rw [hl, hr]
  have hf : fallback o a b = .error .typeError := by
    cases o <;> simp [fallback] <;> simp at hne
  simp [hf]

theorem binop_rejects_shape (o : BinOp) (k : Bool) (a b : PyV) (sa sb : Shape)
    (hacc : accepts o k = true) (ha : hasKind k a = true) (hb : hasKind k b = true)
    (hsa : a.shape? = some sa) (hsb : b.shape? = some sb) (hne : sa ≠ sb) :
    binop o a b = .error .valueError := by
  have haa := isArr_of_shape hsa
  rw [binop_arr o a b (.inl haa)]
  obtain ⟨ka, sha, hka, hsa'⟩ := arr_shape haa
  have : ka = k := hasKind_arr hka ha
  subst this
  rw [hsa] at hsa'
  cases hsa'
  obtain ⟨op, hspec, -, -⟩ := semL o ka hacc
  have hl : leftTry o a b = .error .valueError := by
    simp only [leftTry, hka, hsa, hspec, swapIf, Bool.false_eq_true, if_false]
    apply elementwise_shape_err
    · rw [tc2 (binarySpec_kind hspec), ha, hb]; rfl
    · refine ⟨b, by simp, ?_⟩
      simp only [PyV.shapeOk, hsb]
      simpa using fun h => hne h.symm
  rw [hl]

end Cspuz.Proofs.C12Bin
