/-
  C16, rooms of a border set: the independent connected-components routine of the pzpr spec (`Pzpr.roomsOfBorders`:
  `h·w` rounds of "take the least label among the unseparated neighbours", then one room per label that survived),
  applied to the borders of a valid partition, returns the canonical form of that partition.
  Part A: list-level facts; part B: convergence of the relaxation; here: leaders and the assembly.
-/
import CspuzModel.Proofs.C16ComponentsA
import CspuzModel.Proofs.C16ComponentsB
import CspuzModel.Proofs.C15Valued
import CspuzModel.Proofs.C15Rooms
namespace Cspuz.Proofs.C16Components
open Cspuz Cspuz.Ser Cspuz.C16F Cspuz.Proofs.C16ComponentsA Cspuz.Proofs.C16ComponentsB

/-! ### leaders = cells of least id in their class -/

theorem lexLt_cid {w : Nat} {a b : Nat × Nat} (ha : a.2 < w) (hl : lexLt a b) : cid w a < cid w b := by
  unfold cid
  rcases hl with h1 | ⟨h1, h2⟩
  · have h3 : (a.1 + 1) * w ≤ b.1 * w := Nat.mul_le_mul_right w h1
    rw [Nat.succ_mul] at h3
    omega
  · rw [h1]; omega

theorem isLeader_iff {h w : Nat} {col : Nat × Nat → Nat} {c : Nat × Nat} (hc : InB h w c) :
    isLeader h w col c = true ↔ ∀ d, InB h w d → col d = col c → cid w c ≤ cid w d := by
  obtain ⟨done, todo, hs⟩ := List.append_of_mem (mem_cells.2 hc)
  have hsorted := cells_sorted h w
  rw [hs, List.pairwise_append] at hsorted
  obtain ⟨_, htodo, hcross⟩ := hsorted
  have hdone : ∀ d ∈ done, cid w d < cid w c := fun d hd => by
    have hdb : InB h w d := mem_cells.1 (by rw [hs]; exact List.mem_append_left _ hd)
    exact lexLt_cid hdb.2 (hcross d hd c List.mem_cons_self)
  constructor
  · intro hL d hd hdc
    have hmem : d ∈ done ++ c :: todo := by rw [← hs]; exact mem_cells.2 hd
    rcases List.mem_append.1 hmem with h1 | h1
    · rw [isLeader_old hs h1 hdc] at hL; exact absurd hL (by simp)
    · rcases List.mem_cons.1 h1 with rfl | h2
      · exact Nat.le_refl _
      · exact Nat.le_of_lt (lexLt_cid hc.2 ((List.pairwise_cons.1 htodo).1 d h2))
  · intro hmin
    refine isLeader_new hs (fun d hd e => ?_)
    have hdb : InB h w d := mem_cells.1 (by rw [hs]; exact List.mem_append_left _ hd)
    have := hmin d hdb e
    have := hdone d hd
    omega

/-! ### the labels at the fixed point -/

section final
variable {h w : Nat} {rooms : List (List (Nat × Nat))}

theorem F_self_iff (hv : ValidPartition h w rooms) {c : Nat × Nat} (hc : InB h w c) :
    F h w rooms (h * w) c = cid w c ↔ isLeader h w (roomOf rooms) c = true := by
  obtain ⟨m, hm, hmc, hF, hmin⟩ := F_final hv hc
  rw [hF, isLeader_iff hc]
  constructor
  · intro e
    have : m = c := cid_inj hm.2 hc.2 e
    subst this
    exact hmin
  · intro hcmin
    have h1 := hmin c hc rfl
    have h2 := hcmin m hm hmc
    omega

theorem F_leader_iff (hv : ValidPartition h w rooms) {a c : Nat × Nat} (ha : InB h w a) (hc : InB h w c)
    (hL : isLeader h w (roomOf rooms) c = true) :
    F h w rooms (h * w) a = cid w c ↔ roomOf rooms a = roomOf rooms c := by
  obtain ⟨m, hm, hma, hF, hmin⟩ := F_final hv ha
  have hcmin := (isLeader_iff hc).1 hL
  rw [hF]
  constructor
  · intro e
    have : m = c := cid_inj hm.2 hc.2 e
    subst this
    exact hma.symm
  · intro e
    have h1 := hmin c hc e.symm
    have h2 := hcmin m hm (hma.trans e)
    omega

end final

/-! ### the routine as a scan of the cells -/

theorem roomsOfBorders_eq (h w : Nat) (rooms : List (List (Nat × Nat))) :
    Pzpr.roomsOfBorders h w (bordersOf h w rooms) =
      (cells h w).filterMap fun c =>
        if F h w rooms (h * w) c = cid w c then
          some ((cells h w).filter fun a => decide (F h w rooms (h * w) a = cid w c))
        else none := by
  have hgen : ∀ l : List (Nat × Nat),
      (List.range (h * w)).filterMap (fun id =>
        if (labs h w rooms (h * w)).getD id 0 = id then
          some (l.filter fun (y, x) => decide ((labs h w rooms (h * w)).getD (y * w + x) 0 = id)) else none) =
      ((List.range (h * w)).map (cellAt w)).filterMap fun c =>
        if F h w rooms (h * w) c = cid w c then
          some (l.filter fun a => decide (F h w rooms (h * w) a = cid w c))
        else none := by
    intro l
    rw [List.filterMap_map]
    apply List.filterMap_congr
    intro i _
    simp only [Function.comp, F, labF, cid_cellAt]
    rfl
  have := hgen (cells h w)
  rw [← cells_eq_range] at this
  exact this

/-- **the rooms of the borders of a partition**: the pzpr spec's connected-components routine, run on the borders of
a valid partition, computes the canonical form of the partition. -/
theorem roomsOfBorders_correct (h w : Nat) (hh : 1 ≤ h) (hw : 1 ≤ w) (rooms : List (List (Nat × Nat)))
    (hv : ValidPartition h w rooms) :
    Pzpr.roomsOfBorders h w (bordersOf h w rooms) = canonRooms h w rooms := by
  have _ := hh
  have _ := hw
  rw [roomsOfBorders_eq, canonRooms_eq hv]
  unfold colorRooms
  rw [← filterMap_ite]
  apply List.filterMap_congr
  intro c hc
  have hcb : InB h w c := mem_cells.1 hc
  by_cases hL : isLeader h w (roomOf rooms) c = true
  · rw [if_pos ((F_self_iff hv hcb).2 hL), if_pos hL]
    congr 1
    apply List.filter_congr
    intro a ha
    have hab : InB h w a := mem_cells.1 ha
    apply Bool.eq_iff_iff.2
    simp only [decide_eq_true_eq, beq_iff_eq]
    exact F_leader_iff hv hab hcb hL
  · rw [if_neg (fun e => hL ((F_self_iff hv hcb).1 e)), if_neg hL]

end Cspuz.Proofs.C16Components

#print axioms Cspuz.Proofs.C16Components.roomsOfBorders_correct
