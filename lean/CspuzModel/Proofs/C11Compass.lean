/-
  C11 / Compass — `solve_compass` posts a program that encodes the published rules (Spec/PuzzleRules/Compass.lean).
  Part A (Proofs/C11CompassA.lean) gives the posted program in closed form; here: the meaning of the clue
  constraints, the meaning of the `division_connected` fragment on the grid graph (via `Cspuz.C05.C05_aux_exact`),
  and the projection onto the division variables.
-/
import CspuzModel.Proofs.C11CompassA
import CspuzModel.Properties.C05
import CspuzModel.Proofs.C11Frag
import CspuzModel.Proofs.C11FragWT
import CspuzModel.Proofs.C11DivWT
import CspuzModel.Proofs.C11CellGraph
namespace Cspuz.Proofs.C11Compass
open Cspuz Cspuz.Spec Cspuz.Puzzles Cspuz.Puzzles.Compass Cspuz.Spec.Compass Cspuz.Proofs
open Cspuz.Proofs.C11CompassA

/-! ### one bounded integer variable per cell + a fragment with hidden variables + local constraints -/

/-- The integer analogue of `C11Frag.encodes_bool_grid_frag`: one integer variable `lo … hi` per cell (allocated
first, row-major, all of them keys), then a fragment `p` with hidden auxiliary variables, and local constraints
over the cell variables. -/
theorem encodes_int_grid_frag (h w : Nat) (lo hi : Int) (p : Prog) (loc cs : List Expr)
    (G : (Nat → Nat → Int) → Prop)
    (hcs : ∀ c, c ∈ cs ↔ c ∈ p.cs ∨ c ∈ loc)
    (hloc : ∀ c ∈ loc, c.varsBelow (h * w) = true)
    (hG : ∀ (σ : Asg) (g : Nat → Nat → Int), (∀ y, y < h → ∀ x, x < w → g y x = σ.i (y * w + x)) →
      (((∀ y, y < h → ∀ x, x < w → lo ≤ g y x ∧ g y x ≤ hi) ∧ Realizable (h * w) p σ ∧
          ∀ c ∈ loc, eval σ c = some (.b true)) ↔ G g)) :
    EncodesRules { decls := List.replicate (h * w) (.int lo hi) ++ p.decls, cs := cs, keys := List.range (h * w) }
      (fun a => ∃ g, a = intGrid h w g ∧ G g) := by
  have hlen : (List.replicate (h * w) (VarDecl.int lo hi)).length = h * w := List.length_replicate
  apply C11Frag.encodes_of_realizable (List.replicate (h * w) (.int lo hi)) p loc cs (List.range (h * w)) _ hcs
    (by rw [hlen]; exact hloc) (by rw [hlen]; intro k hk; exact List.mem_range.mp hk)
  intro a
  rw [hlen]
  have hval : ∀ (σ : Asg) (i : Nat), i < h * w →
      valOf (List.replicate (h * w) (VarDecl.int lo hi)) σ i = some (.i (σ.i i)) := by
    intro σ i hi
    unfold valOf
    rw [List.getElem?_replicate, if_pos hi]
  have hresp : ∀ (σ : Asg), σ.respects (List.replicate (h * w) (VarDecl.int lo hi)) ↔
      ∀ y, y < h → ∀ x, x < w → lo ≤ σ.i (y * w + x) ∧ σ.i (y * w + x) ≤ hi := by
    intro σ
    constructor
    · intro hr y hy x hx
      apply hr (y * w + x) lo hi
      rw [List.getElem?_replicate, if_pos (C11Grid.cell_lt hy hx)]
    · intro hb id lo' hi' hd
      rw [List.getElem?_replicate] at hd
      split at hd
      · next hlt =>
        simp only [Option.some.injEq, VarDecl.int.injEq] at hd
        obtain ⟨rfl, rfl⟩ := hd
        have hdm := C11Grid.div_lt_of_lt_mul hlt
        have := hb (id / w) hdm.1 (id % w) hdm.2
        rwa [Nat.div_add_mod' id w] at this
      · simp at hd
  have hkv : ∀ (σ : Asg) (g : Nat → Nat → Int), (∀ y, y < h → ∀ x, x < w → g y x = σ.i (y * w + x)) →
      (List.range (h * w)).map (valOf (List.replicate (h * w) (VarDecl.int lo hi)) σ)
        = (intGrid h w g).map some := by
    intro σ g hg
    unfold intGrid
    rw [C11Grid.flatMap_range_eq (fun y x => Val.i (g y x)), List.map_map]
    apply List.map_congr_left
    intro i hi
    have hi' := List.mem_range.mp hi
    rw [hval σ i hi']
    simp only [Function.comp]
    have hdm := C11Grid.div_lt_of_lt_mul hi'
    rw [hg _ hdm.1 _ hdm.2, Nat.div_add_mod' i w]
  constructor
  · rintro ⟨σ, hr, hreal, hl, hk⟩
    refine ⟨fun y x => σ.i (y * w + x), ?_, (hG σ _ (fun _ _ _ _ => rfl)).1 ⟨(hresp σ).1 hr, hreal, hl⟩⟩
    have hk' : (intGrid h w fun y x => σ.i (y * w + x)).map some = a.map some := by
      rw [← hkv σ _ (fun _ _ _ _ => rfl)]; exact hk
    exact ((List.map_inj_right (fun _ _ e => Option.some.inj e)).mp hk').symm
  · rintro ⟨g, rfl, hg⟩
    let σ : Asg := { b := fun _ => false, i := fun i => g (i / w) (i % w) }
    have hag : ∀ y, y < h → ∀ x, x < w → g y x = σ.i (y * w + x) := by
      intro y _ x hx
      show g y x = g ((y * w + x) / w) ((y * w + x) % w)
      rw [(C11Grid.cell_div_mod hx).1, (C11Grid.cell_div_mod hx).2]
    obtain ⟨hb, hreal, hl⟩ := (hG σ g hag).2 hg
    refine ⟨σ, (hresp σ).2 ?_, hreal, hl, hkv σ g hag⟩
    intro y hy x hx
    rw [← hag y hy x hx]; exact hb y hy x hx

/-! ### counting the cells of a sub-rectangle -/

theorem rect_count_aux (py px : Nat → Bool) (f : Nat → Nat → Bool) (m : List Nat) : ∀ l : List Nat,
    ((l.filter py).flatMap fun y => (m.filter px).map fun x => f y x).count true
      = (l.flatMap fun y => m.map fun x => (y, x)).countP fun p => f p.1 p.2 && (py p.1 && px p.2) := by
  intro l
  induction l with
  | nil => simp
  | cons a l ih =>
    rw [List.flatMap_cons, List.countP_append, ← ih, List.countP_map]
    by_cases ha : py a = true
    · rw [List.filter_cons_of_pos ha, List.flatMap_cons, List.count_append]
      congr 1
      rw [List.count_eq_countP, List.countP_map, List.countP_filter]
      apply List.countP_congr
      intro x _
      simp [ha]
    · rw [List.filter_cons_of_neg ha]
      have : List.countP ((fun p : Nat × Nat => f p.1 p.2 && (py p.1 && px p.2)) ∘ fun x => (a, x)) m = 0 := by
        rw [List.countP_eq_zero]
        intro x _
        simp [ha]
      rw [this, Nat.zero_add]

/-- The number of `true` among `f y x` over the selected rows and columns of the board is the number of
cells of the board in a selected row and column with `f y x`. -/
theorem rect_count (h w : Nat) (py px : Nat → Bool) (f : Nat → Nat → Bool) :
    (((List.range h).filter py).flatMap fun y => ((List.range w).filter px).map fun x => f y x).count true
      = countCells h w fun y x => f y x && (py y && px x) :=
  rect_count_aux py px f (List.range w) (List.range h)

/-! ### meaning of the clue constraints -/

section
variable {h w : Nat} (σ : Asg) (g : Nat → Nat → Int)
  (hg : ∀ y, y < h → ∀ x, x < w → g y x = σ.i (y * w + x))
include hg

theorem eval_cntE (py px : Nat → Bool) (i v : Int) :
    eval σ (cntE w ((List.range h).filter py) ((List.range w).filter px) i v) = some (.b true) ↔
      ((countCells h w fun y x => decide (g y x = i) && (py y && px x) : Nat) : Int) = v := by
  unfold cntE
  let bs : List Bool := ((List.range h).filter py).flatMap fun y =>
    ((List.range w).filter px).map fun x => decide (g y x = i)
  have hbs : ((rectVars w ((List.range h).filter py) ((List.range w).filter px)).map
        fun a => Expr.node .eq [a, .litI i]).map (eval σ) = bs.map fun b => some (.b b) := by
    simp only [rectVars, bs, List.map_map, List.map_flatMap]
    apply List.flatMap_congr
    intro y hy
    apply List.map_congr_left
    intro x hx
    simp only [Function.comp]
    rw [eval_cmp rfl (eval_ivar σ _) (eval_litI σ i), cmpOp_eq, C05L1.beq_dec,
      hg y (mem_filter_range_lt hy) x (mem_filter_range_lt hx)]
  rw [eval_node]
  simp only [List.map_cons, List.map_nil, eval_litI]
  rw [eval_countTrueE bs hbs, evalOp_cmp rfl]
  simp only [cmpOp_eq, Option.some.injEq, Val.b.injEq, beq_iff_eq]
  rw [rect_count]

theorem eval_cellE {y x : Nat} (hy : y < h) (hx : x < w) (i : Int) :
    eval σ (.node .eq [.ivar (y * w + x), .litI i]) = some (.b true) ↔ g y x = i := by
  rw [eval_cmp rfl (eval_ivar σ _) (eval_litI σ i), cmpOp_eq, hg y hy x hx]
  simp

end

/-- Quantification over the constraints of one compass. -/
theorem forall_clueEs (h w : Nat) (c : Clue) (i : Nat) (P : Expr → Prop) :
    (∀ e ∈ clueEs h w (c, i), P e) ↔
      P (.node .eq [.ivar (c.y.toNat * w + c.x.toNat), .litI (i : Int)]) ∧
      (0 ≤ c.up → P (cntE w (before h c.y) (allOf w) i c.up)) ∧
      (0 ≤ c.dw → P (cntE w (after h c.y) (allOf w) i c.dw)) ∧
      (0 ≤ c.lf → P (cntE w (allOf h) (before w c.x) i c.lf)) ∧
      (0 ≤ c.rg → P (cntE w (allOf h) (after w c.x) i c.rg)) := by
  unfold clueEs
  by_cases hu : c.up ≥ 0 <;> by_cases hd : c.dw ≥ 0 <;> by_cases hl : c.lf ≥ 0 <;> by_cases hr : c.rg ≥ 0 <;>
    simp [hu, hd, hl, hr]

/-- The clue constraints of compass `c` (the `i`-th) hold iff its cell carries `i` and its numbers are right. -/
theorem compass_iff {h w : Nat} (σ : Asg) (g : Nat → Nat → Int)
    (hg : ∀ y, y < h → ∀ x, x < w → g y x = σ.i (y * w + x)) (pb : Problem) (hh : pb.height = h) (hw : pb.width = w)
    (c : Clue) (i : Nat) (hy0 : 0 ≤ c.y) (hy1 : c.y < (h : Int)) (hx0 : 0 ≤ c.x) (hx1 : c.x < (w : Int)) :
    (∀ e ∈ clueEs h w (c, i), eval σ e = some (.b true)) ↔
      g c.y.toNat c.x.toNat = (i : Int) ∧
      numberOK c.up (regionCount pb g i fun y _ => decide ((y : Int) < c.y)) ∧
      numberOK c.lf (regionCount pb g i fun _ x => decide ((x : Int) < c.x)) ∧
      numberOK c.dw (regionCount pb g i fun y _ => decide (c.y < (y : Int))) ∧
      numberOK c.rg (regionCount pb g i fun _ x => decide (c.x < (x : Int))) := by
  subst hh hw
  rw [forall_clueEs]
  simp only [before, after, allOf]
  rw [eval_cellE σ g hg (by omega) (by omega), eval_cntE σ g hg, eval_cntE σ g hg, eval_cntE σ g hg,
    eval_cntE σ g hg]
  simp only [numberOK, regionCount, Bool.and_true, Bool.true_and]
  constructor
  · rintro ⟨h0, h1, h2, h3, h4⟩; exact ⟨h0, h1, h3, h2, h4⟩
  · rintro ⟨h0, h1, h2, h3, h4⟩; exact ⟨h0, h1, h3, h2, h4⟩

/-! ### typing and locality of the clue constraints -/

theorem cntE_wt {h w : Nat} {ys xs : List Nat} (hys : ∀ y ∈ ys, y < h) (hxs : ∀ x ∈ xs, x < w) (i v : Int) :
    wtB (cntE w ys xs i v) = true ∧ (cntE w ys xs i v).varsBelow (h * w) = true := by
  have hall : ∀ e ∈ (rectVars w ys xs).map fun a => Expr.node .eq [a, .litI i],
      wtB e = true ∧ e.varsBelow (h * w) = true := by
    intro e he
    simp only [rectVars, List.mem_map, List.mem_flatMap] at he
    obtain ⟨a, ⟨y, hy, x, hx, rfl⟩, rfl⟩ := he
    refine ⟨rfl, ?_⟩
    have := C11Grid.cell_lt (hys y hy) (hxs x hx)
    simp only [Expr.varsBelow, Expr.varsBelow.varsBelowList, decide_eq_true_eq, Bool.and_true]
    exact this
  exact ⟨C11FragWT.wtB_cmp_countTrueE .eq rfl _ v (fun e he => (hall e he).1),
    C11FragWT.varsBelow_cmp_countTrueE _ .eq _ v (fun e he => (hall e he).2)⟩

theorem clueEs_wt {h w : Nat} (c : Clue) (i : Nat)
    (hy0 : 0 ≤ c.y) (hy1 : c.y < (h : Int)) (hx0 : 0 ≤ c.x) (hx1 : c.x < (w : Int)) :
    ∀ e ∈ clueEs h w (c, i), wtB e = true ∧ e.varsBelow (h * w) = true := by
  rw [forall_clueEs]
  have hf : ∀ (n : Nat) (p : Nat → Bool), ∀ y ∈ (List.range n).filter p, y < n := fun _ _ _ => mem_filter_range_lt
  refine ⟨⟨rfl, ?_⟩, fun _ => cntE_wt (hf _ _) (hf _ _) _ _, fun _ => cntE_wt (hf _ _) (hf _ _) _ _,
    fun _ => cntE_wt (hf _ _) (hf _ _) _ _, fun _ => cntE_wt (hf _ _) (hf _ _) _ _⟩
  have := C11Grid.cell_lt (h := h) (w := w) (y := c.y.toNat) (x := c.x.toNat) (by omega) (by omega)
  simp only [Expr.varsBelow, Expr.varsBelow.varsBelowList, decide_eq_true_eq, Bool.and_true]
  exact this

theorem mem_clues {pb : Problem} {e : Expr} :
    e ∈ clues pb ↔ ∃ (i : Nat) (hi : i < pb.problem.length), e ∈ clueEs pb.height pb.width (pb.problem[i], i) := by
  simp only [clues, List.mem_flatMap]
  constructor
  · rintro ⟨⟨c, i⟩, hci, he⟩
    obtain ⟨hi, hc⟩ := List.getElem?_eq_some_iff.1 (List.mem_zipIdx_iff_getElem?.1 hci)
    simp only at hi hc
    subst hc
    exact ⟨i, hi, he⟩
  · rintro ⟨i, hi, he⟩
    exact ⟨(pb.problem[i], i), List.mem_zipIdx_iff_getElem?.2 (List.getElem?_eq_getElem hi), he⟩

theorem clues_wt {pb : Problem} (hwf : WellFormed pb) :
    ∀ e ∈ clues pb, wtB e = true ∧ e.varsBelow (pb.height * pb.width) = true := by
  intro e he
  obtain ⟨i, hi, he⟩ := mem_clues.1 he
  obtain ⟨h1, h2, h3, h4⟩ := hwf.2 _ (List.getElem_mem hi)
  exact clueEs_wt _ i h1 h2 h3 h4 e he

/-! ### meaning of the `division_connected` fragment -/

theorem labOf_ivars (σ : Asg) (n v : Nat) (hv : v < n) : labOf σ (ivars 0 n) v = σ.i v := by
  simp [labOf, intAt, ivars, hv]

theorem ivars_intArgs (n : Nat) : IntArgs n (ivars 0 n) := by
  intro e he
  simp only [ivars, List.mem_map, List.mem_range] at he
  obtain ⟨i, hi, rfl⟩ := he
  refine ⟨rfl, ?_⟩
  simp only [Expr.varsBelow, decide_eq_true_eq]
  omega

theorem inRange_ivars (σ : Asg) (n k : Nat) (h : ∀ v, v < n → 0 ≤ σ.i v ∧ σ.i v < (k : Int)) :
    InRange σ (ivars 0 n) n k := by
  intro v hv
  exact ⟨σ.i v, by simp [intAt, ivars, hv], (h v hv).1, (h v hv).2⟩

theorem roots_get {pb : Problem} {i r : Nat} :
    (roots pb)[i]? = some (some r) ↔ ∃ hi : i < pb.problem.length, r = cellOf pb.width pb.problem[i] := by
  simp only [roots, List.getElem?_map]
  constructor
  · intro hq
    cases hc : pb.problem[i]? with
    | none => rw [hc] at hq; simp at hq
    | some c =>
      rw [hc] at hq
      obtain ⟨hi, rfl⟩ := List.getElem?_eq_some_iff.1 hc
      simp only [Option.map_some, Option.some.injEq] at hq
      exact ⟨hi, hq.symm⟩
  · rintro ⟨hi, rfl⟩
    rw [List.getElem?_eq_getElem hi]; rfl

/-- On the grid graph, with the compass cells as roots: every label class is connected, every label is used
and the roots carry their labels, iff for every compass the cells carrying its index are orthogonally connected
and contain the compass cell. -/
theorem divisionOK_iff {pb : Problem} (hwf : WellFormed pb) (σ : Asg) (g : Nat → Nat → Int)
    (hg : ∀ y, y < pb.height → ∀ x, x < pb.width → g y x = σ.i (y * pb.width + x)) :
    DivisionOK (Graph.grid pb.height pb.width) (labOf σ (ivars 0 (pb.height * pb.width))) pb.problem.length
        (roots pb) false ↔
      ∀ (i : Nat) (hi : i < pb.problem.length),
        g pb.problem[i].y.toNat pb.problem[i].x.toNat = (i : Int) ∧
        CellsConnected pb.height pb.width (fun y x => g y x = (i : Int)) := by
  have hlab : ∀ y, y < pb.height → ∀ x, x < pb.width →
      labOf σ (ivars 0 (pb.height * pb.width)) (y * pb.width + x) = g y x := by
    intro y hy x hx
    rw [labOf_ivars σ _ _ (C11Grid.cell_lt hy hx), hg y hy x hx]
  have hconn : ∀ c : Int,
      ((toSimple (Graph.grid pb.height pb.width)).induce
        (labelClass (Graph.grid pb.height pb.width) (labOf σ (ivars 0 (pb.height * pb.width))) c)).Preconnected ↔
      CellsConnected pb.height pb.width (fun y x => g y x = c) := by
    intro c
    have hset : labelClass (Graph.grid pb.height pb.width) (labOf σ (ivars 0 (pb.height * pb.width))) c
        = activeSet (Graph.grid pb.height pb.width)
            (fun v => decide (labOf σ (ivars 0 (pb.height * pb.width)) v = c)) := by
      ext v
      simp [labelClass, activeSet]
    rw [hset]
    exact C11CellGraph.activeConnected_grid_iff pb.height pb.width _ (fun y x => g y x = c) (by
      intro y x hy hx
      rw [hlab y hy x hx]
      simp)
  have hcell : ∀ (i : Nat) (hi : i < pb.problem.length),
      labOf σ (ivars 0 (pb.height * pb.width)) (cellOf pb.width pb.problem[i])
        = g pb.problem[i].y.toNat pb.problem[i].x.toNat := by
    intro i hi
    obtain ⟨h1, h2, h3, h4⟩ := hwf.2 _ (List.getElem_mem hi)
    exact hlab _ (by omega) _ (by omega)
  constructor
  · rintro ⟨hc, _, hr⟩ i hi
    refine ⟨?_, (hconn i).1 (hc i hi)⟩
    rw [← hcell i hi]
    exact (hr i _ (roots_get.2 ⟨hi, rfl⟩)).2
  · intro hall
    refine ⟨fun c hc => (hconn c).2 (hall c hc).2, ?_, ?_⟩
    · intro _ c hc
      obtain ⟨h1, h2, h3, h4⟩ := hwf.2 _ (List.getElem_mem hc)
      exact ⟨cellOf pb.width pb.problem[c], cellOf_lt h1 h2 h3 h4, by rw [hcell c hc]; exact (hall c hc).1⟩
    · intro c r hcr
      obtain ⟨hc, rfl⟩ := roots_get.1 hcr
      obtain ⟨h1, h2, h3, h4⟩ := hwf.2 _ (List.getElem_mem hc)
      exact ⟨cellOf_lt h1 h2 h3 h4, by rw [hcell c hc]; exact (hall c hc).1⟩

/-! ### the theorem -/

theorem cell_iff (g : Nat → Nat → Int) (c : Clue) (i : Int) (hy0 : 0 ≤ c.y) (hx0 : 0 ≤ c.x) :
    (∀ y x : Nat, (y : Int) = c.y → (x : Int) = c.x → g y x = i) ↔ g c.y.toNat c.x.toNat = i := by
  constructor
  · intro h
    exact h _ _ (Int.toNat_of_nonneg hy0) (Int.toNat_of_nonneg hx0)
  · intro h y x hy hx
    have ey : y = c.y.toNat := by omega
    have ex : x = c.x.toNat := by omega
    subst ey ex
    exact h

theorem encodes {pb : Problem} (hwf : WellFormed pb) :
    EncodesRules { decls := d0 pb ++ (dc pb).decls, cs := (dc pb).cs ++ clues pb,
                   keys := List.range (pb.height * pb.width) } (Rules pb) := by
  apply encodes_int_grid_frag pb.height pb.width 0 ((pb.problem.length : Int) - 1) (dc pb) (clues pb) _
    (RulesGrid pb) (fun c => List.mem_append) (fun c hc => (clues_wt hwf c hc).2)
  intro σ g hg
  have hexact : InRange σ (ivars 0 (pb.height * pb.width)) (pb.height * pb.width) pb.problem.length →
      (Realizable (pb.height * pb.width) (dc pb) σ ↔
        DivisionOK (Graph.grid pb.height pb.width) (labOf σ (ivars 0 (pb.height * pb.width)))
          pb.problem.length (roots pb) false) := by
    intro hin
    exact Cspuz.C05.C05_aux_exact (Graph.grid pb.height pb.width) (ivars 0 (pb.height * pb.width))
      pb.problem.length (some (roots pb)) false (pb.height * pb.width) (dc pb) σ (C04Prim.grid_wf _ _)
      (by simp [ivars, Graph.grid]) (ivars_intArgs _) hin (dc_eq hwf)
  have hin : (∀ y, y < pb.height → ∀ x, x < pb.width → 0 ≤ g y x ∧ g y x < (pb.problem.length : Int)) →
      InRange σ (ivars 0 (pb.height * pb.width)) (pb.height * pb.width) pb.problem.length := by
    intro hr
    apply inRange_ivars
    intro v hv
    have hdm := C11Grid.div_lt_of_lt_mul hv
    have := hr _ hdm.1 _ hdm.2
    rwa [hg _ hdm.1 _ hdm.2, Nat.div_add_mod' v pb.width] at this
  have hclue : ∀ (i : Nat) (hi : i < pb.problem.length),
      (∀ e ∈ clueEs pb.height pb.width (pb.problem[i], i), eval σ e = some (.b true)) ↔ _ := fun i hi =>
    compass_iff σ g hg pb rfl rfl pb.problem[i] i (hwf.2 _ (List.getElem_mem hi)).1
      (hwf.2 _ (List.getElem_mem hi)).2.1 (hwf.2 _ (List.getElem_mem hi)).2.2.1
      (hwf.2 _ (List.getElem_mem hi)).2.2.2
  unfold RulesGrid
  constructor
  · rintro ⟨hr, hreal, hloc⟩
    have hr' : ∀ y, y < pb.height → ∀ x, x < pb.width → 0 ≤ g y x ∧ g y x < (pb.problem.length : Int) := by
      intro y hy x hx
      have := hr y hy x hx
      omega
    refine ⟨hr', fun i hi => ?_⟩
    obtain ⟨h1, h2⟩ := (divisionOK_iff hwf σ g hg).1 ((hexact (hin hr')).1 hreal) i hi
    obtain ⟨_, hnum⟩ := (hclue i hi).1 (fun e he => hloc e (mem_clues.2 ⟨i, hi, he⟩))
    obtain ⟨hy0, _, hx0, _⟩ := hwf.2 _ (List.getElem_mem hi)
    exact ⟨(cell_iff g _ _ hy0 hx0).2 h1, h2, hnum⟩
  · rintro ⟨hr, hall⟩
    refine ⟨fun y hy x hx => ⟨(hr y hy x hx).1, by have := (hr y hy x hx).2; omega⟩, ?_, ?_⟩
    · apply (hexact (hin hr)).2
      apply (divisionOK_iff hwf σ g hg).2
      intro i hi
      obtain ⟨h1, h2, _⟩ := hall i hi
      obtain ⟨hy0, _, hx0, _⟩ := hwf.2 _ (List.getElem_mem hi)
      exact ⟨(cell_iff g _ _ hy0 hx0).1 h1, h2⟩
    · intro e he
      obtain ⟨i, hi, he⟩ := mem_clues.1 he
      obtain ⟨h1, _, hnum⟩ := hall i hi
      obtain ⟨hy0, _, hx0, _⟩ := hwf.2 _ (List.getElem_mem hi)
      exact (hclue i hi).2 ⟨(cell_iff g _ _ hy0 hx0).1 h1, hnum⟩ e he

theorem main (pb : Problem) (hwf : WellFormed pb) (P : PuzzleProg) (hP : program pb = .ok P) :
    EncodesRules P (Rules pb) ∧ P.KeysOk ∧ (∀ c ∈ P.cs, wtB c = true) := by
  rw [program_eq hwf] at hP
  cases hP
  refine ⟨encodes hwf, C11Frag.keysOk_range_le _ _ _ (by simp [d0]), ?_⟩
  intro c hc
  rcases List.mem_append.1 hc with hc | hc
  · exact (C11DivWT.divProg_wt (C04Prim.grid_wf _ _) (by simp [ivars, Graph.grid]) (ivars_intArgs _)
      pb.problem.length (some (roots pb)) false (roots_lt hwf) c hc).1
  · exact (clues_wt hwf c hc).1

theorem total (pb : Problem) (hwf : WellFormed pb) : ∃ P, program pb = .ok P := C11CompassA.total pb hwf

end Cspuz.Proofs.C11Compass
