/-
  C18 — characterisation of the updates returned by `candidates` (Model/Segmentation.lean):
  every update is a merge, a split or a move of the shapes `IsMergeUpd` / `IsSplitUpd` / `IsMoveUpd`.
  Interface: the three definitions and `candidates_char`; everything else in this file is private.
-/
import CspuzModel.Proofs.C18Conn
namespace Cspuz.Seg.Proofs
open Cspuz.Seg Cspuz.Seg.Spec

def IsMergeUpd (cfg : Cfg) (bs : Blocks) (u : Update) : Prop :=
  ∃ (i j : Nat) (bi bj : Block), i < j ∧ bs[i]? = some bi ∧ bs[j]? = some bj ∧
    (∃ a ∈ bi, ∃ b ∈ bj, Adj4 a b) ∧ (bi.length : Int) + bj.length ≤ cfg.maxSize ∧
    (bs.length : Int) > cfg.minNum ∧ u = ([(i : Int), (j : Int)], [bi ++ bj])

def IsSplitUpd (cfg : Cfg) (bs : Blocks) (u : Update) : Prop :=
  ∃ (i a b : Nat) (blk A B : Block), bs[i]? = some blk ∧ a ≠ b ∧ splitWith blk a b = .ok (A, B) ∧
    cfg.minSize ≤ (A.length : Int) ∧ cfg.minSize ≤ (B.length : Int) ∧ (bs.length : Int) < cfg.maxNum ∧
    u = ([(i : Int)], [A, B])

def IsMoveUpd (cfg : Cfg) (bs : Blocks) (u : Update) : Prop :=
  ∃ (i j : Nat) (donor recv : Block) (c r : Cell), i ≠ j ∧ bs[i]? = some donor ∧ bs[j]? = some recv ∧
    c ∈ donor ∧ r ∈ recv ∧ Adj4 r c ∧ (donor.length : Int) > cfg.minSize ∧ (recv.length : Int) < cfg.maxSize ∧
    isConnected cfg.recDepth donor (some c) = .ok true ∧
    (u.1 = [(i : Int), (j : Int)] ∨ u.1 = [(j : Int), (i : Int)]) ∧
    u.2 = [donor.filter (fun p => p ≠ c), recv ++ [c]]

private def Shape (h w : Nat) (t : Table) : Prop := t.length = h ∧ ∀ row ∈ t, row.length = w

private def Sound (bs : Blocks) (t : Table) : Prop :=
  ∀ (y x : Nat) (v : Int), tblGet t y x = .ok v →
    v = -1 ∨ ∃ (i : Nat) (b : Block), v = (i : Int) ∧ bs[i]? = some b ∧ ((y : Int), (x : Int)) ∈ b

private theorem wrapIdx_ok {n : Nat} {k : Int} {r : Nat} (h : wrapIdx n k = .ok r) (h0 : 0 ≤ k) :
    (r : Int) = k := by
  simp only [wrapIdx, if_neg (show ¬ k < 0 by omega)] at h
  split at h
  · injection h with h; omega
  · cases h

private theorem tblSet_spec {h w : Nat} {t t' : Table} {c : Cell} {v : Int}
    (hs : Shape h w t) (hc : 0 ≤ c.1 ∧ 0 ≤ c.2) (hset : tblSet t c v = .ok t') :
    Shape h w t' ∧ ∀ (y x : Nat) (v' : Int), tblGet t' y x = .ok v' →
      (v' = v ∧ (y : Int) = c.1 ∧ (x : Int) = c.2) ∨ tblGet t y x = .ok v' := by
  unfold tblSet at hset
  cases hy : wrapIdx t.length c.1 with
  | error e => rw [hy] at hset; cases hset
  | ok yy =>
    rw [hy] at hset
    simp only at hset
    cases hrow : t[yy]? with
    | none => rw [hrow] at hset; cases hset
    | some row =>
      rw [hrow] at hset
      simp only at hset
      cases hx : wrapIdx row.length c.2 with
      | error e => rw [hx] at hset; cases hset
      | ok xx =>
        rw [hx] at hset
        simp only at hset
        injection hset with hset
        subst hset
        have hyy := wrapIdx_ok hy hc.1
        have hxx := wrapIdx_ok hx hc.2
        have hrowmem : row ∈ t := List.mem_of_getElem? hrow
        refine ⟨⟨by rw [List.length_set]; exact hs.1, ?_⟩, ?_⟩
        · intro r hr
          rcases List.mem_or_eq_of_mem_set hr with hr | hr
          · exact hs.2 r hr
          · subst hr; rw [List.length_set]; exact hs.2 row hrowmem
        · intro y x v' hget
          unfold tblGet at hget ⊢
          rw [List.getElem?_set] at hget
          by_cases hyeq : yy = y
          · subst hyeq
            rw [if_pos rfl] at hget
            have hlt : yy < t.length := by
              rcases List.getElem?_eq_some_iff.1 hrow with ⟨hlt, _⟩; exact hlt
            rw [if_pos hlt] at hget
            simp only at hget
            rw [List.getElem?_set] at hget
            by_cases hxeq : xx = x
            · subst hxeq
              rw [if_pos rfl] at hget
              split at hget
              · cases hget
              · rename_i v0 heq
                injection hget with hget
                subst hget
                split at heq
                · injection heq with heq
                  left; exact ⟨heq.symm, hyy, hxx⟩
                · cases heq
            · rw [if_neg hxeq] at hget
              right
              rw [hrow]
              exact hget
          · rw [if_neg hyeq] at hget
            right; exact hget

private theorem fillBlock_spec {h w : Nat} {v : Int} :
    ∀ (cs : List Cell) {t t' : Table}, Shape h w t → (∀ c ∈ cs, 0 ≤ c.1 ∧ 0 ≤ c.2) →
      fillBlock v cs t = .ok t' →
      Shape h w t' ∧ ∀ (y x : Nat) (v' : Int), tblGet t' y x = .ok v' →
        (v' = v ∧ ((y : Int), (x : Int)) ∈ cs) ∨ tblGet t y x = .ok v' := by
  intro cs
  induction cs with
  | nil =>
    intro t t' hs _ hf
    simp only [fillBlock] at hf
    injection hf with hf
    subst hf
    exact ⟨hs, fun y x v' hg => Or.inr hg⟩
  | cons c cs ih =>
    intro t t' hs hc hf
    simp only [fillBlock] at hf
    cases hset : tblSet t c v with
    | error e => rw [hset] at hf; cases hf
    | ok t1 =>
      rw [hset] at hf
      simp only at hf
      obtain ⟨hs1, hg1⟩ := tblSet_spec hs (hc c (by simp)) hset
      obtain ⟨hs2, hg2⟩ := ih hs1 (fun c' hc' => hc c' (by simp [hc'])) hf
      refine ⟨hs2, ?_⟩
      intro y x v' hg
      rcases hg2 y x v' hg with ⟨hv, hm⟩ | hg
      · left; exact ⟨hv, by simp [hm]⟩
      · rcases hg1 y x v' hg with ⟨hv, hy, hx⟩ | hg
        · left
          refine ⟨hv, ?_⟩
          have : ((y : Int), (x : Int)) = c := by rw [hy, hx]
          rw [this]; simp
        · right; exact hg

private theorem fillAll_spec {h w : Nat} {bs : Blocks} :
    ∀ (rest : Blocks) (i : Nat) {t t' : Table}, Shape h w t → Sound bs t →
      (∀ (n : Nat) (b : Block), rest[n]? = some b → bs[i + n]? = some b) →
      (∀ b ∈ rest, ∀ c ∈ b, 0 ≤ c.1 ∧ 0 ≤ c.2) →
      fillAll rest i t = .ok t' → Sound bs t' := by
  intro rest
  induction rest with
  | nil =>
    intro i t t' _ hso _ _ hf
    simp only [fillAll] at hf
    injection hf with hf
    subst hf
    exact hso
  | cons b rest ih =>
    intro i t t' hs hso hidx hc hf
    simp only [fillAll] at hf
    cases hfb : fillBlock (i : Int) b t with
    | error e => rw [hfb] at hf; cases hf
    | ok t1 =>
      rw [hfb] at hf
      simp only at hf
      obtain ⟨hs1, hg1⟩ := fillBlock_spec b hs (hc b (by simp)) hfb
      refine ih (i + 1) hs1 ?_ ?_ (fun b' hb' => hc b' (by simp [hb'])) hf
      · intro y x v' hg
        rcases hg1 y x v' hg with ⟨hv, hm⟩ | hg
        · right
          exact ⟨i, b, hv, by simpa using hidx 0 b (by simp), hm⟩
        · exact hso y x v' hg
      · intro n b' hb'
        have := hidx (n + 1) b' (by simpa using hb')
        rw [← this]
        congr 1
        omega

private theorem tblGet_replicate {h w : Nat} {y x : Nat} {v : Int}
    (hg : tblGet (List.replicate h (List.replicate w (-1))) y x = .ok v) : v = -1 := by
  unfold tblGet at hg
  simp only [List.getElem?_replicate] at hg
  split at hg
  · cases hg
  · rename_i row hrow
    split at hrow
    · injection hrow with hrow
      subst hrow
      simp only [List.getElem?_replicate] at hg
      split at hg
      · cases hg
      · rename_i v0 hv0
        injection hg with hg
        subst hg
        split at hv0
        · injection hv0 with hv0; exact hv0.symm
        · cases hv0
    · cases hrow

private theorem buildTable_sound {h w : Nat} {bs : Blocks} {t : Table}
    (hboard : ∀ b ∈ bs, ∀ c ∈ b, InBoard h w c) (hb : buildTable h w bs = .ok t) : Sound bs t := by
  unfold buildTable at hb
  refine fillAll_spec (h := h) (w := w) bs 0 ?_ ?_ ?_ ?_ hb
  · refine ⟨by simp, ?_⟩
    intro row hrow
    rw [List.mem_replicate] at hrow
    rw [hrow.2]; simp
  · intro y x v hg
    left; exact tblGet_replicate hg
  · intro n b hn; simpa using hn
  · intro b hb c hc
    have := hboard b hb c hc
    unfold InBoard at this
    omega

private theorem pyIndex_of_getElem? {bs : Blocks} {i : Nat} {b : Block} (h : bs[i]? = some b) :
    pyIndex bs (i : Int) = .ok b := by
  have hlt : i < bs.length := (List.getElem?_eq_some_iff.1 h).1
  have h0 : ¬ ((i : Int) < 0) := by omega
  simp only [pyIndex, if_neg h0]
  rw [if_pos (by omega)]
  simp only [Int.toNat_natCast, h]

private theorem collectM_mem {α β : Type} {f : α → Py (List β)} :
    ∀ (l : List α) {out : List β}, collectM f l = .ok out →
      ∀ u ∈ out, ∃ a ∈ l, ∃ o, f a = .ok o ∧ u ∈ o := by
  intro l
  induction l with
  | nil =>
    intro out h u hu
    simp only [collectM] at h
    injection h with h
    subst h
    cases hu
  | cons a as ih =>
    intro out h u hu
    simp only [collectM] at h
    cases hfa : f a with
    | error e => rw [hfa] at h; cases h
    | ok xs =>
      rw [hfa] at h
      simp only at h
      cases hrest : collectM f as with
      | error e => rw [hrest] at h; cases h
      | ok ys =>
        rw [hrest] at h
        simp only at h
        injection h with h
        subst h
        rcases List.mem_append.1 hu with hu | hu
        · exact ⟨a, by simp, xs, hfa, hu⟩
        · obtain ⟨a', ha', o, ho, huo⟩ := ih hrest u hu
          exact ⟨a', by simp [ha'], o, ho, huo⟩

private theorem mem_insertPair {p q : Int × Int} :
    ∀ (l : List (Int × Int)), q ∈ insertPair p l → q = p ∨ q ∈ l := by
  intro l
  induction l with
  | nil =>
    intro h
    simp only [insertPair, List.mem_singleton] at h
    exact Or.inl h
  | cons r rs ih =>
    intro h
    simp only [insertPair] at h
    split at h
    · exact Or.inr h
    · split at h
      · rcases List.mem_cons.1 h with h | h
        · exact Or.inl h
        · exact Or.inr h
      · rcases List.mem_cons.1 h with h | h
        · exact Or.inr (by simp [h])
        · rcases ih h with h | h
          · exact Or.inl h
          · exact Or.inr (by simp [h])

private theorem mem_sortPairs {q : Int × Int} :
    ∀ (l : List (Int × Int)), q ∈ sortPairs l → q ∈ l := by
  intro l
  induction l with
  | nil => intro h; simp [sortPairs] at h
  | cons p ps ih =>
    intro h
    simp only [sortPairs] at h
    rcases mem_insertPair _ h with h | h
    · simp [h]
    · simp [ih h]

private theorem idBelow_some {cfg : Cfg} {t : Table} {y x : Nat} {b : Int}
    (h : idBelow cfg t y x = .ok (some b)) : tblGet t (y + 1) x = .ok b := by
  unfold idBelow at h
  split at h
  · cases hg : tblGet t (y + 1) x with
    | error e => rw [hg] at h; cases h
    | ok b' =>
      rw [hg] at h
      simp only at h
      injection h with h
      injection h with h
      rw [h]
  · cases h

private theorem idRight_some {cfg : Cfg} {t : Table} {y x : Nat} {b : Int}
    (h : idRight cfg t y x = .ok (some b)) : tblGet t y (x + 1) = .ok b := by
  unfold idRight at h
  split at h
  · cases hg : tblGet t y (x + 1) with
    | error e => rw [hg] at h; cases h
    | ok b' =>
      rw [hg] at h
      simp only at h
      injection h with h
      injection h with h
      rw [h]
  · cases h

private theorem mergeDir?_some {cfg : Cfg} {bs : Blocks} {a : Int} {nb : Py (Option Int)}
    {l : List (Int × Int)} {q : Int × Int}
    (h : mergeDir? cfg bs a nb = .ok (some l)) (hq : q ∈ l) :
    ∃ b, nb = .ok (some b) ∧ mergeDir cfg bs a b = .ok (some l) := by
  unfold mergeDir? at h
  split at h
  · cases h
  · injection h with h
    injection h with h
    subst h
    cases hq
  · exact ⟨_, rfl, h⟩

/-- A pair of block indices describing a legal merge. -/
private def MergePair (cfg : Cfg) (bs : Blocks) (q : Int × Int) : Prop :=
  ∃ (i j : Nat) (bi bj : Block), i < j ∧ bs[i]? = some bi ∧ bs[j]? = some bj ∧
    (∃ a ∈ bi, ∃ b ∈ bj, Adj4 a b) ∧ (bi.length : Int) + bj.length ≤ cfg.maxSize ∧ q = ((i : Int), (j : Int))

private theorem mergeDir_pair {cfg : Cfg} {bs : Blocks} {i j : Nat} {bi bj : Block} {ca cb : Cell}
    {l : List (Int × Int)} {q : Int × Int}
    (hi : bs[i]? = some bi) (hj : bs[j]? = some bj) (hca : ca ∈ bi) (hcb : cb ∈ bj) (hadj : Adj4 ca cb)
    (h : mergeDir cfg bs (i : Int) (j : Int) = .ok (some l)) (hq : q ∈ l) : MergePair cfg bs q := by
  unfold mergeDir at h
  split at h
  · rename_i hne
    rw [pyIndex_of_getElem? hi, pyIndex_of_getElem? hj] at h
    simp only at h
    split at h
    · cases h
    · rename_i hsz
      injection h with h
      injection h with h
      subst h
      simp only [List.mem_singleton] at hq
      by_cases hlt : (i : Int) < (j : Int)
      · rw [if_pos hlt] at hq
        exact ⟨i, j, bi, bj, by omega, hi, hj, ⟨ca, hca, cb, hcb, hadj⟩, by omega, hq⟩
      · rw [if_neg hlt] at hq
        exact ⟨j, i, bj, bi, by omega, hj, hi, ⟨cb, hcb, ca, hca, hadj.symm⟩, by omega, hq⟩
  · injection h with h
    injection h with h
    subst h
    cases hq

private theorem sound_get {bs : Blocks} {t : Table} (hso : Sound bs t) {y x : Nat} {v : Int}
    (hg : tblGet t y x = .ok v) (hv : v ≠ -1) :
    ∃ (i : Nat) (b : Block), v = (i : Int) ∧ bs[i]? = some b ∧ ((y : Int), (x : Int)) ∈ b := by
  rcases hso y x v hg with h | h
  · exact absurd h hv
  · exact h

private theorem mergeDir_ne {cfg : Cfg} {bs : Blocks} {a b : Int} {l : List (Int × Int)} {q : Int × Int}
    (h : mergeDir cfg bs a b = .ok (some l)) (hq : q ∈ l) : a ≠ b ∧ b ≠ -1 := by
  unfold mergeDir at h
  split at h
  · assumption
  · injection h with h
    injection h with h
    subst h
    cases hq

private theorem mergeAt_pair {cfg : Cfg} {bs : Blocks} {t : Table} (hso : Sound bs t) {p : Nat × Nat}
    {l : List (Int × Int)} {q : Int × Int} (h : mergeAt cfg bs t p = .ok l) (hq : q ∈ l) :
    MergePair cfg bs q := by
  unfold mergeAt at h
  cases hga : tblGet t p.1 p.2 with
  | error e => rw [hga] at h; cases h
  | ok a =>
    rw [hga] at h
    simp only at h
    split at h
    · injection h with h; subst h; cases hq
    · rename_i ha
      obtain ⟨i, bi, hai, hi, hci⟩ := sound_get hso hga ha
      have key : ∀ (nb : Py (Option Int)) (l' : List (Int × Int)) (y' x' : Nat),
          (∀ b, nb = .ok (some b) → tblGet t y' x' = .ok b) →
          Adj4 ((p.1 : Int), (p.2 : Int)) ((y' : Int), (x' : Int)) →
          mergeDir? cfg bs a nb = .ok (some l') → q ∈ l' → MergePair cfg bs q := by
        intro nb l' y' x' hnb hadj hm hql
        obtain ⟨b, hb, hmd⟩ := mergeDir?_some hm hql
        obtain ⟨_, hb1⟩ := mergeDir_ne hmd hql
        obtain ⟨j, bj, hbj, hj, hcj⟩ := sound_get hso (hnb b hb) hb1
        subst hai; subst hbj
        exact mergeDir_pair hi hj hci hcj hadj hmd hql
      have adjB : Adj4 ((p.1 : Int), (p.2 : Int)) (((p.1 + 1 : Nat) : Int), (p.2 : Int)) := by
        unfold Adj4; simp
      have adjR : Adj4 ((p.1 : Int), (p.2 : Int)) ((p.1 : Int), ((p.2 + 1 : Nat) : Int)) := by
        unfold Adj4; simp
      cases hmb : mergeDir? cfg bs a (idBelow cfg t p.1 p.2) with
      | error e => rw [hmb] at h; cases h
      | ok ob =>
        rw [hmb] at h
        cases ob with
        | none => simp only at h; injection h with h; subst h; cases hq
        | some v =>
          simp only at h
          cases hmr : mergeDir? cfg bs a (idRight cfg t p.1 p.2) with
          | error e => rw [hmr] at h; cases h
          | ok orr =>
            rw [hmr] at h
            cases orr with
            | none =>
              simp only at h; injection h with h; subst h
              exact key _ _ _ _ (fun b hb => idBelow_some hb) adjB hmb hq
            | some hz =>
              simp only at h; injection h with h; subst h
              rcases List.mem_append.1 hq with hq | hq
              · exact key _ _ _ _ (fun b hb => idBelow_some hb) adjB hmb hq
              · exact key _ _ _ _ (fun b hb => idRight_some hb) adjR hmr hq

private theorem mergeUpdate_spec {cfg : Cfg} {bs : Blocks} {q : Int × Int} {o : List Update} {u : Update}
    (hq : MergePair cfg bs q) (h : mergeUpdate bs q = .ok o) (hu : u ∈ o)
    (hnum : (bs.length : Int) > cfg.minNum) : IsMergeUpd cfg bs u := by
  obtain ⟨i, j, bi, bj, hij, hi, hj, hadj, hsz, rfl⟩ := hq
  unfold mergeUpdate at h
  simp only [pyIndex_of_getElem? hi, pyIndex_of_getElem? hj] at h
  injection h with h
  subst h
  simp only [List.mem_singleton] at hu
  exact ⟨i, j, bi, bj, hij, hi, hj, hadj, hsz, hnum, hu⟩

private theorem mergeCands_spec {cfg : Cfg} {bs : Blocks} {t : Table} (hso : Sound bs t)
    {us : List Update} {u : Update} (h : mergeCands cfg bs t = .ok us) (hu : u ∈ us)
    (hnum : (bs.length : Int) > cfg.minNum) : IsMergeUpd cfg bs u := by
  unfold mergeCands at h
  cases hc : collectM (mergeAt cfg bs t) (boardCells cfg.height cfg.width) with
  | error e => rw [hc] at h; cases h
  | ok ps =>
    rw [hc] at h
    simp only at h
    obtain ⟨q, hq, o, ho, huo⟩ := collectM_mem _ h u hu
    have hq' := mem_sortPairs _ hq
    obtain ⟨p, _, l, hl, hql⟩ := collectM_mem _ hc q hq'
    exact mergeUpdate_spec (mergeAt_pair hso hl hql) ho huo hnum

private theorem nextSeeds_ne {n : Nat} :
    ∀ (draws : List (Nat × Nat)) {p : Nat × Nat} {rest : List (Nat × Nat)},
      nextSeeds n draws = some (p, rest) → p.1 ≠ p.2 := by
  intro draws
  induction draws with
  | nil => intro p rest h; simp [nextSeeds] at h
  | cons d ds ih =>
    intro p rest h
    simp only [nextSeeds] at h
    split at h
    · split at h
      · rename_i hne
        injection h with h
        injection h with h1 h2
        subst h1
        exact hne
      · exact ih h
    · cases h

private theorem splitBlock_ok {blk : Block} {draws rest : List (Nat × Nat)} {ab : Block × Block}
    (h : splitBlock blk draws = .ok (ab, rest)) :
    ∃ a b : Nat, a ≠ b ∧ splitWith blk a b = .ok ab := by
  unfold splitBlock at h
  split at h
  · cases h
  · cases hn : nextSeeds blk.length draws with
    | none => rw [hn] at h; cases h
    | some pr =>
      obtain ⟨p, r⟩ := pr
      rw [hn] at h
      simp only at h
      cases hs : splitWith blk p.1 p.2 with
      | error e => rw [hs] at h; cases h
      | ok res =>
        rw [hs] at h
        simp only at h
        injection h with h
        injection h with h1 h2
        subst h1
        exact ⟨p.1, p.2, nextSeeds_ne draws hn, hs⟩

/-- What one accepted split attempt on block `blk` with index `i` looks like. -/
private def SplitOf (cfg : Cfg) (i : Nat) (blk : Block) (u : Update) : Prop :=
  ∃ (a b : Nat) (A B : Block), a ≠ b ∧ splitWith blk a b = .ok (A, B) ∧
    cfg.minSize ≤ (A.length : Int) ∧ cfg.minSize ≤ (B.length : Int) ∧ u = ([(i : Int)], [A, B])

private theorem splitAttempts_spec {cfg : Cfg} {i : Nat} {blk : Block} {u : Update} :
    ∀ (m : Nat) {draws rest : List (Nat × Nat)} {us : List Update},
      splitAttempts cfg i blk m draws = .ok (us, rest) → u ∈ us → SplitOf cfg i blk u := by
  intro m
  induction m with
  | zero =>
    intro draws rest us h hu
    simp only [splitAttempts] at h
    injection h with h
    injection h with h1 h2
    subst h1
    cases hu
  | succ m ih =>
    intro draws rest us h hu
    simp only [splitAttempts] at h
    cases hsb : splitBlock blk draws with
    | raised e => rw [hsb] at h; cases h
    | starved => rw [hsb] at h; cases h
    | ok r =>
      obtain ⟨ab, rest1⟩ := r
      rw [hsb] at h
      simp only at h
      cases hsa : splitAttempts cfg i blk m rest1 with
      | raised e => rw [hsa] at h; cases h
      | starved => rw [hsa] at h; cases h
      | ok r2 =>
        obtain ⟨us2, rest2⟩ := r2
        rw [hsa] at h
        simp only at h
        injection h with h
        injection h with h1 h2
        subst h1
        rcases List.mem_append.1 hu with hu | hu
        · split at hu
          · rename_i hg
            simp only [List.mem_singleton] at hu
            obtain ⟨a, b, hab, hsw⟩ := splitBlock_ok hsb
            exact ⟨a, b, ab.1, ab.2, hab, hsw, hg.1, hg.2, hu⟩
          · cases hu
        · exact ih hsa hu

private theorem splitBlocks_spec {cfg : Cfg} {u : Update} :
    ∀ (bl : Blocks) (k : Nat) {draws rest : List (Nat × Nat)} {us : List Update},
      splitBlocks cfg bl k draws = .ok (us, rest) → u ∈ us →
      ∃ (n : Nat) (blk : Block), bl[n]? = some blk ∧ SplitOf cfg (k + n) blk u := by
  intro bl
  induction bl with
  | nil =>
    intro k draws rest us h hu
    simp only [splitBlocks] at h
    injection h with h
    injection h with h1 h2
    subst h1
    cases hu
  | cons blk bl ih =>
    intro k draws rest us h hu
    have shift : (∃ (n : Nat) (b : Block), bl[n]? = some b ∧ SplitOf cfg (k + 1 + n) b u) →
        ∃ (n : Nat) (b : Block), (blk :: bl)[n]? = some b ∧ SplitOf cfg (k + n) b u := by
      rintro ⟨n, b, hb, hs⟩
      refine ⟨n + 1, b, by simpa using hb, ?_⟩
      have : k + (n + 1) = k + 1 + n := by omega
      rw [this]; exact hs
    simp only [splitBlocks] at h
    split at h
    · cases hsa : splitAttempts cfg k blk (2 * (blk.length - 1)) draws with
      | raised e => rw [hsa] at h; cases h
      | starved => rw [hsa] at h; cases h
      | ok r =>
        obtain ⟨us1, rest1⟩ := r
        rw [hsa] at h
        simp only at h
        cases hsb : splitBlocks cfg bl (k + 1) rest1 with
        | raised e => rw [hsb] at h; cases h
        | starved => rw [hsb] at h; cases h
        | ok r2 =>
          obtain ⟨us2, rest2⟩ := r2
          rw [hsb] at h
          simp only at h
          injection h with h
          injection h with h1 h2
          subst h1
          rcases List.mem_append.1 hu with hu | hu
          · exact ⟨0, blk, by simp, splitAttempts_spec _ hsa hu⟩
          · exact shift (ih (k + 1) hsb hu)
    · exact shift (ih (k + 1) h hu)

private theorem moveOne_spec {cfg : Cfg} {excl : List Int} {donor recv : Block} {c : Cell}
    {o : List Update} {u : Update} (h : moveOne cfg excl donor recv c = .ok o) (hu : u ∈ o) :
    (donor.length : Int) > cfg.minSize ∧ (recv.length : Int) < cfg.maxSize ∧
      isConnected cfg.recDepth donor (some c) = .ok true ∧
      u = (excl, [donor.filter (fun p => p ≠ c), recv ++ [c]]) := by
  unfold moveOne at h
  split at h
  · rename_i hg
    cases hc : isConnected cfg.recDepth donor (some c) with
    | error e => rw [hc] at h; cases h
    | ok r =>
      rw [hc] at h
      cases r with
      | true =>
        simp only at h
        injection h with h
        subst h
        simp only [List.mem_singleton] at hu
        exact ⟨hg.1, hg.2, rfl, hu⟩
      | false =>
        simp only at h
        injection h with h
        subst h
        cases hu
  · injection h with h
    subst h
    cases hu

private theorem moveDir_ne {cfg : Cfg} {bs : Blocks} {a b : Int} {ca cb : Cell} {l : List Update} {u : Update}
    (h : moveDir cfg bs a b ca cb = .ok (some l)) (hu : u ∈ l) : a ≠ b ∧ a ≠ -1 ∧ b ≠ -1 := by
  unfold moveDir at h
  split at h
  · rename_i hne
    split at h
    · cases h
    · rename_i hn
      exact ⟨hne, fun h => hn (Or.inl h), fun h => hn (Or.inr h)⟩
  · injection h with h
    injection h with h
    subst h
    cases hu

private theorem moveDir_spec {cfg : Cfg} {bs : Blocks} {i j : Nat} {bi bj : Block} {ca cb : Cell}
    {l : List Update} {u : Update}
    (hi : bs[i]? = some bi) (hj : bs[j]? = some bj) (hca : ca ∈ bi) (hcb : cb ∈ bj) (hadj : Adj4 ca cb)
    (h : moveDir cfg bs (i : Int) (j : Int) ca cb = .ok (some l)) (hu : u ∈ l) : IsMoveUpd cfg bs u := by
  obtain ⟨hne, _, _⟩ := moveDir_ne h hu
  have hij : i ≠ j := by intro hh; apply hne; rw [hh]
  unfold moveDir at h
  rw [if_pos hne] at h
  split at h
  · cases h
  · rw [pyIndex_of_getElem? hi, pyIndex_of_getElem? hj] at h
    simp only at h
    cases h1 : moveOne cfg [(i : Int), (j : Int)] bi bj ca with
    | error e => rw [h1] at h; cases h
    | ok u1 =>
      rw [h1] at h
      simp only at h
      cases h2 : moveOne cfg [(i : Int), (j : Int)] bj bi cb with
      | error e => rw [h2] at h; cases h
      | ok u2 =>
        rw [h2] at h
        simp only at h
        injection h with h
        injection h with h
        subst h
        rcases List.mem_append.1 hu with hu | hu
        · obtain ⟨g1, g2, g3, g4⟩ := moveOne_spec h1 hu
          exact ⟨i, j, bi, bj, ca, cb, hij, hi, hj, hca, hcb, hadj.symm, g1, g2, g3,
            Or.inl (by rw [g4]), by rw [g4]⟩
        · obtain ⟨g1, g2, g3, g4⟩ := moveOne_spec h2 hu
          exact ⟨j, i, bj, bi, cb, ca, hij.symm, hj, hi, hcb, hca, hadj, g1, g2, g3,
            Or.inr (by rw [g4]), by rw [g4]⟩

private theorem moveDir?_some {cfg : Cfg} {bs : Blocks} {a : Int} {nb : Py (Option Int)} {ca cb : Cell}
    {l : List Update} {u : Update}
    (h : moveDir? cfg bs a nb ca cb = .ok (some l)) (hu : u ∈ l) :
    ∃ b, nb = .ok (some b) ∧ moveDir cfg bs a b ca cb = .ok (some l) := by
  unfold moveDir? at h
  split at h
  · cases h
  · injection h with h
    injection h with h
    subst h
    cases hu
  · exact ⟨_, rfl, h⟩

private theorem moveAt_spec {cfg : Cfg} {bs : Blocks} {t : Table} (hso : Sound bs t) {p : Nat × Nat}
    {l : List Update} {u : Update} (h : moveAt cfg bs t p = .ok l) (hu : u ∈ l) :
    IsMoveUpd cfg bs u := by
  unfold moveAt at h
  cases hga : tblGet t p.1 p.2 with
  | error e => rw [hga] at h; cases h
  | ok a =>
    rw [hga] at h
    simp only at h
    have key : ∀ (nb : Py (Option Int)) (l' : List Update) (y' x' : Nat),
        (∀ b, nb = .ok (some b) → tblGet t y' x' = .ok b) →
        Adj4 ((p.1 : Int), (p.2 : Int)) ((y' : Int), (x' : Int)) →
        moveDir? cfg bs a nb ((p.1 : Int), (p.2 : Int)) ((y' : Int), (x' : Int)) = .ok (some l') →
        u ∈ l' → IsMoveUpd cfg bs u := by
      intro nb l' y' x' hnb hadj hm hul
      obtain ⟨b, hb, hmd⟩ := moveDir?_some hm hul
      obtain ⟨_, ha1, hb1⟩ := moveDir_ne hmd hul
      obtain ⟨i, bi, hai, hi, hci⟩ := sound_get hso hga ha1
      obtain ⟨j, bj, hbj, hj, hcj⟩ := sound_get hso (hnb b hb) hb1
      subst hai; subst hbj
      exact moveDir_spec hi hj hci hcj hadj hmd hul
    have eB : ((p.1 : Int) + 1, (p.2 : Int)) = (((p.1 + 1 : Nat) : Int), (p.2 : Int)) := by
      simp
    have eR : ((p.1 : Int), (p.2 : Int) + 1) = ((p.1 : Int), ((p.2 + 1 : Nat) : Int)) := by
      simp
    rw [eB, eR] at h
    have adjB : Adj4 ((p.1 : Int), (p.2 : Int)) (((p.1 + 1 : Nat) : Int), (p.2 : Int)) := by
      unfold Adj4; simp
    have adjR : Adj4 ((p.1 : Int), (p.2 : Int)) ((p.1 : Int), ((p.2 + 1 : Nat) : Int)) := by
      unfold Adj4; simp
    cases hmb : moveDir? cfg bs a (idBelow cfg t p.1 p.2) ((p.1 : Int), (p.2 : Int))
        (((p.1 + 1 : Nat) : Int), (p.2 : Int)) with
    | error e => rw [hmb] at h; cases h
    | ok ob =>
      rw [hmb] at h
      cases ob with
      | none => simp only at h; injection h with h; subst h; cases hu
      | some v =>
        simp only at h
        cases hmr : moveDir? cfg bs a (idRight cfg t p.1 p.2) ((p.1 : Int), (p.2 : Int))
            ((p.1 : Int), ((p.2 + 1 : Nat) : Int)) with
        | error e => rw [hmr] at h; cases h
        | ok orr =>
          rw [hmr] at h
          cases orr with
          | none =>
            simp only at h; injection h with h; subst h
            exact key _ _ _ _ (fun b hb => idBelow_some hb) adjB hmb hu
          | some hz =>
            simp only at h; injection h with h; subst h
            rcases List.mem_append.1 hu with hu | hu
            · exact key _ _ _ _ (fun b hb => idBelow_some hb) adjB hmb hu
            · exact key _ _ _ _ (fun b hb => idRight_some hb) adjR hmr hu

theorem candidates_char {cfg : Cfg} {bs : Blocks} {draws : List (Nat × Nat)} {us : List Update} {u : Update}
    (hboard : ∀ b ∈ bs, ∀ c ∈ b, InBoard cfg.height cfg.width c)
    (h : candidates cfg bs draws = .ok us) (hu : u ∈ us) :
    IsMergeUpd cfg bs u ∨ IsSplitUpd cfg bs u ∨ IsMoveUpd cfg bs u := by
  unfold candidates at h
  cases hbt : buildTable cfg.height cfg.width bs with
  | error e => rw [hbt] at h; cases h
  | ok t =>
    rw [hbt] at h
    simp only at h
    have hso := buildTable_sound hboard hbt
    cases hm : (if (bs.length : Int) > cfg.minNum then mergeCands cfg bs t else .ok []) with
    | error e => rw [hm] at h; cases h
    | ok ms =>
      rw [hm] at h
      simp only at h
      cases hs : (if (bs.length : Int) < cfg.maxNum then splitBlocks cfg bs 0 draws
          else .ok ([], draws)) with
      | raised e => rw [hs] at h; cases h
      | starved => rw [hs] at h; cases h
      | ok ss =>
        rw [hs] at h
        simp only at h
        cases hmv : moveCands cfg bs t with
        | error e => rw [hmv] at h; cases h
        | ok mv =>
          rw [hmv] at h
          simp only at h
          injection h with h
          subst h
          rcases List.mem_append.1 hu with hu | hu
          · rcases List.mem_append.1 hu with hu | hu
            · left
              split at hm
              · rename_i hnum
                exact mergeCands_spec hso hm hu hnum
              · injection hm with hm; subst hm; cases hu
            · right; left
              split at hs
              · rename_i hnum
                obtain ⟨us1, rest⟩ := ss
                obtain ⟨n, blk, hblk, a, b, A, B, hab, hsw, hA, hB, hueq⟩ := splitBlocks_spec bs 0 hs hu
                refine ⟨n, a, b, blk, A, B, hblk, hab, hsw, hA, hB, hnum, ?_⟩
                simpa using hueq
              · injection hs with hs; subst hs; cases hu
          · right; right
            unfold moveCands at hmv
            obtain ⟨p, _, l, hl, hul⟩ := collectM_mem _ hmv u hu
            exact moveAt_spec hso hl hul

end Cspuz.Seg.Proofs
