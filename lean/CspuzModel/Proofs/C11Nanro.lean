/-
  C11 / Nanro — `solve_nanro` posts a program that encodes the published rules (Spec/PuzzleRules/Nanro.lean).
  Parts A (closed form), B (meaning, typing, locality of the pieces); this file: assembly.
-/
import CspuzModel.Proofs.C11NanroB
import CspuzModel.Properties.C04
import CspuzModel.Proofs.C11CellGraph
namespace Cspuz.Proofs.C11Nanro
open Cspuz Cspuz.Spec Cspuz.Puzzles Cspuz.Puzzles.Nanro Cspuz.Spec.Nanro Cspuz.Proofs
open Cspuz.Proofs.C11NanroA Cspuz.Proofs.C11NanroB

variable {pb : Problem} {σ : Asg} {g : Nat → Nat → Int}

/-- The grid a model assigns to the cell variables. -/
def gOf (pb : Problem) (σ : Asg) : Nat → Nat → Int := fun y x => σ.i (cid pb y x)

theorem agrees_gOf (pb : Problem) (σ : Asg) : Agrees pb σ (gOf pb σ) := fun _ _ _ _ => rfl

/-! ### rule 5 -/

theorem avc_iff (hwf : WellFormed pb) (hn : HasNumOk pb σ g) :
    Realizable (pb.height * pb.width + pb.height * pb.width) (avc pb) σ ↔
      CellsConnected pb.height pb.width (fun y x => g y x ≠ 0) := by
  have hreal := Cspuz.C04.C04_aux_exact (Graph.grid pb.height pb.width) (bvars 0 (pb.height * pb.width))
    (pb.height * pb.width + pb.height * pb.width) false (avc pb) σ (C04Prim.grid_wf _ _) (by intro h; cases h)
    (by simp [bvars, Graph.grid]) (hasNum_boolArgs pb) (avc_eq hwf)
  simp only [Bool.false_eq_true, if_false] at hreal
  rw [hreal, C11CellGraph.activeConnected_grid_iff pb.height pb.width _ (fun y x => g y x ≠ 0) (by
    intro y x hy hx
    rw [C11FragWT.truthAt_bvars σ _ _ (C11Grid.cell_lt hy hx), hn y hy x hx]
    simp)]

/-! ### rules 2, 3 -/

theorem regionOk_congr {g g' : Nat → Nat → Int} {b : List (Int × Int)}
    (h : ∀ c ∈ b, g c.1.toNat c.2.toNat = g' c.1.toNat c.2.toNat) : RegionOk g b ↔ RegionOk g' b := by
  have hn : numberedIn g b = numberedIn g' b := by
    unfold numberedIn
    congr 1
    apply List.filter_congr
    intro c hc; rw [h c hc]
  unfold RegionOk
  rw [hn]
  apply and_congr Iff.rfl
  constructor
  · intro h1 c hc; rw [← h c hc]; exact h1 c hc
  · intro h1 c hc; rw [h c hc]; exact h1 c hc

theorem regions_congr (hwf : WellFormed pb) {g g' : Nat → Nat → Int}
    (h : ∀ y, y < pb.height → ∀ x, x < pb.width → g y x = g' y x) :
    (∀ b ∈ pb.blocks, RegionOk g b) ↔ ∀ b ∈ pb.blocks, RegionOk g' b := by
  have : ∀ b ∈ pb.blocks, (RegionOk g b ↔ RegionOk g' b) := by
    intro b hb
    apply regionOk_congr
    intro c hc
    obtain ⟨h1, h2, h3, h4⟩ := block_onBoard hwf hb c hc
    exact h _ (by omega) _ (by omega)
  constructor
  · intro h1 b hb; exact (this b hb).1 (h1 b hb)
  · intro h1 b hb; exact (this b hb).2 (h1 b hb)

/-- The two fragments with hidden variables. -/
def frag (pb : Problem) : Prog := avc pb ++ blocksProg pb

theorem avc_good : ∀ c ∈ (avc pb).cs, wtB c = true ∧
    c.varsBelow (pb.height * pb.width + pb.height * pb.width + (avc pb).decls.length) = true :=
  C11FragWT.avcProg_wt (C04Prim.grid_wf _ _) (by simp [bvars, Graph.grid]) (hasNum_boolArgs pb)

theorem frag_iff (hwf : WellFormed pb) (hag : Agrees pb σ g) :
    Realizable (pb.height * pb.width + pb.height * pb.width) (frag pb) σ ↔
      (Realizable (pb.height * pb.width + pb.height * pb.width) (avc pb) σ ∧ ∀ b ∈ pb.blocks, RegionOk g b) := by
  have := C11Frag.realizable_append (base := pb.height * pb.width + pb.height * pb.width) (p := avc pb)
    (q := blocksProg pb) (Q := fun σ' => ∀ b ∈ pb.blocks, RegionOk (gOf pb σ') b)
    (fun c hc => (avc_good c hc).2)
    (fun σ' => blocks_realizable hwf (agrees_gOf pb σ'))
    (fun σ1 σ2 hab => regions_congr hwf (fun y hy x hx => (hab _ (cid_lt hy hx)).2)) σ
  unfold frag
  rw [this]
  exact and_congr Iff.rfl (regions_congr hwf hag)

/-! ### all rules -/

def loc (pb : Problem) : List Expr := firstCs pb ++ cellsCs pb

theorem sem (hwf : WellFormed pb) (hag : Agrees pb σ g) :
    (Realizable (pb.height * pb.width + pb.height * pb.width) (frag pb) σ ∧
      ∀ c ∈ loc pb, eval σ c = some (.b true)) ↔ (HasNumOk pb σ g ∧ RulesGrid pb g) := by
  have hloc : (∀ c ∈ loc pb, eval σ c = some (.b true)) ↔
      ((∀ c ∈ firstCs pb, eval σ c = some (.b true)) ∧ ∀ c ∈ cellsCs pb, eval σ c = some (.b true)) := by
    simp only [loc, List.mem_append, or_imp, forall_and]
  rw [hloc, frag_iff hwf hag, first_iff hag, cells_iff hag]
  unfold RulesGrid
  constructor
  · rintro ⟨⟨h5, h23⟩, hn, h7, h6, h4a, h4b⟩
    exact ⟨hn, h23, h4a, h4b, (avc_iff hwf hn).1 h5, h6, h7⟩
  · rintro ⟨hn, h23, h4a, h4b, h5, h6, h7⟩
    exact ⟨⟨(avc_iff hwf hn).2 h5, h23⟩, hn, h7, h6, h4a, h4b⟩

/-! ### declarations and keys -/

theorem cellsOf_eq (h w : Nat) : cellsOf h w = (List.range (h * w)).map fun i => (i / w, i % w) :=
  C11Grid.flatMap_range_eq (fun y x => (y, x)) h w

theorem D0_eq (pb : Problem) : D0 pb = List.replicate (pb.height * pb.width) .bool ++
    (List.range (pb.height * pb.width)).map fun i => VarDecl.int 0 (sizeAt pb (i / pb.width) (i % pb.width)) := by
  unfold D0
  rw [cellsOf_eq, List.map_map]
  rfl

theorem D0_length (pb : Problem) : (D0 pb).length = pb.height * pb.width + pb.height * pb.width := by
  rw [D0_eq]; simp

theorem D0_cell (pb : Problem) {i : Nat} (hi : i < pb.height * pb.width) :
    (D0 pb)[pb.height * pb.width + i]? = some (.int 0 (sizeAt pb (i / pb.width) (i % pb.width))) := by
  rw [D0_eq, List.getElem?_append_right (by simp)]
  simp [hi]

theorem keysOf_eq (pb : Problem) :
    keysOf pb = (List.range (pb.height * pb.width)).map fun i => pb.height * pb.width + i := by
  unfold keysOf
  rw [cellsOf_eq, List.map_map]
  apply List.map_congr_left
  intro i _
  simp only [Function.comp]
  rw [Nat.div_add_mod' i pb.width]

theorem cid_div_mod (pb : Problem) (i : Nat) :
    cid pb (i / pb.width) (i % pb.width) = pb.height * pb.width + i := by
  unfold cid; rw [Nat.div_add_mod' i pb.width]

theorem respects_iff (hag : Agrees pb σ g) :
    σ.respects (D0 pb) ↔
      ∀ y, y < pb.height → ∀ x, x < pb.width → 0 ≤ g y x ∧ g y x ≤ (sizeAt pb y x : Int) := by
  constructor
  · intro hr y hy x hx
    have hlt := C11Grid.cell_lt hy hx
    have := hr (cid pb y x) 0 (sizeAt pb y x) (by
      unfold cid
      rw [D0_cell pb hlt, (C11Grid.cell_div_mod hx).1, (C11Grid.cell_div_mod hx).2])
    rwa [hag y hy x hx] at this
  · intro hb id lo hi hd
    rcases Nat.lt_or_ge id (pb.height * pb.width) with hlt | hge
    · rw [D0_eq, List.getElem?_append_left (by simpa using hlt), List.getElem?_replicate, if_pos hlt] at hd
      cases hd
    · obtain ⟨k, rfl⟩ : ∃ k, id = pb.height * pb.width + k := ⟨id - pb.height * pb.width, by omega⟩
      rcases Nat.lt_or_ge k (pb.height * pb.width) with hk | hk
      · rw [D0_cell pb hk] at hd
        simp only [Option.some.injEq, VarDecl.int.injEq] at hd
        obtain ⟨rfl, rfl⟩ := hd
        have hdm := C11Grid.div_lt_of_lt_mul hk
        have := hb _ hdm.1 _ hdm.2
        rwa [← hag _ hdm.1 _ hdm.2, cid_div_mod] at this
      · rw [List.getElem?_eq_none (by rw [D0_length]; omega)] at hd
        cases hd

/-- Rules 2, 3 bound every number by the size of its region (the declared domain of the cell variable). -/
theorem bounds_of_rules (hwf : WellFormed pb) (hg : RulesGrid pb g) :
    ∀ y, y < pb.height → ∀ x, x < pb.width → 0 ≤ g y x ∧ g y x ≤ (sizeAt pb y x : Int) := by
  intro y hy x hx
  obtain ⟨hj, hin⟩ := region_spec hwf hy hx
  have hb := hg.1 _ (List.getElem_mem hj)
  have hs : sizeAt pb y x = pb.blocks[regionOf pb y x].length := by
    unfold sizeAt; rw [← List.getElem_eq_getD (h := hj) []]
  by_cases h0 : g y x = 0
  · rw [h0]; omega
  · have := hb.2 _ hin (by simpa using h0)
    simp only [Int.toNat_natCast] at this
    have hle := numberedIn_le g pb.blocks[regionOf pb y x]
    rw [this, hs]
    omega

theorem keyVals_eq (hag : Agrees pb σ g) :
    (keysOf pb).map (valOf (D0 pb) σ) = (intGrid pb.height pb.width g).map some := by
  unfold intGrid
  rw [keysOf_eq, C11Grid.flatMap_range_eq (fun y x => Val.i (g y x)), List.map_map, List.map_map]
  apply List.map_congr_left
  intro i hi
  have hi' := List.mem_range.mp hi
  have hdm := C11Grid.div_lt_of_lt_mul hi'
  simp only [Function.comp, valOf, D0_cell pb hi']
  rw [← hag _ hdm.1 _ hdm.2, cid_div_mod]

/-! ### the theorem -/

theorem good_loc : ∀ c ∈ loc pb, Good (pb.height * pb.width + pb.height * pb.width) c := by
  intro c hc
  rcases List.mem_append.1 hc with hc | hc
  · exact good_firstCs c hc
  · exact good_cellsCs c hc

theorem encodes (hwf : WellFormed pb) :
    EncodesRules { decls := D0 pb ++ (avc pb).decls ++ (blocksProg pb).decls,
                   cs := firstCs pb ++ (avc pb).cs ++ (blocksProg pb).cs ++ cellsCs pb,
                   keys := keysOf pb } (Rules pb) := by
  have hd : D0 pb ++ (avc pb).decls ++ (blocksProg pb).decls = D0 pb ++ (frag pb).decls := by
    simp [frag, List.append_assoc]
  rw [hd]
  apply C11Frag.encodes_of_realizable (D0 pb) (frag pb) (loc pb) _ (keysOf pb) (Rules pb)
  · intro c
    simp only [frag, loc, C11Frag.prog_append_cs, List.mem_append]
    tauto
  · intro c hc
    rw [D0_length]
    exact (good_loc c hc).2
  · intro k hk
    rw [keysOf_eq] at hk
    simp only [List.mem_map, List.mem_range] at hk
    obtain ⟨i, hi, rfl⟩ := hk
    rw [D0_length]; omega
  · intro a
    rw [D0_length]
    constructor
    · rintro ⟨σ, _, hr, hl, hk⟩
      have hag := agrees_gOf pb σ
      refine ⟨gOf pb σ, ?_, ((sem hwf hag).1 ⟨hr, hl⟩).2⟩
      have hk' : (intGrid pb.height pb.width (gOf pb σ)).map some = a.map some := by
        rw [← keyVals_eq hag]; exact hk
      exact ((List.map_inj_right (fun _ _ e => Option.some.inj e)).mp hk').symm
    · rintro ⟨g, rfl, hg⟩
      let σ : Asg :=
        { b := fun id => g (id / pb.width) (id % pb.width) != 0,
          i := fun id => g ((id - pb.height * pb.width) / pb.width) ((id - pb.height * pb.width) % pb.width) }
      have hag : Agrees pb σ g := by
        intro y _ x hx
        show g ((cid pb y x - pb.height * pb.width) / pb.width) ((cid pb y x - pb.height * pb.width) % pb.width) = g y x
        rw [show cid pb y x - pb.height * pb.width = y * pb.width + x by unfold cid; omega,
          (C11Grid.cell_div_mod hx).1, (C11Grid.cell_div_mod hx).2]
      have hn : HasNumOk pb σ g := by
        intro y _ x hx
        show (g ((y * pb.width + x) / pb.width) ((y * pb.width + x) % pb.width) != 0) = _
        rw [(C11Grid.cell_div_mod hx).1, (C11Grid.cell_div_mod hx).2]
      obtain ⟨hr, hl⟩ := (sem hwf hag).2 ⟨hn, hg⟩
      exact ⟨σ, (respects_iff hag).2 (bounds_of_rules hwf hg), hr, hl, keyVals_eq hag⟩

theorem keysOk (pb : Problem) (decls : List VarDecl) (cs : List Expr) :
    (PuzzleProg.mk (D0 pb ++ decls) cs (keysOf pb)).KeysOk := by
  refine ⟨?_, ?_⟩
  · show (keysOf pb).Nodup
    rw [keysOf_eq]
    exact List.Nodup.map (fun a b h => by omega) List.nodup_range
  · intro k hk
    show k < (D0 pb ++ decls).length
    rw [keysOf_eq] at hk
    simp only [List.mem_map, List.mem_range] at hk
    obtain ⟨i, hi, rfl⟩ := hk
    rw [List.length_append, D0_length]; omega

theorem main (pb : Problem) (hwf : WellFormed pb) (P : PuzzleProg) (hP : program pb = .ok P) :
    EncodesRules P (Rules pb) ∧ P.KeysOk ∧ (∀ c ∈ P.cs, wtB c = true) := by
  rw [program_eq hwf] at hP
  cases hP
  refine ⟨encodes hwf, ?_, ?_⟩
  · rw [List.append_assoc]; exact keysOk pb _ _
  · intro c hc
    simp only [List.mem_append] at hc
    rcases hc with ((hc | hc) | hc) | hc
    · exact (good_firstCs c hc).1
    · exact (avc_good c hc).1
    · exact (good_blocksCs hwf c hc).1
    · exact (good_cellsCs c hc).1

theorem total (pb : Problem) (hwf : WellFormed pb) : ∃ P, program pb = .ok P := ⟨_, program_eq hwf⟩

end Cspuz.Proofs.C11Nanro
