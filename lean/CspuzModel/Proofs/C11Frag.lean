/-
  C11 — generic lemmas for puzzle solvers whose program consists of the caller's variables (allocated
  first), followed by program FRAGMENTS with hidden auxiliary variables (the graph constraints of
  cspuz/graph.py, or a puzzle's own auxiliary arrays) and LOCAL constraints that only mention the
  caller's variables.

  * `satFrag_append`, `realizable_append`: a composite fragment `p ++ q` over disjoint auxiliary
    variables is realizable iff `p` is and `q` is (the realizability of `q` being a condition `Q` on the
    caller's variables).
  * `realizable_nodecls`: a fragment without auxiliary variables is realizable iff its constraints hold.
  * `encodes_of_realizable`: the program `D0 ++ p.decls`, `p.cs ++ loc` with keys among the caller's
    variables encodes `R` as soon as "`D0` respected ∧ `p` realizable ∧ `loc` hold" is equivalent to `R`
    of the key values.
  * `encodes_bool_grid_frag`: the common special case of one Boolean variable per cell, all keys.
-/
import CspuzModel.Spec.C11Spec
import CspuzModel.Spec.PuzzleRules.GridAnswer
import CspuzModel.Proofs.EvalLemmas
import CspuzModel.Proofs.C11Grid
namespace Cspuz.Proofs.C11Frag
open Cspuz Cspuz.Spec Cspuz.Proofs

@[simp] theorem prog_append_decls (p q : Prog) : (p ++ q).decls = p.decls ++ q.decls := rfl
@[simp] theorem prog_append_cs (p q : Prog) : (p ++ q).cs = p.cs ++ q.cs := rfl

theorem AgreeBelow.symm {base : Nat} {σ σ' : Asg} (h : AgreeBelow base σ σ') : AgreeBelow base σ' σ :=
  fun id hid => ⟨(h id hid).1.symm, (h id hid).2.symm⟩

theorem AgreeBelow.trans {base : Nat} {σ σ' σ'' : Asg} (h : AgreeBelow base σ σ') (h' : AgreeBelow base σ' σ'') :
    AgreeBelow base σ σ'' :=
  fun id hid => ⟨(h id hid).1.trans (h' id hid).1, (h id hid).2.trans (h' id hid).2⟩

theorem AgreeBelow.mono {b b' : Nat} {σ σ' : Asg} (hb : b ≤ b') (h : AgreeBelow b' σ σ') : AgreeBelow b σ σ' :=
  fun id hid => h id (Nat.lt_of_lt_of_le hid hb)

/-- `varsBelow` is monotone in the bound. -/
theorem varsBelow_mono {b b' : Nat} (hb : b ≤ b') : ∀ e : Expr, e.varsBelow b = true → e.varsBelow b' = true := by
  intro e
  induction e using Expr.rec (motive_2 := fun l => Expr.varsBelow.varsBelowList b l = true →
      Expr.varsBelow.varsBelowList b' l = true) with
  | bvar id => simp only [Expr.varsBelow, decide_eq_true_eq]; omega
  | ivar id => simp only [Expr.varsBelow, decide_eq_true_eq]; omega
  | litB _ => simp [Expr.varsBelow]
  | litI _ => simp [Expr.varsBelow]
  | litNone => simp [Expr.varsBelow]
  | node op args ih => simpa only [Expr.varsBelow] using ih
  | nil => simp [Expr.varsBelow.varsBelowList]
  | cons e r ihe ihr =>
    rename_i h
    simp only [Expr.varsBelow.varsBelowList, Bool.and_eq_true] at h ⊢
    exact ⟨ihe h.1, ihr h.2⟩

/-- A fragment `p ++ q`: the auxiliary variables of `q` start after those of `p`. -/
theorem satFrag_append (base : Nat) (p q : Prog) (σ : Asg) :
    SatFrag base (p ++ q) σ ↔ SatFrag base p σ ∧ SatFrag (base + p.decls.length) q σ := by
  unfold SatFrag
  simp only [prog_append_decls, prog_append_cs, List.mem_append]
  constructor
  · rintro ⟨hd, hc⟩
    refine ⟨⟨?_, fun c hc' => hc c (Or.inl hc')⟩, ?_, fun c hc' => hc c (Or.inr hc')⟩
    · intro k lo hi hk
      apply hd k lo hi
      have hlt : k < p.decls.length := by
        rcases Nat.lt_or_ge k p.decls.length with h | h
        · exact h
        · rw [List.getElem?_eq_none h] at hk; cases hk
      rw [List.getElem?_append_left hlt]; exact hk
    · intro k lo hi hk
      have := hd (p.decls.length + k) lo hi (by
        rw [List.getElem?_append_right (by omega)]
        rw [show p.decls.length + k - p.decls.length = k by omega]; exact hk)
      rwa [← Nat.add_assoc] at this
  · rintro ⟨⟨hd1, hc1⟩, hd2, hc2⟩
    refine ⟨?_, fun c hc' => hc'.elim (hc1 c) (hc2 c)⟩
    intro k lo hi hk
    rcases Nat.lt_or_ge k p.decls.length with h | h
    · rw [List.getElem?_append_left h] at hk; exact hd1 k lo hi hk
    · rw [List.getElem?_append_right h] at hk
      have := hd2 (k - p.decls.length) lo hi hk
      rwa [show base + p.decls.length + (k - p.decls.length) = base + k by omega] at this

/-- A composite fragment `p ++ q` over disjoint auxiliary variables is realizable iff `p` is realizable and
`q` is, where the realizability of `q` (with `p`'s variables counted among the caller's) is a condition `Q`
that only depends on the original caller's variables. -/
theorem realizable_append {base : Nat} {p q : Prog} {Q : Asg → Prop}
    (hp : ∀ c ∈ p.cs, c.varsBelow (base + p.decls.length) = true)
    (hq : ∀ σ, Realizable (base + p.decls.length) q σ ↔ Q σ)
    (hQ : ∀ σ σ', AgreeBelow base σ σ' → (Q σ ↔ Q σ')) (σ : Asg) :
    Realizable base (p ++ q) σ ↔ Realizable base p σ ∧ Q σ := by
  constructor
  · rintro ⟨σ', hag, hs⟩
    obtain ⟨hs1, hs2⟩ := (satFrag_append base p q σ').1 hs
    refine ⟨⟨σ', hag, hs1⟩, ?_⟩
    have : Q σ' := (hq σ').1 ⟨σ', AgreeBelow.refl _ _, hs2⟩
    exact (hQ σ σ' hag).2 this
  · rintro ⟨⟨σ1, hag1, hs1⟩, hQσ⟩
    have hQ1 : Q σ1 := (hQ σ σ1 hag1).1 hQσ
    obtain ⟨σ2, hag2, hs2⟩ := (hq σ1).2 hQ1
    refine ⟨σ2, AgreeBelow.trans hag1 (AgreeBelow.mono (Nat.le_add_right _ _) hag2), ?_⟩
    rw [satFrag_append]
    refine ⟨⟨?_, ?_⟩, hs2⟩
    · intro k lo hi hk
      have hlt : k < p.decls.length := by
        rcases Nat.lt_or_ge k p.decls.length with h | h
        · exact h
        · rw [List.getElem?_eq_none h] at hk; cases hk
      rw [← (hag2 (base + k) (by omega)).2]
      exact hs1.1 k lo hi hk
    · intro c hc
      rw [← eval_congr_of_varsBelow hag2 c (hp c hc)]
      exact hs1.2 c hc

/-- A fragment without auxiliary variables is realizable iff its constraints hold. -/
theorem realizable_nodecls {base : Nat} {p : Prog} (hd : p.decls = [])
    (hp : ∀ c ∈ p.cs, c.varsBelow base = true) (σ : Asg) :
    Realizable base p σ ↔ ∀ c ∈ p.cs, eval σ c = some (.b true) := by
  constructor
  · rintro ⟨σ', hag, _, hc⟩ c hcm
    rw [eval_congr_of_varsBelow hag c (hp c hcm)]; exact hc c hcm
  · intro h
    refine ⟨σ, AgreeBelow.refl _ _, ?_, h⟩
    intro k lo hi hk
    rw [hd] at hk; simp at hk

/-- Local constraints as a fragment. -/
theorem realizable_local {base : Nat} (loc : List Expr) (hp : ∀ c ∈ loc, c.varsBelow base = true) (σ : Asg) :
    Realizable base { cs := loc } σ ↔ ∀ c ∈ loc, eval σ c = some (.b true) :=
  realizable_nodecls rfl hp σ

/-- Values of the keys only depend on the caller's part of the declarations and of the assignment. -/
theorem keyVals_congr {D0 D1 : List VarDecl} {keys : List Nat} (hk : ∀ k ∈ keys, k < D0.length)
    {σ σ' : Asg} (hag : AgreeBelow D0.length σ σ') :
    keys.map (valOf (D0 ++ D1) σ') = keys.map (valOf D0 σ) := by
  apply List.map_congr_left
  intro k hkm
  have hlt := hk k hkm
  unfold valOf
  rw [List.getElem?_append_left hlt, (hag k hlt).1, (hag k hlt).2]

/-- THE projection lemma.  The program `decls = D0 ++ p.decls`, constraints = those of `p` and the local
ones (in any order), keys among the first `D0.length` variables, encodes `R` provided that for every
assignment of the caller's variables: [`D0` respected ∧ `p` realizable ∧ local constraints hold] determines
`R` on the key values, and every `a` with `R a` arises this way. -/
theorem encodes_of_realizable (D0 : List VarDecl) (p : Prog) (loc cs : List Expr) (keys : List Nat)
    (R : List Val → Prop)
    (hcs : ∀ c, c ∈ cs ↔ c ∈ p.cs ∨ c ∈ loc)
    (hloc : ∀ c ∈ loc, c.varsBelow D0.length = true)
    (hkeys : ∀ k ∈ keys, k < D0.length)
    (hR : ∀ a, (∃ σ, σ.respects D0 ∧ Realizable D0.length p σ ∧ (∀ c ∈ loc, eval σ c = some (.b true)) ∧
                  keys.map (valOf D0 σ) = a.map some) ↔ R a) :
    EncodesRules { decls := D0 ++ p.decls, cs := cs, keys := keys } R := by
  intro a
  rw [← hR a]
  constructor
  · rintro ⟨σ, ⟨hresp, hc⟩, hkv⟩
    refine ⟨σ, ?_, ⟨σ, AgreeBelow.refl _ _, ?_, fun c hcm => hc c ((hcs c).2 (Or.inl hcm))⟩,
      fun c hcm => hc c ((hcs c).2 (Or.inr hcm)), ?_⟩
    · intro id lo hi hd
      apply hresp id lo hi
      have hlt : id < D0.length := by
        rcases Nat.lt_or_ge id D0.length with h | h
        · exact h
        · rw [List.getElem?_eq_none h] at hd; cases hd
      rw [List.getElem?_append_left hlt]; exact hd
    · intro k lo hi hk
      apply hresp (D0.length + k) lo hi
      rw [List.getElem?_append_right (by omega), show D0.length + k - D0.length = k by omega]; exact hk
    · rw [← keyVals_congr (D1 := p.decls) hkeys (AgreeBelow.refl _ σ)]; exact hkv
  · rintro ⟨σ, hresp, ⟨σ', hag, hsd, hsc⟩, hl, hkv⟩
    refine ⟨σ', ⟨?_, ?_⟩, ?_⟩
    · intro id lo hi hd
      rcases Nat.lt_or_ge id D0.length with h | h
      · rw [List.getElem?_append_left h] at hd
        rw [← (hag id h).2]; exact hresp id lo hi hd
      · rw [List.getElem?_append_right h] at hd
        have := hsd (id - D0.length) lo hi hd
        rwa [show D0.length + (id - D0.length) = id by omega] at this
    · intro c hcm
      rcases (hcs c).1 hcm with h | h
      · exact hsc c h
      · rw [← eval_congr_of_varsBelow hag c (hloc c h)]; exact hl c h
    · show keys.map (valOf (D0 ++ p.decls) σ') = a.map some
      rw [keyVals_congr hkeys hag]; exact hkv

/-- One Boolean variable per cell (allocated first, row-major, all of them keys), then a fragment `p` with
hidden auxiliary variables, and local constraints over the cell variables. -/
theorem encodes_bool_grid_frag (h w : Nat) (p : Prog) (loc cs : List Expr) (G : (Nat → Nat → Bool) → Prop)
    (hcs : ∀ c, c ∈ cs ↔ c ∈ p.cs ∨ c ∈ loc)
    (hloc : ∀ c ∈ loc, c.varsBelow (h * w) = true)
    (hG : ∀ (σ : Asg) (g : Nat → Nat → Bool), (∀ y, y < h → ∀ x, x < w → g y x = σ.b (y * w + x)) →
      ((Realizable (h * w) p σ ∧ ∀ c ∈ loc, eval σ c = some (.b true)) ↔ G g)) :
    EncodesRules { decls := List.replicate (h * w) .bool ++ p.decls, cs := cs, keys := List.range (h * w) }
      (fun a => ∃ g, a = boolGrid h w g ∧ G g) := by
  have hlen : (List.replicate (h * w) VarDecl.bool).length = h * w := List.length_replicate
  apply encodes_of_realizable (List.replicate (h * w) .bool) p loc cs (List.range (h * w)) _ hcs
    (by rw [hlen]; exact hloc) (by rw [hlen]; intro k hk; exact List.mem_range.mp hk)
  intro a
  rw [hlen]
  have hval : ∀ (σ : Asg) (i : Nat), i < h * w →
      valOf (List.replicate (h * w) VarDecl.bool) σ i = some (.b (σ.b i)) := by
    intro σ i hi
    unfold valOf
    rw [List.getElem?_replicate, if_pos hi]
  have hkv : ∀ (σ : Asg) (g : Nat → Nat → Bool), (∀ y, y < h → ∀ x, x < w → g y x = σ.b (y * w + x)) →
      (List.range (h * w)).map (valOf (List.replicate (h * w) VarDecl.bool) σ) = (boolGrid h w g).map some := by
    intro σ g hg
    unfold boolGrid
    rw [C11Grid.flatMap_range_eq (fun y x => Val.b (g y x)), List.map_map]
    apply List.map_congr_left
    intro i hi
    have hi' := List.mem_range.mp hi
    rw [hval σ i hi']
    simp only [Function.comp]
    have hdm := C11Grid.div_lt_of_lt_mul hi'
    rw [hg _ hdm.1 _ hdm.2, Nat.div_add_mod' i w]
  constructor
  · rintro ⟨σ, _, hr, hl, hk⟩
    refine ⟨fun y x => σ.b (y * w + x), ?_, (hG σ _ (fun _ _ _ _ => rfl)).1 ⟨hr, hl⟩⟩
    have hk' : (boolGrid h w fun y x => σ.b (y * w + x)).map some = a.map some := by
      rw [← hkv σ _ (fun _ _ _ _ => rfl)]; exact hk
    exact ((List.map_inj_right (fun _ _ e => Option.some.inj e)).mp hk').symm
  · rintro ⟨g, rfl, hg⟩
    let σ : Asg := { b := fun i => g (i / w) (i % w), i := fun _ => 0 }
    have hag : ∀ y, y < h → ∀ x, x < w → g y x = σ.b (y * w + x) := by
      intro y _ x hx
      show g y x = g ((y * w + x) / w) ((y * w + x) % w)
      rw [(C11Grid.cell_div_mod hx).1, (C11Grid.cell_div_mod hx).2]
    obtain ⟨hr, hl⟩ := (hG σ g hag).2 hg
    refine ⟨σ, ?_, hr, hl, hkv σ g hag⟩
    intro id lo hi hd
    rw [List.getElem?_replicate] at hd
    split at hd <;> simp at hd

/-- Keys `0 … n-1` over at least `n` declarations. -/
theorem keysOk_range_le (n : Nat) (decls : List VarDecl) (cs : List Expr) (hd : n ≤ decls.length) :
    (PuzzleProg.mk decls cs (List.range n)).KeysOk := by
  refine ⟨List.nodup_range, ?_⟩
  intro k hk
  simp only [List.mem_range] at hk
  exact Nat.lt_of_lt_of_le hk hd

end Cspuz.Proofs.C11Frag
