/-
  C08, planar lemma: vertical invariance of the ray-casting parity `f` of `C08PlanarDefs`.
  Stepping from the white cell `(y, x)` to the white cell `(y + 1, x)` does not change the parity:
  the edges whose crossing status differs are exactly those with an endpoint in row `y`, column `< x`,
  and every vertex has even degree in `Z`.
-/
import Mathlib.Algebra.BigOperators.Group.Finset.Basic
import CspuzModel.Proofs.C08PlanarDefs
namespace Cspuz.Proofs.C08PlanarVert
open Cspuz Cspuz.Spec SimpleGraph Cspuz.Proofs.C08PlanarDefs

variable {h w : Nat} {act : Nat → Bool}

/-- exclusive or, spelled out -/
def MyXor (A B : Prop) : Prop := (A ∧ ¬ B) ∨ (B ∧ ¬ A)

/-- the vertex is a cell of row `y` in a column `< x` -/
def hit (y x : Nat) : DCell h w → Prop
  | some c => c.1.1 = y ∧ c.2.1 < x
  | none => False

/-- the set of vertices `hit` by row `y`, columns `< x` -/
noncomputable def T (h w y x : Nat) : Finset (DCell h w) := by
  classical exact Finset.univ.filter (hit y x)

theorem mem_T {y x : Nat} {v : DCell h w} : v ∈ T h w y x ↔ hit y x v := by
  classical
  unfold T
  rw [Finset.mem_filter]
  exact ⟨fun hh => hh.2, fun hh => ⟨Finset.mem_univ _, hh⟩⟩

theorem chi_xor {A B R : Prop} (hR : R ↔ MyXor A B) : chi A + chi B = chi R := by
  by_cases hA : A <;> by_cases hB : B
  · have : ¬ R := by rw [hR]; unfold MyXor; tauto
    rw [chi_true hA, chi_true hB, chi_false this, two_zmod]
  · have : R := by rw [hR]; unfold MyXor; tauto
    rw [chi_true hA, chi_false hB, chi_true this, add_zero]
  · have : R := by rw [hR]; unfold MyXor; tauto
    rw [chi_false hA, chi_true hB, chi_true this, zero_add]
  · have : ¬ R := by rw [hR]; unfold MyXor; tauto
    rw [chi_false hA, chi_false hB, chi_false this, add_zero]

theorem chi_or {A B : Prop} (hAB : ¬ (A ∧ B)) : chi (A ∨ B) = chi A + chi B := by
  by_cases hA : A <;> by_cases hB : B
  · exact absurd ⟨hA, hB⟩ hAB
  · rw [chi_true hA, chi_false hB, chi_true (Or.inl hA), add_zero]
  · rw [chi_false hA, chi_true hB, chi_true (Or.inr hB), zero_add]
  · rw [chi_false hA, chi_false hB, chi_false (by tauto), add_zero]

theorem white_ne {r q : Nat} (hw : act (r * w + q) = false) {c : Fin h × Fin w}
    (hc : act (c.1.1 * w + c.2.1) = true) : ¬ (c.1.1 = r ∧ c.2.1 = q) := by
  rintro ⟨e1, e2⟩
  rw [e1, e2, hw] at hc
  cases hc

/-- Step 1, cell–cell edge -/
theorem step1_cc {y x : Nat}
    (h1 : act (y * w + x) = false) (h2 : act ((y + 1) * w + x) = false)
    {c d : Fin h × Fin w} (hab : (diagGraph h w act).Adj (some c) (some d)) :
    (hit y x (some c) ∨ hit y x (some d)) ↔
      MyXor (up y x (some c) (some d) ∨ up y x (some d) (some c))
        (up (y + 1) x (some c) (some d) ∨ up (y + 1) x (some d) (some c)) := by
  have c1 := white_ne h1 hab.1
  have c2 := white_ne h2 hab.1
  have d1 := white_ne h1 hab.2.1
  have d2 := white_ne h2 hab.2.1
  have dg : diagonal c d := hab.2.2
  unfold diagonal at dg
  simp only [hit, up, MyXor]
  omega

/-- Step 1, cell–outside edge -/
theorem step1_cn {y x : Nat} (hy : y + 1 < h) (hx : x < w)
    (h1 : act (y * w + x) = false)
    {c : Fin h × Fin w} (hab : (diagGraph h w act).Adj (some c) none) :
    (hit y x (some c) ∨ hit y x (none : DCell h w)) ↔
      MyXor (up y x (some c) none ∨ up y x none (some c))
        (up (y + 1) x (some c) none ∨ up (y + 1) x none (some c)) := by
  have c1 := white_ne h1 hab.1
  have ob : onBorder c := hab.2
  unfold onBorder at ob
  simp only [hit, up, MyXor, or_false]
  omega

theorem xor_or_comm {A B C D : Prop} : MyXor (A ∨ B) (C ∨ D) ↔ MyXor (B ∨ A) (D ∨ C) := by
  unfold MyXor; tauto

/-- Step 1 for an arbitrary edge -/
theorem step1 {y x : Nat} (hy : y + 1 < h) (hx : x < w)
    (h1 : act (y * w + x) = false) (h2 : act ((y + 1) * w + x) = false)
    {a b : DCell h w} (hab : (diagGraph h w act).Adj a b) :
    (hit y x a ∨ hit y x b) ↔
      MyXor (up y x a b ∨ up y x b a) (up (y + 1) x a b ∨ up (y + 1) x b a) := by
  match a, b, hab with
  | some c, some d, hab => exact step1_cc h1 h2 hab
  | some c, none, hab => exact step1_cn hy hx h1 hab
  | none, some d, hab =>
    rw [or_comm, xor_or_comm]
    exact step1_cn hy hx h1 hab.symm

/-- at most one endpoint of an edge is hit -/
theorem not_both {y x : Nat} {a b : DCell h w} (hab : (diagGraph h w act).Adj a b) :
    ¬ (hit y x a ∧ hit y x b) := by
  match a, b, hab with
  | some c, some d, hab =>
    have dg : diagonal c d := hab.2.2
    unfold diagonal at dg
    simp only [hit]
    omega
  | some c, none, _ => simp only [hit]; tauto
  | none, some d, _ => simp only [hit]; tauto

theorem sum_chi_eq {y x : Nat} (a : DCell h w) :
    ∑ v ∈ T h w y x, chi (v = a) = chi (hit y x a) := by
  by_cases ha : hit y x a
  · rw [chi_true ha, Finset.sum_eq_single a]
    · exact chi_true rfl
    · intro v _ hv
      exact chi_false hv
    · intro hn
      exact absurd (mem_T.2 ha) hn
  · rw [chi_false ha]
    refine Finset.sum_eq_zero fun v hv => chi_false ?_
    rintro rfl
    exact ha (mem_T.1 hv)

/-- Step 2 for one edge -/
theorem step2 {y x : Nat} {a b : DCell h w} (hab : (diagGraph h w act).Adj a b) :
    chi (hit y x a ∨ hit y x b) = ∑ v ∈ T h w y x, chi (v ∈ s(a, b)) := by
  have hne : a ≠ b := hab.ne
  have key : ∀ v : DCell h w, chi (v ∈ s(a, b)) = chi (v = a) + chi (v = b) := by
    intro v
    rw [chi_congr Sym2.mem_iff]
    refine chi_or ?_
    rintro ⟨e1, e2⟩
    exact hne (e1.symm.trans e2)
  rw [Finset.sum_congr rfl fun v _ => key v, Finset.sum_add_distrib, sum_chi_eq, sum_chi_eq]
  exact chi_or (not_both hab)

/-- pointwise statement for the edges of `Z` -/
theorem pointwise {y x : Nat} (hy : y + 1 < h) (hx : x < w)
    (h1 : act (y * w + x) = false) (h2 : act ((y + 1) * w + x) = false)
    {e : Sym2 (DCell h w)} (he : e ∈ (diagGraph h w act).edgeSet) :
    chi (cross y x e) + chi (cross (y + 1) x e) = ∑ v ∈ T h w y x, chi (v ∈ e) := by
  induction e using Sym2.ind with
  | _ a b =>
  rw [mem_edgeSet] at he
  rw [← step2 he]
  refine chi_xor ?_
  rw [cross_mk, cross_mk]
  exact step1 hy hx h1 h2 he

theorem f_vert {h w : Nat} {act : Nat → Bool} {Z : Finset (Sym2 (DCell h w))}
    (hZ : EvenSet h w act Z)
    {y x : Nat} (hy : y + 1 < h) (hx : x < w)
    (h1 : act (y * w + x) = false) (h2 : act ((y + 1) * w + x) = false) :
    f Z (y + 1) x = f Z y x := by
  have hsum : f Z y x + f Z (y + 1) x = 0 := by
    unfold f
    rw [← Finset.sum_add_distrib,
      Finset.sum_congr rfl fun e he => pointwise hy hx h1 h2 (hZ.sub e he), Finset.sum_comm]
    exact Finset.sum_eq_zero fun v _ => hZ.even v
  have hz : ∀ a b : ZMod 2, a + b = 0 → b = a := by decide
  exact hz _ _ hsum

end Cspuz.Proofs.C08PlanarVert
