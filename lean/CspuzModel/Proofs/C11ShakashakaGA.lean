/-
  C11 / shakashaka — geometry, upright case, part A: if an area has a cell side on its boundary (a white quarter in
  the area whose quarter across the cell side is not white) with the area ABOVE the side, then every cell of the area
  is completely white.  (The other three orientations follow by rotation, part B.)
-/
import CspuzModel.Proofs.C11ShakashakaGD
namespace Cspuz.Proofs.C11ShakashakaGA
open Cspuz Cspuz.Spec Cspuz.Spec.Shakashaka Cspuz.Proofs.C11ShakashakaG0 Cspuz.Proofs.C11ShakashakaRect
open Cspuz.Proofs.C11ShakashakaGD

/-! ### pure facts about `AnglesOK` -/

theorem fin8_five : ∀ k : Fin 8, k + 7 = k - 1 ∧ k + 7 + 1 = k ∧ k + 7 + 2 = k + 1 ∧ k + 7 + 3 = k + 2 ∧
    k + 7 + 4 = k + 3 ∧ k + 7 - 1 = k + 6 ∧ k + 6 + 1 = k + 7 ∧ k + 6 + 2 = k ∧ k + 6 + 3 = k + 1 ∧
    k + 6 + 4 = k + 2 ∧ k + 6 - 1 = k + 5 := by decide

/-- Five consecutive white octants force all eight. -/
theorem angles_all_of_five {o : Fin 8 → Prop} (h : AnglesOK o) (k : Fin 8) (h0 : o k) (h1 : o (k + 1))
    (h2 : o (k + 2)) (h3 : o (k + 3)) (h4 : o (k + 4)) : ∀ i, o i := by
  have h' := h
  rcases h with h | h
  · exact h
  · obtain ⟨e1, e2, e3, e4, e5, e6, e7, e8, e9, e10, e11⟩ := fin8_five k
    have h7 : o (k + 7) := by
      by_contra hn
      rcases h k h0 (by rw [← e1]; exact hn) with ⟨_, hx⟩ | ⟨_, _, _, hx⟩
      · exact hx h2
      · exact hx h4
    have h6 : o (k + 6) := by
      by_contra hn
      have := h (k + 7) h7 (by rw [e6]; exact hn)
      rw [e2, e3, e4, e5] at this
      rcases this with ⟨_, hx⟩ | ⟨_, _, _, hx⟩
      · exact hx h1
      · exact hx h3
    have h5 : o (k + 5) := by
      by_contra hn
      have := h (k + 6) h6 (by rw [e11]; exact hn)
      rw [e7, e8, e9, e10] at this
      rcases this with ⟨_, hx⟩ | ⟨_, _, _, hx⟩
      · exact hx h0
      · exact hx h2
    exact angles_all_of_six h' k h0 h1 h2 h3 h4 h5

/-- A white run that starts at `i` has length 2 or 4. -/
theorem run_start {o : Fin 8 → Prop} (h : AnglesOK o) (i : Fin 8) (hi : o i) (hn : ¬ o (i - 1)) :
    o (i + 1) ∧ (¬ o (i + 2) ∨ (o (i + 2) ∧ o (i + 3) ∧ ¬ o (i + 4))) := by
  rcases h with h | h
  · exact absurd (h _) hn
  · rcases h i hi hn with ⟨a, b⟩ | ⟨a, b, c, d⟩
    · exact ⟨a, Or.inl b⟩
    · exact ⟨a, Or.inr ⟨b, c, d⟩⟩

theorem fin8_end : ∀ j : Fin 8, j - 1 + 1 = j ∧ j - 1 - 1 = j - 2 ∧ j - 2 + 1 = j - 1 ∧ j - 2 + 2 = j ∧ j - 2 + 3 = j + 1 ∧
    j - 2 - 1 = j - 3 ∧ j - 4 + 2 = j - 2 ∧ j - 4 + 4 = j ∧ j - 4 - 1 = j - 5 ∧ j - 5 + 2 = j - 3 ∧ j - 5 + 4 = j - 1 ∧
    j - 5 - 1 = j - 6 ∧ j - 6 + 2 = j - 4 ∧ j - 6 + 4 = j - 2 ∧ j - 6 - 1 = j + 1 ∧ j - 3 - 1 = j - 4 ∧ j - 3 + 1 = j - 2
    ∧ j - 3 + 2 = j - 1 ∧ j - 3 + 3 = j ∧ j - 3 + 4 = j + 1 := by decide

/-- A white run that ends at `j` has length 2 or 4. -/
theorem run_end {o : Fin 8 → Prop} (h : AnglesOK o) (j : Fin 8) (hj : o j) (hn : ¬ o (j + 1)) :
    o (j - 1) ∧ (¬ o (j - 2) ∨ (o (j - 2) ∧ o (j - 3) ∧ ¬ o (j - 4))) := by
  rcases h with h | h
  · exact absurd (h _) hn
  · obtain ⟨e1, e2, e3, e4, e5, e6, e7, e8, e9, e10, e11, e12, e13, e14, e15, e16, e17, e18, e19, e20⟩ := fin8_end j
    have a1 : o (j - 1) := by
      by_contra hx
      rcases h j hj hx with ⟨a, _⟩ | ⟨a, _⟩ <;> exact hn a
    refine ⟨a1, ?_⟩
    by_cases a2 : o (j - 2)
    · right
      have a3 : o (j - 3) := by
        by_contra hx
        have := h (j - 2) a2 (by rw [e6]; exact hx)
        rw [e3, e4, e5] at this
        rcases this with ⟨_, b⟩ | ⟨_, _, b, _⟩
        · exact b hj
        · exact hn b
      refine ⟨a2, a3, ?_⟩
      intro a4
      have a5 : o (j - 5) := by
        by_contra hx
        have := h (j - 4) a4 (by rw [e9]; exact hx)
        rw [e7, e8] at this
        rcases this with ⟨_, b⟩ | ⟨_, _, _, b⟩
        · exact b a2
        · exact b hj
      have a6 : o (j - 6) := by
        by_contra hx
        have := h (j - 5) a5 (by rw [e12]; exact hx)
        rw [e10, e11] at this
        rcases this with ⟨_, b⟩ | ⟨_, _, _, b⟩
        · exact b a3
        · exact b a1
      have := h (j - 6) a6 (by rw [e15]; exact hn)
      rw [e13, e14] at this
      rcases this with ⟨_, b⟩ | ⟨_, _, _, b⟩
      · exact b a4
      · exact b a2
    · exact Or.inl a2

end Cspuz.Proofs.C11ShakashakaGA
