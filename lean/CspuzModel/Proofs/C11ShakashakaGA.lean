/-
  C11 / shakashaka — geometry, upright case, part A: if an area has a cell side on its boundary (a white quarter in
  the area whose quarter across the cell side is not white) with the area ABOVE the side, then every cell of the area
  is completely white.  (The other three orientations follow by rotation, part B.)
-/
import CspuzModel.Proofs.C11ShakashakaGD
namespace Cspuz.Proofs.C11ShakashakaGA
open Cspuz Cspuz.Spec Cspuz.Spec.Shakashaka Cspuz.Proofs.C11ShakashakaG0 Cspuz.Proofs.C11ShakashakaRect
open Cspuz.Proofs.C11ShakashakaGD

/-! ### pure facts about `AnglesOK` -/

theorem fin8_five : ∀ k : Fin 8, k + 7 = k - 1 ∧ k + 7 + 1 = k ∧ k + 7 + 2 = k + 1 ∧ k + 7 + 3 = k + 2 ∧
    k + 7 + 4 = k + 3 ∧ k + 7 - 1 = k + 6 ∧ k + 6 + 1 = k + 7 ∧ k + 6 + 2 = k ∧ k + 6 + 3 = k + 1 ∧
    k + 6 + 4 = k + 2 ∧ k + 6 - 1 = k + 5 := by decide

/-- Five consecutive white octants force all eight. -/
theorem angles_all_of_five {o : Fin 8 → Prop} (h : AnglesOK o) (k : Fin 8) (h0 : o k) (h1 : o (k + 1))
    (h2 : o (k + 2)) (h3 : o (k + 3)) (h4 : o (k + 4)) : ∀ i, o i := by
  have h' := h
  rcases h with h | h
  · exact h
  · obtain ⟨e1, e2, e3, e4, e5, e6, e7, e8, e9, e10, e11⟩ := fin8_five k
    have h7 : o (k + 7) := by
      by_contra hn
      rcases h k h0 (by rw [← e1]; exact hn) with ⟨_, hx⟩ | ⟨_, _, _, hx⟩
      · exact hx h2
      · exact hx h4
    have h6 : o (k + 6) := by
      by_contra hn
      have := h (k + 7) h7 (by rw [e6]; exact hn)
      rw [e2, e3, e4, e5] at this
      rcases this with ⟨_, hx⟩ | ⟨_, _, _, hx⟩
      · exact hx h1
      · exact hx h3
    have h5 : o (k + 5) := by
      by_contra hn
      have := h (k + 6) h6 (by rw [e11]; exact hn)
      rw [e7, e8, e9, e10] at this
      rcases this with ⟨_, hx⟩ | ⟨_, _, _, hx⟩
      · exact hx h0
      · exact hx h2
    exact angles_all_of_six h' k h0 h1 h2 h3 h4 h5

/-- A white run that starts at `i` has length 2 or 4. -/
theorem run_start {o : Fin 8 → Prop} (h : AnglesOK o) (i : Fin 8) (hi : o i) (hn : ¬ o (i - 1)) :
    o (i + 1) ∧ (¬ o (i + 2) ∨ (o (i + 2) ∧ o (i + 3) ∧ ¬ o (i + 4))) := by
  rcases h with h | h
  · exact absurd (h _) hn
  · rcases h i hi hn with ⟨a, b⟩ | ⟨a, b, c, d⟩
    · exact ⟨a, Or.inl b⟩
    · exact ⟨a, Or.inr ⟨b, c, d⟩⟩

theorem fin8_end : ∀ j : Fin 8, j - 1 + 1 = j ∧ j - 1 - 1 = j - 2 ∧ j - 2 + 1 = j - 1 ∧ j - 2 + 2 = j ∧ j - 2 + 3 = j + 1 ∧
    j - 2 - 1 = j - 3 ∧ j - 4 + 2 = j - 2 ∧ j - 4 + 4 = j ∧ j - 4 - 1 = j - 5 ∧ j - 5 + 2 = j - 3 ∧ j - 5 + 4 = j - 1 ∧
    j - 5 - 1 = j - 6 ∧ j - 6 + 2 = j - 4 ∧ j - 6 + 4 = j - 2 ∧ j - 6 - 1 = j + 1 ∧ j - 3 - 1 = j - 4 ∧ j - 3 + 1 = j - 2
    ∧ j - 3 + 2 = j - 1 ∧ j - 3 + 3 = j ∧ j - 3 + 4 = j + 1 := by decide

/-- A white run that ends at `j` has length 2 or 4. -/
theorem run_end {o : Fin 8 → Prop} (h : AnglesOK o) (j : Fin 8) (hj : o j) (hn : ¬ o (j + 1)) :
    o (j - 1) ∧ (¬ o (j - 2) ∨ (o (j - 2) ∧ o (j - 3) ∧ ¬ o (j - 4))) := by
  rcases h with h | h
  · exact absurd (h _) hn
  · obtain ⟨e1, e2, e3, e4, e5, e6, e7, e8, e9, e10, e11, e12, e13, e14, e15, e16, e17, e18, e19, e20⟩ := fin8_end j
    have a1 : o (j - 1) := by
      by_contra hx
      rcases h j hj hx with ⟨a, _⟩ | ⟨a, _⟩ <;> exact hn a
    refine ⟨a1, ?_⟩
    by_cases a2 : o (j - 2)
    · right
      have a3 : o (j - 3) := by
        by_contra hx
        have := h (j - 2) a2 (by rw [e6]; exact hx)
        rw [e3, e4, e5] at this
        rcases this with ⟨_, b⟩ | ⟨_, _, b, _⟩
        · exact b hj
        · exact hn b
      refine ⟨a2, a3, ?_⟩
      intro a4
      have a5 : o (j - 5) := by
        by_contra hx
        have := h (j - 4) a4 (by rw [e9]; exact hx)
        rw [e7, e8] at this
        rcases this with ⟨_, b⟩ | ⟨_, _, _, b⟩
        · exact b a2
        · exact b hj
      have a6 : o (j - 6) := by
        by_contra hx
        have := h (j - 5) a5 (by rw [e12]; exact hx)
        rw [e10, e11] at this
        rcases this with ⟨_, b⟩ | ⟨_, _, _, b⟩
        · exact b a3
        · exact b a1
      have := h (j - 6) a6 (by rw [e15]; exact hn)
      rw [e13, e14] at this
      rcases this with ⟨_, b⟩ | ⟨_, _, _, b⟩
      · exact b a4
      · exact b a2
    · exact Or.inl a2

/-! ### the eight quarters around a grid point, named from its NW cell `(y, x)` -/

def oAt (W : Quarter → Prop) (y x : Int) : Fin 8 → Prop
  | 0 => W ⟨y, x, 1⟩
  | 1 => W ⟨y, x, 2⟩
  | 2 => W ⟨y + 1, x, 0⟩
  | 3 => W ⟨y + 1, x, 1⟩
  | 4 => W ⟨y + 1, x + 1, 3⟩
  | 5 => W ⟨y + 1, x + 1, 0⟩
  | 6 => W ⟨y, x + 1, 2⟩
  | 7 => W ⟨y, x + 1, 3⟩

theorem anglesAt {W : Quarter → Prop} (ha : Angles W) (y x : Int) : AnglesOK (oAt W y x) := by
  have h := ha (y + 1) (x + 1)
  have e : (fun i => W (octant (y + 1) (x + 1) i)) = oAt W y x := by
    funext i
    fin_cases i <;> simp [oAt, octant]
  rw [e] at h
  exact h

def Full (W : Quarter → Prop) (y x : Int) : Prop := ∀ q, W ⟨y, x, q⟩

section
variable {W : Quarter → Prop}

theorem p1 (ha : Angles W) (y x : Int) (h1 : W ⟨y, x, 2⟩) (h2 : ¬ W ⟨y + 1, x, 0⟩) :
    W ⟨y, x, 1⟩ ∧ (W ⟨y, x + 1, 3⟩ → W ⟨y, x + 1, 2⟩ ∧ ¬ W ⟨y + 1, x + 1, 0⟩) := by
  obtain ⟨a, b⟩ := run_end (anglesAt ha y x) 1 h1 h2
  refine ⟨a, fun h7 => ?_⟩
  rcases b with b | ⟨_, b, c⟩
  · exact absurd h7 b
  · exact ⟨b, c⟩

theorem p2 (ha : Angles W) (y x : Int) (h6 : W ⟨y, x + 1, 2⟩) (h5 : ¬ W ⟨y + 1, x + 1, 0⟩) :
    W ⟨y, x + 1, 3⟩ ∧ (W ⟨y, x, 1⟩ → W ⟨y, x, 2⟩ ∧ ¬ W ⟨y + 1, x, 0⟩) := by
  obtain ⟨a, b⟩ := run_start (anglesAt ha y x) 6 h6 h5
  refine ⟨a, fun h0 => ?_⟩
  rcases b with b | ⟨_, b, c⟩
  · exact absurd h0 b
  · exact ⟨b, c⟩

theorem p3 (ha : Angles W) (y x : Int) (f1 : Full W y x) (f2 : Full W y (x + 1)) (h2 : W ⟨y + 1, x, 0⟩) :
    ∀ i, oAt W y x i :=
  angles_all_of_five (anglesAt ha y x) 6 (f2 2) (f2 3) (f1 1) (f1 2) h2

theorem p4 (ha : Angles W) (y x : Int) (f1 : Full W y x) (f2 : Full W y (x + 1)) (h5 : W ⟨y + 1, x + 1, 0⟩) :
    ∀ i, oAt W y x i :=
  angles_all_of_five (anglesAt ha y x) 5 h5 (f2 2) (f2 3) (f1 1) (f1 2)

theorem p5 (ha : Angles W) (y x : Int) (h0 : ¬ W ⟨y, x, 1⟩) (f2 : Full W y (x + 1)) (h5 : W ⟨y + 1, x + 1, 0⟩) :
    W ⟨y + 1, x + 1, 3⟩ ∧ ¬ W ⟨y + 1, x, 1⟩ := by
  obtain ⟨_, b⟩ := run_end (anglesAt ha y x) 7 (f2 3) h0
  rcases b with b | ⟨_, b, c⟩
  · exact absurd h5 b
  · exact ⟨b, c⟩

theorem p6 (ha : Angles W) (y x : Int) (h7 : ¬ W ⟨y, x + 1, 3⟩) (f1 : Full W y x) (h2 : W ⟨y + 1, x, 0⟩) :
    W ⟨y + 1, x, 1⟩ ∧ ¬ W ⟨y + 1, x + 1, 3⟩ := by
  obtain ⟨_, b⟩ := run_start (anglesAt ha y x) 0 (f1 1) h7
  rcases b with b | ⟨_, b, c⟩
  · exact absurd h2 b
  · exact ⟨b, c⟩

theorem p3' (ha : Angles W) (y x : Int) (f1 : Full W (y + 1) x) (f2 : Full W (y + 1) (x + 1)) (h1 : W ⟨y, x, 2⟩) :
    ∀ i, oAt W y x i :=
  angles_all_of_five (anglesAt ha y x) 1 h1 (f1 0) (f1 1) (f2 3) (f2 0)

theorem p4' (ha : Angles W) (y x : Int) (f1 : Full W (y + 1) x) (f2 : Full W (y + 1) (x + 1))
    (h6 : W ⟨y, x + 1, 2⟩) : ∀ i, oAt W y x i :=
  angles_all_of_five (anglesAt ha y x) 2 (f1 0) (f1 1) (f2 3) (f2 0) h6

theorem p5' (ha : Angles W) (y x : Int) (h3 : ¬ W ⟨y + 1, x, 1⟩) (f2 : Full W (y + 1) (x + 1))
    (h6 : W ⟨y, x + 1, 2⟩) : W ⟨y, x + 1, 3⟩ ∧ ¬ W ⟨y, x, 1⟩ := by
  obtain ⟨_, b⟩ := run_start (anglesAt ha y x) 4 (f2 3) h3
  rcases b with b | ⟨_, b, c⟩
  · exact absurd h6 b
  · exact ⟨b, c⟩

theorem p6' (ha : Angles W) (y x : Int) (h4 : ¬ W ⟨y + 1, x + 1, 3⟩) (f1 : Full W (y + 1) x)
    (h1 : W ⟨y, x, 2⟩) : W ⟨y, x, 1⟩ ∧ ¬ W ⟨y, x + 1, 3⟩ := by
  obtain ⟨_, b⟩ := run_end (anglesAt ha y x) 3 (f1 1) h4
  rcases b with b | ⟨_, b, c⟩
  · exact absurd h1 b
  · exact ⟨b, c⟩

end

/-! ### rows -/

/-- The bottom side of cell `(y, x)` lies on the boundary of a white area, the area above it. -/
def BotB (W : Quarter → Prop) (y x : Int) : Prop := W ⟨y, x, 2⟩ ∧ ¬ W ⟨y + 1, x, 0⟩

/-- The cells `a .. b` of row `y` are completely white, the row is closed at both ends, `x` is one of them. -/
def RowGood (W : Quarter → Prop) (a b y x : Int) : Prop :=
  a ≤ x ∧ x ≤ b ∧ (∀ x', a ≤ x' → x' ≤ b → Full W y x') ∧ ¬ W ⟨y, a - 1, 1⟩ ∧ ¬ W ⟨y, b + 1, 3⟩

section
variable {W : Quarter → Prop}

theorem botB_left (ha : Angles W) (y x : Int) (h : BotB W y x) :
    W ⟨y, x, 3⟩ ∧ (W ⟨y, x - 1, 1⟩ → BotB W y (x - 1)) := by
  have key := p2 ha y (x - 1)
  have e : x - 1 + 1 = x := by omega
  rw [e] at key
  exact key h.1 h.2

theorem botB_right (ha : Angles W) (y x : Int) (h : BotB W y x) :
    W ⟨y, x, 1⟩ ∧ (W ⟨y, x + 1, 3⟩ → BotB W y (x + 1)) := p1 ha y x h.1 h.2

theorem botB_full (hc : CellPattern W) (ha : Angles W) (y x : Int) (h : BotB W y x) : Full W y x :=
  cell_all_of_opposite hc y x 1 (botB_right ha y x h).1 (botB_left ha y x h).1

theorem rowGood_seed (hc : CellPattern W) (hb : Bounded W) (ha : Angles W) (y x : Int) (h : BotB W y x) :
    ∃ a b, RowGood W a b y x := by
  obtain ⟨B, hB⟩ := hb
  obtain ⟨b, hb1, hb2, hb3⟩ := run_right (BotB W y) B (fun z hz => (hB _ hz.1).2.2.2) (B - x).toNat x (by omega) h
  obtain ⟨a, ha1, ha2, ha3⟩ := run_left (BotB W y) B (fun z hz => (hB _ hz.1).2.2.1) x h
  refine ⟨a, b, ha1, hb1, ?_, ?_, ?_⟩
  · intro x' h1 h2
    by_cases hx : x' ≤ x
    · exact botB_full hc ha y x' (ha2 x' h1 hx)
    · exact botB_full hc ha y x' (hb2 x' (by omega) h2)
  · intro hw
    exact ha3 ((botB_left ha y a (ha2 a (le_refl _) ha1)).2 hw)
  · intro hw
    exact hb3 ((botB_right ha y b (hb2 b hb1 (le_refl _))).2 hw)

theorem rowGood_down (hc : CellPattern W) (ha : Angles W) (a b y x : Int) (h : RowGood W a b y x)
    (h0 : W ⟨y + 1, x, 0⟩) : RowGood W a b (y + 1) x := by
  obtain ⟨h1, h2, hF, hl, hr⟩ := h
  have hN : ∀ x', a ≤ x' → x' ≤ b → W ⟨y + 1, x', 0⟩ := by
    intro x' ha' hb'
    by_cases hx : x ≤ x'
    · refine int_up (fun z => W ⟨y + 1, z, 0⟩) x b h0 ?_ x' hx hb'
      intro z hz1 hz2 hz
      exact p3 ha y z (hF z (by omega) (by omega)) (hF (z + 1) (by omega) (by omega)) hz 5
    · refine int_down (fun z => W ⟨y + 1, z, 0⟩) x a h0 ?_ x' (by omega) ha'
      intro z hz1 hz2 hz
      have key := p4 ha y (z - 1)
      have e : z - 1 + 1 = z := by omega
      rw [e] at key
      exact key (hF (z - 1) (by omega) (by omega)) (hF z (by omega) (by omega)) hz 2
  have hWq : ∀ x', a ≤ x' → x' ≤ b → W ⟨y + 1, x', 3⟩ ∧ (x' = a → ¬ W ⟨y + 1, a - 1, 1⟩) := by
    intro x' ha' hb'
    have e : x' - 1 + 1 = x' := by omega
    by_cases hx : a < x'
    · have key := p4 ha y (x' - 1)
      rw [e] at key
      have t := key (hF (x' - 1) (by omega) (by omega)) (hF x' ha' hb') (hN x' ha' hb') 4
      change W ⟨y + 1, x' - 1 + 1, 3⟩ at t
      rw [e] at t
      exact ⟨t, fun h => by omega⟩
    · have hxa : x' = a := by omega
      subst hxa
      have key := p5 ha y (x' - 1)
      rw [e] at key
      have := key hl (hF x' ha' hb') (hN x' ha' hb')
      exact ⟨this.1, fun _ => this.2⟩
  have hEq : ∀ x', a ≤ x' → x' ≤ b → W ⟨y + 1, x', 1⟩ ∧ (x' = b → ¬ W ⟨y + 1, b + 1, 3⟩) := by
    intro x' ha' hb'
    by_cases hx : x' < b
    · exact ⟨p3 ha y x' (hF x' ha' hb') (hF (x' + 1) (by omega) (by omega)) (hN x' ha' hb') 3, fun h => by omega⟩
    · have hxb : x' = b := by omega
      subst hxb
      have := p6 ha y x' hr (hF x' ha' hb') (hN x' ha' hb')
      exact ⟨this.1, fun _ => this.2⟩
  refine ⟨h1, h2, ?_, (hWq a (le_refl _) (by omega)).2 rfl, (hEq b (by omega) (le_refl _)).2 rfl⟩
  intro x' ha' hb'
  exact cell_all_of_opposite hc (y + 1) x' 1 (hEq x' ha' hb').1 (hWq x' ha' hb').1

theorem rowGood_up (hc : CellPattern W) (ha : Angles W) (a b y x : Int) (h : RowGood W a b (y + 1) x)
    (h0 : W ⟨y, x, 2⟩) : RowGood W a b y x := by
  obtain ⟨h1, h2, hF, hl, hr⟩ := h
  have hS : ∀ x', a ≤ x' → x' ≤ b → W ⟨y, x', 2⟩ := by
    intro x' ha' hb'
    by_cases hx : x ≤ x'
    · refine int_up (fun z => W ⟨y, z, 2⟩) x b h0 ?_ x' hx hb'
      intro z hz1 hz2 hz
      exact p3' ha y z (hF z (by omega) (by omega)) (hF (z + 1) (by omega) (by omega)) hz 6
    · refine int_down (fun z => W ⟨y, z, 2⟩) x a h0 ?_ x' (by omega) ha'
      intro z hz1 hz2 hz
      have key := p4' ha y (z - 1)
      have e : z - 1 + 1 = z := by omega
      rw [e] at key
      exact key (hF (z - 1) (by omega) (by omega)) (hF z (by omega) (by omega)) hz 1
  have hWq : ∀ x', a ≤ x' → x' ≤ b → W ⟨y, x', 3⟩ ∧ (x' = a → ¬ W ⟨y, a - 1, 1⟩) := by
    intro x' ha' hb'
    have e : x' - 1 + 1 = x' := by omega
    by_cases hx : a < x'
    · have key := p4' ha y (x' - 1)
      rw [e] at key
      have t := key (hF (x' - 1) (by omega) (by omega)) (hF x' ha' hb') (hS x' ha' hb') 7
      change W ⟨y, x' - 1 + 1, 3⟩ at t
      rw [e] at t
      exact ⟨t, fun h => by omega⟩
    · have hxa : x' = a := by omega
      subst hxa
      have key := p5' ha y (x' - 1)
      rw [e] at key
      have := key hl (hF x' ha' hb') (hS x' ha' hb')
      exact ⟨this.1, fun _ => this.2⟩
  have hEq : ∀ x', a ≤ x' → x' ≤ b → W ⟨y, x', 1⟩ ∧ (x' = b → ¬ W ⟨y, b + 1, 3⟩) := by
    intro x' ha' hb'
    by_cases hx : x' < b
    · exact ⟨p3' ha y x' (hF x' ha' hb') (hF (x' + 1) (by omega) (by omega)) (hS x' ha' hb') 0, fun h => by omega⟩
    · have hxb : x' = b := by omega
      subst hxb
      have := p6' ha y x' hr (hF x' ha' hb') (hS x' ha' hb')
      exact ⟨this.1, fun _ => this.2⟩
  refine ⟨h1, h2, ?_, (hWq a (le_refl _) (by omega)).2 rfl, (hEq b (by omega) (le_refl _)).2 rfl⟩
  intro x' ha' hb'
  exact cell_all_of_opposite hc y x' 1 (hEq x' ha' hb').1 (hWq x' ha' hb').1

end

section
variable {W : Quarter → Prop}

/-- `RowGood a b` is invariant along an area. -/
theorem rowGood_inv (hc : CellPattern W) (ha : Angles W) (a b : Int) {s t : Quarter}
    (h : RowGood W a b s.y s.x) (hst : Comp W s t) : RowGood W a b t.y t.x := by
  induction hst with
  | refl => exact h
  | @tail u v _ huv ih =>
    obtain ⟨_, hv, ht⟩ := huv
    rcases ht with ⟨e1, e2, _⟩ | e
    · rw [← e1, ← e2]; exact ih
    · subst e
      obtain ⟨y, x, q⟩ := u
      obtain ⟨h1, h2, hF, hl, hr⟩ := ih
      simp only at h1 h2 hF hl hr
      fin_cases q
      · show RowGood W a b (y - 1) x
        have key := rowGood_up hc ha a b (y - 1) x
        rw [show y - 1 + 1 = y by omega] at key
        exact key ⟨h1, h2, hF, hl, hr⟩ hv
      · show RowGood W a b y (x + 1)
        have hv' : W ⟨y, x + 1, 3⟩ := hv
        have : x + 1 ≤ b := by
          by_contra hx
          have e : x = b := by omega
          subst e
          exact hr hv'
        exact ⟨by omega, this, hF, hl, hr⟩
      · show RowGood W a b (y + 1) x
        exact rowGood_down hc ha a b y x ⟨h1, h2, hF, hl, hr⟩ hv
      · show RowGood W a b y (x - 1)
        have hv' : W ⟨y, x - 1, 1⟩ := hv
        have : a ≤ x - 1 := by
          by_contra hx
          have e : x = a := by omega
          subst e
          exact hl hv'
        exact ⟨this, by omega, hF, hl, hr⟩

/-- If some quarter of the area rests on the bottom side of its cell and the quarter below that side is not white,
all cells of the area are completely white. -/
theorem full_of_bottom (hc : CellPattern W) (hb : Bounded W) (ha : Angles W) {s t0 : Quarter} (hs : W s)
    (h0 : Comp W s t0) (hq : t0.q = 2) (hn : ¬ W (across t0)) : ∀ t, Comp W s t → Full W t.y t.x := by
  obtain ⟨y, x, q⟩ := t0
  simp only at hq
  subst hq
  have hB : BotB W y x := ⟨comp_white hs h0, hn⟩
  obtain ⟨a, b, hg⟩ := rowGood_seed hc hb ha y x hB
  intro t ht
  have := rowGood_inv hc ha a b (s := ⟨y, x, 2⟩) hg (comp_trans (comp_symm h0) ht)
  exact this.2.2.1 t.x this.1 this.2.1

end

end Cspuz.Proofs.C11ShakashakaGA
