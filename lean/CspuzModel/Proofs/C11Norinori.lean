/-
  C11 / norinori — the program posted by `solve_norinori` encodes the rules of Norinori.
-/
import CspuzModel.Spec.PuzzleRules.Norinori
import CspuzModel.Proofs.C11CL
import CspuzModel.Proofs.C11Grid
import CspuzModel.Proofs.C12Conv
namespace Cspuz.Proofs.C11Norinori
open Cspuz Cspuz.Spec Cspuz.Puzzles Cspuz.Puzzles.Norinori Cspuz.Proofs Cspuz.Proofs.C11CL

/-! ### Closed form of the posted program -/

/-- The variable of the cell with (integer, on-board) coordinates `p`. -/
def cellVar (w : Nat) (p : Int × Int) : Expr := .bvar (p.1.toNat * w + p.2.toNat)

/-- The neighbour variables of `(y, x)` in the order up, down, left, right (those on the board). -/
def nbE (h w y x : Nat) : List Expr := (neighbours h w (y : Int) (x : Int)).map (cellVar w)

def localC (h w : Nat) (yx : Nat × Nat) : Expr :=
  .node .imp [.bvar (yx.1 * w + yx.2), .node .eq [countTrueE (nbE h w yx.1 yx.2), .litI 1]]

def roomC (w : Nat) (block : List (Int × Int)) : Expr :=
  .node .eq [countTrueE (block.map (cellVar w)), .litI 2]

def closedCs (pb : Problem) : List Expr :=
  ((cellsOf pb.height pb.width).map fun yx => [localC pb.height pb.width yx]).flatten ++
    (pb.blocks.map fun block => [roomC pb.width block]).flatten

def closed (pb : Problem) : PuzzleProg :=
  { decls := List.replicate (pb.height * pb.width) .bool,
    cs := closedCs pb,
    keys := List.range (pb.height * pb.width) }

theorem mem_cellsOf {h w : Nat} {p : Nat × Nat} : p ∈ cellsOf h w ↔ p.1 < h ∧ p.2 < w := by
  simp only [cellsOf, List.mem_flatMap, List.mem_range, List.mem_map]
  constructor
  · rintro ⟨y, hy, x, hx, rfl⟩; exact ⟨hy, hx⟩
  · rintro ⟨hy, hx⟩; exact ⟨p.1, hy, p.2, hx, rfl⟩

/-- `A.four_neighbors(y, x)` on an array of fresh variables `f 0, f 1, …`. -/
theorem fourNeighbors_fresh (k : Bool) (f : Nat → Expr) (h w y x : Nat) (hy : y < h) (hx : x < w) :
    fourNeighbors (.arr2 k h w ((List.range (h * w)).map f)) (.two (y : Int) (x : Int))
      = .ok (.arr1 k ((neighbours h w (y : Int) (x : Int)).map fun p => f (p.1.toNat * w + p.2.toNat))) := by
  obtain ⟨_, l, hl1, hl2⟩ := Cspuz.Proofs.C12Conv.four_neighbors_spec k ((List.range (h * w)).map f) h w y x
    (by simp) hy hx (.two y x) (Or.inl rfl)
  rw [hl1]
  congr 2
  apply List.map_injective_iff.mpr (Option.some_injective _)
  rw [hl2, List.map_map]
  apply List.map_congr_left
  intro p hp
  obtain ⟨h1, h2, h3, h4⟩ := Cspuz.Proofs.C12Conv.mem_neighbours hp
  have hlt : p.1.toNat * w + p.2.toNat < h * w :=
    Cspuz.Proofs.C11Grid.cell_lt (by omega) (by omega)
  simp [cellAt, hlt]

theorem bvar_map_isBoolLike {ι : Type} (L : List ι) (f : ι → Nat) :
    ∀ x ∈ L.map (fun p => Expr.bvar (f p)), x.isBoolLike = true := by
  intro x hx
  simp only [List.mem_map] at hx
  obtain ⟨_, _, rfl⟩ := hx; rfl

theorem program_closed (pb : Problem) (hwf : WellFormed pb) : program pb = .ok (closed pb) := by
  unfold program
  simp only [bvars, Nat.zero_add]
  rw [addKeysV_fresh true _ _ _ Expr.bvar (fun _ => rfl)]
  simp only [ok_bind]
  -- local constraints
  rw [mapM_eq_ok_map (g := fun yx => [localC pb.height pb.width yx])]
  swap
  · intro yx hyx
    obtain ⟨hy, hx⟩ := mem_cellsOf.mp hyx
    rw [getitemV_cell true Expr.bvar _ _ _ _ hy hx]
    simp only [ok_bind]
    rw [fourNeighbors_fresh true Expr.bvar _ _ _ _ hy hx]
    simp only [ok_bind]
    rw [countTrueA_arr1 _ (bvar_map_isBoolLike _ _)]
    simp only [ok_bind]
    simp only [localC, nbE]
    obtain ⟨op, args, hE, hop⟩ := countTrueE_isNode
      ((neighbours pb.height pb.width (yx.1 : Int) (yx.2 : Int)).map fun p => Expr.bvar (p.1.toNat * pb.width + p.2.toNat))
    rw [hE, binop_eq_node_lit _ _ _ hop]
    simp only [ok_bind]
    rw [callM_then_bvar _ _ _ rfl]
    simp only [ok_bind]
    rw [ensureV_scalar _ rfl, ← hE]
    rfl
  simp only [ok_bind]
  -- regions
  rw [mapM_eq_ok_map (g := fun block => [roomC pb.width block])]
  swap
  · intro block hb
    rw [getitemV_coords true Expr.bvar _ _ block (hwf.1 block hb)]
    simp only [ok_bind]
    rw [countTrueA_arr1 _ (bvar_map_isBoolLike _ _)]
    simp only [ok_bind]
    simp only [roomC]
    obtain ⟨op, args, hE, hop⟩ := countTrueE_isNode
      (block.map fun p => Expr.bvar (p.1.toNat * pb.width + p.2.toNat))
    rw [hE, binop_eq_node_lit _ _ _ hop]
    simp only [ok_bind]
    rw [ensureV_scalar _ rfl, ← hE]
    rfl
  rfl

/-! ### Meaning of the constraints -/

theorem eval_count_bvars {ι : Type} (σ : Asg) (L : List ι) (f : ι → Nat) :
    eval σ (countTrueE (L.map fun p => Expr.bvar (f p)))
      = some (.i (((L.filter fun p => σ.b (f p)).length : Nat) : Int)) := by
  rw [eval_countTrueE (L.map fun p => σ.b (f p)) (by simp [List.map_map, Function.comp_def])]
  rw [List.count_eq_countP, List.countP_map, List.countP_eq_length_filter]
  congr 4
  apply List.filter_congr
  intro x _; simp

theorem eval_roomC (σ : Asg) (w : Nat) (block : List (Int × Int)) :
    eval σ (roomC w block) = some (.b true) ↔
      (block.filter fun p => σ.b (p.1.toNat * w + p.2.toNat)).length = 2 := by
  have hc := eval_cmp (op := .eq) rfl (eval_count_bvars σ block (fun p => p.1.toNat * w + p.2.toNat))
    (eval_litI σ 2)
  rw [show roomC w block
    = Expr.node .eq [countTrueE (block.map fun p => Expr.bvar (p.1.toNat * w + p.2.toNat)), .litI 2] from rfl, hc]
  simp only [cmpOp_eq, Option.some.injEq, Val.b.injEq, beq_iff_eq]
  omega

theorem eval_localC (σ : Asg) (h w : Nat) (yx : Nat × Nat) :
    eval σ (localC h w yx) = some (.b true) ↔
      (σ.b (yx.1 * w + yx.2) = true →
        ((neighbours h w (yx.1 : Int) (yx.2 : Int)).filter fun p => σ.b (p.1.toNat * w + p.2.toNat)).length = 1) := by
  unfold localC nbE
  have hc := eval_cmp (op := .eq) rfl
    (eval_count_bvars σ (neighbours h w (yx.1 : Int) (yx.2 : Int)) (fun p => p.1.toNat * w + p.2.toNat))
    (eval_litI σ 1)
  have := eval_thenRaw (eval_bvar σ (yx.1 * w + yx.2)) hc
  unfold thenRaw at this
  rw [show (List.map (cellVar w) (neighbours h w (yx.1 : Int) (yx.2 : Int)))
    = List.map (fun p => Expr.bvar (p.1.toNat * w + p.2.toNat)) (neighbours h w (yx.1 : Int) (yx.2 : Int)) from rfl, this]
  simp only [cmpOp_eq, Option.some.injEq, Val.b.injEq, Bool.or_eq_true, Bool.not_eq_true', beq_iff_eq]
  cases σ.b (yx.1 * w + yx.2) <;> simp
  omega

/-- In a duplicate-free list, exactly one element satisfies `P` iff the filtered list has length one. -/
theorem filter_length_one_iff {α : Type} (L : List α) (hL : L.Nodup) (P : α → Bool) :
    (L.filter P).length = 1 ↔ ∃ a, (a ∈ L ∧ P a = true) ∧ ∀ b, b ∈ L ∧ P b = true → b = a := by
  constructor
  · intro h
    obtain ⟨a, ha⟩ := List.length_eq_one_iff.mp h
    have hm : ∀ b, b ∈ L ∧ P b = true ↔ b = a := by
      intro b
      rw [← List.mem_filter, ha, List.mem_singleton]
    exact ⟨a, (hm a).mpr rfl, fun b hb => (hm b).mp hb⟩
  · rintro ⟨a, ha, huniq⟩
    have hnd : (L.filter P).Nodup := hL.filter _
    have hmem : a ∈ L.filter P := List.mem_filter.mpr ha
    have hall : ∀ b ∈ L.filter P, b = a := fun b hb => huniq b (List.mem_filter.mp hb)
    generalize L.filter P = M at hnd hmem hall
    match M, hnd, hmem, hall with
    | [c], _, _, _ => rfl
    | c :: d :: t, hnd, _, hall =>
      have h1 := hall c (by simp)
      have h2 := hall d (by simp)
      rw [List.nodup_cons] at hnd
      exact absurd (by rw [h1, h2]; simp) hnd.1

theorem neighbours_nodup (h w : Nat) (y x : Int) : (neighbours h w y x).Nodup := by
  unfold neighbours
  apply List.Nodup.filter
  simp only [List.nodup_cons, List.mem_cons, Prod.mk.injEq, List.not_mem_nil, or_false, List.nodup_nil,
    and_true, true_and, not_false_eq_true]
  omega

theorem mem_neighbours_iff (h w : Nat) (y x : Int) (p : Int × Int) :
    p ∈ neighbours h w y x ↔
      (0 ≤ p.1 ∧ p.1 < (h : Int) ∧ 0 ≤ p.2 ∧ p.2 < (w : Int)) ∧
      ((p.1 = y - 1 ∧ p.2 = x) ∨ (p.1 = y + 1 ∧ p.2 = x) ∨ (p.1 = y ∧ p.2 = x - 1) ∨ (p.1 = y ∧ p.2 = x + 1)) := by
  obtain ⟨a, b⟩ := p
  simp only [neighbours, List.mem_filter, List.mem_cons, Prod.mk.injEq, List.not_mem_nil, or_false,
    decide_eq_true_eq]
  omega

/-- The count the solver takes over the on-board neighbours is one iff there is exactly one shaded
orthogonally adjacent cell on the board. -/
theorem nb_count_iff (pb : Problem) (g : Nat → Nat → Bool) (y x : Nat) :
    ((neighbours pb.height pb.width (y : Int) (x : Int)).filter fun p => g p.1.toNat p.2.toNat).length = 1 ↔
      ∃ y' x' : Nat, ShadedNeighbour pb g y x y' x' ∧
        ∀ y'' x'' : Nat, ShadedNeighbour pb g y x y'' x'' → y'' = y' ∧ x'' = x' := by
  rw [filter_length_one_iff _ (neighbours_nodup _ _ _ _)]
  have key : ∀ y' x' : Nat, ShadedNeighbour pb g y x y' x' ↔
      (((y' : Int), (x' : Int)) ∈ neighbours pb.height pb.width (y : Int) (x : Int) ∧ g y' x' = true) := by
    intro y' x'
    rw [mem_neighbours_iff]
    simp only [ShadedNeighbour, Adjacent, dist]
    constructor
    · rintro ⟨h1, h2, h3, h4⟩; exact ⟨by omega, h4⟩
    · rintro ⟨h1, h4⟩; exact ⟨by omega, by omega, by omega, h4⟩
  constructor
  · rintro ⟨⟨a, b⟩, ⟨hm, hs⟩, huniq⟩
    have hb := ((mem_neighbours_iff _ _ _ _ _).mp hm).1
    simp only at hb hs
    refine ⟨a.toNat, b.toNat, (key _ _).mpr ⟨?_, hs⟩, ?_⟩
    · rw [Int.toNat_of_nonneg hb.1, Int.toNat_of_nonneg hb.2.2.1]; exact hm
    · intro y'' x'' hsn
      obtain ⟨hm', hs'⟩ := (key _ _).mp hsn
      have := huniq ((y'' : Int), (x'' : Int)) ⟨hm', by simpa using hs'⟩
      simp only [Prod.mk.injEq] at this
      omega
  · rintro ⟨y', x', hsn, huniq⟩
    obtain ⟨hm, hs⟩ := (key _ _).mp hsn
    refine ⟨((y' : Int), (x' : Int)), ⟨hm, by simpa using hs⟩, ?_⟩
    rintro ⟨a, b⟩ ⟨hm', hs'⟩
    have hb := ((mem_neighbours_iff _ _ _ _ _).mp hm').1
    simp only at hb hs'
    have := huniq a.toNat b.toNat ((key _ _).mpr ⟨by
      rw [Int.toNat_of_nonneg hb.1, Int.toNat_of_nonneg hb.2.2.1]; exact hm', hs'⟩)
    simp only [Prod.mk.injEq]
    omega

theorem mem_flatten_map {α β : Type} (L : List α) (f : α → List β) (c : β) :
    c ∈ (L.map f).flatten ↔ ∃ a ∈ L, c ∈ f a := by
  simp [List.mem_flatten]

/-- The constraints of the posted program, read on the grid, are the rules. -/
theorem cs_iff (pb : Problem) (hwf : WellFormed pb) (σ : Asg) (g : Nat → Nat → Bool)
    (hg : ∀ y, y < pb.height → ∀ x, x < pb.width → g y x = σ.b (y * pb.width + x)) :
    (∀ c ∈ closedCs pb, eval σ c = some (.b true)) ↔ GridRules pb g := by
  have hroom : ∀ block ∈ pb.blocks,
      (block.filter fun p => σ.b (p.1.toNat * pb.width + p.2.toNat))
        = block.filter fun p => g p.1.toNat p.2.toNat := by
    intro block hb
    apply List.filter_congr
    intro p hp
    obtain ⟨h1, h2, h3, h4⟩ := hwf.1 block hb p hp
    rw [hg _ (by omega) _ (by omega)]
  have hnb : ∀ y x : Nat,
      ((neighbours pb.height pb.width (y : Int) (x : Int)).filter fun p => σ.b (p.1.toNat * pb.width + p.2.toNat))
        = (neighbours pb.height pb.width (y : Int) (x : Int)).filter fun p => g p.1.toNat p.2.toNat := by
    intro y x
    apply List.filter_congr
    intro p hp
    obtain ⟨h1, h2, h3, h4⟩ := Cspuz.Proofs.C12Conv.mem_neighbours hp
    rw [hg _ (by omega) _ (by omega)]
  simp only [closedCs, List.mem_append, mem_flatten_map, List.mem_singleton]
  unfold GridRules
  constructor
  · intro hcs
    refine ⟨?_, ?_⟩
    · intro block hb
      have := (eval_roomC σ _ block).mp (hcs _ (Or.inr ⟨block, hb, rfl⟩))
      rwa [hroom block hb] at this
    · intro y x hy hx hs
      have := (eval_localC σ pb.height pb.width (y, x)).mp
        (hcs _ (Or.inl ⟨(y, x), mem_cellsOf.mpr ⟨hy, hx⟩, rfl⟩)) (by rw [← hg y hy x hx]; exact hs)
      rw [hnb] at this
      exact (nb_count_iff pb g y x).mp this
  · rintro ⟨hr, hl⟩ c (⟨yx, hyx, rfl⟩ | ⟨block, hb, rfl⟩)
    · obtain ⟨hy, hx⟩ := mem_cellsOf.mp hyx
      rw [eval_localC]
      intro hs
      rw [hnb]
      exact (nb_count_iff pb g yx.1 yx.2).mpr (hl yx.1 yx.2 hy hx (by rw [hg _ hy _ hx]; exact hs))
    · rw [eval_roomC, hroom block hb]
      exact hr block hb

/-! ### Assembly -/

theorem ctConst_bvars {ι : Type} (L : List ι) (f : ι → Nat) :
    ctConst (L.map fun p => Expr.bvar (f p)) = 0 := by
  induction L with
  | nil => rfl
  | cons a L ih => simpa [ctConst] using ih

theorem ctOps_bvars {ι : Type} (L : List ι) (f : ι → Nat) :
    ctOps (L.map fun p => Expr.bvar (f p))
      = L.map fun p => Expr.node .ite [Expr.bvar (f p), .litI 1, .litI 0] := by
  induction L with
  | nil => rfl
  | cons a L ih => simp [ctOps, ih]

theorem wtIs_ite_bvars {ι : Type} (L : List ι) (f : ι → Nat) :
    wtIs (L.map fun p => Expr.node .ite [Expr.bvar (f p), .litI 1, .litI 0]) = true := by
  induction L with
  | nil => rfl
  | cons b L ih => simp [wtIs, wtI, wtB, ih]

theorem wtIs_countTrueE_bvars {ι : Type} (L : List ι) (f : ι → Nat) :
    wtI (countTrueE (L.map fun p => Expr.bvar (f p))) = true := by
  unfold countTrueE
  simp only [ctConst_bvars, ctOps_bvars, Nat.lt_irrefl, if_false, gt_iff_lt]
  cases L with
  | nil => simp [wtI]
  | cons a L =>
    have := wtIs_ite_bvars L f
    simp [wtI, wtIs, wtB, this]

theorem wt_closed (pb : Problem) : ∀ c ∈ closedCs pb, wtB c = true := by
  intro c hc
  simp only [closedCs, List.mem_append, mem_flatten_map, List.mem_singleton] at hc
  rcases hc with ⟨yx, _, rfl⟩ | ⟨block, _, rfl⟩
  · have := wtIs_countTrueE_bvars (neighbours pb.height pb.width (yx.1 : Int) (yx.2 : Int))
      (fun p => p.1.toNat * pb.width + p.2.toNat)
    rw [show localC pb.height pb.width yx = Expr.node .imp [.bvar (yx.1 * pb.width + yx.2), .node .eq
      [countTrueE ((neighbours pb.height pb.width (yx.1 : Int) (yx.2 : Int)).map
        fun p => Expr.bvar (p.1.toNat * pb.width + p.2.toNat)), .litI 1]] from rfl]
    simp [wtB, wtBs, wtIs, wtI, this]
  · have := wtIs_countTrueE_bvars block (fun p => p.1.toNat * pb.width + p.2.toNat)
    rw [show roomC pb.width block = Expr.node .eq
      [countTrueE (block.map fun p => Expr.bvar (p.1.toNat * pb.width + p.2.toNat)), .litI 2] from rfl]
    simp [wtB, wtIs, wtI, this]

theorem encodes (pb : Problem) (hwf : WellFormed pb) : EncodesRules (closed pb) (Rules pb) :=
  Cspuz.Proofs.C11Grid.encodes_bool_grid pb.height pb.width (closedCs pb) (GridRules pb)
    (fun σ g hg => cs_iff pb hwf σ g hg)

theorem main (pb : Problem) (hwf : WellFormed pb) (P : PuzzleProg) (hP : program pb = .ok P) :
    EncodesRules P (Rules pb) ∧ P.KeysOk ∧ (∀ c ∈ P.cs, wtB c = true) := by
  rw [program_closed pb hwf] at hP
  cases hP
  exact ⟨encodes pb hwf, Cspuz.Proofs.C11Grid.keysOk_range _ _ _ (by simp), wt_closed pb⟩

theorem total (pb : Problem) (hwf : WellFormed pb) : ∃ P, program pb = .ok P :=
  ⟨_, program_closed pb hwf⟩

end Cspuz.Proofs.C11Norinori
