/-
  C11 / Yin-Yang, part A — the program posted by `solve_yinyang` in closed form (`program_eq`).
-/
import CspuzModel.Spec.PuzzleRules.Yinyang
import CspuzModel.Proofs.C11YinyangDefs
import CspuzModel.Proofs.C11CL
import CspuzModel.Proofs.C11Grid
import CspuzModel.Proofs.C11FragWT
import CspuzModel.Proofs.C04L1
import CspuzModel.Proofs.C04Prim
import CspuzModel.Proofs.C11Frag
namespace Cspuz.Proofs.C11YinyangA
open Cspuz Cspuz.Spec Cspuz.Puzzles Cspuz.Puzzles.Yinyang Cspuz.Spec.Yinyang Cspuz.Proofs
open Cspuz.Proofs.C11YinyangDefs

/-! ### table lookup -/

theorem tableGet_eq {pb : Problem} (hwf : WellFormed pb) {y x : Nat} (hy : y < pb.height) (hx : x < pb.width) :
    tableGet pb.problem (y : Int) (x : Int) = .ok (val pb y x) := by
  obtain ⟨_, _, hlen, hrow⟩ := hwf
  have hy' : y < pb.problem.length := by omega
  have hr := (hrow _ (List.getElem_mem hy')).1
  have hx' : x < (pb.problem[y]).length := by omega
  simp only [tableGet, val]
  rw [C13.pyIndex_natCast _ _ hy', List.getElem?_eq_getElem hy']
  simp only [ok_bind]
  rw [C13.pyIndex_natCast _ _ hx', List.getElem?_eq_getElem hx']
  simp [List.getD, List.getElem?_eq_getElem hy', List.getElem?_eq_getElem hx']

theorem val_cases {pb : Problem} (hwf : WellFormed pb) {y x : Nat} (hy : y < pb.height) (hx : x < pb.width) :
    val pb y x = 0 ∨ val pb y x = 1 ∨ val pb y x = 2 := by
  obtain ⟨_, _, hlen, hrow⟩ := hwf
  have hy' : y < pb.problem.length := by omega
  have hr := hrow _ (List.getElem_mem hy')
  have hx' : x < (pb.problem[y]).length := by omega
  have : val pb y x = (pb.problem[y])[x] := by
    simp [val, List.getD, List.getElem?_eq_getElem hy', List.getElem?_eq_getElem hx']
  rw [this]
  exact hr.2 _ (List.getElem_mem hx')

theorem bvars_eq (n : Nat) : bvars 0 n = (List.range n).map Expr.bvar := by
  simp [bvars]

/-- The variable of cell `(y, x)`. -/
def cv (w y x : Nat) : Expr := .bvar (y * w + x)

/-- `~is_black[y, x]`. -/
def nv (w y x : Nat) : Expr := .node .not [cv w y x]

/-! ### the 2×2 constraints -/

/-- `a op b op c op d`, left-associated. -/
def op4 (op : Op) (a b c d : Expr) : Expr := .node op [.node op [.node op [a, b], c], d]

/-- `a00 | a01 | a10 | a11` on the block with top-left cell `(y, x)`. -/
def blk1 (w y x : Nat) : Expr := op4 .or (cv w y x) (cv w y (x + 1)) (cv w (y + 1) x) (cv w (y + 1) (x + 1))

/-- `~(a00 & a01 & a10 & a11)`. -/
def blk2 (w y x : Nat) : Expr :=
  .node .not [op4 .and (cv w y x) (cv w y (x + 1)) (cv w (y + 1) x) (cv w (y + 1) (x + 1))]

/-- `~(a00 & a11 & ~a10 & ~a01)`. -/
def blk3 (w y x : Nat) : Expr :=
  .node .not [op4 .and (cv w y x) (cv w (y + 1) (x + 1)) (nv w (y + 1) x) (nv w y (x + 1))]

/-- `~(~a00 & ~a11 & a10 & a01)`. -/
def blk4 (w y x : Nat) : Expr :=
  .node .not [op4 .and (nv w y x) (nv w (y + 1) (x + 1)) (cv w (y + 1) x) (cv w y (x + 1))]

/-- The constraints posted by the four `ensure` calls on the shifted slices. -/
def blocks (h w : Nat) : List Expr :=
  ((List.range ((h - 1) * (w - 1))).map fun i => blk1 w (i / (w - 1)) (i % (w - 1))) ++
  ((List.range ((h - 1) * (w - 1))).map fun i => blk2 w (i / (w - 1)) (i % (w - 1))) ++
  ((List.range ((h - 1) * (w - 1))).map fun i => blk3 w (i / (w - 1)) (i % (w - 1))) ++
  ((List.range ((h - 1) * (w - 1))).map fun i => blk4 w (i / (w - 1)) (i % (w - 1)))

/-- A shifted slice `[dy : h-1+dy, dx : w-1+dx]` (`dy, dx ∈ {0, 1}`). -/
theorem slice_eq (h w : Nat) (ky kx : AxisKey) (dy dx : Nat) (hdy : dy ≤ 1) (hdx : dx ≤ 1)
    (hy : axisSel h ky = .ok (false, (List.range (h - 1)).map fun j => j + dy))
    (hx : axisSel w kx = .ok (false, (List.range (w - 1)).map fun j => j + dx)) :
    getitemV (.arr2 true h w ((List.range (h * w)).map Expr.bvar)) (.pair ky kx)
      = .ok (.arr2 true (h - 1) (w - 1)
          ((List.range ((h - 1) * (w - 1))).map fun i => cv w (i / (w - 1) + dy) (i % (w - 1) + dx))) := by
  rw [C11CL.getitemV_slices true Expr.bvar h w ky kx _ _ hy hx
    (by intro y hy; simp only [List.mem_map, List.mem_range] at hy; obtain ⟨j, hj, rfl⟩ := hy; omega)
    (by intro x hx; simp only [List.mem_map, List.mem_range] at hx; obtain ⟨j, hj, rfl⟩ := hx; omega)]
  simp only [List.length_map, List.length_range, List.flatMap_map, List.map_map, Function.comp_def]
  rw [C11Grid.flatMap_range_eq (fun y x => Expr.bvar ((y + dy) * w + (x + dx)))]
  rfl

theorem zipWith_map_range (op : Op) (F G : Nat → Expr) (n : Nat) :
    List.zipWith (fun a b => Expr.node op [a, b]) ((List.range n).map F) ((List.range n).map G)
      = (List.range n).map fun i => Expr.node op [F i, G i] := by
  apply List.ext_getElem <;> simp

theorem binop_maps (o : BinOp) (op : Op) (ho : (o = .and_ ∧ op = .and) ∨ (o = .or_ ∧ op = .or))
    (H W : Nat) (F G : Nat → Expr) :
    binop o (.arr2 true H W ((List.range (H * W)).map F)) (.arr2 true H W ((List.range (H * W)).map G))
      = .ok (.arr2 true H W ((List.range (H * W)).map fun i => Expr.node op [F i, G i])) := by
  rw [C11CL.binop_bool_arr2 o op ho H W _ _ (by simp) (by simp), zipWith_map_range]

theorem chain_maps (o : BinOp) (op : Op) (ho : (o = .and_ ∧ op = .and) ∨ (o = .or_ ∧ op = .or))
    (H W : Nat) (A B C D : Nat → Expr) :
    chain o (.arr2 true H W ((List.range (H * W)).map A)) (.arr2 true H W ((List.range (H * W)).map B))
        (.arr2 true H W ((List.range (H * W)).map C)) (.arr2 true H W ((List.range (H * W)).map D))
      = .ok (.arr2 true H W ((List.range (H * W)).map fun i => op4 op (A i) (B i) (C i) (D i))) := by
  unfold chain
  rw [binop_maps o op ho, ok_bind, binop_maps o op ho, ok_bind, binop_maps o op ho]
  rfl

theorem invert_maps (H W : Nat) (F : Nat → Expr) :
    unop .invert (.arr2 true H W ((List.range (H * W)).map F))
      = .ok (.arr2 true H W ((List.range (H * W)).map fun i => Expr.node .not [F i])) := by
  rw [C11CL.unop_invert_arr2 _ _ _ (by simp), List.map_map]
  rfl

theorem ensure_maps (H W n : Nat) (F : Nat → Expr) (hF : ∀ i, (F i).isBoolLike = true) :
    ensureV (.arr2 true H W ((List.range n).map F)) = .ok ((List.range n).map F) :=
  C11CL.ensureV_arr2 _ _ _ _ (by
    intro e he; simp only [List.mem_map] at he; obtain ⟨i, _, rfl⟩ := he; exact hF i)

theorem blockCs_eq (h w : Nat) :
    blockCs (.arr2 true h w ((List.range (h * w)).map Expr.bvar)) = .ok (blocks h w) := by
  unfold blockCs
  rw [slice_eq h w _ _ 0 0 (by omega) (by omega) (by rw [sl, C11CL.axisSel_upto]; simp)
    (by rw [sl, C11CL.axisSel_upto]; simp), ok_bind]
  rw [slice_eq h w _ _ 0 1 (by omega) (by omega) (by rw [sl, C11CL.axisSel_upto]; simp)
    (by rw [sl, C11CL.axisSel_from1]), ok_bind]
  rw [slice_eq h w _ _ 1 0 (by omega) (by omega) (by rw [sl, C11CL.axisSel_from1])
    (by rw [sl, C11CL.axisSel_upto]; simp), ok_bind]
  rw [slice_eq h w _ _ 1 1 (by omega) (by omega) (by rw [sl, C11CL.axisSel_from1])
    (by rw [sl, C11CL.axisSel_from1]), ok_bind]
  rw [chain_maps .or_ .or (Or.inr ⟨rfl, rfl⟩), ok_bind, ensure_maps _ _ _ _ (fun _ => rfl), ok_bind]
  rw [chain_maps .and_ .and (Or.inl ⟨rfl, rfl⟩), ok_bind, invert_maps, ok_bind,
    ensure_maps _ _ _ _ (fun _ => rfl), ok_bind]
  rw [invert_maps, ok_bind, invert_maps, ok_bind]
  rw [chain_maps .and_ .and (Or.inl ⟨rfl, rfl⟩), ok_bind, invert_maps, ok_bind,
    ensure_maps _ _ _ _ (fun _ => rfl), ok_bind]
  rw [invert_maps, ok_bind, invert_maps, ok_bind]
  rw [chain_maps .and_ .and (Or.inl ⟨rfl, rfl⟩), ok_bind, invert_maps, ok_bind,
    ensure_maps _ _ _ _ (fun _ => rfl), ok_bind]
  simp only [blocks, blk1, blk2, blk3, blk4, nv, Nat.add_zero]

/-! ### the outer ring -/

/-- An index (possibly negative, Python style) that denotes position `i`. -/
theorem axisSel_idx' (n i : Nat) (k : Int) (hi : i < n) (hk : k = (i : Int) ∨ k = (i : Int) - (n : Int)) :
    axisSel n (.idx k) = .ok (true, [i]) := by
  simp only [axisSel]
  rcases hk with rfl | rfl
  · rw [if_neg (show ¬ ((i : Int) < 0) by omega), if_pos (by omega), Int.toNat_natCast]
  · rw [if_pos (show (i : Int) - (n : Int) < 0 by omega), if_pos (by omega)]
    have : ((i : Int) - (n : Int) + (n : Int)).toNat = i := by omega
    rw [this]

theorem cellAt_eq (h w y x : Nat) (ky kx : Int) (hy : y < h) (hx : x < w)
    (hky : ky = (y : Int) ∨ ky = (y : Int) - (h : Int)) (hkx : kx = (x : Int) ∨ kx = (x : Int) - (w : Int)) :
    Yinyang.cellAt (.arr2 true h w ((List.range (h * w)).map Expr.bvar)) ky kx = .ok (cv w y x) := by
  have hg : getitemV (.arr2 true h w ((List.range (h * w)).map Expr.bvar)) (.pair (.idx ky) (.idx kx))
      = .ok (.scalar (.bvar (y * w + x))) := by
    simp only [getitemV]
    rw [Cspuz.Proofs.C13.getitem2D_eq_spec _ _ h w _ (by simp)]
    simp only [specGetitem, specPair, axisSel_idx' h y ky hy hky, axisSel_idx' w x kx hx hkx, bind, Except.bind]
    rw [C11CL.sel_fresh Expr.bvar h w [y] [x] (by simpa using hy) (by simpa using hx)]
    simp [Except.map, idxToPyV]
  unfold Yinyang.cellAt
  rw [hg]
  rfl

theorem filter_ge_range (a : Nat) : ∀ b : Nat,
    (List.range b).filter (fun i => decide (a ≤ i)) = (List.range (b - a)).map (· + a)
  | 0 => by simp
  | b + 1 => by
    rw [List.range_succ, List.filter_append, filter_ge_range a b]
    by_cases hab : a ≤ b
    · rw [show b + 1 - a = (b - a) + 1 by omega, List.range_succ, List.map_append]
      simp only [List.filter_cons, List.filter_nil, hab, decide_true, if_true, List.map_cons, List.map_nil]
      rw [show b - a + a = b by omega]
    · rw [show b + 1 - a = 0 by omega, show b - a = 0 by omega]
      simp [hab]

theorem revRange_eq (a b : Nat) : revRange a b = (List.range (b - a)).map fun k => b - 1 - k := by
  unfold revRange
  rw [filter_ge_range]
  apply List.ext_getElem
  · simp
  · intro i h1 h2
    simp only [List.length_reverse, List.length_map, List.length_range] at h1
    simp only [List.getElem_reverse, List.getElem_map, List.getElem_range, List.length_map, List.length_range]
    omega

/-- The list `circ` of the solver. -/
def ringE (h w : Nat) : List Expr :=
  (List.range (ringLen h w)).map fun i => cv w (ringCell h w i).1 (ringCell h w i).2

theorem ringLen_eq {h w : Nat} (hh : 1 ≤ h) (hw : 1 ≤ w) : ringLen h w = h + (w - 1) + (h - 1) + (w - 2) := by
  unfold ringLen; split <;> omega

theorem ringCell_1 {h w i : Nat} (hi : i < h) : ringCell h w i = (i, 0) := by
  unfold ringCell; rw [if_pos hi]

theorem ringCell_2 {h w k : Nat} (hk : k < w - 1) : ringCell h w (h + k) = (h - 1, k + 1) := by
  unfold ringCell; rw [if_neg (by omega), if_pos (by omega), Prod.mk.injEq]; omega

theorem ringCell_3 {h w k : Nat} (hk : k < h - 1) : ringCell h w (h + (w - 1) + k) = (h - 2 - k, w - 1) := by
  unfold ringCell; rw [if_neg (by omega), if_neg (by omega), if_pos (by omega), Prod.mk.injEq]; omega

theorem ringCell_4 {h w k : Nat} : ringCell h w (h + (w - 1) + (h - 1) + k) = (0, w - 2 - k) := by
  unfold ringCell; rw [if_neg (by omega), if_neg (by omega), if_neg (by omega), Prod.mk.injEq]; omega

theorem ringE_eq {h w : Nat} (hh : 1 ≤ h) (hw : 1 ≤ w) :
    ringE h w = ((List.range h).map fun y => cv w y 0) ++ ((List.range (w - 1)).map fun k => cv w (h - 1) (k + 1)) ++
      ((List.range (h - 1)).map fun k => cv w (h - 2 - k) (w - 1)) ++
      ((List.range (w - 2)).map fun k => cv w 0 (w - 2 - k)) := by
  unfold ringE
  rw [ringLen_eq hh hw, List.range_add, List.range_add, List.range_add]
  simp only [List.map_append, List.map_map, Function.comp_def]
  congr 1
  · congr 1
    · congr 1
      · apply List.map_congr_left; intro i hi; rw [ringCell_1 (List.mem_range.1 hi)]
      · apply List.map_congr_left; intro i hi; rw [ringCell_2 (List.mem_range.1 hi)]
    · apply List.map_congr_left; intro i hi; rw [ringCell_3 (List.mem_range.1 hi)]
  · apply List.map_congr_left; intro i hi; rw [ringCell_4]

theorem circ_eq {h w : Nat} (hh : 1 ≤ h) (hw : 1 ≤ w) :
    circ (.arr2 true h w ((List.range (h * w)).map Expr.bvar)) h w = .ok (ringE h w) := by
  unfold circ
  rw [mapM_eq_ok_map (g := fun y : Nat => cv w y 0) (by
    intro y hy
    exact cellAt_eq h w y 0 _ _ (List.mem_range.1 hy) (by omega) (Or.inl rfl) (Or.inl rfl)), ok_bind]
  rw [filter_ge_range, mapM_eq_ok_map (g := fun x : Nat => cv w (h - 1) x) (by
    intro x hx
    simp only [List.mem_map, List.mem_range] at hx
    obtain ⟨k, hk, rfl⟩ := hx
    exact cellAt_eq h w (h - 1) (k + 1) _ _ (by omega) (by omega) (Or.inr (by omega)) (Or.inl rfl)), ok_bind]
  rw [revRange_eq, mapM_eq_ok_map (g := fun y : Nat => cv w y (w - 1)) (by
    intro y hy
    simp only [List.mem_map, List.mem_range] at hy
    obtain ⟨k, hk, rfl⟩ := hy
    exact cellAt_eq h w (h - 1 - 1 - k) (w - 1) _ _ (by omega) (by omega) (Or.inl rfl) (Or.inr (by omega))), ok_bind]
  rw [revRange_eq, mapM_eq_ok_map (g := fun x : Nat => cv w 0 x) (by
    intro x hx
    simp only [List.mem_map, List.mem_range] at hx
    obtain ⟨k, hk, rfl⟩ := hx
    exact cellAt_eq h w 0 (w - 1 - 1 - k) _ _ (by omega) (by omega) (Or.inl rfl) (Or.inl rfl)), ok_bind]
  rw [ringE_eq hh hw]
  simp only [List.map_map, Function.comp_def, Nat.sub_zero]
  rfl


/-! ### the ring constraint -/

theorem flattenList_leaves : ∀ L : List Expr, ANest.flattenList (L.map fun e => ANest.leaf (.scalar e)) = L
  | [] => rfl
  | e :: r => by simp [ANest.flattenList, ANest.flatten, PyV.flat, flattenList_leaves r]

/-- `c_i != c_{i+1}` for the variables `f i`, cyclically. -/
def switchE (n : Nat) (f : Nat → Nat) : List Expr :=
  (List.range n).map fun i => Expr.node .xor [.bvar (f i), .bvar (f ((i + 1) % n))]

/-- `count_true(switches) <= 2`. -/
def ringC (n : Nat) (f : Nat → Nat) : Expr := .node .le [countTrueE (switchE n f), .litI 2]

theorem binop_le_node_lit (op : Op) (l : List Expr) (v : Int) (hop : op.isIntOp = true) :
    binop .le (.scalar (.node op l)) (.scalar (.litI v)) = .ok (.scalar (.node .le [.node op l, .litI v])) := by
  cases op <;> first | rfl | simp [Op.isIntOp] at hop

theorem circCs_eq (n : Nat) (f : Nat → Nat) :
    circCs ((List.range n).map fun i => Expr.bvar (f i)) = .ok [ringC n f] := by
  unfold circCs
  simp only [List.length_map, List.length_range]
  rw [mapM_eq_ok_map (g := fun i => ANest.leaf (.scalar (.node .xor [.bvar (f i), .bvar (f ((i + 1) % n))]))) (by
    intro i hi
    have hi := List.mem_range.1 hi
    have hj : (i + 1) % n < n := Nat.mod_lt _ (by omega)
    rw [getE_eq_ok (by simpa using hi), ok_bind, getE_eq_ok (by simpa using hj), ok_bind]
    simp only [List.getElem_map, List.getElem_range]
    rfl), ok_bind]
  have hfl : ANest.flattenList [.items ((List.range n).map fun i =>
      ANest.leaf (.scalar (.node .xor [.bvar (f i), .bvar (f ((i + 1) % n))])))] = switchE n f := by
    have := flattenList_leaves (switchE n f)
    simp only [switchE, List.map_map, Function.comp_def] at this
    simp only [ANest.flattenList, ANest.flatten, List.append_nil, this, switchE]
  unfold countTrueA
  rw [hfl, countTrue_ok_of_boolLike (by
    intro x hx; simp only [switchE, List.mem_map] at hx; obtain ⟨_, _, rfl⟩ := hx; rfl), ok_bind]
  obtain ⟨op, args, hE, hop⟩ := C11CL.countTrueE_isNode (switchE n f)
  unfold ringC
  rw [hE, binop_le_node_lit op args _ hop, ok_bind, C11CL.ensureV_scalar _ rfl]

/-! ### the stones -/

/-- The constraints posted by the loop body for the cell `(y, x)`. -/
def cellE (pb : Problem) (y x : Nat) : List Expr :=
  if val pb y x = 1 then [nv pb.width y x] else if val pb y x = 2 then [cv pb.width y x] else []

theorem cellCs_eq {pb : Problem} (hwf : WellFormed pb) {y x : Nat} (hy : y < pb.height) (hx : x < pb.width) :
    cellCs pb (.arr2 true pb.height pb.width ((List.range (pb.height * pb.width)).map Expr.bvar)) (y, x)
      = .ok (cellE pb y x) := by
  have hvc := val_cases hwf hy hx
  unfold cellCs cellE
  simp only
  rw [tableGet_eq hwf hy hx, ok_bind]
  generalize val pb y x = v at hvc ⊢
  rcases hvc with rfl | rfl | rfl
  · rw [if_neg (by decide), if_neg (by decide), if_neg (by decide), if_neg (by decide)]
  · rw [if_pos (by decide), if_pos (by decide)]
    rw [C11CL.getitemV_cell true Expr.bvar _ _ _ _ hy hx, ok_bind]
    rfl
  · rw [if_neg (by decide), if_pos (by decide), if_neg (by decide), if_pos (by decide)]
    rw [C11CL.getitemV_cell true Expr.bvar _ _ _ _ hy hx, ok_bind]
    rfl

/-! ### the posted program in closed form -/

/-- `~is_black`, flattened. -/
def nots (n : Nat) : List Expr := (List.range n).map fun i => Expr.node .not [.bvar i]

/-- The connectivity fragment of the black cells. -/
def avc1 (pb : Problem) : Prog :=
  C04L1.avcProg (Graph.grid pb.height pb.width) (bvars 0 (pb.height * pb.width)) (pb.height * pb.width) false

/-- The connectivity fragment of the white cells. -/
def avc2 (pb : Problem) : Prog :=
  C04L1.avcProg (Graph.grid pb.height pb.width) (nots (pb.height * pb.width))
    (pb.height * pb.width + (avc1 pb).decls.length) false

/-- The variable index of the `i`-th ring cell. -/
def ringVar (h w i : Nat) : Nat := (ringCell h w i).1 * w + (ringCell h w i).2

/-- The per-cell constraints. -/
def cells (pb : Problem) : List Expr :=
  (cellsOf pb.height pb.width).flatMap fun p => cellE pb p.1 p.2

/-- The local (non-connectivity) constraints. -/
def locals (pb : Problem) : List Expr :=
  blocks pb.height pb.width ++ [ringC (ringLen pb.height pb.width) (ringVar pb.height pb.width)] ++ cells pb

theorem mem_cellsOf {h w : Nat} {p : Nat × Nat} : p ∈ cellsOf h w ↔ p.1 < h ∧ p.2 < w := by
  simp only [cellsOf, List.mem_flatMap, List.mem_range, List.mem_map]
  constructor
  · rintro ⟨y, hy, x, hx, rfl⟩; exact ⟨hy, hx⟩
  · rintro ⟨hy, hx⟩; exact ⟨p.1, hy, p.2, hx, rfl⟩

theorem grid_pos {pb : Problem} (hwf : WellFormed pb) : 0 < (Graph.grid pb.height pb.width).n :=
  Nat.mul_pos hwf.1 hwf.2.1

theorem nots_boolArgs (n b : Nat) (hb : n ≤ b) : BoolArgs b (nots n) := by
  intro e he
  simp only [nots, List.mem_map, List.mem_range] at he
  obtain ⟨i, hi, rfl⟩ := he
  refine ⟨rfl, ?_⟩
  rw [C11FragWT.varsBelow_node]
  intro z hz
  simp only [List.mem_singleton] at hz
  subst hz
  simp only [Expr.varsBelow, decide_eq_true_eq]; omega

theorem bvars_boolArgs' (n b : Nat) (hb : n ≤ b) : BoolArgs b (bvars 0 n) := by
  intro e he
  obtain ⟨h1, h2⟩ := C11FragWT.bvars_boolArgs n e he
  exact ⟨h1, C11Frag.varsBelow_mono hb _ h2⟩

theorem avc1_eq {pb : Problem} (hwf : WellFormed pb) :
    activeVerticesConnected (Graph.grid pb.height pb.width) (bvars 0 (pb.height * pb.width))
      (pb.height * pb.width) false false = .ok (avc1 pb) :=
  C04L1.avc_eq_prog (grid_pos hwf) (C04Prim.grid_wf _ _) (by simp [bvars, Graph.grid])
    (C11FragWT.bvars_boolArgs _)

theorem avc2_eq {pb : Problem} (hwf : WellFormed pb) :
    activeVerticesConnected (Graph.grid pb.height pb.width) (nots (pb.height * pb.width))
      (pb.height * pb.width + (avc1 pb).decls.length) false false = .ok (avc2 pb) :=
  C04L1.avc_eq_prog (grid_pos hwf) (C04Prim.grid_wf _ _) (by simp [nots, Graph.grid])
    (nots_boolArgs _ _ (by omega))

theorem program_eq {pb : Problem} (hwf : WellFormed pb) :
    program pb = .ok { decls := List.replicate (pb.height * pb.width) .bool ++ (avc1 pb ++ avc2 pb).decls,
                       cs := (avc1 pb).cs ++ (avc2 pb).cs ++ locals pb,
                       keys := List.range (pb.height * pb.width) } := by
  unfold program programWith
  simp only
  rw [C11Grid.addKeys_bvars, ok_bind, avc1_eq hwf, ok_bind, bvars_eq, invert_maps, ok_bind]
  rw [show (PyV.arr2 true pb.height pb.width
      ((List.range (pb.height * pb.width)).map fun i => Expr.node .not [Expr.bvar i])).flat
      = nots (pb.height * pb.width) from rfl, avc2_eq hwf, ok_bind]
  rw [blockCs_eq, ok_bind, circ_eq hwf.1 hwf.2.1, ok_bind]
  rw [show ringE pb.height pb.width = (List.range (ringLen pb.height pb.width)).map
      (fun i => Expr.bvar (ringVar pb.height pb.width i)) from rfl, circCs_eq, ok_bind]
  rw [mapM_eq_ok_map (g := fun p : Nat × Nat => cellE pb p.1 p.2)]
  · simp only [ok_bind, locals, cells, List.flatMap_def, List.append_assoc, C11Frag.prog_append_decls]
  · intro p hp
    obtain ⟨h1, h2⟩ := mem_cellsOf.1 hp
    exact cellCs_eq hwf h1 h2


end Cspuz.Proofs.C11YinyangA
