/-
  C11 / View, part B — meaning of the constraints posted by `solve_view` apart from the connectivity fragment:
  the four sight arrays are forced to be the numbers of consecutive empty cells seen in the four directions
  (`lineRun`, tied to the specification's `IsRun`), and the remaining constraints read as rules 1–3.
-/
import CspuzModel.Proofs.C11ViewA
namespace Cspuz.Proofs.C11ViewB
open Cspuz Cspuz.Spec Cspuz.Puzzles Cspuz.Puzzles.View Cspuz.Spec.View Cspuz.Proofs Cspuz.Proofs.C11ViewA

/-! ### runs of empty cells -/

/-- Along a line of cells `0, 1, 2, …` (`hs p = true` iff cell `p` is numbered): the number of consecutive empty
cells immediately before position `p`. -/
def lineRun (hs : Nat → Bool) : Nat → Nat
  | 0 => 0
  | p + 1 => if hs p then 0 else lineRun hs p + 1

theorem lineRun_le (hs : Nat → Bool) : ∀ p, lineRun hs p ≤ p
  | 0 => Nat.le_refl 0
  | p + 1 => by
    have := lineRun_le hs p
    simp only [lineRun]
    split <;> omega

theorem lineRun_congr {hs hs' : Nat → Bool} : ∀ p, (∀ q, q < p → hs q = hs' q) → lineRun hs p = lineRun hs' p
  | 0, _ => rfl
  | p + 1, h => by
    simp only [lineRun]
    rw [h p (by omega), lineRun_congr p (fun q hq => h q (by omega))]

theorem isRun_lineRun (hs : Nat → Bool) : ∀ p, IsRun (fun j => hs (p - 1 - j) = false) p (lineRun hs p)
  | 0 => ⟨Nat.le_refl 0, fun j hj => absurd hj (Nat.not_lt_zero j), fun h => absurd h (Nat.lt_irrefl 0)⟩
  | p + 1 => by
    obtain ⟨h1, h2, h3⟩ := isRun_lineRun hs p
    simp only [lineRun]
    by_cases hp : hs p = true
    · rw [if_pos hp]
      refine ⟨by omega, fun j hj => absurd hj (Nat.not_lt_zero j), fun _ => ?_⟩
      simp [hp]
    · rw [if_neg hp]
      refine ⟨by omega, ?_, ?_⟩
      · intro j hj
        cases j with
        | zero => simpa using hp
        | succ j =>
          have := h2 j (by omega)
          rwa [show p + 1 - 1 - (j + 1) = p - 1 - j by omega]
      · intro hlt
        have := h3 (by omega)
        show ¬ hs (p + 1 - 1 - (lineRun hs p + 1)) = false
        rwa [show p + 1 - 1 - (lineRun hs p + 1) = p - 1 - lineRun hs p by omega]

theorem isRun_unique {e : Nat → Prop} {len s s' : Nat} (h : IsRun e len s) (h' : IsRun e len s') : s = s' := by
  obtain ⟨h1, h2, h3⟩ := h
  obtain ⟨h1', h2', h3'⟩ := h'
  rcases Nat.lt_trichotomy s s' with hlt | heq | hgt
  · exact absurd (h2' s hlt) (h3 (by omega))
  · exact heq
  · exact absurd (h2 s' hgt) (h3' (by omega))

theorem isRun_congr {e e' : Nat → Prop} {len s : Nat} (hee : ∀ j, j < len → (e j ↔ e' j)) :
    IsRun e len s ↔ IsRun e' len s := by
  unfold IsRun
  constructor
  · rintro ⟨h1, h2, h3⟩
    exact ⟨h1, fun j hj => (hee j (by omega)).1 (h2 j hj), fun hlt hs => h3 hlt ((hee s hlt).2 hs)⟩
  · rintro ⟨h1, h2, h3⟩
    exact ⟨h1, fun j hj => (hee j (by omega)).2 (h2 j hj), fun hlt hs => h3 hlt ((hee s hlt).1 hs)⟩

/-- The recurrence posted for a sight array pins it to `lineRun`. -/
theorem line_iff (t : Nat → Int) (hs : Nat → Bool) (len : Nat) :
    (t 0 = 0 ∧ ∀ p, p < len → t (p + 1) = if hs p = true then 0 else t p + 1) ↔
      ∀ p, p ≤ len → t p = (lineRun hs p : Int) := by
  constructor
  · rintro ⟨h0, hrec⟩ p
    induction p with
    | zero => intro _; simpa [lineRun] using h0
    | succ p ih =>
      intro hp
      rw [hrec p (by omega), ih (by omega)]
      simp only [lineRun]
      split <;> simp
  · intro h
    refine ⟨by simpa [lineRun] using h 0 (Nat.zero_le _), ?_⟩
    intro p hp
    rw [h (p + 1) (by omega), h p (by omega)]
    simp only [lineRun]
    split <;> simp

/-! ### the four counts on a grid -/

def upC (has : Nat → Nat → Bool) (y x : Nat) : Nat := lineRun (fun p => has p x) y
def downC (h : Nat) (has : Nat → Nat → Bool) (y x : Nat) : Nat := lineRun (fun p => has (h - 1 - p) x) (h - 1 - y)
def leftC (has : Nat → Nat → Bool) (y x : Nat) : Nat := lineRun (fun p => has y p) x
def rightC (w : Nat) (has : Nat → Nat → Bool) (y x : Nat) : Nat := lineRun (fun p => has y (w - 1 - p)) (w - 1 - x)

theorem upC_le (has : Nat → Nat → Bool) (y x : Nat) : upC has y x ≤ y := lineRun_le _ _
theorem downC_le (h : Nat) (has : Nat → Nat → Bool) (y x : Nat) : downC h has y x ≤ h - 1 - y := lineRun_le _ _
theorem leftC_le (has : Nat → Nat → Bool) (y x : Nat) : leftC has y x ≤ x := lineRun_le _ _
theorem rightC_le (w : Nat) (has : Nat → Nat → Bool) (y x : Nat) : rightC w has y x ≤ w - 1 - x := lineRun_le _ _

theorem isRun_up (has : Nat → Nat → Bool) (y x : Nat) :
    IsRun (fun j => has (y - 1 - j) x = false) y (upC has y x) :=
  isRun_lineRun (fun p => has p x) y

theorem isRun_left (has : Nat → Nat → Bool) (y x : Nat) :
    IsRun (fun j => has y (x - 1 - j) = false) x (leftC has y x) :=
  isRun_lineRun (fun p => has y p) x

theorem isRun_down (h : Nat) (has : Nat → Nat → Bool) (y x : Nat) (hy : y < h) :
    IsRun (fun j => has (y + 1 + j) x = false) (h - 1 - y) (downC h has y x) := by
  have := isRun_lineRun (fun p => has (h - 1 - p) x) (h - 1 - y)
  refine (isRun_congr ?_).1 this
  intro j hj
  rw [show h - 1 - (h - 1 - y - 1 - j) = y + 1 + j by omega]

theorem isRun_right (w : Nat) (has : Nat → Nat → Bool) (y x : Nat) (hx : x < w) :
    IsRun (fun j => has y (x + 1 + j) = false) (w - 1 - x) (rightC w has y x) := by
  have := isRun_lineRun (fun p => has y (w - 1 - p)) (w - 1 - x)
  refine (isRun_congr ?_).1 this
  intro j hj
  rw [show w - 1 - (w - 1 - x - 1 - j) = x + 1 + j by omega]

/-- Rule 2 at one cell, with the counts computed. -/
theorem rule2_iff (h w : Nat) (has : Nat → Nat → Bool) (v : Int) {y x : Nat} (hy : y < h) (hx : x < w) :
    (∃ up down left right : Nat,
      IsRun (fun j => has (y - 1 - j) x = false) y up ∧
      IsRun (fun j => has (y + 1 + j) x = false) (h - 1 - y) down ∧
      IsRun (fun j => has y (x - 1 - j) = false) x left ∧
      IsRun (fun j => has y (x + 1 + j) = false) (w - 1 - x) right ∧
      v = ((up + down + left + right : Nat) : Int)) ↔
    v = ((upC has y x + downC h has y x + leftC has y x + rightC w has y x : Nat) : Int) := by
  constructor
  · rintro ⟨u, d, l, r, hu, hd, hl, hr, hv⟩
    rw [isRun_unique hu (isRun_up has y x), isRun_unique hd (isRun_down h has y x hy),
      isRun_unique hl (isRun_left has y x), isRun_unique hr (isRun_right w has y x hx)] at hv
    exact hv
  · intro hv
    exact ⟨_, _, _, _, isRun_up has y x, isRun_down h has y x hy, isRun_left has y x, isRun_right w has y x hx, hv⟩

/-! ### meaning of the single constraints -/

theorem eval_eq0 (σ : Asg) (t : Nat) : eval σ (eq0 t) = some (.b true) ↔ σ.i t = 0 := by
  simp [eq0, evalOp, allInts]

theorem eval_recE (σ : Asg) (t hp tp : Nat) :
    eval σ (recE t hp tp) = some (.b true) ↔ σ.i t = if σ.b hp = true then 0 else σ.i tp + 1 := by
  cases hb : σ.b hp <;> simp [recE, evalOp, allInts, hb]

theorem forall_gridL {h w : Nat} {E : Nat → Nat → Expr} {P : Expr → Prop} :
    (∀ c ∈ gridL h w E, P c) ↔ ∀ y, y < h → ∀ x, x < w → P (E y x) := by
  constructor
  · intro hc y hy x hx
    exact hc _ (mem_gridL.2 ⟨y, x, hy, hx, rfl⟩)
  · intro hc c hm
    obtain ⟨y, x, hy, hx, rfl⟩ := mem_gridL.1 hm
    exact hc y hy x hx

theorem forall_mapRange {n : Nat} {E : Nat → Expr} {P : Expr → Prop} :
    (∀ c ∈ (List.range n).map E, P c) ↔ ∀ j, j < n → P (E j) := by
  simp [List.mem_map, List.mem_range]

theorem forall_append {l₁ l₂ : List Expr} {P : Expr → Prop} :
    (∀ c ∈ l₁ ++ l₂, P c) ↔ (∀ c ∈ l₁, P c) ∧ ∀ c ∈ l₂, P c := by
  simp only [List.mem_append]
  constructor
  · intro h; exact ⟨fun c hc => h c (Or.inl hc), fun c hc => h c (Or.inr hc)⟩
  · rintro ⟨h1, h2⟩ c (hc | hc)
    · exact h1 c hc
    · exact h2 c hc

/-! ### the four sight arrays -/

section Sight
variable {h w : Nat} (σ : Asg) (has : Nat → Nat → Bool)
  (hg : ∀ y, y < h → ∀ x, x < w → has y x = σ.b (y * w + x))
include hg

theorem up_iff (b : Nat) (hh : 1 ≤ h) :
    (∀ c ∈ upCs h w b, eval σ c = some (.b true)) ↔
      ∀ y, y < h → ∀ x, x < w → σ.i (b + (y * w + x)) = (upC has y x : Int) := by
  unfold upCs
  rw [forall_append, forall_mapRange, forall_gridL]
  simp only [eval_eq0, eval_recE]
  have hline := fun x => line_iff (fun p => σ.i (b + (p * w + x))) (fun p => σ.b (p * w + x)) (h - 1)
  have hcg : ∀ y, y < h → ∀ x, x < w → lineRun (fun p => σ.b (p * w + x)) y = upC has y x := by
    intro y hy x hx
    exact lineRun_congr y (fun q hq => (hg q (by omega) x hx).symm)
  constructor
  · rintro ⟨h0, hrec⟩ y hy x hx
    have := (hline x).1 ⟨h0 x hx, fun p hp => hrec p hp x hx⟩ y (by omega)
    rw [this, hcg y hy x hx]
  · intro hall
    have hx := fun x (hx : x < w) => (hline x).2 (fun p hp => by
      rw [hall p (by omega) x hx, hcg p (by omega) x hx])
    exact ⟨fun x hxw => (hx x hxw).1, fun y hy x hxw => (hx x hxw).2 y hy⟩

theorem left_iff (b : Nat) (hw : 1 ≤ w) :
    (∀ c ∈ leftCs h w b, eval σ c = some (.b true)) ↔
      ∀ y, y < h → ∀ x, x < w → σ.i (b + (y * w + x)) = (leftC has y x : Int) := by
  unfold leftCs
  rw [forall_append, forall_mapRange, forall_gridL]
  simp only [eval_eq0, eval_recE]
  have hline := fun y => line_iff (fun p => σ.i (b + (y * w + p))) (fun p => σ.b (y * w + p)) (w - 1)
  have hcg : ∀ y, y < h → ∀ x, x < w → lineRun (fun p => σ.b (y * w + p)) x = leftC has y x := by
    intro y hy x hx
    exact lineRun_congr x (fun q hq => (hg y hy q (by omega)).symm)
  constructor
  · rintro ⟨h0, hrec⟩ y hy x hx
    have := (hline y).1 ⟨h0 y hy, fun p hp => hrec y hy p hp⟩ x (by omega)
    rw [this, hcg y hy x hx]
  · intro hall
    have hy := fun y (hy : y < h) => (hline y).2 (fun p hp => by
      rw [hall y hy p (by omega), hcg y hy p (by omega)])
    exact ⟨fun y hyh => (hy y hyh).1, fun y hyh x hx => (hy y hyh).2 x hx⟩

theorem down_iff (b : Nat) (hh : 1 ≤ h) :
    (∀ c ∈ downCs h w b, eval σ c = some (.b true)) ↔
      ∀ y, y < h → ∀ x, x < w → σ.i (b + (y * w + x)) = (downC h has y x : Int) := by
  unfold downCs
  rw [forall_append, forall_mapRange, forall_gridL]
  simp only [eval_eq0, eval_recE]
  have hline := fun x =>
    line_iff (fun p => σ.i (b + ((h - 1 - p) * w + x))) (fun p => σ.b ((h - 1 - p) * w + x)) (h - 1)
  have hcg : ∀ y, y < h → ∀ x, x < w →
      lineRun (fun p => σ.b ((h - 1 - p) * w + x)) (h - 1 - y) = downC h has y x := by
    intro y hy x hx
    exact lineRun_congr _ (fun q hq => (hg _ (by omega) x hx).symm)
  constructor
  · rintro ⟨h0, hrec⟩ y hy x hx
    have := (hline x).1 ⟨by simpa using h0 x hx, fun p hp => by
      have := hrec (h - 1 - (p + 1)) (by omega) x hx
      rwa [show h - 1 - (p + 1) + 1 = h - 1 - p by omega] at this⟩ (h - 1 - y) (by omega)
    rw [show h - 1 - (h - 1 - y) = y by omega] at this
    rw [this, hcg y hy x hx]
  · intro hall
    have hx := fun x (hx : x < w) => (hline x).2 (fun p hp => by
      rw [hall (h - 1 - p) (by omega) x hx, ← hcg (h - 1 - p) (by omega) x hx,
        show h - 1 - (h - 1 - p) = p by omega])
    refine ⟨fun x hxw => by simpa using (hx x hxw).1, fun y hy x hxw => ?_⟩
    have := (hx x hxw).2 (h - 1 - (y + 1)) (by omega)
    rwa [show h - 1 - (h - 1 - (y + 1) + 1) = y by omega, show h - 1 - (h - 1 - (y + 1)) = y + 1 by omega] at this

theorem right_iff (b : Nat) (hw : 1 ≤ w) :
    (∀ c ∈ rightCs h w b, eval σ c = some (.b true)) ↔
      ∀ y, y < h → ∀ x, x < w → σ.i (b + (y * w + x)) = (rightC w has y x : Int) := by
  unfold rightCs
  rw [forall_append, forall_mapRange, forall_gridL]
  simp only [eval_eq0, eval_recE]
  have hline := fun y =>
    line_iff (fun p => σ.i (b + (y * w + (w - 1 - p)))) (fun p => σ.b (y * w + (w - 1 - p))) (w - 1)
  have hcg : ∀ y, y < h → ∀ x, x < w →
      lineRun (fun p => σ.b (y * w + (w - 1 - p))) (w - 1 - x) = rightC w has y x := by
    intro y hy x hx
    exact lineRun_congr _ (fun q hq => (hg y hy _ (by omega)).symm)
  constructor
  · rintro ⟨h0, hrec⟩ y hy x hx
    have := (hline y).1 ⟨by simpa using h0 y hy, fun p hp => by
      have := hrec y hy (w - 1 - (p + 1)) (by omega)
      rwa [show w - 1 - (p + 1) + 1 = w - 1 - p by omega] at this⟩ (w - 1 - x) (by omega)
    rw [show w - 1 - (w - 1 - x) = x by omega] at this
    rw [this, hcg y hy x hx]
  · intro hall
    have hy := fun y (hy : y < h) => (hline y).2 (fun p hp => by
      rw [hall y hy (w - 1 - p) (by omega), ← hcg y hy (w - 1 - p) (by omega),
        show w - 1 - (w - 1 - p) = p by omega])
    refine ⟨fun y hyh => by simpa using (hy y hyh).1, fun y hyh x hx => ?_⟩
    have := (hy y hyh).2 (w - 1 - (x + 1)) (by omega)
    rwa [show w - 1 - (w - 1 - (x + 1) + 1) = x by omega, show w - 1 - (w - 1 - (x + 1)) = x + 1 by omega] at this

end Sight

/-! ### the remaining constraints -/

theorem sum_iff (h w : Nat) (σ : Asg) (bN bU bD bL bR : Nat) :
    (∀ c ∈ sumCs h w bN bU bD bL bR, eval σ c = some (.b true)) ↔
      ∀ y, y < h → ∀ x, x < w → σ.b (y * w + x) = true →
        σ.i (bN + (y * w + x)) = σ.i (bU + (y * w + x)) + σ.i (bL + (y * w + x)) + σ.i (bD + (y * w + x))
          + σ.i (bR + (y * w + x)) := by
  unfold sumCs
  rw [forall_gridL]
  apply forall_congr'; intro y; apply forall_congr'; intro _; apply forall_congr'; intro x
  apply forall_congr'; intro _
  cases hb : σ.b (y * w + x) <;> simp [evalOp, allInts, allBools, hb]

theorem vert_iff (h w : Nat) (σ : Asg) (bN : Nat) :
    (∀ c ∈ vertCs h w bN, eval σ c = some (.b true)) ↔
      ∀ y, y < h - 1 → ∀ x, x < w → σ.b (y * w + x) = true → σ.b ((y + 1) * w + x) = true →
        σ.i (bN + (y * w + x)) ≠ σ.i (bN + ((y + 1) * w + x)) := by
  unfold vertCs
  rw [forall_gridL]
  apply forall_congr'; intro y; apply forall_congr'; intro _; apply forall_congr'; intro x
  apply forall_congr'; intro _
  cases hb : σ.b (y * w + x) <;> cases hb' : σ.b ((y + 1) * w + x) <;> simp [evalOp, allInts, allBools, hb, hb']

theorem hor_iff (h w : Nat) (σ : Asg) (bN : Nat) :
    (∀ c ∈ horCs h w bN, eval σ c = some (.b true)) ↔
      ∀ y, y < h → ∀ x, x < w - 1 → σ.b (y * w + x) = true → σ.b (y * w + (x + 1)) = true →
        σ.i (bN + (y * w + x)) ≠ σ.i (bN + (y * w + (x + 1))) := by
  unfold horCs
  rw [forall_gridL]
  apply forall_congr'; intro y; apply forall_congr'; intro _; apply forall_congr'; intro x
  apply forall_congr'; intro _
  cases hb : σ.b (y * w + x) <;> cases hb' : σ.b (y * w + (x + 1)) <;> simp [evalOp, allInts, allBools, hb, hb']

theorem zero_iff (h w : Nat) (σ : Asg) (bN : Nat) :
    (∀ c ∈ zeroCs h w bN, eval σ c = some (.b true)) ↔
      ∀ y, y < h → ∀ x, x < w → σ.b (y * w + x) = false → σ.i (bN + (y * w + x)) = 0 := by
  unfold zeroCs
  rw [forall_gridL]
  apply forall_congr'; intro y; apply forall_congr'; intro _; apply forall_congr'; intro x
  apply forall_congr'; intro _
  cases hb : σ.b (y * w + x) <;> simp [evalOp, allInts, allBools, hb]

theorem clue_iff (pb : Problem) (σ : Asg) (bN : Nat) :
    (∀ c ∈ clueL pb bN, eval σ c = some (.b true)) ↔
      ∀ y, y < pb.height → ∀ x, x < pb.width → 0 ≤ val pb y x →
        σ.b (y * pb.width + x) = true ∧ σ.i (bN + (y * pb.width + x)) = val pb y x := by
  unfold clueL
  simp only [List.mem_flatMap]
  constructor
  · intro hc y hy x hx hv
    have h1 := hc (.node .eq [.ivar (bN + (y * pb.width + x)), .litI (val pb y x)])
      ⟨(y, x), mem_cellsOf.2 ⟨hy, hx⟩, by simp [hv]⟩
    have h2 := hc (.bvar (y * pb.width + x)) ⟨(y, x), mem_cellsOf.2 ⟨hy, hx⟩, by simp [hv]⟩
    refine ⟨by simpa using h2, by simpa [evalOp, allInts] using h1⟩
  · rintro hall c ⟨p, hp, hc⟩
    obtain ⟨hy, hx⟩ := mem_cellsOf.1 hp
    split at hc
    · next hv =>
      obtain ⟨h1, h2⟩ := hall p.1 hy p.2 hx hv
      simp only [List.mem_cons, List.not_mem_nil, or_false] at hc
      rcases hc with rfl | rfl
      · simp [evalOp, allInts, h2]
      · simp [h1]
    · simp at hc

/-! ### typing -/

theorem locCs_wt (pb : Problem) (bN bU bD bL bR : Nat) : ∀ c ∈ locCs pb bN bU bD bL bR, wtB c = true := by
  intro c hc
  simp only [locCs, upCs, downCs, leftCs, rightCs, sumCs, vertCs, horCs, zeroCs, clueL, List.mem_append,
    List.mem_map, List.mem_range, mem_gridL, List.mem_flatMap] at hc
  rcases hc with ((((((((⟨_, _, rfl⟩ | ⟨_, _, _, _, rfl⟩) | (⟨_, _, rfl⟩ | ⟨_, _, _, _, rfl⟩)) |
    (⟨_, _, rfl⟩ | ⟨_, _, _, _, rfl⟩)) | (⟨_, _, rfl⟩ | ⟨_, _, _, _, rfl⟩)) | ⟨_, _, _, _, rfl⟩) |
    ⟨_, _, _, _, rfl⟩) | ⟨_, _, _, _, rfl⟩) | ⟨_, _, _, _, rfl⟩) | ⟨p, _, hc⟩
  all_goals first
    | (simp [eq0, recE, wtB, wtBs, wtIs, wtI])
    | (split at hc
       · simp only [List.mem_cons, List.not_mem_nil, or_false] at hc
         rcases hc with rfl | rfl <;> simp [wtB, wtIs, wtI]
       · simp at hc)

end Cspuz.Proofs.C11ViewB
