/-
  C11 / Nurikabe: a concrete instance whose rules are satisfiable (non-vacuity of the rule specification).
  Board 1 × 3 with the clue 1 in the left corner; answer: white, black, black.
-/
import CspuzModel.Spec.PuzzleRules.Nurikabe
import Mathlib.Data.Set.Card
namespace Cspuz.Proofs.C11NurikabeEx
open Cspuz Cspuz.Spec Cspuz.Puzzles.Nurikabe Cspuz.Spec.Nurikabe

def exPb : Problem := { height := 1, width := 3, problem := [[1, 0, 0]] }

def exWhite (_ x : Nat) : Bool := decide (x = 0)

theorem val_ex (x : Nat) : val exPb 0 x = if x = 0 then 1 else 0 := by
  match x with
  | 0 => rfl
  | 1 => rfl
  | 2 => rfl
  | n + 3 => simp [val, exPb]

theorem isClue_ex {y x : Nat} (hy : y < 1) : IsClue exPb y x ↔ x = 0 := by
  have : y = 0 := by omega
  subst this
  unfold IsClue
  rw [val_ex]
  by_cases h : x = 0 <;> simp [h]

theorem white_mem {p : Nat × Nat} : p ∈ whiteSet exPb exWhite ↔ p = (0, 0) := by
  obtain ⟨y, x⟩ := p
  simp only [whiteSet, cellSet, Set.mem_ofPred_eq, exPb, exWhite, decide_eq_true_eq, Prod.mk.injEq]
  omega

theorem island_ex : island exPb exWhite (0, 0) = {(0, 0)} := by
  ext q
  simp only [island, Set.mem_ofPred_eq, Set.mem_singleton_iff]
  constructor
  · rintro ⟨_, hq, _⟩; exact white_mem.1 hq
  · rintro rfl
    exact ⟨white_mem.2 rfl, white_mem.2 rfl, SimpleGraph.Reachable.refl _⟩

theorem rulesOn_ex : RulesOn exPb exWhite := by
  refine ⟨?_, ?_, ?_, ?_, ?_, ?_, ?_⟩
  · intro y hy x _ hc
    have := (isClue_ex (show y < 1 from hy)).1 hc
    simp [exWhite, this]
  · intro y hy x _ hw
    have hy0 : y = 0 := by have : y < 1 := hy; omega
    have hx0 : x = 0 := by simpa [exWhite] using hw
    subst hy0 hx0
    refine ⟨(0, 0), ⟨by decide, by decide, (isClue_ex (by decide)).2 rfl,
      white_mem.2 rfl, white_mem.2 rfl, SimpleGraph.Reachable.refl _⟩, ?_⟩
    rintro ⟨cy, cx⟩ ⟨c1, _, c3, _⟩
    have hcy : cy = 0 := by have : cy < 1 := c1; omega
    subst hcy
    have := (isClue_ex (y := 0) (x := cx) (by decide)).1 c3
    rw [this]
  · intro y hy x _ hv
    have hy0 : y = 0 := by have : y < 1 := hy; omega
    subst hy0
    rw [val_ex] at hv ⊢
    by_cases hx0 : x = 0
    · subst hx0
      rw [island_ex, Set.ncard_singleton]; rfl
    · rw [if_neg hx0] at hv; omega
  · intro low hlow
    simp [exPb] at hlow
  · rintro ⟨⟨y, x⟩, hy, hx, hb⟩ ⟨⟨y', x'⟩, hy', hx', hb'⟩
    simp only [exPb] at hy hx hy' hx'
    simp only [exWhite, decide_eq_false_iff_not] at hb hb'
    have e1 : y = 0 := by omega
    have e2 : y' = 0 := by omega
    subst e1 e2
    have c1 : x = 1 ∨ x = 2 := by omega
    have c2 : x' = 1 ∨ x' = 2 := by omega
    rcases c1 with rfl | rfl <;> rcases c2 with rfl | rfl
    · exact SimpleGraph.Reachable.refl _
    · exact SimpleGraph.Adj.reachable (Or.inl ⟨rfl, Or.inl rfl⟩)
    · exact SimpleGraph.Adj.reachable (Or.inl ⟨rfl, Or.inr rfl⟩)
    · exact SimpleGraph.Reachable.refl _
  · exact ⟨0, by decide, 1, by decide, rfl⟩
  · intro y x hy _
    simp only [exPb] at hy
    omega

/-- White, black, black obeys the rules of the instance. -/
theorem rules_ex : Rules exPb [.b true, .b false, .b false] := ⟨exWhite, rfl, rulesOn_ex⟩

end Cspuz.Proofs.C11NurikabeEx
