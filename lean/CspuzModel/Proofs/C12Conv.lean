/-
  C12 — `conv2d` and `four_neighbors` / `four_neighbor_indices`.
-/
import CspuzModel.Spec.ArrayOps
import CspuzModel.Proofs.EvalLemmas
import CspuzModel.Proofs.C13
namespace Cspuz.Proofs.C12Conv
set_option linter.unusedSimpArgs false
set_option linter.unusedVariables false
open Cspuz Cspuz.Spec Cspuz.Proofs Cspuz.Proofs.C13

theorem sliceSel_window (n y h : Nat) (hle : y + h ≤ n) :
    sliceSel n (some (y : Int)) (some ((y : Int) + (h : Int))) none = .ok ((List.range h).map (y + ·)) := by
  unfold sliceSel
  simp only [Option.getD_none]
  rw [if_neg (by decide), if_pos (by decide)]
  have hlo : clampPos n 0 (some (y : Int)) = (y : Int) := by
    simp only [clampPos]
    rw [if_neg (by omega), if_neg (by omega), if_neg (by omega)]
  have hhi : clampPos n n (some ((y : Int) + (h : Int))) = (y : Int) + (h : Int) := by
    simp only [clampPos]
    rw [if_neg (by omega), if_neg (by omega), if_neg (by omega)]
  rw [hlo, hhi, asc_sel n y (y + h) 1 (by decide) (by omega) (by omega)]
  congr 1
  by_cases h0 : h = 0
  · subst h0; simp
  · rw [if_neg (by omega)]
    have : ((y : Int) + (h : Int) - (y : Int) + 1 - 1) / 1 = (h : Int) := by
      rw [Int.ediv_one]; omega
    rw [this, Int.toNat_natCast]
    apply List.map_congr_left
    intro j _
    omega

/-- the expressions in the window, row-major -/
def winList (data : List Expr) (W h w y x : Nat) : List Expr :=
  (windowCells h w y x).map fun p => data.getD (p.1 * W + p.2) .litNone

theorem mem_windowCells {h w y x : Nat} {p : Nat × Nat} (hp : p ∈ windowCells h w y x) :
    y ≤ p.1 ∧ p.1 < y + h ∧ x ≤ p.2 ∧ p.2 < x + w := by
  simp only [windowCells, List.mem_flatMap, List.mem_map, List.mem_range] at hp
  obtain ⟨dy, hdy, dx, hdx, rfl⟩ := hp
  simp; omega

theorem winList_some (data : List Expr) (H W h w y x : Nat) (hl : data.length = H * W)
    (hy : y + h ≤ H) (hx : x + w ≤ W) :
    (winList data W h w y x).map some = (windowCells h w y x).map (cellAt data W) := by
  simp only [winList, List.map_map]
  apply List.map_congr_left
  intro p hp
  obtain ⟨h1, h2, h3, h4⟩ := mem_windowCells hp
  have := mul_add_lt (h := H) (w := W) (y := p.1) (x := p.2) (by omega) (by omega)
  simp [cellAt, List.getD, List.getElem?_eq_getElem (show p.1 * W + p.2 < data.length by omega)]

theorem convWindow_eq (data : List Expr) (H W h w y x : Nat) (hl : data.length = H * W)
    (hy : y + h ≤ H) (hx : x + w ≤ W) :
    convWindow data H W (h : Int) (w : Int) y x = .ok (winList data W h w y x) := by
  unfold convWindow
  simp only [getitem2D]
  rw [getitemPair_eq data H W hl]
  simp only [specPair, axisSel, sliceSel_window H y h hy, sliceSel_window W x w hx, ok_bind]
  have hcells : ((List.range h).map (y + ·)).flatMap (fun y' => ((List.range w).map (x + ·)).map fun x' => (y', x'))
      = windowCells h w y x := by
    simp [windowCells, List.flatMap_map, List.map_map, Function.comp_def]
  have hm : (windowCells h w y x).mapM (fun (p : Nat × Nat) => pick (toRows data H W) p.1 p.2)
      = .ok (winList data W h w y x) := by
    apply mapM_eq_ok_map
    intro p hp
    obtain ⟨h1, h2, h3, h4⟩ := mem_windowCells hp
    have hlt := mul_add_lt (h := H) (w := W) (y := p.1) (x := p.2) (by omega) (by omega)
    rw [pick_toRows data H W p.1 p.2 hl (by omega) (by omega)]
    have hc : (p.1 : Int) * (W : Int) + (p.2 : Int) = ((p.1 * W + p.2 : Nat) : Int) := by
      simp only [Int.natCast_add, Int.natCast_mul]
    rw [hc, pyIndex_natCast data _ (by omega)]
    simp [List.getD, List.getElem?_eq_getElem (show p.1 * W + p.2 < data.length by omega)]
  rw [hcells]
  have hm' : (windowCells h w y x).mapM (fun x => match x with | (y, x) => pick (toRows data H W) y x)
      = .ok (winList data W h w y x) := hm
  simp [hm']

/-- all cells of an `a × b` grid, row-major -/
def grid (a b : Nat) : List (Nat × Nat) := (List.range a).flatMap fun y => (List.range b).map fun x => (y, x)

theorem grid_length (a b : Nat) : (grid a b).length = a * b := by
  induction a with
  | zero => simp [grid]
  | succ a ih =>
    simp only [grid, List.range_succ, List.flatMap_append, List.flatMap_cons, List.flatMap_nil,
      List.append_nil, List.length_append, List.length_map, List.length_range] at ih ⊢
    rw [ih, Nat.succ_mul]

theorem grid_getElem? (a b y x : Nat) (hy : y < a) (hx : x < b) : (grid a b)[y * b + x]? = some (y, x) := by
  induction a with
  | zero => omega
  | succ a ih =>
    have hsplit : grid (a + 1) b = grid a b ++ (List.range b).map fun x => (a, x) := by
      simp [grid, List.range_succ, List.flatMap_append]
    rw [hsplit]
    by_cases hya : y < a
    · have := mul_add_lt (h := a) (w := b) hya hx
      rw [List.getElem?_append_left (by rw [grid_length]; exact this)]
      exact ih hya
    · have : y = a := by omega
      subst this
      rw [List.getElem?_append_right (by rw [grid_length]; omega), grid_length]
      simp [hx]

theorem mem_grid {a b : Nat} {p : Nat × Nat} (hp : p ∈ grid a b) : p.1 < a ∧ p.2 < b := by
  simp only [grid, List.mem_flatMap, List.mem_map, List.mem_range] at hp
  obtain ⟨y, hy, x, hx, rfl⟩ := hp
  exact ⟨hy, hx⟩

def convCells (op : Op) (data : List Expr) (W h w rh rw : Nat) : List Expr :=
  (grid rh rw).map fun yx => .node op (winList data W h w yx.1 yx.2)

theorem conv2d_eq (data : List Expr) (H W h w : Nat) (cop : ConvOp) (op : Op) (hop : cop.op? = some op)
    (hl : data.length = H * W) :
    conv2d (.arr2 true H W data) (h : Int) (w : Int) cop =
      .ok (.arr2 true (H + 1 - h) (W + 1 - w) (convCells op data W h w (H + 1 - h) (W + 1 - w))) := by
  have e1 : ((H : Int) - (h : Int) + 1).toNat = H + 1 - h := by omega
  have e2 : ((W : Int) - (w : Int) + 1).toNat = W + 1 - w := by omega
  simp only [conv2d, hop, e1, e2]
  have hm : (grid (H + 1 - h) (W + 1 - w)).mapM
      (fun (yx : Nat × Nat) => (convWindow data H W (h : Int) (w : Int) yx.1 yx.2).map (Expr.node op))
      = .ok (convCells op data W h w (H + 1 - h) (W + 1 - w)) := by
    apply mapM_eq_ok_map
    intro p hp
    obtain ⟨h1, h2⟩ := mem_grid hp
    rw [convWindow_eq data H W h w p.1 p.2 hl (by omega) (by omega)]
    rfl
  have hm' : ((List.range (H + 1 - h)).flatMap fun y => (List.range (W + 1 - w)).map fun x => (y, x)).mapM
      (fun (yx : Nat × Nat) => (convWindow data H W (h : Int) (w : Int) yx.1 yx.2).map (Expr.node op))
      = .ok (convCells op data W h w (H + 1 - h) (W + 1 - w)) := hm
  rw [hm']

/-- The value of a window under an assignment that makes every array element Boolean. -/
theorem eval_window {σ : Asg} {data : List Expr} {H W h w y x : Nat} (hl : data.length = H * W)
    (hy : y + h ≤ H) (hx : x + w ≤ W) (v : Nat × Nat → Bool)
    (hv : ∀ p ∈ windowCells h w y x, ∀ e, cellAt data W p = some e → eval σ e = some (.b (v p))) :
    eval σ (.node .and (winList data W h w y x)) = some (.b ((windowCells h w y x).all v)) ∧
    eval σ (.node .or (winList data W h w y x)) = some (.b ((windowCells h w y x).any v)) := by
  have hmap : (winList data W h w y x).map (eval σ) = ((windowCells h w y x).map v).map fun b => some (.b b) := by
    simp only [winList, List.map_map]
    apply List.map_congr_left
    intro p hp
    obtain ⟨h1, h2, h3, h4⟩ := mem_windowCells hp
    have hlt := mul_add_lt (h := H) (w := W) (y := p.1) (x := p.2) (by omega) (by omega)
    have hc : cellAt data W p = some (data.getD (p.1 * W + p.2) .litNone) := by
      simp [cellAt, List.getD, List.getElem?_eq_getElem (show p.1 * W + p.2 < data.length by omega)]
    simpa using hv p hp _ hc
  constructor
  · rw [eval_node, hmap, evalOp_and]; simp [List.all_map, Function.comp_def]
  · rw [eval_node, hmap, evalOp_or]; simp [List.any_map, Function.comp_def]

/-- `conv2d`, packaged: shape, cells, and the value of every cell. -/
theorem conv2d_spec (data : List Expr) (H W h w : Nat) (cop : ConvOp) (op : Op) (hop : cop.op? = some op)
    (hl : data.length = H * W) :
    ∃ cells, conv2d (.arr2 true H W data) (h : Int) (w : Int) cop
        = .ok (.arr2 true (H + 1 - h) (W + 1 - w) cells) ∧
      cells.length = (H + 1 - h) * (W + 1 - w) ∧
      ∀ y x, y < H + 1 - h → x < W + 1 - w →
        ∃ l, cells[y * (W + 1 - w) + x]? = some (.node op l) ∧
          l.map some = (windowCells h w y x).map (cellAt data W) ∧
          ∀ σ (v : Nat × Nat → Bool),
            (∀ p ∈ windowCells h w y x, ∀ e, cellAt data W p = some e → eval σ e = some (.b (v p))) →
            eval σ (.node op l) = some (.b (windowSem cop (windowCells h w y x) v)) := by
  refine ⟨_, conv2d_eq data H W h w cop op hop hl, by simp [convCells, grid_length], ?_⟩
  intro y x hy hx
  refine ⟨winList data W h w y x, ?_, winList_some data H W h w y x hl (by omega) (by omega), ?_⟩
  · simp [convCells, grid_getElem? _ _ y x hy hx]
  · intro σ v hv
    obtain ⟨h1, h2⟩ := eval_window (σ := σ) hl (show y + h ≤ H by omega) (show x + w ≤ W by omega) v hv
    cases cop <;> simp [ConvOp.op?] at hop <;> subst hop
    · exact h1
    · exact h2

theorem conv2d_bad (v : PyV) (h w : Int) (cop : ConvOp) :
    (∀ H W data, v = .arr2 true H W data → cop = .bad → conv2d v h w cop = .error .valueError) ∧
    ((∀ H W data, v ≠ .arr2 true H W data) → conv2d v h w cop = .error .attributeError) := by
  constructor
  · rintro H W data rfl rfl; rfl
  · intro hv
    cases v with
    | arr2 k H W data =>
      cases k
      · rfl
      · exact absurd rfl (hv H W data)
    | _ => rfl

/-! ### `four_neighbors` -/

def inB (H W : Nat) (p : Int × Int) : Bool :=
  decide (0 ≤ p.1 ∧ p.1 < (H : Int) ∧ 0 ≤ p.2 ∧ p.2 < (W : Int))

theorem nbCandidates_eq (H W y x : Nat) (hy : y < H) (hx : x < W) :
    nbCandidates H W (y : Int) (x : Int) = neighbours H W (y : Int) (x : Int) := by
  have b1 : inB H W ((y : Int) - 1, (x : Int)) = decide ((y : Int) > 0) := by
    simp only [inB]; apply decide_eq_decide.2; omega
  have b2 : inB H W ((y : Int) + 1, (x : Int)) = decide ((y : Int) < (H : Int) - 1) := by
    simp only [inB]; apply decide_eq_decide.2; omega
  have b3 : inB H W ((y : Int), (x : Int) - 1) = decide ((x : Int) > 0) := by
    simp only [inB]; apply decide_eq_decide.2; omega
  have b4 : inB H W ((y : Int), (x : Int) + 1) = decide ((x : Int) < (W : Int) - 1) := by
    simp only [inB]; apply decide_eq_decide.2; omega
  have hn : neighbours H W (y : Int) (x : Int) =
      [((y : Int) - 1, (x : Int)), ((y : Int) + 1, (x : Int)), ((y : Int), (x : Int) - 1),
        ((y : Int), (x : Int) + 1)].filter (inB H W) := rfl
  rw [hn]
  simp only [List.filter, b1, b2, b3, b4, nbCandidates]
  by_cases h1 : 0 < y <;> by_cases h2 : (y : Int) < (H : Int) - 1 <;>
    by_cases h3 : 0 < x <;> by_cases h4 : (x : Int) < (W : Int) - 1 <;>
    simp [h1, h2, h3, h4]

theorem mem_neighbours {H W : Nat} {y x : Int} {p : Int × Int} (hp : p ∈ neighbours H W y x) :
    0 ≤ p.1 ∧ p.1 < (H : Int) ∧ 0 ≤ p.2 ∧ p.2 < (W : Int) := by
  simp only [neighbours, List.mem_filter, decide_eq_true_eq] at hp
  exact hp.2

theorem parseRange_idx (n : Nat) (k : Int) (h : 0 ≤ k ∧ k < (n : Int)) :
    parseRange n (.idx k) = .ok (true, k, k + 1, 1) := by
  have hk : ¬ k < 0 := by omega
  simp [parseRange, hk, h.1, h.2]

theorem rangeSize_idx (k : Int) : ∃ n, rangeSize k (k + 1) 1 = .ok n := by
  have : ¬ k ≥ k + 1 := by omega
  refine ⟨pyDiv (k + 1 - k + 1 - 1) 1, ?_⟩
  simp [rangeSize, this]

theorem getCell_eq (data : List Expr) (H W : Nat) (hl : data.length = H * W) (y x : Int)
    (hy : 0 ≤ y ∧ y < (H : Int)) (hx : 0 ≤ x ∧ x < (W : Int)) :
    getCell data H W y x = .ok (data.getD (y.toNat * W + x.toNat) .litNone) ∧
      cellAt data W (y.toNat, x.toNat) = some (data.getD (y.toNat * W + x.toNat) .litNone) := by
  have hlt := mul_add_lt (h := H) (w := W) (y := y.toNat) (x := x.toNat) (by omega) (by omega)
  have hget : data[y.toNat * W + x.toNat]? = some (data.getD (y.toNat * W + x.toNat) .litNone) := by
    simp [List.getD, List.getElem?_eq_getElem (show y.toNat * W + x.toNat < data.length by omega)]
  refine ⟨?_, hget⟩
  have hc : y * (W : Int) + x = ((y.toNat * W + x.toNat : Nat) : Int) := by
    simp only [Int.natCast_add, Int.natCast_mul]
    rw [Int.toNat_of_nonneg hy.1, Int.toNat_of_nonneg hx.1]
  have hidx : pyIndex data (y * (W : Int) + x) = .ok (data.getD (y.toNat * W + x.toNat) .litNone) := by
    rw [hc, pyIndex_natCast data _ (by omega), hget]
  obtain ⟨n1, hn1⟩ := rangeSize_idx y
  obtain ⟨n2, hn2⟩ := rangeSize_idx x
  simp [getCell, getitem2D, getitemPair, parseRange_idx H y hy, parseRange_idx W x hx, hn1, hn2, hidx]

theorem four_neighbors_spec (k : Bool) (data : List Expr) (H W y x : Nat) (hl : data.length = H * W)
    (hy : y < H) (hx : x < W) (a : NbArgs) (ha : a = .two y x ∨ a = .tuple y x) :
    fourNeighborIndices H W a = .ok (neighbours H W y x) ∧
    ∃ l, fourNeighbors (.arr2 k H W data) a = .ok (.arr1 k l) ∧
      l.map some = (neighbours H W y x).map fun p => cellAt data W (p.1.toNat, p.2.toNat) := by
  have hcell : a.cell = .ok ((y : Int), (x : Int)) := by rcases ha with rfl | rfl <;> rfl
  refine ⟨by simp [fourNeighborIndices, hcell, nbCandidates_eq H W y x hy hx], ?_⟩
  refine ⟨(neighbours H W y x).map fun p => data.getD (p.1.toNat * W + p.2.toNat) .litNone, ?_, ?_⟩
  · have hm : (neighbours H W (y : Int) (x : Int)).mapM (fun (p : Int × Int) => getCell data H W p.1 p.2)
        = .ok ((neighbours H W y x).map fun p => data.getD (p.1.toNat * W + p.2.toNat) .litNone) := by
      apply mapM_eq_ok_map
      intro p hp
      obtain ⟨h1, h2, h3, h4⟩ := mem_neighbours hp
      exact (getCell_eq data H W hl p.1 p.2 ⟨h1, h2⟩ ⟨h3, h4⟩).1
    simp [fourNeighbors, hcell, nbCandidates_eq H W y x hy hx, hm]
  · rw [List.map_map]
    apply List.map_congr_left
    intro p hp
    obtain ⟨h1, h2, h3, h4⟩ := mem_neighbours hp
    exact (getCell_eq data H W hl p.1 p.2 ⟨h1, h2⟩ ⟨h3, h4⟩).2.symm

theorem four_neighbors_bad_call (v : PyV) (H W : Nat) (a : NbArgs)
    (ha : (∃ y, a = .oneInt y) ∨ ∃ y x x', a = .tupleAndInt y x x') (hv : ∃ k h w d, v = .arr2 k h w d) :
    fourNeighborIndices H W a = .error .typeError ∧ fourNeighbors v a = .error .typeError := by
  obtain ⟨k, h, w, d, rfl⟩ := hv
  rcases ha with ⟨y, rfl⟩ | ⟨y, x, x', rfl⟩ <;> exact ⟨rfl, rfl⟩

end Cspuz.Proofs.C12Conv
