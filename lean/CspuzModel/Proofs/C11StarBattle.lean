/-
  C11 / star_battle — the program posted by `solve_star_battle` encodes the rules of Star Battle.
  Part 1: closed form of the posted program.
-/
import CspuzModel.Spec.PuzzleRules.StarBattle
import CspuzModel.Proofs.C11CL
import CspuzModel.Proofs.C11Grid
namespace Cspuz.Proofs.C11StarBattle
open Cspuz Cspuz.Spec Cspuz.Puzzles Cspuz.Puzzles.StarBattle Cspuz.Proofs Cspuz.Proofs.C11CL

/-! ### Pieces of the program -/

/-- `c.cond(1, 0)` -/
def iteE (c : Expr) : Expr := .node .ite [c, .litI 1, .litI 0]

/-- `sum(line.cond(1, 0)) == k` -/
def lineE (vars : List Expr) (k : Int) : Expr := .node .eq [sumE (vars.map iteE), .litI k]

theorem sumE_node (xs : List Expr) (hne : xs ≠ []) : ∃ l, sumE xs = .node .add l := by
  rcases List.eq_nil_or_concat xs with h | ⟨ys, y, rfl⟩
  · exact absurd h hne
  · exact ⟨[sumE ys, y], by simp [sumE, List.foldl_append]⟩

theorem lineCount_closed (vars : List Expr) (hne : vars ≠ []) (k : Int) :
    lineCount (.arr1 true vars) k = .ok [lineE vars k] := by
  unfold lineCount
  rw [callM_cond_arr1]
  simp only [ok_bind]
  rw [pySum_arr1 _ (by
    intro x hx
    simp only [List.mem_map] at hx
    obtain ⟨c, _, rfl⟩ := hx
    exact ⟨.ite, _, rfl, rfl⟩)]
  simp only [ok_bind]
  obtain ⟨l, hl⟩ := sumE_node (vars.map fun c => Expr.node .ite [c, .litI 1, .litI 0]) (by simpa using hne)
  have hl' : sumE (vars.map iteE) = .node .add l := hl
  rw [hl, binop_eq_node_lit .add l k rfl]
  simp only [ok_bind]
  rw [ensureV_scalar _ rfl, lineE, hl']

theorem zipWith_map_map {ι α β γ : Type} (f : α → β → γ) (fa : ι → α) (fb : ι → β) (L : List ι) :
    List.zipWith f (L.map fa) (L.map fb) = L.map fun p => f (fa p) (fb p) := by
  induction L with
  | nil => rfl
  | cons a L ih => simp [ih]

/-- The variables selected by a pair of index lists. -/
def selE (n : Nat) (ys xs : List Nat) : List Expr := ys.flatMap fun y => xs.map fun x => Expr.bvar (y * n + x)

theorem selE_length (n : Nat) (ys xs : List Nat) : (selE n ys xs).length = ys.length * xs.length := by
  unfold selE
  induction ys with
  | nil => simp
  | cons a l ih => simp [List.flatMap_cons, Nat.succ_mul, Nat.add_comm]

theorem noPair_closed (n : Nat) (ky1 kx1 ky2 kx2 : AxisKey) (ys1 xs1 ys2 xs2 : List Nat)
    (hy1 : axisSel n ky1 = .ok (false, ys1)) (hx1 : axisSel n kx1 = .ok (false, xs1))
    (hy2 : axisSel n ky2 = .ok (false, ys2)) (hx2 : axisSel n kx2 = .ok (false, xs2))
    (by1 : ∀ y ∈ ys1, y < n) (bx1 : ∀ x ∈ xs1, x < n) (by2 : ∀ y ∈ ys2, y < n) (bx2 : ∀ x ∈ xs2, x < n)
    (hly : ys2.length = ys1.length) (hlx : xs2.length = xs1.length) :
    noPair (.arr2 true n n ((List.range (n * n)).map Expr.bvar)) ky1 kx1 ky2 kx2
      = .ok ((List.zipWith (fun a b => Expr.node .and [a, b]) (selE n ys1 xs1) (selE n ys2 xs2)).map
          fun e => .node .not [e]) := by
  unfold noPair
  rw [getitemV_slices true Expr.bvar n n ky1 kx1 ys1 xs1 hy1 hx1 by1 bx1]
  simp only [ok_bind]
  rw [getitemV_slices true Expr.bvar n n ky2 kx2 ys2 xs2 hy2 hx2 by2 bx2]
  simp only [ok_bind, hly, hlx]
  change (binop BinOp.and_ (PyV.arr2 true ys1.length xs1.length (selE n ys1 xs1))
    (PyV.arr2 true ys1.length xs1.length (selE n ys2 xs2)) >>= _) = _
  rw [binop_bool_arr2 .and_ .and (Or.inl ⟨rfl, rfl⟩) _ _ _ _ (selE_length n ys1 xs1)
    (by rw [← hly, ← hlx]; exact selE_length n ys2 xs2)]
  simp only [ok_bind]
  rw [unop_invert_arr2 _ _ _ (by
    rw [List.length_zipWith, selE_length, selE_length, hly, hlx, Nat.min_self])]
  simp only [ok_bind]
  rw [ensureV_arr2]
  intro x hx
  simp only [List.mem_map] at hx
  obtain ⟨_, _, rfl⟩ := hx
  rfl

/-! ### Closed form -/

def rowV (n i : Nat) : List Expr := (List.range n).map fun x => Expr.bvar (i * n + x)
def colV (n i : Nat) : List Expr := (List.range n).map fun y => Expr.bvar (y * n + i)

def linesC (n : Nat) (k : Int) : List (List Expr) :=
  (List.range n).map fun i => [lineE (rowV n i) k, lineE (colV n i) k]

/-- `~(a & b)` for every pair of cells `(fa p, fb p)`, `p ∈ L`. -/
def adjC (L : List (Nat × Nat)) (fa fb : Nat × Nat → Nat) : List Expr :=
  L.map fun p => .node .not [.node .and [.bvar (fa p), .bvar (fb p)]]

/-- The star variables of the cells carrying region id `i`, row-major. -/
def regionV (n : Nat) (reg : Nat → Nat → Int) (i : Nat) : List Expr :=
  (cellsOf n n).flatMap fun p => if reg p.1 p.2 = (i : Int) then [Expr.bvar (p.1 * n + p.2)] else []

def regionsC (n : Nat) (reg : Nat → Nat → Int) (k : Int) : List (List Expr) :=
  (List.range n).map fun i => [.node .eq [countTrueE (regionV n reg i), .litI k]]

def closedCs (n : Nat) (reg : Nat → Nat → Int) (k : Int) : List Expr :=
  (linesC n k).flatten ++
  adjC (cellsOf (n - 1) n) (fun p => p.1 * n + p.2) (fun p => (p.1 + 1) * n + p.2) ++
  adjC (cellsOf n (n - 1)) (fun p => p.1 * n + p.2) (fun p => p.1 * n + (p.2 + 1)) ++
  adjC (cellsOf (n - 1) (n - 1)) (fun p => p.1 * n + p.2) (fun p => (p.1 + 1) * n + (p.2 + 1)) ++
  adjC (cellsOf (n - 1) (n - 1)) (fun p => p.1 * n + (p.2 + 1)) (fun p => (p.1 + 1) * n + p.2) ++
  (regionsC n reg k).flatten

def closed (pb : Problem) : PuzzleProg :=
  { decls := List.replicate (pb.n * pb.n) .bool,
    cs := closedCs pb.n (region pb) pb.k,
    keys := List.range (pb.n * pb.n) }

theorem selE_cells (n a b : Nat) (fy fx : Nat → Nat) :
    selE n ((List.range a).map fy) ((List.range b).map fx)
      = (cellsOf a b).map fun p => Expr.bvar (fy p.1 * n + fx p.2) := by
  simp [selE, cellsOf, List.flatMap_map, List.map_flatMap, List.map_map, Function.comp_def]

theorem adj_zip (n a b : Nat) (fy1 fx1 fy2 fx2 : Nat → Nat) :
    (List.zipWith (fun a b => Expr.node .and [a, b])
        (selE n ((List.range a).map fy1) ((List.range b).map fx1))
        (selE n ((List.range a).map fy2) ((List.range b).map fx2))).map (fun e => Expr.node .not [e])
      = adjC (cellsOf a b) (fun p => fy1 p.1 * n + fx1 p.2) (fun p => fy2 p.1 * n + fx2 p.2) := by
  rw [selE_cells, selE_cells, zipWith_map_map, List.map_map]
  rfl

theorem mem_cellsOf {h w : Nat} {p : Nat × Nat} : p ∈ cellsOf h w ↔ p.1 < h ∧ p.2 < w := by
  simp only [cellsOf, List.mem_flatMap, List.mem_range, List.mem_map]
  constructor
  · rintro ⟨y, hy, x, hx, rfl⟩; exact ⟨hy, hx⟩
  · rintro ⟨hy, hx⟩; exact ⟨p.1, hy, p.2, hx, rfl⟩

theorem tableGet_region (pb : Problem) (hwf : WellFormed pb) (y x : Nat) (hy : y < pb.n) (hx : x < pb.n) :
    tableGet pb.blocks (y : Int) (x : Int) = .ok (region pb y x) := by
  obtain ⟨hl, hr, _⟩ := hwf
  have hy' : y < pb.blocks.length := by omega
  have hrow : (pb.blocks[y]).length = pb.n := hr _ (List.getElem_mem hy')
  simp only [tableGet, region]
  rw [Cspuz.Proofs.C13.pyIndex_natCast _ _ hy', List.getElem?_eq_getElem hy']
  simp only [ok_bind]
  rw [Cspuz.Proofs.C13.pyIndex_natCast _ _ (by omega), List.getElem?_eq_getElem (by omega)]
  simp [List.getElem?_eq_getElem (show x < (pb.blocks[y]).length by omega)]

theorem flattenList_cond {ι : Type} (L : List ι) (c : ι → Prop) [DecidablePred c] (e : ι → Expr) :
    ANest.flattenList ((L.map fun p => if c p then [ANest.leaf (.scalar (e p))] else []).flatten)
      = L.flatMap fun p => if c p then [e p] else [] := by
  induction L with
  | nil => rfl
  | cons a L ih =>
    rw [List.map_cons, List.flatten_cons, Cspuz.Proofs.C12Agg.flattenList_append, ih, List.flatMap_cons]
    congr 1
    split <;> simp [ANest.flattenList, ANest.flatten, PyV.flat]

theorem range_pred_lt {n j : Nat} (hj : j ∈ List.range (n - 1)) : j < n ∧ j + 1 < n := by
  have := List.mem_range.mp hj; omega

theorem program_closed (pb : Problem) (hwf : WellFormed pb) : program pb = .ok (closed pb) := by
  unfold program
  simp only [bvars, Nat.zero_add]
  rw [addKeysV_fresh true _ _ _ Expr.bvar (fun _ => rfl)]
  simp only [ok_bind]
  -- rows and columns
  rw [mapM_eq_ok_map (g := fun i => [lineE (rowV pb.n i) pb.k, lineE (colV pb.n i) pb.k])]
  swap
  · intro i hi
    have hi' := List.mem_range.mp hi
    have hne : ∀ f : Nat → Expr, (List.range pb.n).map f ≠ [] := by
      intro f h0
      have := congrArg List.length h0
      simp at this; omega
    rw [getitemV_row true Expr.bvar _ _ i fullSlice _ hi' (axisSel_full _) (fun x hx => List.mem_range.mp hx)]
    simp only [ok_bind]
    rw [lineCount_closed _ (hne _)]
    simp only [ok_bind]
    rw [getitemV_col true Expr.bvar _ _ fullSlice i _ hi' (axisSel_full _) (fun x hx => List.mem_range.mp hx)]
    simp only [ok_bind]
    rw [lineCount_closed _ (hne _)]
    rfl
  simp only [ok_bind]
  -- adjacency groups
  have hr0 : ∀ x ∈ List.range pb.n, x < pb.n := fun x hx => List.mem_range.mp hx
  have hr1 : ∀ x ∈ List.range (pb.n - 1), x < pb.n := fun x hx => (range_pred_lt hx).1
  have hr2 : ∀ x ∈ (List.range (pb.n - 1)).map (fun j => j + 1), x < pb.n := by
    intro x hx
    simp only [List.mem_map] at hx
    obtain ⟨j, hj, rfl⟩ := hx
    exact (range_pred_lt hj).2
  rw [noPair_closed pb.n _ _ _ _ _ _ _ _ (axisSel_upto _) (axisSel_full _) (axisSel_from1 _) (axisSel_full _)
    hr1 hr0 hr2 hr0 (by simp) rfl]
  simp only [ok_bind]
  rw [noPair_closed pb.n _ _ _ _ _ _ _ _ (axisSel_full _) (axisSel_upto _) (axisSel_full _) (axisSel_from1 _)
    hr0 hr1 hr0 hr2 rfl (by simp)]
  simp only [ok_bind]
  rw [noPair_closed pb.n _ _ _ _ _ _ _ _ (axisSel_upto _) (axisSel_upto _) (axisSel_from1 _) (axisSel_from1 _)
    hr1 hr1 hr2 hr2 (by simp) (by simp)]
  simp only [ok_bind]
  rw [noPair_closed pb.n _ _ _ _ _ _ _ _ (axisSel_upto _) (axisSel_from1 _) (axisSel_from1 _) (axisSel_upto _)
    hr1 hr2 hr2 hr1 (by simp) (by simp)]
  simp only [ok_bind]
  -- regions
  rw [mapM_eq_ok_map (g := fun i => [.node .eq [countTrueE (regionV pb.n (region pb) i), .litI pb.k]])]
  swap
  · intro i _
    rw [mapM_eq_ok_map (g := fun p =>
      if region pb p.1 p.2 = (i : Int) then [ANest.leaf (.scalar (Expr.bvar (p.1 * pb.n + p.2)))] else [])]
    swap
    · intro p hp
      obtain ⟨hy, hx⟩ := mem_cellsOf.mp hp
      rw [tableGet_region pb hwf _ _ hy hx]
      simp only [ok_bind]
      split
      · rw [getitemV_cell true Expr.bvar _ _ _ _ hy hx]; rfl
      · rfl
    simp only [ok_bind]
    have hfl : ANest.flattenList [ANest.items ((List.map (fun p : Nat × Nat =>
        if region pb p.1 p.2 = (i : Int) then [ANest.leaf (.scalar (Expr.bvar (p.1 * pb.n + p.2)))] else [])
        (cellsOf pb.n pb.n)).flatten)] = regionV pb.n (region pb) i := by
      simp only [ANest.flattenList, ANest.flatten, List.append_nil]
      exact flattenList_cond _ _ _
    have hct : countTrueA [ANest.items ((List.map (fun p : Nat × Nat =>
        if region pb p.1 p.2 = (i : Int) then [ANest.leaf (.scalar (Expr.bvar (p.1 * pb.n + p.2)))] else [])
        (cellsOf pb.n pb.n)).flatten)] = .ok (countTrueE (regionV pb.n (region pb) i)) := by
      unfold countTrueA
      rw [hfl]
      apply countTrue_ok_of_boolLike
      intro x hx
      simp only [regionV, List.mem_flatMap] at hx
      obtain ⟨p, _, hx⟩ := hx
      split at hx
      · simp only [List.mem_cons, List.mem_nil_iff, or_false] at hx; subst hx; rfl
      · simp at hx
    rw [hct]
    simp only [ok_bind]
    obtain ⟨op, args, he, hop⟩ := countTrueE_isNode (regionV pb.n (region pb) i)
    rw [he, binop_eq_node_lit op args pb.k hop]
    simp only [ok_bind]
    rw [ensureV_scalar _ rfl]
  simp only [ok_bind]
  -- assemble
  have e1 := adj_zip pb.n (pb.n - 1) pb.n (fun j => j) (fun j => j) (fun j => j + 1) (fun j => j)
  have e2 := adj_zip pb.n pb.n (pb.n - 1) (fun j => j) (fun j => j) (fun j => j) (fun j => j + 1)
  have e3 := adj_zip pb.n (pb.n - 1) (pb.n - 1) (fun j => j) (fun j => j) (fun j => j + 1) (fun j => j + 1)
  have e4 := adj_zip pb.n (pb.n - 1) (pb.n - 1) (fun j => j) (fun j => j + 1) (fun j => j + 1) (fun j => j)
  simp only [List.map_id'] at e1 e2 e3 e4
  rw [e1, e2, e3, e4]
  rfl

end Cspuz.Proofs.C11StarBattle
