/-
  C13 — the nested-list constructor `Array2D.__init__(data, shape=None)` (`_infer_shape` + `_flatten`):
  the array built from a rectangular non-empty list of rows IS the array whose equivalent list of
  lists is that list of rows; `ValueError` exactly for no rows / jagged rows.
-/
import CspuzModel.Proofs.C13
namespace Cspuz.Proofs.C13Nested
open Cspuz Cspuz.Spec

/-- The accumulating loop of `_flatten` is concatenation in row order. -/
theorem foldl_append_eq {α} (rows : List (List α)) (acc : List α) :
    rows.foldl (fun ret row => ret ++ row) acc = acc ++ rows.flatten := by
  induction rows generalizing acc with
  | nil => simp
  | cons r rs ih => simp [List.foldl_cons, ih, List.append_assoc]

theorem flattenRows_eq {α} (rows : List (List α)) : flattenRows rows = rows.flatten := by
  unfold flattenRows
  rw [foldl_append_eq]
  simp

/-- Row-major concatenation of `h` rows of width `w` has `h * w` elements. -/
theorem flatten_length_rect {α} (rows : List (List α)) (w : Nat) (hw : ∀ r ∈ rows, r.length = w) :
    rows.flatten.length = rows.length * w := by
  induction rows with
  | nil => simp
  | cons r rs ih =>
    have h1 : r.length = w := hw r (by simp)
    have h2 : rs.flatten.length = rs.length * w := ih (fun r hr => hw r (by simp [hr]))
    simp only [List.flatten_cons, List.length_append, List.length_cons, h1, h2, Nat.succ_mul]
    omega

/-- Chunking the concatenation of rectangular rows gives the rows back. -/
theorem toRows_flatten_rect {α} (rows : List (List α)) (w : Nat) (hw : ∀ r ∈ rows, r.length = w) :
    toRows rows.flatten rows.length w = rows := by
  induction rows with
  | nil => simp [toRows]
  | cons r rs ih =>
    have h1 : r.length = w := hw r (by simp)
    have h2 := ih (fun r hr => hw r (by simp [hr]))
    simp only [List.flatten_cons, List.length_cons, toRows]
    have ht : (r ++ rs.flatten).take w = r := by
      rw [← h1]; exact List.take_left
    have hd : (r ++ rs.flatten).drop w = rs.flatten := by
      rw [← h1]; exact List.drop_left
    rw [ht, hd, h2]

/-- `_infer_shape` on a rectangular non-empty list of rows. -/
theorem inferShape_rect {α} (rows : List (List α)) (hne : rows ≠ [])
    (hw : ∀ r ∈ rows, r.length = (rows.headD []).length) :
    inferShape rows = .ok (rows.length, (rows.headD []).length) := by
  cases rows with
  | nil => exact absurd rfl hne
  | cons r0 rest =>
    simp only [inferShape, List.headD_cons]
    have : rest.all (fun r => r.length == r0.length) = true := by
      rw [List.all_eq_true]
      intro r hr
      have := hw r (by simp [hr])
      simpa using this
    rw [if_pos this]

/-- `_infer_shape` raises `ValueError` for no rows and for jagged rows. -/
theorem inferShape_bad {α} (rows : List (List α))
    (hbad : rows = [] ∨ ∃ r ∈ rows, r.length ≠ (rows.headD []).length) :
    inferShape rows = .error .valueError := by
  cases rows with
  | nil => rfl
  | cons r0 rest =>
    rcases hbad with h | ⟨r, hr, hlen⟩
    · cases h
    · simp only [inferShape]
      simp only [List.headD_cons] at hlen
      have hr' : r ∈ rest := by
        rcases List.mem_cons.mp hr with h | h
        · exact absurd (by rw [h]) hlen
        · exact h
      have : ¬ (rest.all (fun r => r.length == r0.length) = true) := by
        rw [List.all_eq_true]
        intro hall
        have := hall r hr'
        exact hlen (by simpa using this)
      rw [if_neg this]

theorem ofNested_spec : ∀ (α : Type) (rows : List (List α)),
    (rows ≠ [] → (∀ r ∈ rows, r.length = (rows.headD []).length) →
        ∃ data, ofNested rows = .ok (rows.length, (rows.headD []).length, data) ∧
          data = rows.flatten ∧
          data.length = rows.length * (rows.headD []).length ∧
          toRows data rows.length (rows.headD []).length = rows) ∧
    (rows = [] ∨ (∃ r ∈ rows, r.length ≠ (rows.headD []).length) →
        ofNested rows = .error .valueError) := by
  intro α rows
  constructor
  · intro hne hw
    refine ⟨rows.flatten, ?_, rfl, flatten_length_rect rows _ hw, toRows_flatten_rect rows _ hw⟩
    simp only [ofNested, inferShape_rect rows hne hw, flattenRows_eq]
    rfl
  · intro hbad
    simp only [ofNested, inferShape_bad rows hbad]
    rfl

/-- Indexing the array built from a rectangular non-empty nested list is list-of-lists indexing of
that very nested list. -/
theorem ofNested_getitem : ∀ (α : Type) (rows : List (List α)) (key : Key2),
    rows ≠ [] → (∀ r ∈ rows, r.length = (rows.headD []).length) →
    ∃ h w data, ofNested rows = .ok (h, w, data) ∧ h = rows.length ∧ w = (rows.headD []).length ∧
      getitem2D data h w key = specGetitem rows h w key := by
  intro α rows key hne hw
  obtain ⟨data, hok, _, hlen, hrows⟩ := (ofNested_spec α rows).1 hne hw
  refine ⟨rows.length, (rows.headD []).length, data, hok, rfl, rfl, ?_⟩
  have := Cspuz.Proofs.C13.getitem2D_eq_spec α data rows.length (rows.headD []).length key hlen
  rw [hrows] at this
  exact this

end Cspuz.Proofs.C13Nested
