/-
  C11 / putteria — part 1: the `block_size` table.  `blockSizes` (two nested loops of `table[y][x] = len(block)`
  on a `height × width` table of zeros) succeeds when all listed cells are on the board, and entry `(y, x)` of
  the result is the size of the last room listing the cell (0 if none does).
-/
import CspuzModel.Model.Puzzles.Putteria
import CspuzModel.Proofs.EvalLemmas
import CspuzModel.Proofs.C13
namespace Cspuz.Proofs.C11PutteriaTable
open Cspuz Cspuz.Spec Cspuz.Puzzles Cspuz.Puzzles.Putteria Cspuz.Proofs

/-- An `h × w` list of lists. -/
def IsTable (h w : Nat) (t : List (List Int)) : Prop := t.length = h ∧ ∀ r ∈ t, r.length = w

/-- Entry `(y, x)` of a table (0 outside). -/
def tget (t : List (List Int)) (y x : Nat) : Int := ((t[y]?).getD [])[x]?.getD 0

theorem isTable_zero (h w : Nat) : IsTable h w (List.replicate h (List.replicate w 0)) := by
  refine ⟨by simp, ?_⟩
  intro r hr
  rw [(List.mem_replicate.mp hr).2]; simp

theorem tget_zero (h w y x : Nat) : tget (List.replicate h (List.replicate w 0)) y x = 0 := by
  unfold tget
  rw [List.getElem?_replicate]
  split
  · simp only [Option.getD_some]
    rw [List.getElem?_replicate]
    split <;> rfl
  · rfl

theorem pyIndex_nat {α} (l : List α) (k : Nat) (hk : k < l.length) : pyIndex l (k : Int) = .ok l[k] := by
  rw [Cspuz.Proofs.C13.pyIndex_natCast _ _ hk, List.getElem?_eq_getElem hk]

theorem pySet_nat {α} (l : List α) (k : Nat) (hk : k < l.length) (v : α) : pySet l (k : Int) v = .ok (l.set k v) := by
  simp only [pySet]
  rw [if_neg (show ¬ ((k : Int) < 0) by omega), if_pos (by omega), Int.toNat_natCast]

theorem tableGet_tget (h w : Nat) (t : List (List Int)) (ht : IsTable h w t) (y x : Nat) (hy : y < h) (hx : x < w) :
    tableGet t (y : Int) (x : Int) = .ok (tget t y x) := by
  obtain ⟨hl, hr⟩ := ht
  have hy' : y < t.length := by omega
  have hrow : (t[y]).length = w := hr _ (List.getElem_mem hy')
  simp only [tableGet, tget]
  rw [pyIndex_nat _ _ hy']
  simp only [ok_bind]
  rw [pyIndex_nat _ _ (by omega)]
  simp [List.getElem?_eq_getElem hy', List.getElem?_eq_getElem (show x < (t[y]).length by omega)]

/-- One write `table[y][x] = v` at a cell of the board. -/
theorem tableSet_nat (h w : Nat) (t : List (List Int)) (ht : IsTable h w t) (y x : Nat) (hy : y < h) (hx : x < w)
    (v : Int) :
    ∃ t', tableSet t (y : Int) (x : Int) v = .ok t' ∧ IsTable h w t' ∧
      ∀ y' x', tget t' y' x' = if y' = y ∧ x' = x then v else tget t y' x' := by
  obtain ⟨hl, hr⟩ := ht
  have hy' : y < t.length := by omega
  have hrow : (t[y]).length = w := hr _ (List.getElem_mem hy')
  refine ⟨t.set y ((t[y]).set x v), ?_, ⟨by simp [hl], ?_⟩, ?_⟩
  · simp only [tableSet]
    rw [pyIndex_nat _ _ hy']
    simp only [ok_bind]
    rw [pySet_nat _ _ (by omega)]
    simp only [ok_bind]
    rw [pySet_nat _ _ hy']
  · intro r hr'
    rcases List.mem_or_eq_of_mem_set hr' with h1 | rfl
    · exact hr r h1
    · simp [hrow]
  · intro y' x'
    unfold tget
    by_cases hyy : y' = y
    · subst hyy
      rw [List.getElem?_set_self hy']
      simp only [Option.getD_some]
      by_cases hxx : x' = x
      · subst hxx
        rw [List.getElem?_set_self (by omega)]
        simp
      · rw [List.getElem?_set_ne (by omega)]
        simp [hxx, List.getElem?_eq_getElem hy']
    · rw [List.getElem?_set_ne (by omega)]
      simp [hyy]

/-- The inner loop: `for y, x in block: table[y][x] = v`. -/
theorem inner_spec (h w : Nat) (v : Int) : ∀ (block : List (Int × Int)) (t : List (List Int)),
    (∀ p ∈ block, 0 ≤ p.1 ∧ p.1 < (h : Int) ∧ 0 ≤ p.2 ∧ p.2 < (w : Int)) → IsTable h w t →
    ∃ t', block.foldlM (fun (t : List (List Int)) (yx : Int × Int) => tableSet t yx.1 yx.2 v) t = .ok t' ∧
      IsTable h w t' ∧
      ∀ y' x' : Nat, tget t' y' x' = if ((y' : Int), (x' : Int)) ∈ block then v else tget t y' x'
  | [], t, _, ht => ⟨t, rfl, ht, by intro y' x'; simp⟩
  | p :: rest, t, hb, ht => by
    obtain ⟨h1, h2, h3, h4⟩ := hb p List.mem_cons_self
    have e1 : p.1 = ((p.1.toNat : Nat) : Int) := (Int.toNat_of_nonneg h1).symm
    have e2 : p.2 = ((p.2.toNat : Nat) : Int) := (Int.toNat_of_nonneg h3).symm
    obtain ⟨t1, hs, ht1, hg1⟩ := tableSet_nat h w t ht p.1.toNat p.2.toNat (by omega) (by omega) v
    rw [← e1, ← e2] at hs
    obtain ⟨t', hf, ht', hg'⟩ := inner_spec h w v rest t1 (fun q hq => hb q (List.mem_cons_of_mem _ hq)) ht1
    refine ⟨t', ?_, ht', ?_⟩
    · rw [List.foldlM_cons, hs]; exact hf
    · intro y' x'
      rw [hg', hg1]
      have hiff : (y' = p.1.toNat ∧ x' = p.2.toNat) ↔ ((y' : Int), (x' : Int)) = p := by
        constructor
        · rintro ⟨rfl, rfl⟩; exact Prod.ext e1.symm e2.symm
        · intro hp; subst hp; simp
      by_cases hin : ((y' : Int), (x' : Int)) ∈ rest
      · simp [hin]
      · by_cases hp : ((y' : Int), (x' : Int)) = p
        · rw [if_neg hin, if_pos (hiff.mpr hp), if_pos (by rw [hp]; exact List.mem_cons_self)]
        · rw [if_neg hin, if_neg (fun hc => hp (hiff.mp hc)), if_neg (by
            intro hc
            rcases List.mem_cons.mp hc with h0 | h0
            · exact hp h0
            · exact hin h0)]

/-- Size of the last room listing the cell `(y, x)`, starting from `init`. -/
def lastSize (blocks : List (List (Int × Int))) (init : Int) (y x : Nat) : Int :=
  blocks.foldl (fun acc b => if ((y : Int), (x : Int)) ∈ b then (b.length : Int) else acc) init

/-- Entry `(y, x)` of `block_size`: the size of the last room listing the cell (0 if there is none). -/
def roomSize (blocks : List (List (Int × Int))) (y x : Nat) : Int := lastSize blocks 0 y x

theorem outer_spec (h w : Nat) : ∀ (blocks : List (List (Int × Int))) (t : List (List Int)),
    (∀ p ∈ blocks.flatten, 0 ≤ p.1 ∧ p.1 < (h : Int) ∧ 0 ≤ p.2 ∧ p.2 < (w : Int)) → IsTable h w t →
    ∃ t', blocks.foldlM (fun (t : List (List Int)) (block : List (Int × Int)) =>
        block.foldlM (fun (t : List (List Int)) (yx : Int × Int) => tableSet t yx.1 yx.2 block.length) t) t = .ok t' ∧
      IsTable h w t' ∧ ∀ y' x' : Nat, tget t' y' x' = lastSize blocks (tget t y' x') y' x'
  | [], t, _, ht => ⟨t, rfl, ht, fun _ _ => rfl⟩
  | b :: rest, t, hb, ht => by
    obtain ⟨t1, hs, ht1, hg1⟩ := inner_spec h w (b.length : Int) b t
      (fun p hp => hb p (by simp [hp])) ht
    obtain ⟨t', hf, ht', hg'⟩ := outer_spec h w rest t1
      (fun p hp => hb p (by rw [List.flatten_cons]; exact List.mem_append_right _ hp)) ht1
    refine ⟨t', ?_, ht', ?_⟩
    · rw [List.foldlM_cons, hs]; exact hf
    · intro y' x'
      rw [hg', hg1]
      rfl

/-- `blockSizes` on an instance all of whose listed cells are on the board. -/
theorem blockSizes_spec (h w : Nat) (blocks : List (List (Int × Int)))
    (hb : ∀ p ∈ blocks.flatten, 0 ≤ p.1 ∧ p.1 < (h : Int) ∧ 0 ≤ p.2 ∧ p.2 < (w : Int)) :
    ∃ bs, blockSizes h w blocks = .ok bs ∧ IsTable h w bs ∧ ∀ y x : Nat, tget bs y x = roomSize blocks y x := by
  obtain ⟨bs, h1, h2, h3⟩ := outer_spec h w blocks _ hb (isTable_zero h w)
  refine ⟨bs, h1, h2, ?_⟩
  intro y x
  rw [h3, tget_zero]; rfl

/-! ### `roomSize` on a partition -/

theorem lastSize_cases (c : Nat × Nat) : ∀ (blocks : List (List (Int × Int))) (init : Int),
    (lastSize blocks init c.1 c.2 = init ∧ ∀ b ∈ blocks, ((c.1 : Int), (c.2 : Int)) ∉ b) ∨
    ∃ b ∈ blocks, ((c.1 : Int), (c.2 : Int)) ∈ b ∧ lastSize blocks init c.1 c.2 = (b.length : Int)
  | [], init => Or.inl ⟨rfl, by simp⟩
  | b :: rest, init => by
    by_cases hin : ((c.1 : Int), (c.2 : Int)) ∈ b
    · have e : lastSize (b :: rest) init c.1 c.2 = lastSize rest (b.length : Int) c.1 c.2 := by
        simp [lastSize, hin]
      rcases lastSize_cases c rest (b.length : Int) with ⟨h1, _⟩ | ⟨b', hb', hc', h1⟩
      · exact Or.inr ⟨b, List.mem_cons_self, hin, by rw [e, h1]⟩
      · exact Or.inr ⟨b', List.mem_cons_of_mem _ hb', hc', by rw [e, h1]⟩
    · have e : lastSize (b :: rest) init c.1 c.2 = lastSize rest init c.1 c.2 := by
        simp [lastSize, hin]
      rcases lastSize_cases c rest init with ⟨h1, h2⟩ | ⟨b', hb', hc', h1⟩
      · refine Or.inl ⟨by rw [e, h1], ?_⟩
        intro b' hb'
        rcases List.mem_cons.mp hb' with rfl | h0
        · exact hin
        · exact h2 b' h0
      · exact Or.inr ⟨b', List.mem_cons_of_mem _ hb', hc', by rw [e, h1]⟩

/-- In a list of lists whose concatenation has no duplicates, an element lies in one member only. -/
theorem unique_block {α : Type} : ∀ (L : List (List α)), L.flatten.Nodup →
    ∀ b₁ ∈ L, ∀ b₂ ∈ L, ∀ c, c ∈ b₁ → c ∈ b₂ → b₁ = b₂
  | [], _, b₁, h1, _, _, _, _, _ => by simp at h1
  | b :: rest, hnd, b₁, h1, b₂, h2, c, hc1, hc2 => by
    rw [List.flatten_cons, List.nodup_append] at hnd
    obtain ⟨_, hrest, hdis⟩ := hnd
    have hmem : ∀ b' ∈ rest, c ∈ b' → c ∈ rest.flatten := fun b' hb' hc => List.mem_flatten.mpr ⟨b', hb', hc⟩
    rcases List.mem_cons.mp h1 with rfl | h1' <;> rcases List.mem_cons.mp h2 with rfl | h2'
    · rfl
    · exact absurd rfl (hdis c hc1 c (hmem _ h2' hc2))
    · exact absurd rfl (hdis c hc2 c (hmem _ h1' hc1))
    · exact unique_block rest hrest b₁ h1' b₂ h2' c hc1 hc2

/-- On a duplicate-free room list, `roomSize` of a cell is the size of the room listing it. -/
theorem roomSize_eq (blocks : List (List (Int × Int))) (hnd : blocks.flatten.Nodup)
    (b : List (Int × Int)) (hb : b ∈ blocks) (y x : Nat) (hc : ((y : Int), (x : Int)) ∈ b) :
    roomSize blocks y x = (b.length : Int) := by
  rcases lastSize_cases (y, x) blocks 0 with ⟨_, h2⟩ | ⟨b', hb', hc', h1⟩
  · exact absurd hc (h2 b hb)
  · rw [unique_block blocks hnd b hb b' hb' _ hc hc']
    exact h1

end Cspuz.Proofs.C11PutteriaTable
