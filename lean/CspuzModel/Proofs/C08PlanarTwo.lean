/-
  C08, planar lemma, direction "cycle in the diagonal graph ⇒ white cells disconnected":
  the ray-casting parity `f Z` of `C08PlanarDefs` takes two different values on white cells.

  Take the topmost-leftmost cell `b` that is an endpoint of an edge of `Z`.  It is black, the cells
  orthogonally adjacent to it are white, and the parity of two of them can be computed explicitly.
-/
import CspuzModel.Proofs.C08PlanarDefs
namespace Cspuz.Proofs.C08PlanarTwo
open Cspuz Cspuz.Spec SimpleGraph Cspuz.Proofs.C08PlanarDefs

variable {h w : Nat} {act : Nat → Bool} {Z : Finset (Sym2 (DCell h w))}

/-- `b` has minimal index among the cells that are endpoints of edges of `Z` -/
def IsMin (Z : Finset (Sym2 (DCell h w))) (b : Fin h × Fin w) : Prop :=
  ∀ e ∈ Z, ∀ c : Fin h × Fin w, some c ∈ e → b.1.1 * w + b.2.1 ≤ c.1.1 * w + c.2.1

theorem min_pos {b : Fin h × Fin w} (hm : IsMin Z b) {e : Sym2 (DCell h w)} (he : e ∈ Z)
    {c : Fin h × Fin w} (hc : some c ∈ e) :
    b.1.1 < c.1.1 ∨ (c.1.1 = b.1.1 ∧ b.2.1 ≤ c.2.1) := by
  have h1 := hm e he c hc
  have h2 := c.2.2
  rcases Nat.lt_trichotomy c.1.1 b.1.1 with hlt | heq | hgt
  · exfalso
    have h3 := Nat.mul_le_mul_right w (Nat.succ_le_of_lt hlt)
    have h4 := Nat.succ_mul c.1.1 w
    omega
  · right
    rw [heq] at h1
    exact ⟨heq, by omega⟩
  · left; exact hgt

theorem exists_min (hZ : EvenSet h w act Z) :
    ∃ b : Fin h × Fin w, (∃ e ∈ Z, some b ∈ e) ∧ IsMin Z b := by
  classical
  let S : Finset (Fin h × Fin w) := Finset.univ.filter fun c => ∃ e ∈ Z, some c ∈ e
  have hne : S.Nonempty := by
    obtain ⟨e, he⟩ := hZ.ne
    have hadj := hZ.sub e he
    induction e using Sym2.ind with
    | _ a' b' =>
    rw [mem_edgeSet] at hadj
    match a', b', he, hadj with
    | some c, _, he, _ =>
      exact ⟨c, Finset.mem_filter.2 ⟨Finset.mem_univ _, _, he, Sym2.mem_mk_left _ _⟩⟩
    | none, some d, he, _ =>
      exact ⟨d, Finset.mem_filter.2 ⟨Finset.mem_univ _, _, he, Sym2.mem_mk_right _ _⟩⟩
    | none, none, _, hadj => exact hadj.elim
  obtain ⟨b, hbS, hbmin⟩ := Finset.exists_min_image S (fun c => c.1.1 * w + c.2.1) hne
  refine ⟨b, (Finset.mem_filter.1 hbS).2, ?_⟩
  intro e he c hc
  exact hbmin c (Finset.mem_filter.2 ⟨Finset.mem_univ _, e, he, hc⟩)

/-- the parity vanishes at every position not after `b` in reading order -/
theorem f_zero {b : Fin h × Fin w} (hm : IsMin Z b) {y' x' : Nat}
    (hpos : y' < b.1.1 ∨ (y' = b.1.1 ∧ x' ≤ b.2.1)) : f Z y' x' = 0 := by
  unfold f
  refine Finset.sum_eq_zero fun e he => chi_false ?_
  intro hc
  induction e using Sym2.ind with
  | _ a' b' =>
  rw [cross_mk] at hc
  have key : ∀ a' b' : DCell h w, s(a', b') ∈ Z → ¬ up y' x' a' b' := by
    intro a' b' he hu
    match a', b', he, hu with
    | some c, some d, he, hu =>
      have := min_pos hm he (Sym2.mem_mk_left _ _)
      simp only [up] at hu
      omega
    | some c, none, he, hu =>
      have := min_pos hm he (Sym2.mem_mk_left _ _)
      simp only [up] at hu
      omega
    | none, _, _, hu => simp [up] at hu
  have hsw : s(a', b') = s(b', a') := Sym2.eq_swap
  rcases hc with hc | hc
  · exact key a' b' he hc
  · exact key b' a' (hsw ▸ he) hc

/-- the edges of `Z` crossed by the ray of the cell below `b` -/
theorem S_cross {b : Fin h × Fin w} (hZ : EvenSet h w act Z) (hm : IsMin Z b)
    {e : Sym2 (DCell h w)} (he : e ∈ Z) (hc : cross (b.1.1 + 1) b.2.1 e) :
    (∃ c : Fin h × Fin w, c.1.1 = b.1.1 + 1 ∧ c.2.1 + 1 = b.2.1 ∧ e = s(some b, some c)) ∨
      (e = s(some b, none) ∧ 0 < b.1.1 ∧ b.2.1 = 0) := by
  induction e using Sym2.ind with
  | _ a' b' =>
  rw [cross_mk] at hc
  have key : ∀ a' b' : DCell h w, s(a', b') ∈ Z → up (b.1.1 + 1) b.2.1 a' b' →
      (∃ c : Fin h × Fin w, c.1.1 = b.1.1 + 1 ∧ c.2.1 + 1 = b.2.1 ∧
        s(a', b') = s(some b, some c)) ∨ (s(a', b') = s(some b, none) ∧ 0 < b.1.1 ∧ b.2.1 = 0) := by
    intro a' b' he hu
    have hadj := hZ.sub _ he
    rw [mem_edgeSet] at hadj
    match a', b', he, hadj, hu with
    | some c, some d, he, hadj, hu =>
      have hd : diagonal c d := hadj.2.2
      have hmd := min_pos hm he (Sym2.mem_mk_right _ _)
      simp only [up] at hu
      simp only [diagonal] at hd
      left
      have hdb : d = b := Prod.ext (Fin.ext (by omega)) (Fin.ext (by omega))
      refine ⟨c, hu.1, by omega, ?_⟩
      rw [hdb]
      exact Sym2.eq_swap
    | some c, none, he, hadj, hu =>
      have hmc := min_pos hm he (Sym2.mem_mk_left _ _)
      simp only [up] at hu
      right
      have hcb : c = b := Prod.ext (Fin.ext (by omega)) (Fin.ext (by omega))
      rw [hcb]
      exact ⟨rfl, by omega, by omega⟩
    | none, _, _, _, hu => simp [up] at hu
  have hsw : s(a', b') = s(b', a') := Sym2.eq_swap
  rcases hc with hc | hc
  · exact key a' b' he hc
  · rw [hsw]
    exact key b' a' (hsw ▸ he) hc

/-- the edges of `Z` crossed by the ray of the cell right of `b`, when `b` is in the top row -/
theorem E_cross {b : Fin h × Fin w} (hm : IsMin Z b) (hy : b.1.1 = 0)
    {e : Sym2 (DCell h w)} (he : e ∈ Z) (hc : cross b.1.1 (b.2.1 + 1) e) :
    e = s(some b, none) := by
  induction e using Sym2.ind with
  | _ a' b' =>
  rw [cross_mk] at hc
  have key : ∀ a' b' : DCell h w, s(a', b') ∈ Z → up b.1.1 (b.2.1 + 1) a' b' →
      s(a', b') = s(some b, none) := by
    intro a' b' he hu
    match a', b', he, hu with
    | some c, some d, he, hu =>
      simp only [up] at hu
      omega
    | some c, none, he, hu =>
      have hmc := min_pos hm he (Sym2.mem_mk_left _ _)
      simp only [up] at hu
      have hcb : c = b := Prod.ext (Fin.ext (by omega)) (Fin.ext (by omega))
      rw [hcb]
    | none, _, _, hu => simp [up] at hu
  have hsw : s(a', b') = s(b', a') := Sym2.eq_swap
  rcases hc with hc | hc
  · exact key a' b' he hc
  · rw [hsw]
    exact key b' a' (hsw ▸ he) hc

/-- case (A): the edge `b — SW` is in `Z` -/
theorem f_S_A {b c : Fin h × Fin w} (hZ : EvenSet h w act Z) (hm : IsMin Z b)
    (hc1 : c.1.1 = b.1.1 + 1) (hc2 : c.2.1 + 1 = b.2.1) (hmem : s(some b, some c) ∈ Z) :
    f Z (b.1.1 + 1) b.2.1 = 1 := by
  unfold f
  rw [Finset.sum_eq_single_of_mem _ hmem]
  · refine chi_true ?_
    rw [cross_mk]
    right
    exact ⟨hc1, by omega, rfl⟩
  · intro e he hne
    refine chi_false fun hcr => hne ?_
    rcases S_cross hZ hm he hcr with ⟨c', h1, h2, rfl⟩ | ⟨_, _, h0⟩
    · have : c' = c := Prod.ext (Fin.ext (by omega)) (Fin.ext (by omega))
      rw [this]
    · omega

/-- case (C): no edge `b — SW` in `Z`, `b` in the left column but not the top row -/
theorem f_S_C {b : Fin h × Fin w} (hZ : EvenSet h w act Z) (hm : IsMin Z b)
    (hy : 0 < b.1.1) (hx : b.2.1 = 0) (hmem : s(some b, none) ∈ Z) :
    f Z (b.1.1 + 1) b.2.1 = 1 := by
  unfold f
  rw [Finset.sum_eq_single_of_mem _ hmem]
  · refine chi_true ?_
    rw [cross_mk]
    left
    simp only [up]
    omega
  · intro e he hne
    refine chi_false fun hcr => hne ?_
    rcases S_cross hZ hm he hcr with ⟨c', _, h2, _⟩ | ⟨h1, _, _⟩
    · omega
    · exact h1

/-- case (B): no edge `b — SW` in `Z`, `b` in the top row -/
theorem f_S_B {b : Fin h × Fin w} (hZ : EvenSet h w act Z) (hm : IsMin Z b)
    (hy : b.1.1 = 0)
    (hn : ∀ c : Fin h × Fin w, c.1.1 = b.1.1 + 1 → c.2.1 + 1 = b.2.1 → s(some b, some c) ∉ Z) :
    f Z (b.1.1 + 1) b.2.1 = 0 := by
  unfold f
  refine Finset.sum_eq_zero fun e he => chi_false fun hcr => ?_
  rcases S_cross hZ hm he hcr with ⟨c', h1, h2, rfl⟩ | ⟨_, h0, _⟩
  · exact hn c' h1 h2 he
  · omega

theorem f_E {b : Fin h × Fin w} (hm : IsMin Z b) (hy : b.1.1 = 0)
    (hmem : s(some b, none) ∈ Z) : f Z b.1.1 (b.2.1 + 1) = 1 := by
  unfold f
  rw [Finset.sum_eq_single_of_mem _ hmem]
  · refine chi_true ?_
    rw [cross_mk]
    left
    simp only [up]
    omega
  · intro e he hne
    exact chi_false fun hcr => hne (E_cross hm hy he hcr)

/-- the shape of the edges of `Z` at `b` -/
theorem shape {b : Fin h × Fin w} (hZ : EvenSet h w act Z) (hm : IsMin Z b)
    {e : Sym2 (DCell h w)} (he : e ∈ Z) (hb : some b ∈ e) :
    e = s(some b, none) ∨ ∃ d : Fin h × Fin w, d.1.1 = b.1.1 + 1 ∧
      (d.2.1 + 1 = b.2.1 ∨ d.2.1 = b.2.1 + 1) ∧ e = s(some b, some d) := by
  obtain ⟨o, rfl⟩ := Sym2.mem_iff_exists.1 hb
  have hadj := hZ.sub _ he
  rw [mem_edgeSet] at hadj
  match o, he, hadj with
  | none, _, _ => exact Or.inl rfl
  | some d, he, hadj =>
    right
    have hd : diagonal b d := hadj.2.2
    have hmd := min_pos hm he (Sym2.mem_mk_right _ _)
    simp only [diagonal] at hd
    exact ⟨d, by omega, by omega, rfl⟩

theorem black {b : Fin h × Fin w} (hZ : EvenSet h w act Z)
    {e : Sym2 (DCell h w)} (he : e ∈ Z) (hb : some b ∈ e) :
    act (b.1.1 * w + b.2.1) = true := by
  obtain ⟨o, rfl⟩ := Sym2.mem_iff_exists.1 hb
  have hadj := hZ.sub _ he
  rw [mem_edgeSet] at hadj
  match o, hadj with
  | none, hadj => exact hadj.1
  | some d, hadj => exact hadj.1

/-- a vertex cannot have exactly one edge of `Z` -/
theorem unique_edge_contra (hZ : EvenSet h w act Z) {v : DCell h w} {e0 : Sym2 (DCell h w)}
    (he0 : e0 ∈ Z) (hv : v ∈ e0) (huniq : ∀ e ∈ Z, v ∈ e → e = e0) : False := by
  have hev := hZ.even v
  rw [Finset.sum_eq_single_of_mem e0 he0
    (fun e he hne => chi_false fun hb => hne (huniq e he hb)), chi_true hv] at hev
  exact absurd hev (by decide)

/-- classification of the edges of `Z` at `b` -/
theorem cls {b : Fin h × Fin w} (hZ : EvenSet h w act Z) (hm : IsMin Z b)
    (hbZ : ∃ e ∈ Z, some b ∈ e) :
    (∃ c : Fin h × Fin w, c.1.1 = b.1.1 + 1 ∧ c.2.1 + 1 = b.2.1 ∧ s(some b, some c) ∈ Z) ∨
      ((∀ c : Fin h × Fin w, c.1.1 = b.1.1 + 1 → c.2.1 + 1 = b.2.1 → s(some b, some c) ∉ Z) ∧
        (∃ d : Fin h × Fin w, d.1.1 = b.1.1 + 1 ∧ d.2.1 = b.2.1 + 1 ∧ s(some b, some d) ∈ Z) ∧
        s(some b, none) ∈ Z) := by
  classical
  by_cases hA : ∃ c : Fin h × Fin w, c.1.1 = b.1.1 + 1 ∧ c.2.1 + 1 = b.2.1 ∧
      s(some b, some c) ∈ Z
  · exact Or.inl hA
  right
  have hn : ∀ c : Fin h × Fin w, c.1.1 = b.1.1 + 1 → c.2.1 + 1 = b.2.1 →
      s(some b, some c) ∉ Z := fun c h1 h2 h3 => hA ⟨c, h1, h2, h3⟩
  obtain ⟨e0, he0, hb0⟩ := hbZ
  refine ⟨hn, ?_, ?_⟩
  · by_contra hSE
    rcases shape hZ hm he0 hb0 with rfl | ⟨d, h1, h2 | h2, rfl⟩
    · refine unique_edge_contra hZ he0 hb0 fun e he hb => ?_
      rcases shape hZ hm he hb with rfl | ⟨d, h1, h2 | h2, rfl⟩
      · rfl
      · exact absurd he (hn d h1 h2)
      · exact absurd ⟨d, h1, h2, he⟩ hSE
    · exact hn d h1 h2 he0
    · exact hSE ⟨d, h1, h2, he0⟩
  · by_contra hO
    rcases shape hZ hm he0 hb0 with rfl | ⟨d, h1, h2 | h2, rfl⟩
    · exact hO he0
    · exact hn d h1 h2 he0
    · refine unique_edge_contra hZ he0 hb0 fun e he hb => ?_
      rcases shape hZ hm he hb with rfl | ⟨d', h1', h2' | h2', rfl⟩
      · exact absurd he hO
      · exact absurd he (hn d' h1' h2')
      · have : d' = d := Prod.ext (Fin.ext (by omega)) (Fin.ext (by omega))
        rw [this]

/-! whiteness of the orthogonal neighbours of a black cell -/

theorem white_right (hNA : NoAdjacentActive (Graph.grid h w) act) {y x : Nat} (hy : y < h)
    (hx : x + 1 < w) (hb : act (y * w + x) = true) : act (y * w + (x + 1)) = false := by
  have hmem : (y * w + x, y * w + (x + 1)) ∈ (Graph.grid h w).edges :=
    (C04Prim.mem_grid_edges h w _ _).2 ⟨y, hy, x, by omega, Or.inl ⟨hx, rfl, rfl⟩⟩
  have hna := hNA _ hmem
  cases hq : act (y * w + (x + 1)) with
  | false => rfl
  | true => exact absurd ⟨hb, hq⟩ hna

theorem white_left (hNA : NoAdjacentActive (Graph.grid h w) act) {y x : Nat} (hy : y < h)
    (hx : x + 1 < w) (hb : act (y * w + (x + 1)) = true) : act (y * w + x) = false := by
  have hmem : (y * w + x, y * w + (x + 1)) ∈ (Graph.grid h w).edges :=
    (C04Prim.mem_grid_edges h w _ _).2 ⟨y, hy, x, by omega, Or.inl ⟨hx, rfl, rfl⟩⟩
  have hna := hNA _ hmem
  cases hq : act (y * w + x) with
  | false => rfl
  | true => exact absurd ⟨hq, hb⟩ hna

theorem white_down (hNA : NoAdjacentActive (Graph.grid h w) act) {y x : Nat} (hy : y + 1 < h)
    (hx : x < w) (hb : act (y * w + x) = true) : act ((y + 1) * w + x) = false := by
  have hmem : (y * w + x, (y + 1) * w + x) ∈ (Graph.grid h w).edges :=
    (C04Prim.mem_grid_edges h w _ _).2 ⟨y, by omega, x, hx, Or.inr ⟨hy, rfl, rfl⟩⟩
  have hna := hNA _ hmem
  cases hq : act ((y + 1) * w + x) with
  | false => rfl
  | true => exact absurd ⟨hb, hq⟩ hna

theorem white_up (hNA : NoAdjacentActive (Graph.grid h w) act) {y x : Nat} (hy : y + 1 < h)
    (hx : x < w) (hb : act ((y + 1) * w + x) = true) : act (y * w + x) = false := by
  have hmem : (y * w + x, (y + 1) * w + x) ∈ (Graph.grid h w).edges :=
    (C04Prim.mem_grid_edges h w _ _).2 ⟨y, by omega, x, hx, Or.inr ⟨hy, rfl, rfl⟩⟩
  have hna := hNA _ hmem
  cases hq : act (y * w + x) with
  | false => rfl
  | true => exact absurd ⟨hq, hb⟩ hna

theorem zero_ne_one_zmod : (0 : ZMod 2) ≠ 1 := by decide

/-- the ray-casting parity takes two different values on white cells
(the hypotheses `2 ≤ h`, `2 ≤ w` are kept for the caller's convenience; they are not needed) -/
theorem two_cells {h w : Nat} {act : Nat → Bool} (hh : 2 ≤ h) (hw : 2 ≤ w)
    (hNA : NoAdjacentActive (Graph.grid h w) act)
    {Z : Finset (Sym2 (DCell h w))} (hZ : EvenSet h w act Z) :
    ∃ y x y' x', y < h ∧ x < w ∧ act (y * w + x) = false ∧
      y' < h ∧ x' < w ∧ act (y' * w + x') = false ∧ f Z y x ≠ f Z y' x' := by
  have _ := hh
  have _ := hw
  obtain ⟨b, hbZ, hm⟩ := exists_min hZ
  have hblack : act (b.1.1 * w + b.2.1) = true := by
    obtain ⟨e, he, hb⟩ := hbZ
    exact black hZ he hb
  have hby := b.1.2
  have hbx := b.2.2
  rcases cls hZ hm hbZ with ⟨c, hc1, hc2, hmem⟩ | ⟨hn, ⟨d, hd1, hd2, hmemd⟩, hmemo⟩
  · -- (A)
    have hcy := c.1.2
    have hcx := c.2.2
    refine ⟨b.1.1, c.2.1, b.1.1 + 1, b.2.1, hby, hcx, ?_, by omega, hbx, ?_, ?_⟩
    · refine white_left hNA hby (by omega) ?_
      rw [hc2]; exact hblack
    · exact white_down hNA (by omega) hbx hblack
    · rw [f_zero hm (Or.inr ⟨rfl, by omega⟩), f_S_A hZ hm hc1 hc2 hmem]
      exact zero_ne_one_zmod
  · have hdy := d.1.2
    have hdx := d.2.2
    rcases Nat.eq_zero_or_pos b.1.1 with hy0 | hypos
    · -- (B)
      refine ⟨b.1.1, b.2.1 + 1, b.1.1 + 1, b.2.1, hby, by omega, ?_, by omega, hbx, ?_, ?_⟩
      · exact white_right hNA hby (by omega) hblack
      · exact white_down hNA (by omega) hbx hblack
      · rw [f_E hm hy0 hmemo, f_S_B hZ hm hy0 hn]
        exact zero_ne_one_zmod.symm
    · -- (C)
      have hadj := hZ.sub _ hmemo
      rw [mem_edgeSet] at hadj
      have hbord : onBorder b := hadj.2
      simp only [onBorder] at hbord
      have hx0 : b.2.1 = 0 := by omega
      have hsucc : b.1.1 - 1 + 1 = b.1.1 := by omega
      refine ⟨b.1.1 - 1, b.2.1, b.1.1 + 1, b.2.1, by omega, hbx, ?_, by omega, hbx, ?_, ?_⟩
      · refine white_up hNA (by omega) hbx ?_
        rw [hsucc]; exact hblack
      · exact white_down hNA (by omega) hbx hblack
      · rw [f_zero hm (Or.inl (by omega)), f_S_C hZ hm hypos hx0 hmemo]
        exact zero_ne_one_zmod

end Cspuz.Proofs.C08PlanarTwo
