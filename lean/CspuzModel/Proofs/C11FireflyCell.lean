/-
  C11 / firefly — closed forms of the per-cell part of the program of `solve_firefly` (the `adj` table, the
  constraints of a firefly cell and of an empty cell, the `break`), on a board of `(H+1) × (W+1)` cells.
-/
import CspuzModel.Proofs.C11FireflyTop
import CspuzModel.Spec.PuzzleRules.Firefly
namespace Cspuz.Proofs.C11FireflyCell
open Cspuz Cspuz.Spec Cspuz.Spec.FrameGeom Cspuz.Puzzles Cspuz.Puzzles.Firefly Cspuz.Puzzles.Loop Cspuz.Proofs
open Cspuz.Proofs.C11FireflyTop

/-! ### the `adj` table -/

/-- An `adj` entry made of variables. -/
def mkAdj (i o t : Nat) : Adj := ⟨.bvar i, .bvar o, .ivar t⟩

/-- Variable of `n_turn_horizontal[y, x]`. -/
def ntH (H W y x : Nat) : Nat := 4 * Frame.numVars H W + (H + 1) * (W + 1) + (y * W + x)
/-- Variable of `n_turn_vertical[y, x]`. -/
def ntV (H W y x : Nat) : Nat := 4 * Frame.numVars H W + (H + 1) * (W + 1) + (H + 1) * W + (y * (W + 1) + x)

/-- `adj` of the cell `(y, x)`. -/
def adjS (H W y x : Nat) : List (Option Adj) :=
  let N := Frame.numVars H W
  [ if y > 0 then some (mkAdj (geomV (2 * N) H W (y - 1) x) (geomV N H W (y - 1) x) (ntV H W (y - 1) x)) else none,
    if y < H then some (mkAdj (geomV N H W y x) (geomV (2 * N) H W y x) (ntV H W y x)) else none,
    if x > 0 then some (mkAdj (geomH (2 * N) H W y (x - 1)) (geomH N H W y (x - 1)) (ntH H W y (x - 1))) else none,
    if x < W then some (mkAdj (geomH N H W y x) (geomH (2 * N) H W y x) (ntH H W y x)) else none ]

theorem ivars_getElem? (base n i : Nat) (hi : i < n) : (ivars base n)[i]? = some (.ivar (base + i)) := by
  unfold ivars
  rw [List.getElem?_map, List.getElem?_range hi]; rfl

theorem get_ivars (base h w y x : Nat) (hy : y < h) (hx : x < w) :
    (Arr2.mk h w (ivars base (h * w))).get (y : Int) (x : Int) = .ok (.ivar (base + (y * w + x))) :=
  C14.Arr2.get_nat _ y x _ hy hx (ivars_getElem? _ _ _ (C14.mul_add_lt hy hx))

theorem mkVars_eq (H W : Nat) :
    mkVars (H + 1) (W + 1) =
      { hasLine := Frame.fresh 0 H W,
        ul := Frame.fresh (Frame.numVars H W) H W,
        dr := Frame.fresh (2 * Frame.numVars H W) H W,
        ignored := Frame.fresh (3 * Frame.numVars H W) H W,
        rank := ⟨H + 1, W + 1, ivars (4 * Frame.numVars H W) ((H + 1) * (W + 1))⟩,
        ntH := ⟨H + 1, W, ivars (4 * Frame.numVars H W + (H + 1) * (W + 1)) ((H + 1) * W)⟩,
        ntV := ⟨H, W + 1, ivars (4 * Frame.numVars H W + (H + 1) * (W + 1) + (H + 1) * W) (H * (W + 1))⟩ } := by
  simp only [mkVars, nEdges, Nat.add_sub_cancel]

theorem cast_pred (y : Nat) (hy : y > 0) : ((y : Int) - 1) = ((y - 1 : Nat) : Int) := by omega

theorem adjOf_eq (H W y x : Nat) (hy : y ≤ H) (hx : x ≤ W) :
    adjOf (H + 1) (W + 1) (mkVars (H + 1) (W + 1)) y x = .ok (adjS H W y x) := by
  rw [mkVars_eq]
  unfold adjOf adjS
  simp only [bind, Except.bind, pure, Except.pure]
  have e1 : (y + 1 < H + 1) = (y < H) := by simp
  have e2 : (x + 1 < W + 1) = (x < W) := by simp
  simp only [e1, e2]
  by_cases h1 : y > 0 <;> by_cases h2 : y < H <;> by_cases h3 : x > 0 <;> by_cases h4 : x < W <;>
    simp only [h1, h2, h3, h4, if_true, if_false] <;>
    (try simp only [cast_pred y h1]) <;> (try simp only [cast_pred x h3]) <;>
    (try rw [C14.fresh_v _ H W (y - 1) x (by omega) hx, C14.fresh_v _ H W (y - 1) x (by omega) hx,
      get_ivars _ H (W + 1) (y - 1) x (by omega) (by omega)]) <;>
    (try rw [C14.fresh_v _ H W y x h2 hx, C14.fresh_v _ H W y x h2 hx, get_ivars _ H (W + 1) y x h2 (by omega)]) <;>
    (try rw [C14.fresh_h _ H W y (x - 1) hy (by omega), C14.fresh_h _ H W y (x - 1) hy (by omega),
      get_ivars _ (H + 1) W y (x - 1) (by omega) (by omega)]) <;>
    (try rw [C14.fresh_h _ H W y x hy h4, C14.fresh_h _ H W y x hy h4, get_ivars _ (H + 1) W y x (by omega) h4]) <;>
    rfl

/-! ### the constraints of a cell as pure functions of `adj` -/

def VarAdj (a : Adj) : Prop := ∃ i o t, a = mkAdj i o t

def VarAdjs (adj : List (Option Adj)) : Prop := ∀ a, some a ∈ adj → VarAdj a

theorem adjS_var (H W y x : Nat) : VarAdjs (adjS H W y x) := by
  intro a ha
  simp only [adjS, List.mem_cons, List.not_mem_nil, or_false] at ha
  rcases ha with ha | ha | ha | ha <;> split at ha <;> first | (cases ha; exact ⟨_, _, _, rfl⟩) | cases ha

def eqE (t : Expr) (n : Int) : Expr := .node .eq [t, .litI n]

def flySideE (unk : Int) (a : Adj) : List Expr :=
  [.node .not [a.outE], .node .imp [a.inE, .node .or [eqE a.nt 0, eqE a.nt unk]]]

def flyRestStepE (outIdx : Nat) (unk : Int) (ai : Option Adj × Nat) : List Expr :=
  match ai.1 with
  | some b => if ai.2 != outIdx then flySideE unk b else []
  | none => []

def flyRestE (adj : List (Option Adj)) (outIdx : Nat) (unk : Int) : List Expr :=
  (adj.zipIdx.map (flyRestStepE outIdx unk)).flatten

def flyE (adj : List (Option Adj)) (outIdx : Nat) (a : Adj) (target unk : Int) : List Expr :=
  a.outE :: eqE a.nt target :: flyRestE adj outIdx unk

def pairE (unk : Int) (i j : Nat) (a b : Adj) : Expr :=
  if i / 2 == j / 2 then .node .imp [.node .and [a.inE, b.outE], .node .eq [a.nt, b.nt]]
  else .node .imp [.node .and [a.inE, b.outE],
    .node .or [.node .and [eqE a.nt unk, eqE b.nt unk], .node .eq [a.nt, .node .add [b.nt, .litI 1]]]]

def pairStepE (unk : Int) (ai bj : Option Adj × Nat) : List Expr :=
  match ai.1, bj.1 with
  | some a, some b => if ai.2 != bj.2 then [pairE unk ai.2 bj.2 a b] else []
  | _, _ => []

def pairsE (adj : List (Option Adj)) (unk : Int) : List Expr :=
  ((adj.zipIdx.map fun (ai : Option Adj × Nat) => adj.zipIdx.map (pairStepE unk ai)).map List.flatten).flatten

def inCount (adj : List (Option Adj)) : Expr := countTrueE ((adj.filterMap id).map Adj.inE)
def outCount (adj : List (Option Adj)) : Expr := countTrueE ((adj.filterMap id).map Adj.outE)

def emptyE (adj : List (Option Adj)) (unk : Int) : List Expr :=
  .node .le [inCount adj, .litI 1] :: .node .eq [inCount adj, outCount adj] :: pairsE adj unk

theorem flySide_eq (unk : Int) (a : Adj) (ha : VarAdj a) : flySide unk a = .ok (flySideE unk a) := by
  obtain ⟨i, o, t, rfl⟩ := ha
  rfl

theorem pairC_eq (unk : Int) (i j : Nat) (a b : Adj) (ha : VarAdj a) (hb : VarAdj b) :
    pairC unk i j a b = .ok (pairE unk i j a b) := by
  obtain ⟨i1, o1, t1, rfl⟩ := ha
  obtain ⟨i2, o2, t2, rfl⟩ := hb
  unfold pairC pairE
  by_cases h : (i / 2 == j / 2) = true
  · simp only [h, if_true]; rfl
  · simp only [h]; rfl

theorem mem_of_mem_zipIdx {α : Type} {l : List α} {p : α × Nat} (h : p ∈ l.zipIdx) : p.1 ∈ l := by
  have := List.mem_zipIdx h
  simp only [Nat.zero_add, Nat.sub_zero] at this
  rw [this.2.2]
  exact List.getElem_mem _

theorem flyRest_eq (adj : List (Option Adj)) (hadj : VarAdjs adj) (outIdx : Nat) (unk : Int) :
    adj.zipIdx.mapM (flyRestStep outIdx unk) = .ok (adj.zipIdx.map (flyRestStepE outIdx unk)) := by
  apply mapM_eq_ok_map
  intro ai hai
  have hm := mem_of_mem_zipIdx hai
  rcases ai with ⟨a, k⟩
  cases a with
  | none => rfl
  | some b =>
    simp only [flyRestStep, flyRestStepE]
    split
    · exact flySide_eq unk b (hadj b hm)
    · rfl

theorem flyCs_some (adj : List (Option Adj)) (hadj : VarAdjs adj) (outIdx : Nat) (a : Adj)
    (ha : adj[outIdx]? = some (some a)) (target unk : Int) :
    flyCs adj outIdx target unk = .ok (flyE adj outIdx a target unk, false) := by
  have hva : VarAdj a := hadj a (List.mem_of_getElem? ha)
  obtain ⟨i, o, t, rfl⟩ := hva
  unfold flyCs
  simp only [ha, bind, Except.bind]
  rw [flyRest_eq adj hadj outIdx unk]
  rfl

theorem flyCs_none (adj : List (Option Adj)) (outIdx : Nat) (ha : adj[outIdx]? = some none) (target unk : Int) :
    flyCs adj outIdx target unk = .ok ([.litB false], true) := by
  unfold flyCs
  simp only [ha]
  rfl

theorem cmpPy_ct_lit (op : Op) (l : List Expr) (n : Int) :
    cmpPy op (countTrueE l) (.litI n) = .ok (.node op [countTrueE l, .litI n]) := by
  obtain ⟨op', args, hct, hop⟩ := C11CL.countTrueE_isNode l
  rw [hct]
  simp [cmpPy, Expr.isIntExpr, hop, Expr.isIntLike]

theorem cmpPy_ct_ct (op : Op) (l l' : List Expr) :
    cmpPy op (countTrueE l) (countTrueE l') = .ok (.node op [countTrueE l, countTrueE l']) := by
  obtain ⟨op', args, hct, hop⟩ := C11CL.countTrueE_isNode l
  obtain ⟨op2, args2, hct2, hop2⟩ := C11CL.countTrueE_isNode l'
  rw [hct, hct2]
  simp [cmpPy, Expr.isIntExpr, hop, hop2, Expr.isIntLike]

theorem present_in_boolLike (adj : List (Option Adj)) (hadj : VarAdjs adj) :
    (∀ x ∈ (adj.filterMap id).map Adj.inE, x.isBoolLike = true) ∧
    (∀ x ∈ (adj.filterMap id).map Adj.outE, x.isBoolLike = true) := by
  constructor <;>
  · intro x hx
    simp only [List.mem_map, List.mem_filterMap, id] at hx
    obtain ⟨a, ⟨oa, hoa, rfl⟩, rfl⟩ := hx
    obtain ⟨i, o, t, rfl⟩ := hadj a hoa
    rfl

theorem pairs_eq (adj : List (Option Adj)) (hadj : VarAdjs adj) (unk : Int) :
    (adj.zipIdx.mapM fun (ai : Option Adj × Nat) => adj.zipIdx.mapM (pairStep unk ai))
    = .ok (adj.zipIdx.map fun (ai : Option Adj × Nat) => adj.zipIdx.map (pairStepE unk ai)) := by
  apply mapM_eq_ok_map
  intro ai hai
  apply mapM_eq_ok_map
  intro bj hbj
  have hm1 := mem_of_mem_zipIdx hai
  have hm2 := mem_of_mem_zipIdx hbj
  rcases ai with ⟨a, k⟩
  rcases bj with ⟨b, k'⟩
  cases a with
  | none => rfl
  | some a =>
    cases b with
    | none => rfl
    | some b =>
      simp only [pairStep, pairStepE]
      split
      · rw [pairC_eq unk k k' a b (hadj a hm1) (hadj b hm2)]; rfl
      · rfl

theorem emptyCs_eq (adj : List (Option Adj)) (hadj : VarAdjs adj) (unk : Int) :
    emptyCs adj unk = .ok (emptyE adj unk) := by
  unfold emptyCs
  obtain ⟨hin, hout⟩ := present_in_boolLike adj hadj
  simp only [bind, Except.bind]
  rw [countTrue_ok_of_boolLike hin, countTrue_ok_of_boolLike hout]
  simp only [cmpPy_ct_lit, cmpPy_ct_ct]
  rw [pairs_eq adj hadj unk]
  rfl

end Cspuz.Proofs.C11FireflyCell
