/-
  C12 — the aggregate helpers: `count_true`, `fold_or`, `fold_and`, `alldifferent`.
-/
import CspuzModel.Spec.ArrayOps
import CspuzModel.Proofs.EvalLemmas
namespace Cspuz.Proofs.C12Agg
set_option linter.unusedSimpArgs false
set_option linter.unusedVariables false
open Cspuz Cspuz.Spec Cspuz.Proofs

/-- the operands evaluate to the Booleans `bs` -/
def EvalB (σ : Asg) (xs : List Expr) (bs : List Bool) : Prop :=
  xs.map (eval σ) = bs.map fun b => some (.b b)

def EvalI (σ : Asg) (xs : List Expr) (ns : List Int) : Prop :=
  xs.map (eval σ) = ns.map fun n => some (.i n)

theorem allDistinct_iff_nodup : ∀ l : List Int, allDistinct l = true ↔ l.Nodup
  | [] => by simp [allDistinct]
  | x :: r => by simp [allDistinct, allDistinct_iff_nodup r]

/-! ### `fold_or` -/

theorem boolLike_cases {x : Expr} (h : x.isBoolLike = true) : (∃ b, x = .litB b) ∨ x.isBoolExpr = true := by
  cases x <;> simp [Expr.isBoolLike, Expr.isBoolExpr] at h ⊢ <;> simp [h]

theorem foldOr_go_spec : ∀ (xs acc : List Expr), (∀ x ∈ xs, x.isBoolLike = true) →
    ∃ e, foldOr.go xs acc = .ok e ∧ ∀ σ bs as, EvalB σ xs bs → EvalB σ acc.reverse as →
      eval σ e = some (.b (as.any id || bs.any id))
  | [], acc, _ => by
    unfold foldOr.go
    by_cases hacc : acc.isEmpty = true
    · refine ⟨.node .boolConst [.litB false], by simp [hacc], ?_⟩
      intro σ bs as h1 h2
      have : acc = [] := by simpa using hacc
      subst this
      cases bs <;> cases as <;> simp [EvalB] at h1 h2
      simp [evalOp]
    · refine ⟨.node .or acc.reverse, by simp [hacc], ?_⟩
      intro σ bs as h1 h2
      cases bs <;> simp [EvalB] at h1
      rw [eval_node, h2, evalOp_or]; simp
  | x :: r, acc, h => by
    have hx := h x (by simp)
    have hr : ∀ y ∈ r, y.isBoolLike = true := fun y hy => h y (by simp [hy])
    rcases boolLike_cases hx with ⟨b, rfl⟩ | hbe
    · cases b with
      | true =>
        refine ⟨.node .boolConst [.litB true], by simp [foldOr.go], ?_⟩
        intro σ bs as h1 h2
        cases bs with
        | nil => simp [EvalB] at h1
        | cons b bs =>
          simp [EvalB] at h1
          simp [evalOp, h1.1]
      | false =>
        obtain ⟨e, he, hsem⟩ := foldOr_go_spec r acc hr
        refine ⟨e, by simpa [foldOr.go] using he, ?_⟩
        intro σ bs as h1 h2
        cases bs with
        | nil => simp [EvalB] at h1
        | cons b bs =>
          simp [EvalB] at h1
          rw [hsem σ bs as h1.2 h2]
          simp [h1.1]
    · obtain ⟨e, he, hsem⟩ := foldOr_go_spec r (x :: acc) hr
      have hgo : foldOr.go (x :: r) acc = foldOr.go r (x :: acc) := by
        cases x <;> simp [Expr.isBoolExpr] at hbe <;> simp [foldOr.go, Expr.isBoolExpr, hbe]
      refine ⟨e, by rw [hgo]; exact he, ?_⟩
      intro σ bs as h1 h2
      cases bs with
      | nil => simp [EvalB] at h1
      | cons b bs =>
        simp [EvalB] at h1
        have h2' : EvalB σ (x :: acc).reverse (as ++ [b]) := by
          simp only [EvalB] at h2 ⊢
          simp [h2, h1.1]
        rw [hsem σ bs (as ++ [b]) h1.2 h2']
        simp [Bool.or_assoc]

theorem foldOr_spec (xs : List Expr) (h : ∀ x ∈ xs, x.isBoolLike = true) :
    ∃ e, foldOr xs = .ok e ∧ ∀ σ bs, EvalB σ xs bs → eval σ e = some (.b (bs.any id)) := by
  obtain ⟨e, he, hsem⟩ := foldOr_go_spec xs [] h
  refine ⟨e, he, fun σ bs hb => ?_⟩
  simpa using hsem σ bs [] hb (by simp [EvalB])

/-! ### `fold_and` -/

theorem foldAnd_go_spec : ∀ (xs acc : List Expr), (∀ x ∈ xs, x.isBoolLike = true) →
    ∃ e, foldAnd.go xs acc = .ok e ∧ ∀ σ bs as, EvalB σ xs bs → EvalB σ acc.reverse as →
      eval σ e = some (.b (as.all id && bs.all id))
  | [], acc, _ => by
    unfold foldAnd.go
    by_cases hacc : acc.isEmpty = true
    · refine ⟨.node .boolConst [.litB true], by simp [hacc], ?_⟩
      intro σ bs as h1 h2
      have : acc = [] := by simpa using hacc
      subst this
      cases bs <;> cases as <;> simp [EvalB] at h1 h2
      simp [evalOp]
    · refine ⟨.node .and acc.reverse, by simp [hacc], ?_⟩
      intro σ bs as h1 h2
      cases bs <;> simp [EvalB] at h1
      rw [eval_node, h2, evalOp_and]; simp
  | x :: r, acc, h => by
    have hx := h x (by simp)
    have hr : ∀ y ∈ r, y.isBoolLike = true := fun y hy => h y (by simp [hy])
    rcases boolLike_cases hx with ⟨b, rfl⟩ | hbe
    · cases b with
      | false =>
        refine ⟨.node .boolConst [.litB false], by simp [foldAnd.go], ?_⟩
        intro σ bs as h1 h2
        cases bs with
        | nil => simp [EvalB] at h1
        | cons b bs =>
          simp [EvalB] at h1
          simp [evalOp, h1.1]
      | true =>
        obtain ⟨e, he, hsem⟩ := foldAnd_go_spec r acc hr
        refine ⟨e, by simpa [foldAnd.go] using he, ?_⟩
        intro σ bs as h1 h2
        cases bs with
        | nil => simp [EvalB] at h1
        | cons b bs =>
          simp [EvalB] at h1
          rw [hsem σ bs as h1.2 h2]
          simp [h1.1]
    · obtain ⟨e, he, hsem⟩ := foldAnd_go_spec r (x :: acc) hr
      have hgo : foldAnd.go (x :: r) acc = foldAnd.go r (x :: acc) := by
        cases x <;> simp [Expr.isBoolExpr] at hbe <;> simp [foldAnd.go, Expr.isBoolExpr, hbe]
      refine ⟨e, by rw [hgo]; exact he, ?_⟩
      intro σ bs as h1 h2
      cases bs with
      | nil => simp [EvalB] at h1
      | cons b bs =>
        simp [EvalB] at h1
        have h2' : EvalB σ (x :: acc).reverse (as ++ [b]) := by
          simp only [EvalB] at h2 ⊢
          simp [h2, h1.1]
        rw [hsem σ bs (as ++ [b]) h1.2 h2']
        simp [Bool.and_assoc]

theorem foldAnd_spec (xs : List Expr) (h : ∀ x ∈ xs, x.isBoolLike = true) :
    ∃ e, foldAnd xs = .ok e ∧ ∀ σ bs, EvalB σ xs bs → eval σ e = some (.b (bs.all id)) := by
  obtain ⟨e, he, hsem⟩ := foldAnd_go_spec xs [] h
  refine ⟨e, he, fun σ bs hb => ?_⟩
  simpa using hsem σ bs [] hb (by simp [EvalB])

/-! ### `count_true` -/

theorem countTrue_spec (xs : List Expr) (h : ∀ x ∈ xs, x.isBoolLike = true) :
    ∃ e, countTrue xs = .ok e ∧ ∀ σ bs, EvalB σ xs bs → eval σ e = some (.i (countTrueSem bs)) := by
  refine ⟨_, countTrue_ok_of_boolLike h, fun σ bs hb => ?_⟩
  rw [eval_countTrueE bs hb, countTrueSem, List.count_eq_countP, List.countP_eq_length_filter]
  congr 4
  apply List.filter_congr
  intro x _; simp

/-! ### `alldifferent` -/

theorem alldifferent_spec (xs : List Expr) (h : ∀ x ∈ xs, x.isIntLike = true) :
    ∃ e, alldifferentE xs = .ok e ∧ ∀ σ ns, EvalI σ xs ns → eval σ e = some (.b (allDistinct ns)) := by
  refine ⟨.node .alldiff xs, ?_, fun σ ns hn => ?_⟩
  · unfold alldifferentE
    split
    · rfl
    · rename_i hc
      exfalso; apply hc
      rw [List.all_eq_true]
      intro x hx
      have := h x hx
      cases x <;> simp [Expr.isIntLike, Expr.isIntExpr] at this ⊢ <;> exact this
  · rw [eval_node, hn]
    simp [evalOp]

theorem alldifferent_rejects (xs : List Expr)
    (h : ∃ x ∈ xs, x.isIntLike = false ∧ ∀ b, x ≠ .litB b) : alldifferentE xs = .error .typeError := by
  obtain ⟨x, hx, hk, hb⟩ := h
  unfold alldifferentE
  split
  · rename_i hc
    exfalso
    rw [List.all_eq_true] at hc
    have := hc x hx
    cases x <;> simp [Expr.isIntLike, Expr.isIntExpr] at hk this
    · exact hb _ rfl
    · rw [hk] at this; cases this
  · rfl

/-! ### the method forms on arrays -/

theorem arr_foldOr (a : PyV) (d : List Expr) (hd : a.data? = some d)
    (hb : a.arrKind? = some true) :
    callMethod .foldOr a [] = .ok (some (.scalar (.node .or d))) ∧
    callMethod .foldAnd a [] = .ok (some (.scalar (.node .and d))) ∧
    callMethod .countTrue a [] = (countTrue d).map (fun e => some (.scalar e)) := by
  cases a <;> simp [PyV.arrKind?] at hb <;> subst hb <;> simp [PyV.data?] at hd <;> subst hd <;>
    simp [callMethod, PyV.cls, Cls.arrKind?, arrayMethod, Cls.defines, unarySpec, binarySpec, PyV.shape?, PyV.data?]

theorem arr_alldifferent (a : PyV) (d : List Expr) (hd : a.data? = some d) (hb : a.arrKind? = some false) :
    callMethod .alldifferent a [] = .ok (some (.scalar (.node .alldiff d))) := by
  cases a <;> simp [PyV.arrKind?] at hb <;> subst hb <;> simp [PyV.data?] at hd <;> subst hd <;>
    simp [callMethod, PyV.cls, Cls.arrKind?, arrayMethod, Cls.defines, unarySpec, binarySpec, PyV.shape?, PyV.data?]

theorem eval_or_node {σ : Asg} {d : List Expr} {bs : List Bool} (h : EvalB σ d bs) :
    eval σ (.node .or d) = some (.b (bs.any id)) := by
  rw [eval_node, h, evalOp_or]

theorem eval_and_node {σ : Asg} {d : List Expr} {bs : List Bool} (h : EvalB σ d bs) :
    eval σ (.node .and d) = some (.b (bs.all id)) := by
  rw [eval_node, h, evalOp_and]

theorem eval_alldiff_node {σ : Asg} {d : List Expr} {ns : List Int} (h : EvalI σ d ns) :
    eval σ (.node .alldiff d) = some (.b (allDistinct ns)) := by
  rw [eval_node, h]; simp [evalOp]

/-! ### flattening -/

theorem flattenList_append (a b : List ANest) :
    ANest.flattenList (a ++ b) = ANest.flattenList a ++ ANest.flattenList b := by
  induction a with
  | nil => simp [ANest.flattenList]
  | cons x r ih => simp [ANest.flattenList, ih]

theorem flatten_arr1 (k : Bool) (d : List Expr) : (ANest.leaf (.arr1 k d)).flatten = d := by
  simp [ANest.flatten, PyV.flat]

theorem flatten_arr2 (k : Bool) (h w : Nat) (d : List Expr) : (ANest.leaf (.arr2 k h w d)).flatten = d := by
  simp [ANest.flatten, PyV.flat]

theorem flatten_items (l : List ANest) : (ANest.items l).flatten = ANest.flattenList l := by
  simp [ANest.flatten]

/-! ### packaging -/

theorem count_true_all :
  (∀ args : List ANest, (∀ x ∈ ANest.flattenList args, x.isBoolLike = true) →
    ∃ e, countTrueA args = .ok e ∧ ∀ σ bs, EvalB σ (ANest.flattenList args) bs →
      eval σ e = some (.i (countTrueSem bs))) ∧
  (∀ args : List ANest, (∃ x ∈ ANest.flattenList args, x.isBoolLike = false) →
    countTrueA args = .error .typeError) ∧
  (∀ (a : PyV) (d : List Expr), a.data? = some d → a.arrKind? = some true →
    callMethod .countTrue a [] = (countTrueA [.leaf a]).map fun e => some (.scalar e)) := by
  refine ⟨fun args h => countTrue_spec _ h, fun args h => countTrue_typeError h, ?_⟩
  intro a d hd hb
  rw [(arr_foldOr a d hd hb).2.2]
  have : ANest.flattenList [.leaf a] = d := by
    cases a <;> simp [PyV.data?] at hd <;> subst hd <;> simp [ANest.flattenList, ANest.flatten, PyV.flat]
  simp [countTrueA, this]

theorem fold_or_all :
  (∀ args : List ANest, (∀ x ∈ ANest.flattenList args, x.isBoolLike = true) →
    ∃ e, foldOrA args = .ok e ∧ ∀ σ bs, EvalB σ (ANest.flattenList args) bs →
      eval σ e = some (.b (bs.any id))) ∧
  (foldOrA [] = .ok (.node .boolConst [.litB false])) ∧
  (∀ (a : PyV) (d : List Expr), a.data? = some d → a.arrKind? = some true →
    callMethod .foldOr a [] = .ok (some (.scalar (.node .or d))) ∧
    ∀ σ bs, EvalB σ d bs → eval σ (.node .or d) = some (.b (bs.any id))) :=
  ⟨fun _ h => foldOr_spec _ h, rfl, fun a d hd hb => ⟨(arr_foldOr a d hd hb).1, fun _ _ h => eval_or_node h⟩⟩

theorem fold_and_all :
  (∀ args : List ANest, (∀ x ∈ ANest.flattenList args, x.isBoolLike = true) →
    ∃ e, foldAndA args = .ok e ∧ ∀ σ bs, EvalB σ (ANest.flattenList args) bs →
      eval σ e = some (.b (bs.all id))) ∧
  (foldAndA [] = .ok (.node .boolConst [.litB true])) ∧
  (∀ (a : PyV) (d : List Expr), a.data? = some d → a.arrKind? = some true →
    callMethod .foldAnd a [] = .ok (some (.scalar (.node .and d))) ∧
    ∀ σ bs, EvalB σ d bs → eval σ (.node .and d) = some (.b (bs.all id))) :=
  ⟨fun _ h => foldAnd_spec _ h, rfl, fun a d hd hb => ⟨(arr_foldOr a d hd hb).2.1, fun _ _ h => eval_and_node h⟩⟩

theorem allDistinct_eq_decide (l : List Int) : allDistinct l = decide l.Nodup := by
  rw [Bool.eq_iff_iff, allDistinct_iff_nodup]; simp

theorem alldifferent_all :
  (∀ l : List Int, allDistinct l = true ↔ l.Nodup) ∧
  (∀ args : List ANest, (∀ x ∈ ANest.flattenList args, x.isIntLike = true) →
    ∃ e, alldifferentA args = .ok e ∧ ∀ σ ns, EvalI σ (ANest.flattenList args) ns →
      eval σ e = some (.b (decide ns.Nodup))) ∧
  (∀ args : List ANest, (∃ x ∈ ANest.flattenList args, x.isIntLike = false ∧ ∀ b, x ≠ .litB b) →
    alldifferentA args = .error .typeError) ∧
  (∀ (a : PyV) (d : List Expr), a.data? = some d → a.arrKind? = some false →
    callMethod .alldifferent a [] = .ok (some (.scalar (.node .alldiff d))) ∧
    ∀ σ ns, EvalI σ d ns → eval σ (.node .alldiff d) = some (.b (decide ns.Nodup))) := by
  refine ⟨allDistinct_iff_nodup, ?_, fun args h => alldifferent_rejects _ h, ?_⟩
  · intro args h
    obtain ⟨e, he, hs⟩ := alldifferent_spec _ h
    exact ⟨e, he, fun σ ns hn => by rw [hs σ ns hn, allDistinct_eq_decide]⟩
  · intro a d hd hb
    exact ⟨arr_alldifferent a d hd hb, fun σ ns h => by rw [eval_alldiff_node h, allDistinct_eq_decide]⟩

end Cspuz.Proofs.C12Agg
