/-
  C11 for `solve_simpleloop`: the posted program encodes the published rules (with the module's reading of the
  pivot cell, see Spec/PuzzleRules/Simpleloop.lean).
-/
import CspuzModel.Proofs.C11Loop
import CspuzModel.Proofs.C11Slitherlink
import CspuzModel.Spec.PuzzleRules.Simpleloop
namespace Cspuz.Proofs.C11Simpleloop
open Cspuz Cspuz.Spec Cspuz.Spec.FrameGeom Cspuz.Spec.Loop Cspuz.Proofs Cspuz.Proofs.C11Loop
open Cspuz.Puzzles Cspuz.Puzzles.Loop Cspuz.Puzzles.Simpleloop Cspuz.Spec.Simpleloop
open Cspuz.Proofs.C11Slitherlink (mem_cellsOf)

/-- the table entry (missing entries read as blocked). -/
def bval (pb : Problem) (y x : Nat) : Int := (pb.blocked.getD y []).getD x 1

theorem tableWhite_eq (pb : Problem) (y x : Nat) : tableWhite pb y x = (bval pb y x == 0) := rfl

/-- number of variables of the frame. -/
abbrev nv (pb : Problem) : Nat := Frame.numVars (pb.height - 1) (pb.width - 1)

/-- `is_passed[y, x]`. -/
def passedVar (pb : Problem) (y x : Nat) : Expr := .bvar (nv pb + ptIndex (pb.width - 1) (y, x))

/-- What the first double loop posts for one cell. -/
def cellE (pb : Problem) (p : Nat × Nat) : List Expr :=
  if notPivot pb p then [.node .iff [passedVar pb p.1 p.2, .litB (bval pb p.1 p.2 == 0)]] else []

/-- The constraint of the pivot. -/
def pivotC (pb : Problem) : Expr :=
  .node .iff [passedVar pb pb.pivot.1.toNat pb.pivot.2.toNat, .litB (othersWhite pb % 2 == 1)]

def extra (pb : Problem) : List Expr := ((cellsOf pb.height pb.width).map (cellE pb)).flatten ++ [pivotC pb]

theorem tableGet_eq {pb : Problem} (hw : WellFormed pb) {y x : Nat} (hy : y < pb.height) (hx : x < pb.width) :
    tableGet pb.blocked (y : Int) (x : Int) = .ok (bval pb y x) := by
  obtain ⟨_, _, hlen, hrows, _⟩ := hw
  unfold tableGet bval
  have hy' : y < pb.blocked.length := by rw [hlen]; exact hy
  have hrow : pb.blocked[y]? = some pb.blocked[y] := List.getElem?_eq_getElem hy'
  have hl : pb.blocked[y].length = pb.width := hrows _ (List.getElem_mem hy')
  have hx' : x < pb.blocked[y].length := by rw [hl]; exact hx
  rw [C14.pyIndex_nat _ _ _ hrow, ok_bind, C14.pyIndex_nat _ _ _ (List.getElem?_eq_getElem hx')]
  simp [List.getD, hrow, List.getElem?_eq_getElem hx']

theorem passed_get {pb : Problem} (hw : WellFormed pb) {y x : Nat} (hy : y < pb.height) (hx : x < pb.width) :
    (Arr2.mk (pb.height - 1 + 1) (pb.width - 1 + 1)
      (bvars (nv pb) ((pb.height - 1 + 1) * (pb.width - 1 + 1)))).get (y : Int) (x : Int)
      = .ok (passedVar pb y x) := by
  have h1 := hw.1
  have h2 := hw.2.1
  apply C14.Arr2.get_nat _ y x _ (by simp only []; omega) (by simp only []; omega)
  simp only []
  rw [C14.bvars_getElem? _ _ _ (C14.mul_add_lt (by omega) (by omega))]
  rfl

theorem cellCs_eq {pb : Problem} (hw : WellFormed pb) {p : Nat × Nat} (hp : p ∈ cellsOf pb.height pb.width) :
    cellCs pb (Arr2.mk (pb.height - 1 + 1) (pb.width - 1 + 1)
      (bvars (nv pb) ((pb.height - 1 + 1) * (pb.width - 1 + 1)))) p = .ok (cellE pb p) := by
  obtain ⟨hy, hx⟩ := mem_cellsOf.mp hp
  unfold cellCs cellE
  by_cases hn : notPivot pb p = true
  · simp only [hn, if_true]
    rw [passed_get hw hy hx, ok_bind, tableGet_eq hw hy hx, ok_bind]
    simp [iffPy, passedVar, Expr.isBoolExpr, Expr.isBoolLike, ensure1, Op.isBoolOp]
  · simp only [hn]
    rfl

theorem sum_ite_eq_countP {α : Type} (l : List α) (q : α → Bool) :
    (l.map fun a => if q a then 1 else 0).sum = l.countP q := by
  induction l with
  | nil => rfl
  | cons a l ih =>
    rw [List.map_cons, List.sum_cons, ih, List.countP_cons]
    cases q a <;> simp
    omega

theorem nPass_eq {pb : Problem} (hw : WellFormed pb) : nPass pb = .ok (othersWhite pb) := by
  unfold nPass
  rw [mapM_eq_ok_map (g := fun p => if (!isPivot pb p.1 p.2 && tableWhite pb p.1 p.2) then 1 else 0)]
  · rw [ok_bind, sum_ite_eq_countP]
    rfl
  · intro p hp
    obtain ⟨hy, hx⟩ := mem_cellsOf.mp hp
    have e : notPivot pb p = !isPivot pb p.1 p.2 := rfl
    by_cases hn : notPivot pb p = true
    · simp only [hn, if_true]
      rw [tableGet_eq hw hy hx, ok_bind, ← e, hn, tableWhite_eq]
      simp
    · simp only [hn]
      rw [← e]
      simp [hn]

/-- Closed form of the posted program. -/
theorem program_eq {pb : Problem} (hw : WellFormed pb) :
    program pb = .ok
      { decls := List.replicate (nv pb) .bool ++ (cyc (pb.height - 1) (pb.width - 1)).decls,
        cs := (cyc (pb.height - 1) (pb.width - 1)).cs ++ extra pb,
        keys := List.range (nv pb) } := by
  have hw' := hw
  obtain ⟨h1, h2, _, _, hp1, hp2, hp3, hp4⟩ := hw
  unfold program
  rw [if_neg (by omega)]
  simp only [frameKeys_eq, setup_eq, bind, Except.bind]
  rw [mapM_eq_ok_map (g := cellE pb) (fun p hp => cellCs_eq hw' hp)]
  simp only [nPass_eq hw']
  have hpiv : (Arr2.mk (pb.height - 1 + 1) (pb.width - 1 + 1)
      (bvars (nv pb) ((pb.height - 1 + 1) * (pb.width - 1 + 1)))).get pb.pivot.1 pb.pivot.2
      = .ok (passedVar pb pb.pivot.1.toNat pb.pivot.2.toNat) := by
    have := passed_get hw' (y := pb.pivot.1.toNat) (x := pb.pivot.2.toNat) (by omega) (by omega)
    rwa [Int.toNat_of_nonneg hp1, Int.toNat_of_nonneg hp3] at this
  simp only [hpiv]
  simp [iffPy, passedVar, Expr.isBoolExpr, Expr.isBoolLike, ensure1, Op.isBoolOp, extra, pivotC, List.append_assoc]

/-- Rule 2 as a predicate on the drawn steps. -/
def G (pb : Problem) (on : Seg → Bool) : Prop :=
  ∀ y, y < pb.height → ∀ x, x < pb.width →
    onLoop (pb.height - 1) (pb.width - 1) on (y, x) = white pb y x

theorem eval_iff_lit (σ : Asg) (k : Nat) (b : Bool) :
    eval σ (.node .iff [.bvar k, .litB b]) = some (.b true) ↔ σ.b k = b := by
  rw [eval_node]
  simp only [List.map_cons, List.map_nil, eval_bvar, eval_litB]
  cases σ.b k <;> cases b <;> simp [evalOp, allBools]

theorem isPivot_iff {pb : Problem} (hw : WellFormed pb) (y x : Nat) :
    isPivot pb y x = true ↔ (y = pb.pivot.1.toNat ∧ x = pb.pivot.2.toNat) := by
  obtain ⟨_, _, _, _, hp1, _, hp3, _⟩ := hw
  unfold isPivot
  rw [beq_iff_eq]
  constructor
  · intro h
    rw [← h]
    simp
  · rintro ⟨rfl, rfl⟩
    rw [Int.toNat_of_nonneg hp1, Int.toNat_of_nonneg hp3]

theorem extra_iff {pb : Problem} (hw : WellFormed pb) (σ : Asg)
    (hpass : ∀ p, PtValid (pb.height - 1) (pb.width - 1) p →
      σ.b (nv pb + ptIndex (pb.width - 1) p) = onLoop (pb.height - 1) (pb.width - 1) (onOf (pb.height - 1) (pb.width - 1) σ) p) :
    (∀ c ∈ extra pb, eval σ c = some (.b true)) ↔ G pb (onOf (pb.height - 1) (pb.width - 1) σ) := by
  have hw' := hw
  obtain ⟨h1, h2, _, _, hp1, hp2, hp3, hp4⟩ := hw
  have hvalid : ∀ y x, y < pb.height → x < pb.width → PtValid (pb.height - 1) (pb.width - 1) (y, x) := by
    intro y x hy hx; exact ⟨by simp only []; omega, by simp only []; omega⟩
  unfold G
  constructor
  · intro h y hy x hx
    rw [← hpass (y, x) (hvalid y x hy hx)]
    unfold white
    by_cases hpv : isPivot pb y x = true
    · rw [if_pos hpv]
      obtain ⟨rfl, rfl⟩ := (isPivot_iff hw' y x).mp hpv
      have := h (pivotC pb) (by simp [extra])
      exact (eval_iff_lit σ _ _).mp this
    · rw [if_neg hpv]
      have hm : Expr.node .iff [passedVar pb y x, .litB (bval pb y x == 0)] ∈ extra pb := by
        unfold extra
        apply List.mem_append_left
        rw [List.mem_flatten]
        refine ⟨cellE pb (y, x), List.mem_map.mpr ⟨(y, x), mem_cellsOf.mpr ⟨hy, hx⟩, rfl⟩, ?_⟩
        have : notPivot pb (y, x) = true := by
          show (!isPivot pb y x) = true
          simpa using hpv
        simp [cellE, this]
      exact (eval_iff_lit σ _ _).mp (h _ hm)
  · intro h c hc
    unfold extra at hc
    rcases List.mem_append.mp hc with hc | hc
    · rw [List.mem_flatten] at hc
      obtain ⟨l, hl, hcl⟩ := hc
      obtain ⟨p, hp, rfl⟩ := List.mem_map.mp hl
      obtain ⟨hy, hx⟩ := mem_cellsOf.mp hp
      unfold cellE at hcl
      split at hcl
      · next hn =>
        simp only [List.mem_singleton] at hcl
        subst hcl
        apply (eval_iff_lit σ _ _).mpr
        rw [hpass (p.1, p.2) (hvalid _ _ hy hx), h p.1 hy p.2 hx]
        unfold white
        have : isPivot pb p.1 p.2 = false := by
          have : (!isPivot pb p.1 p.2) = true := hn
          simpa using this
        rw [this]
        rfl
      · simp at hcl
    · simp only [List.mem_singleton] at hc
      subst hc
      apply (eval_iff_lit σ _ _).mpr
      have hy : pb.pivot.1.toNat < pb.height := by omega
      have hx : pb.pivot.2.toNat < pb.width := by omega
      rw [hpass (_, _) (hvalid _ _ hy hx), h _ hy _ hx]
      unfold white
      rw [if_pos ((isPivot_iff hw' _ _).mpr ⟨rfl, rfl⟩)]

theorem G_congr (pb : Problem) (hw : WellFormed pb) (on on' : Seg → Bool)
    (h : ∀ s, s.Valid (pb.height - 1) (pb.width - 1) → on s = on' s) : G pb on ↔ G pb on' := by
  have h1 := hw.1
  have h2 := hw.2.1
  have key : ∀ y, y < pb.height → ∀ x, x < pb.width →
      onLoop (pb.height - 1) (pb.width - 1) on (y, x) = onLoop (pb.height - 1) (pb.width - 1) on' (y, x) := by
    intro y hy x hx
    exact onLoop_congr _ _ on on' h (y, x) ⟨by simp only []; omega, by simp only []; omega⟩
  unfold G
  constructor
  · intro hg y hy x hx; rw [← key y hy x hx]; exact hg y hy x hx
  · intro hg y hy x hx; rw [key y hy x hx]; exact hg y hy x hx

theorem extra_wt (pb : Problem) : ∀ c ∈ extra pb, wtB c = true := by
  intro c hc
  unfold extra at hc
  rcases List.mem_append.mp hc with hc | hc
  · rw [List.mem_flatten] at hc
    obtain ⟨l, hl, hcl⟩ := hc
    obtain ⟨p, _, rfl⟩ := List.mem_map.mp hl
    unfold cellE at hcl
    split at hcl
    · simp only [List.mem_singleton] at hcl
      subst hcl
      simp [wtB, wtBs, passedVar]
    · simp at hcl
  · simp only [List.mem_singleton] at hc
    subst hc
    simp [pivotC, wtB, wtBs, passedVar]

theorem main (pb : Problem) (hw : WellFormed pb) (P : PuzzleProg) (hP : program pb = .ok P) :
    EncodesRules P (Rules pb) ∧ P.KeysOk ∧ (∀ c ∈ P.cs, wtB c = true) := by
  rw [program_eq hw] at hP
  cases hP
  refine ⟨?_, keysOk_frame _ _ _ _, ?_⟩
  · have h := encodes_loop (pb.height - 1) (pb.width - 1) (extra pb) (G pb) (G_congr pb hw)
      (fun σ hpass => extra_iff hw σ hpass)
    intro a
    rw [h a]
    unfold Rules RulesOn
    rfl
  · intro c hc
    rcases List.mem_append.mp hc with h | h
    · exact cyc_wt _ _ c h
    · exact extra_wt pb c h

theorem total (pb : Problem) (hw : WellFormed pb) : ∃ P, program pb = .ok P := ⟨_, program_eq hw⟩

/-- On a consistent instance the decided board is the table. -/
theorem white_of_consistent (pb : Problem) (hc : Consistent pb) (y x : Nat) (hy : y < pb.height) (hx : x < pb.width) :
    white pb y x = tableWhite pb y x := by
  unfold white
  by_cases hp : isPivot pb y x = true
  · rw [if_pos hp, hc y hy x hx hp]
  · rw [if_neg hp]

end Cspuz.Proofs.C11Simpleloop
