/-
  Lemmas shared by the C11 proofs of the loop puzzles (slitherlink, simpleloop, masyu, geradeweg, yajilin):
  the common prologue `BoolGridFrame` + `active_edges_single_cycle` encodes "the drawn segments form one loop or
  nothing" on the lattice, and `is_passed` is exact.
-/
import CspuzModel.Properties.C06
import CspuzModel.Properties.C14
import CspuzModel.Proofs.C11Grid
import CspuzModel.Spec.PuzzleRules.LoopAnswer
import CspuzModel.Model.Puzzles.LoopUtil
namespace Cspuz.Proofs.C11Loop
open Cspuz Cspuz.Spec Cspuz.Spec.FrameGeom Cspuz.Spec.Loop Cspuz.Proofs Cspuz.Puzzles Cspuz.Puzzles.Loop

/-! ### `SingleCycle` does not depend on the order in which the edges are listed -/

/-- Activity of the `k`-th edge when the edges are the items of `L`. -/
def actL {α : Type} (L : List α) (on : α → Bool) (k : Nat) : Bool :=
  match L[k]? with
  | some s => on s
  | none => false

theorem actL_lt {α : Type} (L : List α) (on : α → Bool) (k : Nat) (hk : k < L.length) : actL L on k = on L[k] := by
  unfold actL; rw [List.getElem?_eq_getElem hk]

theorem singleCycle_perm {α : Type} [DecidableEq α] (n : Nat) (f : α → Nat × Nat) (on : α → Bool)
    (L1 L2 : List α) (hp : L1.Perm L2) (hnd : L1.Nodup) :
    SingleCycle ⟨n, L1.map f⟩ (actL L1 on) → SingleCycle ⟨n, L2.map f⟩ (actL L2 on) := by
  intro h
  have hnd2 : L2.Nodup := hp.nodup_iff.mp hnd
  rcases h with h | ⟨vs, es, hvs, hes, hlen, h1, hjoin, hact⟩
  · left
    intro e he
    simp only [List.length_map] at he
    have hmem : L2[e] ∈ L1 := hp.mem_iff.mpr (List.getElem_mem he)
    obtain ⟨i, hi, hie⟩ := List.getElem_of_mem hmem
    have h0 := h i (by simpa using hi)
    rw [actL_lt _ _ _ hi, hie] at h0
    rw [actL_lt _ _ _ he, h0]
  · right
    -- every listed edge is an edge of the graph
    have hes_lt : ∀ e ∈ es, e < L1.length := by
      intro e he
      obtain ⟨k, hk, hke⟩ := List.getElem_of_mem he
      obtain ⟨e', a, b, h1', _, _, hj⟩ := hjoin k hk
      rw [List.getElem?_eq_getElem hk, hke] at h1'
      cases h1'
      have : (L1.map f)[e]? ≠ none := by
        rcases hj with hj | hj <;> (simp only [] at hj; rw [hj]; simp)
      simpa using this
    let τ : Nat → Nat := fun e => match L1[e]? with | some s => L2.idxOf s | none => 0
    have hτ : ∀ e (he : e < L1.length), τ e < L2.length ∧ L2[τ e]? = some L1[e] := by
      intro e he
      have hm : L1[e] ∈ L2 := hp.mem_iff.mp (List.getElem_mem he)
      have hlt : L2.idxOf L1[e] < L2.length := List.idxOf_lt_length_of_mem hm
      have hτe : τ e = L2.idxOf L1[e] := by simp only [τ, List.getElem?_eq_getElem he]
      refine ⟨by rw [hτe]; exact hlt, ?_⟩
      rw [hτe, List.getElem?_eq_getElem hlt, List.getElem_idxOf hlt]
    have hτinj : ∀ e1 e2, e1 < L1.length → e2 < L1.length → τ e1 = τ e2 → e1 = e2 := by
      intro e1 e2 h1 h2 heq
      have a1 := (hτ e1 h1).2
      have a2 := (hτ e2 h2).2
      rw [heq, a2] at a1
      have : L1[e2] = L1[e1] := Option.some.inj a1
      exact ((List.Nodup.getElem_inj_iff hnd).mp this).symm
    refine ⟨vs, es.map τ, hvs, ?_, by simpa using hlen, by simpa using h1, ?_, ?_⟩
    · rw [List.nodup_map_iff_inj_on hes]
      intro x hx y hy hxy
      exact hτinj x y (hes_lt x hx) (hes_lt y hy) hxy
    · intro k hk
      simp only [List.length_map] at hk
      obtain ⟨e, a, b, h1', h2', h3', hj⟩ := hjoin k hk
      have hel : e < L1.length := hes_lt e (List.mem_of_getElem? h1')
      refine ⟨τ e, a, b, by simp [h1'], h2', h3', ?_⟩
      have key : (L2.map f)[τ e]? = (L1.map f)[e]? := by
        rw [List.getElem?_map, List.getElem?_map, (hτ e hel).2, List.getElem?_eq_getElem hel]
      unfold Joins at hj ⊢
      simp only [] at hj ⊢
      rw [key]; exact hj
    · intro e' he'
      simp only [List.length_map] at he'
      have hmem : L2[e'] ∈ L1 := hp.mem_iff.mpr (List.getElem_mem he')
      obtain ⟨e, hel, hee⟩ := List.getElem_of_mem hmem
      have hτe : τ e = e' := by
        have a1 := (hτ e hel).2
        have a0 := (hτ e hel).1
        rw [List.getElem?_eq_getElem a0, hee] at a1
        exact (List.Nodup.getElem_inj_iff hnd2).mp (Option.some.inj a1)
      rw [actL_lt _ _ _ he', ← hee, ← actL_lt L1 on e hel, hact e (by simpa using hel), ← hτe]
      constructor
      · intro h; exact List.mem_map_of_mem h
      · intro h
        obtain ⟨x, hx, hxe⟩ := List.mem_map.mp h
        have := hτinj x e (hes_lt x hx) hel hxe
        rw [← this]; exact hx

/-! ### The lattice graph handed to `active_edges_single_cycle` -/

open Cspuz.Proofs.C14 (graphSegs segEdge segExpr fromGridFrame_fresh graphSegs_perm graphSegs_valid
  mem_allSegs allSegs_nodup var_range var_inj ends_valid ptIndex_inj ptIndex_lt mem_pointSegs allSegs_map_var)

/-- The segment `s` is drawn under `σ` (frame allocated first: `base = 0`). -/
def onOf (H W : Nat) (σ : Asg) : Seg → Bool := fun s => σ.b (s.var 0 H W)

/-- graph and edge expressions `_from_grid_frame` produces for a fresh frame. -/
def lg (H W : Nat) : Graph := { n := (H + 1) * (W + 1), edges := (graphSegs H W).map (segEdge W) }
def les (H W : Nat) : List Expr := (graphSegs H W).map (segExpr 0 H W)

theorem fromGridFrame_eq (H W : Nat) : fromGridFrame (Frame.fresh 0 H W) = .ok (les H W, lg H W) :=
  fromGridFrame_fresh 0 H W

theorem lg_pos (H W : Nat) : 0 < (lg H W).n := Nat.mul_pos (Nat.succ_pos _) (Nat.succ_pos _)

theorem lg_wf (H W : Nat) : (lg H W).wf = true := by
  unfold Graph.wf lg
  rw [List.all_eq_true]
  intro ab hab
  simp only [List.mem_map] at hab
  obtain ⟨s, hs, rfl⟩ := hab
  have hv := ends_valid H W s (graphSegs_valid H W s hs)
  simp only [segEdge, Bool.and_eq_true]
  exact ⟨decide_eq_true (ptIndex_lt H W _ hv.1), decide_eq_true (ptIndex_lt H W _ hv.2.1)⟩

theorem lg_loopFree (H W : Nat) : LoopFree (lg H W) := by
  intro e he
  simp only [lg, List.mem_map] at he
  obtain ⟨s, hs, rfl⟩ := he
  have hv := ends_valid H W s (graphSegs_valid H W s hs)
  intro h
  exact hv.2.2 (ptIndex_inj H W _ _ hv.1 hv.2.1 h)

theorem les_len (H W : Nat) : (les H W).length = (lg H W).edges.length := by simp [les, lg]

theorem les_boolArgs (H W : Nat) : BoolArgs (Frame.numVars H W) (les H W) := by
  intro e he
  simp only [les, List.mem_map] at he
  obtain ⟨s, hs, rfl⟩ := he
  have := var_range 0 H W s (graphSegs_valid H W s hs)
  simp only [segExpr, wtB, Expr.varsBelow, decide_eq_true_eq, true_and]
  omega

theorem truthAt_les (H W : Nat) (σ : Asg) : truthAt σ (les H W) = actL (graphSegs H W) (onOf H W σ) := by
  funext k
  unfold truthAt actL les
  rw [List.getElem?_map]
  cases (graphSegs H W)[k]? with
  | none => rfl
  | some s =>
    simp only [Option.map_some, segExpr, onOf, eval_bvar]
    cases σ.b (Seg.var 0 H W s) <;> decide

theorem segActive_eq (H W : Nat) (on : Seg → Bool) : segActive H W on = actL (allSegs H W) on := by
  funext k; unfold segActive actL; cases (allSegs H W)[k]? <;> rfl

theorem latticeGraph_eq (H W : Nat) : latticeGraph H W = ⟨(H + 1) * (W + 1), (allSegs H W).map (segEdge W)⟩ := rfl

/-- The loop condition seen by the cycle constraint is the specification's `IsLoop`. -/
theorem isLoop_iff (H W : Nat) (σ : Asg) :
    SingleCycle (lg H W) (truthAt σ (les H W)) ↔ IsLoop H W (onOf H W σ) := by
  rw [truthAt_les]
  unfold IsLoop
  rw [segActive_eq, latticeGraph_eq]
  have hnd : (graphSegs H W).Nodup := (graphSegs_perm H W).nodup_iff.mpr (allSegs_nodup H W)
  constructor
  · exact singleCycle_perm _ _ _ _ _ (graphSegs_perm H W) hnd
  · exact singleCycle_perm _ _ _ _ _ (graphSegs_perm H W).symm (allSegs_nodup H W)

/-- `is_passed` of the lattice point `p`, in the specification's words. -/
theorem visited_eq (H W : Nat) (σ : Asg) (p : Pt) (hp : PtValid H W p) :
    visited (lg H W) (truthAt σ (les H W)) (ptIndex W p) = onLoop H W (onOf H W σ) p := by
  rw [truthAt_les]
  unfold visited activeDegree onLoop
  rw [Bool.eq_iff_iff, decide_eq_true_eq, List.length_pos_iff_exists_mem, List.any_eq_true]
  constructor
  · rintro ⟨je, hje⟩
    rw [List.mem_filter] at hje
    obtain ⟨hinc, hact⟩ := hje
    obtain ⟨a, b, he, hab⟩ := mem_incident.1 hinc
    simp only [lg, List.getElem?_map] at he
    cases hs : (graphSegs H W)[je.2]? with
    | none => rw [hs] at he; simp at he
    | some s =>
      rw [hs] at he
      simp only [Option.map_some, Option.some.injEq, segEdge, Prod.mk.injEq] at he
      have hsv : s.Valid H W := graphSegs_valid H W s (List.mem_of_getElem? hs)
      have hv := ends_valid H W s hsv
      refine ⟨s, (mem_pointSegs H W p.1 p.2 hp.1 hp.2 s).mpr ⟨hsv, ?_⟩, ?_⟩
      · rcases hab with ⟨h1, _⟩ | ⟨h1, _⟩
        · left; exact ptIndex_inj H W _ _ hv.1 hp (by rw [he.1, h1])
        · right; exact ptIndex_inj H W _ _ hv.2.1 hp (by rw [he.2, h1])
      · simpa [actL, hs] using hact
  · rintro ⟨s, hs, hon⟩
    obtain ⟨hsv, ht⟩ := (mem_pointSegs H W p.1 p.2 hp.1 hp.2 s).mp hs
    have hm : s ∈ graphSegs H W := (graphSegs_perm H W).mem_iff.mpr ((mem_allSegs H W s).mpr hsv)
    obtain ⟨k, hk, hks⟩ := List.getElem_of_mem hm
    have hk? : (graphSegs H W)[k]? = some s := by rw [List.getElem?_eq_getElem hk, hks]
    rcases ht with ht | ht
    · refine ⟨(ptIndex W s.ends.2, k), ?_⟩
      rw [List.mem_filter]
      refine ⟨mem_incident.2 ⟨ptIndex W s.ends.1, ptIndex W s.ends.2, ?_, .inl ⟨by rw [ht], rfl⟩⟩, ?_⟩
      · simp [lg, List.getElem?_map, hk?, segEdge]
      · simpa [actL, hk?] using hon
    · refine ⟨(ptIndex W s.ends.1, k), ?_⟩
      rw [List.mem_filter]
      refine ⟨mem_incident.2 ⟨ptIndex W s.ends.1, ptIndex W s.ends.2, ?_, .inr ⟨by rw [ht], rfl⟩⟩, ?_⟩
      · simp [lg, List.getElem?_map, hk?, segEdge]
      · simpa [actL, hk?] using hon

/-! ### The prologue `BoolGridFrame(...)` + `active_edges_single_cycle(solver, frame)` -/

/-- the fragment emitted by the cycle constraint (auxiliary-variable route), closed form. -/
def cyc (H W : Nat) : Prog := C06L1.cycProg (lg H W) (les H W) (Frame.numVars H W)

theorem singleCycle_eq (H W : Nat) :
    singleCycle (lg H W) (les H W) false (Frame.numVars H W) =
      .ok (cyc H W, bvars (Frame.numVars H W) ((H + 1) * (W + 1))) :=
  C06L1.cyc_eq_prog (lg_pos H W) (lg_wf H W) (les_len H W) (les_boolArgs H W)

theorem cyc_decls_length (H W : Nat) : (cyc H W).decls.length = 3 * ((H + 1) * (W + 1)) := by
  simp [cyc, C06L1.cycProg, lg]; omega

theorem setup_eq (H W : Nat) :
    setup H W false = .ok
      { frame := Frame.fresh 0 H W,
        nvars := Frame.numVars H W + 3 * ((H + 1) * (W + 1)),
        decls := List.replicate (Frame.numVars H W) .bool ++ (cyc H W).decls,
        cs := (cyc H W).cs,
        isPassed := ⟨H + 1, W + 1, bvars (Frame.numVars H W) ((H + 1) * (W + 1))⟩ } := by
  have hr : reshape (bvars (Frame.numVars H W) ((H + 1) * (W + 1))) (H + 1) (W + 1)
      = .ok (.arr2 (H + 1) (W + 1) (bvars (Frame.numVars H W) ((H + 1) * (W + 1)))) := by
    unfold reshape
    rw [if_neg (by simp [bvars])]
  unfold setup
  simp only [fromGridFrame_eq, singleCycle_eq, hr, cyc_decls_length, bind, Except.bind]

theorem frameKeys_eq (H W : Nat) : frameKeys (Frame.fresh 0 H W) [] = .ok (List.range (Frame.numVars H W)) := by
  unfold frameKeys
  apply C11Grid.addKeys_fresh _ _ Expr.bvar C11Grid.isVarExpr_bvar
  simp only [PyV.flat, C14.allEdges_fresh]
  have : (allSegs H W).map (segExpr 0 H W) = ((allSegs H W).map (Seg.var 0 H W)).map Expr.bvar := by
    rw [List.map_map]; rfl
  rw [this, allSegs_map_var, List.map_map]
  apply List.map_congr_left
  intro k _
  simp

/-- A model of the whole program = a model of the cycle fragment that also satisfies the extra constraints. -/
theorem sat_split (nv : Nat) (p : Prog) (extra : List Expr) (σ : Asg) :
    Sat (List.replicate nv .bool ++ p.decls) (p.cs ++ extra) σ ↔
      (SatFrag nv p σ ∧ ∀ c ∈ extra, eval σ c = some (.b true)) := by
  unfold Sat SatFrag Asg.respects
  constructor
  · rintro ⟨hr, hc⟩
    refine ⟨⟨?_, fun c hc' => hc c (List.mem_append_left _ hc')⟩, fun c hc' => hc c (List.mem_append_right _ hc')⟩
    intro k lo hi hk
    apply hr (nv + k) lo hi
    rw [List.getElem?_append_right (by simp)]
    simpa using hk
  · rintro ⟨⟨hr, hc1⟩, hc2⟩
    refine ⟨?_, ?_⟩
    · intro id lo hi hd
      by_cases hid : id < nv
      · rw [List.getElem?_append_left (by simpa using hid)] at hd
        simp [hid] at hd
      · rw [List.getElem?_append_right (by simpa using hid)] at hd
        simp only [List.length_replicate] at hd
        have := hr (id - nv) lo hi hd
        rwa [show nv + (id - nv) = id by omega] at this
    · intro c hc
      rcases List.mem_append.mp hc with h | h
      · exact hc1 c h
      · exact hc2 c h

theorem loop_of_sat (H W : Nat) (σ : Asg) (hs : SatFrag (Frame.numVars H W) (cyc H W) σ) :
    IsLoop H W (onOf H W σ) := by
  have h := Cspuz.C06.C06_cycle_aux (lg H W) (les H W) (Frame.numVars H W) _ _ σ (lg_wf H W) (lg_loopFree H W)
    (les_len H W) (les_boolArgs H W) (singleCycle_eq H W)
  exact (isLoop_iff H W σ).mp (h.2.1.mp ⟨σ, AgreeBelow.refl _ σ, hs⟩)

theorem passed_of_sat (H W : Nat) (σ : Asg) (hs : SatFrag (Frame.numVars H W) (cyc H W) σ)
    (p : Pt) (hp : PtValid H W p) :
    σ.b (Frame.numVars H W + ptIndex W p) = onLoop H W (onOf H W σ) p := by
  have h := Cspuz.C06.C06_cycle_aux (lg H W) (les H W) (Frame.numVars H W) _ _ σ (lg_wf H W) (lg_loopFree H W)
    (les_len H W) (les_boolArgs H W) (singleCycle_eq H W)
  rw [h.2.2 σ (AgreeBelow.refl _ σ) hs (ptIndex W p) (ptIndex_lt H W p hp), visited_eq H W σ p hp]

theorem realizable_of_loop (H W : Nat) (σ : Asg) (hl : IsLoop H W (onOf H W σ)) :
    Realizable (Frame.numVars H W) (cyc H W) σ := by
  have h := Cspuz.C06.C06_cycle_aux (lg H W) (les H W) (Frame.numVars H W) _ _ σ (lg_wf H W) (lg_loopFree H W)
    (les_len H W) (les_boolArgs H W) (singleCycle_eq H W)
  exact h.2.1.mpr ((isLoop_iff H W σ).mpr hl)

/-! ### answer lists -/

theorem allSegs_var_getElem? (H W : Nat) (s : Seg) (hs : s.Valid H W) :
    (allSegs H W)[s.var 0 H W]? = some s := by
  obtain ⟨k, hk, hks⟩ := List.getElem_of_mem ((mem_allSegs H W s).mpr hs)
  have h := congrArg (fun l => l[k]?) (allSegs_map_var 0 H W)
  simp only [List.getElem?_map, List.getElem?_eq_getElem hk, Option.map_some] at h
  have hk2 : k < Frame.numVars H W := by
    have := congrArg List.length (allSegs_map_var 0 H W)
    simp only [List.length_map, List.length_range] at this
    omega
  rw [List.getElem?_range hk2] at h
  simp only [Option.map_some, Option.some.injEq, Nat.zero_add] at h
  rw [← hks, h, List.getElem?_eq_getElem hk]

theorem isLoop_congr (H W : Nat) (on on' : Seg → Bool) (h : ∀ s, s.Valid H W → on s = on' s) :
    IsLoop H W on ↔ IsLoop H W on' := by
  have : segActive H W on = segActive H W on' := by
    funext k
    unfold segActive
    cases hk : (allSegs H W)[k]? with
    | none => rfl
    | some s => exact h s ((mem_allSegs H W s).mp (List.mem_of_getElem? hk))
  unfold IsLoop; rw [this]

theorem segAnswer_congr (H W : Nat) (on on' : Seg → Bool) (h : ∀ s, s.Valid H W → on s = on' s) :
    segAnswer H W on = segAnswer H W on' := by
  unfold segAnswer
  apply List.map_congr_left
  intro s hs
  rw [h s ((mem_allSegs H W s).mp hs)]

theorem onLoop_congr (H W : Nat) (on on' : Seg → Bool) (h : ∀ s, s.Valid H W → on s = on' s)
    (p : Pt) (hp : PtValid H W p) : onLoop H W on p = onLoop H W on' p := by
  unfold onLoop
  rw [Bool.eq_iff_iff, List.any_eq_true, List.any_eq_true]
  constructor
  · rintro ⟨s, hs, ho⟩
    exact ⟨s, hs, by rw [← h s ((mem_pointSegs H W p.1 p.2 hp.1 hp.2 s).mp hs).1]; exact ho⟩
  · rintro ⟨s, hs, ho⟩
    exact ⟨s, hs, by rw [h s ((mem_pointSegs H W p.1 p.2 hp.1 hp.2 s).mp hs).1]; exact ho⟩

/-- The values of the frame variables `0 … numVars-1`, as an answer list. -/
theorem keyVals_frame (H W : Nat) (rest : List VarDecl) (σ : Asg) :
    (List.range (Frame.numVars H W)).map (valOf (List.replicate (Frame.numVars H W) .bool ++ rest) σ)
      = (segAnswer H W (onOf H W σ)).map some := by
  unfold segAnswer
  rw [List.map_map]
  have : (fun s => some (Val.b (onOf H W σ s))) = (fun k => some (Val.b (σ.b k))) ∘ (Seg.var 0 H W) := by
    funext s; rfl
  show _ = (allSegs H W).map (some ∘ fun s => Val.b (onOf H W σ s))
  have e : (some ∘ fun s => Val.b (onOf H W σ s)) = (fun k => some (Val.b (σ.b k))) ∘ (Seg.var 0 H W) := this
  rw [e, ← List.map_map, allSegs_map_var, List.map_map]
  apply List.map_congr_left
  intro k hk
  have hk' := List.mem_range.mp hk
  unfold valOf
  rw [List.getElem?_append_left (by simpa using hk'), List.getElem?_replicate, if_pos hk']
  simp

/-! ### The generic encoding theorem for "frame + cycle constraint + clue constraints" -/

/-- The program `frame; active_edges_single_cycle; extra constraints` with the frame variables as answer keys encodes
"the drawn segments form one loop (or nothing) and `G`", as soon as, in every model of the cycle fragment - where
`is_passed` is exactly "the point is on the line" - the extra constraints hold iff `G` holds of the drawn segments.
`G` may only look at the segments of the lattice. -/
theorem encodes_loop' (H W : Nat) (extra : List Expr) (G : (Seg → Bool) → Prop)
    (hG : ∀ on on', (∀ s, s.Valid H W → on s = on' s) → (G on ↔ G on'))
    (hextra : ∀ σ : Asg, IsLoop H W (onOf H W σ) →
      (∀ p, PtValid H W p → σ.b (Frame.numVars H W + ptIndex W p) = onLoop H W (onOf H W σ) p) →
      ((∀ c ∈ extra, eval σ c = some (.b true)) ↔ G (onOf H W σ))) :
    EncodesRules
      { decls := List.replicate (Frame.numVars H W) .bool ++ (cyc H W).decls,
        cs := (cyc H W).cs ++ extra,
        keys := List.range (Frame.numVars H W) }
      (fun a => ∃ on, a = segAnswer H W on ∧ IsLoop H W on ∧ G on) := by
  intro a
  constructor
  · rintro ⟨σ, hσ, hk⟩
    obtain ⟨hfrag, hex⟩ := (sat_split _ _ _ σ).mp hσ
    refine ⟨onOf H W σ, ?_, loop_of_sat H W σ hfrag, (hextra σ (loop_of_sat H W σ hfrag) (passed_of_sat H W σ hfrag)).mp hex⟩
    have hk' : (segAnswer H W (onOf H W σ)).map some = a.map some := by
      rw [← keyVals_frame H W (cyc H W).decls σ]; exact hk
    exact ((List.map_inj_right (fun _ _ e => Option.some.inj e)).mp hk').symm
  · rintro ⟨on, rfl, hl, hg⟩
    let σ0 : Asg := ⟨fun k => match (allSegs H W)[k]? with | some s => on s | none => false, fun _ => 0⟩
    have h0 : ∀ s, s.Valid H W → onOf H W σ0 s = on s := by
      intro s hs
      show (match (allSegs H W)[s.var 0 H W]? with | some s => on s | none => false) = on s
      rw [allSegs_var_getElem? H W s hs]
    obtain ⟨σ', hag, hfrag⟩ := realizable_of_loop H W σ0 ((isLoop_congr H W _ _ h0).mpr hl)
    have h1 : ∀ s, s.Valid H W → onOf H W σ' s = on s := by
      intro s hs
      rw [← h0 s hs]
      exact ((hag (s.var 0 H W) (by have := var_range 0 H W s hs; omega)).1).symm
    refine ⟨σ', (sat_split _ _ _ σ').mpr ⟨hfrag, ?_⟩, ?_⟩
    · exact (hextra σ' (loop_of_sat H W σ' hfrag) (passed_of_sat H W σ' hfrag)).mpr ((hG _ _ h1).mpr hg)
    · show (List.range (Frame.numVars H W)).map (valOf _ σ') = _
      rw [keyVals_frame H W (cyc H W).decls σ', segAnswer_congr H W _ _ h1]

theorem encodes_loop (H W : Nat) (extra : List Expr) (G : (Seg → Bool) → Prop)
    (hG : ∀ on on', (∀ s, s.Valid H W → on s = on' s) → (G on ↔ G on'))
    (hextra : ∀ σ : Asg,
      (∀ p, PtValid H W p → σ.b (Frame.numVars H W + ptIndex W p) = onLoop H W (onOf H W σ) p) →
      ((∀ c ∈ extra, eval σ c = some (.b true)) ↔ G (onOf H W σ))) :
    EncodesRules
      { decls := List.replicate (Frame.numVars H W) .bool ++ (cyc H W).decls,
        cs := (cyc H W).cs ++ extra,
        keys := List.range (Frame.numVars H W) }
      (fun a => ∃ on, a = segAnswer H W on ∧ IsLoop H W on ∧ G on) :=
  encodes_loop' H W extra G hG (fun σ _ hp => hextra σ hp)

theorem keysOk_frame (H W : Nat) (rest : List VarDecl) (cs : List Expr) :
    (PuzzleProg.mk (List.replicate (Frame.numVars H W) .bool ++ rest) cs (List.range (Frame.numVars H W))).KeysOk := by
  refine ⟨List.nodup_range, ?_⟩
  intro k hk
  simp only [List.mem_range] at hk
  simp only [List.length_append, List.length_replicate]
  omega

/-! ### the cycle fragment is well-typed -/

theorem wtIs_ctOps : ∀ xs : List Expr, (∀ x ∈ xs, wtB x = true) → wtIs (ctOps xs) = true
  | [], _ => rfl
  | x :: r, h => by
    have ih := wtIs_ctOps r (fun y hy => h y (List.mem_cons_of_mem _ hy))
    have hx := h x List.mem_cons_self
    cases x <;> simp_all [ctOps, wtIs, wtI, wtB]

theorem wtIs_append : ∀ a b : List Expr, wtIs (a ++ b) = (wtIs a && wtIs b)
  | [], b => by simp [wtIs]
  | x :: a, b => by simp [wtIs, wtIs_append a b, Bool.and_assoc]

theorem wtI_countTrueE (xs : List Expr) (h : ∀ x ∈ xs, wtB x = true) : wtI (countTrueE xs) = true := by
  unfold countTrueE
  have h1 := wtIs_ctOps xs h
  by_cases hc : ctConst xs > 0
  · simp only [hc, if_true]
    have : (ctOps xs ++ [Expr.litI (ctConst xs : Nat)]).isEmpty = false := by simp
    simp only [this, Bool.false_eq_true, if_false, wtI, wtIs_append, h1, wtIs, Bool.and_self, Bool.and_true]
    simp
  · simp only [hc, if_false]
    cases hops : ctOps xs with
    | nil => simp [wtI]
    | cons y ys =>
      rw [hops] at h1
      simp only [List.isEmpty_cons, Bool.false_eq_true, if_false, wtI, h1, Bool.and_true]
      simp

theorem cyc_wt (H W : Nat) : ∀ c ∈ (cyc H W).cs, wtB c = true := by
  intro c hc
  have hie : ∀ j, wtB ((les H W).getD j .litNone) = true ∨ j ≥ (les H W).length := by
    intro j
    by_cases hj : j < (les H W).length
    · left
      rw [C06L1.getD_eq hj]
      exact ((les_boolArgs H W) _ (List.getElem_mem hj)).1
    · right; omega
  simp only [cyc, C06L1.cycProg, List.mem_append, List.mem_flatten, List.mem_map, List.mem_range,
    List.mem_singleton] at hc
  rcases hc with ⟨l, ⟨i, hi, rfl⟩, hc⟩ | rfl
  · simp only [C06L1.cycCs, List.mem_cons, List.not_mem_nil, or_false] at hc
    have hdeg : ∀ x ∈ C06L1.degArgs (lg H W) (les H W) i, wtB x = true := by
      intro x hx
      simp only [C06L1.degArgs, List.mem_map] at hx
      obtain ⟨je, hje, rfl⟩ := hx
      have hb := incident_bounds (lg_wf H W) hje
      rcases hie je.2 with h | h
      · exact h
      · have := les_len H W; omega
    rcases hc with rfl | rfl
    · simp [wtB, wtIs, wtI, C06L1.degE, wtI_countTrueE _ hdeg]
    · have hit : ∀ x ∈ C06L1.itemsE (lg H W) (les H W) (Frame.numVars H W) i, wtB x = true := by
        intro x hx
        simp only [C06L1.itemsE, List.mem_map] at hx
        obtain ⟨je, hje, rfl⟩ := hx
        have hb := incident_bounds (lg_wf H W) hje
        rcases hie je.2 with h | h
        · have h' : wtB ((les H W)[je.2]?.getD Expr.litNone) = true := h
          simp [wtB, wtBs, wtIs, wtI, h']
        · have := les_len H W; omega
      simp [wtB, wtBs, wtIs, wtI, wtI_countTrueE _ hit]
  · have : ∀ x ∈ (List.range (lg H W).n).map (fun i => Expr.bvar (Frame.numVars H W + 2 * (lg H W).n + i)), wtB x = true := by
      intro x hx
      simp only [List.mem_map] at hx
      obtain ⟨i, _, rfl⟩ := hx
      rfl
    simp [wtB, wtIs, wtI, wtI_countTrueE _ this]
