/-
  C11 for `solve_geradeweg`: the posted program encodes the published rules.
-/
import CspuzModel.Proofs.C11Masyu
import CspuzModel.Spec.PuzzleRules.Geradeweg
namespace Cspuz.Proofs.C11Geradeweg
open Cspuz Cspuz.Spec Cspuz.Spec.FrameGeom Cspuz.Spec.Loop Cspuz.Proofs Cspuz.Proofs.C11Loop
open Cspuz.Puzzles Cspuz.Puzzles.Loop Cspuz.Puzzles.Geradeweg Cspuz.Spec.Geradeweg
open Cspuz.Proofs.C11Slitherlink (mem_cellsOf)
open Cspuz.Proofs.C14 (segExpr)

/-! ### Slices of an array of fresh variables, as lists -/

theorem axisSel_to (n x : Nat) (hx : x ≤ n) :
    axisSel n (.slice none (some (x : Int)) none) = .ok (false, List.range x) := by
  simp only [axisSel]
  rw [C11CL.sliceSel_unit n none (some (x : Int)) 0 x (by omega) hx rfl (by simp only [clampPos]; split <;> omega)]
  simp [bind, Except.bind]

theorem axisSel_from (n x : Nat) (hx : x ≤ n) :
    axisSel n (.slice (some (x : Int)) none none) = .ok (false, (List.range (n - x)).map fun j => x + j) := by
  simp only [axisSel]
  rw [C11CL.sliceSel_unit n (some (x : Int)) none x n hx (by omega) (by simp only [clampPos]; split <;> omega) rfl]
  simp [bind, Except.bind]

theorem slice_row (f : Nat → Expr) (h w y : Nat) (kx : AxisKey) (xs : List Nat)
    (hy : y < h) (hx : axisSel w kx = .ok (false, xs)) (hxs : ∀ x ∈ xs, x < w) :
    getitem2D ((List.range (h * w)).map f) h w (.pair (.idx (y : Int)) kx)
      = .ok (.arr1 (xs.map fun x => f (y * w + x))) := by
  rw [Cspuz.Proofs.C13.getitem2D_eq_spec _ _ h w _ (by simp)]
  simp only [specGetitem, specPair, C11CL.axisSel_idx h y hy, hx, bind, Except.bind]
  rw [C11CL.sel_fresh f h w [y] xs (by simpa using hy) hxs]
  simp

theorem slice_col (f : Nat → Expr) (h w x : Nat) (ky : AxisKey) (ys : List Nat)
    (hx : x < w) (hy : axisSel h ky = .ok (false, ys)) (hys : ∀ y ∈ ys, y < h) :
    getitem2D ((List.range (h * w)).map f) h w (.pair ky (.idx (x : Int)))
      = .ok (.arr1 (ys.map fun y => f (y * w + x))) := by
  rw [Cspuz.Proofs.C13.getitem2D_eq_spec _ _ h w _ (by simp)]
  simp only [specGetitem, specPair, C11CL.axisSel_idx w x hx, hy, bind, Except.bind]
  rw [C11CL.sel_fresh f h w ys [x] hys (by simpa using hx)]
  have e : ∀ l : List Nat, (l.flatMap fun y => [f (y * w + x)]) = l.map fun y => f (y * w + x) := by
    intro l
    induction l with
    | nil => rfl
    | cons a l ih => simp [List.flatMap_cons, ih]
  simp [e]

/-! ### the four slices of `solve_geradeweg` -/

section Slices
variable (H W : Nat)

theorem hor_eq : (Frame.fresh 0 H W).horizontal
    = ⟨H + 1, W, (List.range ((H + 1) * W)).map (fun i => Expr.bvar (0 + i))⟩ := rfl
theorem ver_eq : (Frame.fresh 0 H W).vertical
    = ⟨H, W + 1, (List.range (H * (W + 1))).map (fun i => Expr.bvar (0 + (H + 1) * W + i))⟩ := rfl

theorem back_eq (y x : Nat) (hy : y ≤ H) (hx : x ≤ W) :
    sliceList (Frame.fresh 0 H W).horizontal (.idx (y : Int)) (.slice none (some (x : Int)) none)
      = .ok ((List.range x).map fun c => segExpr 0 H W (Seg.h y c)) := by
  unfold sliceList
  rw [hor_eq]
  simp only []
  rw [slice_row _ (H + 1) W y _ (List.range x) (by omega) (axisSel_to W x hx) (by intro c hc; simp at hc; omega)]
  simp only [ok_bind, segExpr, Seg.var, Nat.add_assoc]

theorem forth_eq (y x : Nat) (hy : y ≤ H) (hx : x ≤ W) :
    sliceList (Frame.fresh 0 H W).horizontal (.idx (y : Int)) (.slice (some (x : Int)) none none)
      = .ok ((List.range (W - x)).map fun j => segExpr 0 H W (Seg.h y (x + j))) := by
  unfold sliceList
  rw [hor_eq]
  simp only []
  rw [slice_row _ (H + 1) W y _ _ (by omega) (axisSel_from W x hx) (by intro c hc; simp at hc; omega)]
  simp only [ok_bind, segExpr, Seg.var, Nat.add_assoc, List.map_map, Function.comp_def]

theorem up_eq (y x : Nat) (hy : y ≤ H) (hx : x ≤ W) :
    sliceList (Frame.fresh 0 H W).vertical (.slice none (some (y : Int)) none) (.idx (x : Int))
      = .ok ((List.range y).map fun r => segExpr 0 H W (Seg.v r x)) := by
  unfold sliceList
  rw [ver_eq]
  simp only []
  rw [slice_col _ H (W + 1) x _ (List.range y) (by omega) (axisSel_to H y hy) (by intro c hc; simp at hc; omega)]
  simp only [ok_bind, segExpr, Seg.var, Nat.add_assoc]

theorem down_eq (y x : Nat) (hy : y ≤ H) (hx : x ≤ W) :
    sliceList (Frame.fresh 0 H W).vertical (.slice (some (y : Int)) none none) (.idx (x : Int))
      = .ok ((List.range (H - y)).map fun j => segExpr 0 H W (Seg.v (y + j) x)) := by
  unfold sliceList
  rw [ver_eq]
  simp only []
  rw [slice_col _ H (W + 1) x _ _ (by omega) (axisSel_from H y hy) (by intro c hc; simp at hc; omega)]
  simp only [ok_bind, segExpr, Seg.var, Nat.add_assoc, List.map_map, Function.comp_def]

end Slices

/-! ### `line_length` -/

open Cspuz.Proofs.C11Masyu (Good good_bvar good_lit)

/-- `e` is a well-typed integer operand (`IntExpr` or Python int) whose value under `σ` is `v σ`. -/
def GoodI (e : Expr) (v : Asg → Int) : Prop :=
  e.isIntLike = true ∧ wtI e = true ∧ ∀ σ, eval σ e = some (.i (v σ))

/-- closed form of Python `+` on integer operands. -/
def addE (a b : Expr) : Expr :=
  match a, b with
  | .litI x, .litI y => .litI (x + y)
  | _, _ => .node .add [a, b]

/-- closed form of `s == n` for an integer operand `s` and a Python int `n`. -/
def eqE (s : Expr) (n : Int) : Expr :=
  match s with
  | .litI x => .litB (x == n)
  | _ => .node .eq [s, .litI n]

theorem addPy_eq {a b : Expr} (ha : a.isIntLike = true) (hb : b.isIntLike = true) :
    addPy a b = .ok (addE a b) := by
  unfold addPy addE
  cases a <;> cases b <;> simp_all

theorem good_add {a b : Expr} {va vb : Asg → Int} (ha : GoodI a va) (hb : GoodI b vb) :
    GoodI (addE a b) (fun σ => va σ + vb σ) := by
  unfold addE
  split
  · next x y =>
    refine ⟨rfl, rfl, fun σ => ?_⟩
    have h1 := ha.2.2 σ
    have h2 := hb.2.2 σ
    simp only [eval_litI, Option.some.injEq, Val.i.injEq] at h1 h2
    rw [eval_litI, h1, h2]
  · refine ⟨rfl, by simp [wtI, wtIs, ha.2.1, hb.2.1], fun σ => ?_⟩
    rw [eval_node]
    simp only [List.map_cons, List.map_nil, ha.2.2 σ, hb.2.2 σ]
    simp [evalOp, allInts]

theorem cmpPy_eq {s : Expr} (hs : s.isIntLike = true) (n : Int) : cmpPy .eq s (.litI n) = .ok (eqE s n) := by
  unfold cmpPy eqE
  cases s <;> simp_all [Expr.isIntLike, Expr.isIntExpr, cmpOp]

theorem good_eq {s : Expr} {vs : Asg → Int} (hs : GoodI s vs) (n : Int) :
    Good (eqE s n) (fun σ => vs σ == n) := by
  unfold eqE
  split
  · next x =>
    refine ⟨rfl, rfl, fun σ => ?_⟩
    have h1 := hs.2.2 σ
    simp only [eval_litI, Option.some.injEq, Val.i.injEq] at h1
    rw [eval_litB, h1]
  · refine ⟨rfl, by simp [wtB, wtIs, hs.2.1, wtI], fun σ => ?_⟩
    rw [eval_node]
    simp only [List.map_cons, List.map_nil, hs.2.2 σ, eval_litI]
    rw [evalOp_cmp rfl, cmpOp_eq]

/-- closed form of `line_length` on a list of segment variables. -/
def llE : List Expr → Expr
  | [] => .litI 0
  | [e] => .node .ite [e, .litI 1, .litI 0]
  | e :: r => .node .ite [e, .node .add [.litI 1, llE r], .litI 0]

theorem llE_cons_cons (e e' : Expr) (r : List Expr) :
    llE (e :: e' :: r) = .node .ite [e, .node .add [.litI 1, llE (e' :: r)], .litI 0] := by
  rw [llE]
  intro h; cases h

theorem llE_isNode : ∀ (e : Expr) (r : List Expr), ∃ args, llE (e :: r) = .node .ite args
  | _, [] => ⟨_, rfl⟩
  | e, e' :: r => ⟨_, llE_cons_cons e e' r⟩

theorem lineLength_eq : ∀ es : List Expr, lineLength es = .ok (llE es)
  | [] => rfl
  | [e] => rfl
  | e :: e' :: r => by
    rw [lineLength, lineLength_eq (e' :: r), ok_bind, llE_cons_cons]
    obtain ⟨args, hargs⟩ := llE_isNode e' r
    rw [hargs]
    rfl
    intro h; cases h

/-- value of `line_length`: length of the initial run of true flags. -/
theorem good_llE (segs : List Seg) (H W : Nat) :
    GoodI (llE (segs.map (segExpr 0 H W)))
      (fun σ => (((segs.takeWhile fun s => onOf H W σ s).length : Nat) : Int)) := by
  induction segs with
  | nil => exact ⟨rfl, rfl, fun σ => by simp [llE]⟩
  | cons s r ih =>
    cases r with
    | nil =>
      refine ⟨rfl, rfl, fun σ => ?_⟩
      simp only [List.map_cons, List.map_nil, llE, eval_node, segExpr, eval_bvar, eval_litI, onOf]
      cases h : σ.b (Seg.var 0 H W s) <;> simp [evalOp, List.takeWhile, h]
    | cons s' r' =>
      rw [List.map_cons, List.map_cons, llE_cons_cons]
      rw [List.map_cons] at ih
      have hs : ∀ σ, eval σ (segExpr 0 H W s) = some (.b (onOf H W σ s)) := fun σ => eval_bvar σ _
      have hw : wtB (segExpr 0 H W s) = true := rfl
      refine ⟨rfl, by simp [wtI, wtIs, hw, ih.2.1], fun σ => ?_⟩
      have hR : (List.takeWhile (fun s => onOf H W σ s) (s :: s' :: r')).length
          = if onOf H W σ s = true then 1 + (List.takeWhile (fun s => onOf H W σ s) (s' :: r')).length else 0 := by
        rw [List.takeWhile_cons]
        split <;> simp
        omega
      beta_reduce
      rw [eval_node, hR]
      simp only [List.map_cons, List.map_nil, hs σ, eval_litI, eval_node, ih.2.2 σ]
      generalize (List.takeWhile (fun s => onOf H W σ s) (s' :: r')).length = n
      have hadd : evalOp .add [some (.i 1), some (.i (n : Int))] = some (.i (1 + (n : Int))) := by
        simp [evalOp, allInts]
      rw [hadd]
      cases h : onOf H W σ s <;> simp [evalOp]

/-! ### `fold_or(ends).then(line_length(back) + line_length(forth) == n)` -/

section Arm
variable (H W : Nat)

/-- closed form of `fold_or` on segment variables. -/
def foE (es : List Expr) : Expr := if es.isEmpty then .node .boolConst [.litB false] else .node .or es

theorem foldOr_go_segs : ∀ (segs : List Seg) (acc : List Expr),
    foldOr.go (segs.map (segExpr 0 H W)) acc = .ok (foE (acc.reverse ++ segs.map (segExpr 0 H W)))
  | [], acc => by
    simp only [List.map_nil, foldOr.go, List.append_nil, foE]
    cases acc <;> simp
  | s :: r, acc => by
    have h := foldOr_go_segs r (segExpr 0 H W s :: acc)
    simp only [List.reverse_cons, List.append_assoc, List.singleton_append] at h
    simp only [List.map_cons]
    rw [← h]
    simp [foldOr.go, segExpr, Expr.isBoolExpr]

theorem foldOr_segs (segs : List Seg) : foldOr (segs.map (segExpr 0 H W)) = .ok (foE (segs.map (segExpr 0 H W))) := by
  have := foldOr_go_segs H W segs []
  simpa [foldOr] using this

theorem good_foE (segs : List Seg) :
    Good (foE (segs.map (segExpr 0 H W))) (fun σ => segs.any fun s => onOf H W σ s) := by
  unfold foE
  cases segs with
  | nil => exact ⟨rfl, rfl, fun σ => by simp [eval_node, evalOp]⟩
  | cons s r =>
    simp only [List.map_cons, List.isEmpty_cons, Bool.false_eq_true, if_false]
    have hwt : wtBs ((s :: r).map (segExpr 0 H W)) = true := by
      generalize (s :: r) = l
      induction l with
      | nil => rfl
      | cons a l ih => simp [wtBs, ih, segExpr, wtB]
    refine ⟨rfl, by simpa [wtB] using hwt, fun σ => ?_⟩
    rw [← List.map_cons, eval_node, List.map_map]
    have : (List.map (eval σ ∘ segExpr 0 H W) (s :: r)) = ((s :: r).map fun t => onOf H W σ t).map fun b => some (.b b) := by
      rw [List.map_map]; apply List.map_congr_left; intro t _; simp [segExpr, onOf]
    rw [this, evalOp_or]
    simp [List.any_map]

/-- closed form of one `solver.ensure(fold_or(...).then(... == n))`. -/
def armE (ends back forth : List Seg) (n : Int) : Expr :=
  .node .imp [foE (ends.map (segExpr 0 H W)),
    eqE (addE (llE (back.map (segExpr 0 H W))) (llE (forth.map (segExpr 0 H W)))) n]

theorem armCs_eq (ends back forth : List Seg) (n : Int) :
    armCs (ends.map (segExpr 0 H W)) (back.map (segExpr 0 H W)) (forth.map (segExpr 0 H W)) n
      = .ok (armE H W ends back forth n) := by
  unfold armCs
  have ga := good_llE back H W
  have gb := good_llE forth H W
  have gs := good_add ga gb
  have ge := good_eq gs n
  have gf := good_foE H W ends
  rw [foldOr_segs, ok_bind, lineLength_eq, ok_bind, lineLength_eq, ok_bind, addPy_eq ga.1 gb.1, ok_bind,
    cmpPy_eq gs.1, ok_bind]
  have hb : binB .imp (foE (ends.map (segExpr 0 H W)))
      (eqE (addE (llE (back.map (segExpr 0 H W))) (llE (forth.map (segExpr 0 H W)))) n)
      = .ok (armE H W ends back forth n) := by
    simp [binB, makeBoolExpr, Op.isCmp, gf.1, ge.1, armE, bind, Except.bind]
  rw [hb, ok_bind]
  simp [ensure1, armE, Expr.isBoolLike, Op.isBoolOp]

theorem good_armE (ends back forth : List Seg) (n : Int) :
    Good (armE H W ends back forth n) (fun σ =>
      !(ends.any fun s => onOf H W σ s) ||
        ((((back.takeWhile fun s => onOf H W σ s).length : Nat) : Int) +
          (((forth.takeWhile fun s => onOf H W σ s).length : Nat) : Int) == n)) := by
  have ga := good_llE back H W
  have gb := good_llE forth H W
  have gs := good_add ga gb
  have ge := good_eq gs n
  have gf := good_foE H W ends
  refine ⟨rfl, by simp [armE, wtB, wtBs, gf.2.1, ge.2.1], fun σ => ?_⟩
  unfold armE
  rw [eval_node]
  simp only [List.map_cons, List.map_nil, gf.2.2 σ, ge.2.2 σ]
  rw [evalOp_imp]

end Arm
