/-
  C11 for `solve_geradeweg`: the posted program encodes the published rules.
-/
import CspuzModel.Proofs.C11Masyu
import CspuzModel.Spec.PuzzleRules.Geradeweg
namespace Cspuz.Proofs.C11Geradeweg
open Cspuz Cspuz.Spec Cspuz.Spec.FrameGeom Cspuz.Spec.Loop Cspuz.Proofs Cspuz.Proofs.C11Loop
open Cspuz.Puzzles Cspuz.Puzzles.Loop Cspuz.Puzzles.Geradeweg Cspuz.Spec.Geradeweg
open Cspuz.Proofs.C11Slitherlink (mem_cellsOf)
open Cspuz.Proofs.C14 (segExpr)

/-! ### Slices of an array of fresh variables, as lists -/

theorem axisSel_to (n x : Nat) (hx : x ≤ n) :
    axisSel n (.slice none (some (x : Int)) none) = .ok (false, List.range x) := by
  simp only [axisSel]
  rw [C11CL.sliceSel_unit n none (some (x : Int)) 0 x (by omega) hx rfl (by simp only [clampPos]; split <;> omega)]
  simp [bind, Except.bind]

theorem axisSel_from (n x : Nat) (hx : x ≤ n) :
    axisSel n (.slice (some (x : Int)) none none) = .ok (false, (List.range (n - x)).map fun j => x + j) := by
  simp only [axisSel]
  rw [C11CL.sliceSel_unit n (some (x : Int)) none x n hx (by omega) (by simp only [clampPos]; split <;> omega) rfl]
  simp [bind, Except.bind]

theorem slice_row (f : Nat → Expr) (h w y : Nat) (kx : AxisKey) (xs : List Nat)
    (hy : y < h) (hx : axisSel w kx = .ok (false, xs)) (hxs : ∀ x ∈ xs, x < w) :
    getitem2D ((List.range (h * w)).map f) h w (.pair (.idx (y : Int)) kx)
      = .ok (.arr1 (xs.map fun x => f (y * w + x))) := by
  rw [Cspuz.Proofs.C13.getitem2D_eq_spec _ _ h w _ (by simp)]
  simp only [specGetitem, specPair, C11CL.axisSel_idx h y hy, hx, bind, Except.bind]
  rw [C11CL.sel_fresh f h w [y] xs (by simpa using hy) hxs]
  simp

theorem slice_col (f : Nat → Expr) (h w x : Nat) (ky : AxisKey) (ys : List Nat)
    (hx : x < w) (hy : axisSel h ky = .ok (false, ys)) (hys : ∀ y ∈ ys, y < h) :
    getitem2D ((List.range (h * w)).map f) h w (.pair ky (.idx (x : Int)))
      = .ok (.arr1 (ys.map fun y => f (y * w + x))) := by
  rw [Cspuz.Proofs.C13.getitem2D_eq_spec _ _ h w _ (by simp)]
  simp only [specGetitem, specPair, C11CL.axisSel_idx w x hx, hy, bind, Except.bind]
  rw [C11CL.sel_fresh f h w ys [x] hys (by simpa using hx)]
  have e : ∀ l : List Nat, (l.flatMap fun y => [f (y * w + x)]) = l.map fun y => f (y * w + x) := by
    intro l
    induction l with
    | nil => rfl
    | cons a l ih => simp [List.flatMap_cons, ih]
  simp [e]

/-! ### the four slices of `solve_geradeweg` -/

section Slices
variable (H W : Nat)

theorem hor_eq : (Frame.fresh 0 H W).horizontal
    = ⟨H + 1, W, (List.range ((H + 1) * W)).map (fun i => Expr.bvar (0 + i))⟩ := rfl
theorem ver_eq : (Frame.fresh 0 H W).vertical
    = ⟨H, W + 1, (List.range (H * (W + 1))).map (fun i => Expr.bvar (0 + (H + 1) * W + i))⟩ := rfl

theorem back_eq (y x : Nat) (hy : y ≤ H) (hx : x ≤ W) :
    sliceList (Frame.fresh 0 H W).horizontal (.idx (y : Int)) (.slice none (some (x : Int)) none)
      = .ok ((List.range x).map fun c => segExpr 0 H W (Seg.h y c)) := by
  unfold sliceList
  rw [hor_eq]
  simp only []
  rw [slice_row _ (H + 1) W y _ (List.range x) (by omega) (axisSel_to W x hx) (by intro c hc; simp at hc; omega)]
  simp only [ok_bind, segExpr, Seg.var, Nat.add_assoc]

theorem forth_eq (y x : Nat) (hy : y ≤ H) (hx : x ≤ W) :
    sliceList (Frame.fresh 0 H W).horizontal (.idx (y : Int)) (.slice (some (x : Int)) none none)
      = .ok ((List.range (W - x)).map fun j => segExpr 0 H W (Seg.h y (x + j))) := by
  unfold sliceList
  rw [hor_eq]
  simp only []
  rw [slice_row _ (H + 1) W y _ _ (by omega) (axisSel_from W x hx) (by intro c hc; simp at hc; omega)]
  simp only [ok_bind, segExpr, Seg.var, Nat.add_assoc, List.map_map, Function.comp_def]

theorem up_eq (y x : Nat) (hy : y ≤ H) (hx : x ≤ W) :
    sliceList (Frame.fresh 0 H W).vertical (.slice none (some (y : Int)) none) (.idx (x : Int))
      = .ok ((List.range y).map fun r => segExpr 0 H W (Seg.v r x)) := by
  unfold sliceList
  rw [ver_eq]
  simp only []
  rw [slice_col _ H (W + 1) x _ (List.range y) (by omega) (axisSel_to H y hy) (by intro c hc; simp at hc; omega)]
  simp only [ok_bind, segExpr, Seg.var, Nat.add_assoc]

theorem down_eq (y x : Nat) (hy : y ≤ H) (hx : x ≤ W) :
    sliceList (Frame.fresh 0 H W).vertical (.slice (some (y : Int)) none none) (.idx (x : Int))
      = .ok ((List.range (H - y)).map fun j => segExpr 0 H W (Seg.v (y + j) x)) := by
  unfold sliceList
  rw [ver_eq]
  simp only []
  rw [slice_col _ H (W + 1) x _ _ (by omega) (axisSel_from H y hy) (by intro c hc; simp at hc; omega)]
  simp only [ok_bind, segExpr, Seg.var, Nat.add_assoc, List.map_map, Function.comp_def]

end Slices

/-! ### `line_length` -/

open Cspuz.Proofs.C11Masyu (Good good_bvar good_lit)

/-- `e` is a well-typed integer operand (`IntExpr` or Python int) whose value under `σ` is `v σ`. -/
def GoodI (e : Expr) (v : Asg → Int) : Prop :=
  e.isIntLike = true ∧ wtI e = true ∧ ∀ σ, eval σ e = some (.i (v σ))

/-- closed form of Python `+` on integer operands. -/
def addE (a b : Expr) : Expr :=
  match a, b with
  | .litI x, .litI y => .litI (x + y)
  | _, _ => .node .add [a, b]

/-- closed form of `s == n` for an integer operand `s` and a Python int `n`. -/
def eqE (s : Expr) (n : Int) : Expr :=
  match s with
  | .litI x => .litB (x == n)
  | _ => .node .eq [s, .litI n]

theorem addPy_eq {a b : Expr} (ha : a.isIntLike = true) (hb : b.isIntLike = true) :
    addPy a b = .ok (addE a b) := by
  unfold addPy addE
  cases a <;> cases b <;> simp_all

theorem good_add {a b : Expr} {va vb : Asg → Int} (ha : GoodI a va) (hb : GoodI b vb) :
    GoodI (addE a b) (fun σ => va σ + vb σ) := by
  unfold addE
  split
  · next x y =>
    refine ⟨rfl, rfl, fun σ => ?_⟩
    have h1 := ha.2.2 σ
    have h2 := hb.2.2 σ
    simp only [eval_litI, Option.some.injEq, Val.i.injEq] at h1 h2
    rw [eval_litI, h1, h2]
  · refine ⟨rfl, by simp [wtI, wtIs, ha.2.1, hb.2.1], fun σ => ?_⟩
    rw [eval_node]
    simp only [List.map_cons, List.map_nil, ha.2.2 σ, hb.2.2 σ]
    simp [evalOp, allInts]

theorem cmpPy_eq {s : Expr} (hs : s.isIntLike = true) (n : Int) : cmpPy .eq s (.litI n) = .ok (eqE s n) := by
  unfold cmpPy eqE
  cases s <;> simp_all [Expr.isIntLike, Expr.isIntExpr, cmpOp]

theorem good_eq {s : Expr} {vs : Asg → Int} (hs : GoodI s vs) (n : Int) :
    Good (eqE s n) (fun σ => vs σ == n) := by
  unfold eqE
  split
  · next x =>
    refine ⟨rfl, rfl, fun σ => ?_⟩
    have h1 := hs.2.2 σ
    simp only [eval_litI, Option.some.injEq, Val.i.injEq] at h1
    rw [eval_litB, h1]
  · refine ⟨rfl, by simp [wtB, wtIs, hs.2.1, wtI], fun σ => ?_⟩
    rw [eval_node]
    simp only [List.map_cons, List.map_nil, hs.2.2 σ, eval_litI]
    rw [evalOp_cmp rfl, cmpOp_eq]

/-- closed form of `line_length` on a list of segment variables. -/
def llE : List Expr → Expr
  | [] => .litI 0
  | [e] => .node .ite [e, .litI 1, .litI 0]
  | e :: r => .node .ite [e, .node .add [.litI 1, llE r], .litI 0]

theorem llE_cons_cons (e e' : Expr) (r : List Expr) :
    llE (e :: e' :: r) = .node .ite [e, .node .add [.litI 1, llE (e' :: r)], .litI 0] := by
  rw [llE]
  intro h; cases h

theorem llE_isNode : ∀ (e : Expr) (r : List Expr), ∃ args, llE (e :: r) = .node .ite args
  | _, [] => ⟨_, rfl⟩
  | e, e' :: r => ⟨_, llE_cons_cons e e' r⟩

theorem lineLength_eq : ∀ es : List Expr, lineLength es = .ok (llE es)
  | [] => rfl
  | [e] => rfl
  | e :: e' :: r => by
    rw [lineLength, lineLength_eq (e' :: r), ok_bind, llE_cons_cons]
    obtain ⟨args, hargs⟩ := llE_isNode e' r
    rw [hargs]
    rfl
    intro h; cases h

/-- value of `line_length`: length of the initial run of true flags. -/
theorem good_llE (segs : List Seg) (H W : Nat) :
    GoodI (llE (segs.map (segExpr 0 H W)))
      (fun σ => (((segs.takeWhile fun s => onOf H W σ s).length : Nat) : Int)) := by
  induction segs with
  | nil => exact ⟨rfl, rfl, fun σ => by simp [llE]⟩
  | cons s r ih =>
    cases r with
    | nil =>
      refine ⟨rfl, rfl, fun σ => ?_⟩
      simp only [List.map_cons, List.map_nil, llE, eval_node, segExpr, eval_bvar, eval_litI, onOf]
      cases h : σ.b (Seg.var 0 H W s) <;> simp [evalOp, List.takeWhile, h]
    | cons s' r' =>
      rw [List.map_cons, List.map_cons, llE_cons_cons]
      rw [List.map_cons] at ih
      have hs : ∀ σ, eval σ (segExpr 0 H W s) = some (.b (onOf H W σ s)) := fun σ => eval_bvar σ _
      have hw : wtB (segExpr 0 H W s) = true := rfl
      refine ⟨rfl, by simp [wtI, wtIs, hw, ih.2.1], fun σ => ?_⟩
      have hR : (List.takeWhile (fun s => onOf H W σ s) (s :: s' :: r')).length
          = if onOf H W σ s = true then 1 + (List.takeWhile (fun s => onOf H W σ s) (s' :: r')).length else 0 := by
        rw [List.takeWhile_cons]
        split <;> simp
        omega
      beta_reduce
      rw [eval_node, hR]
      simp only [List.map_cons, List.map_nil, hs σ, eval_litI, eval_node, ih.2.2 σ]
      generalize (List.takeWhile (fun s => onOf H W σ s) (s' :: r')).length = n
      have hadd : evalOp .add [some (.i 1), some (.i (n : Int))] = some (.i (1 + (n : Int))) := by
        simp [evalOp, allInts]
      rw [hadd]
      cases h : onOf H W σ s <;> simp [evalOp]

/-! ### `fold_or(ends).then(line_length(back) + line_length(forth) == n)` -/

section Arm
variable (H W : Nat)

/-- closed form of `fold_or` on segment variables. -/
def foE (es : List Expr) : Expr := if es.isEmpty then .node .boolConst [.litB false] else .node .or es

theorem foldOr_go_segs : ∀ (segs : List Seg) (acc : List Expr),
    foldOr.go (segs.map (segExpr 0 H W)) acc = .ok (foE (acc.reverse ++ segs.map (segExpr 0 H W)))
  | [], acc => by
    simp only [List.map_nil, foldOr.go, List.append_nil, foE]
    cases acc <;> simp
  | s :: r, acc => by
    have h := foldOr_go_segs r (segExpr 0 H W s :: acc)
    simp only [List.reverse_cons, List.append_assoc, List.singleton_append] at h
    simp only [List.map_cons]
    rw [← h]
    simp [foldOr.go, segExpr, Expr.isBoolExpr]

theorem foldOr_segs (segs : List Seg) : foldOr (segs.map (segExpr 0 H W)) = .ok (foE (segs.map (segExpr 0 H W))) := by
  have := foldOr_go_segs H W segs []
  simpa [foldOr] using this

theorem good_foE (segs : List Seg) :
    Good (foE (segs.map (segExpr 0 H W))) (fun σ => segs.any fun s => onOf H W σ s) := by
  unfold foE
  cases segs with
  | nil => exact ⟨rfl, rfl, fun σ => by simp [eval_node, evalOp]⟩
  | cons s r =>
    simp only [List.map_cons, List.isEmpty_cons, Bool.false_eq_true, if_false]
    have hwt : wtBs ((s :: r).map (segExpr 0 H W)) = true := by
      generalize (s :: r) = l
      induction l with
      | nil => rfl
      | cons a l ih => simp [wtBs, ih, segExpr, wtB]
    refine ⟨rfl, by simpa [wtB] using hwt, fun σ => ?_⟩
    rw [← List.map_cons, eval_node, List.map_map]
    have : (List.map (eval σ ∘ segExpr 0 H W) (s :: r)) = ((s :: r).map fun t => onOf H W σ t).map fun b => some (.b b) := by
      rw [List.map_map]; apply List.map_congr_left; intro t _; simp [segExpr, onOf]
    rw [this, evalOp_or]
    simp [List.any_map]

/-- closed form of one `solver.ensure(fold_or(...).then(... == n))`. -/
def armE (ends back forth : List Seg) (n : Int) : Expr :=
  .node .imp [foE (ends.map (segExpr 0 H W)),
    eqE (addE (llE (back.map (segExpr 0 H W))) (llE (forth.map (segExpr 0 H W)))) n]

theorem armCs_eq (ends back forth : List Seg) (n : Int) :
    armCs (ends.map (segExpr 0 H W)) (back.map (segExpr 0 H W)) (forth.map (segExpr 0 H W)) n
      = .ok (armE H W ends back forth n) := by
  unfold armCs
  have ga := good_llE back H W
  have gb := good_llE forth H W
  have gs := good_add ga gb
  have ge := good_eq gs n
  have gf := good_foE H W ends
  rw [foldOr_segs, ok_bind, lineLength_eq, ok_bind, lineLength_eq, ok_bind, addPy_eq ga.1 gb.1, ok_bind,
    cmpPy_eq gs.1, ok_bind]
  have hb : binB .imp (foE (ends.map (segExpr 0 H W)))
      (eqE (addE (llE (back.map (segExpr 0 H W))) (llE (forth.map (segExpr 0 H W)))) n)
      = .ok (armE H W ends back forth n) := by
    simp [binB, makeBoolExpr, Op.isCmp, gf.1, ge.1, armE, bind, Except.bind]
  rw [hb, ok_bind]
  simp [ensure1, armE, Expr.isBoolLike, Op.isBoolOp]

theorem good_armE (ends back forth : List Seg) (n : Int) :
    Good (armE H W ends back forth n) (fun σ =>
      !(ends.any fun s => onOf H W σ s) ||
        ((((back.takeWhile fun s => onOf H W σ s).length : Nat) : Int) +
          (((forth.takeWhile fun s => onOf H W σ s).length : Nat) : Int) == n)) := by
  have ga := good_llE back H W
  have gb := good_llE forth H W
  have gs := good_add ga gb
  have ge := good_eq gs n
  have gf := good_foE H W ends
  refine ⟨rfl, by simp [armE, wtB, wtBs, gf.2.1, ge.2.1], fun σ => ?_⟩
  unfold armE
  rw [eval_node]
  simp only [List.map_cons, List.map_nil, gf.2.2 σ, ge.2.2 σ]
  rw [evalOp_imp]

end Arm

/-! ### closed form of the posted program -/

theorem passed_get' (H W y x : Nat) (hy : y ≤ H) (hx : x ≤ W) :
    (Arr2.mk (H + 1) (W + 1) (bvars (Frame.numVars H W) ((H + 1) * (W + 1)))).get (y : Int) (x : Int)
      = .ok (.bvar (Frame.numVars H W + ptIndex W (y, x))) := by
  apply C14.Arr2.get_nat _ y x _ (by simp only []; omega) (by simp only []; omega)
  simp only []
  rw [C14.bvars_getElem? _ _ _ (C14.mul_add_lt (by omega) (by omega))]
  rfl

section Cell
variable (pb : Problem)

local notation "HH" => pb.height - 1
local notation "WW" => pb.width - 1

/-- the (up to two) horizontal / vertical steps ending in `p`. -/
def endsH (p : Pt) : List Seg :=
  (if 0 < p.2 then [Seg.h p.1 (p.2 - 1)] else []) ++ (if p.2 < WW then [Seg.h p.1 p.2] else [])
def endsV (p : Pt) : List Seg :=
  (if 0 < p.1 then [Seg.v (p.1 - 1) p.2] else []) ++ (if p.1 < HH then [Seg.v p.1 p.2] else [])

def passedVar (p : Pt) : Expr := .bvar (Frame.numVars HH WW + ptIndex WW p)

/-- What the double loop posts for one cell. -/
def cellE (p : Nat × Nat) : List Expr :=
  if val pb p.1 p.2 ≥ 1 then
    [passedVar pb p,
     armE HH WW (endsH pb p) (segsFrom HH WW p .left) (segsFrom HH WW p .right) (val pb p.1 p.2),
     armE HH WW (endsV pb p) (segsFrom HH WW p .up) (segsFrom HH WW p .down) (val pb p.1 p.2)]
  else []

def extra : List Expr := ((cellsOf pb.height pb.width).map (cellE pb)).flatten

theorem tableGet_eq (hw : WellFormed pb) {y x : Nat} (hy : y < pb.height) (hx : x < pb.width) :
    tableGet pb.problem (y : Int) (x : Int) = .ok (val pb y x) := by
  obtain ⟨_, _, hlen, hrows⟩ := hw
  unfold tableGet val
  have hy' : y < pb.problem.length := by rw [hlen]; exact hy
  have hrow : pb.problem[y]? = some pb.problem[y] := List.getElem?_eq_getElem hy'
  have hl : pb.problem[y].length = pb.width := hrows _ (List.getElem_mem hy')
  have hx' : x < pb.problem[y].length := by rw [hl]; exact hx
  rw [C14.pyIndex_nat _ _ _ hrow, ok_bind, C14.pyIndex_nat _ _ _ (List.getElem?_eq_getElem hx')]
  simp [List.getD, hrow, List.getElem?_eq_getElem hx']

theorem cellCs_eq (hw : WellFormed pb) {p : Nat × Nat} (hp : p ∈ cellsOf pb.height pb.width) :
    cellCs pb (Frame.fresh 0 HH WW)
      (Arr2.mk (HH + 1) (WW + 1) (bvars (Frame.numVars HH WW) ((HH + 1) * (WW + 1)))) p = .ok (cellE pb p) := by
  obtain ⟨hy, hx⟩ := mem_cellsOf.mp hp
  obtain ⟨y, x⟩ := p
  simp only [] at hy hx
  have h1 := hw.1
  have h2 := hw.2.1
  unfold cellCs cellE
  simp only []
  rw [tableGet_eq pb hw hy hx, ok_bind]
  by_cases hv : val pb y x ≥ 1
  · simp only [hv, if_true]
    rw [passed_get' HH WW y x (by omega) (by omega), ok_bind]
    have hens : ensure1 (Expr.bvar (Frame.numVars HH WW + ptIndex WW (y, x))) = .ok (passedVar pb (y, x)) := rfl
    rw [hens, ok_bind]
    -- the end segments
    have he1 : optItem (decide ((x : Int) > 0)) ((Frame.fresh 0 HH WW).horizontal.get (y : Int) ((x : Int) - 1))
        = .ok ((if 0 < x then [Seg.h y (x - 1)] else []).map (segExpr 0 HH WW)) := by
      by_cases h : 0 < x
      · unfold optItem
        rw [if_pos (by simpa using (by omega : (x : Int) > 0)), if_pos h, show ((x : Int) - 1) = ((x - 1 : Nat) : Int) by omega,
          C14.fresh_h 0 HH WW y (x - 1) (by omega) (by omega)]
        rfl
      · unfold optItem
        rw [if_neg (by simp; omega), if_neg h]; rfl
    have he2 : optItem (decide ((x : Int) < (pb.width : Int) - 1)) ((Frame.fresh 0 HH WW).horizontal.get (y : Int) (x : Int))
        = .ok ((if x < WW then [Seg.h y x] else []).map (segExpr 0 HH WW)) := by
      by_cases h : x < pb.width - 1
      · unfold optItem
        rw [if_pos (by simpa using (by omega : (x : Int) < (pb.width : Int) - 1)), if_pos h, C14.fresh_h 0 HH WW y x (by omega) h]
        rfl
      · unfold optItem
        rw [if_neg (by simp; omega), if_neg h]; rfl
    have he3 : optItem (decide ((y : Int) > 0)) ((Frame.fresh 0 HH WW).vertical.get ((y : Int) - 1) (x : Int))
        = .ok ((if 0 < y then [Seg.v (y - 1) x] else []).map (segExpr 0 HH WW)) := by
      by_cases h : 0 < y
      · unfold optItem
        rw [if_pos (by simpa using (by omega : (y : Int) > 0)), if_pos h, show ((y : Int) - 1) = ((y - 1 : Nat) : Int) by omega,
          C14.fresh_v 0 HH WW (y - 1) x (by omega) (by omega)]
        rfl
      · unfold optItem
        rw [if_neg (by simp; omega), if_neg h]; rfl
    have he4 : optItem (decide ((y : Int) < (pb.height : Int) - 1)) ((Frame.fresh 0 HH WW).vertical.get (y : Int) (x : Int))
        = .ok ((if y < HH then [Seg.v y x] else []).map (segExpr 0 HH WW)) := by
      by_cases h : y < pb.height - 1
      · unfold optItem
        rw [if_pos (by simpa using (by omega : (y : Int) < (pb.height : Int) - 1)), if_pos h, C14.fresh_v 0 HH WW y x h (by omega)]
        rfl
      · unfold optItem
        rw [if_neg (by simp; omega), if_neg h]; rfl
    rw [he1, ok_bind, he2, ok_bind, back_eq HH WW y x (by omega) (by omega), ok_bind,
      forth_eq HH WW y x (by omega) (by omega), ok_bind]
    have hbb : (List.map (fun c => segExpr 0 HH WW (Seg.h y c)) (List.range x)).reverse
        = (segsFrom HH WW (y, x) .left).map (segExpr 0 HH WW) := by
      simp [segsFrom, List.map_reverse, List.map_map, Function.comp_def]
    have hff : (List.map (fun j => segExpr 0 HH WW (Seg.h y (x + j))) (List.range (WW - x)))
        = (segsFrom HH WW (y, x) .right).map (segExpr 0 HH WW) := by
      simp [segsFrom, List.map_map, Function.comp_def]
    rw [← List.map_append, hbb, hff]
    rw [armCs_eq HH WW _ _ _ (val pb y x), ok_bind]
    rw [he3, ok_bind, he4, ok_bind, up_eq HH WW y x (by omega) (by omega), ok_bind,
      down_eq HH WW y x (by omega) (by omega), ok_bind]
    have huu : (List.map (fun r => segExpr 0 HH WW (Seg.v r x)) (List.range y)).reverse
        = (segsFrom HH WW (y, x) .up).map (segExpr 0 HH WW) := by
      simp [segsFrom, List.map_reverse, List.map_map, Function.comp_def]
    have hdd : (List.map (fun j => segExpr 0 HH WW (Seg.v (y + j) x)) (List.range (HH - y)))
        = (segsFrom HH WW (y, x) .down).map (segExpr 0 HH WW) := by
      simp [segsFrom, List.map_map, Function.comp_def]
    rw [← List.map_append, huu, hdd]
    rw [armCs_eq HH WW _ _ _ (val pb y x), ok_bind]
    rfl
  · simp only [hv, if_false]

end Cell

section Main
variable (pb : Problem)

local notation "HH" => pb.height - 1
local notation "WW" => pb.width - 1

/-- Closed form of the posted program. -/
theorem program_eq (hw : WellFormed pb) :
    program pb = .ok
      { decls := List.replicate (Frame.numVars HH WW) .bool ++ (cyc HH WW).decls,
        cs := (cyc HH WW).cs ++ extra pb,
        keys := List.range (Frame.numVars HH WW) } := by
  have hw' := hw
  obtain ⟨h1, h2, _, _⟩ := hw
  unfold program
  rw [if_neg (by omega)]
  simp only [frameKeys_eq, setup_eq, bind, Except.bind]
  rw [mapM_eq_ok_map (g := cellE pb) (fun p hp => cellCs_eq pb hw' hp)]
  rfl

theorem endsH_any (on : Seg → Bool) (p : Pt) :
    (endsH pb p).any (fun s => on s) = (arm HH WW on p .left || arm HH WW on p .right) := by
  unfold endsH arm
  by_cases h1 : 0 < p.2 <;> by_cases h2 : p.2 < pb.width - 1 <;> simp [h1, h2]

theorem endsV_any (on : Seg → Bool) (p : Pt) :
    (endsV pb p).any (fun s => on s) = (arm HH WW on p .up || arm HH WW on p .down) := by
  unfold endsV arm
  by_cases h1 : 0 < p.1 <;> by_cases h2 : p.1 < pb.height - 1 <;> simp [h1, h2]

/-- Rules 2 and 3 as a predicate on the drawn steps. -/
def G (on : Seg → Bool) : Prop :=
  ∀ y, y < pb.height → ∀ x, x < pb.width → 1 ≤ val pb y x → Numbered HH WW on (y, x) (val pb y x)

theorem imp_eq_iff (a : Bool) (m n : Int) : ((!a || (m == n)) = true) ↔ (a = true → m = n) := by
  cases a <;> simp

theorem cell_iff (σ : Asg) (p : Pt)
    (hpass : σ.b (Frame.numVars HH WW + ptIndex WW p) = onLoop HH WW (onOf HH WW σ) p) (n : Int) :
    (eval σ (passedVar pb p) = some (.b true) ∧
      eval σ (armE HH WW (endsH pb p) (segsFrom HH WW p .left) (segsFrom HH WW p .right) n) = some (.b true) ∧
      eval σ (armE HH WW (endsV pb p) (segsFrom HH WW p .up) (segsFrom HH WW p .down) n) = some (.b true))
    ↔ Numbered HH WW (onOf HH WW σ) p n := by
  unfold Numbered runLen
  rw [(good_armE HH WW _ _ _ n).2.2 σ, (good_armE HH WW _ _ _ n).2.2 σ]
  beta_reduce
  rw [endsH_any, endsV_any]
  unfold passedVar
  rw [eval_bvar, hpass]
  simp only [Option.some.injEq, Val.b.injEq, imp_eq_iff, Int.natCast_add]

theorem extra_iff (hw : WellFormed pb) (σ : Asg)
    (hpass : ∀ p, PtValid HH WW p → σ.b (Frame.numVars HH WW + ptIndex WW p) = onLoop HH WW (onOf HH WW σ) p) :
    (∀ c ∈ extra pb, eval σ c = some (.b true)) ↔ G pb (onOf HH WW σ) := by
  obtain ⟨h1, h2, _, _⟩ := hw
  have hvalid : ∀ y x, y < pb.height → x < pb.width → PtValid HH WW (y, x) := by
    intro y x hy hx; exact ⟨by simp only []; omega, by simp only []; omega⟩
  unfold extra G
  constructor
  · intro h y hy x hx hv
    apply (cell_iff pb σ (y, x) (hpass _ (hvalid y x hy hx)) _).mp
    have hmem : ∀ c ∈ cellE pb (y, x), eval σ c = some (.b true) := by
      intro c hc
      apply h
      rw [List.mem_flatten]
      exact ⟨cellE pb (y, x), List.mem_map.mpr ⟨(y, x), mem_cellsOf.mpr ⟨hy, hx⟩, rfl⟩, hc⟩
    have hv' : val pb y x ≥ 1 := hv
    simp only [cellE, hv', if_true, List.mem_cons, List.not_mem_nil, or_false, forall_eq_or_imp, forall_eq] at hmem
    exact hmem
  · intro h c hc
    rw [List.mem_flatten] at hc
    obtain ⟨l, hl', hcl⟩ := hc
    obtain ⟨p, hp, rfl⟩ := List.mem_map.mp hl'
    obtain ⟨hy, hx⟩ := mem_cellsOf.mp hp
    unfold cellE at hcl
    split at hcl
    · next hv =>
      have := (cell_iff pb σ p (hpass _ (hvalid _ _ hy hx)) _).mpr (h p.1 hy p.2 hx hv)
      simp only [List.mem_cons, List.not_mem_nil, or_false] at hcl
      rcases hcl with rfl | rfl | rfl
      · exact this.1
      · exact this.2.1
      · exact this.2.2
    · simp at hcl

theorem segsFrom_valid (H W : Nat) (p : Pt) (hp : PtValid H W p) (d : Dir) :
    ∀ s ∈ segsFrom H W p d, s.Valid H W := by
  obtain ⟨y, x⟩ := p
  simp only [PtValid] at hp
  intro s hs
  cases d <;> simp only [segsFrom, List.mem_map, List.mem_reverse, List.mem_range] at hs <;>
    obtain ⟨c, hc, rfl⟩ := hs <;> simp only [Seg.Valid] <;> omega

theorem takeWhile_congr {α : Type} (l : List α) (p q : α → Bool) (h : ∀ a ∈ l, p a = q a) :
    l.takeWhile p = l.takeWhile q := by
  induction l with
  | nil => rfl
  | cons a l ih =>
    rw [List.takeWhile_cons, List.takeWhile_cons, h a List.mem_cons_self,
      ih (fun b hb => h b (List.mem_cons_of_mem _ hb))]

theorem runLen_congr (H W : Nat) (on on' : Seg → Bool) (h : ∀ s, s.Valid H W → on s = on' s)
    (p : Pt) (hp : PtValid H W p) (d : Dir) : runLen H W on p d = runLen H W on' p d := by
  unfold runLen
  rw [takeWhile_congr _ (fun s => on s) (fun s => on' s) (fun s hs => h s (segsFrom_valid H W p hp d s hs))]

theorem numbered_congr (H W : Nat) (on on' : Seg → Bool) (h : ∀ s, s.Valid H W → on s = on' s)
    (p : Pt) (hp : PtValid H W p) (n : Int) : Numbered H W on p n → Numbered H W on' p n := by
  unfold Numbered
  rw [onLoop_congr H W on on' h p hp, C11Masyu.arm_congr H W on on' h p hp .left,
    C11Masyu.arm_congr H W on on' h p hp .right, C11Masyu.arm_congr H W on on' h p hp .up,
    C11Masyu.arm_congr H W on on' h p hp .down, runLen_congr H W on on' h p hp .left,
    runLen_congr H W on on' h p hp .right, runLen_congr H W on on' h p hp .up,
    runLen_congr H W on on' h p hp .down]
  exact id

theorem G_congr (hw : WellFormed pb) (on on' : Seg → Bool)
    (h : ∀ s, s.Valid HH WW → on s = on' s) : G pb on ↔ G pb on' := by
  obtain ⟨h1, h2, _, _⟩ := hw
  have hvalid : ∀ y x, y < pb.height → x < pb.width → PtValid HH WW (y, x) := by
    intro y x hy hx; exact ⟨by simp only []; omega, by simp only []; omega⟩
  have h' : ∀ s, s.Valid HH WW → on' s = on s := fun s hs => (h s hs).symm
  unfold G
  constructor
  · intro hg y hy x hx hv
    exact numbered_congr _ _ on on' h _ (hvalid y x hy hx) _ (hg y hy x hx hv)
  · intro hg y hy x hx hv
    exact numbered_congr _ _ on' on h' _ (hvalid y x hy hx) _ (hg y hy x hx hv)

theorem extra_wt : ∀ c ∈ extra pb, wtB c = true := by
  intro c hc
  unfold extra at hc
  rw [List.mem_flatten] at hc
  obtain ⟨l, hl, hcl⟩ := hc
  obtain ⟨p, _, rfl⟩ := List.mem_map.mp hl
  unfold cellE at hcl
  split at hcl
  · simp only [List.mem_cons, List.not_mem_nil, or_false] at hcl
    rcases hcl with rfl | rfl | rfl
    · rfl
    · exact (good_armE _ _ _ _ _ _).2.1
    · exact (good_armE _ _ _ _ _ _).2.1
  · simp at hcl

theorem main (hw : WellFormed pb) (P : PuzzleProg) (hP : program pb = .ok P) :
    EncodesRules P (Rules pb) ∧ P.KeysOk ∧ (∀ c ∈ P.cs, wtB c = true) := by
  rw [program_eq pb hw] at hP
  cases hP
  refine ⟨?_, keysOk_frame _ _ _ _, ?_⟩
  · have h := encodes_loop HH WW (extra pb) (G pb) (G_congr pb hw)
      (fun σ hpass => extra_iff pb hw σ hpass)
    intro a
    rw [h a]
    unfold Rules RulesOn
    rfl
  · intro c hc
    rcases List.mem_append.mp hc with h | h
    · exact cyc_wt _ _ c h
    · exact extra_wt pb c h

theorem total (hw : WellFormed pb) : ∃ P, program pb = .ok P := ⟨_, program_eq pb hw⟩

end Main

end Cspuz.Proofs.C11Geradeweg
