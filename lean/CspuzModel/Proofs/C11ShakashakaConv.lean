/-
  C11 / shakashaka — geometry, converse direction: if every white area is a rectangle (upright or rotated by 45°),
  then at every grid point every white angle is 90°, 180° or 360°.
-/
import CspuzModel.Proofs.C11ShakashakaG0
import Mathlib.Tactic.FinCases
import Mathlib.Data.Fintype.Basic
namespace Cspuz.Proofs.C11ShakashakaConv
open Cspuz Cspuz.Spec Cspuz.Spec.Shakashaka Cspuz.Proofs.C11ShakashakaG0

theorem fin8_11 : ∀ i : Fin 8, i + 1 + 1 = i + 2 := by decide
theorem fin8_31 : ∀ i : Fin 8, i + 3 + 1 = i + 4 := by decide

/-- The run of octants of a rectangle that starts at `i` has length 2 or 4 (the shape of the arithmetic fact). -/
def RunOK (I : Fin 8 → Prop) : Prop :=
  ∀ i, I i → ¬ I (i - 1) → I (i + 1) ∧ (¬ I (i + 2) ∨ (I (i + 2) ∧ I (i + 3) ∧ ¬ I (i + 4)))

theorem runOK_of (I : Fin 8 → Prop)
    (h0 : I 0 → ¬ I 7 → I 1 ∧ (¬ I 2 ∨ (I 2 ∧ I 3 ∧ ¬ I 4)))
    (h1 : I 1 → ¬ I 0 → I 2 ∧ (¬ I 3 ∨ (I 3 ∧ I 4 ∧ ¬ I 5)))
    (h2 : I 2 → ¬ I 1 → I 3 ∧ (¬ I 4 ∨ (I 4 ∧ I 5 ∧ ¬ I 6)))
    (h3 : I 3 → ¬ I 2 → I 4 ∧ (¬ I 5 ∨ (I 5 ∧ I 6 ∧ ¬ I 7)))
    (h4 : I 4 → ¬ I 3 → I 5 ∧ (¬ I 6 ∨ (I 6 ∧ I 7 ∧ ¬ I 0)))
    (h5 : I 5 → ¬ I 4 → I 6 ∧ (¬ I 7 ∨ (I 7 ∧ I 0 ∧ ¬ I 1)))
    (h6 : I 6 → ¬ I 5 → I 7 ∧ (¬ I 0 ∨ (I 0 ∧ I 1 ∧ ¬ I 2)))
    (h7 : I 7 → ¬ I 6 → I 0 ∧ (¬ I 1 ∨ (I 1 ∧ I 2 ∧ ¬ I 3))) : RunOK I := by
  intro i
  fin_cases i
  exacts [h0, h1, h2, h3, h4, h5, h6, h7]

theorem run_upright (x0 x1 y0 y1 py px : Int) :
    RunOK fun i => InUpright x0 x1 y0 y1 (octant py px i) := by
  apply runOK_of <;>
    simp only [octant, InUpright, verts, List.mem_cons, List.not_mem_nil, or_false, forall_eq_or_imp, forall_eq] <;>
    omega

theorem run_rotated (a b c d py px : Int) :
    RunOK fun i => InRotated a b c d (octant py px i) := by
  apply runOK_of <;>
    simp only [octant, InRotated, verts, List.mem_cons, List.not_mem_nil, or_false, forall_eq_or_imp, forall_eq] <;>
    omega

/-- The combinatorial core: `o` = white, `I` = inside the rectangle that is the area of octant `i`.  Members of the
area are white (`ha`), a white octant next to a member is a member (`hb`), and the rectangle has the run shape. -/
theorem run_transfer (o I : Fin 8 → Prop) (i : Fin 8) (ha : ∀ j, I j → o j) (hb : ∀ j, I j → o (j + 1) → I (j + 1))
    (hI : I i) (hrun : RunOK I) (hn : ¬ o (i - 1)) :
    (o (i + 1) ∧ ¬ o (i + 2)) ∨ (o (i + 1) ∧ o (i + 2) ∧ o (i + 3) ∧ ¬ o (i + 4)) := by
  have hb2 : I (i + 1) → o (i + 2) → I (i + 2) := fun h1 h2 => by
    have := hb (i + 1) h1; rw [fin8_11] at this; exact this h2
  have hb4 : I (i + 3) → o (i + 4) → I (i + 4) := fun h1 h2 => by
    have := hb (i + 3) h1; rw [fin8_31] at this; exact this h2
  obtain ⟨h1, h2⟩ := hrun i hI (fun h => hn (ha _ h))
  rcases h2 with h2 | ⟨h2, h3, h4⟩
  · exact Or.inl ⟨ha _ h1, fun h => h2 (hb2 h1 h)⟩
  · exact Or.inr ⟨ha _ h1, ha _ h2, ha _ h3, fun h => h4 (hb4 h3 h)⟩

/-- If every white area is a rectangle then every white angle at every grid point is 90°, 180° or 360°. -/
theorem angles_of_allRect (W : Quarter → Prop) (hr : AllRect W) : Angles W := by
  intro py px
  refine Or.inr fun i hi hn => ?_
  have hmem : ∀ j, Comp W (octant py px i) (octant py px j) → W (octant py px (j + 1)) →
      Comp W (octant py px i) (octant py px (j + 1)) := fun j hj hw =>
    comp_step hj (comp_white hi hj) hw (touch_octant py px j)
  rcases hr _ hi with ⟨x0, x1, y0, y1, h⟩ | ⟨a, b, c, d, h⟩
  · exact run_transfer (fun j => W (octant py px j)) (fun j => InUpright x0 x1 y0 y1 (octant py px j)) i
      (fun j hj => comp_white hi ((h _).2 hj))
      (fun j hj hw => (h _).1 (hmem j ((h _).2 hj) hw))
      ((h _).1 Relation.ReflTransGen.refl) (run_upright x0 x1 y0 y1 py px) hn
  · exact run_transfer (fun j => W (octant py px j)) (fun j => InRotated a b c d (octant py px j)) i
      (fun j hj => comp_white hi ((h _).2 hj))
      (fun j hj hw => (h _).1 (hmem j ((h _).2 hj) hw))
      ((h _).1 Relation.ReflTransGen.refl) (run_rotated a b c d py px) hn

end Cspuz.Proofs.C11ShakashakaConv
