/-
  C15: termination of the serializer (fuel sufficiency of the Seq loop under a productive base).
-/
import CspuzModel.Proofs.C15Heads
set_option linter.unusedVariables false
namespace Cspuz.Ser
open Cspuz

/-! ### termination of the serializer: the `Seq` loop never spins when the base is productive -/

def NoDiv {A B : Type} (f : A → Nat → Outcome B) : Prop := ∀ a i, f a i ≠ .diverge
def SerProductive (f : SerF) : Prop := ∀ d i k t, f d i = .ok (k, t) → 1 ≤ k

theorem bind_ne_diverge {α β} {x : Outcome α} {f : α → Outcome β} (hx : x ≠ .diverge) (hf : ∀ a, f a ≠ .diverge) :
    x.bind f ≠ .diverge := by
  cases x with
  | ok a => exact hf a
  | none => simp
  | raised e => simp
  | diverge => exact absurd rfl hx

theorem withItem_ne_diverge {β} (d : List PyVal) (i : Nat) (k : PyVal → Outcome β) (hk : ∀ v, k v ≠ .diverge) :
    withItem d i k ≠ .diverge := by
  unfold withItem
  split
  · simp
  · split
    · simp
    · exact hk _

theorem toBase36_ne_diverge (n : Int) : toBase36 n ≠ .diverge := by
  unfold toBase36; split <;> simp

theorem pyInt_ne_diverge (s : Str) : pyInt s ≠ .diverge := by
  unfold pyInt
  split
  · simp
  · split <;> simp

theorem dictSerFind_ne_diverge (v : PyVal) : ∀ b a, dictSerFind v b a ≠ .diverge := by
  intro b
  induction b with
  | nil => intro a; simp [dictSerFind]
  | cons x b ih =>
    intro a
    cases a with
    | nil => simp [dictSerFind]
    | cons y a =>
      simp only [dictSerFind]
      split
      · simp
      · exact ih a

theorem mdPack_ne_diverge (base : Nat) : ∀ k items acc, mdPack base k items acc ≠ .diverge := by
  intro k
  induction k with
  | zero => intro items acc; simp [mdPack]
  | succ k ih =>
    intro items acc
    cases items with
    | nil => simp only [mdPack]; exact ih _ _
    | cons x r =>
      simp only [mdPack]
      split
      · simp
      · split
        · exact ih _ _
        · simp

theorem oneOfF_noDiv {A B : Type} (fs : List (A → Nat → Outcome B)) (h : ∀ f ∈ fs, NoDiv f) : NoDiv (oneOfF fs) := by
  intro a i
  induction fs with
  | nil => simp [oneOfF]
  | cons f r ih =>
    unfold oneOfF
    cases hf : f a i with
    | none => simp only; exact ih (fun g hg => h g (List.mem_cons_of_mem _ hg))
    | ok x => simp
    | raised e => simp
    | diverge => exact absurd hf (h f (by simp) a i)

theorem tuplSerParts_ne_diverge : ∀ (fs : List SerF) (comps : List PyVal), (∀ f ∈ fs, NoDiv f) →
    tuplSerParts fs comps ≠ .diverge := by
  intro fs
  induction fs with
  | nil => intro comps _; simp [tuplSerParts]
  | cons f fs ih =>
    intro comps h
    cases comps with
    | nil => simp [tuplSerParts]
    | cons c comps =>
      simp only [tuplSerParts]
      split
      · simp
      · exact bind_ne_diverge (h f (by simp) _ _) (fun r =>
          bind_ne_diverge (ih comps (fun g hg => h g (List.mem_cons_of_mem _ hg))) (fun _ => by simp))

theorem tuplSer_noDiv (fs : List SerF) (h : ∀ f ∈ fs, NoDiv f) : NoDiv (tuplSer fs) := by
  intro d i
  unfold tuplSer
  apply withItem_ne_diverge
  intro v
  cases v with
  | tuple comps =>
    simp only
    split
    · simp
    · exact bind_ne_diverge (tuplSerParts_ne_diverge fs _ h) (fun _ => by simp)
  | _ => simp

/-- **fuel sufficiency of the serialize loop**: with a productive, non-diverging base, `n - nread + 1` units suffice -/
theorem seqSerLoop_ne_diverge (f : SerF) (hf : NoDiv f) (hp : SerProductive f) (l : List PyVal) (n : Nat) :
    ∀ fuel p acc, n - p < fuel → seqSerLoop f l n fuel p acc ≠ .diverge := by
  intro fuel
  induction fuel with
  | zero => intro p acc h; omega
  | succ fuel ih =>
    intro p acc hfu
    unfold seqSerLoop
    split
    · rename_i hpn
      cases hfp : f l p with
      | ok r =>
        obtain ⟨k, t⟩ := r
        have hk := hp l p k t hfp
        have : ¬ k = 0 := by omega
        simp only [this, if_false]
        exact ih _ _ (by omega)
      | none => simp
      | raised e => simp
      | diverge => exact absurd hfp (hf l p)
    · split <;> simp

theorem seqSer_noDiv (f : SerF) (hf : NoDiv f) (hp : SerProductive f) (n : Nat) : NoDiv (seqSer f n) := by
  intro d i
  unfold seqSer
  apply withItem_ne_diverge
  intro v
  cases v with
  | list l => exact bind_ne_diverge (seqSerLoop_ne_diverge f hf hp _ n (n + 1) 0 [] (by omega)) (fun _ => by simp)
  | _ => simp

theorem gridFlatten_ne_diverge : ∀ h rows, gridFlatten h rows ≠ .diverge := by
  intro h
  induction h with
  | zero => intro rows; simp [gridFlatten]
  | succ h ih =>
    intro rows
    cases rows with
    | nil => simp [gridFlatten]
    | cons r rows =>
      simp only [gridFlatten]
      split
      · simp
      · exact bind_ne_diverge (ih rows) (fun _ => by simp)

theorem gridSer_noDiv (f : SerF) (hf : NoDiv f) (hp : SerProductive f) (h w : Nat) : NoDiv (gridSer f h w) := by
  intro d i
  unfold gridSer
  apply withItem_ne_diverge
  intro v
  cases v with
  | list rows => exact bind_ne_diverge (gridFlatten_ne_diverge h _) (fun flat => seqSer_noDiv f hf hp (h * w) _ _)
  | _ => simp

theorem noRoomsL_mem' : ∀ (cs : List Comb), noRoomsL cs = true → ∀ c ∈ cs, noRooms c = true := by
  intro cs
  induction cs with
  | nil => intro _ c hc; cases hc
  | cons c cs ih =>
    intro h c' hc'
    simp only [noRoomsL, Bool.and_eq_true] at h
    cases hc' with
    | head => exact h.1
    | tail _ h' => exact ih h.2 c' h'

theorem productiveAll_mem : ∀ cs : List Comb, productiveAll cs = true → ∀ c ∈ cs, productive c = true := by
  intro cs
  induction cs with
  | nil => intro _ c hc; cases hc
  | cons c cs ih =>
    intro h c' hc'
    simp only [productiveAll, Bool.and_eq_true] at h
    cases hc' with
    | head => exact h.1
    | tail _ h' => exact ih h.2 c' h'

theorem terminatingAll_mem : ∀ cs : List Comb, terminatingAll cs = true → ∀ c ∈ cs, terminating c = true := by
  intro cs
  induction cs with
  | nil => intro _ c hc; cases hc
  | cons c cs ih =>
    intro h c' hc'
    simp only [terminatingAll, Bool.and_eq_true] at h
    cases hc' with
    | head => exact h.1
    | tail _ h' => exact ih h.2 c' h'

def itemLike : Comb → Bool
  | .fixStr _ => false
  | .spaces _ _ => false
  | .intSpaces _ _ _ => false
  | .multiDigit _ _ => false
  | .oneOf _ => false
  | _ => true

/-- every other term consumes exactly one item -/
theorem ser_itemLike (env : Env) : ∀ c, itemLike c = true → ∀ d i k t, ser c env d i = .ok (k, t) → k = 1 ∧ i < d.length := by
  intro c
  induction c using Comb.ind with
  | fixStr s => intro h; simp [itemLike] at h
  | dict b a =>
    intro _ d i k t h
    simp only [ser, dictSer] at h
    obtain ⟨v, hv, hk⟩ := withItem_eq_ok.mp h
    exact ⟨(dictSerFind_mem v b a k t hk).1, getElem?_lt' hv⟩
  | spaces sp o => intro h; simp [itemLike] at h
  | decInt =>
    intro _ d i k t h
    simp only [ser, decIntSer] at h
    obtain ⟨v, hv, hk⟩ := withItem_eq_ok.mp h
    refine ⟨?_, getElem?_lt' hv⟩
    cases v <;> simp at hk
    · split at hk
      · simp at hk
      · split at hk
        · simp at hk
        · cases hk; rfl
    · exact hk.1.symm
  | hexInt =>
    intro _ d i k t h
    simp only [ser, hexIntSer] at h
    obtain ⟨v, hv, hk⟩ := withItem_eq_ok.mp h
    refine ⟨?_, getElem?_lt' hv⟩
    split at hk
    · simp at hk
    · split at hk
      · simp at hk
      · cases hk; rfl
  | intSpaces sp mi ms => intro h; simp [itemLike] at h
  | multiDigit b kk => intro h; simp [itemLike] at h
  | oneOf cs ih => intro h; simp [itemLike] at h
  | tupl es ih =>
    intro _ d i k t h
    simp only [ser, tuplSer] at h
    obtain ⟨v, hv, hk⟩ := withItem_eq_ok.mp h
    refine ⟨?_, getElem?_lt' hv⟩
    cases v with
    | tuple comps =>
      simp only at hk
      split at hk
      · simp at hk
      · obtain ⟨t', _, heq⟩ := Outcome.bind_eq_ok.mp hk
        cases heq; rfl
    | _ => simp at hk
  | seq b n ih =>
    intro _ d i k t h
    simp only [ser] at h
    obtain ⟨l, hl, hk, _⟩ := seqSer_eq_ok h
    exact ⟨hk, getElem?_lt' hl⟩
  | grid b dims ih =>
    intro _ d i k t h
    simp only [ser, gridSer] at h
    obtain ⟨v, hv, hk⟩ := withItem_eq_ok.mp h
    refine ⟨?_, getElem?_lt' hv⟩
    cases v <;> simp at hk
    obtain ⟨flat, _, hs⟩ := Outcome.bind_eq_ok.mp hk
    exact (seqSer_eq_ok hs).choose_spec.2.1
  | rooms s a =>
    intro _ d i k t h
    simp only [ser, roomsSer, catchValueError] at h
    have hcore : roomsSerCore env d i = .ok (k, t) := by
      split at h
      · split at h <;> first | (simp at h) | exact h
      · exact h
    unfold roomsSerCore at hcore
    split at hcore
    · simp at hcore
    · split at hcore
      · simp at hcore
      · rename_i rooms hd
        dsimp only at hcore
        split at hcore
        · simp at hcore
        · obtain ⟨_, _, h1⟩ := Outcome.bind_eq_ok.mp hcore
          obtain ⟨_, _, h2⟩ := Outcome.bind_eq_ok.mp h1
          obtain ⟨_, _, h3⟩ := Outcome.bind_eq_ok.mp h2
          obtain ⟨_, _, h4⟩ := Outcome.bind_eq_ok.mp h3
          simp only [bordersSer, tuplSer] at h4
          obtain ⟨v, hv, hk⟩ := withItem_eq_ok.mp h4
          refine ⟨?_, getElem?_lt' hd⟩
          cases v with
          | tuple comps =>
            simp only at hk
            split at hk
            · simp at hk
            · obtain ⟨t', _, heq⟩ := Outcome.bind_eq_ok.mp hk
              cases heq; rfl
          | _ => simp at hk
      · simp at hcore
  | valuedRooms v s a ih =>
    intro _ d i k t h
    simp only [ser, valuedRoomsSer] at h
    obtain ⟨x, hx, hk⟩ := withItem_eq_ok.mp h
    refine ⟨?_, getElem?_lt' hx⟩
    split at hk
    · split at hk
      · obtain ⟨_, _, h1⟩ := Outcome.bind_eq_ok.mp hk
        split at h1
        · simp at h1
        · obtain ⟨_, _, heq⟩ := Outcome.bind_eq_ok.mp h1
          cases heq; rfl
      · simp at hk
    · simp at hk
  | yajilinClue =>
    intro _ d i k t h
    simp only [ser, yajilinSer] at h
    split at h
    · simp at h
    · rename_i hlt
      refine ⟨?_, by omega⟩
      split at h
      · simp at h
      · split at h
        · simp at h
        · split at h
          · cases h; rfl
          · split at h
            · split at h
              · simp at h
              · split at h
                · simp at h
                · obtain ⟨n, _, heq⟩ := Outcome.bind_eq_ok.mp h
                  split at heq
                  · cases heq; rfl
                  · split at heq
                    · cases heq; rfl
                    · simp at heq
            · simp at h

/-- a productive term consumes at least one item whenever it succeeds -/
theorem ser_productive (env : Env) : ∀ c, productive c = true → SerProductive (ser c env) := by
  intro c
  induction c using Comb.ind with
  | fixStr s => intro h; simp [productive] at h
  | multiDigit b kk =>
    intro h d i k t hs
    simp only [productive, decide_eq_true_eq] at h
    simp only [ser, multiDigitSer] at hs
    split at hs
    · simp at hs
    · split at hs
      · simp at hs
      · obtain ⟨v, _, heq⟩ := Outcome.bind_eq_ok.mp hs
        cases heq
        omega
  | oneOf cs ih =>
    intro h d i k t hs
    simp only [productive] at h
    simp only [ser, serL_eq_map] at hs
    obtain ⟨pre, f, post, hfs, hf, _⟩ := oneOfF_eq_ok' _ d i (k, t) hs
    have hmem : f ∈ cs.map (ser · env) := by rw [hfs]; simp
    obtain ⟨c, hc, rfl⟩ := List.mem_map.mp hmem
    exact ih c hc (productiveAll_mem cs h c hc) d i k t hf
  | spaces sp o =>
    intro _ d i k t hs
    simp only [ser, spacesSer] at hs
    obtain ⟨v, _, hk⟩ := withItem_eq_ok.mp hs
    split at hk
    · simp at hk
    · obtain ⟨t', _, heq⟩ := Outcome.bind_eq_ok.mp hk
      cases heq; omega
  | intSpaces sp mi ms =>
    intro _ d i k t hs
    simp only [ser, intSpacesSer] at hs
    obtain ⟨v, _, hk⟩ := withItem_eq_ok.mp hs
    split at hk
    · simp at hk
    · split at hk
      · simp at hk
      · cases hk; omega
  | dict b a => intro _ d i k t hs; have := (ser_itemLike env _ rfl d i k t hs).1; omega
  | decInt => intro _ d i k t hs; have := (ser_itemLike env _ rfl d i k t hs).1; omega
  | hexInt => intro _ d i k t hs; have := (ser_itemLike env _ rfl d i k t hs).1; omega
  | tupl es _ => intro _ d i k t hs; have := (ser_itemLike env _ rfl d i k t hs).1; omega
  | seq b n _ => intro _ d i k t hs; have := (ser_itemLike env _ rfl d i k t hs).1; omega
  | grid b dims _ => intro _ d i k t hs; have := (ser_itemLike env _ rfl d i k t hs).1; omega
  | rooms s a => intro _ d i k t hs; have := (ser_itemLike env _ rfl d i k t hs).1; omega
  | valuedRooms v s a _ => intro _ d i k t hs; have := (ser_itemLike env _ rfl d i k t hs).1; omega
  | yajilinClue => intro _ d i k t hs; have := (ser_itemLike env _ rfl d i k t hs).1; omega

theorem yajilinSer_noDiv : NoDiv yajilinSer := by
  intro d i
  unfold yajilinSer
  split
  · simp
  · split
    · simp
    · split
      · simp
      · split
        · simp
        · split
          · split
            · simp
            · split
              · simp
              · apply bind_ne_diverge (pyInt_ne_diverge _)
                intro n
                split
                · simp
                · split <;> simp
          · simp

/-- **the serializer of a term whose `Seq`/`Grid` bases are productive always terminates** (terms without `Rooms`;
`Rooms` itself only adds loop-free code around the same `Seq` loops) -/
theorem ser_noDiv (env : Env) : ∀ c, terminating c = true → noRooms c = true → NoDiv (ser c env) := by
  intro c
  induction c using Comb.ind with
  | fixStr s => intro _ _ d i; simp [ser, fixStrSer]
  | dict b a =>
    intro _ _ d i
    simp only [ser, dictSer]
    exact withItem_ne_diverge d i _ (fun v => dictSerFind_ne_diverge v b a)
  | spaces sp o =>
    intro _ _ d i
    simp only [ser, spacesSer]
    apply withItem_ne_diverge
    intro v
    split
    · simp
    · exact bind_ne_diverge (toBase36_ne_diverge _) (fun _ => by simp)
  | decInt =>
    intro _ _ d i
    simp only [ser, decIntSer]
    apply withItem_ne_diverge
    intro v
    cases v with
    | int n =>
      simp only
      split
      · simp
      · split <;> simp
    | _ => simp
  | hexInt =>
    intro _ _ d i
    simp only [ser, hexIntSer]
    apply withItem_ne_diverge
    intro v
    split
    · simp
    · split <;> simp
  | intSpaces sp mi ms =>
    intro _ _ d i
    simp only [ser, intSpacesSer]
    apply withItem_ne_diverge
    intro v
    split
    · simp
    · split <;> simp
  | multiDigit b k =>
    intro _ _ d i
    simp only [ser, multiDigitSer]
    split
    · simp
    · split
      · simp
      · exact bind_ne_diverge (mdPack_ne_diverge _ _ _ _) (fun _ => by simp)
  | oneOf cs ih =>
    intro ht hn
    simp only [terminating] at ht
    simp only [noRooms] at hn
    simp only [ser, serL_eq_map]
    apply oneOfF_noDiv
    intro f hf
    obtain ⟨c, hc, rfl⟩ := List.mem_map.mp hf
    exact ih c hc (terminatingAll_mem cs ht c hc) (noRoomsL_mem' cs hn c hc)
  | tupl es ih =>
    intro ht hn
    simp only [terminating] at ht
    simp only [noRooms] at hn
    simp only [ser, serL_eq_map]
    apply tuplSer_noDiv
    intro f hf
    obtain ⟨c, hc, rfl⟩ := List.mem_map.mp hf
    exact ih c hc (terminatingAll_mem es ht c hc) (noRoomsL_mem' es hn c hc)
  | seq b n ih =>
    intro ht hn
    simp only [terminating, Bool.and_eq_true] at ht
    simp only [noRooms] at hn
    simp only [ser]
    exact seqSer_noDiv _ (ih ht.1 hn) (ser_productive env b ht.2) n
  | grid b dims ih =>
    intro ht hn
    simp only [terminating, Bool.and_eq_true] at ht
    simp only [noRooms] at hn
    simp only [ser]
    exact gridSer_noDiv _ (ih ht.1 hn) (ser_productive env b ht.2) _ _
  | rooms s a => intro _ hn; simp [noRooms] at hn
  | valuedRooms v s a ih => intro _ hn; simp [noRooms] at hn
  | yajilinClue => intro _ _; simpa [ser] using yajilinSer_noDiv

end Cspuz.Ser
