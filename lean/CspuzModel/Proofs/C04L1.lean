/-
  C04, layer L1: the program emitted by `_active_vertices_connected` (rank/root encoding) is realizable
  iff an arithmetic certificate `AVCCert` exists.
-/
import CspuzModel.Proofs.EvalLemmas
import CspuzModel.Spec.Certs
namespace Cspuz.Proofs.C04L1
open Cspuz Cspuz.Spec Cspuz.Proofs

/-- Closed form of the `less` list of vertex `i`: `(rank[j] < rank[i]) & is_active[j]` per incident entry. -/
def lessE (g : Graph) (ia : List Expr) (base i : Nat) : List Expr :=
  (g.incident i).map fun je =>
    .node .and [.node .lt [.ivar (base + je.1), .ivar (base + i)], ia.getD je.1 .litNone]

/-- The `rank[j] != rank[i]` constraints of vertex `i` (acyclic mode). -/
def neE (g : Graph) (base i : Nat) : List Expr :=
  (g.incident i).filterMap fun je =>
    if i < je.1 then some (.node .ne [.ivar (base + je.1), .ivar (base + i)]) else none

/-- Closed form of the constraints emitted for vertex `i`. -/
def avcCs (g : Graph) (ia : List Expr) (base : Nat) (acyclic : Bool) (i : Nat) : List Expr :=
  let ct := countTrueE (lessE g ia base i ++ [.bvar (base + g.n + i)])
  if acyclic then neE g base i ++ [thenRaw (ia.getD i .litNone) (.node .eq [ct, .litI 1])]
  else [thenRaw (ia.getD i .litNone) (.node .ge [ct, .litI 1])]

/-- Closed form of the program emitted by the rank/root encoding. -/
def avcProg (g : Graph) (ia : List Expr) (base : Nat) (acyclic : Bool) : Prog :=
  { decls := List.replicate g.n (.int 0 ((g.n : Int) - 1)) ++ List.replicate g.n .bool,
    cs := ((List.range g.n).map (avcCs g ia base acyclic)).flatten ++
      [.node .le [countTrueE ((List.range g.n).map fun i => .bvar (base + g.n + i)), .litI 1]] }

theorem lessE_boolLike (g : Graph) (ia : List Expr) (base i : Nat) :
    ∀ x ∈ lessE g ia base i, x.isBoolLike = true := by
  intro x hx
  simp only [lessE, List.mem_map] at hx
  obtain ⟨je, _, rfl⟩ := hx
  rfl

theorem avc_eq_prog {g : Graph} {ia : List Expr} {base : Nat} {acyclic : Bool}
    (hn : 0 < g.n) (hwf : g.wf = true) (hlen : ia.length = g.n) (hia : BoolArgs base ia) :
    activeVerticesConnected g ia base acyclic false = .ok (avcProg g ia base acyclic) := by
  unfold activeVerticesConnected
  simp only [Bool.false_and, Bool.false_eq_true, if_false]
  have hdecl : intArrayDecls g.n 0 ((g.n : Int) - 1) = .ok (List.replicate g.n (.int 0 ((g.n : Int) - 1))) := by
    unfold intArrayDecls; rw [if_neg (by omega)]
  rw [hdecl, ok_bind]
  rw [mapM_eq_ok_map (g := avcCs g ia base acyclic), ok_bind]
  · rw [countTrue_ok_of_boolLike (by intro x hx; simp only [List.mem_map] at hx; obtain ⟨_, _, rfl⟩ := hx; rfl)]
    rfl
  · intro i hi
    have hi : i < g.n := by simpa using hi
    rw [mapM_eq_ok_map (g := fun je => .node .and [.node .lt [.ivar (base + je.1), .ivar (base + i)], ia.getD je.1 .litNone])]
    · rw [ok_bind, getE_eq_ok (by omega), ok_bind]
      have hct := countTrue_ok_of_boolLike (xs := lessE g ia base i ++ [.bvar (base + g.n + i)]) (by
        intro x hx
        rcases List.mem_append.1 hx with hx | hx
        · exact lessE_boolLike _ _ _ _ _ hx
        · simp at hx; subst hx; rfl)
      unfold lessE at hct
      rw [hct, ok_bind]
      have hgd : ia.getD i .litNone = ia[i] := by simp [List.getD, List.getElem?_eq_getElem (show i < ia.length by omega)]
      unfold avcCs lessE
      rw [hgd]
      cases acyclic <;> rfl
    · intro je hje
      have hb := incident_bounds hwf hje
      have hj : je.1 < ia.length := by omega
      rw [getE_eq_ok hj, ok_bind]
      have hgd : ia.getD je.1 .litNone = ia[je.1] := by simp [List.getD, List.getElem?_eq_getElem hj]
      rw [hgd]
      exact andPy_node rfl (boolArg_isBoolLike hia hj)


/-! ### meaning of the emitted constraints under an extension `σ'` of `σ` -/

/-- ranks read off an assignment -/
def rk (σ' : Asg) (base : Nat) (i : Nat) : Int := σ'.i (base + i)
/-- root flags read off an assignment -/
def rt (σ' : Asg) (base n : Nat) (i : Nat) : Bool := σ'.b (base + n + i)

section Sem
variable {g : Graph} {ia : List Expr} {base : Nat} {σ σ' : Asg}

theorem eval_lessE (hwf : g.wf = true) (hlen : ia.length = g.n) (hia : BoolArgs base ia)
    (hag : AgreeBelow base σ σ') (i : Nat) :
    (lessE g ia base i).map (eval σ') =
      ((g.incident i).map (fun je => decide (rk σ' base je.1 < rk σ' base i) && truthAt σ ia je.1)).map
        (fun b => some (.b b)) := by
  unfold lessE
  rw [List.map_map, List.map_map]
  apply List.map_congr_left
  intro je hje
  have hb := incident_bounds hwf hje
  have hj : je.1 < ia.length := by omega
  have hgd : ia.getD je.1 .litNone = ia[je.1] := by simp [List.getD, List.getElem?_eq_getElem hj]
  simp only [Function.comp, hgd]
  rw [eval_and2 (eval_cmp rfl (eval_ivar ..) (eval_ivar ..)) (eval_boolArg hia hag hj)]
  rfl

theorem eval_ct (hwf : g.wf = true) (hlen : ia.length = g.n) (hia : BoolArgs base ia)
    (hag : AgreeBelow base σ σ') (i : Nat) :
    eval σ' (countTrueE (lessE g ia base i ++ [.bvar (base + g.n + i)])) =
      some (.i ((countInc g i (fun je => decide (rk σ' base je.1 < rk σ' base i) && truthAt σ ia je.1)
        + b2n (rt σ' base g.n i) : Nat))) := by
  rw [eval_countTrueE ((g.incident i).map (fun je => decide (rk σ' base je.1 < rk σ' base i) && truthAt σ ia je.1)
      ++ [σ'.b (base + g.n + i)])
    (by simp [eval_lessE hwf hlen hia hag i])]
  congr 3
  rw [List.count_append, List.count_eq_countP, List.countP_map, List.countP_eq_length_filter]
  unfold countInc b2n rt
  congr 1
  · congr 1; apply List.filter_congr; intro x _; simp
  · cases σ'.b (base + g.n + i) <;> simp

theorem mem_neE {base i : Nat} {c : Expr} :
    c ∈ neE g base i ↔ ∃ je ∈ g.incident i, i < je.1 ∧ c = .node .ne [.ivar (base + je.1), .ivar (base + i)] := by
  unfold neE
  simp only [List.mem_filterMap]
  constructor
  · rintro ⟨je, hje, h⟩
    split at h
    · cases h; exact ⟨je, hje, by assumption, rfl⟩
    · cases h
  · rintro ⟨je, hje, h, rfl⟩
    exact ⟨je, hje, by simp [h]⟩

theorem sat_avcCs (hwf : g.wf = true) (hlen : ia.length = g.n) (hia : BoolArgs base ia)
    (hag : AgreeBelow base σ σ') (acyclic : Bool) {i : Nat} (hi : i < g.n) :
    (∀ c ∈ avcCs g ia base acyclic i, eval σ' c = some (.b true)) ↔
      (truthAt σ ia i = true →
        if acyclic then
          countInc g i (fun je => decide (rk σ' base je.1 < rk σ' base i) && truthAt σ ia je.1)
            + b2n (rt σ' base g.n i) = 1
        else
          countInc g i (fun je => decide (rk σ' base je.1 < rk σ' base i) && truthAt σ ia je.1)
            + b2n (rt σ' base g.n i) ≥ 1) ∧
      (acyclic = true → ∀ je ∈ g.incident i, i < je.1 → rk σ' base je.1 ≠ rk σ' base i) := by
  have hii : i < ia.length := by omega
  have hgd : ia.getD i .litNone = ia[i] := by simp [List.getD, List.getElem?_eq_getElem hii]
  have hai := eval_boolArg hia hag hii
  have hct := eval_ct hwf hlen hia hag i
  unfold avcCs
  rw [hgd]
  cases acyclic
  · simp only [Bool.false_eq_true, if_false, List.mem_singleton, forall_eq, false_imp_iff, and_true]
    rw [eval_thenRaw hai (eval_cmp rfl hct (eval_litI ..))]
    cases truthAt σ ia i <;> simp
    omega
  · simp only [if_true, List.mem_append, List.mem_singleton, true_imp_iff]
    have hne : ∀ je : Nat × Nat, eval σ' (.node .ne [.ivar (base + je.1), .ivar (base + i)]) =
        some (.b (rk σ' base je.1 != rk σ' base i)) := fun je =>
      eval_cmp rfl (eval_ivar ..) (eval_ivar ..)
    have hthen := eval_thenRaw hai (eval_cmp (op := .eq) rfl hct (eval_litI σ' 1))
    constructor
    · intro h
      constructor
      · have := h _ (.inr rfl)
        rw [hthen] at this
        intro ht
        rw [ht] at this
        simp at this
        omega
      · intro je hje hlt
        have := h _ (.inl (mem_neE.2 ⟨je, hje, hlt, rfl⟩))
        rw [hne] at this
        simpa using this
    · rintro ⟨h1, h2⟩ c hc
      rcases hc with hc | rfl
      · obtain ⟨je, hje, hlt, rfl⟩ := mem_neE.1 hc
        rw [hne]
        simpa using h2 je hje hlt
      · rw [hthen]
        cases ht : truthAt σ ia i
        · simp
        · have := h1 ht
          simp; omega
end Sem

theorem sat_one_root {base n : Nat} (σ' : Asg) :
    eval σ' (.node .le [countTrueE ((List.range n).map fun i => .bvar (base + n + i)), .litI 1]) =
      some (.b true) ↔ ((List.range n).filter (rt σ' base n)).length ≤ 1 := by
  have hct := eval_countTrueE (σ := σ') (xs := (List.range n).map fun i => .bvar (base + n + i))
    ((List.range n).map (rt σ' base n)) (by simp [rt])
  rw [eval_cmp rfl hct (eval_litI ..)]
  rw [List.count_eq_countP, List.countP_map, List.countP_eq_length_filter]
  have : (List.filter ((fun x => x == true) ∘ rt σ' base n) (List.range n)) = (List.range n).filter (rt σ' base n) := by
    apply List.filter_congr; intro x _; simp
  rw [this]
  simp
  omega

/-- The conjunction of the `AVCCert` fields, for ranks/roots read off `σ'`. -/
theorem satFrag_avcProg_iff {g : Graph} {ia : List Expr} {base : Nat} {σ σ' : Asg}
    (hwf : g.wf = true) (hlen : ia.length = g.n) (hia : BoolArgs base ia)
    (hag : AgreeBelow base σ σ') (acyclic : Bool) :
    SatFrag base (avcProg g ia base acyclic) σ' ↔
      (∀ i, i < g.n → 0 ≤ rk σ' base i ∧ rk σ' base i ≤ (g.n : Int) - 1) ∧
      (∀ i, i < g.n →
        (truthAt σ ia i = true →
          if acyclic then
            countInc g i (fun je => decide (rk σ' base je.1 < rk σ' base i) && truthAt σ ia je.1)
              + b2n (rt σ' base g.n i) = 1
          else
            countInc g i (fun je => decide (rk σ' base je.1 < rk σ' base i) && truthAt σ ia je.1)
              + b2n (rt σ' base g.n i) ≥ 1) ∧
        (acyclic = true → ∀ je ∈ g.incident i, i < je.1 → rk σ' base je.1 ≠ rk σ' base i)) ∧
      ((List.range g.n).filter (rt σ' base g.n)).length ≤ 1 := by
  unfold SatFrag avcProg
  simp only
  refine and_congr (sat_rank_decls (by intro d hd; exact (List.mem_replicate.1 hd).2) (rk σ' base)) ?_
  simp only [List.mem_append, List.mem_flatten, List.mem_map, List.mem_range, List.mem_singleton]
  constructor
  · intro h
    constructor
    · intro i hi
      rw [← sat_avcCs hwf hlen hia hag acyclic hi]
      intro c hc
      exact h c (.inl ⟨_, ⟨i, hi, rfl⟩, hc⟩)
    · rw [← sat_one_root]
      exact h _ (.inr rfl)
  · rintro ⟨h1, h2⟩ c hc
    rcases hc with ⟨l, ⟨i, hi, rfl⟩, hc⟩ | rfl
    · exact (sat_avcCs hwf hlen hia hag acyclic hi).2 (h1 i hi) c hc
    · exact (sat_one_root σ').2 h2

/-! ### main theorems -/

theorem avc_ok_pos {g : Graph} {ia : List Expr} {base : Nat} {acyclic : Bool} {p : Prog}
    (hp : activeVerticesConnected g ia base acyclic false = .ok p) : 0 < g.n := by
  unfold activeVerticesConnected at hp
  simp only [Bool.false_and, Bool.false_eq_true, if_false, bind_eq_ok] at hp
  obtain ⟨a, ha, _⟩ := hp
  unfold intArrayDecls at ha
  split at ha
  · cases ha
  · omega

/-- Extension of `σ` by the certificate's ranks and roots. -/
def extend (σ : Asg) (base n : Nat) (rank : Nat → Int) (root : Nat → Bool) : Asg where
  i := fun id => if base ≤ id then rank (id - base) else σ.i id
  b := fun id => if base + n ≤ id then root (id - (base + n)) else σ.b id

theorem extend_agree (σ : Asg) (base n : Nat) (rank : Nat → Int) (root : Nat → Bool) :
    AgreeBelow base σ (extend σ base n rank root) := by
  intro id hid
  simp only [extend]
  rw [if_neg (by omega), if_neg (by omega)]
  exact ⟨rfl, rfl⟩

theorem rk_extend (σ : Asg) (base n : Nat) (rank : Nat → Int) (root : Nat → Bool) :
    rk (extend σ base n rank root) base = rank := by
  funext i; simp [rk, extend]

theorem rt_extend (σ : Asg) (base n : Nat) (rank : Nat → Int) (root : Nat → Bool) :
    rt (extend σ base n rank root) base n = root := by
  funext i; simp [rt, extend]

theorem avc_realizable_iff_cert (g : Graph) (ia : List Expr) (base : Nat) (acyclic : Bool) (p : Prog)
    (σ : Asg) (hwf : g.wf = true) (hlen : ia.length = g.n) (hia : BoolArgs base ia)
    (hp : activeVerticesConnected g ia base acyclic false = .ok p) :
    Realizable base p σ ↔ Nonempty (AVCCert g (truthAt σ ia) acyclic) := by
  have hn := avc_ok_pos hp
  rw [avc_eq_prog hn hwf hlen hia] at hp
  cases hp
  constructor
  · rintro ⟨σ', hag, hs⟩
    obtain ⟨hb, hloc, hroot⟩ := (satFrag_avcProg_iff hwf hlen hia hag acyclic).1 hs
    exact ⟨{ rank := rk σ' base, root := rt σ' base g.n,
             rank_lo := fun i hi => (hb i hi).1, rank_hi := fun i hi => (hb i hi).2,
             loc := fun i hi => (hloc i hi).1, distinct := fun h i hi => (hloc i hi).2 h,
             one_root := hroot }⟩
  · rintro ⟨c⟩
    refine ⟨extend σ base g.n c.rank c.root, extend_agree _ _ _ _ _, ?_⟩
    rw [satFrag_avcProg_iff hwf hlen hia (extend_agree _ _ _ _ _) acyclic, rk_extend, rt_extend]
    exact ⟨fun i hi => ⟨c.rank_lo i hi, c.rank_hi i hi⟩,
      fun i hi => ⟨c.loc i hi, fun h => c.distinct h i hi⟩, c.one_root⟩

theorem avc_prim_acyclic (g : Graph) (ia : List Expr) (base : Nat) :
    activeVerticesConnected g ia base true true = activeVerticesConnected g ia base true false := by
  unfold activeVerticesConnected
  simp

theorem avc_total (g : Graph) (ia : List Expr) (base : Nat) (acyclic prim : Bool) :
    0 < g.n → g.wf = true → ia.length = g.n → BoolArgs base ia →
    ∃ p, activeVerticesConnected g ia base acyclic prim = .ok p := by
  intro hn hwf hlen hia
  cases prim
  · exact ⟨_, avc_eq_prog hn hwf hlen hia⟩
  · cases acyclic
    · unfold activeVerticesConnected
      simp [hlen]
    · rw [avc_prim_acyclic]; exact ⟨_, avc_eq_prog hn hwf hlen hia⟩

end Cspuz.Proofs.C04L1

