/-
  C10 for an arbitrary well-formed frame, second layer: closed form of the program emitted by
  `connectedCrossable f …`, and the activity list handed to `activeVerticesConnected`.
-/
import CspuzModel.Proofs.C10GenL1
namespace Cspuz.Proofs.C10GenL2
open Cspuz Cspuz.Spec Cspuz.Proofs Cspuz.Spec.FrameGeom
open Cspuz.Proofs.C10L1 Cspuz.Proofs.C10L2 Cspuz.Proofs.C10Cross Cspuz.Proofs.C10Strand
open Cspuz.Proofs.C10GenL1

/-- The activity list handed to `activeVerticesConnected`: three nodes per lattice point, then the
frame's vertical entries, then its horizontal entries. -/
def gvG (f : Frame) (base : Nat) : List Expr :=
  gvPts f.height f.width base ++ f.vertical.data ++ f.horizontal.data

theorem list_eq_map_range (l : List Expr) :
    l = (List.range l.length).map fun i => (l[i]?).getD .litNone := by
  apply List.ext_getElem
  · simp
  · intro i h1 h2
    simp [List.getElem?_eq_getElem h1]

section
variable {f : Frame} {base : Nat} (hwf : FrameWF f)
include hwf

theorem vlist_eq :
    ((List.range f.height).flatMap fun y => (List.range (f.width + 1)).map fun x => (y, x)).map
        (fun yx : Nat × Nat => segE f (.v yx.1 yx.2)) = f.vertical.data := by
  conv_rhs => rw [list_eq_map_range f.vertical.data, hwf.2.2.2.2.2, C14.range_mul]
  simp only [List.map_flatMap, List.map_map, Function.comp_def, segE]

theorem hlist_eq :
    ((List.range (f.height + 1)).flatMap fun y => (List.range f.width).map fun x => (y, x)).map
        (fun yx : Nat × Nat => segE f (.h yx.1 yx.2)) = f.horizontal.data := by
  conv_rhs => rw [list_eq_map_range f.horizontal.data, hwf.2.2.1, C14.range_mul]
  simp only [List.map_flatMap, List.map_map, Function.comp_def, segE]

theorem v_step {yx : Nat × Nat}
    (hyx : yx ∈ (List.range f.height).flatMap fun y => (List.range (f.width + 1)).map fun x => (y, x)) :
    f.vertical.get ↑yx.1 ↑yx.2 = .ok (segE f (.v yx.1 yx.2)) := by
  simp only [List.mem_flatMap, List.mem_map, List.mem_range] at hyx
  obtain ⟨a, ha, b, hb, rfl⟩ := hyx
  exact v_get hwf ha (by omega)

theorem h_step {yx : Nat × Nat}
    (hyx : yx ∈ (List.range (f.height + 1)).flatMap fun y => (List.range f.width).map fun x => (y, x)) :
    f.horizontal.get ↑yx.1 ↑yx.2 = .ok (segE f (.h yx.1 yx.2)) := by
  simp only [List.mem_flatMap, List.mem_map, List.mem_range] at hyx
  obtain ⟨a, ha, b, hb, rfl⟩ := hyx
  exact h_get hwf (by omega) hb

variable (hb : BoolArgs base (f.horizontal.data ++ f.vertical.data))
include hb

/-- Closed form of the generator on a well-formed frame of Boolean expressions. -/
theorem cc_ok {sc prim : Bool} {p : Prog} {ps cr : List Expr}
    (h : connectedCrossable f sc prim base = .ok (p, ps, cr)) :
    ∃ avc, activeVerticesConnected (crossGraph (f.height + 1) (f.width + 1)) (gvG f base)
        (base + 5 * ((f.height + 1) * (f.width + 1))) false prim = .ok avc ∧
      p = { decls := List.replicate (5 * ((f.height + 1) * (f.width + 1))) .bool ++ avc.decls,
            cs := localCs f.height f.width base sc (dEG f) ++ avc.cs } ∧
      ps = (List.range ((f.height + 1) * (f.width + 1))).map (fun i => Expr.bvar (base + i)) ∧
      cr = (List.range ((f.height + 1) * (f.width + 1))).map
        (fun i => Expr.bvar (base + (f.height + 1) * (f.width + 1) + i)) := by
  simp only [connectedCrossable, Nat.add_sub_cancel] at h
  obtain ⟨per, hper, h1⟩ := bind_eq_ok.1 h
  obtain ⟨gvV, hV, h2⟩ := bind_eq_ok.1 h1
  obtain ⟨gvH, hH, h3⟩ := bind_eq_ok.1 h2
  obtain ⟨avc, havc, h4⟩ := bind_eq_ok.1 h3
  clear h h1 h2 h3
  have hper' : per = (cells f.height f.width).map (perF f.height f.width base sc (dEG f)) := by
    rw [mapM_eq_ok_map (g := perF f.height f.width base sc (dEG f))] at hper
    · exact (Except.ok.inj hper).symm
    · intro yx hyx
      exact per_step hwf hb hyx _
  have hV' : gvV = f.vertical.data := by
    rw [mapM_eq_ok_map (g := fun yx => segE f (.v yx.1 yx.2))] at hV
    · rw [← Except.ok.inj hV, vlist_eq hwf]
    · intro yx hyx
      exact v_step hwf hyx
  have hH' : gvH = f.horizontal.data := by
    rw [mapM_eq_ok_map (g := fun yx => segE f (.h yx.1 yx.2))] at hH
    · rw [← Except.ok.inj hH, hlist_eq hwf]
    · intro yx hyx
      exact h_step hwf hyx
  subst hper' hV' hH'
  refine ⟨avc, ?_, ?_, ?_, ?_⟩
  · rw [← havc]
    unfold gvG gvPts
    rw [← gvPts_eq]
    rfl
  · have := Except.ok.inj h4
    simp only [Prod.mk.injEq] at this
    rw [← this.1]
    rfl
  · have := Except.ok.inj h4
    simp only [Prod.mk.injEq] at this
    rw [← this.2.1]
    exact ps_eq f.height f.width base
  · have := Except.ok.inj h4
    simp only [Prod.mk.injEq] at this
    rw [← this.2.2]
    exact cr_eq f.height f.width base

/-- Conversely: the generator succeeds as soon as the connectivity generator does. -/
theorem cc_of_avc {sc prim : Bool} {avc : Prog}
    (havc : activeVerticesConnected (crossGraph (f.height + 1) (f.width + 1)) (gvG f base)
        (base + 5 * ((f.height + 1) * (f.width + 1))) false prim = .ok avc) :
    ∃ r, connectedCrossable f sc prim base = .ok r := by
  simp only [connectedCrossable, Nat.add_sub_cancel]
  refine ⟨_, bind_eq_ok.2 ⟨_, mapM_eq_ok_map (g := perF f.height f.width base sc (dEG f))
      (fun yx hyx => per_step hwf hb hyx _),
    bind_eq_ok.2 ⟨_, mapM_eq_ok_map (g := fun yx => segE f (.v yx.1 yx.2))
        (fun yx hyx => v_step hwf hyx),
      bind_eq_ok.2 ⟨_, mapM_eq_ok_map (g := fun yx => segE f (.h yx.1 yx.2))
          (fun yx hyx => h_step hwf hyx),
        bind_eq_ok.2 ⟨avc, ?_, rfl⟩⟩⟩⟩⟩
  rw [← havc, vlist_eq hwf, hlist_eq hwf]
  unfold gvG gvPts
  rw [← gvPts_eq]
  rfl

end

/-! ### the activity list -/

section
variable {f : Frame} (base : Nat) (hwf : FrameWF f)
include hwf

theorem gvG_length : (gvG f base).length = (crossGraph (f.height + 1) (f.width + 1)).n := by
  unfold gvG
  rw [cross_n, List.length_append, List.length_append, gvPts_length, hwf.2.2.1, hwf.2.2.2.2.2]

omit hwf in
theorem varsBelow_mono {b b' : Nat} (hbb : b ≤ b') :
    ∀ e : Expr, e.varsBelow b = true → e.varsBelow b' = true := by
  intro e
  induction e using Expr.rec (motive_2 := fun l => Expr.varsBelow.varsBelowList b l = true →
      Expr.varsBelow.varsBelowList b' l = true) with
  | bvar id => simp only [Expr.varsBelow, decide_eq_true_eq]; omega
  | ivar id => simp only [Expr.varsBelow, decide_eq_true_eq]; omega
  | litB _ => simp [Expr.varsBelow]
  | litI _ => simp [Expr.varsBelow]
  | litNone => simp [Expr.varsBelow]
  | node op args ih => simpa only [Expr.varsBelow] using ih
  | nil => simp [Expr.varsBelow.varsBelowList]
  | cons e r ihe ihr =>
    rename_i h
    simp only [Expr.varsBelow.varsBelowList, Bool.and_eq_true] at h ⊢
    exact ⟨ihe h.1, ihr h.2⟩

omit hwf in
theorem gvG_boolArgs (hb : BoolArgs base (f.horizontal.data ++ f.vertical.data)) :
    BoolArgs (base + 5 * ((f.height + 1) * (f.width + 1))) (gvG f base) := by
  intro e he
  unfold gvG at he
  rw [List.mem_append, List.mem_append] at he
  rcases he with (he | he) | he
  · simp only [gvPts, List.mem_flatMap, List.mem_range, List.mem_cons, List.not_mem_nil, or_false] at he
    obtain ⟨i, hi, rfl | rfl | rfl⟩ := he <;> exact boolArgs_bvar (by omega)
  · obtain ⟨h1, h2⟩ := hb e (List.mem_append_right _ he)
    exact ⟨h1, varsBelow_mono (by omega) e h2⟩
  · obtain ⟨h1, h2⟩ := hb e (List.mem_append_left _ he)
    exact ⟨h1, varsBelow_mono (by omega) e h2⟩

omit hwf in
theorem truthAt_gvG_pt (σ : Asg) {i k : Nat} (hi : i < (f.height + 1) * (f.width + 1)) (hk : k < 3) :
    truthAt σ (gvG f base) (i * 3 + k) =
      σ.b (if k = 0 then base + 2 * ((f.height + 1) * (f.width + 1)) + i
        else if k = 1 then base + 3 * ((f.height + 1) * (f.width + 1)) + i
        else base + 4 * ((f.height + 1) * (f.width + 1)) + i) := by
  have hlt : i * 3 + k < (gvPts f.height f.width base).length := by
    rw [gvPts_length]; unfold npts; omega
  unfold gvG
  rw [List.append_assoc, truthAt_append_left σ hlt]
  apply truthAt_bvar_some
  unfold gvPts
  rw [getElem?_flatMap3 _ _ _ _ i k (by simpa using hi) hk]
  simp only [List.getElem_range]
  split
  · rfl
  · split <;> rfl

theorem truthAt_gvG_seg (σ : Asg) {s : LSeg} (hs : s.valid f.height f.width) :
    truthAt σ (gvG f base) (segNode f.height f.width s) = segActive f σ s := by
  have lv := hwf.2.2.2.2.2
  have lh := hwf.2.2.1
  cases s with
  | v y x =>
    have hb := C14.mul_add_lt (h := f.height) (w := f.width + 1) (y := y) (x := x) hs.1
      (by have := hs.2; omega)
    have h1 : segNode f.height f.width (.v y x) <
        (gvPts f.height f.width base ++ f.vertical.data).length := by
      rw [List.length_append, gvPts_length, lv]; simp only [segNode]; omega
    have h2 : (gvPts f.height f.width base).length ≤ segNode f.height f.width (.v y x) := by
      rw [gvPts_length]; simp only [segNode]; omega
    unfold gvG
    rw [truthAt_append_left σ h1, truthAt_append_right σ h2, gvPts_length]
    have e : segNode f.height f.width (.v y x) - npts f.height f.width = y * (f.width + 1) + x := by
      simp only [segNode]; omega
    rw [e]
    rfl
  | h y x =>
    have h2 : (gvPts f.height f.width base ++ f.vertical.data).length ≤
        segNode f.height f.width (.h y x) := by
      rw [List.length_append, gvPts_length, lv]; simp only [segNode]; omega
    unfold gvG
    rw [truthAt_append_right σ h2, List.length_append, gvPts_length, lv]
    have e : segNode f.height f.width (.h y x) -
        (npts f.height f.width + f.height * (f.width + 1)) = y * f.width + x := by
      simp only [segNode]; omega
    rw [e]
    rfl

/-- Under the forced values, the node activity is what the strand lemma expects. -/
theorem gvG_spec (σ' : Asg) (hF : Forced f.height f.width base (segActive f σ') σ') :
    NodeActSpec f.height f.width (segActive f σ') (truthAt σ' (gvG f base)) := by
  refine ⟨?_, ?_, ?_, ?_⟩
  · intro y x hy hx
    have hi := C14.mul_add_lt (h := f.height + 1) (w := f.width + 1) (y := y) (x := x) (by omega) (by omega)
    unfold ptNode
    rw [truthAt_gvG_pt base σ' hi (by omega), if_pos rfl, ← (hF y x hy hx).2.2.1]
    simp only [vS, Nat.add_assoc]
  · intro y x hy hx
    have hi := C14.mul_add_lt (h := f.height + 1) (w := f.width + 1) (y := y) (x := x) (by omega) (by omega)
    unfold ptNode
    rw [truthAt_gvG_pt base σ' hi (by omega), if_neg (by omega), if_pos rfl, ← (hF y x hy hx).2.2.2.1]
    simp only [vDH, Nat.add_assoc]
  · intro y x hy hx
    have hi := C14.mul_add_lt (h := f.height + 1) (w := f.width + 1) (y := y) (x := x) (by omega) (by omega)
    unfold ptNode
    rw [truthAt_gvG_pt base σ' hi (by omega), if_neg (by omega), if_neg (by omega),
      ← (hF y x hy hx).2.2.2.2]
    simp only [vDV, Nat.add_assoc]
  · intro s hs
    exact truthAt_gvG_seg base hwf σ' hs

end

end Cspuz.Proofs.C10GenL2
