/-
  C11 / LITS, part P — the program posted by `solve_lits` in closed form under `WellFormed` (`program_eq`).
-/
import CspuzModel.Proofs.C11LitsA
import CspuzModel.Proofs.C11LitsG
import CspuzModel.Proofs.C04L1
import CspuzModel.Proofs.C04Prim
import CspuzModel.Proofs.C11FragWT
namespace Cspuz.Proofs.C11LitsP
open Cspuz Cspuz.Spec Cspuz.Puzzles Cspuz.Puzzles.Lits Cspuz.Spec.Lits Cspuz.Proofs
open Cspuz.Proofs.C11LitsA Cspuz.Proofs.C11LitsG
open Cspuz.Proofs.C11Aquarium (Rep tableGet_rep)

/-! ### vocabulary -/

/-- The `is_black` array. -/
def IB (pb : Problem) : PyV :=
  .arr2 true pb.height pb.width ((List.range (pb.height * pb.width)).map Expr.bvar)

theorem IB_eq (pb : Problem) : PyV.arr2 true pb.height pb.width (bvars 0 (pb.height * pb.width)) = IB pb := by
  simp [IB, bvars]

/-- The variable of a cell. -/
def cv (w : Nat) (p : Nat × Nat) : Expr := .bvar (p.1 * w + p.2)

/-- The neighbours of a cell, in the order of `four_neighbor_indices`. -/
def nbN (h w : Nat) (p : Nat × Nat) : List (Nat × Nat) :=
  (if 0 < p.1 then [(p.1 - 1, p.2)] else []) ++ (if p.1 + 1 < h then [(p.1 + 1, p.2)] else []) ++
  (if 0 < p.2 then [(p.1, p.2 - 1)] else []) ++ (if p.2 + 1 < w then [(p.1, p.2 + 1)] else [])

theorem nbCandidates_eq (h w : Nat) (p : Nat × Nat) :
    nbCandidates h w (p.1 : Int) (p.2 : Int) = (nbN h w p).map castC := by
  unfold nbCandidates nbN
  simp only [List.map_append]
  have e1 : ((p.1 : Int) > 0) ↔ 0 < p.1 := by omega
  have e2 : ((p.1 : Int) < (h : Int) - 1) ↔ p.1 + 1 < h := by omega
  have e3 : ((p.2 : Int) > 0) ↔ 0 < p.2 := by omega
  have e4 : ((p.2 : Int) < (w : Int) - 1) ↔ p.2 + 1 < w := by omega
  simp only [e1, e2, e3, e4]
  congr 1
  · congr 1
    · congr 1
      · split
        · next hp => simp only [List.map_cons, List.map_nil, castC]; congr 2; omega
        · rfl
      · split
        · simp only [List.map_cons, List.map_nil, castC]; congr 2
        · rfl
    · split
      · next hp => simp only [List.map_cons, List.map_nil, castC]; congr 2; omega
      · rfl
  · split
    · simp only [List.map_cons, List.map_nil, castC]; congr 2
    · rfl

theorem mem_nbN {h w : Nat} {p q : Nat × Nat} :
    q ∈ nbN h w p ↔ cellGraph.Adj p q ∧ (q.1 < h ∧ q.2 < w ∨ False) ∨ False := by
  sorry

end Cspuz.Proofs.C11LitsP
