/-
  C11 / LITS, part P — the program posted by `solve_lits` in closed form under `WellFormed` (`program_eq`).
-/
import CspuzModel.Proofs.C11LitsA
import CspuzModel.Proofs.C04L1
import CspuzModel.Proofs.C04Prim
import CspuzModel.Proofs.C11FragWT
namespace Cspuz.Proofs.C11LitsP
open Cspuz Cspuz.Spec Cspuz.Puzzles Cspuz.Puzzles.Lits Cspuz.Spec.Lits Cspuz.Proofs
open Cspuz.Proofs.C11LitsA
open Cspuz.Proofs.C11Aquarium (Rep tableGet_rep)

/-! ### vocabulary -/

/-- Python's tuple order `(y, x) < (y', x')` (the same function as `C11LitsG.lexLtB`). -/
def lexLtB (p q : Nat × Nat) : Bool := decide (p.1 < q.1) || (p.1 == q.1 && decide (p.2 < q.2))

/-- The `is_black` array. -/
def IB (pb : Problem) : PyV :=
  .arr2 true pb.height pb.width ((List.range (pb.height * pb.width)).map Expr.bvar)

theorem IB_eq (pb : Problem) : PyV.arr2 true pb.height pb.width (bvars 0 (pb.height * pb.width)) = IB pb := by
  simp [IB, bvars]

/-- The variable of a cell. -/
def cv (w : Nat) (p : Nat × Nat) : Expr := .bvar (p.1 * w + p.2)

/-- The neighbours of a cell, in the order of `four_neighbor_indices`. -/
def nbN (h w : Nat) (p : Nat × Nat) : List (Nat × Nat) :=
  (if 0 < p.1 then [(p.1 - 1, p.2)] else []) ++ (if p.1 + 1 < h then [(p.1 + 1, p.2)] else []) ++
  (if 0 < p.2 then [(p.1, p.2 - 1)] else []) ++ (if p.2 + 1 < w then [(p.1, p.2 + 1)] else [])

theorem nbCandidates_eq (h w : Nat) (p : Nat × Nat) :
    nbCandidates h w (p.1 : Int) (p.2 : Int) = (nbN h w p).map castC := by
  unfold nbCandidates nbN
  simp only [List.map_append]
  have e1 : ((p.1 : Int) > 0) ↔ 0 < p.1 := by omega
  have e2 : ((p.1 : Int) < (h : Int) - 1) ↔ p.1 + 1 < h := by omega
  have e3 : ((p.2 : Int) > 0) ↔ 0 < p.2 := by omega
  have e4 : ((p.2 : Int) < (w : Int) - 1) ↔ p.2 + 1 < w := by omega
  simp only [e1, e2, e3, e4]
  congr 1
  · congr 1
    · congr 1
      · split
        · next hp => simp only [List.map_cons, List.map_nil, castC]; congr 2; omega
        · rfl
      · split
        · simp only [List.map_cons, List.map_nil, castC]; congr 2
        · rfl
    · split
      · next hp => simp only [List.map_cons, List.map_nil, castC]; congr 2; omega
      · rfl
  · split
    · simp only [List.map_cons, List.map_nil, castC]; congr 2
    · rfl

theorem mem_nbN {h w : Nat} {p q : Nat × Nat} (hp : p.1 < h ∧ p.2 < w) :
    q ∈ nbN h w p ↔ cellGraph.Adj p q ∧ q.1 < h ∧ q.2 < w := by
  obtain ⟨p1, p2⟩ := p
  obtain ⟨q1, q2⟩ := q
  change p1 < h ∧ p2 < w at hp
  show _ ↔ ((p1 = q1 ∧ (p2 + 1 = q2 ∨ q2 + 1 = p2)) ∨ (p2 = q2 ∧ (p1 + 1 = q1 ∨ q1 + 1 = p1))) ∧ q1 < h ∧ q2 < w
  unfold nbN
  by_cases h1 : 0 < p1 <;> by_cases h2 : p1 + 1 < h <;> by_cases h3 : 0 < p2 <;> by_cases h4 : p2 + 1 < w <;>
    simp only [h1, h2, h3, h4, if_true, if_false, List.mem_append, List.mem_cons, List.not_mem_nil, or_false,
      false_or, Prod.mk.injEq, false_iff] <;> omega

theorem nbN_nodup (h w : Nat) (p : Nat × Nat) : (nbN h w p).Nodup := by
  obtain ⟨p1, p2⟩ := p
  unfold nbN
  by_cases h1 : 0 < p1 <;> by_cases h2 : p1 + 1 < h <;> by_cases h3 : 0 < p2 <;> by_cases h4 : p2 + 1 < w <;>
    simp [h1, h2, h3, h4] <;> omega

/-! ### `cellBody` restated with named pieces -/

/-- One round of the loop over the neighbours. -/
def innerStep (isBlack : PyV) (bid : List (List Int)) (i y x : Int) (acc : List (Int × Int) × List Expr)
    (q : Int × Int) : Py (List (Int × Int) × List Expr) := do
  let b ← tableGet bid q.1 q.2
  if b == i then do
    let pairs ← if tupleLt (y, x) q then do
        let a ← getitemV isBlack (.pair (.idx y) (.idx x))
        let c ← getitemV isBlack (.pair (.idx q.1) (.idx q.2))
        let e ← binop .and_ a c
        .ok (acc.2 ++ e.flat)
      else .ok acc.2
    .ok (acc.1 ++ [q], pairs)
  else .ok acc

/-- The part of `cellBody` after the loop over the neighbours. -/
def cellRest (pb : Problem) (isBlack : PyV) (bid : List (List Int)) (i : Int) (yx : Int × Int)
    (same : List (Int × Int)) (pairs : List Expr) : Py CellOut := do
  let y := yx.1
  let x := yx.2
  let h : Int := pb.height
  let w : Int := pb.width
  let c ← getitemV isBlack (.pair (.idx y) (.idx x))
  let sel ← getitemV isBlack (.coords same)
  let fo ← foldOrA [.leaf sel]
  let r ← callM .then_ c [.scalar fo]
  let c1 ← ensureV r
  let vert ← if 0 < y ∧ y < h - 1 then do
      let u ← tableGet bid (y - 1) x
      let d ← tableGet bid (y + 1) x
      .ok (u == i && d == i)
    else .ok false
  let t1 ← if vert then do
      let s ← getitemV isBlack (.pair (sl (some (y - 1)) (some (y + 2))) (.idx x))
      let e ← foldAndA [.leaf s]
      .ok [ANest.leaf (.scalar e)]
    else .ok []
  let horiz ← if 0 < x ∧ x < w - 1 then do
      let l ← tableGet bid y (x - 1)
      let r ← tableGet bid y (x + 1)
      .ok (l == i && r == i)
    else .ok false
  let t2 ← if horiz then do
      let s ← getitemV isBlack (.pair (.idx y) (sl (some (x - 1)) (some (x + 2))))
      let e ← foldAndA [.leaf s]
      .ok [ANest.leaf (.scalar e)]
    else .ok []
  let tmp := t1 ++ t2
  let straight ← if tmp.length ≥ 1 then do
      let e ← foldOrA [.items tmp]
      .ok [e]
    else .ok []
  let ts ← if same.length ≥ 3 then do
      let ct ← countTrueA [.items [.leaf sel]]
      let e ← binop .ge (.scalar ct) (.scalar (.litI 3))
      .ok e.flat
    else .ok []
  .ok { cs := c1, pairs := pairs, straight := straight, ts := ts }

theorem cellBody_eq (pb : Problem) (isBlack : PyV) (bid : List (List Int)) (i : Int) (yx : Int × Int) :
    cellBody pb isBlack bid i yx = (do
      let nbs ← fourNeighborIndices pb.height pb.width (.two yx.1 yx.2)
      let sp ← nbs.foldlM (innerStep isBlack bid i yx.1 yx.2) (([] : List (Int × Int)), ([] : List Expr))
      cellRest pb isBlack bid i yx sp.1 sp.2) := rfl

/-! ### small closed forms -/

theorem natCast_beq (a b : Nat) : (((a : Nat) : Int) == ((b : Nat) : Int)) = (a == b) := by
  by_cases h : a = b
  · subst h; simp
  · have : ¬ ((a : Int) = (b : Int)) := by omega
    simp [h, this]

theorem tupleLt_cast (p q : Nat × Nat) : tupleLt ((p.1 : Int), (p.2 : Int)) (castC q) = lexLtB p q := by
  simp only [tupleLt, lexLtB, castC, natCast_beq, Int.ofNat_lt]

/-- `fold_or` on `BoolExpr`s. -/
def orE (l : List Expr) : Expr := if l.isEmpty then .node .boolConst [.litB false] else .node .or l

theorem foldOr_go_boolExprs : ∀ (l acc : List Expr), (∀ x ∈ l, x.isBoolExpr = true) →
    foldOr.go l acc = .ok (orE (acc.reverse ++ l))
  | [], acc, _ => by
    unfold foldOr.go orE
    simp only [List.append_nil, List.isEmpty_reverse]
    split <;> rfl
  | x :: r, acc, h => by
    have hbe := h x (by simp)
    have hgo : foldOr.go (x :: r) acc = foldOr.go r (x :: acc) := by
      cases x <;> simp [Expr.isBoolExpr] at hbe <;> simp [foldOr.go, Expr.isBoolExpr, hbe]
    rw [hgo, foldOr_go_boolExprs r (x :: acc) (fun y hy => h y (by simp [hy]))]
    simp

theorem foldOr_boolExprs (l : List Expr) (h : ∀ x ∈ l, x.isBoolExpr = true) : foldOr l = .ok (orE l) := by
  unfold foldOr
  rw [foldOr_go_boolExprs l [] h]
  simp

theorem orE_isNode (l : List Expr) : ∃ op args, orE l = .node op args ∧ op.isBoolOp = true := by
  unfold orE
  split
  · exact ⟨_, _, rfl, rfl⟩
  · exact ⟨_, _, rfl, rfl⟩

theorem cv_isBoolExpr (w : Nat) (l : List (Nat × Nat)) : ∀ x ∈ l.map (cv w), x.isBoolExpr = true := by
  intro x hx
  simp only [List.mem_map] at hx
  obtain ⟨_, _, rfl⟩ := hx; rfl

theorem cv_isBoolLike (w : Nat) (l : List (Nat × Nat)) : ∀ x ∈ l.map (cv w), x.isBoolLike = true := by
  intro x hx
  simp only [List.mem_map] at hx
  obtain ⟨_, _, rfl⟩ := hx; rfl

theorem flattenList_leaves (l : List Expr) :
    ANest.flattenList (l.map fun e => ANest.leaf (.scalar e)) = l := by
  induction l with
  | nil => rfl
  | cons a l ih => simp [ANest.flattenList, ANest.flatten, PyV.flat, ih]

theorem binop_ge_node_lit (op : Op) (l : List Expr) (v : Int) (hop : op.isIntOp = true) :
    binop .ge (.scalar (.node op l)) (.scalar (.litI v)) = .ok (.scalar (.node .ge [.node op l, .litI v])) := by
  cases op <;> first | rfl | simp [Op.isIntOp] at hop

theorem binop_eq_ivar_node (i : Nat) (op : Op) (l : List Expr) (hop : op.isIntOp = true) :
    binop .eq (.scalar (.ivar i)) (.scalar (.node op l)) = .ok (.scalar (.node .eq [.ivar i, .node op l])) := by
  cases op <;> first | rfl | simp [Op.isIntOp] at hop

theorem binop_eq_bvar_node (i : Nat) (op : Op) (l : List Expr) (hop : op.isBoolOp = true) :
    binop .eq (.scalar (.bvar i)) (.scalar (.node op l)) = .ok (.scalar (.node .iff [.bvar i, .node op l])) := by
  cases op <;> first | rfl | simp [Op.isBoolOp] at hop

theorem callM_then_node (op1 : Op) (l1 : List Expr) (op : Op) (l : List Expr) (h1 : op1 = .and)
    (hop : op.isBoolOp = true) :
    callM .then_ (.scalar (.node op1 l1)) [.scalar (.node op l)]
      = .ok (.scalar (.node .imp [.node op1 l1, .node op l])) := by
  subst h1
  cases op <;> first | rfl | simp [Op.isBoolOp] at hop

/-! ### the body of the loop over the cells of a region, in closed form -/

/-- The neighbours of `p` in region `i`. -/
def sameN (pb : Problem) (i : Nat) (p : Nat × Nat) : List (Nat × Nat) :=
  (nbN pb.height pb.width p).filter fun q => regionIdx pb q == i

/-- `p` has a neighbour above and below, both in region `i`. -/
def vertOK (pb : Problem) (i : Nat) (p : Nat × Nat) : Bool :=
  decide (0 < p.1 ∧ p.1 + 1 < pb.height) && (regionIdx pb (p.1 - 1, p.2) == i && regionIdx pb (p.1 + 1, p.2) == i)

/-- `p` has a neighbour to the left and to the right, both in region `i`. -/
def horizOK (pb : Problem) (i : Nat) (p : Nat × Nat) : Bool :=
  decide (0 < p.2 ∧ p.2 + 1 < pb.width) && (regionIdx pb (p.1, p.2 - 1) == i && regionIdx pb (p.1, p.2 + 1) == i)

def vE (w : Nat) (p : Nat × Nat) : Expr := .node .and [cv w (p.1 - 1, p.2), cv w p, cv w (p.1 + 1, p.2)]
def hE (w : Nat) (p : Nat × Nat) : Expr := .node .and [cv w (p.1, p.2 - 1), cv w p, cv w (p.1, p.2 + 1)]

/-- The list `tmp`. -/
def tmpE (pb : Problem) (i : Nat) (p : Nat × Nat) : List Expr :=
  (if vertOK pb i p then [vE pb.width p] else []) ++ (if horizOK pb i p then [hE pb.width p] else [])

/-- `is_black[y, x].then(fold_or(is_black[neighbor_same_block]))`. -/
def nbrE (pb : Problem) (i : Nat) (p : Nat × Nat) : Expr :=
  .node .imp [cv pb.width p, orE ((sameN pb i p).map (cv pb.width))]

/-- The contributions of `p` to `adjacent_pairs`. -/
def pairsE (pb : Problem) (i : Nat) (p : Nat × Nat) : List Expr :=
  ((sameN pb i p).filter (lexLtB p)).map fun q => .node .and [cv pb.width p, cv pb.width q]

/-- The contribution of `p` to `is_straight`. -/
def straightE (pb : Problem) (i : Nat) (p : Nat × Nat) : List Expr :=
  if (tmpE pb i p).isEmpty then [] else [.node .or (tmpE pb i p)]

/-- The contribution of `p` to `is_t`. -/
def tsE (pb : Problem) (i : Nat) (p : Nat × Nat) : List Expr :=
  if 3 ≤ (sameN pb i p).length then [.node .ge [countTrueE ((sameN pb i p).map (cv pb.width)), .litI 3]] else []

def cellOutN (pb : Problem) (i : Nat) (p : Nat × Nat) : CellOut :=
  { cs := [nbrE pb i p], pairs := pairsE pb i p, straight := straightE pb i p, ts := tsE pb i p }

section
variable {pb : Problem}

theorem getCellV {p : Nat × Nat} (hp : OnB pb p) :
    getitemV (IB pb) (.pair (.idx (p.1 : Int)) (.idx (p.2 : Int))) = .ok (.scalar (cv pb.width p)) :=
  C11CL.getitemV_cell true Expr.bvar _ _ _ _ hp.1 hp.2

theorem getCoordsV {l : List (Nat × Nat)} (hl : ∀ q ∈ l, OnB pb q) :
    getitemV (IB pb) (.coords (l.map castC)) = .ok (.arr1 true (l.map (cv pb.width))) := by
  unfold IB
  rw [C11CL.getitemV_coords true Expr.bvar pb.height pb.width (l.map castC) (by
    intro c hc
    simp only [List.mem_map] at hc
    obtain ⟨q, hq, rfl⟩ := hc
    have := hl q hq
    simp only [castC, OnB] at this ⊢
    omega)]
  simp [List.map_map, Function.comp_def, castC, cv]

theorem nbN_onB {p q : Nat × Nat} (hp : OnB pb p) (hq : q ∈ nbN pb.height pb.width p) : OnB pb q :=
  ((mem_nbN hp).1 hq).2

theorem sameN_onB {i : Nat} {p q : Nat × Nat} (hp : OnB pb p) (hq : q ∈ sameN pb i p) : OnB pb q :=
  nbN_onB hp (List.mem_filter.1 hq).1

theorem tableGet_region {bid : List (List Int)}
    (hbid : Rep pb.height pb.width bid (fun y x => ((regionIdx pb (y, x) : Nat) : Int))) {q : Nat × Nat}
    (hq : OnB pb q) : tableGet bid (q.1 : Int) (q.2 : Int) = .ok ((regionIdx pb q : Nat) : Int) :=
  tableGet_rep hbid hq.1 hq.2

theorem inner_fold {bid : List (List Int)}
    (hbid : Rep pb.height pb.width bid (fun y x => ((regionIdx pb (y, x) : Nat) : Int))) (i : Nat)
    {p : Nat × Nat} (hp : OnB pb p) :
    ∀ (l : List (Nat × Nat)) (acc : List (Int × Int) × List Expr), (∀ q ∈ l, OnB pb q) →
      (l.map castC).foldlM (innerStep (IB pb) bid (i : Int) (p.1 : Int) (p.2 : Int)) acc
        = .ok (acc.1 ++ (l.filter fun q => regionIdx pb q == i).map castC,
               acc.2 ++ ((l.filter fun q => regionIdx pb q == i).filter (lexLtB p)).map
                 fun q => Expr.node .and [cv pb.width p, cv pb.width q])
  | [], acc, _ => by simp [pure, Except.pure]
  | q :: r, acc, hl => by
    have hq := hl q (by simp)
    have hr : ∀ q' ∈ r, OnB pb q' := fun q' h' => hl q' (by simp [h'])
    rw [List.map_cons, List.foldlM_cons]
    have hstep : innerStep (IB pb) bid (i : Int) (p.1 : Int) (p.2 : Int) acc (castC q)
        = .ok (if regionIdx pb q == i then
            (acc.1 ++ [castC q],
              if lexLtB p q then acc.2 ++ [Expr.node .and [cv pb.width p, cv pb.width q]] else acc.2)
          else acc) := by
      unfold innerStep
      simp only [castC]
      rw [tableGet_region hbid hq, ok_bind, natCast_beq]
      by_cases hri : (regionIdx pb q == i) = true
      · rw [if_pos hri, if_pos hri]
        have := tupleLt_cast p q
        simp only [castC] at this
        simp only [this]
        by_cases hlt : lexLtB p q = true
        · rw [if_pos hlt, if_pos hlt, getCellV hp, ok_bind, getCellV hq, ok_bind]
          rfl
        · rw [if_neg hlt, if_neg hlt]; rfl
      · rw [if_neg hri, if_neg hri]
    rw [hstep, ok_bind, inner_fold hbid i hp r _ hr]
    by_cases hri : (regionIdx pb q == i) = true
    · simp only [hri, if_true, List.filter_cons_of_pos, List.map_cons]
      by_cases hlt : lexLtB p q = true
      · simp [hlt]
      · simp [hlt]
    · simp only [hri, if_false, Bool.false_eq_true]
      rw [List.filter_cons_of_neg (by simpa using hri)]

theorem foldOrA_arr1 (l : List Expr) : foldOrA [.leaf (.arr1 true l)] = foldOr l := by
  simp [foldOrA, ANest.flattenList, ANest.flatten, PyV.flat]

theorem foldAndA_arr1 (l : List Expr) : foldAndA [.leaf (.arr1 true l)] = foldAnd l := by
  simp [foldAndA, ANest.flattenList, ANest.flatten, PyV.flat]

theorem countTrueA_items_arr1 (l : List Expr) : countTrueA [.items [.leaf (.arr1 true l)]] = countTrue l := by
  simp [countTrueA, ANest.flattenList, ANest.flatten, PyV.flat]

theorem vert_closed {β : Type} {bid : List (List Int)}
    (hbid : Rep pb.height pb.width bid (fun y x => ((regionIdx pb (y, x) : Nat) : Int))) (i : Nat)
    {p : Nat × Nat} (hp : OnB pb p) (K : Bool → Py β) :
    (if 0 < (p.1 : Int) ∧ (p.1 : Int) < (pb.height : Int) - 1 then do
        let u ← tableGet bid ((p.1 : Int) - 1) (p.2 : Int)
        let d ← tableGet bid ((p.1 : Int) + 1) (p.2 : Int)
        let vert ← (.ok (u == (i : Int) && d == (i : Int)) : Py Bool)
        K vert
      else do
        let vert ← (.ok false : Py Bool)
        K vert) = K (vertOK pb i p) := by
  unfold vertOK
  by_cases hv : 0 < p.1 ∧ p.1 + 1 < pb.height
  · rw [if_pos (by omega)]
    have e1 : ((p.1 : Int) - 1) = ((p.1 - 1 : Nat) : Int) := by omega
    have e2 : ((p.1 : Int) + 1) = ((p.1 + 1 : Nat) : Int) := by omega
    have h1 := tableGet_region hbid (q := (p.1 - 1, p.2)) ⟨by simp only; omega, hp.2⟩
    have h2 := tableGet_region hbid (q := (p.1 + 1, p.2)) ⟨by simp only; omega, hp.2⟩
    simp only at h1 h2
    rw [e1, e2, h1, ok_bind, h2, ok_bind, natCast_beq, natCast_beq, ok_bind]
    congr 1
    simp [hv]
  · rw [if_neg (by omega), ok_bind]
    congr 1
    simp [hv]

theorem horiz_closed {β : Type} {bid : List (List Int)}
    (hbid : Rep pb.height pb.width bid (fun y x => ((regionIdx pb (y, x) : Nat) : Int))) (i : Nat)
    {p : Nat × Nat} (hp : OnB pb p) (K : Bool → Py β) :
    (if 0 < (p.2 : Int) ∧ (p.2 : Int) < (pb.width : Int) - 1 then do
        let l ← tableGet bid (p.1 : Int) ((p.2 : Int) - 1)
        let r ← tableGet bid (p.1 : Int) ((p.2 : Int) + 1)
        let horiz ← (.ok (l == (i : Int) && r == (i : Int)) : Py Bool)
        K horiz
      else do
        let horiz ← (.ok false : Py Bool)
        K horiz) = K (horizOK pb i p) := by
  unfold horizOK
  by_cases hv : 0 < p.2 ∧ p.2 + 1 < pb.width
  · rw [if_pos (by omega)]
    have e1 : ((p.2 : Int) - 1) = ((p.2 - 1 : Nat) : Int) := by omega
    have e2 : ((p.2 : Int) + 1) = ((p.2 + 1 : Nat) : Int) := by omega
    have h1 := tableGet_region hbid (q := (p.1, p.2 - 1)) ⟨hp.1, by simp only; omega⟩
    have h2 := tableGet_region hbid (q := (p.1, p.2 + 1)) ⟨hp.1, by simp only; omega⟩
    simp only at h1 h2
    rw [e1, e2, h1, ok_bind, h2, ok_bind, natCast_beq, natCast_beq, ok_bind]
    congr 1
    simp [hv]
  · rw [if_neg (by omega), ok_bind]
    congr 1
    simp [hv]

theorem vslice_closed {p : Nat × Nat} (hp : OnB pb p) (hv : 0 < p.1 ∧ p.1 + 1 < pb.height) :
    getitemV (IB pb) (.pair (sl (some ((p.1 : Int) - 1)) (some ((p.1 : Int) + 2))) (.idx (p.2 : Int)))
      = .ok (.arr1 true [cv pb.width (p.1 - 1, p.2), cv pb.width p, cv pb.width (p.1 + 1, p.2)]) := by
  unfold IB sl
  rw [C11CL.getitemV_col true Expr.bvar pb.height pb.width _ p.2 _ hp.2
    (C11CL.axisSel_range' pb.height _ _ (p.1 - 1) (p.1 + 2) (by omega) (by omega) (by omega) (by omega))
    (by intro y hy; simp only [List.mem_map, List.mem_range] at hy; obtain ⟨j, hj, rfl⟩ := hy; omega)]
  have : p.1 + 2 - (p.1 - 1) = 3 := by omega
  rw [this]
  have e : p.1 - 1 + 1 = p.1 := by omega
  have e' : p.1 - 1 + 2 = p.1 + 1 := by omega
  simp [List.range_succ, cv, e, e']

theorem hslice_closed {p : Nat × Nat} (hp : OnB pb p) (hv : 0 < p.2 ∧ p.2 + 1 < pb.width) :
    getitemV (IB pb) (.pair (.idx (p.1 : Int)) (sl (some ((p.2 : Int) - 1)) (some ((p.2 : Int) + 2))))
      = .ok (.arr1 true [cv pb.width (p.1, p.2 - 1), cv pb.width p, cv pb.width (p.1, p.2 + 1)]) := by
  unfold IB sl
  rw [C11CL.getitemV_row true Expr.bvar pb.height pb.width p.1 _ _ hp.1
    (C11CL.axisSel_range' pb.width _ _ (p.2 - 1) (p.2 + 2) (by omega) (by omega) (by omega) (by omega))
    (by intro y hy; simp only [List.mem_map, List.mem_range] at hy; obtain ⟨j, hj, rfl⟩ := hy; omega)]
  have : p.2 + 2 - (p.2 - 1) = 3 := by omega
  rw [this]
  have e : p.2 - 1 + 1 = p.2 := by omega
  have e' : p.2 - 1 + 2 = p.2 + 1 := by omega
  simp [List.range_succ, cv, e, e']

theorem t1_closed {β : Type} (i : Nat) {p : Nat × Nat} (hp : OnB pb p) (K : List ANest → Py β) :
    (if vertOK pb i p = true then do
        let s ← getitemV (IB pb) (.pair (sl (some ((p.1 : Int) - 1)) (some ((p.1 : Int) + 2))) (.idx (p.2 : Int)))
        let e ← foldAndA [.leaf s]
        let t1 ← (.ok [ANest.leaf (.scalar e)] : Py (List ANest))
        K t1
      else do
        let t1 ← (.ok [] : Py (List ANest))
        K t1) = K (if vertOK pb i p then [ANest.leaf (.scalar (vE pb.width p))] else []) := by
  by_cases hv : vertOK pb i p = true
  · rw [if_pos hv, if_pos hv]
    have hv' : 0 < p.1 ∧ p.1 + 1 < pb.height := by
      simp only [vertOK, Bool.and_eq_true, decide_eq_true_eq] at hv
      exact hv.1
    rw [vslice_closed hp hv', ok_bind, foldAndA_arr1]
    rfl
  · rw [if_neg hv, if_neg hv]; rfl

theorem t2_closed {β : Type} (i : Nat) {p : Nat × Nat} (hp : OnB pb p) (K : List ANest → Py β) :
    (if horizOK pb i p = true then do
        let s ← getitemV (IB pb) (.pair (.idx (p.1 : Int)) (sl (some ((p.2 : Int) - 1)) (some ((p.2 : Int) + 2))))
        let e ← foldAndA [.leaf s]
        let t2 ← (.ok [ANest.leaf (.scalar e)] : Py (List ANest))
        K t2
      else do
        let t2 ← (.ok [] : Py (List ANest))
        K t2) = K (if horizOK pb i p then [ANest.leaf (.scalar (hE pb.width p))] else []) := by
  by_cases hv : horizOK pb i p = true
  · rw [if_pos hv, if_pos hv]
    have hv' : 0 < p.2 ∧ p.2 + 1 < pb.width := by
      simp only [horizOK, Bool.and_eq_true, decide_eq_true_eq] at hv
      exact hv.1
    rw [hslice_closed hp hv', ok_bind, foldAndA_arr1]
    rfl
  · rw [if_neg hv, if_neg hv]; rfl

theorem straight_closed {β : Type} (i : Nat) (p : Nat × Nat) (K : List Expr → Py β) :
    (if ((if vertOK pb i p then [ANest.leaf (.scalar (vE pb.width p))] else []) ++
          (if horizOK pb i p then [ANest.leaf (.scalar (hE pb.width p))] else [])).length ≥ 1 then do
        let e ← foldOrA [.items ((if vertOK pb i p then [ANest.leaf (.scalar (vE pb.width p))] else []) ++
          (if horizOK pb i p then [ANest.leaf (.scalar (hE pb.width p))] else []))]
        let straight ← (.ok [e] : Py (List Expr))
        K straight
      else do
        let straight ← (.ok [] : Py (List Expr))
        K straight) = K (straightE pb i p) := by
  unfold straightE tmpE
  cases vertOK pb i p <;> cases horizOK pb i p <;> rfl

theorem ts_closed {β : Type} (i : Nat) (p : Nat × Nat) (K : List Expr → Py β) :
    (if (sameN pb i p).length ≥ 3 then do
        let ct ← countTrueA [.items [.leaf (.arr1 true ((sameN pb i p).map (cv pb.width)))]]
        let e ← binop .ge (.scalar ct) (.scalar (.litI 3))
        let ts ← (.ok e.flat : Py (List Expr))
        K ts
      else do
        let ts ← (.ok [] : Py (List Expr))
        K ts) = K (tsE pb i p) := by
  unfold tsE
  by_cases h3 : 3 ≤ (sameN pb i p).length
  · rw [if_pos h3, if_pos h3, countTrueA_items_arr1, countTrue_ok_of_boolLike (cv_isBoolLike _ _), ok_bind]
    obtain ⟨op', args', hE', hop'⟩ := C11CL.countTrueE_isNode ((sameN pb i p).map (cv pb.width))
    rw [hE', binop_ge_node_lit _ _ _ hop']
    rfl
  · rw [if_neg h3, if_neg h3]
    rfl

theorem cellRest_closed {bid : List (List Int)}
    (hbid : Rep pb.height pb.width bid (fun y x => ((regionIdx pb (y, x) : Nat) : Int))) (i : Nat)
    {p : Nat × Nat} (hp : OnB pb p) (pairs : List Expr) :
    cellRest pb (IB pb) bid (i : Int) (castC p) ((sameN pb i p).map castC) pairs
      = .ok { cs := [nbrE pb i p], pairs := pairs, straight := straightE pb i p, ts := tsE pb i p } := by
  unfold cellRest
  simp only [castC]
  rw [getCellV hp, ok_bind, getCoordsV (fun q hq => sameN_onB hp hq), ok_bind, foldOrA_arr1,
    foldOr_boolExprs _ (cv_isBoolExpr _ _), ok_bind]
  obtain ⟨op, args, hE, hop⟩ := orE_isNode ((sameN pb i p).map (cv pb.width))
  have hthen : callM .then_ (.scalar (cv pb.width p)) [.scalar (orE ((sameN pb i p).map (cv pb.width)))]
      = .ok (.scalar (nbrE pb i p)) := by
    unfold nbrE
    rw [hE]
    exact C11CL.callM_then_bvar _ _ _ hop
  rw [hthen, ok_bind, C11CL.ensureV_scalar _ rfl, ok_bind, vert_closed hbid i hp, t1_closed i hp,
    horiz_closed hbid i hp, t2_closed i hp, straight_closed i p]
  simp only [List.length_map]
  rw [ts_closed i p]

theorem cellBody_closed {bid : List (List Int)}
    (hbid : Rep pb.height pb.width bid (fun y x => ((regionIdx pb (y, x) : Nat) : Int))) (i : Nat)
    {p : Nat × Nat} (hp : OnB pb p) :
    cellBody pb (IB pb) bid (i : Int) (castC p) = .ok (cellOutN pb i p) := by
  rw [cellBody_eq]
  simp only [fourNeighborIndices, NbArgs.cell, castC, ok_bind]
  rw [nbCandidates_eq, inner_fold hbid i hp _ _ (fun q hq => nbN_onB hp hq), ok_bind]
  simp only [List.nil_append]
  exact cellRest_closed hbid i hp _

end

/-! ### the constraints of one region -/

/-- First auxiliary id: after the cells and the `2n` rank/root variables of the connectivity encoding. -/
def base (pb : Problem) : Nat := pb.height * pb.width + 2 * (pb.height * pb.width)

/-- `num_straight[i]`, `has_t[i]`. -/
def nsV (pb : Problem) (i : Nat) : Expr := .ivar (base pb + i)
def htV (pb : Problem) (i : Nat) : Expr := .bvar (base pb + pb.blocks.length + i)

def cntE (pb : Problem) (b : List (Nat × Nat)) : Expr := .node .eq [countTrueE (b.map (cv pb.width)), .litI 4]
def pairCntE (pb : Problem) (i : Nat) (b : List (Nat × Nat)) : Expr :=
  .node .eq [countTrueE (b.flatMap (pairsE pb i)), .litI 3]
def nsE (pb : Problem) (i : Nat) (b : List (Nat × Nat)) : Expr :=
  .node .eq [nsV pb i, countTrueE (b.flatMap (straightE pb i))]
def htE (pb : Problem) (i : Nat) (b : List (Nat × Nat)) : Expr :=
  .node .iff [htV pb i, orE (b.flatMap (tsE pb i))]

/-- The constraints posted for region `i` with cells `b`. -/
def blockCsN (pb : Problem) (i : Nat) (b : List (Nat × Nat)) : List Expr :=
  [cntE pb b] ++ b.map (nbrE pb i) ++ [pairCntE pb i b] ++ [nsE pb i b] ++ [htE pb i b]

theorem pyIndex_ivars (b k i : Nat) (hi : i < k) : pyIndex (ivars b k) (i : Int) = .ok (.ivar (b + i)) :=
  C11Aquarium.pyIndex_of_getElem? _ _ _ (by simp [ivars, hi])

theorem pyIndex_bvars (b k i : Nat) (hi : i < k) : pyIndex (bvars b k) (i : Int) = .ok (.bvar (b + i)) :=
  C11Aquarium.pyIndex_of_getElem? _ _ _ (by simp [bvars, hi])

theorem countTrueA_items (l : List Expr) :
    countTrueA [.items (l.map fun e => ANest.leaf (.scalar e))] = countTrue l := by
  simp [countTrueA, ANest.flattenList, ANest.flatten, flattenList_leaves]

theorem foldOrA_items (l : List Expr) :
    foldOrA [.items (l.map fun e => ANest.leaf (.scalar e))] = foldOr l := by
  simp [foldOrA, ANest.flattenList, ANest.flatten, flattenList_leaves]

theorem pairsE_boolLike (pb : Problem) (i : Nat) (b : List (Nat × Nat)) :
    ∀ x ∈ b.flatMap (pairsE pb i), x.isBoolLike = true := by
  intro x hx
  simp only [List.mem_flatMap, pairsE, List.mem_map] at hx
  obtain ⟨_, _, _, _, rfl⟩ := hx; rfl

theorem straightE_boolLike (pb : Problem) (i : Nat) (b : List (Nat × Nat)) :
    ∀ x ∈ b.flatMap (straightE pb i), x.isBoolLike = true := by
  intro x hx
  simp only [List.mem_flatMap, straightE] at hx
  obtain ⟨p, _, hx⟩ := hx
  split at hx
  · simp at hx
  · simp at hx; subst hx; rfl

theorem tsE_boolExpr (pb : Problem) (i : Nat) (b : List (Nat × Nat)) :
    ∀ x ∈ b.flatMap (tsE pb i), x.isBoolExpr = true := by
  intro x hx
  simp only [List.mem_flatMap, tsE] at hx
  obtain ⟨p, _, hx⟩ := hx
  split at hx
  · simp at hx; subst hx; rfl
  · simp at hx

theorem flatMap_singleton_map {α β : Type} (f : α → β) : ∀ l : List α, l.flatMap (fun a => [f a]) = l.map f
  | [] => rfl
  | a :: r => by simp [List.flatMap_cons, flatMap_singleton_map f r]

theorem blockCs_closed {pb : Problem} {bid : List (List Int)}
    (hbid : Rep pb.height pb.width bid (fun y x => ((regionIdx pb (y, x) : Nat) : Int))) {i : Nat}
    (hi : i < pb.blocks.length) {b : List (Nat × Nat)} (hb : ∀ p ∈ b, OnB pb p) :
    blockCs pb (IB pb) bid (ivars (base pb) pb.blocks.length)
        (bvars (base pb + pb.blocks.length) pb.blocks.length) (b.map castC, i)
      = .ok (blockCsN pb i b) := by
  unfold blockCs
  simp only
  rw [getCoordsV hb, ok_bind, C11CL.countTrueA_arr1 _ (cv_isBoolLike _ _), ok_bind]
  obtain ⟨op0, a0, hE0, hop0⟩ := C11CL.countTrueE_isNode (b.map (cv pb.width))
  rw [hE0, C11CL.binop_eq_node_lit _ _ _ hop0, ok_bind, C11CL.ensureV_scalar _ rfl, ok_bind, ← hE0]
  rw [mapM_eq_ok_map (g := fun c => cellOutN pb i (natC c)) (by
    intro c hc
    simp only [List.mem_map] at hc
    obtain ⟨p, hp, rfl⟩ := hc
    rw [natC_castC]
    exact cellBody_closed hbid i (hb p hp)), ok_bind]
  have houts : (b.map castC).map (fun c => cellOutN pb i (natC c)) = b.map (cellOutN pb i) := by
    rw [List.map_map]; apply List.map_congr_left; intro p _; simp
  rw [houts]
  have hpairs : (b.map (cellOutN pb i)).flatMap (·.pairs) = b.flatMap (pairsE pb i) := by
    rw [List.flatMap_map]; rfl
  have hstr : (b.map (cellOutN pb i)).flatMap (·.straight) = b.flatMap (straightE pb i) := by
    rw [List.flatMap_map]; rfl
  have hts : (b.map (cellOutN pb i)).flatMap (·.ts) = b.flatMap (tsE pb i) := by
    rw [List.flatMap_map]; rfl
  have hcs : (b.map (cellOutN pb i)).flatMap (·.cs) = b.map (nbrE pb i) := by
    rw [List.flatMap_map]
    exact flatMap_singleton_map _ b
  rw [hpairs, hstr, hts, hcs]
  rw [countTrueA_items, countTrue_ok_of_boolLike (pairsE_boolLike pb i b), ok_bind]
  obtain ⟨op1, a1, hE1, hop1⟩ := C11CL.countTrueE_isNode (b.flatMap (pairsE pb i))
  rw [hE1, C11CL.binop_eq_node_lit _ _ _ hop1, ok_bind, C11CL.ensureV_scalar _ rfl, ok_bind, ← hE1]
  rw [pyIndex_ivars _ _ _ hi, ok_bind, countTrueA_items,
    countTrue_ok_of_boolLike (straightE_boolLike pb i b), ok_bind]
  obtain ⟨op2, a2, hE2, hop2⟩ := C11CL.countTrueE_isNode (b.flatMap (straightE pb i))
  rw [hE2, binop_eq_ivar_node _ _ _ hop2, ok_bind, C11CL.ensureV_scalar _ rfl, ok_bind, ← hE2]
  rw [pyIndex_bvars _ _ _ hi, ok_bind, foldOrA_items, foldOr_boolExprs _ (tsE_boolExpr pb i b), ok_bind]
  obtain ⟨op3, a3, hE3, hop3⟩ := orE_isNode (b.flatMap (tsE pb i))
  rw [hE3, binop_eq_bvar_node _ _ _ hop3, ok_bind, C11CL.ensureV_scalar _ rfl, ok_bind, ← hE3]
  rfl

/-! ### the border constraints -/

/-- `(is_black[p] & is_black[q]).then((num_straight[i] != num_straight[j]) | (has_t[i] != has_t[j]))`. -/
def borderE (pb : Problem) (p q : Nat × Nat) (i j : Nat) : Expr :=
  .node .imp [.node .and [cv pb.width p, cv pb.width q],
    .node .or [.node .ne [nsV pb i, nsV pb j], .node .xor [htV pb i, htV pb j]]]

theorem borderC_closed {pb : Problem} {p q : Nat × Nat} (hp : OnB pb p) (hq : OnB pb q) {i j : Nat}
    (hi : i < pb.blocks.length) (hj : j < pb.blocks.length) :
    borderC (IB pb) (ivars (base pb) pb.blocks.length) (bvars (base pb + pb.blocks.length) pb.blocks.length)
        ((p.1 : Int), (p.2 : Int)) ((q.1 : Int), (q.2 : Int)) (i : Int) (j : Int)
      = .ok [borderE pb p q i j] := by
  unfold borderC
  simp only
  rw [getCellV hp, ok_bind, getCellV hq, ok_bind, pyIndex_ivars _ _ _ hi, pyIndex_ivars _ _ _ hj,
    pyIndex_bvars _ _ _ hi, pyIndex_bvars _ _ _ hj]
  rfl

/-- The constraint for the cell below / to the right of `p` when it lies in another region. -/
def downE (pb : Problem) (p : Nat × Nat) : List Expr :=
  if p.1 + 1 < pb.height ∧ regionIdx pb p ≠ regionIdx pb (p.1 + 1, p.2) then
    [borderE pb p (p.1 + 1, p.2) (regionIdx pb p) (regionIdx pb (p.1 + 1, p.2))] else []

def rightE (pb : Problem) (p : Nat × Nat) : List Expr :=
  if p.2 + 1 < pb.width ∧ regionIdx pb p ≠ regionIdx pb (p.1, p.2 + 1) then
    [borderE pb p (p.1, p.2 + 1) (regionIdx pb p) (regionIdx pb (p.1, p.2 + 1))] else []

theorem natCast_bne (a b : Nat) : (((a : Nat) : Int) != ((b : Nat) : Int)) = (a != b) := by
  simp [bne, natCast_beq]

/-- The first `if` of the body of the final double loop. -/
def downM (pb : Problem) (bid : List (List Int)) (ns ht : List Expr) (p : Nat × Nat) : Py (List Expr) :=
  if (p.1 : Int) < (pb.height : Int) - 1 then do
    let i ← tableGet bid (p.1 : Int) (p.2 : Int)
    let j ← tableGet bid ((p.1 : Int) + 1) (p.2 : Int)
    if i != j then (borderC (IB pb) ns ht ((p.1 : Int), (p.2 : Int)) ((p.1 : Int) + 1, (p.2 : Int)) i j)
    else (.ok [])
  else .ok []

/-- The second `if`. -/
def rightM (pb : Problem) (bid : List (List Int)) (ns ht : List Expr) (p : Nat × Nat) : Py (List Expr) :=
  if (p.2 : Int) < (pb.width : Int) - 1 then do
    let i ← tableGet bid (p.1 : Int) (p.2 : Int)
    let j ← tableGet bid (p.1 : Int) ((p.2 : Int) + 1)
    if i != j then (borderC (IB pb) ns ht ((p.1 : Int), (p.2 : Int)) ((p.1 : Int), (p.2 : Int) + 1) i j)
    else (.ok [])
  else .ok []

theorem ite_bind_py {α β : Type} (c : Prop) [Decidable c] (a b : Py α) (f : α → Py β) :
    ((if c then a else b) >>= f) = if c then a >>= f else b >>= f := by
  split <;> rfl

theorem adjCs_eq (pb : Problem) (bid : List (List Int)) (ns ht : List Expr) (p : Nat × Nat) :
    adjCs pb (IB pb) bid ns ht p = (do
      let c1 ← downM pb bid ns ht p
      let c2 ← rightM pb bid ns ht p
      .ok (c1 ++ c2)) := by
  unfold adjCs downM rightM
  simp only [ite_bind_py, bind_assoc, ok_bind]

theorem adjCs_closed {pb : Problem} (hwf : WellFormed pb) {bid : List (List Int)}
    (hbid : Rep pb.height pb.width bid (fun y x => ((regionIdx pb (y, x) : Nat) : Int)))
    {p : Nat × Nat} (hp : OnB pb p) :
    adjCs pb (IB pb) bid (ivars (base pb) pb.blocks.length)
        (bvars (base pb + pb.blocks.length) pb.blocks.length) p
      = .ok (downE pb p ++ rightE pb p) := by
  have hri := regionIdx_lt hwf hp
  have hd : downM pb bid (ivars (base pb) pb.blocks.length)
      (bvars (base pb + pb.blocks.length) pb.blocks.length) p = .ok (downE pb p) := by
    unfold downE downM
    by_cases h1 : p.1 + 1 < pb.height
    · have hq : OnB pb (p.1 + 1, p.2) := ⟨h1, hp.2⟩
      have e2 : ((p.1 : Int) + 1) = ((p.1 + 1 : Nat) : Int) := by omega
      have h2 := tableGet_region hbid hq
      simp only at h2
      rw [if_pos (by omega), tableGet_region hbid hp, ok_bind, e2, h2, ok_bind, natCast_bne]
      by_cases hne : regionIdx pb p = regionIdx pb (p.1 + 1, p.2)
      · rw [if_neg (by simp [hne]), if_neg (by simp [hne])]
      · rw [if_pos (by simpa using hne), if_pos ⟨h1, hne⟩]
        exact borderC_closed hp hq hri (regionIdx_lt hwf hq)
    · rw [if_neg (by omega), if_neg (by simp [h1])]
  have hr : rightM pb bid (ivars (base pb) pb.blocks.length)
      (bvars (base pb + pb.blocks.length) pb.blocks.length) p = .ok (rightE pb p) := by
    unfold rightE rightM
    by_cases h1 : p.2 + 1 < pb.width
    · have hq : OnB pb (p.1, p.2 + 1) := ⟨hp.1, h1⟩
      have e2 : ((p.2 : Int) + 1) = ((p.2 + 1 : Nat) : Int) := by omega
      have h2 := tableGet_region hbid hq
      simp only at h2
      rw [if_pos (by omega), tableGet_region hbid hp, ok_bind, e2, h2, ok_bind, natCast_bne]
      by_cases hne : regionIdx pb p = regionIdx pb (p.1, p.2 + 1)
      · rw [if_neg (by simp [hne]), if_neg (by simp [hne])]
      · rw [if_pos (by simpa using hne), if_pos ⟨h1, hne⟩]
        exact borderC_closed hp hq hri (regionIdx_lt hwf hq)
    · rw [if_neg (by omega), if_neg (by simp [h1])]
  rw [adjCs_eq, hd, ok_bind, hr, ok_bind]

/-! ### the 2 × 2 constraint -/

theorem cellsOf_length (a b : Nat) : (cellsOf a b).length = a * b := by
  induction a with
  | zero => simp [cellsOf]
  | succ a ih =>
    simp only [cellsOf] at ih ⊢
    rw [List.range_succ, List.flatMap_append, List.length_append, ih]
    simp [Nat.succ_mul]

theorem zipWith_map_same {α β γ δ : Type} (f : β → γ → δ) (a : α → β) (b : α → γ) (l : List α) :
    List.zipWith f (l.map a) (l.map b) = l.map fun i => f (a i) (b i) := by
  rw [List.zipWith_map, List.zipWith_self]

/-- `is_black[dy: or :-1, dx: or :-1]`. -/
theorem slice_shift (pb : Problem) (dy dx : Nat) (ky kx : AxisKey) (hdy : dy ≤ 1) (hdx : dx ≤ 1)
    (hy : axisSel pb.height ky = .ok (false, (List.range (pb.height - 1)).map (· + dy)))
    (hx : axisSel pb.width kx = .ok (false, (List.range (pb.width - 1)).map (· + dx))) :
    getitemV (IB pb) (.pair ky kx) = .ok (.arr2 true (pb.height - 1) (pb.width - 1)
      ((cellsOf (pb.height - 1) (pb.width - 1)).map fun p => cv pb.width (p.1 + dy, p.2 + dx))) := by
  unfold IB
  rw [C11CL.getitemV_slices true Expr.bvar pb.height pb.width ky kx _ _ hy hx
    (by intro y hy'; simp only [List.mem_map, List.mem_range] at hy'; obtain ⟨j, hj, rfl⟩ := hy'; omega)
    (by intro y hy'; simp only [List.mem_map, List.mem_range] at hy'; obtain ⟨j, hj, rfl⟩ := hy'; omega)]
  simp only [List.length_map, List.length_range]
  congr 2
  simp [cellsOf, List.flatMap_map, List.map_flatMap, cv, Function.comp_def]

theorem axisSel_upto' (n : Nat) :
    axisSel n (sl none (some (-1))) = .ok (false, (List.range (n - 1)).map (· + 0)) := by
  rw [sl, C11CL.axisSel_upto]; simp

theorem axisSel_from1' (n : Nat) :
    axisSel n (sl (some 1) none) = .ok (false, (List.range (n - 1)).map (· + 1)) := by
  rw [sl, C11CL.axisSel_from1]

/-- `~(is_black[1:, 1:] & is_black[1:, :-1] & is_black[:-1, 1:] & is_black[:-1, :-1])`, one block. -/
def sqE (w : Nat) (p : Nat × Nat) : Expr :=
  .node .not [.node .and [.node .and [.node .and [cv w (p.1 + 1, p.2 + 1), cv w (p.1 + 1, p.2 + 0)],
    cv w (p.1 + 0, p.2 + 1)], cv w (p.1 + 0, p.2 + 0)]]

def sqCs (pb : Problem) : List Expr := (cellsOf (pb.height - 1) (pb.width - 1)).map (sqE pb.width)

/-! ### the posted program in closed form -/

/-- The connectivity fragment. -/
def avc (pb : Problem) : Prog :=
  C04L1.avcProg (Graph.grid pb.height pb.width) (bvars 0 (pb.height * pb.width)) (pb.height * pb.width) false

theorem grid_pos {pb : Problem} (hwf : WellFormed pb) : 0 < (Graph.grid pb.height pb.width).n :=
  Nat.mul_pos hwf.1 hwf.2.1

theorem avc_eq {pb : Problem} (hwf : WellFormed pb) :
    activeVerticesConnected (Graph.grid pb.height pb.width) (bvars 0 (pb.height * pb.width))
      (pb.height * pb.width) false false = .ok (avc pb) :=
  C04L1.avc_eq_prog (grid_pos hwf) (C04Prim.grid_wf _ _) (by simp [bvars, Graph.grid])
    (C11FragWT.bvars_boolArgs _)

theorem avc_decls_length (pb : Problem) : (avc pb).decls.length = 2 * (pb.height * pb.width) := by
  simp [avc, C04L1.avcProg, Graph.grid]; omega

/-- All region constraints. -/
def regionCs (pb : Problem) : List Expr :=
  (pb.blocks.zipIdx.map fun bi => blockCsN pb bi.2 (cellsN bi.1)).flatten

/-- All border constraints. -/
def borderCs (pb : Problem) : List Expr :=
  ((cellsOf pb.height pb.width).map fun p => downE pb p ++ rightE pb p).flatten

theorem mem_cellsOf {h w : Nat} {p : Nat × Nat} : p ∈ cellsOf h w ↔ p.1 < h ∧ p.2 < w := by
  simp only [cellsOf, List.mem_flatMap, List.mem_range, List.mem_map]
  constructor
  · rintro ⟨y, hy, x, hx, rfl⟩; exact ⟨hy, hx⟩
  · rintro ⟨hy, hx⟩; exact ⟨p.1, hy, p.2, hx, rfl⟩

theorem program_eq {pb : Problem} (hwf : WellFormed pb) :
    program pb = .ok
      { decls := List.replicate (pb.height * pb.width) .bool ++ (avc pb).decls ++
          List.replicate pb.blocks.length (.int 0 2) ++ List.replicate pb.blocks.length .bool,
        cs := (avc pb).cs ++ sqCs pb ++ regionCs pb ++ borderCs pb,
        keys := List.range (pb.height * pb.width) } := by
  obtain ⟨bid, hbid, hrep⟩ := blockId_wf hwf
  unfold program programWith
  simp only
  rw [C11Grid.addKeys_bvars, ok_bind, avc_eq hwf, ok_bind, IB_eq]
  rw [slice_shift pb 1 1 _ _ (by omega) (by omega) (axisSel_from1' _) (axisSel_from1' _), ok_bind,
    slice_shift pb 1 0 _ _ (by omega) (by omega) (axisSel_from1' _) (axisSel_upto' _), ok_bind,
    slice_shift pb 0 1 _ _ (by omega) (by omega) (axisSel_upto' _) (axisSel_from1' _), ok_bind,
    slice_shift pb 0 0 _ _ (by omega) (by omega) (axisSel_upto' _) (axisSel_upto' _), ok_bind]
  rw [C11CL.binop_bool_arr2 .and_ .and (Or.inl ⟨rfl, rfl⟩) _ _ _ _ (by simp [cellsOf_length])
    (by simp [cellsOf_length]), ok_bind, zipWith_map_same]
  rw [C11CL.binop_bool_arr2 .and_ .and (Or.inl ⟨rfl, rfl⟩) _ _ _ _ (by simp [cellsOf_length])
    (by simp [cellsOf_length]), ok_bind, zipWith_map_same]
  rw [C11CL.binop_bool_arr2 .and_ .and (Or.inl ⟨rfl, rfl⟩) _ _ _ _ (by simp [cellsOf_length])
    (by simp [cellsOf_length]), ok_bind, zipWith_map_same]
  rw [C11CL.unop_invert_arr2 _ _ _ (by simp [cellsOf_length]), ok_bind]
  rw [C11CL.ensureV_arr2 _ _ _ _ (by
    intro e he
    simp only [List.mem_map] at he
    obtain ⟨_, ⟨_, _, rfl⟩, rfl⟩ := he
    rfl), ok_bind, hbid, ok_bind]
  have hnsd : intArrayDecls pb.blocks.length 0 2 = .ok (List.replicate pb.blocks.length (.int 0 2)) := by
    simp [intArrayDecls]
  rw [hnsd, ok_bind, avc_decls_length]
  have hbase : pb.height * pb.width + 2 * (pb.height * pb.width) = base pb := rfl
  rw [hbase]
  rw [mapM_eq_ok_map (g := fun bi : List (Int × Int) × Nat => blockCsN pb bi.2 (cellsN bi.1)) (by
    rintro ⟨b, i⟩ hbi
    obtain ⟨hi, hbe⟩ := List.mem_zipIdx_iff_getElem?.1 hbi |> fun h => (List.getElem?_eq_some_iff.1 (by simpa using h))
    have hbm : b ∈ pb.blocks := by rw [← hbe]; exact List.getElem_mem _
    have hob := wf_onBoard hwf hbm
    have := blockCs_closed hrep hi (b := cellsN b) (fun p hp => cellsN_onB hob hp)
    rw [map_castC_cellsN hob] at this
    exact this), ok_bind]
  rw [mapM_eq_ok_map (g := fun p : Nat × Nat => downE pb p ++ rightE pb p) (by
    intro p hp
    exact adjCs_closed hwf hrep (mem_cellsOf.1 hp)), ok_bind]
  simp only [sqCs, regionCs, borderCs, List.map_map, Function.comp_def, List.append_assoc]
  rfl

theorem total (pb : Problem) (hwf : WellFormed pb) : ∃ P, program pb = .ok P := ⟨_, program_eq hwf⟩

end Cspuz.Proofs.C11LitsP
