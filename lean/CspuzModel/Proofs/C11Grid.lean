/-
  C11 — generic lemmas for puzzle solvers whose program has NO auxiliary variables: one Boolean (or one
  bounded integer) variable per cell, allocated row-major, all of them answer keys.  The program then encodes
  the rules as soon as its constraints, read on the grid, are equivalent to the rules.
-/
import CspuzModel.Spec.C11Spec
import CspuzModel.Spec.PuzzleRules.GridAnswer
import CspuzModel.Model.Puzzles.CLUtil
import CspuzModel.Proofs.EvalLemmas
namespace Cspuz.Proofs.C11Grid
open Cspuz Cspuz.Spec Cspuz.Puzzles Cspuz.Proofs

/-- Row-major enumeration by position. -/
theorem flatMap_range_eq {α : Type} (f : Nat → Nat → α) (h w : Nat) :
    ((List.range h).flatMap fun y => (List.range w).map fun x => f y x)
      = (List.range (h * w)).map fun i => f (i / w) (i % w) := by
  induction h with
  | zero => simp
  | succ h ih =>
    rw [List.range_succ, List.flatMap_append, ih, Nat.succ_mul, List.range_add, List.map_append]
    congr 1
    simp only [List.flatMap_cons, List.flatMap_nil, List.append_nil, List.map_map]
    apply List.map_congr_left
    intro x hx
    have hx' : x < w := List.mem_range.mp hx
    have hw : 0 < w := by omega
    simp only [Function.comp]
    rw [Nat.mul_comm h w, Nat.mul_add_div hw, Nat.div_eq_of_lt hx', Nat.mul_add_mod, Nat.mod_eq_of_lt hx']
    simp

theorem cell_lt {h w y x : Nat} (hy : y < h) (hx : x < w) : y * w + x < h * w := by
  have : y * w + w ≤ h * w := by
    rw [← Nat.succ_mul]; exact Nat.mul_le_mul_right w hy
  omega

theorem div_lt_of_lt_mul {h w i : Nat} (hi : i < h * w) : i / w < h ∧ i % w < w := by
  have hw : 0 < w := by
    rcases Nat.eq_zero_or_pos w with h0 | h0
    · subst h0; simp at hi
    · exact h0
  refine ⟨?_, Nat.mod_lt _ hw⟩
  rw [Nat.div_lt_iff_lt_mul hw]; exact hi

theorem cell_div_mod {w y x : Nat} (hx : x < w) : (y * w + x) / w = y ∧ (y * w + x) % w = x := by
  have hw : 0 < w := by omega
  constructor
  · rw [Nat.mul_comm, Nat.mul_add_div hw, Nat.div_eq_of_lt hx]; simp
  · rw [Nat.mul_comm, Nat.mul_add_mod, Nat.mod_eq_of_lt hx]

/-- `solver.add_answer_key(array)` on an array of `n` fresh variables `id₀ … id₀+n-1`: the key list. -/
theorem addKeys_fresh (v : PyV) (n : Nat) (mk : Nat → Expr) (hmk : ∀ i, isVarExpr (mk i) = some i)
    (hv : v.flat = (List.range n).map mk) :
    addKeysV v [] = .ok (List.range n) := by
  unfold addKeysV
  rw [hv]
  suffices h : ∀ m, m ≤ n → ((List.range m).map mk).foldlM (fun (acc : List Nat) (x : Expr) =>
      match isVarExpr x with
      | none => (Except.error PyErr.typeError : Py (List Nat))
      | some id => if acc.contains id then .error .valueError else .ok (acc ++ [id])) [] = .ok (List.range m) from h n (Nat.le_refl n)
  intro m
  induction m with
  | zero => intro _; rfl
  | succ m ih =>
    intro hm
    rw [List.range_succ, List.map_append, List.foldlM_append, ih (by omega)]
    simp only [List.map_cons, List.map_nil, List.foldlM_cons, List.foldlM_nil, ok_bind, hmk]
    have : (List.range m).contains m = false := by
      simp
    rw [this]; rfl

theorem isVarExpr_bvar (i : Nat) : isVarExpr (.bvar i) = some i := rfl
theorem isVarExpr_ivar (i : Nat) : isVarExpr (.ivar i) = some i := rfl

theorem addKeys_bvars (h w : Nat) :
    addKeysV (.arr2 true h w (bvars 0 (h * w))) [] = .ok (List.range (h * w)) :=
  addKeys_fresh _ (h * w) Expr.bvar isVarExpr_bvar (by simp [PyV.flat, bvars])

theorem addKeys_ivars (h w : Nat) :
    addKeysV (.arr2 false h w (ivars 0 (h * w))) [] = .ok (List.range (h * w)) :=
  addKeys_fresh _ (h * w) Expr.ivar isVarExpr_ivar (by simp [PyV.flat, ivars])

/-- Keys `0 … n-1` over `n` declarations. -/
theorem keysOk_range (n : Nat) (decls : List VarDecl) (cs : List Expr) (hd : decls.length = n) :
    (PuzzleProg.mk decls cs (List.range n)).KeysOk := by
  refine ⟨List.nodup_range, ?_⟩
  intro k hk
  simp only [List.mem_range] at hk
  simp only [hd]; exact hk

/-- A program over one Boolean variable per cell and no other variable encodes the rules `G` (a predicate on
grids, which may only look at the cells of the board) as soon as, under every assignment, its constraints
hold iff `G` holds of (any grid agreeing on the board with) the assignment read as a grid. -/
theorem encodes_bool_grid (h w : Nat) (cs : List Expr) (G : (Nat → Nat → Bool) → Prop)
    (hcs : ∀ (σ : Asg) (g : Nat → Nat → Bool), (∀ y, y < h → ∀ x, x < w → g y x = σ.b (y * w + x)) →
      ((∀ c ∈ cs, eval σ c = some (.b true)) ↔ G g)) :
    EncodesRules { decls := List.replicate (h * w) .bool, cs := cs, keys := List.range (h * w) }
      (fun a => ∃ g, a = boolGrid h w g ∧ G g) := by
  intro a
  have hval : ∀ (σ : Asg) (i : Nat), i < h * w →
      valOf (List.replicate (h * w) VarDecl.bool) σ i = some (.b (σ.b i)) := by
    intro σ i hi
    unfold valOf
    rw [List.getElem?_replicate, if_pos hi]
  constructor
  · rintro ⟨σ, hσ, hk⟩
    refine ⟨fun y x => σ.b (y * w + x), ?_, ?_⟩
    · have : (List.range (h * w)).map (valOf (List.replicate (h * w) VarDecl.bool) σ)
          = (boolGrid h w fun y x => σ.b (y * w + x)).map some := by
        unfold boolGrid
        rw [flatMap_range_eq (fun y x => Val.b (σ.b (y * w + x))), List.map_map]
        apply List.map_congr_left
        intro i hi
        have hi' := List.mem_range.mp hi
        rw [hval σ i hi']
        simp only [Function.comp]
        have hw : 0 < w := by
          rcases Nat.eq_zero_or_pos w with h0 | h0
          · subst h0; simp at hi'
          · exact h0
        rw [Nat.div_add_mod' i w]
      have hk' : (boolGrid h w fun y x => σ.b (y * w + x)).map some = a.map some := by
        rw [← this]; exact hk
      exact ((List.map_inj_right (fun _ _ e => Option.some.inj e)).mp hk').symm
    · exact (hcs σ _ (fun _ _ _ _ => rfl)).1 hσ.2
  · rintro ⟨g, rfl, hg⟩
    let σ : Asg := { b := fun i => g (i / w) (i % w), i := fun _ => 0 }
    have hag : ∀ y, y < h → ∀ x, x < w → g y x = σ.b (y * w + x) := by
      intro y _ x hx
      show g y x = g ((y * w + x) / w) ((y * w + x) % w)
      rw [(cell_div_mod hx).1, (cell_div_mod hx).2]
    refine ⟨σ, ⟨?_, (hcs σ g hag).2 hg⟩, ?_⟩
    · intro id lo hi hd
      rw [List.getElem?_replicate] at hd
      split at hd <;> simp at hd
    · show (List.range (h * w)).map (valOf (List.replicate (h * w) VarDecl.bool) σ) = (boolGrid h w g).map some
      unfold boolGrid
      rw [flatMap_range_eq (fun y x => Val.b (g y x)), List.map_map]
      apply List.map_congr_left
      intro i hi
      rw [hval σ i (List.mem_range.mp hi)]
      rfl

/-- The integer analogue: one variable with bounds `lo … hi` per cell. -/
theorem encodes_int_grid (h w : Nat) (lo hi : Int) (cs : List Expr) (G : (Nat → Nat → Int) → Prop)
    (hcs : ∀ (σ : Asg) (g : Nat → Nat → Int), (∀ y, y < h → ∀ x, x < w → g y x = σ.i (y * w + x)) →
      (((∀ y, y < h → ∀ x, x < w → lo ≤ g y x ∧ g y x ≤ hi) ∧ ∀ c ∈ cs, eval σ c = some (.b true)) ↔ G g)) :
    EncodesRules { decls := List.replicate (h * w) (.int lo hi), cs := cs, keys := List.range (h * w) }
      (fun a => ∃ g, a = intGrid h w g ∧ G g) := by
  intro a
  have hval : ∀ (σ : Asg) (i : Nat), i < h * w →
      valOf (List.replicate (h * w) (VarDecl.int lo hi)) σ i = some (.i (σ.i i)) := by
    intro σ i hi
    unfold valOf
    rw [List.getElem?_replicate, if_pos hi]
  have hresp : ∀ (σ : Asg), σ.respects (List.replicate (h * w) (VarDecl.int lo hi)) ↔
      ∀ y, y < h → ∀ x, x < w → lo ≤ σ.i (y * w + x) ∧ σ.i (y * w + x) ≤ hi := by
    intro σ
    constructor
    · intro hr y hy x hx
      apply hr (y * w + x) lo hi
      rw [List.getElem?_replicate, if_pos (cell_lt hy hx)]
    · intro hb id lo' hi' hd
      rw [List.getElem?_replicate] at hd
      split at hd
      · next hlt =>
        simp only [Option.some.injEq, VarDecl.int.injEq] at hd
        obtain ⟨rfl, rfl⟩ := hd
        have hdm := div_lt_of_lt_mul hlt
        have := hb (id / w) hdm.1 (id % w) hdm.2
        rwa [Nat.div_add_mod' id w] at this
      · simp at hd
  constructor
  · rintro ⟨σ, hσ, hk⟩
    refine ⟨fun y x => σ.i (y * w + x), ?_, ?_⟩
    · have : (List.range (h * w)).map (valOf (List.replicate (h * w) (VarDecl.int lo hi)) σ)
          = (intGrid h w fun y x => σ.i (y * w + x)).map some := by
        unfold intGrid
        rw [flatMap_range_eq (fun y x => Val.i (σ.i (y * w + x))), List.map_map]
        apply List.map_congr_left
        intro i hi
        have hi' := List.mem_range.mp hi
        rw [hval σ i hi']
        simp only [Function.comp]
        rw [Nat.div_add_mod' i w]
      have hk' : (intGrid h w fun y x => σ.i (y * w + x)).map some = a.map some := by
        rw [← this]; exact hk
      exact ((List.map_inj_right (fun _ _ e => Option.some.inj e)).mp hk').symm
    · exact (hcs σ _ (fun _ _ _ _ => rfl)).1 ⟨(hresp σ).1 hσ.1, hσ.2⟩
  · rintro ⟨g, rfl, hg⟩
    let σ : Asg := { b := fun _ => false, i := fun i => g (i / w) (i % w) }
    have hag : ∀ y, y < h → ∀ x, x < w → g y x = σ.i (y * w + x) := by
      intro y _ x hx
      show g y x = g ((y * w + x) / w) ((y * w + x) % w)
      rw [(cell_div_mod hx).1, (cell_div_mod hx).2]
    have hboth := (hcs σ g hag).2 hg
    refine ⟨σ, ⟨(hresp σ).2 ?_, hboth.2⟩, ?_⟩
    · intro y hy x hx
      rw [← hag y hy x hx]; exact hboth.1 y hy x hx
    · show (List.range (h * w)).map (valOf (List.replicate (h * w) (VarDecl.int lo hi)) σ) = (intGrid h w g).map some
      unfold intGrid
      rw [flatMap_range_eq (fun y x => Val.i (g y x)), List.map_map]
      apply List.map_congr_left
      intro i hi
      rw [hval σ i (List.mem_range.mp hi)]
      rfl

end Cspuz.Proofs.C11Grid
