/-
  C11 for `solve_slalom`, part 3: what the constraints posted after the cycle constraint say about a model.
-/
import CspuzModel.Proofs.C11SlalomP
namespace Cspuz.Proofs.C11SlalomS
open Cspuz Cspuz.Spec Cspuz.Spec.FrameGeom Cspuz.Spec.Loop Cspuz.Proofs Cspuz.Proofs.C11Loop
open Cspuz.Puzzles Cspuz.Puzzles.Loop Cspuz.Puzzles.Slalom Cspuz.Spec.Slalom Cspuz.Proofs.C11SlalomP

theorem eval_countTrueE_map {ι : Type} (σ : Asg) (l : List ι) (f : ι → Expr) (g : ι → Bool)
    (h : ∀ x ∈ l, eval σ (f x) = some (.b (g x))) :
    eval σ (countTrueE (l.map f)) = some (.i ((l.countP g : Nat) : Int)) := by
  rw [eval_countTrueE (l.map g) (by
    rw [List.map_map, List.map_map]
    apply List.map_congr_left
    intro x hx
    simp [h x hx])]
  rw [List.count_eq_countP, List.countP_map]
  congr 4
  funext x; simp

section
variable (pb : Problem) (σ : Asg)

local notation "HH" => pb.height - 1
local notation "WW" => pb.width - 1
local notation "NV" => Frame.numVars (pb.height - 1) (pb.width - 1)

/-- the step `s` is drawn (`loop`). -/
def onS (s : Seg) : Bool := σ.b (s.var 0 HH WW)
/-- the direction bit of the step `s` (`loop_dir`). -/
def dirS (s : Seg) : Bool := σ.b (s.var NV HH WW)
/-- `passed[p]` -/
def pasS (p : Pt) : Bool := σ.b (b1 pb + pb.height * pb.width + (p.1 * pb.width + p.2))
/-- `gate_ord[p]` -/
def ordS (p : Pt) : Int := σ.i (b1 pb + (p.1 * pb.width + p.2))
/-- the step to the neighbour `i` is drawn and directed from the neighbour to the cell. -/
def inb (i : Pt × Seg × Bool) : Bool := onS pb σ i.2.1 && (dirS pb σ i.2.1 != i.2.2)
/-- the step to the neighbour `i` is drawn and directed from the cell to the neighbour. -/
def outb (i : Pt × Seg × Bool) : Bool := onS pb σ i.2.1 && (dirS pb σ i.2.1 == i.2.2)

theorem onS_eq : onS pb σ = onOf HH WW σ := rfl

theorem eval_pasV (p : Pt) : eval σ (pasV pb p) = some (.b (pasS pb σ p)) := by
  simp [pasV, pasE, pasS]

theorem eval_ordE (p : Pt) : eval σ (ordE pb p) = some (.i (ordS pb σ p)) := by
  simp [ordE, ordS]

theorem eval_dirTermE_in (i : Pt × Seg × Bool) : eval σ (dirTermE pb true i) = some (.b (inb pb σ i)) := by
  simp [dirTermE, evalOp, allBools, inb, onS, dirS]

theorem eval_dirTermE_out (i : Pt × Seg × Bool) : eval σ (dirTermE pb false i) = some (.b (outb pb σ i)) := by
  simp [dirTermE, evalOp, allBools, outb, onS, dirS]

theorem eval_degC_in (p : Pt) :
    eval σ (degC pb true p) = some (.b true) ↔
      (nbInfo pb.height pb.width p.1 p.2).countP (inb pb σ) = if pasS pb σ p = true then 1 else 0 := by
  unfold degC
  rw [eval_node]
  simp only [List.map_cons, List.map_nil]
  rw [eval_countTrueE_map σ _ _ (inb pb σ) (fun i _ => eval_dirTermE_in pb σ i)]
  rw [eval_ite (eval_pasV pb σ p) (eval_litI σ 1) (eval_litI σ 0), evalOp_cmp rfl, cmpOp_eq]
  cases pasS pb σ p <;> simp

theorem eval_degC_out (p : Pt) :
    eval σ (degC pb false p) = some (.b true) ↔
      (nbInfo pb.height pb.width p.1 p.2).countP (outb pb σ) = if pasS pb σ p = true then 1 else 0 := by
  unfold degC
  rw [eval_node]
  simp only [List.map_cons, List.map_nil]
  rw [eval_countTrueE_map σ _ _ (outb pb σ) (fun i _ => eval_dirTermE_out pb σ i)]
  rw [eval_ite (eval_pasV pb σ p) (eval_litI σ 1) (eval_litI σ 0), evalOp_cmp rfl, cmpOp_eq]
  cases pasS pb σ p <;> simp

theorem eval_gateE (g : Gate) :
    eval σ (gateE pb.width (b1 pb + pb.height * pb.width) g) = some (.b true) ↔
      (gateCellsN g).countP (pasS pb σ) = 1 := by
  unfold gateE
  rw [eval_node]
  simp only [List.map_cons, List.map_nil]
  rw [eval_countTrueE_map σ _ (pasE pb.width (b1 pb + pb.height * pb.width)) (pasS pb σ)
    (fun p _ => eval_pasV pb σ p), eval_litI, evalOp_cmp rfl, cmpOp_eq]
  simp

/-- the cell `p` is on some gate (as the solver's table `gate_id` sees it). -/
def onGate (p : Pt) : Bool := (gidF pb.gates p).isSome

/-- What the constraints of the double loop say about the cell `p`. -/
structure CellOK (p : Pt) : Prop where
  indeg : (nbInfo pb.height pb.width p.1 p.2).countP (inb pb σ) = if pasS pb σ p = true then 1 else 0
  outdeg : (nbInfo pb.height pb.width p.1 p.2).countP (outb pb σ) = if pasS pb σ p = true then 1 else 0
  blk : black pb p.1 p.2 = true → pasS pb σ p = false
  step : black pb p.1 p.2 = false → p ≠ originN pb → ∀ i ∈ nbInfo pb.height pb.width p.1 p.2, inb pb σ i = true →
    ordS pb σ i.1 = ordS pb σ p - (if onGate pb p = true then 1 else 0)
  num : black pb p.1 p.2 = false → p ≠ originN pb → ∀ n, gidF pb.gates p = some n → 1 ≤ n → pasS pb σ p = true →
    ordS pb σ p = n

theorem eval_imp_iff {a b : Expr} {x y : Bool} (ha : eval σ a = some (.b x)) (hb : eval σ b = some (.b y)) :
    eval σ (.node .imp [a, b]) = some (.b true) ↔ (x = true → y = true) := by
  rw [eval_node]
  simp only [List.map_cons, List.map_nil, ha, hb, evalOp_imp]
  cases x <;> cases y <;> simp

theorem eval_eq_iff {a b : Expr} {x y : Int} (ha : eval σ a = some (.i x)) (hb : eval σ b = some (.i y)) :
    eval σ (.node .eq [a, b]) = some (.b (decide (x = y))) := by
  rw [eval_cmp rfl ha hb, cmpOp_eq]
  congr 2

theorem eval_sub1 (p : Pt) : eval σ (.node .sub [ordE pb p, .litI 1]) = some (.i (ordS pb σ p - 1)) := by
  simp [eval_ordE, evalOp, allInts]

theorem cellE_iff (p : Pt) : (∀ c ∈ cellE pb p, eval σ c = some (.b true)) ↔ CellOK pb σ p := by
  unfold cellE
  by_cases hbl : black pb p.1 p.2 = true
  · rw [if_pos hbl]
    simp only [List.mem_cons, List.not_mem_nil, or_false, forall_eq_or_imp, forall_eq]
    rw [eval_degC_in, eval_degC_out, eval_not (eval_pasV pb σ p)]
    constructor
    · rintro ⟨h1, h2, h3⟩
      refine ⟨h1, h2, fun _ => by simpa using h3, fun h => ?_, fun h => ?_⟩
      · rw [hbl] at h; cases h
      · rw [hbl] at h; cases h
    · intro h
      exact ⟨h.indeg, h.outdeg, by rw [h.blk hbl]; rfl⟩
  · rw [if_neg hbl]
    have hbl' : black pb p.1 p.2 = false := by simpa using hbl
    by_cases hor : p = originN pb
    · rw [if_pos hor]
      simp only [List.mem_cons, List.not_mem_nil, or_false, forall_eq_or_imp, forall_eq]
      rw [eval_degC_in, eval_degC_out]
      constructor
      · rintro ⟨h1, h2⟩
        exact ⟨h1, h2, fun h => absurd h hbl, fun _ h => absurd hor h, fun _ h => absurd hor h⟩
      · intro h
        exact ⟨h.indeg, h.outdeg⟩
    · rw [if_neg hor]
      cases hgd : gidF pb.gates p with
      | none =>
        simp only [List.mem_append, List.mem_cons, List.not_mem_nil, or_false, List.mem_map]
        have hog : onGate pb p = false := by unfold onGate; rw [hgd]; rfl
        constructor
        · intro h
          refine ⟨(eval_degC_in pb σ p).mp (h _ (Or.inl (Or.inl rfl))), (eval_degC_out pb σ p).mp (h _ (Or.inl (Or.inr rfl))),
            fun hb => absurd hb hbl, ?_, ?_⟩
          · intro _ _ i hi hin
            have := h _ (Or.inr ⟨i, hi, rfl⟩)
            rw [eval_imp_iff σ (eval_dirTermE_in pb σ i) (eval_eq_iff σ (eval_ordE pb σ i.1) (eval_ordE pb σ p))] at this
            have := this hin
            rw [hog]
            simpa using this
          · intro _ _ n hn
            rw [hgd] at hn; cases hn
        · intro h c hc
          rcases hc with (rfl | rfl) | ⟨i, hi, rfl⟩
          · exact (eval_degC_in pb σ p).mpr h.indeg
          · exact (eval_degC_out pb σ p).mpr h.outdeg
          · rw [eval_imp_iff σ (eval_dirTermE_in pb σ i) (eval_eq_iff σ (eval_ordE pb σ i.1) (eval_ordE pb σ p))]
            intro hin
            have := h.step hbl' hor i hi hin
            rw [hog] at this
            simpa using this
      | some n =>
        simp only [List.mem_append, List.mem_cons, List.not_mem_nil, or_false, List.mem_map]
        have hog : onGate pb p = true := by unfold onGate; rw [hgd]; rfl
        constructor
        · intro h
          refine ⟨(eval_degC_in pb σ p).mp (h _ (Or.inl (Or.inl (Or.inl rfl)))),
            (eval_degC_out pb σ p).mp (h _ (Or.inl (Or.inl (Or.inr rfl)))), fun hb => absurd hb hbl, ?_, ?_⟩
          · intro _ _ i hi hin
            have := h _ (Or.inl (Or.inr ⟨i, hi, rfl⟩))
            rw [eval_imp_iff σ (eval_dirTermE_in pb σ i) (eval_eq_iff σ (eval_ordE pb σ i.1) (eval_sub1 pb σ p))] at this
            have := this hin
            rw [hog]
            simpa using this
          · intro _ _ m hm hm1 hps
            rw [hgd] at hm
            cases hm
            have := h _ (Or.inr (by rw [if_pos hm1]; exact List.mem_singleton.mpr rfl))
            rw [eval_imp_iff σ (eval_pasV pb σ p) (eval_eq_iff σ (eval_ordE pb σ p) (eval_litI σ n))] at this
            simpa using this hps
        · intro h c hc
          rcases hc with ((rfl | rfl) | ⟨i, hi, rfl⟩) | hc
          · exact (eval_degC_in pb σ p).mpr h.indeg
          · exact (eval_degC_out pb σ p).mpr h.outdeg
          · rw [eval_imp_iff σ (eval_dirTermE_in pb σ i) (eval_eq_iff σ (eval_ordE pb σ i.1) (eval_sub1 pb σ p))]
            intro hin
            have := h.step hbl' hor i hi hin
            rw [hog] at this
            simpa using this
          · by_cases hn1 : n ≥ 1
            · rw [if_pos hn1, List.mem_singleton] at hc
              subst hc
              rw [eval_imp_iff σ (eval_pasV pb σ p) (eval_eq_iff σ (eval_ordE pb σ p) (eval_litI σ n))]
              intro hps
              simpa using h.num hbl' hor n hgd hn1 hps
            · rw [if_neg hn1] at hc; cases hc

/-- What all the constraints posted after the cycle constraint say. -/
structure Local : Prop where
  gates : ∀ g ∈ pb.gates, (gateCellsN g).countP (pasS pb σ) = 1
  origin : pasS pb σ (originN pb) = true
  cell : ∀ p, p.1 < pb.height → p.2 < pb.width → CellOK pb σ p
  aux : ∀ p q, p.1 < pb.height → p.2 < pb.width → q.1 < pb.height → q.2 < pb.width → cellLt p q = true →
    onGate pb p = true → onGate pb q = true → pasS pb σ p = true → pasS pb σ q = true → ordS pb σ p ≠ ordS pb σ q

theorem auxPairE_iff (pr : Pt × Pt) : (∀ c ∈ auxPairE pb pr, eval σ c = some (.b true)) ↔
    (cellLt pr.1 pr.2 = true → onGate pb pr.1 = true → onGate pb pr.2 = true → pasS pb σ pr.1 = true →
      pasS pb σ pr.2 = true → ordS pb σ pr.1 ≠ ordS pb σ pr.2) := by
  unfold auxPairE
  by_cases h : cellLt pr.1 pr.2 = true ∧ (gidF pb.gates pr.1).isSome = true ∧ (gidF pb.gates pr.2).isSome = true
  · rw [if_pos h]
    simp only [List.mem_singleton, forall_eq]
    have hne : eval σ (.node .ne [ordE pb pr.1, ordE pb pr.2]) = some (.b (ordS pb σ pr.1 != ordS pb σ pr.2)) := by
      rw [eval_cmp rfl (eval_ordE pb σ pr.1) (eval_ordE pb σ pr.2), cmpOp_ne]
    rw [eval_imp_iff σ (eval_and2 (eval_pasV pb σ pr.1) (eval_pasV pb σ pr.2)) hne]
    constructor
    · intro hh _ _ _ h1 h2
      have := hh (by rw [h1, h2]; rfl)
      simpa using this
    · intro hh hb
      simp only [Bool.and_eq_true] at hb
      have := hh h.1 h.2.1 h.2.2 hb.1 hb.2
      simpa using this
  · rw [if_neg h]
    simp only [List.not_mem_nil, false_imp_iff, implies_true, true_iff]
    intro h1 h2 h3
    exact absurd ⟨h1, h2, h3⟩ h

theorem extra_iff : (∀ c ∈ extra pb, eval σ c = some (.b true)) ↔ Local pb σ := by
  unfold extra
  constructor
  · intro h
    refine ⟨?_, ?_, ?_, ?_⟩
    · intro g hg
      exact (eval_gateE pb σ g).mp (h _ (by simp only [List.mem_append, List.mem_map]; exact Or.inl (Or.inl (Or.inl ⟨g, hg, rfl⟩))))
    · have := h (pasV pb (originN pb)) (by simp)
      rw [eval_pasV] at this
      simpa using this
    · intro p hy hx
      apply (cellE_iff pb σ p).mp
      intro c hc
      apply h c
      simp only [List.mem_append, List.mem_flatten, List.mem_map]
      exact Or.inl (Or.inr ⟨cellE pb p, ⟨p, mem_cellsOf.mpr ⟨hy, hx⟩, rfl⟩, hc⟩)
    · intro p q hp1 hp2 hq1 hq2
      apply (auxPairE_iff pb σ (p, q)).mp
      intro c hc
      apply h c
      simp only [List.mem_append]
      right
      unfold auxE
      simp only [List.mem_flatten, List.mem_map]
      exact ⟨auxPairE pb (p, q), ⟨(p, q), mem_cellPairs.mpr ⟨mem_cellsOf.mpr ⟨hp1, hp2⟩, mem_cellsOf.mpr ⟨hq1, hq2⟩⟩, rfl⟩, hc⟩
  · intro h c hc
    simp only [List.mem_append, List.mem_map, List.mem_singleton, List.mem_flatten] at hc
    rcases hc with ((⟨g, hg, rfl⟩ | rfl) | ⟨l, ⟨p, hp, rfl⟩, hc⟩) | hc
    · exact (eval_gateE pb σ g).mpr (h.gates g hg)
    · rw [eval_pasV, h.origin]
    · obtain ⟨hy, hx⟩ := mem_cellsOf.mp hp
      exact (cellE_iff pb σ p).mpr (h.cell p hy hx) c hc
    · unfold auxE at hc
      simp only [List.mem_flatten, List.mem_map] at hc
      obtain ⟨l, ⟨pr, hpr, rfl⟩, hc⟩ := hc
      obtain ⟨h0, h1⟩ := mem_cellPairs.mp hpr
      obtain ⟨hy0, hx0⟩ := mem_cellsOf.mp h0
      obtain ⟨hy1, hx1⟩ := mem_cellsOf.mp h1
      exact (auxPairE_iff pb σ pr).mpr (h.aux pr.1 pr.2 hy0 hx0 hy1 hx1) c hc

end

end Cspuz.Proofs.C11SlalomS
