/-
  C11 / Yin-Yang — definitions shared by the proof files.

  `solve_yinyang` posts, besides the rules, two families of auxiliary constraints:
   * `NoChecker`: no 2 × 2 block coloured like a checkerboard;
   * `RingOk`: going round the outer ring of the board (`ringCell`, the order of the `circ` list of the
     solver, `ringLen` entries) the colour changes at most twice.
  Both follow from "black connected ∧ white connected" by a planarity argument, carried out on the
  LATTICE GRAPH `lat h w g` of the colouring `g`: its vertices are the lattice points `(i, j)`,
  `0 ≤ i ≤ h`, `0 ≤ j ≤ w` (`(i, j)` is the top-left corner of cell `(i, j)`) plus one outside vertex
  `none`; two lattice points are adjacent when the unit segment between them separates two cells of the
  board of different colours; a point on the outline of the board is adjacent to the outside vertex when
  the (unique) inward segment at that point separates two cells of different colours.
-/
import Mathlib.Combinatorics.SimpleGraph.Basic
namespace Cspuz.Proofs.C11YinyangDefs

/-- no 2 × 2 block is coloured like a checkerboard -/
def NoChecker (h w : Nat) (g : Nat → Nat → Bool) : Prop :=
  ∀ y x, y + 1 < h → x + 1 < w →
    ¬ (g y x = true ∧ g (y + 1) (x + 1) = true ∧ g (y + 1) x = false ∧ g y (x + 1) = false) ∧
    ¬ (g y x = false ∧ g (y + 1) (x + 1) = false ∧ g (y + 1) x = true ∧ g y (x + 1) = true)

/-- number of entries of the list `circ` of `solve_yinyang` (`h, w ≥ 1`) -/
def ringLen (h w : Nat) : Nat := if w = 1 then 2 * h - 1 else 2 * h + 2 * w - 4

/-- the `i`-th entry of `circ`: down the left column, along the bottom row, up the right column, back
along the top row -/
def ringCell (h w i : Nat) : Nat × Nat :=
  if i < h then (i, 0)
  else if i < h + (w - 1) then (h - 1, i - h + 1)
  else if i < h + (w - 1) + (h - 1) then (h - 2 - (i - (h + (w - 1))), w - 1)
  else (0, w - 2 - (i - (h + (w - 1) + (h - 1))))

/-- the colour changes between the `i`-th entry of the ring and the next one (cyclically) -/
def ringSwitch (h w : Nat) (g : Nat → Nat → Bool) (i : Nat) : Bool :=
  g (ringCell h w i).1 (ringCell h w i).2 !=
    g (ringCell h w ((i + 1) % ringLen h w)).1 (ringCell h w ((i + 1) % ringLen h w)).2

/-- at most two colour changes round the ring -/
def RingOk (h w : Nat) (g : Nat → Nat → Bool) : Prop :=
  ((List.range (ringLen h w)).filter (ringSwitch h w g)).length ≤ 2

/-! ### the lattice graph -/

/-- the segment from the lattice point `p` to its right neighbour `(p.1, p.2 + 1)` separates the cells
`(p.1 - 1, p.2)` (above) and `(p.1, p.2)` (below) of the board, and they have different colours -/
def segR (h w : Nat) (g : Nat → Nat → Bool) (p : Nat × Nat) : Prop :=
  1 ≤ p.1 ∧ p.1 < h ∧ p.2 < w ∧ g (p.1 - 1) p.2 ≠ g p.1 p.2

/-- the segment from the lattice point `p` to its lower neighbour `(p.1 + 1, p.2)` separates the cells
`(p.1, p.2 - 1)` (left) and `(p.1, p.2)` (right) of the board, and they have different colours -/
def segD (h w : Nat) (g : Nat → Nat → Bool) (p : Nat × Nat) : Prop :=
  1 ≤ p.2 ∧ p.2 < w ∧ p.1 < h ∧ g p.1 (p.2 - 1) ≠ g p.1 p.2

/-- directed version of the adjacency of lattice points: `q` is the right or the lower neighbour of `p`
and the segment is a colour boundary -/
def seg (h w : Nat) (g : Nat → Nat → Bool) (p q : Nat × Nat) : Prop :=
  (q = (p.1, p.2 + 1) ∧ segR h w g p) ∨ (q = (p.1 + 1, p.2) ∧ segD h w g p)

/-- the lattice point `p` lies on the outline of the board (not at a corner) and its inward segment is a
colour boundary -/
def out (h w : Nat) (g : Nat → Nat → Bool) (p : Nat × Nat) : Prop :=
  (p.2 = 0 ∧ segR h w g p) ∨ (p.2 = w ∧ 1 ≤ p.2 ∧ segR h w g (p.1, p.2 - 1)) ∨
  (p.1 = 0 ∧ segD h w g p) ∨ (p.1 = h ∧ 1 ≤ p.1 ∧ segD h w g (p.1 - 1, p.2))

/-- the lattice graph of the colouring `g` -/
def lat (h w : Nat) (g : Nat → Nat → Bool) : SimpleGraph (Option (Nat × Nat)) where
  Adj a b :=
    match a, b with
    | some p, some q => seg h w g p q ∨ seg h w g q p
    | some p, none => out h w g p
    | none, some q => out h w g q
    | none, none => False
  symm := ⟨by
    intro a b hab
    match a, b, hab with
    | some p, some q, hh => exact hh.symm
    | some _, none, hh => exact hh
    | none, some _, hh => exact hh⟩
  loopless := ⟨by
    intro a ha
    match a, ha with
    | some p, hh =>
      rcases hh with (⟨e, _⟩ | ⟨e, _⟩) | (⟨e, _⟩ | ⟨e, _⟩) <;>
        · have := congrArg Prod.fst e; have := congrArg Prod.snd e; simp at *⟩

/-- every vertex of the lattice graph has at most two neighbours -/
def DegLeTwo (h w : Nat) (g : Nat → Nat → Bool) : Prop :=
  ∀ v a b c, (lat h w g).Adj v a → (lat h w g).Adj v b → (lat h w g).Adj v c → a = b ∨ a = c ∨ b = c

end Cspuz.Proofs.C11YinyangDefs
