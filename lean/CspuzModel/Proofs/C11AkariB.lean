/-
  C11 / akari, part B — closed form of the two loop bodies and of the whole posted program on a well-formed
  problem; what the posted constraints say about an assignment.
-/
import CspuzModel.Proofs.C11AkariA
namespace Cspuz.Proofs.C11AkariB
open Cspuz Cspuz.Spec Cspuz.Puzzles Cspuz.Puzzles.Akari Cspuz.Spec.Akari Cspuz.Proofs Cspuz.Proofs.C11AkariA

theorem mem_cellsOf {h w : Nat} {p : Nat × Nat} : p ∈ cellsOf h w ↔ p.1 < h ∧ p.2 < w := by
  simp only [cellsOf, List.mem_flatMap, List.mem_range, List.mem_map]
  constructor
  · rintro ⟨y, hy, x, hx, rfl⟩; exact ⟨hy, hx⟩
  · rintro ⟨hy, hx⟩; exact ⟨p.1, hy, p.2, hx, rfl⟩

/-! ### In-board facts for the candidate lists -/

theorem downFrom_inB (pb : Problem) {y x : Nat} (hx : x < pb.width) : ∀ q ∈ downFrom pb y x, InB pb q := by
  intro q hq
  simp only [downFrom, List.mem_map, List.mem_range'_1] at hq
  obtain ⟨y2, hy2, rfl⟩ := hq
  exact ⟨by show y2 < pb.height; omega, hx⟩

theorem rightFrom_inB (pb : Problem) {y x : Nat} (hy : y < pb.height) : ∀ q ∈ rightFrom pb y x, InB pb q := by
  intro q hq
  simp only [rightFrom, List.mem_map, List.mem_range'_1] at hq
  obtain ⟨x2, hx2, rfl⟩ := hq
  exact ⟨hy, by show x2 < pb.width; omega⟩

theorem upOf_inB (pb : Problem) {y x : Nat} (hy : y < pb.height) (hx : x < pb.width) : ∀ q ∈ upOf y x, InB pb q := by
  intro q hq
  simp only [upOf, List.mem_map, List.mem_reverse, List.mem_range] at hq
  obtain ⟨y2, hy2, rfl⟩ := hq
  exact ⟨by show y2 < pb.height; omega, hx⟩

theorem leftOf_inB (pb : Problem) {y x : Nat} (hy : y < pb.height) (hx : x < pb.width) : ∀ q ∈ leftOf y x, InB pb q := by
  intro q hq
  simp only [leftOf, List.mem_map, List.mem_reverse, List.mem_range] at hq
  obtain ⟨x2, hx2, rfl⟩ := hq
  exact ⟨hy, by show x2 < pb.width; omega⟩

theorem downOf_inB (pb : Problem) {y x : Nat} (hx : x < pb.width) : ∀ q ∈ downOf pb y x, InB pb q := by
  intro q hq
  simp only [downOf, List.mem_map, List.mem_range'_1] at hq
  obtain ⟨y2, hy2, rfl⟩ := hq
  exact ⟨by show y2 < pb.height; omega, hx⟩

theorem rightOf_inB (pb : Problem) {y x : Nat} (hy : y < pb.height) : ∀ q ∈ rightOf pb y x, InB pb q := by
  intro q hq
  simp only [rightOf, List.mem_map, List.mem_range'_1] at hq
  obtain ⟨x2, hx2, rfl⟩ := hq
  exact ⟨hy, by show x2 < pb.width; omega⟩

theorem takeWhile_inB (pb : Problem) {l : List (Nat × Nat)} (hl : ∀ q ∈ l, InB pb q) :
    ∀ q ∈ l.takeWhile (isW pb), InB pb q :=
  fun q hq => hl q (List.takeWhile_subset _ hq)

/-! ### First loop -/

/-- The cell opens a vertical / horizontal run. -/
def startV (pb : Problem) (p : Nat × Nat) : Bool := p.1 == 0 || !isW pb (p.1 - 1, p.2)
def startH (pb : Problem) (p : Nat × Nat) : Bool := p.2 == 0 || !isW pb (p.1, p.2 - 1)

def vRun (pb : Problem) (p : Nat × Nat) : List (Nat × Nat) := (downFrom pb p.1 p.2).takeWhile (isW pb)
def hRun (pb : Problem) (p : Nat × Nat) : List (Nat × Nat) := (rightFrom pb p.1 p.2).takeWhile (isW pb)

def runList (pb : Problem) (p : Nat × Nat) : List Expr :=
  if isW pb p then
    (if startV pb p then [amoE pb (vRun pb p)] else []) ++ (if startH pb p then [amoE pb (hRun pb p)] else [])
  else []

theorem startV_zero (pb : Problem) (x : Nat) : startV pb (0, x) = true := by simp [startV]
theorem startH_zero (pb : Problem) (y : Nat) : startH pb (y, 0) = true := by simp [startH]

theorem startV_pos (pb : Problem) {y : Nat} (x : Nat) (h0 : 0 < y) :
    startV pb (y, x) = decide (val pb (y - 1) x ≥ -1) := by
  have : (y == 0) = false := by simp; omega
  simp only [startV, isW, this, Bool.false_or]
  by_cases hv : val pb (y - 1) x < -1
  · simp [hv]
  · simp [hv]; omega

theorem startH_pos (pb : Problem) (y : Nat) {x : Nat} (h0 : 0 < x) :
    startH pb (y, x) = decide (val pb y (x - 1) ≥ -1) := by
  have : (x == 0) = false := by simp; omega
  simp only [startH, isW, this, Bool.false_or]
  by_cases hv : val pb y (x - 1) < -1
  · simp [hv]
  · simp [hv]; omega

theorem runCs_eq {pb : Problem} (hwf : WellFormed pb) {p : Nat × Nat} (hp : InB pb p) :
    runCs pb p = .ok (runList pb p) := by
  obtain ⟨y, x⟩ := p
  obtain ⟨hy, hx⟩ := hp
  simp only at hy hx
  unfold runCs runList
  simp only [cell_eq hwf hy hx, ok_bind]
  by_cases hw : val pb y x < -1
  · have hnw : ¬ (val pb y x ≥ -1) := by omega
    have hW : isW pb (y, x) = true := by simp [isW, hw]
    rw [if_neg hnw, if_pos hW]
    have hv : takeWhite pb (downFrom pb y x) = .ok (vRun pb (y, x)) := takeWhite_eq hwf (downFrom_inB pb hx)
    have hh : takeWhite pb (rightFrom pb y x) = .ok (hRun pb (y, x)) := takeWhite_eq hwf (rightFrom_inB pb hy)
    have av : atMostOne pb (vRun pb (y, x)) = .ok [amoE pb (vRun pb (y, x))] :=
      atMostOne_eq pb (takeWhile_inB pb (downFrom_inB pb (y := y) hx))
    have ah : atMostOne pb (hRun pb (y, x)) = .ok [amoE pb (hRun pb (y, x))] :=
      atMostOne_eq pb (takeWhile_inB pb (rightFrom_inB pb (x := x) hy))
    rcases Nat.eq_zero_or_pos y with h0 | h0 <;> rcases Nat.eq_zero_or_pos x with h1 | h1
    · subst h0; subst h1
      simp only [startV_zero, startH_zero, beq_self_eq_true, if_true, hv, hh, av, ah, ok_bind]
    · subst h0
      have e1 : (x == 0) = false := by simp; omega
      simp only [startV_zero, startH_pos pb 0 h1, beq_self_eq_true, if_true, hv, hh, av, ah, ok_bind, e1,
        cell_eq hwf hy (show x - 1 < pb.width by omega), Bool.false_eq_true, if_false]
      cases decide (val pb 0 (x - 1) ≥ -1) <;> rfl
    · subst h1
      have e0 : (y == 0) = false := by simp; omega
      simp only [startH_zero, startV_pos pb 0 h0, beq_self_eq_true, if_true, hv, hh, av, ah, ok_bind, e0,
        cell_eq hwf (show y - 1 < pb.height by omega) hx, Bool.false_eq_true, if_false]
      cases decide (val pb (y - 1) 0 ≥ -1) <;> rfl
    · have e0 : (y == 0) = false := by simp; omega
      have e1 : (x == 0) = false := by simp; omega
      simp only [startH_pos pb y h1, startV_pos pb x h0, hv, hh, av, ah, ok_bind, e0, e1,
        cell_eq hwf (show y - 1 < pb.height by omega) hx, cell_eq hwf hy (show x - 1 < pb.width by omega),
        Bool.false_eq_true, if_false]
      cases decide (val pb (y - 1) x ≥ -1) <;> cases decide (val pb y (x - 1) ≥ -1) <;> rfl
  · have hnw : val pb y x ≥ -1 := by omega
    have hW : ¬ isW pb (y, x) = true := by simp [isW, hw]
    rw [if_pos hnw, if_neg hW]

/-! ### Second loop -/

/-- The cells whose light would illuminate `p`. -/
def seenList (pb : Problem) (p : Nat × Nat) : List (Nat × Nat) :=
  p :: ((upOf p.1 p.2).takeWhile (isW pb) ++ (downOf pb p.1 p.2).takeWhile (isW pb) ++
        (leftOf p.1 p.2).takeWhile (isW pb) ++ (rightOf pb p.1 p.2).takeWhile (isW pb))

/-- One guarded neighbour. -/
def nbL (pb : Problem) (guard : Bool) (q : Nat × Nat) : List (Nat × Nat) :=
  if guard && isW pb q then [q] else []

/-- The white neighbours collected by the code. -/
def nbList (pb : Problem) (p : Nat × Nat) : List (Nat × Nat) :=
  nbL pb (decide (p.1 > 0)) (p.1 - 1, p.2) ++ nbL pb (decide (p.1 + 1 < pb.height)) (p.1 + 1, p.2) ++
  nbL pb (decide (p.2 > 0)) (p.1, p.2 - 1) ++ nbL pb (decide (p.2 + 1 < pb.width)) (p.1, p.2 + 1)

def cellList (pb : Problem) (p : Nat × Nat) : List Expr :=
  if isW pb p then [orE pb (seenList pb p)]
  else if val pb p.1 p.2 ≥ 0 then [notE' pb p, numE pb (nbList pb p) (val pb p.1 p.2)]
  else [notE' pb p]

theorem nbIf_eq {pb : Problem} (hwf : WellFormed pb) (guard : Bool) (q : Nat × Nat)
    (hq : guard = true → InB pb q) : nbIf pb guard q = .ok (nbL pb guard q) := by
  unfold nbIf nbL
  cases guard with
  | false => simp
  | true =>
    have := hq rfl
    rw [if_pos rfl, cell_eq hwf this.1 this.2]
    simp only [ok_bind, Bool.true_and, isW]
    by_cases hv : val pb q.1 q.2 < -1 <;> simp [hv]

theorem nbL_inB (pb : Problem) (guard : Bool) (q : Nat × Nat) (hq : guard = true → InB pb q) :
    ∀ r ∈ nbL pb guard q, InB pb r := by
  intro r hr
  unfold nbL at hr
  split at hr
  · next h =>
    simp only [Bool.and_eq_true] at h
    simp only [List.mem_singleton] at hr
    subst hr; exact hq h.1
  · simp at hr

theorem cellCs_eq {pb : Problem} (hwf : WellFormed pb) {p : Nat × Nat} (hp : InB pb p) :
    cellCs pb p = .ok (cellList pb p) := by
  obtain ⟨y, x⟩ := p
  obtain ⟨hy, hx⟩ := hp
  simp only at hy hx
  unfold cellCs cellList
  simp only [cell_eq hwf hy hx, ok_bind]
  by_cases hw : val pb y x < -1
  · have hW : isW pb (y, x) = true := by simp [isW, hw]
    rw [if_pos hw, if_pos hW]
    rw [takeWhite_eq hwf (upOf_inB pb hy hx), takeWhite_eq hwf (downOf_inB pb hx),
      takeWhite_eq hwf (leftOf_inB pb hy hx), takeWhite_eq hwf (rightOf_inB pb hy)]
    simp only [ok_bind]
    have hin : ∀ q ∈ seenList pb (y, x), InB pb q := by
      intro q hq
      simp only [seenList, List.mem_cons, List.mem_append] at hq
      rcases hq with rfl | ((h | h) | h) | h
      · exact ⟨hy, hx⟩
      · exact takeWhile_inB pb (upOf_inB pb hy hx) q h
      · exact takeWhile_inB pb (downOf_inB pb hx) q h
      · exact takeWhile_inB pb (leftOf_inB pb hy hx) q h
      · exact takeWhile_inB pb (rightOf_inB pb hy) q h
    have hm := lightAt_mapM pb hin
    simp only [seenList] at hm
    rw [hm]
    simp only [ok_bind]
    rw [foldOr_lv]
    simp only [ok_bind]
    rfl
  · have hW : ¬ isW pb (y, x) = true := by simp [isW, hw]
    rw [if_neg hw, if_neg hW, lightAt_eq pb (p := (y, x)) ⟨hy, hx⟩]
    simp only [ok_bind]
    rw [notE_lv]
    simp only [ok_bind]
    have he : ensure1 (notE' pb (y, x)) = .ok (notE' pb (y, x)) := rfl
    rw [he]
    simp only [ok_bind]
    by_cases hv : val pb y x ≥ 0
    · rw [if_pos hv, if_pos hv]
      have g2 : decide ((y : Int) < (pb.height : Int) - 1) = decide (y + 1 < pb.height) := by
        apply decide_eq_decide.2; omega
      have g4 : decide ((x : Int) < (pb.width : Int) - 1) = decide (x + 1 < pb.width) := by
        apply decide_eq_decide.2; omega
      have i1 : decide (y > 0) = true → InB pb (y - 1, x) := fun _ => ⟨by show y - 1 < pb.height; omega, hx⟩
      have i2 : decide (y + 1 < pb.height) = true → InB pb (y + 1, x) := fun h => ⟨by simpa using h, hx⟩
      have i3 : decide (x > 0) = true → InB pb (y, x - 1) := fun _ => ⟨hy, by show x - 1 < pb.width; omega⟩
      have i4 : decide (x + 1 < pb.width) = true → InB pb (y, x + 1) := fun h => ⟨hy, by simpa using h⟩
      rw [g2, g4, nbIf_eq hwf _ _ i1, nbIf_eq hwf _ _ i2, nbIf_eq hwf _ _ i3, nbIf_eq hwf _ _ i4]
      simp only [ok_bind]
      have hin : ∀ q ∈ nbList pb (y, x), InB pb q := by
        intro q hq
        simp only [nbList, List.mem_append] at hq
        rcases hq with ((h | h) | h) | h
        · exact nbL_inB pb _ _ i1 q h
        · exact nbL_inB pb _ _ i2 q h
        · exact nbL_inB pb _ _ i3 q h
        · exact nbL_inB pb _ _ i4 q h
      have hm := lightAt_mapM pb hin
      simp only [nbList] at hm
      rw [hm]
      simp only [ok_bind]
      rw [countTrue_ok_of_boolLike (lv_boolLike pb _)]
      simp only [ok_bind]
      rw [countTrueE_cmp .eq]
      simp only [ok_bind]
      rfl
    · rw [if_neg hv, if_neg hv]

/-! ### The whole program -/

def closedCs (pb : Problem) : List Expr :=
  ((cellsOf pb.height pb.width).map (runList pb)).flatten ++ ((cellsOf pb.height pb.width).map (cellList pb)).flatten

def closed (pb : Problem) : PuzzleProg :=
  { decls := List.replicate (pb.height * pb.width) .bool, cs := closedCs pb, keys := List.range (pb.height * pb.width) }

theorem program_closed {pb : Problem} (hwf : WellFormed pb) : program pb = .ok (closed pb) := by
  unfold program
  simp only [C11Grid.addKeys_bvars, ok_bind]
  rw [mapM_eq_ok_map (g := runList pb) (fun p hp => runCs_eq hwf (mem_cellsOf.1 hp))]
  simp only [ok_bind]
  rw [mapM_eq_ok_map (g := cellList pb) (fun p hp => cellCs_eq hwf (mem_cellsOf.1 hp))]
  rfl

theorem wt_closed (pb : Problem) : ∀ c ∈ closedCs pb, wtB c = true := by
  intro c hc
  simp only [closedCs, List.mem_append, List.mem_flatten, List.mem_map] at hc
  rcases hc with ⟨l, ⟨p, _, rfl⟩, hc⟩ | ⟨l, ⟨p, _, rfl⟩, hc⟩
  · unfold runList at hc
    split at hc
    · simp only [List.mem_append] at hc
      rcases hc with hc | hc <;> split at hc <;> simp at hc <;> subst hc <;> exact wtB_amoE _ _
    · simp at hc
  · unfold cellList at hc
    split at hc
    · simp at hc; subst hc; exact wtB_orE _ _
    · split at hc
      · simp at hc
        rcases hc with rfl | rfl
        · exact wtB_notE' _ _
        · exact wtB_numE _ _ _
      · simp at hc; subst hc; exact wtB_notE' _ _

/-! ### What the constraints say -/

/-- Meaning of the constraints the first loop posts at `p`. -/
def RunProp (pb : Problem) (σ : Asg) (p : Nat × Nat) : Prop :=
  isW pb p = true →
    (startV pb p = true → (vRun pb p).countP (lit pb σ) ≤ 1) ∧
    (startH pb p = true → (hRun pb p).countP (lit pb σ) ≤ 1)

/-- Meaning of the constraints the second loop posts at `p`. -/
def CellProp (pb : Problem) (σ : Asg) (p : Nat × Nat) : Prop :=
  (isW pb p = true → ∃ q ∈ seenList pb p, lit pb σ q = true) ∧
  (isW pb p = false → lit pb σ p = false ∧
    (0 ≤ val pb p.1 p.2 → (((nbList pb p).countP (lit pb σ) : Nat) : Int) = val pb p.1 p.2))

theorem runList_sem (pb : Problem) (σ : Asg) (p : Nat × Nat) :
    (∀ c ∈ runList pb p, eval σ c = some (.b true)) ↔ RunProp pb σ p := by
  unfold runList RunProp
  cases hW : isW pb p
  · simp
  · cases hV : startV pb p <;> cases hH : startH pb p <;> simp [eval_amoE]

theorem cellList_sem (pb : Problem) (σ : Asg) (p : Nat × Nat) :
    (∀ c ∈ cellList pb p, eval σ c = some (.b true)) ↔ CellProp pb σ p := by
  unfold cellList CellProp
  cases hW : isW pb p
  · by_cases hv : val pb p.1 p.2 ≥ 0
    · simp [hv, eval_notE', eval_numE]
    · simp [hv, eval_notE']
  · simp [eval_orE]

theorem closed_sem (pb : Problem) (σ : Asg) :
    (∀ c ∈ closedCs pb, eval σ c = some (.b true)) ↔
      (∀ p, InB pb p → RunProp pb σ p) ∧ (∀ p, InB pb p → CellProp pb σ p) := by
  unfold closedCs
  simp only [List.mem_append, List.mem_flatten, List.mem_map]
  constructor
  · intro h
    refine ⟨fun p hp => (runList_sem pb σ p).1 fun c hc => h c (Or.inl ⟨_, ⟨p, mem_cellsOf.2 hp, rfl⟩, hc⟩),
      fun p hp => (cellList_sem pb σ p).1 fun c hc => h c (Or.inr ⟨_, ⟨p, mem_cellsOf.2 hp, rfl⟩, hc⟩)⟩
  · rintro ⟨h1, h2⟩ c (⟨l, ⟨p, hp, rfl⟩, hc⟩ | ⟨l, ⟨p, hp, rfl⟩, hc⟩)
    · exact (runList_sem pb σ p).2 (h1 p (mem_cellsOf.1 hp)) c hc
    · exact (cellList_sem pb σ p).2 (h2 p (mem_cellsOf.1 hp)) c hc

end Cspuz.Proofs.C11AkariB
