import CspuzModel.Model.Index
import CspuzModel.Spec.PySlice
import Mathlib.Data.List.Sort
namespace Cspuz.Proofs.C13
open Cspuz Cspuz.Spec

/-! ### Arithmetic -/

/-- `j < ⌈a / m⌉ ↔ m * j < a`. -/
theorem lt_ceil_iff (a m : Int) (hm : 0 < m) (j : Nat) :
    j < ((a + m - 1) / m).toNat ↔ m * (j : Int) < a := by
  have h1 : ((j : Int) + 1 ≤ (a + m - 1) / m) ↔ ((j : Int) + 1) * m ≤ a + m - 1 :=
    Int.le_ediv_iff_mul_le hm
  have h2 : ((j : Int) + 1) * m = m * (j : Int) + m := by
    rw [Int.add_mul, Int.mul_comm, Int.one_mul]
  rw [h2] at h1
  constructor
  · intro h
    have : (j : Int) + 1 ≤ (a + m - 1) / m := by omega
    have := h1.mp this
    omega
  · intro h
    have : (j : Int) + 1 ≤ (a + m - 1) / m := h1.mpr (by omega)
    omega

/-! ### Filter of a sorted list as an arithmetic progression -/

theorem filter_eq_map_range (r : Nat → Nat → Prop) [Std.Antisymm r] [Std.Irrefl r]
    (L : List Nat) (hL : L.Pairwise r) (p : Nat → Bool) (f : Nat → Nat) (cnt : Nat)
    (hmono : ∀ j k, j < k → k < cnt → r (f j) (f k))
    (hmem : ∀ x, (x ∈ L ∧ p x = true) ↔ ∃ j, j < cnt ∧ f j = x) :
    L.filter p = (List.range cnt).map f := by
  apply List.Pairwise.eq_of_mem_iff (r := r)
  · exact hL.filter p
  · rw [List.pairwise_map]
    refine (List.pairwise_lt_range (n := cnt)).imp_of_mem ?_
    intro a b ha hb hab
    exact hmono a b hab (List.mem_range.mp hb)
  · intro a
    rw [List.mem_filter, hmem a, List.mem_map]
    constructor
    · rintro ⟨j, hj, rfl⟩; exact ⟨j, List.mem_range.mpr hj, rfl⟩
    · rintro ⟨j, hj, rfl⟩; exact ⟨j, List.mem_range.mp hj, rfl⟩


/-- Ascending selection (positive step). -/
theorem asc_sel (n : Nat) (lo hi st : Int) (hst : 0 < st) (hlo : 0 ≤ lo) (hhi : hi ≤ n) :
    (List.range n).filter (fun (i : Nat) => decide (lo ≤ (i : Int) ∧ (i : Int) < hi ∧ ((i : Int) - lo) % st = 0))
      = (List.range (if lo ≥ hi then 0 else (hi - lo + st - 1) / st).toNat).map
          (fun (j : Nat) => (lo + st * (j : Int)).toNat) := by
  apply filter_eq_map_range (· < ·) _ List.pairwise_lt_range
  · intro j k hjk _
    have : st * (j : Int) < st * (k : Int) := Int.mul_lt_mul_of_pos_left (by omega) hst
    have : 0 ≤ st * (j : Int) := Int.mul_nonneg (by omega) (by omega)
    show (lo + st * (j : Int)).toNat < (lo + st * (k : Int)).toNat
    omega
  · intro x
    simp only [List.mem_range, decide_eq_true_eq]
    constructor
    · rintro ⟨hx, h1, h2, h3⟩
      have hq : st * (((x : Int) - lo) / st) = (x : Int) - lo :=
        Int.mul_ediv_cancel' (Int.dvd_of_emod_eq_zero h3)
      have hq0 : 0 ≤ ((x : Int) - lo) / st := Int.ediv_nonneg (by omega) (by omega)
      refine ⟨(((x : Int) - lo) / st).toNat, ?_, ?_⟩
      · rw [if_neg (by omega), lt_ceil_iff _ _ hst, Int.toNat_of_nonneg hq0, hq]; omega
      · rw [Int.toNat_of_nonneg hq0, hq]; omega
    · rintro ⟨j, hj, rfl⟩
      have hlt : lo < hi := by
        by_cases h : lo ≥ hi
        · rw [if_pos h] at hj; simp at hj
        · omega
      rw [if_neg (by omega), lt_ceil_iff _ _ hst] at hj
      have h0 : 0 ≤ st * (j : Int) := Int.mul_nonneg (by omega) (by omega)
      have e : ((lo + st * (j : Int)).toNat : Int) = lo + st * (j : Int) :=
        Int.toNat_of_nonneg (by omega)
      rw [e]
      refine ⟨by omega, by omega, by omega, ?_⟩
      have : lo + st * (j : Int) - lo = st * (j : Int) := by omega
      rw [this, Int.mul_emod_right]


theorem lt_ceil_iff_neg (a st : Int) (hst : st < 0) (j : Nat) :
    j < ((a - st - 1) / (-st)).toNat ↔ -(st * (j : Int)) < a := by
  have h := lt_ceil_iff a (-st) (by omega) j
  rw [Int.neg_mul] at h
  have e : a + -st - 1 = a - st - 1 := by omega
  rw [e] at h
  exact h

/-- Descending selection (negative step). -/
theorem desc_sel (n : Nat) (s e st : Int) (hst : st < 0) (hs : s < n) (he : -1 ≤ e) :
    (List.range n).reverse.filter
        (fun (i : Nat) => decide (e < (i : Int) ∧ (i : Int) ≤ s ∧ (s - (i : Int)) % (-st) = 0))
      = (List.range (if s ≤ e then 0 else (s - e - st - 1) / (-st)).toNat).map
          (fun (j : Nat) => (s + st * (j : Int)).toNat) := by
  apply filter_eq_map_range (· > ·) _ (List.pairwise_reverse.mpr List.pairwise_lt_range)
  · intro j k hjk hk
    have hlt : ¬ s ≤ e := by
      intro h; rw [if_pos h] at hk; simp at hk
    rw [if_neg hlt, lt_ceil_iff_neg _ _ hst] at hk
    have : (-st) * (j : Int) < (-st) * (k : Int) := Int.mul_lt_mul_of_pos_left (by omega) (by omega)
    rw [Int.neg_mul, Int.neg_mul] at this
    show (s + st * (j : Int)).toNat > (s + st * (k : Int)).toNat
    omega
  · intro x
    simp only [List.mem_reverse, List.mem_range, decide_eq_true_eq]
    constructor
    · rintro ⟨hx, h1, h2, h3⟩
      have hq : (-st) * ((s - (x : Int)) / (-st)) = s - (x : Int) :=
        Int.mul_ediv_cancel' (Int.dvd_of_emod_eq_zero h3)
      rw [Int.neg_mul] at hq
      have hq0 : 0 ≤ (s - (x : Int)) / (-st) := Int.ediv_nonneg (by omega) (by omega)
      refine ⟨((s - (x : Int)) / (-st)).toNat, ?_, ?_⟩
      · rw [if_neg (by omega), lt_ceil_iff_neg _ _ hst, Int.toNat_of_nonneg hq0, hq]; omega
      · rw [Int.toNat_of_nonneg hq0]; omega
    · rintro ⟨j, hj, rfl⟩
      have hlt : ¬ s ≤ e := by
        intro h; rw [if_pos h] at hj; simp at hj
      rw [if_neg hlt, lt_ceil_iff_neg _ _ hst] at hj
      have h0 : 0 ≤ (-st) * (j : Int) := Int.mul_nonneg (by omega) (by omega)
      rw [Int.neg_mul] at h0
      have e : ((s + st * (j : Int)).toNat : Int) = s + st * (j : Int) :=
        Int.toNat_of_nonneg (by omega)
      rw [e]
      refine ⟨by omega, by omega, by omega, ?_⟩
      have : s - (s + st * (j : Int)) = (-st) * (j : Int) := by rw [Int.neg_mul]; omega
      rw [this, Int.mul_emod_right]


/-! ### One axis: `parseRange`/`rangeSize` against `axisSel` -/

theorem sliceIndices_eq (n : Nat) (a b c : Option Int) :
    sliceIndices n a b c =
      if c.getD 1 = 0 then .error .valueError
      else if c.getD 1 > 0 then .ok (clampPos n 0 a, clampPos n n b, c.getD 1)
      else .ok (clampNeg n (n - 1) a, clampNeg n (-1) b, c.getD 1) := by
  unfold sliceIndices clampPos clampNeg
  cases a <;> cases b <;> grind

theorem clampPos_bounds (n : Nat) (d : Int) (hd : 0 ≤ d ∧ d ≤ n) (a : Option Int) :
    0 ≤ clampPos n d a ∧ clampPos n d a ≤ n := by
  unfold clampPos
  cases a <;> grind

theorem clampNeg_bounds (n : Nat) (d : Int) (hd : -1 ≤ d ∧ d < n) (a : Option Int) :
    -1 ≤ clampNeg n d a ∧ clampNeg n d a < n := by
  unfold clampNeg
  cases a <;> grind

theorem rangeSize_pos (s e st : Int) (hst : 0 < st) :
    rangeSize s e st = .ok (if s ≥ e then 0 else (e - s + st - 1) / st) := by
  unfold rangeSize pyDiv
  rw [if_neg (by omega), if_pos (by omega), Int.fdiv_eq_ediv_of_nonneg _ (by omega)]
  split <;> rfl

theorem rangeSize_neg (s e st : Int) (hst : st < 0) :
    rangeSize s e st = .ok (if s ≤ e then 0 else (s - e - st - 1) / (-st)) := by
  unfold rangeSize pyDiv
  rw [if_neg (by omega), if_neg (by omega), Int.fdiv_eq_ediv_of_nonneg _ (by omega)]
  split <;> rfl

/-- What a successful `parseRange` means on the spec side. -/
def AxisOK (n : Nat) (k : AxisKey) (f : Bool) (s st : Int) (sz : Int) : Prop :=
  0 ≤ sz ∧
  axisSel n k = .ok (f, (List.range sz.toNat).map (fun (j : Nat) => (s + st * (j : Int)).toNat)) ∧
  (∀ j : Nat, j < sz.toNat → 0 ≤ s + st * (j : Int) ∧ s + st * (j : Int) < n) ∧
  (f = true → sz = 1)

theorem axis_ok (n : Nat) (k : AxisKey) (f : Bool) (s e st : Int)
    (h : parseRange n k = .ok (f, s, e, st)) :
    ∃ sz, rangeSize s e st = .ok sz ∧ AxisOK n k f s st sz := by
  cases k with
  | idx k =>
    unfold AxisOK
    simp only [parseRange, axisSel] at h ⊢
    generalize (if k < 0 then k + (n : Int) else k) = p at h ⊢
    by_cases hp : 0 ≤ p ∧ p < (n : Int)
    · rw [if_pos hp] at h ⊢
      injection h with h
      simp only [Prod.mk.injEq] at h
      obtain ⟨rfl, rfl, rfl, rfl⟩ := h
      refine ⟨1, ?_, by omega, ?_, ?_, fun _ => rfl⟩
      · rw [rangeSize_pos _ _ _ (by omega), if_neg (by omega)]
        congr 1; omega
      · simp
      · intro j hj
        have : j = 0 := by omega
        subst this
        omega
    · rw [if_neg hp] at h; cases h
  | slice a b c =>
    simp only [parseRange, sliceIndices_eq] at h
    by_cases h0 : c.getD 1 = 0
    · rw [if_pos h0] at h; cases h
    rw [if_neg h0] at h
    by_cases hp : c.getD 1 > 0
    · rw [if_pos hp] at h
      injection h with h
      simp only [Prod.mk.injEq] at h
      obtain ⟨rfl, rfl, rfl, rfl⟩ := h
      have b1 := clampPos_bounds n 0 (by omega) a
      have b2 := clampPos_bounds n n (by omega) b
      refine ⟨_, rangeSize_pos _ _ _ hp, ?_, ?_, ?_, fun h => by cases h⟩
      · split
        · omega
        · exact Int.ediv_nonneg (by omega) (by omega)
      · simp only [axisSel, sliceSel, if_neg h0, if_pos hp]
        rw [asc_sel n _ _ _ hp b1.1 b2.2]
        rfl
      · intro j hj
        have hlt : ¬ clampPos n 0 a ≥ clampPos n n b := by
          intro h; rw [if_pos h] at hj; simp at hj
        rw [if_neg hlt, lt_ceil_iff _ _ hp] at hj
        have h0 : 0 ≤ c.getD 1 * (j : Int) := Int.mul_nonneg (by omega) (by omega)
        omega
    · rw [if_neg hp] at h
      have hn : c.getD 1 < 0 := by omega
      injection h with h
      simp only [Prod.mk.injEq] at h
      obtain ⟨rfl, rfl, rfl, rfl⟩ := h
      have b1 := clampNeg_bounds n (n - 1) (by omega) a
      have b2 := clampNeg_bounds n (-1) (by omega) b
      refine ⟨_, rangeSize_neg _ _ _ hn, ?_, ?_, ?_, fun h => by cases h⟩
      · split
        · omega
        · exact Int.ediv_nonneg (by omega) (by omega)
      · simp only [axisSel, sliceSel, if_neg h0, if_neg hp]
        rw [desc_sel n _ _ _ hn b1.2 b2.1]
        rfl
      · intro j hj
        have hlt : ¬ clampNeg n (n - 1) a ≤ clampNeg n (-1) b := by
          intro h; rw [if_pos h] at hj; simp at hj
        rw [if_neg hlt, lt_ceil_iff_neg _ _ hn] at hj
        have h0 : 0 ≤ (-(c.getD 1)) * (j : Int) := Int.mul_nonneg (by omega) (by omega)
        rw [Int.neg_mul] at h0
        omega

theorem axis_err (n : Nat) (k : AxisKey) (err : PyErr)
    (h : parseRange n k = .error err) : axisSel n k = .error err := by
  cases k with
  | idx k =>
    simp only [parseRange, axisSel] at h ⊢
    generalize (if k < 0 then k + (n : Int) else k) = p at h ⊢
    by_cases hp : 0 ≤ p ∧ p < (n : Int)
    · rw [if_pos hp] at h; cases h
    · rw [if_neg hp] at h ⊢; cases h; rfl
  | slice a b c =>
    simp only [parseRange, sliceIndices_eq] at h
    simp only [axisSel, sliceSel]
    by_cases h0 : c.getD 1 = 0
    · rw [if_pos h0] at h ⊢; cases h; rfl
    · rw [if_neg h0] at h
      split at h <;> cases h


/-! ### `toRows` -/

theorem toRows_length {α} (data : List α) (h w : Nat) : (toRows data h w).length = h := by
  induction h generalizing data with
  | zero => rfl
  | succ h ih => simp only [toRows, List.length_cons, ih]

theorem toRows_flatten {α} (data : List α) (h w : Nat) (hl : data.length = h * w) :
    (toRows data h w).flatten = data := by
  induction h generalizing data with
  | zero =>
    rw [Nat.zero_mul] at hl
    rw [List.eq_nil_of_length_eq_zero hl]; rfl
  | succ h ih =>
    rw [Nat.add_mul, Nat.one_mul] at hl
    simp only [toRows, List.flatten_cons]
    rw [ih (data.drop w) (by rw [List.length_drop]; omega), List.take_append_drop]

theorem toRows_row_length {α} (data : List α) (h w : Nat) (hl : data.length = h * w) :
    ∀ r ∈ toRows data h w, r.length = w := by
  induction h generalizing data with
  | zero => intro r hr; simp [toRows] at hr
  | succ h ih =>
    rw [Nat.add_mul, Nat.one_mul] at hl
    intro r hr
    simp only [toRows, List.mem_cons] at hr
    rcases hr with rfl | hr
    · rw [List.length_take]; omega
    · exact ih (data.drop w) (by rw [List.length_drop]; omega) r hr

theorem toRows_getElem? {α} (data : List α) (h w y : Nat) (hy : y < h) :
    (toRows data h w)[y]? = some ((data.drop (y * w)).take w) := by
  induction h generalizing data y with
  | zero => omega
  | succ h ih =>
    cases y with
    | zero => simp [toRows]
    | succ y =>
      simp only [toRows, List.getElem?_cons_succ]
      rw [ih (data.drop w) y (by omega), List.drop_drop, Nat.add_mul, Nat.one_mul]
      congr 3; omega

theorem mul_add_lt {h w y x : Nat} (hy : y < h) (hx : x < w) : y * w + x < h * w := by
  have : (y + 1) * w ≤ h * w := Nat.mul_le_mul_right w hy
  rw [Nat.add_mul, Nat.one_mul] at this
  omega

theorem pyIndex_natCast {α} (l : List α) (k : Nat) (hk : k < l.length) :
    pyIndex l (k : Int) =
      match l[k]? with
      | some x => .ok x
      | none => .error .indexError := by
  simp only [pyIndex]
  rw [if_neg (show ¬ ((k : Int) < 0) by omega), if_pos (by omega), Int.toNat_natCast]
  rfl

theorem pick_toRows {α} (data : List α) (h w y x : Nat) (hl : data.length = h * w)
    (hy : y < h) (hx : x < w) :
    pick (toRows data h w) y x = pyIndex data ((y : Int) * (w : Int) + (x : Int)) := by
  have hlt := mul_add_lt hy hx
  have hc : (y : Int) * (w : Int) + (x : Int) = ((y * w + x : Nat) : Int) := by
    simp only [Int.natCast_add, Int.natCast_mul]
  rw [hc, pyIndex_natCast data _ (by omega)]
  unfold pick
  rw [toRows_getElem? data h w y hy]
  simp only []
  rw [List.getElem?_take_of_lt hx, List.getElem?_drop]
  rfl

/-! ### The gather loop -/

theorem range_mul (a b : Nat) :
    List.range (a * b) = (List.range a).flatMap fun i => (List.range b).map fun j => i * b + j := by
  induction a with
  | zero => simp
  | succ a ih =>
    rw [Nat.add_mul, Nat.one_mul, List.range_add, ih, List.range_succ, List.flatMap_append]
    simp

theorem mapM_map_congr {ι β γ δ : Type} (L : List ι) (φ : ι → β) (ψ : ι → γ)
    (g : β → Py δ) (g' : γ → Py δ) (hc : ∀ j ∈ L, g (φ j) = g' (ψ j)) :
    (L.map φ).mapM g = (L.map ψ).mapM g' := by
  induction L with
  | nil => rfl
  | cons a L ih =>
    simp only [List.map_cons, List.mapM_cons]
    rw [hc a (List.mem_cons_self), ih (fun j hj => hc j (List.mem_cons_of_mem _ hj))]

theorem mapM_flatMap_map_congr {ι κ β γ δ : Type} (LA : List ι) (LB : List κ)
    (φ : ι → κ → β) (ψ : ι → κ → γ) (g : β → Py δ) (g' : γ → Py δ)
    (hc : ∀ i ∈ LA, ∀ j ∈ LB, g (φ i j) = g' (ψ i j)) :
    (LA.flatMap fun i => LB.map (φ i)).mapM g = (LA.flatMap fun i => LB.map (ψ i)).mapM g' := by
  induction LA with
  | nil => rfl
  | cons a LA ih =>
    simp only [List.flatMap_cons, List.mapM_append]
    rw [mapM_map_congr LB (φ a) (ψ a) g g' (hc a (List.mem_cons_self)),
      ih (fun i hi => hc i (List.mem_cons_of_mem _ hi))]

theorem gather_eq {α : Type} (data : List α) (h w : Nat) (hl : data.length = h * w)
    (ys yst xs xst : Int) (A B : Nat)
    (hy : ∀ i : Nat, i < A → 0 ≤ ys + yst * (i : Int) ∧ ys + yst * (i : Int) < h)
    (hx : ∀ j : Nat, j < B → 0 ≤ xs + xst * (j : Int) ∧ xs + xst * (j : Int) < w) :
    gather data w ys yst xs xst A B =
      (((List.range A).map (fun (i : Nat) => (ys + yst * (i : Int)).toNat)).flatMap fun y =>
        ((List.range B).map (fun (j : Nat) => (xs + xst * (j : Int)).toNat)).map fun x => (y, x)).mapM
        fun (p : Nat × Nat) => pick (toRows data h w) p.1 p.2 := by
  unfold gather
  rw [← Int.natCast_mul, Int.toNat_natCast, range_mul, List.flatMap_map]
  simp only [List.map_map]
  apply mapM_flatMap_map_congr
  intro i hi j hj
  rw [List.mem_range] at hi hj
  obtain ⟨hy0, hy1⟩ := hy i hi
  obtain ⟨hx0, hx1⟩ := hx j hj
  have hd : (i * B + j) / B = i := by
    rw [Nat.add_comm, Nat.add_mul_div_right _ _ (by omega), Nat.div_eq_of_lt hj, Nat.zero_add]
  have hm : (i * B + j) % B = j := by
    rw [Nat.add_comm, Nat.add_mul_mod_self_right, Nat.mod_eq_of_lt hj]
  simp only [Function.comp, pyDiv, pyMod, Int.ofNat_eq_natCast]
  rw [Int.fdiv_eq_ediv_of_nonneg _ (by omega), Int.fmod_eq_emod_of_nonneg _ (by omega),
    ← Int.natCast_ediv, ← Int.natCast_emod, hd, hm,
    pick_toRows data h w _ _ hl (by omega) (by omega),
    Int.toNat_of_nonneg hy0, Int.toNat_of_nonneg hx0]

/-! ### Assembly -/

theorem getitemPair_eq {α : Type} (data : List α) (h w : Nat) (hl : data.length = h * w)
    (ky kx : AxisKey) :
    getitemPair data h w ky kx = specPair (toRows data h w) h w ky kx := by
  unfold getitemPair specPair
  cases hpy : parseRange h ky with
  | error e => rw [axis_err _ _ _ hpy]; rfl
  | ok r =>
    obtain ⟨yf, ys, ye, yst⟩ := r
    obtain ⟨ysz, hrsy, hysz0, hay, hby, hfy⟩ := axis_ok _ _ _ _ _ _ hpy
    rw [hay]
    cases hpx : parseRange w kx with
    | error e => rw [axis_err _ _ _ hpx]; rfl
    | ok r =>
      obtain ⟨xf, xs, xe, xst⟩ := r
      obtain ⟨xsz, hrsx, hxsz0, hax, hbx, hfx⟩ := axis_ok _ _ _ _ _ _ hpx
      rw [hax]
      obtain ⟨A, rfl⟩ := Int.eq_ofNat_of_zero_le hysz0
      obtain ⟨B, rfl⟩ := Int.eq_ofNat_of_zero_le hxsz0
      simp only [Int.toNat_natCast] at hby hbx ⊢
      have hg := gather_eq data h w hl ys yst xs xst A B hby hbx
      simp only [bind, Except.bind, hrsy, hrsx]
      by_cases hf : yf = true ∧ xf = true
      · have hA : A = 1 := by have := hfy hf.1; omega
        have hB : B = 1 := by have := hfx hf.2; omega
        subst hA hB
        have e0 := hby 0 (by omega)
        have e1 := hbx 0 (by omega)
        simp only [Int.natCast_zero, Int.mul_zero, Int.add_zero] at e0 e1
        simp only [if_pos hf, List.range_one, List.map_cons, List.map_nil, List.flatMap_cons,
          List.flatMap_nil, List.append_nil, List.mapM_cons, List.mapM_nil, Int.natCast_zero,
          Int.mul_zero, Int.add_zero]
        rw [pick_toRows data h w _ _ hl (by omega) (by omega), Int.toNat_of_nonneg e0.1,
          Int.toNat_of_nonneg e1.1]
        cases pyIndex data (ys * (w : Int) + xs) <;> rfl
      · simp only [if_neg hf, ← hg, List.length_map, List.length_range, Int.toNat_natCast]

theorem getitem2D_eq_spec : ∀ (α : Type) (data : List α) (h w : Nat) (key : Key2),
    data.length = h * w → getitem2D data h w key = specGetitem (toRows data h w) h w key := by
  intro α data h w key hl
  cases key with
  | one k => exact getitemPair_eq data h w hl k _
  | pair ky kx => exact getitemPair_eq data h w hl ky kx
  | coords l =>
    simp only [getitem2D, specGetitem]
    congr 2
    funext ⟨y, x⟩
    simp only [getitemPair_eq data h w hl, specPair, axisSel]
    generalize (if y < 0 then y + (h : Int) else y) = py
    generalize (if x < 0 then x + (w : Int) else x) = px
    by_cases hy : 0 ≤ py ∧ py < (h : Int)
    · by_cases hx : 0 ≤ px ∧ px < (w : Int)
      · simp only [if_pos hy, if_pos hx, bind, Except.bind]
        simp only [List.map_cons, List.map_nil, List.flatMap_cons, List.flatMap_nil,
          List.append_nil, List.mapM_cons, List.mapM_nil, bind, Except.bind, pure, Except.pure]
        cases pick (toRows data h w) py.toNat px.toNat <;> simp
      · simp only [if_pos hy, if_neg hx, bind, Except.bind]
    · simp only [if_neg hy, bind, Except.bind]

theorem reshape_spec : ∀ (α : Type) (data : List α) (h w : Nat),
    (data.length = h * w → reshape data h w = .ok (.arr2 h w data) ∧
        (toRows data h w).flatten = data ∧ (toRows data h w).length = h ∧
        ∀ r ∈ toRows data h w, r.length = w) ∧
    (data.length ≠ h * w → reshape data h w = .error .valueError) := by
  intro α data h w
  constructor
  · intro hl
    refine ⟨?_, toRows_flatten data h w hl, toRows_length data h w, toRows_row_length data h w hl⟩
    unfold reshape; rw [if_neg (by simpa using hl)]
  · intro hl
    unfold reshape; rw [if_pos hl]

end Cspuz.Proofs.C13
