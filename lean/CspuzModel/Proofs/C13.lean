import CspuzModel.Model.Index
import CspuzModel.Spec.PySlice
namespace Cspuz.Proofs.C13
open Cspuz Cspuz.Spec

-- TO BE PROVED (agent task): see Properties/C13.lean
-- theorem getitem2D_eq_spec : ∀ (α : Type) (data : List α) (h w : Nat) (key : Key2), data.length = h * w →
--     getitem2D data h w key = specGetitem (toRows data h w) h w key
-- theorem reshape_spec : Cspuz.C13.statement_reshape (unfolded)

end Cspuz.Proofs.C13
