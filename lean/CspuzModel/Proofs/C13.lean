import CspuzModel.Model.Index
import CspuzModel.Spec.PySlice
import Mathlib.Data.List.Sort
namespace Cspuz.Proofs.C13
open Cspuz Cspuz.Spec

/-! ### Arithmetic -/

/-- `j < ⌈a / m⌉ ↔ m * j < a`. -/
theorem lt_ceil_iff (a m : Int) (hm : 0 < m) (j : Nat) (ha : 0 < a) :
    j < ((a + m - 1) / m).toNat ↔ m * (j : Int) < a := by
  have h1 : ((j : Int) + 1 ≤ (a + m - 1) / m) ↔ ((j : Int) + 1) * m ≤ a + m - 1 :=
    Int.le_ediv_iff_mul_le hm
  have h2 : ((j : Int) + 1) * m = m * (j : Int) + m := by
    rw [Int.add_mul, Int.mul_comm, Int.one_mul]
  rw [h2] at h1
  constructor
  · intro h
    have : (j : Int) + 1 ≤ (a + m - 1) / m := by omega
    have := h1.mp this
    omega
  · intro h
    have : (j : Int) + 1 ≤ (a + m - 1) / m := h1.mpr (by omega)
    omega

/-! ### Filter of a sorted list as an arithmetic progression -/

theorem filter_eq_map_range (r : Nat → Nat → Prop) [Std.Antisymm r] [Std.Irrefl r]
    (L : List Nat) (hL : L.Pairwise r) (p : Nat → Bool) (f : Nat → Nat) (cnt : Nat)
    (hmono : ∀ j k, j < k → k < cnt → r (f j) (f k))
    (hmem : ∀ x, (x ∈ L ∧ p x = true) ↔ ∃ j, j < cnt ∧ f j = x) :
    L.filter p = (List.range cnt).map f := by
  apply List.Pairwise.eq_of_mem_iff (r := r)
  · exact hL.filter p
  · rw [List.pairwise_map]
    refine (List.pairwise_lt_range (n := cnt)).imp_of_mem ?_
    intro a b ha hb hab
    exact hmono a b hab (List.mem_range.mp hb)
  · intro a
    rw [List.mem_filter, hmem a, List.mem_map]
    constructor
    · rintro ⟨j, hj, rfl⟩; exact ⟨j, List.mem_range.mpr hj, rfl⟩
    · rintro ⟨j, hj, rfl⟩; exact ⟨j, List.mem_range.mp hj, rfl⟩

end Cspuz.Proofs.C13
