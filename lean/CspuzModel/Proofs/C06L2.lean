/-
  C06, layer L2 (graph theory): a `CycleCert` (degree + rank/root certificate) exists iff the active
  edges are `RegularConnected` (all active degrees 0 or 2 and the active edges connected).
  Soundness: follow strictly lower-ranked active entries down to the unique root.
  Completeness: root := any visited vertex, rank := distance from the root in the active-edge graph;
  every other visited vertex has a strictly closer active neighbour, so at most one of its two active
  entries goes to a rank `≥` its own.
-/
import Mathlib.Combinatorics.SimpleGraph.Metric
import CspuzModel.Spec.GraphSpec2
import CspuzModel.Spec.Certs2
import CspuzModel.Proofs.C04L2
namespace Cspuz.Proofs.C06L2
open Cspuz Cspuz.Spec
open Cspuz.Proofs.C04L2 (mem_incident joins_lt joins_ne countInc_pos_iff exists_closer
  eq_of_mem_of_length_le_one one_root_decide)

theorem filter_split {α : Type} (l : List α) (p q : α → Bool) :
    (l.filter p).length =
      (l.filter (fun x => p x && q x)).length + (l.filter (fun x => p x && !q x)).length := by
  induction l with
  | nil => rfl
  | cons a l ih =>
    simp only [List.filter_cons]
    cases p a <;> cases q a <;> simp [ih] <;> omega

theorem joins_edge_lt {g : Graph} {e u v : Nat} (h : Joins g e u v) : e < g.edges.length := by
  rcases Nat.lt_or_ge e g.edges.length with h' | h'
  · exact h'
  · rcases h with h | h <;> rw [List.getElem?_eq_none h'] at h <;> cases h

theorem activeDegree_pos_iff {g : Graph} {act : Nat → Bool} {i : Nat} :
    0 < activeDegree g act i ↔ ∃ j e, Joins g e i j ∧ act e = true :=
  countInc_pos_iff (p := fun je => act je.2)

theorem one_root_eq (n r0 : Nat) (h : r0 < n) :
    ((List.range n).filter (fun v => decide (v = r0))).length = 1 := by
  have h1 := one_root_decide n r0
  have h2 : 0 < ((List.range n).filter (fun v => decide (v = r0))).length :=
    List.length_pos_of_mem (List.mem_filter.2 ⟨List.mem_range.2 h, by simp⟩)
  omega

/-! ### Soundness -/
section Sound
variable {g : Graph} {act : Nat → Bool}

theorem passed_of_pos (c : CycleCert g act) {i : Nat} (hi : i < g.n)
    (h : 0 < activeDegree g act i) : c.passed i = true := by
  have hd : activeDegree g act i = if c.passed i then 2 else 0 := c.deg i hi
  cases hp : c.passed i
  · rw [hp] at hd; simp at hd; omega
  · rfl

theorem cert_step (c : CycleCert g act) {i : Nat} (hi : i < g.n) (hp : c.passed i = true)
    (hr : c.root i = false) : ∃ j e, Joins g e i j ∧ act e = true ∧ c.rank j < c.rank i := by
  have hd := c.deg i hi
  have hl := c.loc i hi hp
  rw [hp] at hd
  rw [hr] at hl
  simp only [if_true, Bool.false_eq_true, if_false] at hd hl
  have hs := filter_split (g.incident i) (fun je => act je.2)
    (fun je => decide (c.rank je.1 ≥ c.rank i))
  unfold countInc at hd hl
  have h1 : 1 ≤ countInc g i (fun je => act je.2 && !decide (c.rank je.1 ≥ c.rank i)) := by
    unfold countInc; omega
  obtain ⟨j, e, hj, hp⟩ := countInc_pos_iff.1 h1
  simp only [Bool.and_eq_true, Bool.not_eq_true', decide_eq_false_iff_not] at hp
  exact ⟨j, e, hj, hp.1, by omega⟩

theorem cert_reach_root (hwf : g.wf = true) (c : CycleCert g act) :
    ∀ (m : Nat) (i : Nat) (hi : i < g.n), c.passed i = true → (c.rank i).toNat ≤ m →
      ∃ (r : Nat) (hr : r < g.n), c.root r = true ∧
        (activeEdgeGraph g act).Reachable ⟨i, hi⟩ ⟨r, hr⟩ := by
  intro m
  induction m with
  | zero =>
    intro i hi hp hm
    cases hroot : c.root i
    · obtain ⟨j, e, hj, _, hlt⟩ := cert_step c hi hp hroot
      have := c.rank_lo j (joins_lt hwf hj).2
      omega
    · exact ⟨i, hi, hroot, SimpleGraph.Reachable.refl _⟩
  | succ m ih =>
    intro i hi hp hm
    cases hroot : c.root i
    · obtain ⟨j, e, hj, hact, hlt⟩ := cert_step c hi hp hroot
      have hjn := (joins_lt hwf hj).2
      have := c.rank_lo j hjn
      have hpj : c.passed j = true :=
        passed_of_pos c hjn (activeDegree_pos_iff.2 ⟨i, e, hj.symm, hact⟩)
      obtain ⟨r, hr, hrr, hreach⟩ := ih j hjn hpj (by omega)
      refine ⟨r, hr, hrr, SimpleGraph.Reachable.trans (SimpleGraph.Adj.reachable ?_) hreach⟩
      refine ⟨?_, e, hact, hj⟩
      intro h
      have : i = j := congrArg Fin.val h
      subst this; omega
    · exact ⟨i, hi, hroot, SimpleGraph.Reachable.refl _⟩

theorem cert_regular (hwf : g.wf = true) (c : CycleCert g act) : RegularConnected g act := by
  right
  refine ⟨fun v hv => ?_, ?_⟩
  · have hd : activeDegree g act v = if c.passed v then 2 else 0 := c.deg v hv
    cases hp : c.passed v <;> rw [hp] at hd <;> simp at hd
    · exact Or.inl hd
    · exact Or.inr hd
  · intro u v hu hv
    obtain ⟨r, hr, hrr, h1⟩ := cert_reach_root hwf c _ u.1 u.2 (passed_of_pos c u.2 hu) le_rfl
    obtain ⟨r', hr', hrr', h2⟩ := cert_reach_root hwf c _ v.1 v.2 (passed_of_pos c v.2 hv) le_rfl
    have : r = r' :=
      eq_of_mem_of_length_le_one (Nat.le_of_eq c.one_root)
        (List.mem_filter.2 ⟨List.mem_range.2 hr, hrr⟩)
        (List.mem_filter.2 ⟨List.mem_range.2 hr', hrr'⟩)
    subst this
    exact h1.trans h2.symm

end Sound

/-! ### Completeness -/
section Complete
variable {g : Graph} {act : Nat → Bool}
open SimpleGraph

theorem empty_cert (hn : 0 < g.n) (h : ∀ v, v < g.n → activeDegree g act v = 0) :
    Nonempty (CycleCert g act) :=
  ⟨{ passed := fun _ => false, rank := fun _ => 0, root := fun v => decide (v = 0)
     rank_lo := by intro i _; omega
     rank_hi := by intro i hi; omega
     deg := by intro i hi; exact h i hi
     loc := by intro i hi hp; cases hp
     one_root := one_root_eq g.n 0 hn }⟩

/-- distance from `r` in the active-edge graph (`0` outside the vertex range). -/
noncomputable def drank (g : Graph) (act : Nat → Bool) (r : Fin g.n) (v : Nat) : Int :=
  if h : v < g.n then ((activeEdgeGraph g act).dist r ⟨v, h⟩ : Int) else 0

theorem drank_eq (r : Fin g.n) (v : Fin g.n) :
    drank g act r v.1 = ((activeEdgeGraph g act).dist r v : Int) := by
  unfold drank; rw [dif_pos v.2]

theorem dist_lt_card (G : SimpleGraph (Fin g.n)) (r v : Fin g.n) : G.dist r v < g.n := by
  by_cases h : G.Reachable r v
  · obtain ⟨p, hp, hl⟩ := h.exists_path_of_dist
    have := hp.length_lt
    rw [Fintype.card_fin] at this
    omega
  · rw [SimpleGraph.dist_eq_zero_of_not_reachable h]
    exact r.pos

theorem regular_cert (hn : 0 < g.n) (h : RegularConnected g act) : Nonempty (CycleCert g act) := by
  by_cases hex : ∃ v, v < g.n ∧ 0 < activeDegree g act v
  · obtain ⟨r, hr, hrpos⟩ := hex
    have hright : (∀ v, v < g.n → activeDegree g act v = 0 ∨ activeDegree g act v = 2) ∧
        ∀ u v : Fin g.n, 0 < activeDegree g act u.1 → 0 < activeDegree g act v.1 →
          (activeEdgeGraph g act).Reachable u v := by
      rcases h with h | h
      · exfalso
        obtain ⟨j, e, hj, hact⟩ := activeDegree_pos_iff.1 hrpos
        rw [h e (joins_edge_lt hj)] at hact
        cases hact
      · exact h
    obtain ⟨hdeg, hconn⟩ := hright
    refine ⟨{ passed := fun v => decide (activeDegree g act v = 2),
              rank := drank g act ⟨r, hr⟩, root := fun v => decide (v = r),
              rank_lo := ?_, rank_hi := ?_, deg := ?_, loc := ?_, one_root := one_root_eq _ _ hr }⟩
    · intro i _; unfold drank; split <;> omega
    · intro i hi
      rw [drank_eq ⟨r, hr⟩ ⟨i, hi⟩]
      have := dist_lt_card (activeEdgeGraph g act) ⟨r, hr⟩ ⟨i, hi⟩
      omega
    · intro i hi
      show activeDegree g act i = _
      rcases hdeg i hi with h0 | h0 <;> simp [h0]
    · intro i hi hp
      have hd2 : activeDegree g act i = 2 := by simpa using hp
      have hs := filter_split (g.incident i) (fun je => act je.2)
        (fun je => decide (drank g act ⟨r, hr⟩ je.1 ≥ drank g act ⟨r, hr⟩ i))
      unfold activeDegree at hd2
      unfold countInc
      by_cases hir : i = r
      · simp only [hir, decide_true, if_true]
        subst hir
        omega
      · simp only [hir, decide_false, Bool.false_eq_true, if_false]
        have hne : (⟨i, hi⟩ : Fin g.n) ≠ ⟨r, hr⟩ := fun e => hir (congrArg Fin.val e)
        have hreach := hconn ⟨r, hr⟩ ⟨i, hi⟩ hrpos (by show 0 < activeDegree g act i; unfold activeDegree; omega)
        obtain ⟨w, hadj, hlt⟩ := exists_closer hreach hne
        obtain ⟨_, k, hk, hjk⟩ := hadj
        have h1 : 1 ≤ countInc g i (fun je => act je.2 &&
            !decide (drank g act ⟨r, hr⟩ je.1 ≥ drank g act ⟨r, hr⟩ i)) := by
          apply countInc_pos_iff.2
          refine ⟨w.1, k, hjk, ?_⟩
          simp only [Bool.and_eq_true, Bool.not_eq_true', decide_eq_false_iff_not]
          refine ⟨hk, ?_⟩
          rw [drank_eq ⟨r, hr⟩ w, drank_eq ⟨r, hr⟩ ⟨i, hi⟩]
          omega
        unfold countInc at h1
        omega
  · exact empty_cert hn (by
      intro v hv
      by_contra h0
      exact hex ⟨v, hv, by omega⟩)

end Complete

theorem cert_iff_regular (g : Graph) (act : Nat → Bool) (hwf : g.wf = true) (hn : 0 < g.n) :
    Nonempty (CycleCert g act) ↔ RegularConnected g act :=
  ⟨fun ⟨c⟩ => cert_regular hwf c, regular_cert hn⟩

end Cspuz.Proofs.C06L2
