/-
  C11 / Creek — `solve_creek` posts a program that encodes the published rules (Spec/PuzzleRules/Creek.lean).
-/
import CspuzModel.Spec.PuzzleRules.Creek
import CspuzModel.Properties.C04
import CspuzModel.Proofs.C11CL
import CspuzModel.Proofs.C11Frag
import CspuzModel.Proofs.C11FragWT
import CspuzModel.Proofs.C11CellGraph
namespace Cspuz.Proofs.C11Creek
open Cspuz Cspuz.Spec Cspuz.Puzzles Cspuz.Puzzles.Creek Cspuz.Spec.Creek Cspuz.Proofs

/-! ### table lookup -/

theorem tableGet_eq {pb : Problem} (hwf : WellFormed pb) {y x : Nat} (hy : y ≤ pb.height) (hx : x ≤ pb.width) :
    tableGet pb.problem (y : Int) (x : Int) = .ok (val pb y x) := by
  obtain ⟨_, _, hlen, hrow⟩ := hwf
  have hy' : y < pb.problem.length := by omega
  have hr := hrow _ (List.getElem_mem hy')
  have hx' : x < (pb.problem[y]).length := by omega
  simp only [tableGet, val]
  rw [C13.pyIndex_natCast _ _ hy', List.getElem?_eq_getElem hy']
  simp only [ok_bind]
  rw [C13.pyIndex_natCast _ _ hx', List.getElem?_eq_getElem hx']
  simp [List.getD, List.getElem?_eq_getElem hy', List.getElem?_eq_getElem hx']

/-! ### the cells around a lattice point -/

/-- Rows (columns) of the board that touch the lattice line `y`: `y - 1` and `y`, when on the board. -/
def around (n y : Nat) : List Nat := (if 0 < y then [y - 1] else []) ++ (if y < n then [y] else [])

theorem mem_around {n y c : Nat} : c ∈ around n y ↔ (0 < y ∧ c = y - 1) ∨ (y < n ∧ c = y) := by
  unfold around
  by_cases h1 : 0 < y <;> by_cases h2 : y < n <;> simp [h1, h2]

theorem around_lt {n y c : Nat} (hy : y ≤ n) (hc : c ∈ around n y) : c < n := by
  rcases mem_around.1 hc with ⟨h, rfl⟩ | ⟨h, rfl⟩ <;> omega

theorem axisSel_around (n y : Nat) (hn : 1 ≤ n) (hy : y ≤ n) :
    axisSel n (.slice (some (max ((y : Int) - 1) 0)) (some (min ((y : Int) + 1) (n : Int))) none)
      = .ok (false, around n y) := by
  have e1 : max ((y : Int) - 1) 0 = ((y - 1 : Nat) : Int) := by omega
  have e2 : min ((y : Int) + 1) (n : Int) = ((min (y + 1) n : Nat) : Int) := by omega
  rw [e1, e2, C11CL.axisSel_range n (y - 1) (min (y + 1) n) (by omega) (by omega)]
  congr 2
  unfold around
  by_cases h1 : 0 < y
  · by_cases h2 : y < n
    · have : min (y + 1) n - (y - 1) = 2 := by omega
      rw [this]
      simp [h1, h2, List.range_succ]; omega
    · have : min (y + 1) n - (y - 1) = 1 := by omega
      rw [this]
      simp [h1, h2]
  · have hy0 : y = 0 := by omega
    subst hy0
    have : min (0 + 1) n - (0 - 1) = 1 := by omega
    rw [this]
    simp; omega

/-- The (negated) cell variables around the lattice point `(y, x)`, in the order of the 2-D slice. -/
def notsAround (h w y x : Nat) : List Expr :=
  ((around h y).flatMap fun cy => (around w x).map fun cx => Expr.bvar (cy * w + cx)).map
    fun a => .node .not [a]

/-- The constraint posted for a clue `v` at `(y, x)`. -/
def clueE (h w y x : Nat) (v : Int) : Expr := .node .eq [countTrueE (notsAround h w y x), .litI v]

theorem bvars_eq (n : Nat) : bvars 0 n = (List.range n).map Expr.bvar := by
  simp [bvars]

theorem countTrueA_arr2 (h w : Nat) (l : List Expr) (hl : ∀ x ∈ l, x.isBoolLike = true) :
    countTrueA [.leaf (.arr2 true h w l)] = .ok (countTrueE l) := by
  simp only [countTrueA, ANest.flattenList, ANest.flatten, PyV.flat, List.append_nil]
  exact countTrue_ok_of_boolLike hl

theorem clueCs_eq {pb : Problem} (hwf : WellFormed pb) {y x : Nat} (hy : y ≤ pb.height) (hx : x ≤ pb.width) :
    clueCs pb (.arr2 true pb.height pb.width (bvars 0 (pb.height * pb.width))) (y, x)
      = .ok (if 0 ≤ val pb y x then [clueE pb.height pb.width y x (val pb y x)] else []) := by
  have hh := hwf.1
  have hw := hwf.2.1
  unfold clueCs
  simp only
  rw [tableGet_eq hwf hy hx, ok_bind]
  by_cases hv : val pb y x ≥ 0
  · rw [if_pos hv, if_pos hv]
    rw [bvars_eq, C11CL.getitemV_slices true Expr.bvar pb.height pb.width _ _ (around pb.height y) (around pb.width x)
      (axisSel_around _ _ hh hy) (axisSel_around _ _ hw hx)
      (fun c hc => around_lt hy hc) (fun c hc => around_lt hx hc), ok_bind]
    rw [C11CL.unop_invert_arr2 _ _ _ (by simp), ok_bind]
    rw [countTrueA_arr2 _ _ _ (by
      intro e he
      simp only [List.mem_map] at he
      obtain ⟨a, _, rfl⟩ := he
      rfl), ok_bind]
    obtain ⟨op, args, hop, hint⟩ := C11CL.countTrueE_isNode
      (((around pb.height y).flatMap fun cy => (around pb.width x).map fun cx => Expr.bvar (cy * pb.width + cx)).map
        fun a => Expr.node .not [a])
    rw [hop, C11CL.binop_eq_node_lit op args _ hint, ok_bind, C11CL.ensureV_scalar _ rfl]
    simp only [clueE, notsAround, hop]
  · rw [if_neg hv, if_neg hv]

/-! ### meaning of a clue constraint -/

theorem eval_clueE {pb : Problem} (σ : Asg) (g : Nat → Nat → Bool)
    (hg : ∀ y, y < pb.height → ∀ x, x < pb.width → g y x = σ.b (y * pb.width + x))
    {y x : Nat} (hy : y ≤ pb.height) (hx : x ≤ pb.width) (v : Int) :
    eval σ (clueE pb.height pb.width y x v) = some (.b true) ↔ (shadedAround pb g y x : Int) = v := by
  unfold clueE
  have hct : countTrue (notsAround pb.height pb.width y x) = .ok (countTrueE (notsAround pb.height pb.width y x)) :=
    countTrue_ok_of_boolLike (by
      intro e he
      simp only [notsAround, List.mem_map] at he
      obtain ⟨a, _, rfl⟩ := he
      rfl)
  let bs : List Bool := (around pb.height y).flatMap fun cy => (around pb.width x).map fun cx => !g cy cx
  have hbs : (notsAround pb.height pb.width y x).map (eval σ) = bs.map fun b => some (.b b) := by
    simp only [notsAround, bs, List.map_map, List.map_flatMap]
    apply List.flatMap_congr
    intro cy hcy
    apply List.map_congr_left
    intro cx hcx
    simp only [Function.comp, eval_node, List.map_cons, List.map_nil, eval_bvar, evalOp]
    rw [hg cy (around_lt hy hcy) cx (around_lt hx hcx)]
  rw [eval_node]
  simp only [List.map_cons, List.map_nil, eval_litI]
  rw [eval_countTrue bs hct hbs, evalOp_cmp rfl]
  simp only [cmpOp_eq, Option.some.injEq, Val.b.injEq, beq_iff_eq]
  have hcount : bs.count true = shadedAround pb g y x := by
    simp only [bs, shadedAround, around]
    by_cases h1 : 0 < y <;> by_cases h2 : y < pb.height <;> by_cases h3 : 0 < x <;> by_cases h4 : x < pb.width <;>
      simp [h1, h2, h3, h4, List.count_cons] <;> omega
  rw [hcount]

/-! ### the posted program in closed form -/

/-- The connectivity fragment. -/
def avc (pb : Problem) : Prog :=
  C04L1.avcProg (Graph.grid pb.height pb.width) (bvars 0 (pb.height * pb.width)) (pb.height * pb.width) false

/-- The clue constraints. -/
def clues (pb : Problem) : List Expr :=
  (cellsOf (pb.height + 1) (pb.width + 1)).flatMap fun p =>
    if 0 ≤ val pb p.1 p.2 then [clueE pb.height pb.width p.1 p.2 (val pb p.1 p.2)] else []

theorem mem_cellsOf {h w : Nat} {p : Nat × Nat} : p ∈ cellsOf h w ↔ p.1 < h ∧ p.2 < w := by
  simp only [cellsOf, List.mem_flatMap, List.mem_range, List.mem_map]
  constructor
  · rintro ⟨y, hy, x, hx, rfl⟩; exact ⟨hy, hx⟩
  · rintro ⟨hy, hx⟩; exact ⟨p.1, hy, p.2, hx, rfl⟩

theorem grid_pos {pb : Problem} (hwf : WellFormed pb) : 0 < (Graph.grid pb.height pb.width).n :=
  Nat.mul_pos hwf.1 hwf.2.1

theorem avc_eq {pb : Problem} (hwf : WellFormed pb) :
    activeVerticesConnected (Graph.grid pb.height pb.width) (bvars 0 (pb.height * pb.width))
      (pb.height * pb.width) false false = .ok (avc pb) :=
  C04L1.avc_eq_prog (grid_pos hwf) (C04Prim.grid_wf _ _) (by simp [bvars, Graph.grid])
    (C11FragWT.bvars_boolArgs _)

theorem program_eq {pb : Problem} (hwf : WellFormed pb) :
    program pb = .ok { decls := List.replicate (pb.height * pb.width) .bool ++ (avc pb).decls,
                       cs := (avc pb).cs ++ clues pb, keys := List.range (pb.height * pb.width) } := by
  unfold program programWith
  simp only
  rw [C11Grid.addKeys_bvars, ok_bind, avc_eq hwf, ok_bind]
  rw [mapM_eq_ok_map (g := fun p : Nat × Nat =>
      if 0 ≤ val pb p.1 p.2 then [clueE pb.height pb.width p.1 p.2 (val pb p.1 p.2)] else [])]
  · simp only [ok_bind, clues, List.flatMap_def]
  · intro p hp
    obtain ⟨h1, h2⟩ := mem_cellsOf.1 hp
    exact clueCs_eq hwf (by omega) (by omega)

/-! ### the theorem -/

theorem clueE_wt (h w : Nat) {y x : Nat} (hy : y ≤ h) (hx : x ≤ w) (v : Int) :
    wtB (clueE h w y x v) = true ∧ (clueE h w y x v).varsBelow (h * w) = true := by
  have hxs : ∀ e ∈ notsAround h w y x, wtB e = true ∧ e.varsBelow (h * w) = true := by
    intro e he
    simp only [notsAround, List.mem_map, List.mem_flatMap] at he
    obtain ⟨a, ⟨cy, hcy, cx, hcx, rfl⟩, rfl⟩ := he
    refine ⟨rfl, ?_⟩
    have := C11Grid.cell_lt (around_lt hy hcy) (around_lt hx hcx)
    simp only [Expr.varsBelow, Expr.varsBelow.varsBelowList, decide_eq_true_eq, Bool.and_true]
    exact this
  exact ⟨C11FragWT.wtB_cmp_countTrueE .eq rfl _ v (fun e he => (hxs e he).1),
    C11FragWT.varsBelow_cmp_countTrueE _ .eq _ v (fun e he => (hxs e he).2)⟩

theorem mem_clues {pb : Problem} {c : Expr} :
    c ∈ clues pb ↔ ∃ y x, y ≤ pb.height ∧ x ≤ pb.width ∧ 0 ≤ val pb y x ∧
      c = clueE pb.height pb.width y x (val pb y x) := by
  simp only [clues, List.mem_flatMap]
  constructor
  · rintro ⟨p, hp, hc⟩
    obtain ⟨h1, h2⟩ := mem_cellsOf.1 hp
    split at hc
    · next hv => simp at hc; exact ⟨p.1, p.2, by omega, by omega, hv, hc⟩
    · simp at hc
  · rintro ⟨y, x, hy, hx, hv, rfl⟩
    exact ⟨(y, x), mem_cellsOf.2 ⟨by simp; omega, by simp; omega⟩, by simp [hv]⟩

theorem encodes {pb : Problem} (hwf : WellFormed pb) :
    EncodesRules { decls := List.replicate (pb.height * pb.width) .bool ++ (avc pb).decls,
                   cs := (avc pb).cs ++ clues pb, keys := List.range (pb.height * pb.width) } (Rules pb) := by
  apply C11Frag.encodes_bool_grid_frag pb.height pb.width (avc pb) (clues pb) _ (RulesGrid pb)
    (fun c => List.mem_append)
  · intro c hc
    obtain ⟨y, x, hy, hx, _, rfl⟩ := mem_clues.1 hc
    exact (clueE_wt _ _ hy hx _).2
  · intro σ g hg
    have hreal := Cspuz.C04.C04_aux_exact (Graph.grid pb.height pb.width) (bvars 0 (pb.height * pb.width))
      (pb.height * pb.width) false (avc pb) σ (C04Prim.grid_wf _ _) (by intro h; cases h)
      (by simp [bvars, Graph.grid]) (C11FragWT.bvars_boolArgs _) (avc_eq hwf)
    simp only [Bool.false_eq_true, if_false] at hreal
    rw [hreal, C11CellGraph.activeConnected_grid_iff pb.height pb.width _ (fun y x => g y x = true) (by
      intro y x hy hx
      rw [C11FragWT.truthAt_bvars σ _ _ (C11Grid.cell_lt hy hx), hg y hy x hx])]
    unfold RulesGrid
    rw [and_comm]
    apply and_congr_left'
    constructor
    · intro h y hy x hx hv
      exact (eval_clueE σ g hg hy hx _).1 (h _ (mem_clues.2 ⟨y, x, hy, hx, hv, rfl⟩))
    · intro h c hc
      obtain ⟨y, x, hy, hx, hv, rfl⟩ := mem_clues.1 hc
      exact (eval_clueE σ g hg hy hx _).2 (h y hy x hx hv)

theorem main (pb : Problem) (hwf : WellFormed pb) (P : PuzzleProg) (hP : program pb = .ok P) :
    EncodesRules P (Rules pb) ∧ P.KeysOk ∧ (∀ c ∈ P.cs, wtB c = true) := by
  rw [program_eq hwf] at hP
  cases hP
  refine ⟨encodes hwf, C11Frag.keysOk_range_le _ _ _ (by simp), ?_⟩
  intro c hc
  rcases List.mem_append.1 hc with hc | hc
  · exact (C11FragWT.avcProg_wt (C04Prim.grid_wf _ _) (by simp [bvars, Graph.grid])
      (C11FragWT.bvars_boolArgs _) c hc).1
  · obtain ⟨y, x, hy, hx, _, rfl⟩ := mem_clues.1 hc
    exact (clueE_wt _ _ hy hx _).1

theorem total (pb : Problem) (hwf : WellFormed pb) : ∃ P, program pb = .ok P := ⟨_, program_eq hwf⟩

end Cspuz.Proofs.C11Creek
