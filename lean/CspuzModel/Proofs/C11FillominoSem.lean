/-
  C11 / Fillomino — the graph-theoretic core: on a graph that "is" the `h × w` cell grid, with border
  edges exactly where the sizes `s` of the two end cells differ, `BordersOK` (Spec/C07Spec.lean: blocks of
  the cut graph have the demanded sizes, border edges separate different blocks) is the same thing as the
  division form of the Fillomino rules (Spec/PuzzleRules/Fillomino.lean), and a 2-colouring of the cells
  that changes exactly across the borders is the same thing as a checkered colouring of the blocks.
-/
import Mathlib.Data.Set.Card
import CspuzModel.Spec.PuzzleRules.Fillomino
import CspuzModel.Spec.C07Spec
import CspuzModel.Proofs.C11Grid
namespace Cspuz.Proofs.C11FillominoSem
open Cspuz Cspuz.Spec Cspuz.Spec.Fillomino Cspuz.Proofs

/-! ### generic graph facts -/

/-- A walk of `F` whose image under `f` cannot leave `S` maps to a walk of `G'.induce S`. -/
theorem reach_map_induce {V V' : Type*} {F : SimpleGraph V} {G' : SimpleGraph V'} (f : V → V') (S : Set V')
    (hFG : ∀ a b, F.Adj a b → G'.Adj (f a) (f b)) (hS : ∀ a b, F.Adj a b → f a ∈ S → f b ∈ S)
    {u v : V} (h : F.Reachable u v) (hu : f u ∈ S) :
    ∃ hv : f v ∈ S, (G'.induce S).Reachable ⟨f u, hu⟩ ⟨f v, hv⟩ := by
  obtain ⟨p⟩ := h
  induction p with
  | nil => exact ⟨hu, SimpleGraph.Reachable.refl _⟩
  | cons hadj q ih =>
    rename_i a b d
    have hb : f b ∈ S := hS _ _ hadj hu
    obtain ⟨hv, r⟩ := ih hb
    refine ⟨hv, SimpleGraph.Reachable.trans (SimpleGraph.Adj.reachable ?_) r⟩
    show G'.Adj (f a) (f b)
    exact hFG _ _ hadj

/-- A relation that is reflexive, transitive and contains the edges of `F` contains reachability. -/
theorem reach_rel {V : Type*} {F : SimpleGraph V} (R : V → V → Prop) (hr : ∀ a, R a a)
    (ht : ∀ a b c, R a b → R b c → R a c) (hf : ∀ a b, F.Adj a b → R a b)
    {u v : V} (h : F.Reachable u v) : R u v := by
  obtain ⟨p⟩ := h
  induction p with
  | nil => exact hr _
  | cons hadj q ih => exact ht _ _ _ (hf _ _ hadj) ih

/-! ### the cell grid -/

/-- Cell of the vertex `u` of the grid graph (`u = row * w + column`). -/
def cellOf (w u : Nat) : Nat × Nat := (u / w, u % w)

theorem cellOf_idx {w : Nat} {p : Nat × Nat} (hx : p.2 < w) : cellOf w (p.1 * w + p.2) = p := by
  unfold cellOf
  rw [(C11Grid.cell_div_mod hx).1, (C11Grid.cell_div_mod hx).2]

theorem idx_cellOf (w u : Nat) : (cellOf w u).1 * w + (cellOf w u).2 = u := Nat.div_add_mod' u w

theorem onBoard_cellOf {h w u : Nat} (hu : u < h * w) : OnBoard h w (cellOf w u) :=
  C11Grid.div_lt_of_lt_mul hu

theorem cellOf_inj {w u v : Nat} (h : cellOf w u = cellOf w v) : u = v := by
  rw [← idx_cellOf w u, ← idx_cellOf w v, h]

/-- The graph `G` is the grid graph of the `h × w` board with vertex `row * w + column` for a cell. -/
structure GridLike (h w : Nat) (G : Graph) : Prop where
  n_eq : G.n = h * w
  adj : ∀ u v, u < G.n → v < G.n → ((∃ k, Joins G k u v) ↔ cellGraph.Adj (cellOf w u) (cellOf w v))

/-- The border edges are exactly the edges whose end cells carry different numbers. -/
def BdIs (G : Graph) (bd : Nat → Bool) (s : Nat → Int) : Prop :=
  ∀ k u v, Joins G k u v → (bd k = true ↔ s u ≠ s v)

section
variable {h w : Nat} {G : Graph} {s : Nat → Int} {bd : Nat → Bool}

theorem idx_lt (GL : GridLike h w G) {p : Nat × Nat} (hp : OnBoard h w p) : p.1 * w + p.2 < G.n := by
  rw [GL.n_eq]; exact C11Grid.cell_lt hp.1 hp.2

theorem onBoard_fin (GL : GridLike h w G) (u : Fin G.n) : OnBoard h w (cellOf w u.1) :=
  onBoard_cellOf (by rw [← GL.n_eq]; exact u.2)

/-- Two vertices are joined by a non-border edge iff their cells are neighbours with equal numbers. -/
theorem cut_adj (GL : GridLike h w G) (hbd : BdIs G bd s) (u v : Fin G.n) :
    (cutGraph G bd).Adj u v ↔ cellGraph.Adj (cellOf w u.1) (cellOf w v.1) ∧ s u.1 = s v.1 := by
  constructor
  · rintro ⟨_, k, hk, hj⟩
    refine ⟨(GL.adj u.1 v.1 u.2 v.2).1 ⟨k, hj⟩, ?_⟩
    by_contra hne
    have := (hbd k u.1 v.1 hj).2 hne
    rw [hk] at this; cases this
  · rintro ⟨hadj, hs⟩
    obtain ⟨k, hj⟩ := (GL.adj u.1 v.1 u.2 v.2).2 hadj
    refine ⟨?_, k, ?_, hj⟩
    · intro huv
      rw [huv] at hadj
      exact cellGraph.loopless.irrefl _ hadj
    · cases hb : bd k with
      | false => rfl
      | true => exact absurd hs ((hbd k u.1 v.1 hj).1 hb)

theorem reach_cast {a b a' b' : Nat} (ha : a < G.n) (hb : b < G.n) (ha' : a' < G.n) (hb' : b' < G.n)
    (ea : a = a') (eb : b = b') :
    (cutGraph G bd).Reachable ⟨a, ha⟩ ⟨b, hb⟩ ↔ (cutGraph G bd).Reachable ⟨a', ha'⟩ ⟨b', hb'⟩ := by
  subst ea eb; rfl

/-! ### from the cut graph to a division -/

/-- The division obtained by cutting the border edges. -/
def canon (h w : Nat) (G : Graph) (bd : Nat → Bool) : Division h w where
  same p q := OnBoard h w p ∧ OnBoard h w q ∧
    ∃ (hu : p.1 * w + p.2 < G.n) (hv : q.1 * w + q.2 < G.n), (cutGraph G bd).Reachable ⟨_, hu⟩ ⟨_, hv⟩
  refl p hp := ⟨hp, hp, ?_⟩
  symm p q := fun ⟨hp, hq, hu, hv, r⟩ => ⟨hq, hp, hv, hu, r.symm⟩
  trans p q r := fun ⟨hp, _, hu, _, r1⟩ ⟨_, hr, _, hw, r2⟩ => ⟨hp, hr, hu, hw, r1.trans r2⟩

end

end Cspuz.Proofs.C11FillominoSem
