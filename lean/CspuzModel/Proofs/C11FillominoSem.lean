/-
  C11 / Fillomino — the graph-theoretic core: on a graph that "is" the `h × w` cell grid, with border
  edges exactly where the sizes `s` of the two end cells differ, `BordersOK` (Spec/C07Spec.lean: blocks of
  the cut graph have the demanded sizes, border edges separate different blocks) is the same thing as the
  division form of the Fillomino rules (Spec/PuzzleRules/Fillomino.lean), and a 2-colouring of the cells
  that changes exactly across the borders is the same thing as a checkered colouring of the blocks.
-/
import Mathlib.Data.Set.Card
import CspuzModel.Spec.PuzzleRules.Fillomino
import CspuzModel.Spec.C07Spec
import CspuzModel.Proofs.C11Grid
namespace Cspuz.Proofs.C11FillominoSem
open Cspuz Cspuz.Spec Cspuz.Spec.Fillomino Cspuz.Proofs

/-! ### generic graph facts -/

/-- A walk of `F` whose image under `f` cannot leave `S` maps to a walk of `G'.induce S`. -/
theorem reach_map_induce {V V' : Type*} {F : SimpleGraph V} {G' : SimpleGraph V'} (f : V → V') (S : Set V')
    (hFG : ∀ a b, F.Adj a b → G'.Adj (f a) (f b)) (hS : ∀ a b, F.Adj a b → f a ∈ S → f b ∈ S)
    {u v : V} (h : F.Reachable u v) (hu : f u ∈ S) :
    ∃ hv : f v ∈ S, (G'.induce S).Reachable ⟨f u, hu⟩ ⟨f v, hv⟩ := by
  obtain ⟨p⟩ := h
  induction p with
  | nil => exact ⟨hu, SimpleGraph.Reachable.refl _⟩
  | cons hadj q ih =>
    rename_i a b d
    have hb : f b ∈ S := hS _ _ hadj hu
    obtain ⟨hv, r⟩ := ih hb
    refine ⟨hv, SimpleGraph.Reachable.trans (SimpleGraph.Adj.reachable ?_) r⟩
    show G'.Adj (f a) (f b)
    exact hFG _ _ hadj

/-- A relation that is reflexive, transitive and contains the edges of `F` contains reachability. -/
theorem reach_rel {V : Type*} {F : SimpleGraph V} (R : V → V → Prop) (hr : ∀ a, R a a)
    (ht : ∀ a b c, R a b → R b c → R a c) (hf : ∀ a b, F.Adj a b → R a b)
    {u v : V} (h : F.Reachable u v) : R u v := by
  obtain ⟨p⟩ := h
  induction p with
  | nil => exact hr _
  | cons hadj q ih => exact ht _ _ _ (hf _ _ hadj) ih

/-! ### the cell grid -/

/-- Cell of the vertex `u` of the grid graph (`u = row * w + column`). -/
def cellOf (w u : Nat) : Nat × Nat := (u / w, u % w)

theorem cellOf_idx {w : Nat} {p : Nat × Nat} (hx : p.2 < w) : cellOf w (p.1 * w + p.2) = p := by
  unfold cellOf
  rw [(C11Grid.cell_div_mod hx).1, (C11Grid.cell_div_mod hx).2]

theorem idx_cellOf (w u : Nat) : (cellOf w u).1 * w + (cellOf w u).2 = u := Nat.div_add_mod' u w

theorem onBoard_cellOf {h w u : Nat} (hu : u < h * w) : OnBoard h w (cellOf w u) :=
  C11Grid.div_lt_of_lt_mul hu

theorem cellOf_inj {w u v : Nat} (h : cellOf w u = cellOf w v) : u = v := by
  rw [← idx_cellOf w u, ← idx_cellOf w v, h]

/-- The graph `G` is the grid graph of the `h × w` board with vertex `row * w + column` for a cell. -/
structure GridLike (h w : Nat) (G : Graph) : Prop where
  n_eq : G.n = h * w
  adj : ∀ u v, u < G.n → v < G.n → ((∃ k, Joins G k u v) ↔ cellGraph.Adj (cellOf w u) (cellOf w v))

/-- The border edges are exactly the edges whose end cells carry different numbers. -/
def BdIs (G : Graph) (bd : Nat → Bool) (s : Nat → Int) : Prop :=
  ∀ k u v, Joins G k u v → (bd k = true ↔ s u ≠ s v)

section
variable {h w : Nat} {G : Graph} {s : Nat → Int} {bd : Nat → Bool}

theorem idx_lt (GL : GridLike h w G) {p : Nat × Nat} (hp : OnBoard h w p) : p.1 * w + p.2 < G.n := by
  rw [GL.n_eq]; exact C11Grid.cell_lt hp.1 hp.2

theorem onBoard_fin (GL : GridLike h w G) (u : Fin G.n) : OnBoard h w (cellOf w u.1) :=
  onBoard_cellOf (by rw [← GL.n_eq]; exact u.2)

/-- Two vertices are joined by a non-border edge iff their cells are neighbours with equal numbers. -/
theorem cut_adj (GL : GridLike h w G) (hbd : BdIs G bd s) (u v : Fin G.n) :
    (cutGraph G bd).Adj u v ↔ cellGraph.Adj (cellOf w u.1) (cellOf w v.1) ∧ s u.1 = s v.1 := by
  constructor
  · rintro ⟨_, k, hk, hj⟩
    refine ⟨(GL.adj u.1 v.1 u.2 v.2).1 ⟨k, hj⟩, ?_⟩
    by_contra hne
    have := (hbd k u.1 v.1 hj).2 hne
    rw [hk] at this; cases this
  · rintro ⟨hadj, hs⟩
    obtain ⟨k, hj⟩ := (GL.adj u.1 v.1 u.2 v.2).2 hadj
    refine ⟨?_, k, ?_, hj⟩
    · intro huv
      rw [huv] at hadj
      exact cellGraph.loopless.irrefl _ hadj
    · cases hb : bd k with
      | false => rfl
      | true => exact absurd hs ((hbd k u.1 v.1 hj).1 hb)

theorem reach_cast {a b a' b' : Nat} (ha : a < G.n) (hb : b < G.n) (ha' : a' < G.n) (hb' : b' < G.n)
    (ea : a = a') (eb : b = b') :
    (cutGraph G bd).Reachable ⟨a, ha⟩ ⟨b, hb⟩ ↔ (cutGraph G bd).Reachable ⟨a', ha'⟩ ⟨b', hb'⟩ := by
  subst ea eb; rfl

/-! ### from the cut graph to a division -/

/-- The division obtained by cutting the border edges. -/
def canon (GL : GridLike h w G) (bd : Nat → Bool) : Division h w where
  same p q := OnBoard h w p ∧ OnBoard h w q ∧
    ∃ (hu : p.1 * w + p.2 < G.n) (hv : q.1 * w + q.2 < G.n), (cutGraph G bd).Reachable ⟨_, hu⟩ ⟨_, hv⟩
  refl _ hp := ⟨hp, hp, idx_lt GL hp, idx_lt GL hp, SimpleGraph.Reachable.refl _⟩
  symm _ _ := fun ⟨hp, hq, hu, hv, r⟩ => ⟨hq, hp, hv, hu, r.symm⟩
  trans _ _ _ := fun ⟨hp, _, hu, _, r1⟩ ⟨_, hr, _, hw, r2⟩ => ⟨hp, hr, hu, hw, r1.trans r2⟩

theorem canon_same_fin (GL : GridLike h w G) (u v : Fin G.n) :
    (canon GL bd).same (cellOf w u.1) (cellOf w v.1) ↔ (cutGraph G bd).Reachable u v := by
  constructor
  · rintro ⟨_, _, hu, hv, r⟩
    exact (reach_cast hu hv u.2 v.2 (idx_cellOf w u.1) (idx_cellOf w v.1)).1 r
  · intro r
    refine ⟨onBoard_fin GL u, onBoard_fin GL v, by rw [idx_cellOf]; exact u.2, by rw [idx_cellOf]; exact v.2, ?_⟩
    exact (reach_cast _ _ u.2 v.2 (idx_cellOf w u.1) (idx_cellOf w v.1)).2 r

theorem canon_same_idx (GL : GridLike h w G) {p q : Nat × Nat} (hp : OnBoard h w p) (hq : OnBoard h w q) :
    (canon GL bd).same p q ↔ (cutGraph G bd).Reachable ⟨_, idx_lt GL hp⟩ ⟨_, idx_lt GL hq⟩ :=
  ⟨fun ⟨_, _, _, _, r⟩ => r, fun r => ⟨hp, hq, _, _, r⟩⟩

/-- The block of `p` has as many cells as the component of its vertex in the cut graph. -/
theorem canon_size (GL : GridLike h w G) {p : Nat × Nat} (hp : OnBoard h w p) :
    (canon GL bd).size p = Set.ncard {x : Fin G.n | (cutGraph G bd).Reachable ⟨_, idx_lt GL hp⟩ x} := by
  unfold Division.size
  symm
  apply Set.ncard_congr (fun x _ => cellOf w x.1)
  · intro x hx
    refine ⟨onBoard_fin GL x, hp, onBoard_fin GL x, idx_lt GL hp, by rw [idx_cellOf]; exact x.2, ?_⟩
    exact (reach_cast _ _ _ x.2 rfl (idx_cellOf w x.1)).2 hx
  · intro a b _ _ hab
    exact Fin.ext (cellOf_inj hab)
  · rintro q ⟨hq, hs⟩
    exact ⟨⟨_, idx_lt GL hq⟩, (canon_same_idx GL hp hq).1 hs, cellOf_idx hq.2⟩

/-- The blocks of the cut division are orthogonally connected. -/
theorem canon_conn (GL : GridLike h w G) (hbd : BdIs G bd s) (p : Nat × Nat) :
    (cellGraph.induce ((canon GL bd).block p)).Preconnected := by
  rintro ⟨a, ha, hsa⟩ ⟨b, hb, hsb⟩
  have hab : (cutGraph G bd).Reachable ⟨_, idx_lt GL ha⟩ ⟨_, idx_lt GL hb⟩ :=
    (canon_same_idx GL ha hb).1 ((canon GL bd).trans _ _ _ ((canon GL bd).symm _ _ hsa) hsb)
  have hu : cellOf w (a.1 * w + a.2) ∈ (canon GL bd).block p := by rw [cellOf_idx ha.2]; exact ⟨ha, hsa⟩
  obtain ⟨hv, r⟩ := reach_map_induce (G' := cellGraph) (fun x : Fin G.n => cellOf w x.1) ((canon GL bd).block p)
    (fun x y hxy => ((cut_adj GL hbd x y).1 hxy).1)
    (fun x y hxy hx => ⟨onBoard_fin GL y, (canon GL bd).trans _ _ _ hx.2
      ((canon_same_fin GL x y).2 (SimpleGraph.Adj.reachable hxy))⟩) hab hu
  have ea : (⟨cellOf w (a.1 * w + a.2), hu⟩ : ↥((canon GL bd).block p)) = ⟨a, ha, hsa⟩ :=
    Subtype.ext (cellOf_idx ha.2)
  have eb : (⟨cellOf w (b.1 * w + b.2), hv⟩ : ↥((canon GL bd).block p)) = ⟨b, hb, hsb⟩ :=
    Subtype.ext (cellOf_idx hb.2)
  rw [← ea, ← eb]
  exact r

/-- Neighbouring cells with equal numbers are in the same block of the cut division. -/
theorem canon_same_of_adj (GL : GridLike h w G) (hbd : BdIs G bd s) {p q : Nat × Nat}
    (hp : OnBoard h w p) (hq : OnBoard h w q) (hadj : cellGraph.Adj p q)
    (hs : s (p.1 * w + p.2) = s (q.1 * w + q.2)) : (canon GL bd).same p q := by
  rw [canon_same_idx GL hp hq]
  apply SimpleGraph.Adj.reachable
  rw [cut_adj GL hbd]
  refine ⟨?_, hs⟩
  show cellGraph.Adj (cellOf w (p.1 * w + p.2)) (cellOf w (q.1 * w + q.2))
  rw [cellOf_idx hp.2, cellOf_idx hq.2]; exact hadj

/-- A cell colouring that changes exactly across the borders is constant on the blocks of the cut division. -/
theorem canon_colour_const (GL : GridLike h w G) (hbd : BdIs G bd s) (c : Nat → Bool)
    (hc : ∀ u v, u < G.n → v < G.n → cellGraph.Adj (cellOf w u) (cellOf w v) → (s u ≠ s v ↔ c u ≠ c v))
    {p q : Nat × Nat} (hs : (canon GL bd).same p q) : c (p.1 * w + p.2) = c (q.1 * w + q.2) := by
  obtain ⟨_, _, hu, hv, r⟩ := hs
  refine reach_rel (F := cutGraph G bd) (fun x y : Fin G.n => c x.1 = c y.1) (fun _ => rfl)
    (fun _ _ _ h1 h2 => h1.trans h2) ?_ r
  intro x y hxy
  obtain ⟨hadj, hsxy⟩ := (cut_adj GL hbd x y).1 hxy
  by_contra hne
  exact (hc x.1 y.1 x.2 y.2 hadj).2 hne hsxy

/-! ### from a division to the cut graph -/

theorem block_eq_of_same (D : Division h w) {a b : Nat × Nat} (hab : D.same a b) : D.block a = D.block b := by
  ext q
  exact ⟨fun ⟨hq, h1⟩ => ⟨hq, D.trans _ _ _ (D.symm _ _ hab) h1⟩, fun ⟨hq, h1⟩ => ⟨hq, D.trans _ _ _ hab h1⟩⟩

theorem size_eq_of_same (D : Division h w) {a b : Nat × Nat} (hab : D.same a b) : D.size a = D.size b := by
  unfold Division.size; rw [block_eq_of_same D hab]

/-- What the rules say about a division `D` and the numbers `s`, without givens and colours. -/
structure Obeys (h w : Nat) (D : Division h w) (s : Nat → Int) : Prop where
  conn : ∀ p, OnBoard h w p → (cellGraph.induce (D.block p)).Preconnected
  size : ∀ p, OnBoard h w p → s (p.1 * w + p.2) = (D.size p : Int)
  dist : ∀ p q, OnBoard h w p → OnBoard h w q → cellGraph.Adj p q → ¬ D.same p q → D.size p ≠ D.size q

variable {D : Division h w}

theorem s_fin (GL : GridLike h w G) (hO : Obeys h w D s) (u : Fin G.n) : s u.1 = (D.size (cellOf w u.1) : Int) := by
  have := hO.size _ (onBoard_fin GL u)
  rwa [idx_cellOf] at this

/-- Joined by non-border edges ⇒ same block. -/
theorem same_of_reach (GL : GridLike h w G) (hbd : BdIs G bd s) (hO : Obeys h w D s) {u v : Fin G.n}
    (r : (cutGraph G bd).Reachable u v) : D.same (cellOf w u.1) (cellOf w v.1) := by
  refine reach_rel (F := cutGraph G bd) (fun x y : Fin G.n => D.same (cellOf w x.1) (cellOf w y.1))
    (fun x => D.refl _ (onBoard_fin GL x)) (fun _ _ _ h1 h2 => D.trans _ _ _ h1 h2) ?_ r
  intro x y hxy
  obtain ⟨hadj, hsxy⟩ := (cut_adj GL hbd x y).1 hxy
  by_contra hns
  have := hO.dist _ _ (onBoard_fin GL x) (onBoard_fin GL y) hadj hns
  rw [s_fin GL hO x, s_fin GL hO y] at hsxy
  exact this (by exact_mod_cast hsxy)

/-- Same block ⇒ joined by non-border edges. -/
theorem reach_of_same (GL : GridLike h w G) (hbd : BdIs G bd s) (hO : Obeys h w D s) {p q : Nat × Nat}
    (hp : OnBoard h w p) (hq : OnBoard h w q) (hs : D.same p q) :
    (cutGraph G bd).Reachable ⟨_, idx_lt GL hp⟩ ⟨_, idx_lt GL hq⟩ := by
  have r := hO.conn p hp ⟨p, hp, D.refl p hp⟩ ⟨q, hq, hs⟩
  let f : cellGraph.induce (D.block p) →g cutGraph G bd :=
    { toFun := fun x => ⟨x.1.1 * w + x.1.2, idx_lt GL x.2.1⟩
      map_rel' := by
        rintro ⟨a, ha, hsa⟩ ⟨b, hb, hsb⟩ hab
        rw [cut_adj GL hbd]
        refine ⟨?_, ?_⟩
        · show cellGraph.Adj (cellOf w (a.1 * w + a.2)) (cellOf w (b.1 * w + b.2))
          rw [cellOf_idx ha.2, cellOf_idx hb.2]; exact hab
        · show s (a.1 * w + a.2) = s (b.1 * w + b.2)
          rw [hO.size a ha, hO.size b hb,
            size_eq_of_same D (D.trans _ _ _ (D.symm _ _ hsa) hsb)] }
  exact r.map f

/-- The rules imply `BordersOK` of the cut graph. -/
theorem bordersOK_of_obeys (GL : GridLike h w G) (hbd : BdIs G bd s) (hO : Obeys h w D s) :
    BordersOK G bd (fun v => some (s v)) := by
  constructor
  · intro k u v hk hj hu hv r
    have hsame := same_of_reach GL hbd hO r
    have hne := (hbd k u v hj).1 hk
    apply hne
    have e1 := s_fin GL hO ⟨u, hu⟩
    have e2 := s_fin GL hO ⟨v, hv⟩
    simp only at e1 e2
    rw [e1, e2, size_eq_of_same D hsame]
  · intro v s' hv hs'
    simp only [Option.some.injEq] at hs'
    rw [← hs', s_fin GL hO ⟨v, hv⟩]
    congr 1
    unfold Division.size
    apply Set.ncard_congr (fun x _ => cellOf w x.1)
    · intro x hx
      exact ⟨onBoard_fin GL x, same_of_reach GL hbd hO hx⟩
    · intro a b _ _ hab
      exact Fin.ext (cellOf_inj hab)
    · rintro q ⟨hq, hs⟩
      have hv' : OnBoard h w (cellOf w v) := onBoard_fin GL ⟨v, hv⟩
      refine ⟨⟨_, idx_lt GL hq⟩, ?_, cellOf_idx hq.2⟩
      have := reach_of_same GL hbd hO hv' hq hs
      exact (reach_cast _ _ hv _ (idx_cellOf w v) rfl).1 this

/-- A checkered colouring of the blocks changes exactly across the borders. -/
theorem colour_of_obeys (GL : GridLike h w G) (hbd : BdIs G bd s) (hO : Obeys h w D s) (colour : Nat × Nat → Bool)
    (h1 : ∀ p q, OnBoard h w p → OnBoard h w q → D.same p q → colour p = colour q)
    (h2 : ∀ p q, OnBoard h w p → OnBoard h w q → cellGraph.Adj p q → ¬ D.same p q → colour p ≠ colour q)
    (u v : Nat) (hu : u < G.n) (hv : v < G.n) (hadj : cellGraph.Adj (cellOf w u) (cellOf w v)) :
    s u ≠ s v ↔ colour (cellOf w u) ≠ colour (cellOf w v) := by
  have bu := onBoard_fin GL ⟨u, hu⟩
  have bv := onBoard_fin GL ⟨v, hv⟩
  have e1 := s_fin GL hO ⟨u, hu⟩
  have e2 := s_fin GL hO ⟨v, hv⟩
  simp only at e1 e2 bu bv
  constructor
  · intro hne
    apply h2 _ _ bu bv hadj
    intro hsame
    apply hne
    rw [e1, e2, size_eq_of_same D hsame]
  · intro hne hs
    apply hne
    apply h1 _ _ bu bv
    have : (cutGraph G bd).Adj ⟨u, hu⟩ ⟨v, hv⟩ := (cut_adj GL hbd _ _).2 ⟨hadj, hs⟩
    exact same_of_reach GL hbd hO (SimpleGraph.Adj.reachable this)

/-! ### the equivalence -/

/-- `BordersOK` of the cut graph (with the numbers themselves as demanded block sizes) is the division form
of the rules; a colouring of the vertices that changes exactly across the borders is a checkered colouring. -/
theorem bordersOK_iff (GL : GridLike h w G) (hbd : BdIs G bd s) (chk : Bool) :
    (BordersOK G bd (fun v => some (s v)) ∧
      (chk = true → ∃ c : Nat → Bool, ∀ u v, u < G.n → v < G.n → cellGraph.Adj (cellOf w u) (cellOf w v) →
        (s u ≠ s v ↔ c u ≠ c v))) ↔
    ∃ D : Division h w, Obeys h w D s ∧
      (chk = true → ∃ colour : Nat × Nat → Bool,
        (∀ p q, OnBoard h w p → OnBoard h w q → D.same p q → colour p = colour q) ∧
        (∀ p q, OnBoard h w p → OnBoard h w q → cellGraph.Adj p q → ¬ D.same p q → colour p ≠ colour q)) := by
  constructor
  · rintro ⟨hB, hC⟩
    have hsize : ∀ p, OnBoard h w p → s (p.1 * w + p.2) = ((canon GL bd).size p : Int) := by
      intro p hp
      rw [canon_size GL hp]
      exact (hB.2 _ _ (idx_lt GL hp) rfl).symm
    have hdist : ∀ p q, OnBoard h w p → OnBoard h w q → cellGraph.Adj p q → ¬ (canon GL bd).same p q →
        s (p.1 * w + p.2) ≠ s (q.1 * w + q.2) :=
      fun p q hp hq hadj hns hs => hns (canon_same_of_adj GL hbd hp hq hadj hs)
    refine ⟨canon GL bd, ⟨fun p _ => canon_conn GL hbd p, hsize, ?_⟩, ?_⟩
    · intro p q hp hq hadj hns hs
      apply hdist p q hp hq hadj hns
      rw [hsize p hp, hsize q hq, hs]
    · intro hchk
      obtain ⟨c, hc⟩ := hC hchk
      refine ⟨fun p => c (p.1 * w + p.2), fun p q _ _ hs => canon_colour_const GL hbd c hc hs, ?_⟩
      intro p q hp hq hadj hns
      have := hc _ _ (idx_lt GL hp) (idx_lt GL hq) (by rw [cellOf_idx hp.2, cellOf_idx hq.2]; exact hadj)
      exact this.1 (hdist p q hp hq hadj hns)
  · rintro ⟨D, hO, hC⟩
    refine ⟨bordersOK_of_obeys GL hbd hO, ?_⟩
    intro hchk
    obtain ⟨colour, h1, h2⟩ := hC hchk
    exact ⟨fun u => colour (cellOf w u), colour_of_obeys GL hbd hO colour h1 h2⟩

/-- Block sizes lie between 1 and the number of cells. -/
theorem size_bounds {size : Nat → Option Int} (hB : BordersOK G bd size) {v : Nat} {x : Int} (hv : v < G.n)
    (hs : size v = some x) : 1 ≤ x ∧ x ≤ (G.n : Int) := by
  have h := hB.2 v x hv hs
  have h1 : 0 < Set.ncard {y : Fin G.n | (cutGraph G bd).Reachable ⟨v, hv⟩ y} :=
    (Set.ncard_pos).2 ⟨⟨v, hv⟩, SimpleGraph.Reachable.refl _⟩
  have h2 : Set.ncard {y : Fin G.n | (cutGraph G bd).Reachable ⟨v, hv⟩ y} ≤ G.n := by
    have := Set.ncard_le_card {y : Fin G.n | (cutGraph G bd).Reachable ⟨v, hv⟩ y}
    rwa [Nat.card_fin] at this
  omega

end

end Cspuz.Proofs.C11FillominoSem
