/-
  C11 / putteria — part 2: closed form of the program posted by `solve_putteria`.
-/
import CspuzModel.Spec.PuzzleRules.Putteria
import CspuzModel.Proofs.C11CL
import CspuzModel.Proofs.C11Grid
import CspuzModel.Proofs.C11PutteriaTable
namespace Cspuz.Proofs.C11Putteria
open Cspuz Cspuz.Spec Cspuz.Puzzles Cspuz.Puzzles.Putteria Cspuz.Proofs Cspuz.Proofs.C11CL
open Cspuz.Proofs.C11PutteriaTable

/-! ### Pieces of the program -/

/-- `~a` -/
def notE (a : Expr) : Expr := .node .not [a]
/-- `(~v_a) | (~v_b)` -/
def orNot (a b : Nat) : Expr := .node .or [.node .not [.bvar a], .node .not [.bvar b]]
/-- `~(v_a & v_b)` -/
def nand (a b : Nat) : Expr := .node .not [.node .and [.bvar a, .bvar b]]

/-- The variables selected by a pair of index lists. -/
def selE (w : Nat) (ys xs : List Nat) : List Expr := ys.flatMap fun y => xs.map fun x => Expr.bvar (y * w + x)

theorem selE_length (w : Nat) (ys xs : List Nat) : (selE w ys xs).length = ys.length * xs.length := by
  unfold selE
  induction ys with
  | nil => simp
  | cons a l ih => simp [List.flatMap_cons, Nat.succ_mul, Nat.add_comm]

theorem zipWith_map_map {ι α β γ : Type} (f : α → β → γ) (fa : ι → α) (fb : ι → β) (L : List ι) :
    List.zipWith f (L.map fa) (L.map fb) = L.map fun p => f (fa p) (fb p) := by
  induction L with
  | nil => rfl
  | cons a L ih => simp [ih]

theorem mem_zipWith {α β γ : Type} (f : α → β → γ) : ∀ (A : List α) (B : List β) (x : γ),
    x ∈ List.zipWith f A B → ∃ a b, x = f a b
  | [], _, x, h => by simp at h
  | _ :: _, [], x, h => by simp at h
  | a :: A, b :: B, x, h => by
    rw [List.zipWith_cons_cons, List.mem_cons] at h
    rcases h with rfl | h
    · exact ⟨a, b, rfl⟩
    · exact mem_zipWith f A B x h

theorem getitem_sel (h w : Nat) (ky kx : AxisKey) (ys xs : List Nat)
    (hy : axisSel h ky = .ok (false, ys)) (hx : axisSel w kx = .ok (false, xs))
    (hys : ∀ y ∈ ys, y < h) (hxs : ∀ x ∈ xs, x < w) :
    getitemV (.arr2 true h w ((List.range (h * w)).map Expr.bvar)) (.pair ky kx)
      = .ok (.arr2 true ys.length xs.length (selE w ys xs)) :=
  getitemV_slices true Expr.bvar h w ky kx ys xs hy hx hys hxs

theorem notBoth_closed (h w : Nat) (ky1 kx1 ky2 kx2 : AxisKey) (ys1 xs1 ys2 xs2 : List Nat)
    (hy1 : axisSel h ky1 = .ok (false, ys1)) (hx1 : axisSel w kx1 = .ok (false, xs1))
    (hy2 : axisSel h ky2 = .ok (false, ys2)) (hx2 : axisSel w kx2 = .ok (false, xs2))
    (by1 : ∀ y ∈ ys1, y < h) (bx1 : ∀ x ∈ xs1, x < w) (by2 : ∀ y ∈ ys2, y < h) (bx2 : ∀ x ∈ xs2, x < w)
    (hly : ys2.length = ys1.length) (hlx : xs2.length = xs1.length) :
    notBoth (.arr2 true h w ((List.range (h * w)).map Expr.bvar)) ky1 kx1 ky2 kx2
      = .ok (List.zipWith (fun a b => Expr.node .or [a, b])
          ((selE w ys1 xs1).map fun a => .node .not [a]) ((selE w ys2 xs2).map fun a => .node .not [a])) := by
  unfold notBoth
  rw [getitem_sel h w ky1 kx1 ys1 xs1 hy1 hx1 by1 bx1]
  simp only [ok_bind]
  rw [unop_invert_arr2 _ _ _ (selE_length w ys1 xs1)]
  simp only [ok_bind]
  rw [getitem_sel h w ky2 kx2 ys2 xs2 hy2 hx2 by2 bx2]
  simp only [ok_bind, hly, hlx]
  rw [unop_invert_arr2 _ _ _ (by rw [← hly, ← hlx]; exact selE_length w ys2 xs2)]
  simp only [ok_bind]
  rw [binop_bool_arr2 .or_ .or (Or.inr ⟨rfl, rfl⟩) _ _ _ _ (by rw [List.length_map]; exact selE_length w ys1 xs1)
    (by rw [List.length_map, ← hly, ← hlx]; exact selE_length w ys2 xs2)]
  simp only [ok_bind]
  rw [ensureV_arr2]
  intro x hx
  obtain ⟨a, b, rfl⟩ := mem_zipWith _ _ _ x hx
  rfl

theorem notPair_closed (h w y1 x1 y2 x2 : Nat) (hy1 : y1 < h) (hx1 : x1 < w) (hy2 : y2 < h) (hx2 : x2 < w) :
    notPair (.arr2 true h w ((List.range (h * w)).map Expr.bvar)) y1 x1 y2 x2
      = .ok [nand (y1 * w + x1) (y2 * w + x2)] := by
  unfold notPair
  rw [getitemV_cell true Expr.bvar h w y1 x1 hy1 hx1]
  simp only [ok_bind]
  rw [getitemV_cell true Expr.bvar h w y2 x2 hy2 hx2]
  simp only [ok_bind]
  rw [binop_and_bvar]
  simp only [ok_bind]
  rw [unop_invert_node .and _ rfl]
  simp only [ok_bind]
  rw [ensureV_scalar _ rfl]
  rfl

/-! ### Closed form -/

/-- `(~a) | (~b)` for every pair of cells `(fa p, fb p)`, `p ∈ L`. -/
def adjC (L : List (Nat × Nat)) (fa fb : Nat × Nat → Nat) : List Expr := L.map fun p => orNot (fa p) (fb p)

/-- The variables of the cells of a room. -/
def roomV (w : Nat) (b : List (Int × Int)) : List Expr := b.map fun p => Expr.bvar (p.1.toNat * w + p.2.toNat)

/-- `count_true(has_number[block]) == 1` -/
def roomE (w : Nat) (b : List (Int × Int)) : Expr := .node .eq [countTrueE (roomV w b), .litI 1]

def roomsC (w : Nat) (blocks : List (List (Int × Int))) : List (List Expr) := blocks.map fun b => [roomE w b]

/-- Cells `fa i j`, `fb i j` for `i` in `range n` and `j < j'` in `range m` with equal table entries. -/
def lineC (n m : Nat) (sz : Nat → Nat → Int) (cell : Nat → Nat → Nat) : List (List (List Expr)) :=
  (List.range n).map fun i => (pairsOf m).map fun jj =>
    if sz i jj.1 = sz i jj.2 then [nand (cell i jj.1) (cell i jj.2)] else []

def closedCs (h w : Nat) (blocks : List (List (Int × Int))) : List Expr :=
  adjC (cellsOf h (w - 1)) (fun p => p.1 * w + p.2) (fun p => p.1 * w + (p.2 + 1)) ++
  adjC (cellsOf (h - 1) w) (fun p => p.1 * w + p.2) (fun p => (p.1 + 1) * w + p.2) ++
  (roomsC w blocks).flatten ++
  ((lineC h w (fun y x => roomSize blocks y x) (fun y x => y * w + x)).map List.flatten).flatten ++
  ((lineC w h (fun x y => roomSize blocks y x) (fun x y => y * w + x)).map List.flatten).flatten

def closed (pb : Problem) : PuzzleProg :=
  { decls := List.replicate (pb.height * pb.width) .bool,
    cs := closedCs pb.height pb.width pb.blocks,
    keys := List.range (pb.height * pb.width) }

theorem selE_cells (w a b : Nat) (fy fx : Nat → Nat) :
    selE w ((List.range a).map fy) ((List.range b).map fx)
      = (cellsOf a b).map fun p => Expr.bvar (fy p.1 * w + fx p.2) := by
  simp [selE, cellsOf, List.flatMap_map, List.map_flatMap, List.map_map, Function.comp_def]

theorem adj_zip (w a b : Nat) (fy1 fx1 fy2 fx2 : Nat → Nat) :
    List.zipWith (fun a b => Expr.node .or [a, b])
        ((selE w ((List.range a).map fy1) ((List.range b).map fx1)).map fun a => .node .not [a])
        ((selE w ((List.range a).map fy2) ((List.range b).map fx2)).map fun a => .node .not [a])
      = adjC (cellsOf a b) (fun p => fy1 p.1 * w + fx1 p.2) (fun p => fy2 p.1 * w + fx2 p.2) := by
  rw [selE_cells, selE_cells, List.map_map, List.map_map, zipWith_map_map]
  rfl

theorem mem_cellsOf {h w : Nat} {p : Nat × Nat} : p ∈ cellsOf h w ↔ p.1 < h ∧ p.2 < w := by
  simp only [cellsOf, List.mem_flatMap, List.mem_range, List.mem_map]
  constructor
  · rintro ⟨y, hy, x, hx, rfl⟩; exact ⟨hy, hx⟩
  · rintro ⟨hy, hx⟩; exact ⟨p.1, hy, p.2, hx, rfl⟩

theorem mem_pairsOf {n : Nat} {p : Nat × Nat} : p ∈ pairsOf n ↔ p.1 < p.2 ∧ p.2 < n := by
  simp only [pairsOf, List.mem_flatMap, List.mem_range, List.mem_map]
  constructor
  · rintro ⟨a, ha, d, hd, rfl⟩; constructor <;> (simp only; omega)
  · rintro ⟨h1, h2⟩
    exact ⟨p.1, by omega, p.2 - (p.1 + 1), by omega, by ext <;> simp only; omega⟩

theorem range_pred_lt {n j : Nat} (hj : j ∈ List.range (n - 1)) : j < n ∧ j + 1 < n := by
  have := List.mem_range.mp hj; omega

/-- One `for i: for j < j': if table[..] == table[..]: ensure(~(.. & ..))` loop nest. -/
theorem line_closed (h w : Nat) (bs : List (List Int)) (n m : Nat) (sz : Nat → Nat → Int) (yy xx : Nat → Nat → Nat)
    (hb : ∀ i j, i < n → j < m → yy i j < h ∧ xx i j < w)
    (hg : ∀ i j, i < n → j < m → tableGet bs (yy i j : Nat) (xx i j : Nat) = .ok (sz i j)) :
    ((List.range n).mapM fun (i : Nat) => (pairsOf m).mapM fun (jj : Nat × Nat) => do
        let s1 ← tableGet bs (yy i jj.1 : Nat) (xx i jj.1 : Nat)
        let s2 ← tableGet bs (yy i jj.2 : Nat) (xx i jj.2 : Nat)
        (if s1 = s2 then notPair (.arr2 true h w ((List.range (h * w)).map Expr.bvar))
          (yy i jj.1) (xx i jj.1) (yy i jj.2) (xx i jj.2) else .ok []))
      = .ok (lineC n m sz fun i j => yy i j * w + xx i j) := by
  unfold lineC
  apply mapM_eq_ok_map
  intro i hi
  have hi' := List.mem_range.mp hi
  apply mapM_eq_ok_map
  intro jj hjj
  obtain ⟨h1, h2⟩ := mem_pairsOf.mp hjj
  rw [hg i jj.1 hi' (by omega), hg i jj.2 hi' h2]
  simp only [ok_bind]
  split
  · exact notPair_closed h w _ _ _ _ (hb i jj.1 hi' (by omega)).1 (hb i jj.1 hi' (by omega)).2
      (hb i jj.2 hi' h2).1 (hb i jj.2 hi' h2).2
  · rfl

theorem program_closed (pb : Problem) (hwf : WellFormed pb) : program pb = .ok (closed pb) := by
  obtain ⟨hin, _, _⟩ := hwf
  obtain ⟨bs, hbs, htab, hget⟩ := blockSizes_spec pb.height pb.width pb.blocks hin
  unfold program
  simp only [bvars, Nat.zero_add]
  rw [addKeysV_fresh true _ _ _ Expr.bvar (fun _ => rfl)]
  simp only [ok_bind]
  -- adjacency
  have hr0 : ∀ (n : Nat), ∀ x ∈ List.range n, x < n := fun n x hx => List.mem_range.mp hx
  have hr1 : ∀ (n : Nat), ∀ x ∈ List.range (n - 1), x < n := fun n x hx => (range_pred_lt hx).1
  have hr2 : ∀ (n : Nat), ∀ x ∈ (List.range (n - 1)).map (fun j => j + 1), x < n := by
    intro n x hx
    simp only [List.mem_map] at hx
    obtain ⟨j, hj, rfl⟩ := hx
    exact (range_pred_lt hj).2
  rw [notBoth_closed pb.height pb.width _ _ _ _ _ _ _ _ (axisSel_full _) (axisSel_upto _) (axisSel_full _)
    (axisSel_from1 _) (hr0 _) (hr1 _) (hr0 _) (hr2 _) rfl (by simp)]
  simp only [ok_bind]
  rw [notBoth_closed pb.height pb.width _ _ _ _ _ _ _ _ (axisSel_upto _) (axisSel_full _) (axisSel_from1 _)
    (axisSel_full _) (hr1 _) (hr0 _) (hr2 _) (hr0 _) (by simp) rfl]
  simp only [ok_bind]
  -- rooms
  rw [mapM_eq_ok_map (g := fun b => [roomE pb.width b])]
  swap
  · intro b hb
    rw [getitemV_coords true Expr.bvar _ _ b (fun p hp => hin p (List.mem_flatten.mpr ⟨b, hb, hp⟩))]
    simp only [ok_bind]
    rw [countTrueA_arr1 _ (by
      intro x hx
      simp only [List.mem_map] at hx
      obtain ⟨_, _, rfl⟩ := hx
      rfl)]
    simp only [ok_bind]
    obtain ⟨op, args, he, hop⟩ := countTrueE_isNode (roomV pb.width b)
    unfold roomE
    rw [he]
    unfold roomV at he
    rw [he, binop_eq_node_lit op args 1 hop]
    simp only [ok_bind]
    rw [ensureV_scalar _ rfl]
  simp only [ok_bind]
  rw [hbs]
  simp only [ok_bind]
  -- rows
  rw [line_closed pb.height pb.width bs pb.height pb.width (fun y x => roomSize pb.blocks y x) (fun y _ => y)
    (fun _ x => x) (fun i j hi hj => ⟨hi, hj⟩)
    (fun i j hi hj => by rw [tableGet_tget _ _ _ htab i j hi hj, hget])]
  simp only [ok_bind]
  -- columns
  rw [line_closed pb.height pb.width bs pb.width pb.height (fun x y => roomSize pb.blocks y x) (fun _ y => y)
    (fun x _ => x) (fun i j hi hj => ⟨hj, hi⟩)
    (fun i j hi hj => by rw [tableGet_tget _ _ _ htab j i hj hi, hget])]
  simp only [ok_bind]
  -- assemble
  have e1 := adj_zip pb.width pb.height (pb.width - 1) (fun j => j) (fun j => j) (fun j => j) (fun j => j + 1)
  have e2 := adj_zip pb.width (pb.height - 1) pb.width (fun j => j) (fun j => j) (fun j => j + 1) (fun j => j)
  simp only [List.map_id'] at e1 e2
  rw [e1, e2]
  rfl

end Cspuz.Proofs.C11Putteria
