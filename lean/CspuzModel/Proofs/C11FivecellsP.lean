/-
  C11 / FiveCells, part P: closed form of the program posted by `solve_fivecells` (clue constraints, border
  definitions, answer keys) and of the `is_invalid` flag.
-/
import CspuzModel.Proofs.C11FivecellsA
import CspuzModel.Proofs.C07L1
namespace Cspuz.Proofs.C11FivecellsP
open Cspuz Cspuz.Spec Cspuz.Proofs Cspuz.Puzzles Cspuz.Puzzles.Fivecells Cspuz.Spec.Fivecells
open Cspuz.Proofs.C11FivecellsA

/-! ### operator dispatch on the scalars built here -/

theorem binop_ne_ivar (a b : Nat) :
    binop .ne (.scalar (.ivar a)) (.scalar (.ivar b)) = .ok (.scalar (.node .ne [.ivar a, .ivar b])) := rfl

theorem binop_eq_bvar_ne (k a b : Nat) :
    binop .eq (.scalar (.bvar k)) (.scalar (.node .ne [.ivar a, .ivar b]))
      = .ok (.scalar (.node .iff [.bvar k, .node .ne [.ivar a, .ivar b]])) := rfl

theorem pyIndex_ivars (n v : Nat) (hv : v < n) : pyIndex (ivars 0 n) (v : Int) = .ok (.ivar v) := by
  apply C14.pyIndex_nat
  simp [ivars, hv]

/-! ### the clue loop -/

/-- `group_id[p] != group_id[q]`. -/
def neE (pb : Problem) (p q : Nat × Nat) : Expr := .node .ne [.ivar (vidx pb p), .ivar (vidx pb q)]

theorem gidAt_eq {pb : Problem} {p : Nat × Nat} (hp : onBoard pb p = true) :
    gidAt (ivars 0 (bcells pb).length) (vid pb) (p.1 : Int) (p.2 : Int) = .ok (.ivar (vidx pb p)) := by
  unfold gidAt
  rw [vid_get hp, ok_bind, pyIndex_ivars _ _ (vidx_lt hp)]

theorem borderTo_eq {pb : Problem} (hw : WellFormed pb) {p : Nat × Nat} (hp : onBoard pb p = true)
    (guard : Bool) (y2 x2 : Int) (q : Nat × Nat)
    (hq : guard = true → y2 = (q.1 : Int) ∧ x2 = (q.2 : Int) ∧ q.1 < pb.height ∧ q.2 < pb.width) :
    borderTo pb (ivars 0 (bcells pb).length) (vid pb) (p.1 : Int) (p.2 : Int) guard y2 x2
      = .ok (if guard = true ∧ onBoard pb q = true then [.leaf (.scalar (neE pb p q))] else []) := by
  unfold borderTo
  cases guard with
  | false => simp
  | true =>
    obtain ⟨rfl, rfl, hy, hx⟩ := hq rfl
    simp only [if_true, true_and]
    rw [tableGet_eq hw hy hx, ok_bind]
    by_cases hv : val pb q.1 q.2 ≥ -1
    · have hb : onBoard pb q = true := onBoard_iff.2 ⟨hy, hx, hv⟩
      rw [if_pos hv, if_pos hb, gidAt_eq hp, ok_bind, gidAt_eq hb, ok_bind, binop_ne_ivar]
      rfl
    · have hb : ¬ onBoard pb q = true := fun h => hv (onBoard_iff.1 h).2.2
      rw [if_neg hv, if_neg hb]

/-- The board cells edge-adjacent to `p`, in the order up, down, left, right. -/
def nbrs (pb : Problem) (p : Nat × Nat) : List (Nat × Nat) :=
  (if 0 < p.1 ∧ onBoard pb (p.1 - 1, p.2) = true then [(p.1 - 1, p.2)] else []) ++
  (if onBoard pb (p.1 + 1, p.2) = true then [(p.1 + 1, p.2)] else []) ++
  (if 0 < p.2 ∧ onBoard pb (p.1, p.2 - 1) = true then [(p.1, p.2 - 1)] else []) ++
  (if onBoard pb (p.1, p.2 + 1) = true then [(p.1, p.2 + 1)] else [])

/-- `problem[y][x] - always_border`. -/
def rhs (pb : Problem) (p : Nat × Nat) : Int := val pb p.1 p.2 - (4 - ((nbrs pb p).length : Int))

/-- The clue constraint of a numbered cell. -/
def clueC (pb : Problem) (p : Nat × Nat) : Expr :=
  .node .eq [countTrueE ((nbrs pb p).map (neE pb p)), .litI (rhs pb p)]

/-- What the clue loop does for one cell. -/
def cellE (pb : Problem) (p : Nat × Nat) : List Expr × Bool :=
  if val pb p.1 p.2 ≥ 0 then ([clueC pb p], decide (rhs pb p < 0)) else ([], false)

theorem flattenList_leaves (l : List Expr) :
    ANest.flattenList [.items (l.map fun e => ANest.leaf (.scalar e))] = l := by
  simp only [ANest.flattenList, ANest.flatten, List.append_nil]
  induction l with
  | nil => rfl
  | cons a r ih => simp [ANest.flattenList, ANest.flatten, PyV.flat, ih]

theorem cellCs_eq {pb : Problem} (hw : WellFormed pb) {p : Nat × Nat} (hp : p ∈ cells pb) :
    cellCs pb (ivars 0 (bcells pb).length) (vid pb) p = .ok (cellE pb p) := by
  obtain ⟨hy, hx⟩ := mem_cellsOf.1 hp
  unfold cellCs cellE
  simp only
  rw [tableGet_eq hw hy hx, ok_bind]
  by_cases hv : val pb p.1 p.2 ≥ 0
  · have hb : onBoard pb p = true := onBoard_iff.2 ⟨hy, hx, by omega⟩
    rw [if_pos hv, if_pos hv]
    rw [borderTo_eq hw hb _ _ _ (p.1 - 1, p.2) (by
          intro hg; simp only [decide_eq_true_eq] at hg; exact ⟨by omega, rfl, by omega, hx⟩), ok_bind,
      borderTo_eq hw hb _ _ _ (p.1 + 1, p.2) (by
          intro hg; simp only [decide_eq_true_eq] at hg; exact ⟨by omega, rfl, by omega, hx⟩), ok_bind,
      borderTo_eq hw hb _ _ _ (p.1, p.2 - 1) (by
          intro hg; simp only [decide_eq_true_eq] at hg; exact ⟨rfl, by omega, hy, by omega⟩), ok_bind,
      borderTo_eq hw hb _ _ _ (p.1, p.2 + 1) (by
          intro hg; simp only [decide_eq_true_eq] at hg; exact ⟨rfl, by omega, hy, by omega⟩), ok_bind]
    have c1 : (decide ((p.1 : Int) > 0) = true ∧ onBoard pb (p.1 - 1, p.2) = true) ↔
        (0 < p.1 ∧ onBoard pb (p.1 - 1, p.2) = true) := by
      simp only [decide_eq_true_eq]; constructor <;> rintro ⟨a, b⟩ <;> exact ⟨by omega, b⟩
    have c2 : (decide ((p.1 : Int) < (pb.height : Int) - 1) = true ∧ onBoard pb (p.1 + 1, p.2) = true) ↔
        onBoard pb (p.1 + 1, p.2) = true := by
      simp only [decide_eq_true_eq]
      constructor
      · exact fun h => h.2
      · intro h; exact ⟨by have := (onBoard_iff.1 h).1; simp only at this; omega, h⟩
    have c3 : (decide ((p.2 : Int) > 0) = true ∧ onBoard pb (p.1, p.2 - 1) = true) ↔
        (0 < p.2 ∧ onBoard pb (p.1, p.2 - 1) = true) := by
      simp only [decide_eq_true_eq]; constructor <;> rintro ⟨a, b⟩ <;> exact ⟨by omega, b⟩
    have c4 : (decide ((p.2 : Int) < (pb.width : Int) - 1) = true ∧ onBoard pb (p.1, p.2 + 1) = true) ↔
        onBoard pb (p.1, p.2 + 1) = true := by
      simp only [decide_eq_true_eq]
      constructor
      · exact fun h => h.2
      · intro h; exact ⟨by have := (onBoard_iff.1 h).2.1; simp only at this; omega, h⟩
    simp only [c1, c2, c3, c4]
    have hbord : ((if 0 < p.1 ∧ onBoard pb (p.1 - 1, p.2) = true then
            [ANest.leaf (.scalar (neE pb p (p.1 - 1, p.2)))] else []) ++
          (if onBoard pb (p.1 + 1, p.2) = true then [ANest.leaf (.scalar (neE pb p (p.1 + 1, p.2)))] else []) ++
          (if 0 < p.2 ∧ onBoard pb (p.1, p.2 - 1) = true then
            [ANest.leaf (.scalar (neE pb p (p.1, p.2 - 1)))] else []) ++
          (if onBoard pb (p.1, p.2 + 1) = true then [ANest.leaf (.scalar (neE pb p (p.1, p.2 + 1)))] else []))
        = ((nbrs pb p).map (neE pb p)).map fun e => ANest.leaf (.scalar e) := by
      unfold nbrs
      simp only [List.map_append]
      congr 1
      · congr 1
        · congr 1
          · split <;> rfl
          · split <;> rfl
        · split <;> rfl
      · split <;> rfl
    rw [hbord]
    unfold countTrueA
    rw [flattenList_leaves]
    rw [countTrue_ok_of_boolLike (by
      intro e he
      simp only [List.mem_map] at he
      obtain ⟨q, _, rfl⟩ := he
      rfl), ok_bind]
    obtain ⟨op, args, hct, hop⟩ := C11CL.countTrueE_isNode ((nbrs pb p).map (neE pb p))
    have hlen : ((((nbrs pb p).map (neE pb p)).map fun e => ANest.leaf (.scalar e)).length : Int)
        = ((nbrs pb p).length : Int) := by simp
    rw [hlen]
    have hc : binop .eq (.scalar (countTrueE ((nbrs pb p).map (neE pb p))))
        (.scalar (.litI (val pb p.1 p.2 - (4 - ((nbrs pb p).length : Int))))) = .ok (.scalar (clueC pb p)) := by
      unfold clueC rhs
      rw [hct]
      exact C11CL.binop_eq_node_lit op args _ hop
    rw [hc, ok_bind, C11CL.ensureV_scalar _ (by rfl), ok_bind]
    rfl
  · rw [if_neg hv, if_neg hv]

/-! ### the border definitions and the keys -/

theorem mem_pairsAt {pb : Problem} {p : Nat × Nat} {pq : (Nat × Nat) × (Nat × Nat)} :
    pq ∈ pairsAt pb p ↔ pq.1 = p ∧ onBoard pb p = true ∧ onBoard pb pq.2 = true ∧
      (pq.2 = (p.1 + 1, p.2) ∨ pq.2 = (p.1, p.2 + 1)) := by
  unfold pairsAt
  by_cases hb : onBoard pb p = true
  · rw [if_pos hb, List.mem_append]
    constructor
    · rintro (h | h)
      · split at h
        · next h1 => rw [List.mem_singleton] at h; subst h; exact ⟨rfl, hb, h1, Or.inl rfl⟩
        · exact absurd h List.not_mem_nil
      · split at h
        · next h1 => rw [List.mem_singleton] at h; subst h; exact ⟨rfl, hb, h1, Or.inr rfl⟩
        · exact absurd h List.not_mem_nil
    · rintro ⟨h0, _, h2, h3 | h3⟩
      · left; rw [if_pos (h3 ▸ h2), List.mem_singleton]; exact Prod.ext h0 h3
      · right; rw [if_pos (h3 ▸ h2), List.mem_singleton]; exact Prod.ext h0 h3
  · rw [if_neg hb]
    constructor
    · intro h; exact absurd h List.not_mem_nil
    · rintro ⟨_, h, _⟩; exact absurd h hb

theorem mem_pairs {pb : Problem} {pq : (Nat × Nat) × (Nat × Nat)} :
    pq ∈ pairs pb ↔ onBoard pb pq.1 = true ∧ onBoard pb pq.2 = true ∧
      (pq.2 = (pq.1.1 + 1, pq.1.2) ∨ pq.2 = (pq.1.1, pq.1.2 + 1)) := by
  rw [pairs_eq, List.mem_flatMap]
  constructor
  · rintro ⟨p, _, h⟩
    obtain ⟨rfl, h1, h2, h3⟩ := mem_pairsAt.1 h
    exact ⟨h1, h2, h3⟩
  · rintro ⟨h1, h2, h3⟩
    exact ⟨pq.1, (List.mem_filter.1 (mem_bcells.2 h1)).1, mem_pairsAt.2 ⟨rfl, h1, h2, h3⟩⟩

/-- `is_border[k] == (group_id[u] != group_id[v])` -/
def defE (bb : Nat) (uv : (Nat × Nat) × Nat) : Expr :=
  .node .iff [.bvar (bb + uv.2), .node .ne [.ivar uv.1.1, .ivar uv.1.2]]

theorem defs_eq (pb : Problem) (bb : Nat) :
    ((graph pb).edges.zipIdx.mapM fun (uv : (Nat × Nat) × Nat) => do
      let a ← pyIndex (ivars 0 (bcells pb).length) (uv.1.1 : Int)
      let b ← pyIndex (ivars 0 (bcells pb).length) (uv.1.2 : Int)
      let ne ← binop .ne (.scalar a) (.scalar b)
      let e ← binop .eq (.scalar (.bvar (bb + uv.2))) ne
      ensureV e) = .ok ((graph pb).edges.zipIdx.map fun uv => [defE bb uv]) := by
  apply mapM_eq_ok_map
  rintro ⟨⟨u, v⟩, k⟩ hm
  have hm' : (u, v) ∈ (graph pb).edges := by
    have := List.mem_zipIdx hm
    simp only [Nat.zero_add] at this
    obtain ⟨_, _, h⟩ := this
    rw [h]; exact List.getElem_mem _
  simp only [graph, List.mem_map] at hm'
  obtain ⟨pq, hpq, he⟩ := hm'
  obtain ⟨h1, h2, _⟩ := mem_pairs.1 hpq
  simp only [vpair, Prod.mk.injEq] at he
  obtain ⟨rfl, rfl⟩ := he
  simp only
  rw [pyIndex_ivars _ _ (vidx_lt h1), ok_bind, pyIndex_ivars _ _ (vidx_lt h2), ok_bind, binop_ne_ivar, ok_bind,
    binop_eq_bvar_ne, ok_bind, C11CL.ensureV_scalar _ (by rfl)]
  rfl

theorem addKeys_off (bb : Nat) : ∀ m : Nat,
    ((List.range m).map fun i => Expr.bvar (bb + i)).foldlM (fun (acc : List Nat) (x : Expr) =>
      match isVarExpr x with
      | none => (Except.error PyErr.typeError : Py (List Nat))
      | some id => if acc.contains id then .error .valueError else .ok (acc ++ [id])) []
      = .ok ((List.range m).map fun i => bb + i)
  | 0 => rfl
  | m + 1 => by
    rw [List.range_succ, List.map_append, List.foldlM_append, addKeys_off bb m]
    simp only [List.map_cons, List.map_nil, List.foldlM_cons, List.foldlM_nil, ok_bind, isVarExpr]
    have : ((List.range m).map fun i => bb + i).contains (bb + m) = false := by
      rw [Bool.eq_false_iff]
      intro h
      simp only [List.contains_iff_mem, List.mem_map, List.mem_range] at h
      obtain ⟨i, hi, he⟩ := h
      omega
    rw [this]
    simp [pure, Except.pure]

theorem addKeys_eq (bb m : Nat) :
    addKeysV (.arr1 true (bvars bb m)) [] = .ok ((List.range m).map fun i => bb + i) := addKeys_off bb m

/-! ### the whole program -/

/-- The fragment posted by `division_connected_variable_groups(solver, graph=g, group_size=5)`. -/
def vg (pb : Problem) : Prog := C07L1.vgProg (graph pb) (.scalar (.litI 5)) 0

/-- Number of variables before `is_border`. -/
def bb (pb : Problem) : Nat := (vg pb).decls.length

/-- Number of answer keys. -/
def nk (pb : Problem) : Nat := (pairs pb).length

def clues (pb : Problem) : List Expr := ((cells pb).map fun p => (cellE pb p).1).flatten

def defs (pb : Problem) : List Expr := (graph pb).edges.zipIdx.map (defE (bb pb))

def prog (pb : Problem) : PuzzleProg :=
  { decls := (vg pb).decls ++ List.replicate (nk pb) .bool,
    cs := (vg pb).cs ++ clues pb ++ defs pb,
    keys := (List.range (nk pb)).map fun i => bb pb + i }

theorem bcells_pos {pb : Problem} (hw : WellFormed pb) : 0 < (bcells pb).length := by
  obtain ⟨p, hp⟩ := hw.2.2
  exact List.length_pos_of_mem (mem_bcells.2 hp)

theorem run_eq {pb : Problem} (hw : WellFormed pb) :
    run pb = .ok { prog := prog pb, isInvalid := (cells pb).any fun p => (cellE pb p).2 } := by
  unfold run
  rw [vertexIds_eq hw]
  simp only [ok_bind]
  have hvid : tbl pb.height pb.width (ent pb (cells pb)) = vid pb := rfl
  rw [hvid, buildGraph_eq hw, ok_bind]
  have hn : 0 < (graph pb).n := bcells_pos hw
  rw [C07L1.vg_eq_scalar hn (by rfl)]
  simp only [ok_bind]
  have hgn : (graph pb).n = (bcells pb).length := rfl
  have hcells : (cellsOf pb.height pb.width).mapM (cellCs pb (ivars 0 (bcells pb).length) (vid pb))
      = .ok ((cells pb).map (cellE pb)) := mapM_eq_ok_map (fun p hp => cellCs_eq hw hp)
  rw [hgn, hcells, ok_bind]
  rw [defs_eq, ok_bind]
  have hm : (graph pb).edges.length = nk pb := by simp [graph, nk]
  rw [hm, addKeys_eq, ok_bind]
  simp only [prog, vg, bb, clues, defs, List.map_map, List.any_map]
  have hfl : ∀ (f : (Nat × Nat) × Nat → Expr) (l : List ((Nat × Nat) × Nat)),
      (l.map fun uv => [f uv]).flatten = l.map f := by
    intro f l
    induction l with
    | nil => rfl
    | cons a r ih => simp [ih]
  rw [hfl]
  rfl

theorem program_eq {pb : Problem} (hw : WellFormed pb) : program pb = .ok (prog pb) := by
  unfold program
  rw [run_eq hw]
  rfl

end Cspuz.Proofs.C11FivecellsP
