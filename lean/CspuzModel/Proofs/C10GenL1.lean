/-
  C10 for an ARBITRARY well-formed frame (`FrameWF f`) of Boolean expressions over the caller's
  variables: closed form of the program emitted by `connectedCrossable`, value of the degree
  expressions, the activity list handed to `activeVerticesConnected`.

  The frame-independent parts (per-point constraints `localCs … D`, forced values, split graph,
  strands) are reused from C10L1 / C10L2 / C10Cross / C10Strand.
-/
import CspuzModel.Proofs.C10L2
namespace Cspuz.Proofs.C10GenL1
open Cspuz Cspuz.Spec Cspuz.Proofs Cspuz.Spec.FrameGeom
open Cspuz.Proofs.C10L1 Cspuz.Proofs.C10L2 Cspuz.Proofs.C10Cross Cspuz.Proofs.C10Strand

/-! ### reading the two arrays of a well-formed frame -/

/-- The expression sitting on a segment (`litNone` outside the arrays — never the case for a valid
segment of a well-formed frame). -/
def segE (f : Frame) : Seg → Expr
  | .h y x => (f.horizontal.data[y * f.width + x]?).getD .litNone
  | .v y x => (f.vertical.data[y * (f.width + 1) + x]?).getD .litNone

/-- Geometric segment (C14 vocabulary) → lattice segment (C10 vocabulary). -/
def toL : Seg → LSeg
  | .h y x => .h y x
  | .v y x => .v y x

theorem getElem?_getD {l : List Expr} {i : Nat} (h : i < l.length) :
    l[i]? = some ((l[i]?).getD .litNone) := by
  rw [List.getElem?_eq_getElem h]; rfl

theorem getD_mem {l : List Expr} {i : Nat} (h : i < l.length) : (l[i]?).getD .litNone ∈ l := by
  rw [List.getElem?_eq_getElem h]; exact List.getElem_mem h

section
variable {f : Frame} (hwf : FrameWF f)
include hwf

theorem h_idx {y x : Nat} (hy : y ≤ f.height) (hx : x < f.width) :
    y * f.width + x < f.horizontal.data.length := by
  rw [hwf.2.2.1]; exact C14.mul_add_lt (by omega) hx

theorem v_idx {y x : Nat} (hy : y < f.height) (hx : x ≤ f.width) :
    y * (f.width + 1) + x < f.vertical.data.length := by
  rw [hwf.2.2.2.2.2]; exact C14.mul_add_lt hy (by omega)

theorem h_get {y x : Nat} (hy : y ≤ f.height) (hx : x < f.width) :
    f.horizontal.get (y : Int) (x : Int) = .ok (segE f (.h y x)) := by
  apply C14.Arr2.get_nat _ y x _ (by rw [hwf.1]; omega) (by rw [hwf.2.1]; exact hx)
  rw [hwf.2.1]
  exact getElem?_getD (h_idx hwf hy hx)

theorem v_get {y x : Nat} (hy : y < f.height) (hx : x ≤ f.width) :
    f.vertical.get (y : Int) (x : Int) = .ok (segE f (.v y x)) := by
  apply C14.Arr2.get_nat _ y x _ (by rw [hwf.2.2.2.1]; exact hy) (by rw [hwf.2.2.2.2.1]; omega)
  rw [hwf.2.2.2.2.1]
  exact getElem?_getD (v_idx hwf hy hx)

theorem segE_mem {s : Seg} (hs : s.Valid f.height f.width) :
    segE f s ∈ f.horizontal.data ++ f.vertical.data := by
  cases s with
  | h y x => exact List.mem_append_left _ (getD_mem (h_idx hwf hs.1 hs.2))
  | v y x => exact List.mem_append_right _ (getD_mem (v_idx hwf hs.1 hs.2))

/-- `vertex_neighbors(y, x)` of a well-formed frame: the expressions on the segments going up, down,
left, right from the point (those that exist). -/
theorem vertex_gen {y x : Nat} (hy : y ≤ f.height) (hx : x ≤ f.width) :
    f.vertexNeighbors (y : Int) (x : Int) = .ok ((pointSegs f.height f.width y x).map (segE f)) := by
  unfold Frame.vertexNeighbors
  rw [if_neg (by omega)]
  have up : (if (y : Int) > 0 then (f.vertical.get ((y : Int) - 1) (x : Int)).map ([·])
        else .ok []) = .ok ((if y > 0 then [Seg.v (y - 1) x] else []).map (segE f)) := by
    by_cases h : y > 0
    · have e : (y : Int) - 1 = ((y - 1 : Nat) : Int) := by omega
      rw [if_pos (by omega), if_pos h, e, v_get hwf (y := y - 1) (by omega) hx]; rfl
    · rw [if_neg (by omega), if_neg h]; rfl
  have down : (if (y : Int) < (f.height : Int) then (f.vertical.get (y : Int) (x : Int)).map ([·])
        else .ok []) = .ok ((if y < f.height then [Seg.v y x] else []).map (segE f)) := by
    by_cases h : y < f.height
    · rw [if_pos (by omega), if_pos h, v_get hwf h hx]; rfl
    · rw [if_neg (by omega), if_neg h]; rfl
  have left : (if (x : Int) > 0 then (f.horizontal.get (y : Int) ((x : Int) - 1)).map ([·])
        else .ok []) = .ok ((if x > 0 then [Seg.h y (x - 1)] else []).map (segE f)) := by
    by_cases h : x > 0
    · have e : (x : Int) - 1 = ((x - 1 : Nat) : Int) := by omega
      rw [if_pos (by omega), if_pos h, e, h_get hwf (x := x - 1) hy (by omega)]; rfl
    · rw [if_neg (by omega), if_neg h]; rfl
  have right : (if (x : Int) < (f.width : Int) then (f.horizontal.get (y : Int) (x : Int)).map ([·])
        else .ok []) = .ok ((if x < f.width then [Seg.h y x] else []).map (segE f)) := by
    by_cases h : x < f.width
    · rw [if_pos (by omega), if_pos h, h_get hwf hy h]; rfl
    · rw [if_neg (by omega), if_neg h]; rfl
  simp only [C14.ite_bind]
  rw [up, down, left, right]
  simp only [bind, Except.bind, pointSegs, List.map_append]

end

/-! ### values: the entries are Boolean expressions over the caller's variables -/

theorem eval_getD {σ : Asg} {l : List Expr} {i : Nat} (h : i < l.length)
    (hw : wtB ((l[i]?).getD .litNone) = true) :
    eval σ ((l[i]?).getD .litNone) = some (.b (truthAt σ l i)) := by
  obtain ⟨b, hb⟩ := wtB_eval σ _ hw
  rw [hb]
  unfold truthAt
  rw [getElem?_getD h]
  simp only [hb]
  cases b <;> rfl

/-- The expression `count_true(frame.vertex_neighbors(y, x))`. -/
def dEG (f : Frame) (y x : Nat) : Expr := countTrueE ((pointSegs f.height f.width y x).map (segE f))

section
variable {f : Frame} {base : Nat} (hwf : FrameWF f)
  (hb : BoolArgs base (f.horizontal.data ++ f.vertical.data))
include hwf hb

theorem eval_segE (σ : Asg) {s : Seg} (hs : s.Valid f.height f.width) :
    eval σ (segE f s) = some (.b (segActive f σ (toL s))) := by
  have hw := (hb _ (segE_mem hwf hs)).1
  cases s with
  | h y x => exact eval_getD (h_idx hwf hs.1 hs.2) hw
  | v y x => exact eval_getD (v_idx hwf hs.1 hs.2) hw

theorem segE_boolLike {s : Seg} (hs : s.Valid f.height f.width) : (segE f s).isBoolLike = true :=
  wtB_isBoolLike _ (hb _ (segE_mem hwf hs)).1

omit hwf in
/-- The active segments only depend on the caller's variables. -/
theorem segActive_congr {σ σ' : Asg} (h : AgreeBelow base σ σ') : segActive f σ = segActive f σ' := by
  have key : ∀ (l : List Expr) (i : Nat), (∀ e ∈ l, e ∈ f.horizontal.data ++ f.vertical.data) →
      truthAt σ l i = truthAt σ' l i := by
    intro l i hl
    unfold truthAt
    cases hi : l[i]? with
    | none => rfl
    | some e =>
      have := (hb e (hl e (List.mem_of_getElem? hi))).2
      simp only [eval_congr_of_varsBelow h e this]
  funext s
  cases s with
  | h y x => exact key _ _ (fun e he => List.mem_append_left _ he)
  | v y x => exact key _ _ (fun e he => List.mem_append_right _ he)

/-! ### the degree expression -/

theorem eval_dEG (σ : Asg) {y x : Nat} (hy : y ≤ f.height) (hx : x ≤ f.width) :
    eval σ (dEG f y x) =
      some (.i ((pointDegree f.height f.width (segActive f σ) y x : Nat) : Int)) := by
  unfold dEG
  rw [eval_countTrueE ((pointSegs f.height f.width y x).map fun s => segActive f σ (toL s))
    (by
      simp only [List.map_map]
      apply List.map_congr_left
      intro s hs
      exact eval_segE hwf hb σ ((C14.mem_pointSegs _ _ y x hy hx s).1 hs).1)]
  congr 3
  unfold pointSegs pointDegree
  simp only [List.map_append, List.count_append, apply_ite (List.map _), List.map_cons, List.map_nil,
    count_ite, gt_iff_lt, toL]

theorem per_step {α : Type} {yx : Nat × Nat} (hm : yx ∈ cells f.height f.width) (K : Expr → Py α) :
    (f.vertexNeighbors ↑yx.1 ↑yx.2 >>= fun nb => countTrue nb >>= K) = K (dEG f yx.1 yx.2) := by
  obtain ⟨h1, h2⟩ := mem_cells.1 hm
  rw [vertex_gen hwf h1 h2]
  simp only [ok_bind]
  rw [countTrue_ok_of_boolLike (by
    intro e he
    obtain ⟨s, hs, rfl⟩ := List.mem_map.1 he
    exact segE_boolLike hwf hb ((C14.mem_pointSegs _ _ _ _ h1 h2 s).1 hs).1)]
  rfl

end

end Cspuz.Proofs.C10GenL1
