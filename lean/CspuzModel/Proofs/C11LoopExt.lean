/-
  The loop prologue followed by further answer-key variables (yajilin: the shaded-cell grid is allocated after the
  auxiliary variables of the cycle constraint).
-/
import CspuzModel.Proofs.C11Loop
import CspuzModel.Proofs.C11Frag
namespace Cspuz.Proofs.C11LoopExt
open Cspuz Cspuz.Spec Cspuz.Spec.FrameGeom Cspuz.Spec.Loop Cspuz.Proofs Cspuz.Proofs.C11Loop
open Cspuz.Proofs.C14 (var_range mem_allSegs)

/-! ### the cycle fragment only mentions the frame and its own auxiliary variables -/

theorem vbl_append (n : Nat) : ∀ a b : List Expr,
    Expr.varsBelow.varsBelowList n (a ++ b) = (Expr.varsBelow.varsBelowList n a && Expr.varsBelow.varsBelowList n b)
  | [], b => by simp [Expr.varsBelow.varsBelowList]
  | x :: a, b => by simp [Expr.varsBelow.varsBelowList, vbl_append n a b, Bool.and_assoc]

theorem vbl_of_forall (n : Nat) : ∀ l : List Expr, (∀ x ∈ l, x.varsBelow n = true) →
    Expr.varsBelow.varsBelowList n l = true
  | [], _ => rfl
  | x :: l, h => by
    simp only [Expr.varsBelow.varsBelowList, Bool.and_eq_true]
    exact ⟨h x List.mem_cons_self, vbl_of_forall n l (fun y hy => h y (List.mem_cons_of_mem _ hy))⟩

theorem vbl_ctOps (n : Nat) : ∀ xs : List Expr, (∀ x ∈ xs, x.varsBelow n = true) →
    Expr.varsBelow.varsBelowList n (ctOps xs) = true
  | [], _ => rfl
  | x :: r, h => by
    have ih := vbl_ctOps n r (fun y hy => h y (List.mem_cons_of_mem _ hy))
    have hx := h x List.mem_cons_self
    cases x <;> simp_all [ctOps, Expr.varsBelow.varsBelowList, Expr.varsBelow]

theorem vb_countTrueE (n : Nat) (xs : List Expr) (h : ∀ x ∈ xs, x.varsBelow n = true) :
    (countTrueE xs).varsBelow n = true := by
  unfold countTrueE
  have h1 := vbl_ctOps n xs h
  by_cases hc : ctConst xs > 0
  · simp only [hc, if_true]
    have : (ctOps xs ++ [Expr.litI (ctConst xs : Nat)]).isEmpty = false := by simp
    simp only [this, Bool.false_eq_true, if_false, Expr.varsBelow, vbl_append, h1,
      Expr.varsBelow.varsBelowList, Bool.and_self]
  · simp only [hc, if_false]
    cases hops : ctOps xs with
    | nil => simp [Expr.varsBelow, Expr.varsBelow.varsBelowList]
    | cons y ys =>
      rw [hops] at h1
      simp only [List.isEmpty_cons, Bool.false_eq_true, if_false, Expr.varsBelow, h1]

theorem cyc_varsBelow (H W : Nat) :
    ∀ c ∈ (cyc H W).cs, c.varsBelow (Frame.numVars H W + 3 * ((H + 1) * (W + 1))) = true := by
  intro c hc
  have hn : (lg H W).n = (H + 1) * (W + 1) := rfl
  have hie : ∀ j, ((les H W).getD j .litNone).varsBelow (Frame.numVars H W + 3 * ((H + 1) * (W + 1))) = true := by
    intro j
    by_cases hj : j < (les H W).length
    · rw [C06L1.getD_eq hj]
      exact C11Frag.varsBelow_mono (by omega) _ ((les_boolArgs H W) _ (List.getElem_mem hj)).2
    · simp [List.getD, List.getElem?_eq_none (by omega : (les H W).length ≤ j), Expr.varsBelow]
  simp only [cyc, C06L1.cycProg, List.mem_append, List.mem_flatten, List.mem_map, List.mem_range,
    List.mem_singleton] at hc
  rcases hc with ⟨l, ⟨i, hi, rfl⟩, hc⟩ | rfl
  · simp only [C06L1.cycCs, List.mem_cons, List.not_mem_nil, or_false] at hc
    rw [hn] at hi
    have hdeg : ∀ x ∈ C06L1.degArgs (lg H W) (les H W) i, x.varsBelow (Frame.numVars H W + 3 * ((H + 1) * (W + 1))) = true := by
      intro x hx
      simp only [C06L1.degArgs, List.mem_map] at hx
      obtain ⟨je, _, rfl⟩ := hx
      exact hie je.2
    rcases hc with rfl | rfl
    · simp only [Expr.varsBelow, Expr.varsBelow.varsBelowList, C06L1.degE, vb_countTrueE _ _ hdeg, Bool.and_true,
        Bool.true_and, decide_eq_true_eq]
      omega
    · have hit : ∀ x ∈ C06L1.itemsE (lg H W) (les H W) (Frame.numVars H W) i,
          x.varsBelow (Frame.numVars H W + 3 * ((H + 1) * (W + 1))) = true := by
        intro x hx
        simp only [C06L1.itemsE, List.mem_map] at hx
        obtain ⟨je, hje, rfl⟩ := hx
        have hb := incident_bounds (lg_wf H W) hje
        rw [hn] at hb
        have h' : ((les H W)[je.2]?.getD Expr.litNone).varsBelow (Frame.numVars H W + 3 * ((H + 1) * (W + 1))) = true := hie je.2
        simp only [Expr.varsBelow, Expr.varsBelow.varsBelowList, Bool.and_true, Bool.and_eq_true, decide_eq_true_eq, hn]
        exact ⟨h', by omega, by omega⟩
      simp only [Expr.varsBelow, Expr.varsBelow.varsBelowList, vb_countTrueE _ _ hit, Bool.and_true,
        Bool.true_and, Bool.and_eq_true, decide_eq_true_eq, hn]
      omega
  · have : ∀ x ∈ (List.range (lg H W).n).map (fun i => Expr.bvar (Frame.numVars H W + 2 * (lg H W).n + i)),
        x.varsBelow (Frame.numVars H W + 3 * ((H + 1) * (W + 1))) = true := by
      intro x hx
      simp only [List.mem_map, List.mem_range] at hx
      obtain ⟨i, hi, rfl⟩ := hx
      rw [hn] at hi ⊢
      simp only [Expr.varsBelow, decide_eq_true_eq]
      omega
    simp only [Expr.varsBelow, Expr.varsBelow.varsBelowList, vb_countTrueE _ _ this, Bool.and_true]

/-! ### frame + cycle constraint + `m` further Boolean key variables + extra constraints -/

/-- first id after the auxiliary variables of the cycle constraint. -/
abbrev B (H W : Nat) : Nat := Frame.numVars H W + 3 * ((H + 1) * (W + 1))

theorem sat_split_ext (nv m : Nat) (p : Prog) (extra : List Expr) (σ : Asg) :
    Sat (List.replicate nv .bool ++ p.decls ++ List.replicate m .bool) (p.cs ++ extra) σ ↔
      (SatFrag nv p σ ∧ ∀ c ∈ extra, eval σ c = some (.b true)) := by
  unfold Sat SatFrag Asg.respects
  constructor
  · rintro ⟨hr, hc⟩
    refine ⟨⟨?_, fun c hc' => hc c (List.mem_append_left _ hc')⟩, fun c hc' => hc c (List.mem_append_right _ hc')⟩
    intro k lo hi hk
    apply hr (nv + k) lo hi
    have hk' : k < p.decls.length := by
      rcases Nat.lt_or_ge k p.decls.length with h | h
      · exact h
      · rw [List.getElem?_eq_none h] at hk; cases hk
    rw [List.append_assoc, List.getElem?_append_right (by simp), List.getElem?_append_left (by simpa using hk')]
    simpa using hk
  · rintro ⟨⟨hr, hc1⟩, hc2⟩
    refine ⟨?_, ?_⟩
    · intro id lo hi hd
      rw [List.append_assoc] at hd
      by_cases hid : id < nv
      · rw [List.getElem?_append_left (by simpa using hid)] at hd
        simp [hid] at hd
      · rw [List.getElem?_append_right (by simpa using hid)] at hd
        simp only [List.length_replicate] at hd
        by_cases hid2 : id - nv < p.decls.length
        · rw [List.getElem?_append_left hid2] at hd
          have := hr (id - nv) lo hi hd
          rwa [show nv + (id - nv) = id by omega] at this
        · rw [List.getElem?_append_right (by omega)] at hd
          have := List.mem_of_getElem? hd
          simp at this
    · intro c hc
      rcases List.mem_append.mp hc with h | h
      · exact hc1 c h
      · exact hc2 c h

/-- Values of the key variables: the frame segments, then the `m` further Booleans. -/
theorem keyVals_ext (H W m : Nat) (σ : Asg) :
    (List.range (Frame.numVars H W) ++ (List.range m).map (B H W + ·)).map
        (valOf (List.replicate (Frame.numVars H W) .bool ++ (cyc H W).decls ++ List.replicate m .bool) σ)
      = (segAnswer H W (onOf H W σ) ++ (List.range m).map fun k => Val.b (σ.b (B H W + k))).map some := by
  rw [List.map_append, List.map_append, List.append_assoc, keyVals_frame H W _ σ]
  congr 1
  rw [List.map_map, List.map_map]
  apply List.map_congr_left
  intro k hk
  have hk' := List.mem_range.mp hk
  simp only [Function.comp, valOf]
  have hlen : (List.replicate (Frame.numVars H W) VarDecl.bool ++ (cyc H W).decls).length = B H W := by
    simp [cyc_decls_length]
  rw [← List.append_assoc, List.getElem?_append_right (by omega), hlen, Nat.add_sub_cancel_left,
    List.getElem?_replicate, if_pos hk']

theorem encodes_loop_ext (H W m : Nat) (extra : List Expr) (G : (Seg → Bool) → (Nat → Bool) → Prop)
    (hG : ∀ on on' sh sh', (∀ s, s.Valid H W → on s = on' s) → (∀ k, k < m → sh k = sh' k) →
      (G on sh ↔ G on' sh'))
    (hextra : ∀ σ : Asg, IsLoop H W (onOf H W σ) →
      (∀ p, PtValid H W p → σ.b (Frame.numVars H W + ptIndex W p) = onLoop H W (onOf H W σ) p) →
      ((∀ c ∈ extra, eval σ c = some (.b true)) ↔ G (onOf H W σ) (fun k => σ.b (B H W + k)))) :
    EncodesRules
      { decls := List.replicate (Frame.numVars H W) .bool ++ (cyc H W).decls ++ List.replicate m .bool,
        cs := (cyc H W).cs ++ extra,
        keys := List.range (Frame.numVars H W) ++ (List.range m).map (B H W + ·) }
      (fun a => ∃ on sh, a = segAnswer H W on ++ (List.range m).map (fun k => Val.b (sh k)) ∧ IsLoop H W on ∧ G on sh) := by
  intro a
  constructor
  · rintro ⟨σ, hσ, hk⟩
    obtain ⟨hfrag, hex⟩ := (sat_split_ext _ _ _ _ σ).mp hσ
    refine ⟨onOf H W σ, fun k => σ.b (B H W + k), ?_, loop_of_sat H W σ hfrag,
      (hextra σ (loop_of_sat H W σ hfrag) (passed_of_sat H W σ hfrag)).mp hex⟩
    have hk' : (segAnswer H W (onOf H W σ) ++ (List.range m).map fun k => Val.b (σ.b (B H W + k))).map some = a.map some := by
      rw [← keyVals_ext H W m σ]; exact hk
    exact ((List.map_inj_right (fun _ _ e => Option.some.inj e)).mp hk').symm
  · rintro ⟨on, sh, rfl, hl, hg⟩
    let σ0 : Asg := ⟨fun k => match (allSegs H W)[k]? with | some s => on s | none => false, fun _ => 0⟩
    have h0 : ∀ s, s.Valid H W → onOf H W σ0 s = on s := by
      intro s hs
      show (match (allSegs H W)[s.var 0 H W]? with | some s => on s | none => false) = on s
      rw [allSegs_var_getElem? H W s hs]
    obtain ⟨σ1, hag, hfrag1⟩ := realizable_of_loop H W σ0 ((isLoop_congr H W _ _ h0).mpr hl)
    -- keep σ1 below `B`, put the shading above
    let σ' : Asg := ⟨fun id => if id < B H W then σ1.b id else sh (id - B H W), σ1.i⟩
    have hag' : AgreeBelow (B H W) σ1 σ' := by
      intro id hid
      exact ⟨by show σ1.b id = if id < B H W then σ1.b id else sh (id - B H W); rw [if_pos hid], rfl⟩
    have hfrag : SatFrag (Frame.numVars H W) (cyc H W) σ' := by
      refine ⟨hfrag1.1, ?_⟩
      intro c hc
      rw [← eval_congr_of_varsBelow hag' c (cyc_varsBelow H W c hc)]
      exact hfrag1.2 c hc
    have h1 : ∀ s, s.Valid H W → onOf H W σ' s = on s := by
      intro s hs
      rw [← h0 s hs]
      have hr := var_range 0 H W s hs
      have : s.var 0 H W < B H W := by simp only [B]; omega
      show (if s.var 0 H W < B H W then σ1.b (s.var 0 H W) else _) = _
      rw [if_pos this]
      exact ((hag (s.var 0 H W) (by omega)).1).symm
    have h2 : ∀ k, k < m → (fun k => σ'.b (B H W + k)) k = sh k := by
      intro k _
      show (if B H W + k < B H W then σ1.b (B H W + k) else sh (B H W + k - B H W)) = sh k
      rw [if_neg (by omega), Nat.add_sub_cancel_left]
    refine ⟨σ', (sat_split_ext _ _ _ _ σ').mpr ⟨hfrag, ?_⟩, ?_⟩
    · exact (hextra σ' (loop_of_sat H W σ' hfrag) (passed_of_sat H W σ' hfrag)).mpr ((hG _ _ _ _ h1 h2).mpr hg)
    · show List.map (valOf _ σ') _ = _
      rw [keyVals_ext H W m σ', segAnswer_congr H W _ _ h1]
      congr 2
      apply List.map_congr_left
      intro k hk
      have := h2 k (List.mem_range.mp hk)
      simp only [] at this
      rw [this]

theorem keysOk_ext (H W m : Nat) (cs : List Expr) :
    (PuzzleProg.mk (List.replicate (Frame.numVars H W) .bool ++ (cyc H W).decls ++ List.replicate m .bool) cs
      (List.range (Frame.numVars H W) ++ (List.range m).map (B H W + ·))).KeysOk := by
  refine ⟨?_, ?_⟩
  · rw [List.nodup_append]
    refine ⟨List.nodup_range, ?_, ?_⟩
    · exact List.Nodup.map (fun a b h => Nat.add_left_cancel h) List.nodup_range
    · intro a ha b hb
      simp only [List.mem_range] at ha
      simp only [List.mem_map, List.mem_range] at hb
      obtain ⟨k, _, rfl⟩ := hb
      simp only [B]
      omega
  · intro k hk
    simp only [List.length_append, List.length_replicate, cyc_decls_length]
    rcases List.mem_append.mp hk with h | h
    · simp only [List.mem_range] at h; omega
    · simp only [List.mem_map, List.mem_range] at h
      obtain ⟨j, hj, rfl⟩ := h
      simp only [B]; omega

end Cspuz.Proofs.C11LoopExt
