/-
  C17, second half: the FULL re-encodability statement is false on the current code.  Concrete witness (the known
  finding `tupl:element-serializer-leaves-decoded-items` of /verif/known_findings.json):

      Tupl(OneOf(Dict([0], ['.']), Spaces(0, 'j'), HexInt()))      on a 3 × 3 board, text "r"

  * the term is well-formed (`wf`) and problem-level (`single`);
  * `deserialize_problem` on `"r"`: `Dict` refuses `r`, `Spaces(0, 'j')` (offset 18) reads `r` = 27 as a run of 9 zeros,
    so the problem is `([0, 0, 0, 0, 0, 0, 0, 0, 0],)`;
  * `serialize_problem` of it: `Tupl.serialize` hands the component to its element ONCE, at index 0, and ignores how many
    items that call consumed; the first alternative `Dict([0], ['.'])` accepts the leading `0`, so the text is `"."`;
  * `"."` decodes to `([0],)`, a different problem.
  Everything is a closed computation on the model (`rfl`).  Helper lemmas live in the namespace `Cspuz.Ser.TuplLoss`.
-/
import CspuzModel.Spec.Serializer
namespace Cspuz.Ser.TuplLoss
open Cspuz Cspuz.Ser

/-- `Tupl(OneOf(Dict([0], ['.']), Spaces(0, 'j'), HexInt()))` (`'j'` is the base-36 digit 19, so the offset is 18) -/
def term : Comb := .tupl [.oneOf [.dict [.int 0] [[46]], .spaces (.int 0) 18, .hexInt]]

/-- `([0, 0, 0, 0, 0, 0, 0, 0, 0],)` -/
def decoded : PyVal := .tuple [.list (List.replicate 9 (.int 0))]

/-- `([0],)` -/
def redecoded : PyVal := .tuple [.list [.int 0]]

theorem term_wf : wf term = true := by decide
theorem term_single : single term = true := by decide

/-- `deserialize_problem(term, "r", height=3, width=3) == ([0]*9,)` -/
theorem decodes : deProblem term [114] 3 3 = .ok decoded := by rfl

/-- `serialize_problem(term, ([0]*9,), height=3, width=3) == "."` -/
theorem serializes : serProblem term decoded 3 3 = .ok [46] := by rfl

/-- `deserialize_problem(term, ".", height=3, width=3) == ([0],)` -/
theorem redecodes : deProblem term [46] 3 3 = .ok redecoded := by rfl

theorem differ : redecoded ≠ decoded := by
  intro h
  simp [redecoded, decoded, List.replicate] at h

/-- **the decoded problem serializes, but its canonical text decodes to a different problem** -/
theorem not_reencodable :
    ¬ ∃ s', serProblem term decoded 3 3 = .ok s' ∧ deProblem term s' 3 3 = .ok decoded := by
  rintro ⟨s', h1, h2⟩
  rw [serializes] at h1
  cases h1
  rw [redecodes] at h2
  cases h2

/-- the full statement of C17's second half fails for `term` -/
theorem full_statement_fails :
    ¬ ∀ (c : Comb), wf c = true → single c = true →
      ∀ (s : Str) (h w : Nat) (p : PyVal), deProblem c s h w = .ok p →
        ∃ s', serProblem c p h w = .ok s' ∧ deProblem c s' h w = .ok p :=
  fun h => not_reencodable (h term term_wf term_single [114] 3 3 decoded decodes)

end Cspuz.Ser.TuplLoss
