/-
  C11 / firefly — SOUNDNESS of the arithmetic certificate (`C11FireflyCert.Cert`): a drawing that has a certificate
  obeys the published rules of Hotaru Beam (`Spec.Firefly.RulesOn`).

  `C11FireflySoundLocal`: the facts at one cell; `C11FireflySoundOrbit`: the oriented steps as a functional graph
  (`next`), every orbit reaches the ignored step, the line of a firefly reaches a firefly, every oriented step lies
  on the line of a firefly.  Here: the directions of a line (`path`), `Follows`, the number of turns, and the four
  fields of `RulesOn`.
-/
import CspuzModel.Proofs.C11FireflySoundOrbit
namespace Cspuz.Proofs.C11FireflySound
open Cspuz Cspuz.Spec Cspuz.Spec.FrameGeom Cspuz.Spec.Loop
open Cspuz.Spec.Firefly (firefly segOf opp armCount steps walk bends Follows IsLine EndsAt Linked RulesOn WellFormed)
open Cspuz.Puzzles.Firefly (Problem)
open Cspuz.Proofs.C11FireflyCert Cspuz.Proofs.C11FireflySoundLocal Cspuz.Proofs.C11FireflySoundOrbit

section
variable {pb : Problem} {H W : Nat} {unk : Int} {on : Seg → Bool}

/-- The directions of the `n` steps that follow the edge `e`. -/
def path (c : Cert pb H W unk on) (e : Edge) : Nat → List Dir
  | 0 => []
  | n + 1 => (next c e).2 :: path c (next c e) n

theorem hd_next (c : Cert pb H W unk on) (e : Edge) : hd (next c e) = nb (hd e) (next c e).2 := by
  show nb (next c e).1 (next c e).2 = nb (hd e) (next c e).2
  rw [next_fst]

theorem sg_next (c : Cert pb H W unk on) (e : Edge) : sg (next c e) = segOf (hd e) (next c e).2 := by
  show segOf (next c e).1 (next c e).2 = segOf (hd e) (next c e).2
  rw [next_fst]

theorem mem_steps (c : Cert pb H W unk on) (n : Nat) : ∀ (e : Edge) (k : Nat), k ≤ n →
    (next c)^[k] e ∈ steps e.1 (e.2 :: path c e n) := by
  induction n with
  | zero =>
    intro e k hk
    obtain rfl : k = 0 := by omega
    simp [steps]
  | succ n ih =>
    intro e k hk
    cases k with
    | zero => simp [steps]
    | succ k =>
      have := ih (next c e) k (by omega)
      rw [Function.iterate_succ_apply]
      show _ ∈ (e.1, e.2) :: steps (nb e.1 e.2) ((next c e).2 :: path c (next c e) n)
      rw [next_fst] at this
      exact List.mem_cons_of_mem _ this

theorem walk_path (c : Cert pb H W unk on) (n : Nat) : ∀ e : Edge,
    walk e.1 (e.2 :: path c e n) = hd ((next c)^[n] e) := by
  induction n with
  | zero => intro e; rfl
  | succ n ih =>
    intro e
    have := ih (next c e)
    rw [next_fst] at this
    rw [Function.iterate_succ_apply, ← this]
    rfl

/-- The head of a good edge that is a firefly: its dot is not on the side of arrival. -/
theorem dot_ne (c : Cert pb H W unk on) {e : Edge} (h : Good c e) (dg : Dir) (ng : Option Int)
    (hf : firefly pb (hd e) = some (dg, ng)) : dg ≠ opp e.2 := by
  obtain ⟨f1, f2, f3⟩ := in_head c h
  rintro rfl
  exact not_in_out c _ f1 f2 _ f3 (fly_good c _ f1 f2 _ ng hf).2.2

/-- The out-step of an empty cell is not the step of arrival. -/
theorem next_ne (c : Cert pb H W unk on) {e : Edge} (h : Good c e) : (next c e).2 ≠ opp e.2 := by
  obtain ⟨f1, f2, f3⟩ := in_head c h
  have hg := (good_next c h).2.2
  rw [next_fst] at hg
  intro heq
  rw [heq] at hg
  exact not_in_out c _ f1 f2 _ f3 hg

theorem iter_shift (c : Cert pb H W unk on) (e : Edge) (n : Nat)
    (hk : ∀ i, i < n + 1 → firefly pb (hd ((next c)^[i] e)) = none) :
    ∀ i, i < n → firefly pb (hd ((next c)^[i] (next c e))) = none := fun i hi => by
  rw [← Function.iterate_succ_apply]; exact hk (i + 1) (by omega)

variable (hH : pb.height - 1 = H) (hW : pb.width - 1 = W)
include hH hW

theorem follows_path (c : Cert pb H W unk on) (n : Nat) : ∀ (e : Edge), Good c e →
    (∀ i, i < n → firefly pb (hd ((next c)^[i] e)) = none) → firefly pb (hd ((next c)^[n] e)) ≠ none →
    Follows pb on (hd e) e.2 (path c e n) := by
  induction n with
  | zero =>
    intro e h _ hn
    cases hf : firefly pb (hd e) with
    | none => exact absurd hf hn
    | some v =>
      obtain ⟨dg, ng⟩ := v
      exact ⟨dg, ng, hf, dot_ne c h dg ng hf⟩
  | succ n ih =>
    intro e h hk hn
    have he : firefly pb (hd e) = none := hk 0 (by omega)
    obtain ⟨f1, f2, f3⟩ := in_head c h
    have hg := good_next c h
    have hout : Out c (hd e) (next c e).2 = true := by
      have := hg.2.2; rwa [next_fst] at this
    have ih' := ih (next c e) hg (iter_shift c e n hk) (by rw [← Function.iterate_succ_apply]; exact hn)
    rw [hd_next] at ih'
    show firefly pb (hd e) = none ∧ armCount (pb.height - 1) (pb.width - 1) on (hd e) = 2 ∧
      (next c e).2 ≠ opp e.2 ∧ arm (pb.height - 1) (pb.width - 1) on (hd e) (next c e).2 = true ∧
      Follows pb on (nb (hd e) (next c e).2) (next c e).2 (path c (next c e) n)
    rw [hH, hW]
    refine ⟨he, ?_, next_ne c h, arm_of_out c _ f1 f2 _ hout, ih'⟩
    obtain ⟨h1, h2⟩ := empty_in c _ f1 f2 he _ f3
    rw [armCount_eq c _ f1 f2, h1, h2]

theorem isLine_path (c : Cert pb H W unk on) (n : Nat) (e : Edge) (h : Good c e)
    (hk : ∀ i, i < n → firefly pb (hd ((next c)^[i] e)) = none) (hn : firefly pb (hd ((next c)^[n] e)) ≠ none) :
    IsLine pb on e.1 e.2 (path c e n) := by
  refine ⟨?_, follows_path hH hW c n e h hk hn⟩
  rw [hH, hW]
  exact arm_of_out c _ h.1 h.2.1 _ h.2.2

omit hH hW in
/-- The counter on the steps of a numbered line is the number of turns still to come. -/
theorem bends_path (c : Cert pb H W unk on) (n : Nat) : ∀ (e : Edge), Good c e →
    (∀ i, i < n → firefly pb (hd ((next c)^[i] e)) = none) → firefly pb (hd ((next c)^[n] e)) ≠ none →
    c.nt (sg e) < unk → ((bends (e.2 :: path c e n) : Nat) : Int) = c.nt (sg e) := by
  induction n with
  | zero =>
    intro e h _ hn hlt
    obtain ⟨f1, f2, f3⟩ := in_head c h
    obtain ⟨_, _, _, f4, _, _, _⟩ := step_facts H W c.ul c.dr e.1 e.2 h.1 h.2.1 (good_has c h)
    cases hf : firefly pb (hd e) with
    | none => exact absurd hf hn
    | some v =>
      obtain ⟨dg, ng⟩ := v
      have hne := dot_ne c h dg ng hf
      obtain ⟨_, _, _, h4⟩ : FlyOk H W unk c.ul c.dr c.nt (hd e) dg ng := c.flies _ f1 _ f2 dg ng hf
      unfold In at f3; rw [Bool.and_eq_true] at f3
      have := (h4 (opp e.2) (Ne.symm hne) f3.1).2 f3.2
      have f4' : segOf (hd e) (opp e.2) = sg e := f4
      rw [f4'] at this
      show ((0 : Nat) : Int) = _
      rcases this with h0 | h0 <;> omega
  | succ n ih =>
    intro e h hk hn hlt
    have he : firefly pb (hd e) = none := hk 0 (by omega)
    obtain ⟨f1, f2, f3⟩ := in_head c h
    obtain ⟨_, _, _, f4, _, _, _⟩ := step_facts H W c.ul c.dr e.1 e.2 h.1 h.2.1 (good_has c h)
    have f4' : segOf (hd e) (opp e.2) = sg e := f4
    have hg := good_next c h
    have hout : Out c (hd e) (next c e).2 = true := by
      have := hg.2.2; rwa [next_fst] at this
    have hne := next_ne c h
    obtain ⟨_, _, h3⟩ : EmptyOk H W unk c.ul c.dr c.nt (hd e) := c.empties _ f1 _ f2 he
    unfold In at f3; rw [Bool.and_eq_true] at f3
    unfold Out at hout; rw [Bool.and_eq_true] at hout
    have key := h3 (opp e.2) (next c e).2 (Ne.symm hne) f3.1 hout.1 f3.2 hout.2
    rw [f4', ← sg_next, isVert_opp] at key
    have ih' := ih (next c e) hg (iter_shift c e n hk) (by rw [← Function.iterate_succ_apply]; exact hn)
    show (((if e.2 = (next c e).2 then 0 else 1) + bends ((next c e).2 :: path c (next c e) n) : Nat) : Int) = _
    by_cases hv : isVert e.2 = isVert (next c e).2
    · rw [if_pos hv] at key
      rw [if_pos (eq_of_isVert hv hne), Nat.zero_add, ih' (by omega), key]
    · rw [if_neg hv] at key
      rw [if_neg (ne_of_isVert hv)]
      rcases key with ⟨k1, _⟩ | k1
      · omega
      · push_cast
        rw [ih' (by omega), k1]
        ring

/-- The line of the firefly at the tail of `g` ends at the first firefly it meets. -/
theorem endsAt_path (c : Cert pb H W unk on) (n : Nat) (g : Edge) (h : Good c g) (hfly : firefly pb g.1 ≠ none)
    (hk : ∀ i, i < n → firefly pb (hd ((next c)^[i] g)) = none) (hn : firefly pb (hd ((next c)^[n] g)) ≠ none) :
    EndsAt pb on g.1 (hd ((next c)^[n] g)) := by
  cases hf : firefly pb g.1 with
  | none => exact absurd hf hfly
  | some v =>
    obtain ⟨d0, n0⟩ := v
    have hd0 := fly_out c g.1 h.1 h.2.1 d0 n0 hf g.2 h.2.2
    refine ⟨d0, n0, path c g n, hf, ?_, ?_⟩
    · rw [← hd0]; exact isLine_path hH hW c n g h hk hn
    · rw [← hd0]; exact walk_path c n g

/-! ### `Linked` is an equivalence relation -/

omit hH hW in
theorem linked_trans {p q r : Pt} (h1 : Linked pb on p q) (h2 : Linked pb on q r) : Linked pb on p r := by
  induction h2 with
  | refl => exact h1
  | step _ hs ih => exact Linked.step ih hs

omit hH hW in
theorem linked_symm {p q : Pt} (h : Linked pb on p q) : Linked pb on q p := by
  induction h with
  | refl => exact Linked.refl _
  | step _ hs ih => exact linked_trans (Linked.step (Linked.refl _) hs.symm) ih

/-- Every edge of the orbit of a firefly's dot step lies on the line of a firefly linked to it. -/
theorem owner (c : Cert pb H W unk on) {a : Edge} (ha : Good c a) (hfa : firefly pb a.1 ≠ none) (m : Nat) :
    ∃ g k, Good c g ∧ firefly pb g.1 ≠ none ∧ (next c)^[m] a = (next c)^[k] g ∧
      (∀ i, i < k → firefly pb (hd ((next c)^[i] g)) = none) ∧ Linked pb on a.1 g.1 := by
  induction m with
  | zero => exact ⟨a, 0, ha, hfa, rfl, fun i hi => absurd hi (Nat.not_lt_zero i), Linked.refl _⟩
  | succ m ih =>
    obtain ⟨g, k, hg, hfg, heq, hk, hl⟩ := ih
    cases hf : firefly pb (hd ((next c)^[k] g)) with
    | none =>
      refine ⟨g, k + 1, hg, hfg, ?_, fun i hi => ?_, hl⟩
      · rw [Function.iterate_succ_apply', Function.iterate_succ_apply', heq]
      · rcases Nat.lt_succ_iff_lt_or_eq.mp hi with h | h
        · exact hk i h
        · rw [h]; exact hf
    | some v =>
      have hn : firefly pb (hd ((next c)^[k] g)) ≠ none := by rw [hf]; exact Option.some_ne_none _
      refine ⟨(next c)^[k + 1] g, 0, good_iter c hg _, ?_, ?_, fun i hi => absurd hi (Nat.not_lt_zero i), ?_⟩
      · rw [Function.iterate_succ_apply', next_fst]; exact hn
      · rw [Function.iterate_succ_apply', Function.iterate_succ_apply', heq]; rfl
      · refine Linked.step hl (Or.inl ?_)
        rw [Function.iterate_succ_apply', next_fst]
        exact endsAt_path hH hW c k g hg hfg hk hn

/-! ### the four rules -/

omit hW in
theorem le_of_lt_height {y : Nat} (h : y < pb.height) : y ≤ H := by omega

omit hH in
theorem le_of_lt_width {x : Nat} (h : x < pb.width) : x ≤ W := by omega

theorem noBranch_of_cert (c : Cert pb H W unk on) (y : Nat) (hy : y < pb.height) (x : Nat) (hx : x < pb.width)
    (he : firefly pb (y, x) = none) :
    armCount (pb.height - 1) (pb.width - 1) on (y, x) = 0 ∨ armCount (pb.height - 1) (pb.width - 1) on (y, x) = 2 := by
  have hy' : y ≤ H := by omega
  have hx' : x ≤ W := by omega
  rw [hH, hW, armCount_eq c (y, x) hy' hx']
  obtain ⟨h1, h2, _⟩ := c.empties y hy' x hx' he
  omega

theorem lines_of_cert (c : Cert pb H W unk on)
    (hunk : ∀ y x d k, y ≤ H → x ≤ W → firefly pb (y, x) = some (d, some k) → k < unk)
    (y : Nat) (hy : y < pb.height) (x : Nat) (hx : x < pb.width) (d : Dir) (n : Option Int)
    (hf : firefly pb (y, x) = some (d, n)) :
    ∃ ds, IsLine pb on (y, x) d ds ∧ ∀ k, n = some k → ((bends (d :: ds) : Nat) : Int) = k := by
  have hy' : y ≤ H := by omega
  have hx' : x ≤ W := by omega
  have hg : Good c ((y, x), d) := fly_good c (y, x) hy' hx' d n hf
  have hfly : firefly pb ((y, x), d).1 ≠ none := by
    show firefly pb (y, x) ≠ none
    rw [hf]; exact Option.some_ne_none _
  obtain ⟨m, hk, hn⟩ := line_exists c hg hfly
  refine ⟨path c ((y, x), d) m, isLine_path hH hW c m _ hg hk hn, ?_⟩
  rintro k rfl
  obtain ⟨_, _, h3, _⟩ := c.flies y hy' x hx' d (some k) hf
  have hlt := hunk y x d k hy' hx' hf
  have h3' : c.nt (sg ((y, x), d)) = k := h3
  rw [← h3']
  exact bends_path c m _ hg hk hn (by rw [h3']; exact hlt)

omit hH hW in
/-- A drawn step is a good edge in one of its two directions. -/
theorem good_of_on (c : Cert pb H W unk on) (s : Seg) (hs : s.Valid H W) (hon : on s = true) :
    ∃ e, Good c e ∧ sg e = s := by
  obtain ⟨h1, _⟩ := c.orient s hs
  rw [hon] at h1
  have h1 := h1.symm
  rw [Bool.or_eq_true] at h1
  cases s with
  | h y x =>
    simp only [Seg.Valid] at hs
    rcases h1 with h1 | h1
    · refine ⟨((y, x + 1), .left), ⟨hs.1, by show x + 1 ≤ W; omega, ?_⟩, ?_⟩
      · simp only [Out, has, outFrom, segOf, Nat.add_sub_cancel, Bool.and_eq_true, decide_eq_true_eq]
        exact ⟨by omega, h1⟩
      · simp only [sg, segOf, Nat.add_sub_cancel]
    · refine ⟨((y, x), .right), ⟨hs.1, by show x ≤ W; omega, ?_⟩, rfl⟩
      simp only [Out, has, outFrom, segOf, Bool.and_eq_true, decide_eq_true_eq]
      exact ⟨hs.2, h1⟩
  | v y x =>
    simp only [Seg.Valid] at hs
    rcases h1 with h1 | h1
    · refine ⟨((y + 1, x), .up), ⟨by show y + 1 ≤ H; omega, hs.2, ?_⟩, ?_⟩
      · simp only [Out, has, outFrom, segOf, Nat.add_sub_cancel, Bool.and_eq_true, decide_eq_true_eq]
        exact ⟨by omega, h1⟩
      · simp only [sg, segOf, Nat.add_sub_cancel]
    · refine ⟨((y, x), .down), ⟨by show y ≤ H; omega, hs.2, ?_⟩, rfl⟩
      simp only [Out, has, outFrom, segOf, Bool.and_eq_true, decide_eq_true_eq]
      exact ⟨hs.1, h1⟩

omit hH hW in
theorem fly_of_isSome {p : Pt} (h : (firefly pb p).isSome = true) : ∃ d n, firefly pb p = some (d, n) := by
  obtain ⟨⟨d, n⟩, hv⟩ := Option.isSome_iff_exists.mp h
  exact ⟨d, n, hv⟩

/-- A well-formed board has a firefly, whose dot step is a good edge. -/
theorem exists_fly (c : Cert pb H W unk on) (hwf : WellFormed pb) :
    ∃ a0, Good c a0 ∧ firefly pb a0.1 ≠ none := by
  obtain ⟨_, _, _, _, _, y, hy, x, hx, hs⟩ := hwf
  obtain ⟨d, n, hf⟩ := fly_of_isSome hs
  refine ⟨((y, x), d), fly_good c (y, x) (by show y ≤ H; omega) (by show x ≤ W; omega) d n hf, ?_⟩
  show firefly pb (y, x) ≠ none
  rw [hf]; exact Option.some_ne_none _

theorem covered_of_cert (c : Cert pb H W unk on) (hwf : WellFormed pb) (s : Seg)
    (hs : s.Valid (pb.height - 1) (pb.width - 1)) (hon : on s = true) :
    ∃ p d n ds, firefly pb p = some (d, n) ∧ IsLine pb on p d ds ∧
      s ∈ (steps p (d :: ds)).map fun st => segOf st.1 st.2 := by
  rw [hH, hW] at hs
  obtain ⟨e, he, hse⟩ := good_of_on c s hs hon
  obtain ⟨a0, ha0, hfly0⟩ := exists_fly hH hW c hwf
  obtain ⟨a, k, ha, hfa, hka, hkk⟩ := cover_src c ha0 hfly0 he
  obtain ⟨m, hk, hn⟩ := line_exists c ha hfa
  have hkm : k ≤ m := by
    by_contra hlt
    exact hn (hkk m (by omega))
  cases hf : firefly pb a.1 with
  | none => exact absurd hf hfa
  | some v =>
    obtain ⟨d0, n0⟩ := v
    have hd0 := fly_out c a.1 ha.1 ha.2.1 d0 n0 hf a.2 ha.2.2
    refine ⟨a.1, d0, n0, path c a m, hf, ?_, ?_⟩
    · rw [← hd0]; exact isLine_path hH hW c m a ha hk hn
    · rw [← hd0, List.mem_map]
      exact ⟨e, by rw [← hka]; exact mem_steps c m a k hkm, hse⟩

theorem connected_of_cert (c : Cert pb H W unk on) (p q : Pt) (hp : (firefly pb p).isSome = true)
    (hq : (firefly pb q).isSome = true) (hp1 : p.1 < pb.height) (hp2 : p.2 < pb.width) (hq1 : q.1 < pb.height)
    (hq2 : q.2 < pb.width) : Linked pb on p q := by
  obtain ⟨dp, np, hfp⟩ := fly_of_isSome hp
  obtain ⟨dq, nq, hfq⟩ := fly_of_isSome hq
  have ga : Good c (p, dp) := fly_good c p (by omega) (by omega) dp np hfp
  have gb : Good c (q, dq) := fly_good c q (by omega) (by omega) dq nq hfq
  have fa : firefly pb (p, dp).1 ≠ none := by
    show firefly pb p ≠ none
    rw [hfp]; exact Option.some_ne_none _
  have fb : firefly pb (q, dq).1 ≠ none := by
    show firefly pb q ≠ none
    rw [hfq]; exact Option.some_ne_none _
  obtain ⟨m, m', hm⟩ := meet c ga gb
  obtain ⟨g, k, hg, hfg, e1, hk, l1⟩ := owner hH hW c ga fa m
  obtain ⟨g', k', hg', hfg', e2, hk', l2⟩ := owner hH hW c gb fb m'
  have hgg : g = g' := uniq_owner c hg hg' hfg hfg' k k' (by rw [← e1, ← e2, hm]) hk hk'
  subst hgg
  exact linked_trans l1 (linked_symm l2)

end

/-- SOUNDNESS: a drawing with an arithmetic certificate obeys the published rules. -/
theorem rules_of_cert (pb : Cspuz.Puzzles.Firefly.Problem) (H W : Nat)
    (hH : pb.height = H + 1) (hW : pb.width = W + 1) (hwf : Cspuz.Spec.Firefly.WellFormed pb) (unk : Int)
    (hunk : ∀ y x d k, y ≤ H → x ≤ W → Cspuz.Spec.Firefly.firefly pb (y, x) = some (d, some k) → k < unk)
    (on : Cspuz.Spec.FrameGeom.Seg → Bool) (c : Cspuz.Proofs.C11FireflyCert.Cert pb H W unk on) :
    Cspuz.Spec.Firefly.RulesOn pb on := by
  have hH' : pb.height - 1 = H := by omega
  have hW' : pb.width - 1 = W := by omega
  exact
    { noBranch := noBranch_of_cert hH' hW' c
      lines := lines_of_cert hH' hW' c hunk
      covered := covered_of_cert hH' hW' c hwf
      connected := connected_of_cert hH' hW' c }

end Cspuz.Proofs.C11FireflySound
