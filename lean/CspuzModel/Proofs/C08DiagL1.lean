/-
  C08, diagonal encoding, layer L1: the rank part of the program emitted by `notSegmentingGridDiag` is
  realizable iff a `DiagCert` exists.
-/
import CspuzModel.Proofs.C08Adj
import CspuzModel.Proofs.C08Nb
import Mathlib.Data.List.Perm.Lattice
namespace Cspuz.Proofs.C08DiagL1
open Cspuz Cspuz.Spec Cspuz.Proofs Cspuz.Proofs.C08Adj Cspuz.Proofs.C08Nb

/-! ### closed form of the emitted program -/

def rankE (w base y x : Nat) : Expr := .ivar (base + y * w + x)

def lessE (h w : Nat) (a : List Expr) (base y x : Nat) : List Expr :=
  (nbOf h w y x).map fun p =>
    .node .and [.node .lt [rankE w base p.1 p.2, rankE w base y x], a.getD (p.1 * w + p.2) .litNone]

def neE (h w base y x : Nat) : List Expr :=
  (nbOf h w y x).filterMap fun p =>
    if p.1 < y ∨ (p.1 = y ∧ p.2 < x) then some (.node .ne [rankE w base p.1 p.2, rankE w base y x])
    else none

def cellCs (h w : Nat) (a : List Expr) (base : Nat) (yx : Nat × Nat) : List Expr :=
  neE h w base yx.1 yx.2 ++
    [.node .imp [a.getD (yx.1 * w + yx.2) .litNone,
      .node .le [countTrueE (lessE h w a base yx.1 yx.2),
        .litI (if (nbOf h w yx.1 yx.2).length < 4 then 0 else 1)]]]

def cells (h w : Nat) : List (Nat × Nat) :=
  (List.range h).flatMap fun y => (List.range w).map fun x => (y, x)

theorem mem_cells {h w : Nat} {p : Nat × Nat} : p ∈ cells h w ↔ p.1 < h ∧ p.2 < w := by
  obtain ⟨y, x⟩ := p
  simp only [cells, List.mem_flatMap, List.mem_range, List.mem_map, Prod.mk.injEq]
  constructor
  · rintro ⟨y', hy', x', hx', rfl, rfl⟩; exact ⟨hy', hx'⟩
  · rintro ⟨hy, hx⟩; exact ⟨y, hy, x, hx, rfl, rfl⟩

def hiB (h w : Nat) : Int := Int.fdiv (((h * w : Nat) : Int) - 1) 2

def diagProg (h w : Nat) (a : List Expr) (base : Nat) : Prog :=
  { decls := List.replicate (h * w) (.int 0 (hiB h w)),
    cs := ((cells h w).map (cellCs h w a base)).flatten }

theorem getD_eq {a : List Expr} {i : Nat} (hi : i < a.length) : a.getD i .litNone = a[i] := by
  simp [List.getD, List.getElem?_eq_getElem hi]

theorem diag_eq_prog {h w : Nat} {a : List Expr} {base : Nat} (hpos : 0 < h * w)
    (hlen : a.length = h * w) :
    notSegmentingGridDiag h w a base =
      (notAdjacentGrid h w a >>= fun p1 => .ok (p1 ++ diagProg h w a base)) := by
  unfold notSegmentingGridDiag
  congr 1
  funext p1
  have hdecl : intArrayDecls (h * w) 0 (pyDiv (((h * w : Nat) : Int) - 1) 2) =
      .ok (List.replicate (h * w) (.int 0 (hiB h w))) := by
    unfold intArrayDecls pyDiv hiB
    rw [if_neg]
    rw [Int.fdiv_eq_ediv_of_nonneg _ (by omega)]
    omega
  rw [hdecl, ok_bind]
  show (List.mapM _ (cells h w) >>= _) = _
  rw [mapM_eq_ok_map (g := cellCs h w a base), ok_bind]
  · rfl
  · intro yx hyx
    obtain ⟨hy, hx⟩ := mem_cells.1 hyx
    show (List.mapM _ (nbOf h w yx.1 yx.2) >>= _) = _
    rw [mapM_eq_ok_map (g := fun p => .node .and
      [.node .lt [rankE w base p.1 p.2, rankE w base yx.1 yx.2], a.getD (p.1 * w + p.2) .litNone])]
    · rw [ok_bind]
      have hct := countTrue_ok_of_boolLike (xs := lessE h w a base yx.1 yx.2) (by
        intro e he
        simp only [lessE, List.mem_map] at he
        obtain ⟨_, _, rfl⟩ := he
        rfl)
      unfold lessE at hct
      rw [hct, ok_bind, getE_eq_ok (hlen ▸ cell_lt hy hx), ok_bind]
      unfold cellCs lessE neE
      rw [getD_eq (hlen ▸ cell_lt hy hx)]
      rfl
    · intro p hp
      obtain ⟨h1, h2, -⟩ := mem_nbOf.1 hp
      rw [getE_eq_ok (hlen ▸ cell_lt h1 h2), ok_bind, getD_eq (hlen ▸ cell_lt h1 h2)]
      rfl

/-! ### meaning of the emitted constraints under an extension `σ'` of `σ` -/

/-- ranks read off an assignment -/
def rk (σ' : Asg) (w base : Nat) (y x : Nat) : Int := σ'.i (base + y * w + x)

section Sem
variable {h w : Nat} {a : List Expr} {base : Nat} {σ σ' : Asg}

theorem eval_lessE (hlen : a.length = h * w) (ha : BoolArgs base a) (hag : AgreeBelow base σ σ')
    (y x : Nat) :
    (lessE h w a base y x).map (eval σ') =
      ((nbOf h w y x).map (fun p => decide (rk σ' w base p.1 p.2 < rk σ' w base y x) &&
          truthAt σ a (p.1 * w + p.2))).map (fun b => some (.b b)) := by
  unfold lessE
  rw [List.map_map, List.map_map]
  apply List.map_congr_left
  intro p hp
  obtain ⟨h1, h2, -⟩ := mem_nbOf.1 hp
  have hj : p.1 * w + p.2 < a.length := hlen ▸ cell_lt h1 h2
  simp only [Function.comp, getD_eq hj, rankE]
  rw [eval_and2 (eval_cmp rfl (eval_ivar ..) (eval_ivar ..)) (eval_boolArg ha hag hj)]
  rfl

theorem eval_ct (hlen : a.length = h * w) (ha : BoolArgs base a) (hag : AgreeBelow base σ σ')
    (y x : Nat) :
    eval σ' (countTrueE (lessE h w a base y x)) =
      some (.i ((((nbOf h w y x).filter (fun p => decide (rk σ' w base p.1 p.2 < rk σ' w base y x) &&
          truthAt σ a (p.1 * w + p.2))).length : Nat))) := by
  rw [eval_countTrueE _ (eval_lessE hlen ha hag y x)]
  congr 3
  rw [List.count_eq_countP, List.countP_map, List.countP_eq_length_filter]
  congr 1
  apply List.filter_congr
  intro p _
  simp

theorem mem_neE {y x : Nat} {c : Expr} :
    c ∈ neE h w base y x ↔ ∃ p ∈ nbOf h w y x, (p.1 < y ∨ (p.1 = y ∧ p.2 < x)) ∧
      c = .node .ne [rankE w base p.1 p.2, rankE w base y x] := by
  unfold neE
  simp only [List.mem_filterMap]
  constructor
  · rintro ⟨p, hp, hc⟩
    split at hc
    · cases hc; exact ⟨p, hp, by assumption, rfl⟩
    · cases hc
  · rintro ⟨p, hp, hc, rfl⟩
    exact ⟨p, hp, by rw [if_pos hc]⟩

/-- The constraints of one cell. -/
theorem sat_cellCs (hlen : a.length = h * w) (ha : BoolArgs base a) (hag : AgreeBelow base σ σ')
    {yx : Nat × Nat} (hy : yx.1 < h) (hx : yx.2 < w) :
    (∀ c ∈ cellCs h w a base yx, eval σ' c = some (.b true)) ↔
      (∀ p ∈ nbOf h w yx.1 yx.2, (p.1 < yx.1 ∨ (p.1 = yx.1 ∧ p.2 < yx.2)) →
        rk σ' w base p.1 p.2 ≠ rk σ' w base yx.1 yx.2) ∧
      (truthAt σ a (yx.1 * w + yx.2) = true →
        ((nbOf h w yx.1 yx.2).filter (fun p =>
            decide (rk σ' w base p.1 p.2 < rk σ' w base yx.1 yx.2) &&
            truthAt σ a (p.1 * w + p.2))).length ≤
          (if (nbOf h w yx.1 yx.2).length < 4 then 0 else 1)) := by
  have hii : yx.1 * w + yx.2 < a.length := hlen ▸ cell_lt hy hx
  have hai := eval_boolArg ha hag hii
  have hct := eval_ct hlen ha hag yx.1 yx.2
  have hne : ∀ p : Nat × Nat, eval σ' (.node .ne [rankE w base p.1 p.2, rankE w base yx.1 yx.2]) =
      some (.b (rk σ' w base p.1 p.2 != rk σ' w base yx.1 yx.2)) := fun p =>
    eval_cmp rfl (eval_ivar ..) (eval_ivar ..)
  have himp := eval_thenRaw hai (eval_cmp (op := .le) rfl hct
    (eval_litI σ' (if (nbOf h w yx.1 yx.2).length < 4 then 0 else 1)))
  unfold thenRaw at himp
  unfold cellCs
  rw [getD_eq hii]
  simp only [List.mem_append, List.mem_singleton]
  constructor
  · intro H
    constructor
    · intro p hp hlt
      have := H _ (.inl (mem_neE.2 ⟨p, hp, hlt, rfl⟩))
      rw [hne] at this
      simpa using this
    · intro ht
      have := H _ (.inr rfl)
      rw [himp, ht] at this
      simp only [Bool.not_true, Bool.false_or, cmpOp_le, Option.some.injEq, Val.b.injEq,
        decide_eq_true_eq] at this
      split at this <;> rename_i hc
      · rw [if_pos hc]; omega
      · rw [if_neg hc]; omega
  · rintro ⟨H1, H2⟩ c hc
    rcases hc with hc | rfl
    · obtain ⟨p, hp, hlt, rfl⟩ := mem_neE.1 hc
      rw [hne]
      simpa using H1 p hp hlt
    · rw [himp]
      cases ht : truthAt σ a (yx.1 * w + yx.2)
      · simp
      · have := H2 ht
        simp only [Bool.not_true, Bool.false_or, cmpOp_le, Option.some.injEq, Val.b.injEq,
          decide_eq_true_eq]
        split at this <;> rename_i hc
        · rw [if_pos hc]; omega
        · rw [if_neg hc]; omega

theorem satFrag_diagProg_iff (hlen : a.length = h * w) (ha : BoolArgs base a)
    (hag : AgreeBelow base σ σ') :
    SatFrag base (diagProg h w a base) σ' ↔
      (∀ k, k < h * w → 0 ≤ σ'.i (base + k) ∧ σ'.i (base + k) ≤ hiB h w) ∧
      ∀ yx ∈ cells h w,
        (∀ p ∈ nbOf h w yx.1 yx.2, (p.1 < yx.1 ∨ (p.1 = yx.1 ∧ p.2 < yx.2)) →
          rk σ' w base p.1 p.2 ≠ rk σ' w base yx.1 yx.2) ∧
        (truthAt σ a (yx.1 * w + yx.2) = true →
          ((nbOf h w yx.1 yx.2).filter (fun p =>
              decide (rk σ' w base p.1 p.2 < rk σ' w base yx.1 yx.2) &&
              truthAt σ a (p.1 * w + p.2))).length ≤
            (if (nbOf h w yx.1 yx.2).length < 4 then 0 else 1)) := by
  unfold SatFrag diagProg
  simp only
  refine and_congr ?_ ?_
  · have := sat_rank_decls (n := h * w) (lo := 0) (hi := hiB h w) (rest := [])
      (by intro d hd; cases hd) (fun k => σ'.i (base + k))
    rw [List.append_nil] at this
    exact this
  · simp only [List.mem_flatten, List.mem_map]
    constructor
    · intro H yx hyx
      obtain ⟨hy, hx⟩ := mem_cells.1 hyx
      rw [← sat_cellCs hlen ha hag hy hx]
      intro c hc
      exact H c ⟨_, ⟨yx, hyx, rfl⟩, hc⟩
    · rintro H c ⟨l, ⟨yx, hyx, rfl⟩, hc⟩
      obtain ⟨hy, hx⟩ := mem_cells.1 hyx
      exact (sat_cellCs hlen ha hag hy hx).2 (H yx hyx) c hc

end Sem

/-! ### certificate ⇔ realizable -/

/-- Extension of `σ` by the certificate's ranks. -/
def extend (σ : Asg) (w base : Nat) (rank : Nat → Nat → Int) : Asg where
  i := fun id => if base ≤ id then rank ((id - base) / w) ((id - base) % w) else σ.i id
  b := σ.b

theorem extend_agree (σ : Asg) (w base : Nat) (rank : Nat → Nat → Int) :
    AgreeBelow base σ (extend σ w base rank) := by
  intro id hid
  simp only [extend]
  rw [if_neg (by omega)]
  simp

theorem divmod_cell {w y x : Nat} (hx : x < w) : (y * w + x) / w = y ∧ (y * w + x) % w = x := by
  have hw : 0 < w := by omega
  rw [Nat.mul_comm y w]
  exact ⟨by rw [Nat.mul_add_div hw, Nat.div_eq_of_lt hx, Nat.add_zero],
         by rw [Nat.mul_add_mod, Nat.mod_eq_of_lt hx]⟩

theorem rk_extend (σ : Asg) {w : Nat} (base : Nat) (rank : Nat → Nat → Int) (y : Nat) {x : Nat}
    (hx : x < w) : rk (extend σ w base rank) w base y x = rank y x := by
  simp only [rk, extend]
  rw [if_pos (by omega), show base + y * w + x - base = y * w + x by omega,
    (divmod_cell hx).1, (divmod_cell hx).2]

theorem border_iff {h w y x : Nat} (hy : y < h) (hx : x < w) :
    (if (nbOf h w y x).length < 4 then 0 else 1) =
      (if y = 0 ∨ y + 1 = h ∨ x = 0 ∨ x + 1 = w then 0 else 1) := by
  by_cases hc : (nbOf h w y x).length < 4
  · rw [if_pos hc, if_pos ((nbOf_length_lt hy hx).1 hc)]
  · rw [if_neg hc, if_neg (fun h' => hc ((nbOf_length_lt hy hx).2 h'))]

theorem diag_realizable_iff_cert {h w : Nat} {a : List Expr} {base : Nat} (σ : Asg)
    (hlen : a.length = h * w) (ha : BoolArgs base a) :
    Realizable base (diagProg h w a base) σ ↔ Nonempty (DiagCert h w (truthAt σ a)) := by
  constructor
  · rintro ⟨σ', hag, hs⟩
    obtain ⟨hb, hcell⟩ := (satFrag_diagProg_iff hlen ha hag).1 hs
    have hbound : ∀ y x, y < h → x < w →
        0 ≤ rk σ' w base y x ∧ rk σ' w base y x ≤ hiB h w := by
      intro y x hy hx
      have := hb (y * w + x) (cell_lt hy hx)
      rw [← Nat.add_assoc] at this
      exact this
    refine ⟨{ rank := rk σ' w base,
              rank_lo := fun y x hy hx => (hbound y x hy hx).1,
              rank_hi := fun y x hy hx => (hbound y x hy hx).2,
              distinct := ?_, loc := ?_ }⟩
    · intro y x y' x' hy hx hy' hx' hdy hdx
      rcases hdy with hdy | hdy
      · -- (y, x) is above (y', x')
        have := (hcell (y', x') (mem_cells.2 ⟨hy', hx'⟩)).1 (y, x)
          (mem_nbOf.2 ⟨hy, hx, by omega, by omega⟩) (Or.inl (by simp only; omega))
        exact this
      · have := (hcell (y, x) (mem_cells.2 ⟨hy, hx⟩)).1 (y', x')
          (mem_nbOf.2 ⟨hy', hx', by omega, by omega⟩) (Or.inl (by simp only; omega))
        exact this.symm
    · intro y x hy hx hact nb hmem hnd
      have hperm : nb.Perm (nbOf h w y x) := by
        rw [List.perm_ext_iff_of_nodup hnd (nbOf_nodup h w y x)]
        intro p
        rw [hmem p, mem_nbOf]
      rw [(hperm.filter _).length_eq, ← border_iff hy hx]
      exact (hcell (y, x) (mem_cells.2 ⟨hy, hx⟩)).2 hact
  · rintro ⟨c⟩
    refine ⟨extend σ w base c.rank, extend_agree _ _ _ _, ?_⟩
    rw [satFrag_diagProg_iff hlen ha (extend_agree _ _ _ _)]
    constructor
    · intro k hk
      have hw : 0 < w := by
        rcases Nat.eq_zero_or_pos w with h0 | h0
        · subst h0; simp at hk
        · exact h0
      have hkm := Nat.mod_lt k hw
      have hkd : k / w < h := Nat.div_lt_of_lt_mul (by rw [Nat.mul_comm]; exact hk)
      have : (extend σ w base c.rank).i (base + k) = c.rank (k / w) (k % w) := by
        simp only [extend]
        rw [if_pos (by omega), show base + k - base = k by omega]
      rw [this]
      exact ⟨c.rank_lo _ _ hkd hkm, c.rank_hi _ _ hkd hkm⟩
    · intro yx hyx
      obtain ⟨hy, hx⟩ := mem_cells.1 hyx
      rw [rk_extend σ base c.rank yx.1 hx]
      constructor
      · intro p hp _
        obtain ⟨h1, h2, h3, h4⟩ := mem_nbOf.1 hp
        rw [rk_extend σ base c.rank p.1 h2]
        exact c.distinct p.1 p.2 yx.1 yx.2 h1 h2 hy hx (by omega) (by omega)
      · intro hact
        have := c.loc yx.1 yx.2 hy hx hact (nbOf h w yx.1 yx.2) (fun p => mem_nbOf)
          (nbOf_nodup h w yx.1 yx.2)
        rw [border_iff hy hx]
        refine le_trans (le_of_eq ?_) this
        congr 1
        apply List.filter_congr
        intro p hp
        obtain ⟨h1, h2, -⟩ := mem_nbOf.1 hp
        rw [rk_extend σ base c.rank p.1 h2]

end Cspuz.Proofs.C08DiagL1
